(* C14 model driver.
   stdin lines:  "<id>\tP <sexp of program>"   -> "<id>\t<ref outcome>|<ref stdout>|<abrupt kinds>|<dev outcome>|<dev stdout>"
                 "<id>\tT <nil> <jump> <undef> ; from to jump fin ; ... ; code bytes" -> "<id>\t<table verdict>"
   ref = run true (reference), dev = run false (finally skipped on abrupt exit of a catch clause).
   stdout is the comma-joined list of printed lines. *)
open C14_Control

let rec nat_of_int i = if i <= 0 then Datatypes.O else Datatypes.S (nat_of_int (i - 1))

(* ---- s-expressions ---- *)
type sx = A of string | L of sx list

let parse (s : string) : sx =
  let n = String.length s in
  let pos = ref 0 in
  let rec skip () = if !pos < n && (s.[!pos] = ' ' || s.[!pos] = '\n') then (incr pos; skip ()) in
  let rec item () =
    skip ();
    if !pos >= n then failwith "sexp: eof"
    else if s.[!pos] = '(' then begin
      incr pos;
      let rec items acc =
        skip ();
        if !pos >= n then failwith "sexp: unclosed"
        else if s.[!pos] = ')' then (incr pos; List.rev acc)
        else items (item () :: acc)
      in
      L (items [])
    end else begin
      let st = !pos in
      while !pos < n && s.[!pos] <> ' ' && s.[!pos] <> '(' && s.[!pos] <> ')' do incr pos done;
      A (String.sub s st (!pos - st))
    end
  in
  item ()

let z_of = function A s -> Zio.z_of_string s | _ -> failwith "int expected"
let nat_of = function A s -> nat_of_int (int_of_string s) | _ -> failwith "nat expected"

let rec val_of = function
  | A "nil" -> VNil
  | L [ A "i"; z ] -> VInt (z_of z)
  | L [ A "b"; A "1" ] -> VBool true
  | L [ A "b"; A "0" ] -> VBool false
  | L [ A "s"; z ] -> VStr (z_of z)
  | _ -> failwith "val"

let pat_of = function
  | L [ A "any"; A "0" ] -> PAny false
  | L [ A "any"; A "1" ] -> PAny true
  | A "pint" -> PInt
  | A "pstr" -> PStr
  | L [ A "lit"; v ] -> PLit (val_of v)
  | _ -> failwith "pat"

let rec expr_of = function
  | L [ A "val"; v ] -> EVal (val_of v)
  | L [ A "var"; x ] -> EVar (nat_of x)
  | L [ A "lt"; x; n ] -> ELt (nat_of x, z_of n)
  | L [ A "tag"; k; e ] -> ETag (z_of k, expr_of e)
  | L [ A "not"; e ] -> ENot (expr_of e)
  | L [ A "and"; a; b ] -> EAnd (expr_of a, expr_of b)
  | L [ A "or"; a; b ] -> EOr (expr_of a, expr_of b)
  | L [ A "coal"; a; b ] -> ECoal (expr_of a, expr_of b)
  | _ -> failwith "expr"

let rec sstmt_of = function
  | L [ A "pprint"; k ] -> PPrint (z_of k)
  | L [ A "pshow"; x ] -> PShow (nat_of x)
  | L [ A "pincr"; x ] -> PIncr (nat_of x)
  | L [ A "pseq"; a; b ] -> PSeq (sstmt_of a, sstmt_of b)
  | L [ A "piflt"; x; n; a; b ] -> PIfLt (nat_of x, z_of n, sstmt_of a, sstmt_of b)
  | _ -> failwith "sstmt"

let label_of = function A "none" -> None | x -> Some (nat_of x)

let rec stmt_of = function
  | A "skip" -> SSkip
  | L [ A "print"; k ] -> SPrint (z_of k)
  | L [ A "show"; e ] -> SShow (expr_of e)
  | L [ A "setc"; x; n ] -> SSetC (nat_of x, z_of n)
  | L [ A "incr"; x ] -> SIncr (nat_of x)
  | L [ A "seq"; a; b ] -> SSeq (stmt_of a, stmt_of b)
  | L [ A "if"; c; a; b ] -> SIf (expr_of c, stmt_of a, stmt_of b)
  | L [ A "loop"; l; b ] -> SLoop (label_of l, stmt_of b)
  | L [ A "while"; l; c; b ] -> SWhile (label_of l, expr_of c, stmt_of b)
  | L [ A "break"; l ] -> SBreak (label_of l)
  | L [ A "continue"; l ] -> SContinue (label_of l)
  | L [ A "return"; e ] -> SReturn (expr_of e)
  | L [ A "throw"; v ] -> SThrow (val_of v)
  | A "showcaught" -> SShowCaught
  | A "rethrow" -> SRethrow
  | L [ A "do"; b; L (A "catches" :: cs); fin ] ->
      let clause = function L [ A "c"; p; s ] -> (pat_of p, stmt_of s) | _ -> failwith "clause" in
      let f = match fin with A "nofin" -> None | L [ A "fin"; s ] -> Some (stmt_of s) | _ -> failwith "fin" in
      SDo (stmt_of b, List.map clause cs, f)
  | L [ A "defer"; b ] -> SDefer (sstmt_of b)
  | L [ A "call"; m; A sh ] -> SCall (nat_of m, sh = "1")
  | _ -> failwith "stmt"

let prog_of = function
  | L [ A "prog"; L (A "methods" :: ms); m ] -> { methods = List.map stmt_of ms; main = stmt_of m }
  | _ -> failwith "prog"

(* ---- rendering ---- *)
let show_val = function
  | VInt z -> Zio.string_of_z z
  | VNil -> "nil"
  | VBool true -> "true"
  | VBool false -> "false"
  | VStr t -> "\"s" ^ Zio.string_of_z t ^ "\""

let show_out tr =
  String.concat ","
    (List.filter_map (function Out k -> Some (Zio.string_of_z k) | OutV v -> Some (show_val v) | _ -> None) tr)

let kind_name z = match Zio.string_of_z z with "1" -> "break" | "2" -> "continue" | "3" -> "return" | "4" -> "throw" | s -> s

let abrupt_kinds tr =
  String.concat "," (List.filter_map (function CatchAbrupt (_, k) -> Some (kind_name k) | _ -> None) tr)

let show_outcome = function ODone -> "ok" | OUncaught v -> "uncaught " ^ show_val v

let fuel = nat_of_int 4000

let do_prog (src : string) : string =
  let p = prog_of (parse src) in
  match run true fuel p with
  | None -> "fuel||||"
  | Some (o, tr) -> (
      let r = show_outcome o ^ "|" ^ show_out tr ^ "|" ^ abrupt_kinds tr in
      match run false fuel p with
      | None -> r ^ "|fuel|"
      | Some (o2, tr2) -> r ^ "|" ^ show_outcome o2 ^ "|" ^ show_out tr2)

(* ---- tables ---- *)
let do_table (src : string) : string =
  let open C14_Catch in
  match String.split_on_char ';' src with
  | hdr :: rest -> (
      let ops = List.map Zio.z_of_string (Zio.split_sp hdr) in
      let opn, opj, opu = match ops with [ a; b; c ] -> (a, b, c) | _ -> failwith "ops" in
      let rec split_last = function [] -> ([], "") | [ x ] -> ([], x) | x :: r -> let a, b = split_last r in (x :: a, b) in
      let ents, code = split_last rest in
      let tbl =
        List.filter_map
          (fun e ->
            match Zio.split_sp e with
            | [ f; t; j; k ] -> Some { e_from = Zio.z_of_string f; e_to = Zio.z_of_string t; e_jump = Zio.z_of_string j; e_fin = k = "1" }
            | [] -> None
            | _ -> failwith "entry")
          ents
      in
      let code = List.map Zio.z_of_string (Zio.split_sp code) in
      let shape = List.for_all (fun e -> (not e.e_fin) || finally_entry_ok opn opj opu code e.e_jump) tbl in
      (if laminar tbl then "laminar" else "NOT-laminar") ^ " " ^ (if post_order tbl then "postorder" else "NOT-postorder") ^ " "
      ^ if shape then "shape" else "NOT-shape")
  | _ -> "bad-input"

let () =
  Zio.iter_lines (fun line ->
      match Zio.split_tab line with
      | id :: input :: _ ->
          let n = String.length input in
          let out =
            try
              if n > 2 && input.[0] = 'P' then do_prog (String.sub input 2 (n - 2))
              else if n > 2 && input.[0] = 'T' then do_table (String.sub input 2 (n - 2))
              else "bad-input"
            with Failure m -> "bad-input " ^ m
          in
          print_string (id ^ "\t" ^ out ^ "\n")
      | _ -> ())
