(* C16 model driver.
   stdin : "<id>\t<mode> <N> <Q> <cap>;<main body>;<task0>/<task1>/..."   mode: O (blocking sends, the tree before
           fixes/C16-nonblocking-enqueue) | F (fixed = the tree) | S (refuted variant: batched fallback that skips one,
           Model step_fn_skip; only used to classify an observed hang)
           cap = 0: no exhaustive exploration (verdict "nox"); only the first-enabled scheduler is run (first=, ffinal=)
           body = space separated tokens  sJ (start task J) | aJ (await promise J); may be empty
   stdout: "<id>\t<verdict> states=<n> hang=<class,...> exact=<0|1> det=<0|1> final=<t:pc:st,...> first=<verdict of the first-enabled scheduler>"
   verdict (breadth-first exploration of ALL interleavings of the extracted step_fn, up to <cap> states):
     term   no reachable state is stuck with the main thread unfinished (the process always exits)
     hang   no reachable state has the main thread finished
     mixed  both occur (schedule dependent)
     cap    state cap reached before the exploration finished (no verdict)
   The process exits when the main thread finishes, so stuck states after that are not counted.
   exact=1: in every explored terminal state each settled task t has takes = parks + 1 and settles = 1.
   det=1 : every terminal state with the main thread finished has the same task statuses and pcs.
   lost=<t,..>: tasks that in some explored stuck state are started, unsettled and in no place (occ = 0). *)
open C16_Await
open Datatypes

let rec nat_of_int n = if n <= 0 then O else S (nat_of_int (n - 1))
let rec int_of_nat = function O -> 0 | S n -> 1 + int_of_nat n

let parse_body (s : string) : instr list =
  String.split_on_char ' ' (String.trim s)
  |> List.filter (fun t -> t <> "")
  |> List.map (fun t ->
         let j = nat_of_int (int_of_string (String.sub t 1 (String.length t - 1))) in
         match t.[0] with 's' -> ISpawn j | 'a' -> IAwait j | _ -> failwith ("bad token " ^ t))

let ints l = String.concat "," (List.map (fun n -> string_of_int (int_of_nat n)) l)
let st_char = function TNew -> "n" | TLive -> "l" | TDone -> "d"
let ws_str = function
  | WIdle -> "i"
  | WRun t -> "r" ^ string_of_int (int_of_nat t)
  | WAwaitHold (t, j) -> "h" ^ string_of_int (int_of_nat t) ^ "." ^ string_of_int (int_of_nat j)
  | WAwaitRead (t, j) -> "e" ^ string_of_int (int_of_nat t) ^ "." ^ string_of_int (int_of_nat j)
  | WSettle t -> "s" ^ string_of_int (int_of_nat t)

(* protocol state without the ghost counters; workers are interchangeable, so their states are sorted
   (symmetry reduction: the transition relation is invariant under permuting workers) *)
let key (s : state) : string =
  String.concat "|"
    [ string_of_int (int_of_nat s.s_mainpc); ints s.s_pc; String.concat "" (List.map st_char s.s_st);
      String.concat ";" (List.map ints s.s_conts); ints s.s_queue; ints (List.sort compare s.s_ovf);
      String.concat "," (List.sort compare (List.map ws_str s.s_ws)) ]

let hang_classes c s acc =
  let full = queue_full c s in
  let add x acc = if List.mem x acc then acc else x :: acc in
  let acc =
    List.fold_left
      (fun acc w ->
        match w with
        | WSettle t when full && conts_of s t <> [] -> add "settle-into-full-queue" acc
        | WRun t -> (
            match List.nth_opt (body_of c t) (int_of_nat (pc_of s t)) with
            | Some (ISpawn j) when full && st_of s j = TNew -> add "spawn-into-full-queue" acc
            | _ -> acc)
        | _ -> acc)
      acc s.s_ws
  in
  if quiescent c s then add "program-wait" acc else acc

let exact_ok c s =
  let n = List.length c.c_tasks in
  let ok = ref true in
  for t = 0 to n - 1 do
    let tn = nat_of_int t in
    let g l = int_of_nat (List.nth l t) in
    match st_of s tn with
    | TDone -> if g s.s_takes <> g s.s_parks + 1 || g s.s_settles <> 1 then ok := false
    | TLive -> if g s.s_settles <> 0 || int_of_nat (occ s tn) <> 1 then ok := false
    | TNew -> if g s.s_takes <> 0 || int_of_nat (occ s tn) <> 0 then ok := false
  done;
  !ok

let final_str s =
  String.concat ","
    (List.mapi (fun t st -> Printf.sprintf "%d:%d:%s" t (int_of_nat (List.nth s.s_pc t)) (st_char st)) s.s_st)

let explore stepf enabledf c cap =
  let seen = Hashtbl.create 4096 in
  let q = Queue.create () in
  let s0 = init c in
  Hashtbl.add seen (key s0) ();
  Queue.add s0 q;
  let n = ref 1 and hung = ref 0 and fin = ref 0 and capped = ref false in
  let classes = ref [] and exact = ref true and det = ref true and final = ref None and lost = ref [] in
  while not (Queue.is_empty q) do
    let s = Queue.pop q in
    if main_done c s then begin
      (* the process exits here; successors are not observable *)
      Stdlib.incr fin;
      if not (exact_ok c s) then exact := false;
      let f = final_str s in
      (match !final with None -> final := Some f | Some g -> if g <> f then det := false)
    end
    else begin
      let acts = enabledf c s in
      if acts = [] then begin
        Stdlib.incr hung;
        classes := hang_classes c s !classes;
        List.iteri (fun t st -> if st = TLive && int_of_nat (occ s (nat_of_int t)) = 0 && not (List.mem t !lost) then lost := t :: !lost) s.s_st
      end;
      List.iter
        (fun a ->
          match stepf c s a with
          | Some s1 ->
              let k = key s1 in
              if not (Hashtbl.mem seen k) then
                if !n >= cap then capped := true
                else begin
                  Hashtbl.add seen k ();
                  Stdlib.incr n;
                  Queue.add s1 q
                end
          | None -> ())
        acts
    end
  done;
  let verdict =
    if !capped then "cap" else if !hung = 0 then "term" else if !fin = 0 then "hang" else "mixed"
  in
  (verdict, !n, List.sort compare !classes, !exact, !det, (match !final with Some f -> f | None -> "-"), List.sort compare !lost)

let () =
  Zio.iter_lines (fun line ->
      match Zio.split_tab line with
      | id :: input :: _ -> (
          try
            match String.split_on_char ';' input with
            | [ hd; mainb; tasks ] ->
                let m, n, q, cap =
                  match Zio.split_sp hd with
                  | [ m; n; q; cap ] -> (m, int_of_string n, int_of_string q, int_of_string cap)
                  | _ -> failwith "bad header"
                in
                let tb = if String.trim tasks = "" then [] else List.map parse_body (String.split_on_char '/' tasks) in
                let c =
                  { c_mode = (if m = "O" then Orig else Fixed); c_N = nat_of_int n; c_Q = nat_of_int q;
                    c_main = parse_body mainb; c_tasks = tb }
                in
                let stepf, enabledf = if m = "S" then (step_fn_skip, enabled_skip) else (step_fn, enabled) in
                let verdict, states, classes, exact, det, final, lost =
                  if cap > 0 then explore stepf enabledf c cap else ("nox", 0, [], true, true, "-", [])
                in
                (* first-enabled scheduler of the protocol itself (never the S variant) *)
                let sf = run_first c (nat_of_int 100000) (init c) in
                let first = if main_done c sf then "term" else if stuck c sf then "hang" else "other" in
                let fexact = if main_done c sf then exact_ok c sf else true in
                Printf.printf "%s\t%s states=%d hang=%s exact=%d det=%d wf=%d final=%s first=%s ffinal=%s fexact=%d lost=%s\n" id
                  verdict states
                  (if classes = [] then "-" else String.concat "," classes)
                  (if exact then 1 else 0) (if det then 1 else 0) (if wf c then 1 else 0) final first (final_str sf)
                  (if fexact then 1 else 0)
                  (if lost = [] then "-" else String.concat "," (List.map string_of_int lost))
            | _ -> print_string (id ^ "\tbad-input\n")
          with e -> print_string (id ^ "\tbad-input " ^ Printexc.to_string e ^ "\n"))
      | _ -> ())
