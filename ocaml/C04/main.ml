(* C04 model driver (the proved monitor).
   stdin : "<id>\t m=<n|e> s=<hex> | toks=<start,end,line,col,eline,ecol,params,TYPE/...>"
           the part after '|' is the token stream OBSERVED on the implementation.
   stdout: "<id>\t mon=<ok|bad@i:clause>;col=<hex of model colorize src toks | panic>;strip=<same|diff|esc>"
     mon   : chain_first_bad of Model/C04_Spans.v on the observed stream (Props/C04.v: C04_monitor,
             C04_partition, C04_colorize_id lift "ok" to the global property)
     col   : the model of lexer.Colorize applied to the observed stream (compared with the real output)
     strip : strip (col) = src  (esc = the source itself contains ESC, the property does not apply) *)
open BinNums
open GoSem
open C04_Spans

let rec pos_of_int (i : int) : positive =
  if i = 1 then Coq_xH else if i land 1 = 1 then Coq_xI (pos_of_int (i lsr 1)) else Coq_xO (pos_of_int (i lsr 1))

let z_of_small (i : int) : coq_Z = if i = 0 then Z0 else if i > 0 then Zpos (pos_of_int i) else Zneg (pos_of_int (-i))

let rec int_of_pos (p : positive) : int =
  match p with Coq_xH -> 1 | Coq_xO q -> 2 * int_of_pos q | Coq_xI q -> (2 * int_of_pos q) + 1

let int_of_z (z : coq_Z) : int = match z with Z0 -> 0 | Zpos p -> int_of_pos p | Zneg p -> -int_of_pos p

let bytes_of_hex (h : string) : coq_Z list =
  let n = String.length h / 2 in
  Stdlib.List.init n (fun i -> z_of_small (int_of_string ("0x" ^ String.sub h (2 * i) 2)))

let bytes_of_string (s : string) : coq_Z list =
  Stdlib.List.init (String.length s) (fun i -> z_of_small (Char.code s.[i]))

let hex_of_bytes (l : coq_Z list) : string =
  let b = Buffer.create 64 in
  Stdlib.List.iter (fun z -> Buffer.add_string b (Printf.sprintf "%02x" (int_of_z z land 255))) l;
  Buffer.contents b

let split_nonempty c s = Stdlib.List.filter (fun x -> x <> "") (String.split_on_char c s)

let field (kvs : (string * string) list) (k : string) : string = try Stdlib.List.assoc k kvs with Not_found -> ""

let parse_kvs (s : string) : (string * string) list =
  Stdlib.List.filter_map
    (fun f ->
      match String.index_opt f '=' with
      | Some i -> Some (String.sub f 0 i, String.sub f (i + 1) (String.length f - i - 1))
      | None -> None)
    (split_nonempty ' ' s)

let parse_tok (s : string) =
  match String.split_on_char ',' s with
  | a :: b :: c :: d :: e :: f :: p :: _ ->
      let z x = z_of_small (int_of_string x) in
      { t_start = z a; t_end = z b; t_line = z c; t_col = z d; t_eline = z e; t_ecol = z f; t_sgr = bytes_of_string p }
  | _ -> failwith ("token " ^ s)

let run (input : string) : string =
  let base, orc =
    match String.index_opt input '|' with
    | Some i -> (String.sub input 0 i, String.sub input (i + 1) (String.length input - i - 1))
    | None -> (input, "")
  in
  let kv = parse_kvs base and okv = parse_kvs orc in
  let src = bytes_of_hex (field kv "s") in
  let toks = Stdlib.List.map parse_tok (split_nonempty '/' (field okv "toks")) in
  let mon =
    match chain_first_bad src Z0 toks Z0 with
    | None -> "ok"
    | Some (i, c) -> Printf.sprintf "bad@%d:%d" (int_of_z i) (int_of_z c)
  in
  let col, st =
    match colorize src toks with
    | Ok out -> (hex_of_bytes out, if not (no_esc src) then "esc" else if strip out = src then "same" else "diff")
    | _ -> ("panic", "panic")
  in
  Printf.sprintf "mon=%s;col=%s;strip=%s" mon col st

let () =
  Zio.iter_lines (fun line ->
      match Zio.split_tab line with
      | id :: input :: _ ->
          let r = try run input with e -> "driver-error " ^ Printexc.to_string e in
          print_string (id ^ "\t" ^ r ^ "\n")
      | _ -> ())
