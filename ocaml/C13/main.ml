(* C13/C10 model driver.  stdin: "<id>\t<cap> tok tok ..."  (tokens: see harness/cmd/c13/main.go)
   default mode: prints "<id>\t<reads oldest first>|<view>" computed by the extracted IMPLEMENTATION
   machine `run` from `init_st 1000 cap` (the k-th growth goes to base 1000000*(k+1)+8);
   mode "spec" (argv[1]): prints "<id>\tD<0|1> <reads of the extracted store-semantics machine srun>". *)
open C10_Stack

let rec nat_of_int i = if i <= 0 then Datatypes.O else Datatypes.S (nat_of_int (i - 1))
let rec int_of_nat n = match n with Datatypes.O -> 0 | Datatypes.S m -> 1 + int_of_nat m
let z = Zio.z_of_int
let iz = Zio.int_of_z

let parse_ops toks =
  let grows = ref 0 in
  List.concat_map
    (fun tok ->
      let c = tok.[0] in
      let arg = String.sub tok 1 (String.length tok - 1) in
      let a, b =
        match String.index_opt arg ':' with
        | Some i -> (int_of_string (String.sub arg 0 i), int_of_string (String.sub arg (i + 1) (String.length arg - i - 1)))
        | None -> ((if arg = "" then 0 else int_of_string arg), 0)
      in
      match c with
      | 'P' -> [ OPush (z a) ]
      | 'O' -> [ OPop ]
      | 'L' -> [ OGetLocal (z a) ]
      | 'S' -> [ OSetLocal (z a, z b) ]
      | 'C' -> [ OCapture (z a) ]
      | 'U' -> [ OGetUp (nat_of_int a) ]
      | 'V' -> [ OSetUp (nat_of_int a, z b) ]
      | 'X' -> [ OClose (z a) ]
      | 'K' -> [ OCall (z a) ]
      | 'R' -> [ ORet ]
      | 'G' | 'g' ->
          incr grows;
          [ OGrow (z ((1000000 * !grows) + 8)) ]
      | 'W' ->
          (* Thread.rethrow: a frames discarded one by one, then stack trace (reads as 0) and error pushed *)
          List.init a (fun _ -> OUnwind) @ [ OPush (z 0); OPush (z b) ]
      | 'N' -> [ ONewVar (z a) ]
      | 'T' -> [ OTailCall (z a, z b) ]
      | _ -> failwith ("token " ^ tok))
    toks

let join l = String.concat " " l

let view (s : st) : string =
  let b = iz s.base in
  let off a = (iz a - b) / 24 in
  let spo = off s.sp in
  let slots = List.init spo (fun j -> string_of_int (iz (s.mem (z (b + (24 * j)))))) in
  let sp_ l = String.concat "" (List.map (fun x -> x ^ " ") l) in
  let opens = List.map (fun u -> match s.heap u with UOpen a -> string_of_int (off a) | UClosed _ -> "closed!") s.opens in
  let handles =
    List.init (int_of_nat s.nh) (fun x ->
        match s.heap (s.handles (nat_of_int x)) with
        | UOpen a -> "o" ^ string_of_int (off a)
        | UClosed v -> "c" ^ string_of_int (iz v))
  in
  Printf.sprintf "%d|%d|%d|%s|%s|%s|%s" (iz s.cap) spo (off s.fp)
    (sp_ (List.map (fun a -> string_of_int (off a)) s.frames))
    (sp_ slots) (sp_ opens) (sp_ handles)

let () =
  let spec_mode = Array.length Sys.argv > 1 && Sys.argv.(1) = "spec" in
  Zio.iter_lines (fun line ->
      match Zio.split_tab line with
      | id :: input :: _ -> (
          let r =
            try
              match Zio.split_sp input with
              | cap :: toks ->
                  let ops = parse_ops toks in
                  if spec_mode then
                    let d = coq_D init_sst ops in
                    let t = srun init_sst ops in
                    Printf.sprintf "D%d %s" (if d then 1 else 0) (join (List.rev_map (fun v -> string_of_int (iz v)) t.sout))
                  else
                    let s = run (init_st (z 1000) (z (int_of_string cap))) ops in
                    join (List.rev_map (fun v -> string_of_int (iz v)) s.out) ^ "|" ^ view s
              | [] -> "model-failure empty"
            with Failure m -> "model-failure " ^ m
          in
          print_string (id ^ "\t" ^ r ^ "\n"))
      | _ -> ())
