(* C29 driver. stdin "<id>\t<input>":
     "OP <k> <NAME>"  -> "dis=<size> ff=<size>" as the hand table (VM) predicts the real disassembler
                          must answer; "none" if the opcode is not in the table
     "F <dump>"       -> "ok nb=<instructions> bsum=<sum of offsets mod 2^31>" when the extracted
                          decode+verify accept, else "bad <first failing clause>" *)
open Cfg
open C29_Decode
open Cfgio

let op_line (k : int) : string =
  match lookup C29_Opcodes.optable (n_of_int k) with
  | None -> "none"
  | Some oi -> (
      match op_size oi with
      | Some s -> Printf.sprintf "dis=%d ff=%d" (int_of_n s) (int_of_n s)
      | None -> ( match oi.op_kind with OClosure -> "dis=7 ff=2" | _ -> "none"))

let first_bad (f : func) : string =
  if not (nonempty f.f_instrs) then "empty"
  else if not (contig f.f_instrs BinNums.N0 f.f_len) then "not-contiguous"
  else
    match List.find_opt (fun i -> not (instr_ok f i)) f.f_instrs with
    | Some i ->
        let what =
          if not (List.for_all (is_start f) (succs f i)) then begin
            (* reporting only: a target equal to the code length is its own class *)
            let bad = List.filter (fun t -> not (is_start f t)) (succs f i) in
            if List.for_all (fun t -> int_of_n t = int_of_n f.f_len) bad then "target-is-end-of-code"
            else "target-not-instruction-start"
          end
          else begin
            (* reporting only: an index that is inside the pool but names an entry of another kind *)
            let nvals = List.length f.f_vals in
            let bad = List.filter (fun rv -> not (idx_ok f rv)) i.i_idx in
            let in_pool (r, v) =
              (match r with RVal | RSym | RCall | RCallBC | RCallNT -> true | _ -> false) && int_of_n v < nvals
            in
            if bad <> [] && List.for_all in_pool bad then "pool-entry-wrong-kind" else "index-out-of-range"
          end
        in
        Printf.sprintf "%s op=%d off=%d" what (int_of_n i.i_op) (int_of_n i.i_off)
    | None -> (
        match List.find_opt (fun c -> not (catch_ok f c)) f.f_catches with
        | Some c -> Printf.sprintf "catch-entry %s:%s:%s" (Zio.string_of_z c.c_from) (Zio.string_of_z c.c_to) (Zio.string_of_z c.c_jump)
        | None -> "unknown")

let fun_line (dump : string) : string =
  let r = raw_of_dump dump in
  match build C29_Opcodes.optable r with
  | None -> "bad undecodable"
  | Some f ->
      if verify f then begin
        let nb = List.length f.f_instrs in
        let bsum = List.fold_left (fun a i -> (a + int_of_n i.i_off) mod (1 lsl 31)) 0 f.f_instrs in
        Printf.sprintf "ok nb=%d bsum=%d" nb bsum
      end
      else "bad " ^ first_bad f

let () =
  if not (table_total C29_Opcodes.optable C29_Opcodes.n_opcodes) then prerr_endline "TABLE-NOT-TOTAL";
  Zio.iter_lines (fun line ->
      match Zio.split_tab line with
      | id :: input :: _ ->
          let out =
            try
              if String.length input > 3 && String.sub input 0 3 = "OP " then
                op_line (int_of_string (List.nth (String.split_on_char ' ' input) 1))
              else if String.length input > 2 && String.sub input 0 2 = "F " then
                fun_line (String.sub input 2 (String.length input - 2))
              else "skip"
            with e -> "driver-error " ^ Printexc.to_string e
          in
          print_string (id ^ "\t" ^ out ^ "\n")
      | _ -> ())
