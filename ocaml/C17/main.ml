(* C17 model driver. stdin: "<id>\t<KIND> U=<k>:<h>,... <op> <op> ..." ; stdout: "<id>\t<observed>"
   observed: per op "RET|SNAPa|SNAPb|EQ" joined by ';' (see harness/cmd/c17/main.go); "panic" ends a history.
   argv: "-orig" runs the model of the code as found (fx = false); "-spec" runs the association-list spec. *)
open C17_Table

let rec nat_of_int i = if i <= 0 then Datatypes.O else Datatypes.S (nat_of_int (i - 1))

let reg_of = function "a" -> RA | "b" -> RB | s -> failwith ("reg " ^ s)

let parse_op (s : string) =
  match String.split_on_char ':' s with
  | [ "new"; r; n ] -> ONew (reg_of r, nat_of_int (int_of_string n))
  | [ "set"; r; k; v ] -> OSet (reg_of r, Zio.z_of_string k, Zio.z_of_string v)
  | [ "del"; r; k ] -> ODel (reg_of r, Zio.z_of_string k)
  | [ "cat"; r ] -> OCat (reg_of r)
  | [ "int"; r ] -> OInt (reg_of r)
  | [ "cpy"; r ] -> OCpy (reg_of r)
  | [ "cln"; r ] -> OCln (reg_of r)
  | [ "ctab"; r ] -> OCtab (reg_of r)
  | [ "grow"; r; n ] -> OGrow (reg_of r, nat_of_int (int_of_string n))
  | _ -> failwith ("op " ^ s)

let parse_univ (s : string) =
  (* "U=k:h,k:h" *)
  let body = String.sub s 2 (String.length s - 2) in
  if body = "" then []
  else
    List.map
      (fun e ->
        match String.split_on_char ':' e with
        | [ k; h ] -> (Zio.z_of_string k, Zio.n_of_string h)
        | [ k ] -> (Zio.z_of_string k, BinNums.N0)
        | _ -> failwith "univ")
      (String.split_on_char ',' body)

let zcmp a b = match BinInt.Z.compare a b with Datatypes.Eq -> 0 | Datatypes.Lt -> -1 | Datatypes.Gt -> 1

let show_snap isset (s : (BinNums.coq_Z, BinNums.coq_Z) snap) =
  let gets =
    if isset then ""
    else
      String.concat ","
        (List.map (function GAbsent -> "-" | GVal v -> Zio.string_of_z v | GMarker -> "T") s.sn_gets)
  in
  let has = String.concat "" (List.map (fun b -> if b then "1" else "0") s.sn_has) in
  let it = List.sort (fun (k1, v1) (k2, v2) -> let c = zcmp k1 k2 in if c <> 0 then c else zcmp v1 v2) s.sn_iter in
  let iter =
    String.concat ","
      (List.map (fun (k, v) -> if isset then Zio.string_of_z k else Zio.string_of_z k ^ "=" ^ Zio.string_of_z v) it)
  in
  Zio.string_of_z s.sn_len ^ "/" ^ gets ^ "/" ^ has ^ "/" ^ iter

let b01 b = if b then "1" else "0"

let show_obs isset (o : (BinNums.coq_Z, BinNums.coq_Z) obs) =
  let ret = match o.ob_ret with None -> "-" | Some b -> b01 b in
  ret ^ "|" ^ show_snap isset o.ob_a ^ "|" ^ show_snap isset o.ob_b ^ "|" ^ b01 o.ob_eq_ab ^ b01 o.ob_eq_ba

let () =
  let orig = Array.exists (fun a -> a = "-orig") Sys.argv in
  let spec = Array.exists (fun a -> a = "-spec") Sys.argv in
  Zio.iter_lines (fun line ->
      match Zio.split_tab line with
      | id :: input :: _ -> (
          try
            match Zio.split_sp input with
            | kind :: u :: ops ->
                let isset = kind = "set" in
                let tbl = parse_univ u in
                let univ = List.map fst tbl in
                let ops = List.map parse_op ops in
                let toks =
                  if spec then List.map (show_obs isset) (zsrun isset univ ops)
                  else
                    let obs, err = zrun tbl (not orig) isset univ ops in
                    List.map (show_obs isset) obs @ (match err with None -> [] | Some _ -> [ "panic" ])
                in
                print_string (id ^ "\t" ^ String.concat ";" toks ^ "\n")
            | _ -> print_string (id ^ "\tbad-input\n")
          with Failure m -> print_string (id ^ "\tbad-input " ^ m ^ "\n"))
      | _ -> ())
