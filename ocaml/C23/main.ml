(* C23 model driver. stdin: "<id>\t<request>"; stdout: "<id>\t<observable>".
   requests (space separated):
     R <w> <kind> <a> <b> <op...>     generic operation on the iterator of a range (w = 0: Int, else IntW)
     L <csv|-> <op...>                generic operation on a list-backed iterator (model of impl loop)
     F <csv|-> <op...>                generic operation on an iterator that yields the list and then throws "boom"
     S <csv|-> <op...>                the LIST MODEL (spec) of the operation on that list
     C <kind> <a> <b> <x>             range contains
     E <w> <kind> <a> <b> <n>         materialise: all elements (finite kinds) or the first n (endless)
     NL|NF|NS <csv|-> <nop...>        the same three for iterables of Int? (csv items: an integer or n = nil), instance C23_Nil:
                                      nop = contains <e> | index_of <e> | mapor <d> | fold <i> <c> <d> | take/drop <k> | <nullary> |
                                      <pred op> <npred>;  npred = isnil | notnil | eq:c | ne:c | true | false | thr:<e>:<npred>
                                      a nil ELEMENT result prints nil, an absent one E:nf (first/last/find) or nil (the try_ variants)
   closures: fn1 = add:c | mul:c | thr:t:<fn1> ; pred = even | gt:c | lt:c | eq:c | true | false | thr:t:<pred> ;
             fn2 = add | sub | muladd:c | thr:t:<fn2>
   observable: Elk inspect syntax: 5  true  nil  [1, 2]  %[1, 2]  E:oor  E:nf  E:s:boom  undefined  nofuel *)
open C23_Iter
open C23_Nil

let rec nat_of_int i = if i <= 0 then Datatypes.O else Datatypes.S (nat_of_int (i - 1))
let z = Zio.z_of_string
let zs = Zio.string_of_z
let fuel = ref 3000

let kind_of = function
  | "closed" -> Closed | "open" -> OpenR | "lopen" -> LeftOpen | "ropen" -> RightOpen
  | "eclosed" -> EndlessClosed | "eopen" -> EndlessOpen | "bclosed" -> BeginlessClosed | "bopen" -> BeginlessOpen
  | s -> failwith ("kind " ^ s)

let rec fn1_of = function
  | "add" :: c :: [] -> FAdd (z c) | "mul" :: c :: [] -> FMul (z c)
  | "thr" :: t :: r -> FThrowAt (z t, fn1_of r) | _ -> failwith "fn1"
let rec pred_of = function
  | [ "even" ] -> PEven | [ "gt"; c ] -> PGt (z c) | [ "lt"; c ] -> PLt (z c) | [ "eq"; c ] -> PEq (z c)
  | [ "true" ] -> PConst true | [ "false" ] -> PConst false
  | "thr" :: t :: r -> PThrowAt (z t, pred_of r) | _ -> failwith "pred"
let rec fn2_of = function
  | [ "add" ] -> GAdd | [ "sub" ] -> GSub | [ "muladd"; c ] -> GMulAdd (z c)
  | "thr" :: t :: r -> GThrowAt (z t, fn2_of r) | _ -> failwith "fn2"
let sp s = String.split_on_char ':' s

let op_of = function
  | [ "contains"; x ] -> OContains (z x) | [ "is_empty" ] -> OIsEmpty | [ "first" ] -> OFirst
  | [ "try_first" ] -> OTryFirst | [ "last" ] -> OLast | [ "try_last" ] -> OTryLast
  | [ "map"; f ] -> OMap (fn1_of (sp f)) | [ "filter"; p ] -> OFilter (pred_of (sp p))
  | [ "reject"; p ] -> OReject (pred_of (sp p)) | [ "count"; p ] -> OCount (pred_of (sp p))
  | [ "any"; p ] -> OAny (pred_of (sp p)) | [ "every"; p ] -> OEvery (pred_of (sp p))
  | [ "find"; p ] -> OFind (pred_of (sp p)) | [ "try_find"; p ] -> OTryFind (pred_of (sp p))
  | [ "index_of"; x ] -> OIndexOf (z x) | [ "find_index"; p ] -> OFindIndex (pred_of (sp p))
  | [ "drop"; n ] -> ODrop (z n) | [ "drop_while"; p ] -> ODropWhile (pred_of (sp p))
  | [ "take"; n ] -> OTake (z n) | [ "take_while"; p ] -> OTakeWhile (pred_of (sp p))
  | [ "reduce"; g ] -> OReduce (fn2_of (sp g)) | [ "fold"; i; g ] -> OFold (z i, fn2_of (sp g))
  | [ "to_list" ] | [ "to_collection" ] -> OToList | [ "to_tuple" ] | [ "to_immutable_collection" ] -> OToTuple
  | [ "length" ] -> OLength
  | l -> failwith ("op " ^ String.concat " " l)

let show_list l = "[" ^ String.concat ", " (List.map zs l) ^ "]"
let show_val = function
  | VInt i -> zs i | VBool b -> if b then "true" else "false" | VNil -> "nil"
  | VList l -> show_list l | VTuple l -> "%" ^ show_list l
let show_err e = match zs e with "3" -> "E:oor" | "4" -> "E:nf" | "7" -> "E:s:boom" | s -> "E:other:" ^ s
let show = function Val v -> show_val v | Thrown e -> show_err e | Undef -> "undefined" | NoFuel -> "nofuel"

let list_of s = if s = "-" || s = "" then [] else List.map z (String.split_on_char ',' s)
let succ_of w = if w = "0" then BinInt.Z.succ else succ_wrap_s (z w)

(* ---- nilable elements ---- *)
let el s = if s = "n" then None else Some (z s)
let show_el = function None -> "nil" | Some i -> zs i
let show_ellist l = "[" ^ String.concat ", " (List.map show_el l) ^ "]"
let rec npred_of = function
  | [ "isnil" ] -> NIsNil | [ "notnil" ] -> NNotNil | [ "eq"; c ] -> NEq (z c) | [ "ne"; c ] -> NNe (z c)
  | [ "true" ] -> NConst true | [ "false" ] -> NConst false
  | "thr" :: t :: r -> NThrowAt (el t, npred_of r) | _ -> failwith "npred"
let nop_of = function
  | [ "contains"; x ] -> NContains (el x) | [ "is_empty" ] -> NIsEmpty | [ "first" ] -> NFirst
  | [ "try_first" ] -> NTryFirst | [ "last" ] -> NLast | [ "try_last" ] -> NTryLast
  | [ "mapor"; d ] -> NMapOr (z d) | [ "filter"; p ] -> NFilter (npred_of (sp p))
  | [ "reject"; p ] -> NReject (npred_of (sp p)) | [ "count"; p ] -> NCount (npred_of (sp p))
  | [ "any"; p ] -> NAny (npred_of (sp p)) | [ "every"; p ] -> NEvery (npred_of (sp p))
  | [ "find"; p ] -> NFind (npred_of (sp p)) | [ "try_find"; p ] -> NTryFind (npred_of (sp p))
  | [ "index_of"; x ] -> NIndexOf (el x) | [ "find_index"; p ] -> NFindIndex (npred_of (sp p))
  | [ "drop"; n ] -> NDrop (z n) | [ "drop_while"; p ] -> NDropWhile (npred_of (sp p))
  | [ "take"; n ] -> NTake (z n) | [ "take_while"; p ] -> NTakeWhile (npred_of (sp p))
  | [ "fold"; i; c; d ] -> NFold (z i, z c, z d)
  | [ "to_list" ] | [ "to_collection" ] -> NToList | [ "to_tuple" ] | [ "to_immutable_collection" ] -> NToTuple
  | [ "length" ] -> NLength
  | l -> failwith ("nop " ^ String.concat " " l)
let show_nval = function
  | NVElem e -> show_el e | NVOpt None -> "nil" | NVOpt (Some e) -> show_el e
  | NVBool b -> if b then "true" else "false" | NVInt i -> zs i
  | NVList l -> show_ellist l | NVTuple l -> "%" ^ show_ellist l | NVZList l -> show_list l
let nshow = function Val v -> show_nval v | Thrown e -> show_err e | Undef -> "undefined" | NoFuel -> "nofuel"
let ellist_of s = if s = "-" || s = "" then [] else List.map el (String.split_on_char ',' s)

let answer toks =
  match toks with
  | "R" :: w :: k :: a :: b :: op -> show (run_range (nat_of_int !fuel) (z w) (kind_of k) (z a) (z b) (op_of op))
  | "L" :: l :: op -> show (run_listiter (nat_of_int !fuel) (list_of l) (op_of op))
  | "F" :: l :: op -> show (run_failiter (nat_of_int !fuel) (list_of l) (op_of op))
  | "S" :: l :: op -> show (run_list (list_of l) (op_of op))
  | "NL" :: l :: op -> nshow (run_nlistiter (nat_of_int !fuel) (ellist_of l) (nop_of op))
  | "NF" :: l :: op -> nshow (run_nfailiter (nat_of_int !fuel) (ellist_of l) (nop_of op))
  | "NS" :: l :: op -> nshow (run_nlist (ellist_of l) (nop_of op))
  | [ "C"; k; a; b; x ] -> if rcontains (kind_of k) (z a) (z b) (z x) then "true" else "false"
  | [ ("E" | "A"); w; k; a; b; n ] -> (
      let kd = kind_of k in
      if not (iterable kd) then "E:noiter"
      else if finite kd then
        match unroll (nat_of_int !fuel) (range_next (succ_of w) kd (z b)) (z a) with
        | Some (l, TStop) -> show_list l
        | Some (l, TFail _) -> show_list l ^ "!fail"
        | None -> "nofuel"
      else
        match prefix (nat_of_int (int_of_string n)) (range_next (succ_of w) kd (z b)) (z a) with
        | Some (l, _) -> show_list l
        | None -> "short")
  | _ -> "bad-input"

let () =
  (match Array.to_list Sys.argv with _ :: "-fuel" :: f :: _ -> fuel := int_of_string f | _ -> ());
  Zio.iter_lines (fun line ->
      match Zio.split_tab line with
      | id :: input :: _ ->
          let r = try answer (Zio.split_sp input) with Failure m -> "bad-input " ^ m in
          print_string (id ^ "\t" ^ r ^ "\n")
      | _ -> ())
