(* C21 model driver.
   stdin : "<id>\t f=<flags|-> src=<hex> ast=<compact tree|ERR|HANG> subj=<hex,hex,..> orc=<tables>"
   stdout: "<id>\t text=<hex|ERR>;m=<bits|->;e=<bits|->[;skip=nested-repeat-counts]"   (skip: see repeat_weight below)
     text  transpile_text f ast            (what regex.Transpile must return; ERR = it reports failures)
     m     matches_re2 on (transpile f ast)  one 0/1 per subject: Go semantics of the EMITTED term
     e     matches_elk f ast                one 0/1 per subject: what the Elk pattern denotes
   The tree is the one Go's own regex/parser built (walked by harness/cmd/c21), so no parser is
   needed here.  Compact syntax (no spaces; code point lists are dot separated decimals, "-" = empty):
     re   ::= A(atom) | any | bol | eol | absbeg | absend | wordb | nwordb | Q(cps) | C(0|1;item,..)
            | cat(re,..) | alt(re,re) | G(kind;re) | G(kind;) | q(qk;0|1;re)
     atom ::= cN | mN | s[aftnr] | x<cps> | o<cps> | kN | p[01][wdshv] | u[01]:<cps>
     item ::= a(atom) | r(atom,atom) | n[01]:<cps>
     kind ::= cap | non | nam:<cps> | fl:<set>:<unset>         qk ::= opt | star | plus | n:<cps> | nm:<cps>:<cps>
   orc = "r:o1.o2:name,name;..." per rune r: the OTHER members of its unicode.SimpleFold orbit and the
   names (dotted code points; POSIX names prefixed "P/") of the Unicode / POSIX tables it belongs to.
   They instantiate the section oracles orbit / uni / posix of Model/C21_RegexSem.v
   (default: empty orbit, not a member). *)
open BinNums
open C21_RegexSyntax
open C21_RegexSem

let rec pos_of_int (i : int) : positive =
  if i = 1 then Coq_xH else if i land 1 = 1 then Coq_xI (pos_of_int (i lsr 1)) else Coq_xO (pos_of_int (i lsr 1))

let z_of_small (i : int) : coq_Z = if i = 0 then Z0 else if i > 0 then Zpos (pos_of_int i) else Zneg (pos_of_int (-i))

let rec int_of_pos (p : positive) : int =
  match p with Coq_xH -> 1 | Coq_xO q -> 2 * int_of_pos q | Coq_xI q -> (2 * int_of_pos q) + 1

let int_of_z (z : coq_Z) : int = match z with Z0 -> 0 | Zpos p -> int_of_pos p | Zneg p -> -int_of_pos p

let split_nonempty c s = Stdlib.List.filter (fun x -> x <> "") (String.split_on_char c s)

(* ---------------------------------------------------------------- UTF-8 *)

let utf8_decode (b : string) : int list =
  let n = String.length b in
  let byte i = if i < n then Char.code b.[i] else 0 in
  let rec go i acc =
    if i >= n then Stdlib.List.rev acc
    else
      let c = byte i in
      if c < 0x80 then go (i + 1) (c :: acc)
      else if c < 0xE0 then go (i + 2) ((((c land 0x1F) lsl 6) lor (byte (i + 1) land 0x3F)) :: acc)
      else if c < 0xF0 then
        go (i + 3) ((((c land 0x0F) lsl 12) lor ((byte (i + 1) land 0x3F) lsl 6) lor (byte (i + 2) land 0x3F)) :: acc)
      else
        go (i + 4)
          ((((c land 0x07) lsl 18) lor ((byte (i + 1) land 0x3F) lsl 12) lor ((byte (i + 2) land 0x3F) lsl 6)
           lor (byte (i + 3) land 0x3F))
          :: acc)
  in
  go 0 []

let utf8_hex (cps : int list) : string =
  let buf = Buffer.create 64 in
  let put x = Buffer.add_string buf (Printf.sprintf "%02x" (x land 0xFF)) in
  Stdlib.List.iter
    (fun c ->
      (* Go's WriteRune writes U+FFFD for surrogates and out-of-range values *)
      let c = if c < 0 || c > 0x10FFFF || (c >= 0xD800 && c <= 0xDFFF) then 0xFFFD else c in
      if c < 0x80 then put c
      else if c < 0x800 then (
        put (0xC0 lor (c lsr 6));
        put (0x80 lor (c land 0x3F)))
      else if c < 0x10000 then (
        put (0xE0 lor (c lsr 12));
        put (0x80 lor ((c lsr 6) land 0x3F));
        put (0x80 lor (c land 0x3F)))
      else (
        put (0xF0 lor (c lsr 18));
        put (0x80 lor ((c lsr 12) land 0x3F));
        put (0x80 lor ((c lsr 6) land 0x3F));
        put (0x80 lor (c land 0x3F))))
    cps;
  Buffer.contents buf

let bytes_of_hex (h : string) : string =
  String.init (String.length h / 2) (fun i -> Char.chr (int_of_string ("0x" ^ String.sub h (2 * i) 2)))

(* ---------------------------------------------------------------- the compact tree syntax *)

exception Bad of string

let cps_of (s : string) : coq_Z list =
  if s = "-" || s = "" then [] else Stdlib.List.map (fun x -> z_of_small (int_of_string x)) (String.split_on_char '.' s)

let flags_of (s : string) : flags =
  let h c = s <> "-" && String.contains s c in
  { fi = h 'i'; fm = h 'm'; fs = h 's'; fU = h 'U'; fx = h 'x'; fa = h 'a' }

let after (w : string) (k : int) : string = String.sub w k (String.length w - k)
let neg_of (c : char) : bool = match c with '0' -> false | '1' -> true | _ -> raise (Bad "polarity")

let atom_of (w : string) : atom =
  if w = "" then raise (Bad "empty atom");
  match w.[0] with
  | 'c' -> AChar (z_of_small (int_of_string (after w 1)))
  | 'm' -> AMeta (z_of_small (int_of_string (after w 1)))
  | 'k' -> ACaret (z_of_small (int_of_string (after w 1)))
  | 's' -> (
      match after w 1 with
      | "a" -> ASimple SBell
      | "f" -> ASimple SFormFeed
      | "t" -> ASimple STab
      | "n" -> ASimple SNewline
      | "r" -> ASimple SCR
      | _ -> raise (Bad ("atom " ^ w)))
  | 'x' -> AHex (cps_of (after w 1))
  | 'o' -> AOct (cps_of (after w 1))
  | 'p' ->
      if String.length w <> 3 then raise (Bad ("atom " ^ w));
      APre
        ( neg_of w.[1],
          match w.[2] with
          | 'w' -> PWord
          | 'd' -> PDigit
          | 's' -> PSpace
          | 'h' -> PHoriz
          | 'v' -> PVert
          | _ -> raise (Bad ("atom " ^ w)) )
  | 'u' ->
      if String.length w < 3 || w.[2] <> ':' then raise (Bad ("atom " ^ w));
      AUni (neg_of w.[1], cps_of (after w 3))
  | _ -> raise (Bad ("atom " ^ w))

let kind_of (w : string) : gkind =
  match String.split_on_char ':' w with
  | [ "cap" ] -> GCapture
  | [ "non" ] -> GNonCapture
  | [ "nam"; n ] -> GNamed (cps_of n)
  | [ "fl"; st; un ] -> GFlags (flags_of st, flags_of un)
  | _ -> raise (Bad ("group kind " ^ w))

let quant_of (w : string) : quant =
  match String.split_on_char ':' w with
  | [ "opt" ] -> QOpt
  | [ "star" ] -> QStar
  | [ "plus" ] -> QPlus
  | [ "n"; n ] -> QN (cps_of n)
  | [ "nm"; n; m ] -> QNM (cps_of n, cps_of m)
  | _ -> raise (Bad ("quantifier " ^ w))

let parse_re_from (s : string) (pos : int ref) : re =
  let n = String.length s in
  let peek () = if !pos < n then s.[!pos] else '\000' in
  let expect c = if peek () = c then incr pos else raise (Bad (Printf.sprintf "expected %c at %d" c !pos)) in
  let word () =
    let st = !pos in
    while !pos < n && not (Stdlib.List.mem s.[!pos] [ '('; ')'; ','; ';' ]) do
      incr pos
    done;
    String.sub s st (!pos - st)
  in
  let rec list_until_close : 'a. (unit -> 'a) -> 'a list =
   fun elem ->
    if peek () = ')' then []
    else
      let x = elem () in
      if peek () = ',' then (
        incr pos;
        x :: list_until_close elem)
      else [ x ]
  in
  let item () : citem =
    let w = word () in
    if peek () = '(' then (
      incr pos;
      match w with
      | "a" ->
          let a = atom_of (word ()) in
          expect ')';
          CIAtom a
      | "r" ->
          let l = atom_of (word ()) in
          expect ',';
          let r = atom_of (word ()) in
          expect ')';
          CIRange (l, r)
      | _ -> raise (Bad ("class item " ^ w)))
    else if String.length w >= 3 && w.[0] = 'n' && w.[2] = ':' then CINamed (neg_of w.[1], cps_of (after w 3))
    else raise (Bad ("class item " ^ w))
  in
  let rec re () : re =
    let w = word () in
    if peek () = '(' then (
      incr pos;
      let r =
        match w with
        | "A" -> RAtom (atom_of (word ()))
        | "Q" -> RQuoted (cps_of (word ()))
        | "C" ->
            let neg = neg_of (word ()).[0] in
            expect ';';
            RClass (neg, list_until_close item)
        | "cat" -> RConcat (list_until_close re)
        | "alt" ->
            let a = re () in
            expect ',';
            let b = re () in
            RUnion (a, b)
        | "G" ->
            let k = kind_of (word ()) in
            expect ';';
            if peek () = ')' then RGroup (k, None) else RGroup (k, Some (re ()))
        | "q" ->
            let q = quant_of (word ()) in
            expect ';';
            let alt = neg_of (word ()).[0] in
            expect ';';
            RQuant (q, alt, re ())
        | _ -> raise (Bad ("node " ^ w))
      in
      expect ')';
      r)
    else
      match w with
      | "any" -> RAny
      | "bol" -> RBol
      | "eol" -> REol
      | "absbeg" -> RAbsBeg
      | "absend" -> RAbsEnd
      | "wordb" -> RWordB
      | "nwordb" -> RNotWordB
      | _ -> raise (Bad ("node " ^ w))
  in
  re ()

let parse_re (s : string) : re =
  let pos = ref 0 in
  let r = parse_re_from s pos in
  if !pos <> String.length s then raise (Bad "trailing text after the tree");
  r

(* composition terms (stream c21.compose):  T ::= L(<flags>;<re>) | P(T,T) | R(<digits>;T) *)
let parse_term (s : string) : C21_Compose.cterm =
  let n = String.length s in
  let pos = ref 0 in
  let peek () = if !pos < n then s.[!pos] else '\000' in
  let expect c = if peek () = c then incr pos else raise (Bad (Printf.sprintf "term: expected %c at %d" c !pos)) in
  let word () =
    let st = !pos in
    while !pos < n && not (Stdlib.List.mem s.[!pos] [ '('; ')'; ','; ';' ]) do
      incr pos
    done;
    String.sub s st (!pos - st)
  in
  let rec term () : C21_Compose.cterm =
    let w = word () in
    expect '(';
    let t =
      match w with
      | "L" ->
          let f = flags_of (word ()) in
          expect ';';
          let a = parse_re_from s pos in
          C21_Compose.CLeaf (f, a)
      | "P" ->
          let l = term () in
          expect ',';
          let r = term () in
          C21_Compose.CCat (l, r)
      | "R" ->
          let ds = word () in
          expect ';';
          let t0 = term () in
          C21_Compose.CRep (t0, Stdlib.List.map (fun c -> z_of_small (Char.code c)) (Stdlib.List.init (String.length ds) (String.get ds)))
      | _ -> raise (Bad ("term node " ^ w))
    in
    expect ')';
    t
  in
  let t = term () in
  if !pos <> n then raise (Bad "trailing text after the term");
  t

(* ---------------------------------------------------------------- oracles *)

let name_key (name : coq_Z list) : string = String.concat "." (Stdlib.List.map (fun z -> string_of_int (int_of_z z)) name)

let parse_orc (s : string) : (int, int list * string list) Hashtbl.t =
  let t = Hashtbl.create 64 in
  Stdlib.List.iter
    (fun e ->
      match String.split_on_char ':' e with
      | [ r; o; ns ] ->
          let orb = if o = "-" then [] else Stdlib.List.map int_of_string (String.split_on_char '.' o) in
          let names = if ns = "-" then [] else String.split_on_char ',' ns in
          Hashtbl.replace t (int_of_string r) (orb, names)
      | _ -> raise (Bad ("oracle entry " ^ e)))
    (split_nonempty ';' s);
  t

let field (kvs : (string * string) list) (k : string) : string = try Stdlib.List.assoc k kvs with Not_found -> ""

let parse_kvs (s : string) : (string * string) list =
  Stdlib.List.filter_map
    (fun f ->
      match String.index_opt f '=' with
      | Some i -> Some (String.sub f 0 i, String.sub f (i + 1) (String.length f - i - 1))
      | None -> None)
    (split_nonempty ' ' s)

let bit b = if b then "1" else "0"

let flag_string (f : flags) : string =
  let b = Buffer.create 6 in
  if f.fi then Buffer.add_char b 'i';
  if f.fm then Buffer.add_char b 'm';
  if f.fs then Buffer.add_char b 's';
  if f.fU then Buffer.add_char b 'U';
  if f.fx then Buffer.add_char b 'x';
  if f.fa then Buffer.add_char b 'a';
  if Buffer.length b = 0 then "-" else Buffer.contents b

exception Skip of string

(* c21.compose: the expected verdicts are the denotation of the TERM (cden, Model/C21_Compose.v)
   computed from the leaf trees; the composed source is never looked at here.
   A leaf that brings extended mode in (x on the literal or in one of its flag groups) enters with
   the tree C21_extended_flags_sound gives it - whitespace removed where x is on, x erased - when
   no `#` stands where x is on; otherwise the case is not evaluated (skip=x-comment).
   stdout: "se=<bits>/<bits>/..;cf=<flags>"  se: the verdict (cmatches) of every SUBTERM in post-order
   per subject - leaves first, the term itself last - so that a disagreement can be located at the
   innermost step that breaks; cf: flags of the composed value *)
let run_compose (kv : (string * string) list) : string =
  let t = parse_term (field kv "term") in
  let tbl = parse_orc (field kv "orc") in
  let orbit (c : coq_Z) : coq_Z list =
    match Hashtbl.find_opt tbl (int_of_z c) with Some (o, _) -> Stdlib.List.map z_of_small o | None -> []
  in
  let member (key : string) (c : coq_Z) : bool =
    match Hashtbl.find_opt tbl (int_of_z c) with Some (_, ns) -> Stdlib.List.mem key ns | None -> false
  in
  let uni (name : coq_Z list) (c : coq_Z) : bool = member (name_key name) c in
  let posix (name : coq_Z list) (c : coq_Z) : bool = member ("P/" ^ name_key name) c in
  let subjects =
    Stdlib.List.map
      (fun h -> if h = "e" then [] else Stdlib.List.map z_of_small (utf8_decode (bytes_of_hex h)))
      (split_nonempty ',' (field kv "subj"))
  in
  let cf = flag_string (C21_Compose.cflags t) in
  let rec norm (t : C21_Compose.cterm) : C21_Compose.cterm =
    match t with
    | C21_Compose.CLeaf (f, a) ->
        if f.fx || mentions_x a then
          if C21_RegexExt.comment_free f a then C21_Compose.CLeaf (C21_RegexExt.erase_x f, C21_RegexExt.strip_x f a)
          else raise (Skip "x-comment")
        else t
    | C21_Compose.CCat (l, r) ->
        let l' = norm l in
        let r' = norm r in
        C21_Compose.CCat (l', r')
    | C21_Compose.CRep (t0, n) -> C21_Compose.CRep (norm t0, n)
  in
  try
    let t = norm t in
    (* every subterm in post-order (the last one is the term itself) *)
    let rec post (t : C21_Compose.cterm) (acc : C21_Compose.cterm list) : C21_Compose.cterm list =
      match t with
      | C21_Compose.CLeaf _ -> t :: acc
      | C21_Compose.CCat (l, r) -> t :: post r (post l acc)
      | C21_Compose.CRep (t0, _) -> t :: post t0 acc
    in
    let subs = Stdlib.List.rev (post t []) in
    let se =
      String.concat "/"
        (Stdlib.List.map
           (fun u ->
             let b = String.concat "" (Stdlib.List.map (fun s -> bit (C21_Compose.cmatches orbit uni posix s u)) subjects) in
             if b = "" then "-" else b)
           subs)
    in
    (* diag=1 (diagnosis of a failing case): the match RELATION of every subterm on every subject - row i is
       cden applied to the singleton start set {i}; same encoding as the harness' rel= field *)
    let rel =
      if field kv "diag" <> "1" then ""
      else
        ";re="
        ^ String.concat "/"
            (Stdlib.List.map
               (fun u ->
                 String.concat ","
                   (Stdlib.List.map
                      (fun s ->
                        let n = Stdlib.List.length s in
                        String.concat "."
                          (Stdlib.List.init (n + 1) (fun i ->
                               let x0 = Stdlib.List.init (n + 1) (fun j -> j = i) in
                               String.concat "" (Stdlib.List.map bit (C21_Compose.cden orbit uni posix s u x0)))))
                      subjects))
               subs)
    in
    Printf.sprintf "se=%s;cf=%s%s" se cf rel
  with Skip why -> Printf.sprintf "se=-;cf=%s;skip=%s" cf why

(* Cost guard.  The matchers iterate a counted repeat count-many times, so NESTED counts multiply: `((a{1000}){1001}){1,1000}`
   would run 10^9 rounds per subject (the generator writes such sources; one of them stalled a thorough run for the full
   timeout).  Go's regexp rejects every pattern whose nested repeat counts multiply to more than 1000 (syntax.repeatIsValid),
   so the verdict bits of such a pattern are never compared (c21.match needs go=ok).  repeat_weight = the largest product of
   counts along a nesting path ({n} -> n, {n,m} / {,m} -> m, {n,} -> n; * + ? -> 1), capped; above the bound the driver prints
   the text and `-` instead of the bits.  Should Go ever accept such a pattern the check reports the missing bits as a broken gate. *)
let weight_cap = 1_000_000_000

let count_of (ds : coq_Z list) : int =
  Stdlib.List.fold_left
    (fun acc z ->
      let d = int_of_z z - 48 in
      if d < 0 || d > 9 then acc else min weight_cap ((acc * 10) + d))
    0 ds

let rec repeat_weight (r : re) : int =
  match r with
  | RConcat l -> Stdlib.List.fold_left (fun acc x -> max acc (repeat_weight x)) 1 l
  | RUnion (a, b) -> max (repeat_weight a) (repeat_weight b)
  | RGroup (_, Some x) -> repeat_weight x
  | RQuant (q, _, x) ->
      let k = match q with QN n -> count_of n | QNM (n, m) -> if m = [] then count_of n else count_of m | _ -> 1 in
      min weight_cap (max 1 k * repeat_weight x)
  | _ -> 1

(* the same on the emitted Go term: a count inside an extended-mode comment is in the tree but not in the term *)
let rec repeat_weight2 (t : re2) : int =
  match t with
  | R2Cat l -> Stdlib.List.fold_left (fun acc x -> max acc (repeat_weight2 x)) 1 l
  | R2Alt (a, b) -> max (repeat_weight2 a) (repeat_weight2 b)
  | R2Group (_, x) -> repeat_weight2 x
  | R2Rep (x, q, _) ->
      let k = match q with QN n -> count_of n | QNM (n, m) -> if m = [] then count_of n else count_of m | _ -> 1 in
      min weight_cap (max 1 k * repeat_weight2 x)
  | _ -> 1

let repeat_weight_bound = 4000

let run (input : string) : string =
  let kv = parse_kvs input in
  if field kv "term" <> "" then run_compose kv else
  match field kv "ast" with
  | "ERR" -> "parse-error"
  | "HANG" -> "skipped-unterminated-comment-group"
  | ast ->
      let f = flags_of (field kv "f") in
      let r = parse_re ast in
      let tbl = parse_orc (field kv "orc") in
      let orbit (c : coq_Z) : coq_Z list =
        match Hashtbl.find_opt tbl (int_of_z c) with Some (o, _) -> Stdlib.List.map z_of_small o | None -> []
      in
      let member (key : string) (c : coq_Z) : bool =
        match Hashtbl.find_opt tbl (int_of_z c) with Some (_, ns) -> Stdlib.List.mem key ns | None -> false
      in
      let uni (name : coq_Z list) (c : coq_Z) : bool = member (name_key name) c in
      let posix (name : coq_Z list) (c : coq_Z) : bool = member ("P/" ^ name_key name) c in
      let subjects =
        Stdlib.List.map
          (fun h -> if h = "e" then [] else Stdlib.List.map z_of_small (utf8_decode (bytes_of_hex h)))
          (split_nonempty ',' (field kv "subj"))
      in
      let t2 = transpile f r in
      (match transpile_text f r with
      | None -> "text=ERR;m=-;e=-"
      | Some cps ->
          (* m is guarded by the weight of the emitted term, e by the weight of the tree (they differ when a count stands in an
             extended-mode comment; e is compared for patterns without x only) *)
          let skip_m = repeat_weight2 t2 > repeat_weight_bound and skip_e = repeat_weight r > repeat_weight_bound in
          let m = if skip_m then "" else String.concat "" (Stdlib.List.map (fun s -> bit (matches_re2 orbit uni posix s t2)) subjects) in
          let e = if skip_e then "" else String.concat "" (Stdlib.List.map (fun s -> bit (matches_elk orbit uni posix s f r)) subjects) in
          Printf.sprintf "text=%s;m=%s;e=%s%s" (utf8_hex (Stdlib.List.map int_of_z cps)) (if m = "" then "-" else m)
            (if e = "" then "-" else e)
            (if skip_m || skip_e then ";skip=nested-repeat-counts" else ""))

let () =
  Zio.iter_lines (fun line ->
      match Zio.split_tab line with
      | id :: input :: _ -> (
          try print_string (id ^ "\t" ^ run input ^ "\n")
          with e -> print_string (id ^ "\tdriver-error " ^ Printexc.to_string e ^ "\n"))
      | _ -> ())
