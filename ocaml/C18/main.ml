(* C18 model driver. stdin: "<id>\t<case>" with case = "P a b" | "T a b c" (value tokens as in
   harness/cmd/c18/main.go); stdout: "<id>\t<observable>" where a pair prints
   "eq lax seq lt le gt ge cmp x<hash bytes of a, hex> x<hash bytes of b, hex>" ("?" = not modelled)
   and a triple prints the pairs ab | bc | ac. *)
open C18_Num

let z = Zio.z_of_string

let hex_bytes (s : string) : BinNums.coq_Z list =
  let n = String.length s / 2 in
  List.init n (fun i -> Zio.z_of_int (int_of_string ("0x" ^ String.sub s (2 * i) 2)))

let mk (tok : string) : coq_val =
  match String.index_opt tok ':' with
  | None -> failwith ("token " ^ tok)
  | Some i -> (
      let k = String.sub tok 0 i and p = String.sub tok (i + 1) (String.length tok - i - 1) in
      match k with
      | "I" -> VInt (z p)
      | "F" -> VFloat (z p)
      | "D" -> VF64 (z p)
      | "S" -> VF32 (z p)
      | "i8" -> VS (S8, z p)
      | "i16" -> VS (S16, z p)
      | "i32" -> VS (S32, z p)
      | "i64" -> VS (S64, z p)
      | "u8" -> VU (U8, z p)
      | "u16" -> VU (U16, z p)
      | "u32" -> VU (U32, z p)
      | "u64" -> VU (U64, z p)
      | "u" -> VU (UW, z p)
      | "s" -> VStr (hex_bytes p)
      | "c" -> VChar (z p)
      | "y" -> VSym (z p)
      | _ -> failwith ("token kind " ^ k))

let b3 b = if b then "t" else "f"
let lax = function Some b -> b3 b | None -> "?"
let rr = function RB b -> b3 b | RErr -> "e" | RUndef -> "u" | RUnk -> "?"
let cr = function
  | CCmp Lt -> "-1" | CCmp Eq -> "0" | CCmp Gt -> "1" | CNil -> "n" | CErr -> "e" | CUndef -> "u" | CUnk -> "?"

let hexb (l : BinNums.coq_Z list) =
  "x" ^ String.concat "" (List.map (fun b -> Printf.sprintf "%02x" (Zio.int_of_z b)) l)

let pair a b =
  String.concat " "
    [ b3 (equal a b); lax (lax_equal a b); b3 (strict_equal a b); rr (lt a b); rr (le a b); rr (gt a b); rr (ge a b);
      cr (cmp a b); hexb (hash_bytes a); hexb (hash_bytes b) ]

let () =
  Zio.iter_lines (fun line ->
      match Zio.split_tab line with
      | id :: input :: _ -> (
          let out =
            try
              match Zio.split_sp input with
              | [ "P"; a; b ] ->
                  let a = mk a and b = mk b in
                  if wf a && wf b then pair a b else "ill-formed"
              | [ "T"; a; b; c ] ->
                  let a = mk a and b = mk b and c = mk c in
                  if wf a && wf b && wf c then pair a b ^ " | " ^ pair b c ^ " | " ^ pair a c else "ill-formed"
              | _ -> "bad-input"
            with Failure m -> "unmodelled " ^ m
          in
          print_string (id ^ "\t" ^ out ^ "\n"))
      | _ -> ())
