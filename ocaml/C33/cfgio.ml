(* Parsing of the textual function dump produced by harness/cfgx (Dump) into the extracted
   raw record; shared verbatim by the C29 and C33 drivers (copy in ocaml/C33/cfgio.ml). *)
open BinNums
open Cfg
open C29_Decode

let n_of_int i = Zio.n_of_string (string_of_int i)
let z_of_int i = Zio.z_of_string (string_of_int i)

let hexval c =
  match c with
  | '0' .. '9' -> Char.code c - 48
  | 'a' .. 'f' -> Char.code c - 87
  | 'A' .. 'F' -> Char.code c - 55
  | _ -> failwith "hex"

(* small table so that bytes are shared values *)
let byte_tab = Array.init 256 n_of_int

let bytes_of_hex (s : string) : coq_N list =
  let n = String.length s / 2 in
  List.init n (fun i -> byte_tab.((hexval s.[2 * i] * 16) + hexval s.[(2 * i) + 1]))

let vkind_of (t : string) : vkind =
  if t = "" then VOther
  else
    match t.[0] with
    | 'f' -> VFun (Zio.n_of_string (String.sub t 1 (String.length t - 1)))
    | 'c' -> VCall
    | 'b' -> VCallBC
    | 'n' -> VCallNT
    | 's' -> VSym
    | 'i' -> VInt (Zio.z_of_string (String.sub t 1 (String.length t - 1)))
    | _ -> VOther

let catch_of (t : string) : catch =
  match String.split_on_char ':' t with
  | [ a; b; c; d ] ->
      { c_from = Zio.z_of_string a; c_to = Zio.z_of_string b; c_jump = Zio.z_of_string c; c_fin = d = "1" }
  | _ -> failwith ("catch " ^ t)

let fields (s : string) : (string * string) list =
  List.filter_map
    (fun kv ->
      match String.index_opt kv '=' with
      | Some i -> Some (String.sub kv 0 i, String.sub kv (i + 1) (String.length kv - i - 1))
      | None -> None)
    (String.split_on_char ';' s)

let nonempty_split c s = if s = "" then [] else String.split_on_char c s

let raw_of_dump (s : string) : raw =
  let f = fields s in
  let get k = try List.assoc k f with Not_found -> "" in
  {
    r_code = bytes_of_hex (get "code");
    r_vals = List.map vkind_of (nonempty_split ',' (get "vals"));
    r_catches = List.map catch_of (nonempty_split ',' (get "catch"));
    r_params = Zio.n_of_string (get "params");
    r_upvals = Zio.n_of_string (get "upv");
  }

let int_of_n n = int_of_string (Zio.string_of_n n)
