(* C33 driver. stdin "<id>\tF <dump>" -> "safe nb=<instructions> checks=<check nodes>" when the
   extracted decode + abort_safe accept, else "unsafe loop" (a cycle without CHECK_ABORT /
   context-aware opcode / suspension) or "unsafe exit" (a RETURN/YIELD reachable without a check)
   or "undecodable". *)
open Cfg
open C29_Decode
open Cfgio

let fun_line (dump : string) : string =
  let r = raw_of_dump dump in
  match build C29_Opcodes.optable r with
  | None -> "undecodable"
  | Some f ->
      let nb = List.length f.f_instrs in
      let checks = List.length (List.filter (fun i -> i.i_check) f.f_instrs) in
      let has_dyn = List.exists (fun i -> match i.i_kind with KDyn _ -> true | _ -> false) f.f_instrs in
      let l = loops_checked f and e = exits_checked f in
      let sfx s = if has_dyn then s ^ " jtf" else s in
      sfx (
      if l && e then Printf.sprintf "safe nb=%d checks=%d" nb checks
      else if not l then Printf.sprintf "unsafe loop nb=%d checks=%d%s" nb checks (if e then "" else " +exit")
      else Printf.sprintf "unsafe exit nb=%d checks=%d" nb checks)

let () =
  Zio.iter_lines (fun line ->
      match Zio.split_tab line with
      | id :: input :: _ ->
          let out =
            try
              if String.length input > 2 && String.sub input 0 2 = "F " then
                fun_line (String.sub input 2 (String.length input - 2))
              else "skip"
            with e -> "driver-error " ^ Printexc.to_string e
          in
          print_string (id ^ "\t" ^ out ^ "\n")
      | _ -> ())
