(* C26 model driver.  argv[1] = "seq" | "conc".
   seq : stdin "<id>\t<ops>"  ops = A<key> G<key> N<sym> E<sym> ; stdout "<id>\t<results> | T<keys>"
         every call is executed by the extracted micro-op semantics (seq_call) on the
         regenerated op table gen_fs.
   conc: stdin "<id>\t<summary printed by the Go harness>" ; the final id table T is replayed
         as a sequence of Adds on the model and every distinct observation of the run is
         checked against the resulting model state; stdout "<id>\tok" or "<id>\tbad:<entry>" *)
open C26_SymTab

let fs = C26.gen_fs
(* keys of long names have hundreds of digits: memoise the (quadratic) conversions *)
let ztab : (string, BinNums.coq_Z) Hashtbl.t = Hashtbl.create 64
let stab : (BinNums.coq_Z, string) Hashtbl.t = Hashtbl.create 64
let z s = match Hashtbl.find_opt ztab s with Some v -> v | None -> let v = Zio.z_of_string s in Hashtbl.replace ztab s v; Hashtbl.replace stab v s; v
let zs v = match Hashtbl.find_opt stab v with Some s -> s | None -> let s = Zio.string_of_z v in Hashtbl.replace stab v s; s
let tf b = if b then "t" else "f"

let call st f n i =
  let st', r = seq_call fs st f n i in
  (forget st', r)

let show_res = function
  | Some (RSym i) -> zs i
  | Some (RSymOk (i, ok)) -> zs i ^ "," ^ tf ok
  | Some (RNameOk (n, ok)) -> zs n ^ "," ^ tf ok
  | Some (RBool b) -> tf b
  | None -> "stuck"

let z0 = z "0"

let run_op st tok =
  let arg = String.sub tok 1 (String.length tok - 1) in
  match tok.[0] with
  | 'A' -> call st FAdd (z arg) z0
  | 'G' -> call st FGet (z arg) z0
  | 'N' -> call st FGetName z0 (z arg)
  | 'E' -> call st FExistsId z0 (z arg)
  | _ -> failwith ("bad op " ^ tok)

let table st = String.concat "," (List.map zs st.it)

let seq_case input =
  let st = ref init in
  let out =
    List.map
      (fun tok ->
        let st', r = run_op !st tok in
        st := st';
        show_res r)
      (Zio.split_sp input)
  in
  String.concat " " out ^ " | T" ^ table !st

let split_on s sep =
  (* split on the 3-char separator " | " *)
  Str.split (Str.regexp_string sep) s

let conc_case summary =
  match split_on summary " | " with
  | _verdict :: t :: rest ->
      let keys = if String.length t <= 1 then [] else String.split_on_char ',' (String.sub t 1 (String.length t - 1)) in
      let st = ref init in
      let bad = ref None in
      let note e = if !bad = None then bad := Some e in
      List.iteri
        (fun idx k ->
          let st', r = call !st FAdd (z k) z0 in
          st := st';
          if show_res r <> string_of_int idx then note ("T" ^ string_of_int idx ^ ":" ^ k))
        keys;
      let entries = match rest with [] -> [] | e :: _ -> Zio.split_sp e in
      List.iter
        (fun e ->
          let kind = e.[0] in
          let body = String.sub e 1 (String.length e - 1) in
          match String.split_on_char '=' body with
          | [ a; r ] -> (
              let exp f n i = show_res (snd (call !st f n i)) in
              match kind with
              | 'A' -> if exp FGet (z a) z0 <> r ^ ",t" then note e
              | 'G' -> if r = "-1,f" then () else if exp FGet (z a) z0 <> r then note e
              | 'N' -> if exp FGetName z0 (z a) <> r || not (String.length r > 1 && r.[String.length r - 1] = 't') then note e
              | 'M' -> if r = "1,f" then () else if exp FGetName z0 (z a) <> r then note e
              | 'E' -> if r = "f" then () else if exp FExistsId z0 (z a) <> "t" then note e
              | _ -> note e)
          | _ -> note e)
        entries;
      (match !bad with None -> "ok" | Some e -> "bad:" ^ e)
  | _ -> "bad:format"

let () =
  let mode = if Array.length Sys.argv > 1 then Sys.argv.(1) else "seq" in
  Zio.iter_lines (fun line ->
      match Zio.split_tab line with
      | id :: input :: _ ->
          let r = try (if mode = "conc" then conc_case input else seq_case input) with e -> "exn:" ^ Printexc.to_string e in
          print_string (id ^ "\t" ^ r ^ "\n")
      | _ -> ())
