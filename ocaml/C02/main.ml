(* C02 model driver. stdin: "<id>\t<request>"; stdout: "<id>\t<answer>"
   requests
     (sub S T)        -> ok | reject                      extracted `subtype`
     (mem T V)        -> in | out                         extracted `mem`
     (prog STMT)      -> rejected
                       | (ok simple|flow (types (K T)...) (status done|stuck) (log (K T V in|out)...))
                         types: the inferred static type of every probe (annot_s); the annotated program
                         is then checked with check_s and run with exec; log = executed probes in order.
   syntax
     type  Int Float String bool Bool nil any never true false (i Z) (f M E) (s letters) (opt T) (or A B)
     value (i Z) (f M E) (s letters) t f n
     expr  value | (v X) | (bin add|sub|mul|lt|le|eq A B) | (neg A) | (not A) | (isnil A) | (notnil A)
           | (and A B) | (or A B) | (nilco A B)
     stmt  skip | (seq S...) | (decl X T E) | (infer X E) | (assign X E) | (if C S S) | (probe K E)
           | (while C S) | (closure F S) | (call F)
   class fragment (Model/C02_Classes.v); H = (h (ct (C P)...) (ovr C...)), class ids are integers
     (kmem H KT KV)               -> in | out                      extracted `kmem`
     (kannot FX H (env (X KT)...) KS)
                                  -> (types (K KT)...)             extracted `kannot` (FX = fixed | found)
     (krun FX H (env (X KT)...) (vals (X KV)...) KS)
                                  -> stuck | (log (K KT KV in|out)...)   extracted `krun`, `kmem`
     (kres H C)                   -> class id | none               extracted `resolve` (dynamic dispatch of `name`)
     (kstatic H KT)               -> class id | dyn                extracted `static_target`
     ktype  nil never any (c C) (x C) (or A B) (and A B) (not A)
     kvalue (o C) | n
     kcond  (isa X C) (risa X C) (inst X C) (rinst X C) (not K) (and A B) (or A B)
     kstmt  skip | (seq S...) | (probe K X) | (if KC S S)
   generic classes / implicit interfaces (Model/C02_Iface.v)
     G = (tab (cls (C FLAG (m NAME P R BODY)...)...) (ifc (I FLAG (m NAME P R)...)...))   FLAG is ignored here
       P = - | bty     bty = Int | String | Float | nil | T | (or A B)     BODY = item | arg | (k ATOM Z)
     gtype  (b bty) | (c C bty) | (i I bty)          gvalue (vb ATOM Z) | (vo C ATOM Z)
     (ihist G (q A B)...)     -> ill-formed | v1,v2,...;alone=v1,v2,...     extracted `hist` (first half) and
                                                                          `isub` on each question alone
     (imem G gtype gvalue)    -> in | out                                   extracted `gmem_b`
     (icall G C ATOM Z M ARG) -> none | (ATOM Z)        ARG = - | (ATOM Z)   extracted `gcall`
     (iret G gtype M)         -> none | (atoms ATOM...)                     extracted `ret_atoms`
   self-referential interfaces (Model/C02_IfaceRec.v); G has ONE class and ONE interface (their base methods)
     (irsub FX G S0 T0 (ATOM Z) S T) -> ill-formed | ok | reject     extracted `rsub` (FX = fixed | found), `rtab_ok`
     (ircall G S0 T0 (ATOM Z) M)     -> none | (ATOM Z)              extracted `rcall` (no argument) *)
open BinNums
open C02_Types
open C02_Classes
open C02_Iface
open C02_IfaceRec

type sx = A of string | L of sx list

let parse (s : string) : sx =
  let n = String.length s in
  let pos = ref 0 in
  let rec skip () = if !pos < n && s.[!pos] = ' ' then (incr pos; skip ()) in
  let rec item () =
    skip ();
    if !pos >= n then failwith "sexp: eof";
    if s.[!pos] = '(' then begin
      incr pos;
      let acc = ref [] in
      let rec loop () =
        skip ();
        if !pos >= n then failwith "sexp: unclosed";
        if s.[!pos] = ')' then incr pos else (acc := item () :: !acc; loop ())
      in
      loop ();
      L (List.rev !acc)
    end else begin
      let st = !pos in
      while !pos < n && s.[!pos] <> ' ' && s.[!pos] <> '(' && s.[!pos] <> ')' do incr pos done;
      A (String.sub s st (!pos - st))
    end
  in
  item ()

let z = Zio.z_of_string
let zs = Zio.string_of_z

let str_of (s : string) : coq_Z list =
  List.init (String.length s) (fun i -> z (string_of_int (Char.code s.[i])))

let rec int_of_z_small (x : coq_Z) : int = int_of_string (zs x)
and show_str (l : coq_Z list) : string =
  String.concat "" (List.map (fun c -> String.make 1 (Char.chr (int_of_z_small c))) l)

let rec ty_of (x : sx) : ty =
  match x with
  | A "Int" -> TInt | A "Float" -> TFloat | A "String" -> TString | A "bool" -> TBool | A "Bool" -> TBoolC
  | A "nil" -> TNil | A "any" -> TAny | A "never" -> TNever | A "true" -> TTrue | A "false" -> TFalse
  | L [ A "i"; A k ] -> TLitI (z k)
  | L [ A "f"; A m; A e ] -> TLitF (z m, z e)
  | L [ A "s"; A s ] -> TLitS (str_of s)
  | L [ A "s" ] -> TLitS []
  | L [ A "opt"; t ] -> TNilable (ty_of t)
  | L [ A "or"; a; b ] -> TUnion (ty_of a, ty_of b)
  | _ -> failwith "type"

let rec show_ty (t : ty) : string =
  match t with
  | TInt -> "Int" | TFloat -> "Float" | TString -> "String" | TBool -> "bool" | TBoolC -> "Bool"
  | TNil -> "nil" | TAny -> "any" | TNever -> "never" | TTrue -> "true" | TFalse -> "false"
  | TLitI k -> "(i " ^ zs k ^ ")"
  | TLitF (m, e) -> "(f " ^ zs m ^ " " ^ zs e ^ ")"
  | TLitS s -> "(s " ^ show_str s ^ ")"
  | TNilable t1 -> "(opt " ^ show_ty t1 ^ ")"
  | TUnion (a, b) -> "(or " ^ show_ty a ^ " " ^ show_ty b ^ ")"

let value_of (x : sx) : value =
  match x with
  | L [ A "i"; A k ] -> VInt (z k)
  | L [ A "f"; A m; A e ] -> VFloat (z m, z e)
  | L [ A "s"; A s ] -> VStr (str_of s)
  | L [ A "s" ] -> VStr []
  | A "t" -> VBool true | A "f" -> VBool false | A "n" -> VNil
  | _ -> failwith "value"

let show_value (v : value) : string =
  match v with
  | VInt k -> "(i " ^ zs k ^ ")"
  | VFloat (m, e) -> "(f " ^ zs m ^ " " ^ zs e ^ ")"
  | VStr s -> "(s " ^ show_str s ^ ")"
  | VBool true -> "t" | VBool false -> "f" | VNil -> "n"

let binop_of = function
  | "add" -> Add | "sub" -> Sub | "mul" -> Mul | "lt" -> Lt | "le" -> Le | "eq" -> Eq
  | _ -> failwith "binop"

let rec expr_of (x : sx) : expr =
  match x with
  | L [ A "i"; A k ] -> ELitI (z k)
  | L [ A "f"; A m; A e ] -> ELitF (z m, z e)
  | L [ A "s"; A s ] -> ELitS (str_of s)
  | L [ A "s" ] -> ELitS []
  | A "t" -> EBoolLit true | A "f" -> EBoolLit false | A "n" -> ENilLit
  | L [ A "v"; A k ] -> EVar (z k)
  | L [ A "bin"; A o; a; b ] -> EBin (binop_of o, expr_of a, expr_of b)
  | L [ A "neg"; a ] -> ENeg (expr_of a)
  | L [ A "not"; a ] -> ENot (expr_of a)
  | L [ A "isnil"; a ] -> EIsNil (false, expr_of a)
  | L [ A "notnil"; a ] -> EIsNil (true, expr_of a)
  | L [ A "and"; a; b ] -> EAnd (expr_of a, expr_of b)
  | L [ A "or"; a; b ] -> EOr (expr_of a, expr_of b)
  | L [ A "nilco"; a; b ] -> ENilCo (expr_of a, expr_of b)
  | _ -> failwith "expr"

let rec stmt_of (x : sx) : stmt =
  match x with
  | A "skip" -> SSkip
  | L (A "seq" :: ss) -> List.fold_right (fun s acc -> SSeq (stmt_of s, acc)) ss SSkip
  | L [ A "decl"; A v; t; e ] -> SDecl (z v, ty_of t, expr_of e)
  | L [ A "infer"; A v; e ] -> SInfer (z v, expr_of e)
  | L [ A "assign"; A v; e ] -> SAssign (z v, expr_of e)
  | L [ A "if"; c; a; b ] -> SIf (expr_of c, stmt_of a, stmt_of b)
  | L [ A "probe"; A k; e ] -> SProbe (z k, TNever, expr_of e)
  | L [ A "while"; c; b ] -> SWhile (expr_of c, stmt_of b)
  | L [ A "closure"; A f; b ] -> SClosure (z f, stmt_of b)
  | L [ A "call"; A f ] -> SCall (z f)
  | _ -> failwith "stmt"

let rec nat_of_int n = if n <= 0 then Datatypes.O else Datatypes.S (nat_of_int (n - 1))

let rec probe_types (s : stmt) (acc : string list) : string list =
  match s with
  | SSeq (a, b) -> probe_types b (probe_types a acc)
  | SIf (_, a, b) -> probe_types b (probe_types a acc)
  | SWhile (_, b) | SClosure (_, b) -> probe_types b acc
  | SProbe (k, t, _) -> ("(" ^ zs k ^ " " ^ show_ty t ^ ")") :: acc
  | _ -> acc

let fuel = nat_of_int 3000

let run (x : sx) : string =
  match x with
  | L [ A "sub"; a; b ] -> if subtype (ty_of a) (ty_of b) then "ok" else "reject"
  | L [ A "mem"; t; v ] -> if mem (ty_of t) (value_of v) then "in" else "out"
  | L [ A "prog"; s ] -> (
      let s = stmt_of s in
      match annot_s [] s with
      | None -> "rejected"
      | Some (_, s') -> (
          match check_s [] s' with
          | None -> "check-failed-after-annotation"
          | Some _ ->
              let types = String.concat " " (List.rev (probe_types s' [])) in
              let simple = if flow_simple s' then "simple" else "flow" in
              let status, lg =
                match exec fuel init_state s' with
                | Some ((_, _), lg) -> ("done", lg)
                | None -> ("stuck", [])
              in
              let entry ((k, t), v) =
                "(" ^ zs k ^ " " ^ show_ty t ^ " " ^ show_value v ^ " " ^ (if mem t v then "in" else "out") ^ ")"
              in
              "(ok " ^ simple ^ " (types " ^ types ^ ") (status " ^ status ^ ") (log "
              ^ String.concat " " (List.rev_map entry lg)
              ^ "))"))
  | _ -> failwith "request"

(* ---------------------------------------------------------------- class fragment *)
let rec kty_of (x : sx) : kty =
  match x with
  | A "nil" -> KNil | A "never" -> KNever | A "any" -> KAny
  | L [ A "c"; A k ] -> KClass (z k)
  | L [ A "x"; A k ] -> KExact (z k)
  | L [ A "or"; a; b ] -> KUnion (kty_of a, kty_of b)
  | L [ A "and"; a; b ] -> KAnd (kty_of a, kty_of b)
  | L [ A "not"; a ] -> KNot (kty_of a)
  | _ -> failwith "ktype"

let rec show_kty (t : kty) : string =
  match t with
  | KNil -> "nil" | KNever -> "never" | KAny -> "any"
  | KClass c -> "(c " ^ zs c ^ ")"
  | KExact c -> "(x " ^ zs c ^ ")"
  | KUnion (a, b) -> "(or " ^ show_kty a ^ " " ^ show_kty b ^ ")"
  | KAnd (a, b) -> "(and " ^ show_kty a ^ " " ^ show_kty b ^ ")"
  | KNot a -> "(not " ^ show_kty a ^ ")"

let kval_of (x : sx) : kval =
  match x with
  | L [ A "o"; A k ] -> VObj (z k)
  | A "n" -> VNilK
  | _ -> failwith "kvalue"

let show_kval (v : kval) : string = match v with VObj c -> "(o " ^ zs c ^ ")" | VNilK -> "n"

let rec kcond_of (x : sx) : kcond =
  match x with
  | L [ A "isa"; A v; A c ] -> CTest (TIsA, z v, z c)
  | L [ A "risa"; A v; A c ] -> CTest (TRevIsA, z v, z c)
  | L [ A "inst"; A v; A c ] -> CTest (TInstOf, z v, z c)
  | L [ A "rinst"; A v; A c ] -> CTest (TRevInstOf, z v, z c)
  | L [ A "not"; a ] -> CNot (kcond_of a)
  | L [ A "and"; a; b ] -> CAnd (kcond_of a, kcond_of b)
  | L [ A "or"; a; b ] -> COr (kcond_of a, kcond_of b)
  | _ -> failwith "kcond"

let rec kstmt_of (x : sx) : kstmt =
  match x with
  | A "skip" -> KSkip
  | L (A "seq" :: ss) -> List.fold_right (fun s acc -> KSeq (kstmt_of s, acc)) ss KSkip
  | L [ A "probe"; A k; A v ] -> KProbe (z k, z v)
  | L [ A "if"; c; a; b ] -> KIf (kcond_of c, kstmt_of a, kstmt_of b)
  | _ -> failwith "kstmt"

let hier_of (x : sx) : (coq_Z * coq_Z) list * coq_Z list =
  match x with
  | L [ A "h"; L (A "ct" :: ps); L (A "ovr" :: os) ] ->
      ( List.map (function L [ A c; A p ] -> (z c, z p) | _ -> failwith "ct") ps,
        List.map (function A c -> z c | _ -> failwith "ovr") os )
  | _ -> failwith "hierarchy"

let fx_of = function A "fixed" -> true | A "found" -> false | _ -> failwith "fx"

let kenv_of (x : sx) : (coq_Z * kty) list =
  match x with
  | L (A "env" :: es) -> List.map (function L [ A v; t ] -> (z v, kty_of t) | _ -> failwith "env") es
  | _ -> failwith "env"

let kvals_of (x : sx) : (coq_Z * kval) list =
  match x with
  | L (A "vals" :: es) -> List.map (function L [ A v; w ] -> (z v, kval_of w) | _ -> failwith "vals") es
  | _ -> failwith "vals"

let krequest (x : sx) : string option =
  match x with
  | L [ A "kmem"; h; t; v ] ->
      let ct, _ = hier_of h in
      Some (if kmem ct (kty_of t) (kval_of v) then "in" else "out")
  | L [ A "kannot"; fx; h; env; s ] ->
      let _ = hier_of h in
      let l = kannot (fx_of fx) (kenv_of env) (kstmt_of s) in
      Some ("(types " ^ String.concat " " (List.map (fun (k, t) -> "(" ^ zs k ^ " " ^ show_kty t ^ ")") l) ^ ")")
  | L [ A "krun"; fx; h; env; vals; s ] -> (
      let ct, _ = hier_of h in
      match krun (fx_of fx) ct (kenv_of env) (kvals_of vals) (kstmt_of s) with
      | None -> Some "stuck"
      | Some lg ->
          let entry ((k, t), v) =
            "(" ^ zs k ^ " " ^ show_kty t ^ " " ^ show_kval v ^ " " ^ (if kmem ct t v then "in" else "out") ^ ")"
          in
          Some ("(log " ^ String.concat " " (List.map entry lg) ^ ")"))
  | L [ A "kres"; h; A c ] -> (
      let ct, ovr = hier_of h in
      match resolve ct ovr (z c) with Some d -> Some (zs d) | None -> Some "none")
  | L [ A "kstatic"; h; t ] -> (
      let ct, _ = hier_of h in
      match static_target ct (kty_of t) with Some d -> Some (zs d) | None -> Some "dyn")
  | _ -> None

(* ---------------------------------------------------------------- generic classes / interfaces *)
let atom_of = function
  | "Int" -> AInt | "String" -> AStr | "Float" -> AFlt | "nil" -> ANil | _ -> failwith "atom"

let show_atom = function AInt -> "Int" | AStr -> "String" | AFlt -> "Float" | ANil -> "nil"

let rec bty_of (x : sx) : bty =
  match x with
  | A "T" -> BVar
  | A a -> BAtom (atom_of a)
  | L [ A "or"; a; b ] -> BOr (bty_of a, bty_of b)
  | _ -> failwith "bty"

let param_of (x : sx) : bty option = match x with A "-" -> None | p -> Some (bty_of p)

let body_of (x : sx) : body =
  match x with
  | A "item" -> BdItem
  | A "arg" -> BdArg
  | L [ A "k"; A a; A k ] -> BdConst (atom_of a, z k)
  | _ -> failwith "body"

let tabs_of (x : sx) =
  match x with
  | L [ A "tab"; L (A "cls" :: cs); L (A "ifc" :: is) ] ->
      ( List.map
          (function
            | L (A c :: A _ :: ms) ->
                ( z c,
                  List.map
                    (function
                      | L [ A "m"; A n; p; r; b ] -> (z n, ((param_of p, bty_of r), body_of b))
                      | _ -> failwith "cmeth")
                    ms )
            | _ -> failwith "cls")
          cs,
        List.map
          (function
            | L (A i :: A _ :: ms) ->
                ( z i,
                  List.map
                    (function L [ A "m"; A n; p; r ] -> (z n, (param_of p, bty_of r)) | _ -> failwith "imeth")
                    ms )
            | _ -> failwith "ifc")
          is )
  | _ -> failwith "tables"

let gty_of (x : sx) : gty =
  match x with
  | L [ A "b"; b ] -> GB (bty_of b)
  | L [ A "c"; A c; b ] -> GC (z c, bty_of b)
  | L [ A "i"; A i; b ] -> GI (z i, bty_of b)
  | _ -> failwith "gtype"

let gval_of (x : sx) : gval =
  match x with
  | L [ A "vb"; A a; A k ] -> VB (atom_of a, z k)
  | L [ A "vo"; A c; A a; A k ] -> VO (z c, (atom_of a, z k))
  | _ -> failwith "gvalue"

let irequest (x : sx) : string option =
  match x with
  | L (A "ihist" :: g :: qs) ->
      let ct, it = tabs_of g in
      if not (ctab_ok ct) then Some "ill-formed"
      else
        let qs = List.map (function L [ A "q"; a; b ] -> (gty_of a, gty_of b) | _ -> failwith "question") qs in
        let show b = if b then "ok" else "reject" in
        let together = List.map show (hist ct it qs) in
        let alone = List.map (fun (a, b) -> show (isub ct it a b)) qs in
        Some (String.concat "," together ^ ";alone=" ^ String.concat "," alone)
  | L [ A "imem"; g; t; v ] ->
      let ct, it = tabs_of g in
      Some (if gmem_b ct it (gty_of t) (gval_of v) then "in" else "out")
  | L [ A "icall"; g; A c; A a; A k; A m; arg ] -> (
      let ct, _ = tabs_of g in
      let arg = match arg with A "-" -> None | L [ A aa; A kk ] -> Some (atom_of aa, z kk) | _ -> failwith "arg" in
      match gcall ct (z c) (atom_of a, z k) (z m) arg with
      | None -> Some "none"
      | Some (ra, rk) -> Some ("(" ^ show_atom ra ^ " " ^ zs rk ^ ")"))
  | L [ A "iret"; g; t; A m ] -> (
      let ct, it = tabs_of g in
      let sigs, arg =
        match gty_of t with
        | GC (c, s) -> (csigs ct c, s)
        | GI (i, s) -> (imeths it i, s)
        | GB _ -> ([], BVar)
      in
      match ret_atoms sigs (bat [] arg) (z m) with
      | None -> Some "none"
      | Some l -> Some ("(atoms" ^ String.concat "" (List.map (fun a -> " " ^ show_atom a) l) ^ ")"))
  | _ -> None

let rtab_of g s0 t0 a k =
  match tabs_of g with
  | [ (c, cm) ], [ (i, im) ] ->
      { r_cls = c; r_ifc = i; r_cm = cm; r_im = im; r_s0 = bty_of s0; r_t0 = bty_of t0; r_lit = (atom_of a, z k) }
  | _ -> failwith "rtab"

let rrequest (x : sx) : string option =
  match x with
  | L [ A "irsub"; fx; g; s0; t0; L [ A a; A k ]; s; t ] ->
      let r = rtab_of g s0 t0 a k in
      if not (rtab_ok r) then Some "ill-formed"
      else Some (if rsub (fx_of fx) r (bty_of s) (bty_of t) then "ok" else "reject")
  | L [ A "ircall"; g; s0; t0; L [ A a; A k ]; A m ] -> (
      let r = rtab_of g s0 t0 a k in
      match rcall r (z m) None with
      | None -> Some "none"
      | Some (ra, rk) -> Some ("(" ^ show_atom ra ^ " " ^ zs rk ^ ")"))
  | _ -> None

let irequest (x : sx) : string option = match rrequest x with Some a -> Some a | None -> irequest x

let run (x : sx) : string =
  match irequest x with
  | Some a -> a
  | None -> ( match krequest x with Some a -> a | None -> run x)

let () =
  Zio.iter_lines (fun line ->
      match Zio.split_tab line with
      | id :: input :: _ ->
          let out = try run (parse input) with Failure m -> "bad-input:" ^ m | Not_found -> "bad-input" in
          print_string (id ^ "\t" ^ out ^ "\n")
      | _ -> ())
