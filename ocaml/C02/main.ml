(* C02 model driver. stdin: "<id>\t<request>"; stdout: "<id>\t<answer>"
   requests
     (sub S T)        -> ok | reject                      extracted `subtype`
     (mem T V)        -> in | out                         extracted `mem`
     (prog STMT)      -> rejected
                       | (ok simple|flow (types (K T)...) (status done|stuck) (log (K T V in|out)...))
                         types: the inferred static type of every probe (annot_s); the annotated program
                         is then checked with check_s and run with exec; log = executed probes in order.
   syntax
     type  Int Float String bool Bool nil any never true false (i Z) (f M E) (s letters) (opt T) (or A B)
     value (i Z) (f M E) (s letters) t f n
     expr  value | (v X) | (bin add|sub|mul|lt|le|eq A B) | (neg A) | (not A) | (isnil A) | (notnil A)
           | (and A B) | (or A B) | (nilco A B)
     stmt  skip | (seq S...) | (decl X T E) | (infer X E) | (assign X E) | (if C S S) | (probe K E)
           | (while C S) | (closure F S) | (call F) *)
open BinNums
open C02_Types

type sx = A of string | L of sx list

let parse (s : string) : sx =
  let n = String.length s in
  let pos = ref 0 in
  let rec skip () = if !pos < n && s.[!pos] = ' ' then (incr pos; skip ()) in
  let rec item () =
    skip ();
    if !pos >= n then failwith "sexp: eof";
    if s.[!pos] = '(' then begin
      incr pos;
      let acc = ref [] in
      let rec loop () =
        skip ();
        if !pos >= n then failwith "sexp: unclosed";
        if s.[!pos] = ')' then incr pos else (acc := item () :: !acc; loop ())
      in
      loop ();
      L (List.rev !acc)
    end else begin
      let st = !pos in
      while !pos < n && s.[!pos] <> ' ' && s.[!pos] <> '(' && s.[!pos] <> ')' do incr pos done;
      A (String.sub s st (!pos - st))
    end
  in
  item ()

let z = Zio.z_of_string
let zs = Zio.string_of_z

let str_of (s : string) : coq_Z list =
  List.init (String.length s) (fun i -> z (string_of_int (Char.code s.[i])))

let rec int_of_z_small (x : coq_Z) : int = int_of_string (zs x)
and show_str (l : coq_Z list) : string =
  String.concat "" (List.map (fun c -> String.make 1 (Char.chr (int_of_z_small c))) l)

let rec ty_of (x : sx) : ty =
  match x with
  | A "Int" -> TInt | A "Float" -> TFloat | A "String" -> TString | A "bool" -> TBool | A "Bool" -> TBoolC
  | A "nil" -> TNil | A "any" -> TAny | A "never" -> TNever | A "true" -> TTrue | A "false" -> TFalse
  | L [ A "i"; A k ] -> TLitI (z k)
  | L [ A "f"; A m; A e ] -> TLitF (z m, z e)
  | L [ A "s"; A s ] -> TLitS (str_of s)
  | L [ A "s" ] -> TLitS []
  | L [ A "opt"; t ] -> TNilable (ty_of t)
  | L [ A "or"; a; b ] -> TUnion (ty_of a, ty_of b)
  | _ -> failwith "type"

let rec show_ty (t : ty) : string =
  match t with
  | TInt -> "Int" | TFloat -> "Float" | TString -> "String" | TBool -> "bool" | TBoolC -> "Bool"
  | TNil -> "nil" | TAny -> "any" | TNever -> "never" | TTrue -> "true" | TFalse -> "false"
  | TLitI k -> "(i " ^ zs k ^ ")"
  | TLitF (m, e) -> "(f " ^ zs m ^ " " ^ zs e ^ ")"
  | TLitS s -> "(s " ^ show_str s ^ ")"
  | TNilable t1 -> "(opt " ^ show_ty t1 ^ ")"
  | TUnion (a, b) -> "(or " ^ show_ty a ^ " " ^ show_ty b ^ ")"

let value_of (x : sx) : value =
  match x with
  | L [ A "i"; A k ] -> VInt (z k)
  | L [ A "f"; A m; A e ] -> VFloat (z m, z e)
  | L [ A "s"; A s ] -> VStr (str_of s)
  | L [ A "s" ] -> VStr []
  | A "t" -> VBool true | A "f" -> VBool false | A "n" -> VNil
  | _ -> failwith "value"

let show_value (v : value) : string =
  match v with
  | VInt k -> "(i " ^ zs k ^ ")"
  | VFloat (m, e) -> "(f " ^ zs m ^ " " ^ zs e ^ ")"
  | VStr s -> "(s " ^ show_str s ^ ")"
  | VBool true -> "t" | VBool false -> "f" | VNil -> "n"

let binop_of = function
  | "add" -> Add | "sub" -> Sub | "mul" -> Mul | "lt" -> Lt | "le" -> Le | "eq" -> Eq
  | _ -> failwith "binop"

let rec expr_of (x : sx) : expr =
  match x with
  | L [ A "i"; A k ] -> ELitI (z k)
  | L [ A "f"; A m; A e ] -> ELitF (z m, z e)
  | L [ A "s"; A s ] -> ELitS (str_of s)
  | L [ A "s" ] -> ELitS []
  | A "t" -> EBoolLit true | A "f" -> EBoolLit false | A "n" -> ENilLit
  | L [ A "v"; A k ] -> EVar (z k)
  | L [ A "bin"; A o; a; b ] -> EBin (binop_of o, expr_of a, expr_of b)
  | L [ A "neg"; a ] -> ENeg (expr_of a)
  | L [ A "not"; a ] -> ENot (expr_of a)
  | L [ A "isnil"; a ] -> EIsNil (false, expr_of a)
  | L [ A "notnil"; a ] -> EIsNil (true, expr_of a)
  | L [ A "and"; a; b ] -> EAnd (expr_of a, expr_of b)
  | L [ A "or"; a; b ] -> EOr (expr_of a, expr_of b)
  | L [ A "nilco"; a; b ] -> ENilCo (expr_of a, expr_of b)
  | _ -> failwith "expr"

let rec stmt_of (x : sx) : stmt =
  match x with
  | A "skip" -> SSkip
  | L (A "seq" :: ss) -> List.fold_right (fun s acc -> SSeq (stmt_of s, acc)) ss SSkip
  | L [ A "decl"; A v; t; e ] -> SDecl (z v, ty_of t, expr_of e)
  | L [ A "infer"; A v; e ] -> SInfer (z v, expr_of e)
  | L [ A "assign"; A v; e ] -> SAssign (z v, expr_of e)
  | L [ A "if"; c; a; b ] -> SIf (expr_of c, stmt_of a, stmt_of b)
  | L [ A "probe"; A k; e ] -> SProbe (z k, TNever, expr_of e)
  | L [ A "while"; c; b ] -> SWhile (expr_of c, stmt_of b)
  | L [ A "closure"; A f; b ] -> SClosure (z f, stmt_of b)
  | L [ A "call"; A f ] -> SCall (z f)
  | _ -> failwith "stmt"

let rec nat_of_int n = if n <= 0 then Datatypes.O else Datatypes.S (nat_of_int (n - 1))

let rec probe_types (s : stmt) (acc : string list) : string list =
  match s with
  | SSeq (a, b) -> probe_types b (probe_types a acc)
  | SIf (_, a, b) -> probe_types b (probe_types a acc)
  | SWhile (_, b) | SClosure (_, b) -> probe_types b acc
  | SProbe (k, t, _) -> ("(" ^ zs k ^ " " ^ show_ty t ^ ")") :: acc
  | _ -> acc

let fuel = nat_of_int 3000

let run (x : sx) : string =
  match x with
  | L [ A "sub"; a; b ] -> if subtype (ty_of a) (ty_of b) then "ok" else "reject"
  | L [ A "mem"; t; v ] -> if mem (ty_of t) (value_of v) then "in" else "out"
  | L [ A "prog"; s ] -> (
      let s = stmt_of s in
      match annot_s [] s with
      | None -> "rejected"
      | Some (_, s') -> (
          match check_s [] s' with
          | None -> "check-failed-after-annotation"
          | Some _ ->
              let types = String.concat " " (List.rev (probe_types s' [])) in
              let simple = if flow_simple s' then "simple" else "flow" in
              let status, lg =
                match exec fuel init_state s' with
                | Some ((_, _), lg) -> ("done", lg)
                | None -> ("stuck", [])
              in
              let entry ((k, t), v) =
                "(" ^ zs k ^ " " ^ show_ty t ^ " " ^ show_value v ^ " " ^ (if mem t v then "in" else "out") ^ ")"
              in
              "(ok " ^ simple ^ " (types " ^ types ^ ") (status " ^ status ^ ") (log "
              ^ String.concat " " (List.rev_map entry lg)
              ^ "))"))
  | _ -> failwith "request"

let () =
  Zio.iter_lines (fun line ->
      match Zio.split_tab line with
      | id :: input :: _ ->
          let out = try run (parse input) with Failure m -> "bad-input:" ^ m | Not_found -> "bad-input" in
          print_string (id ^ "\t" ^ out ^ "\n")
      | _ -> ())
