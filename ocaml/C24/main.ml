(* C24 model driver. stdin: "<id>\t<item;item;...>"; stdout: "<id>\t<result|result|...>".
   Items are the operations / queries of Model/C24_Seq.v (see harness/cmd/c24/main.go for the
   concrete syntax). With argument "spec" the spec layer is run instead of the impl layer. *)
open C24_Seq
open GoSem

let rec nat_of_int i = if i <= 0 then Datatypes.O else Datatypes.S (nat_of_int (i - 1))
let z = Zio.z_of_string
let reg s = nat_of_int (int_of_string s)
let vals s = if s = "-" || s = "" then [] else List.map z (String.split_on_char ',' s)
let opt s = if s = "_" then None else Some (z s)

let show_seq t d = (if t then "T" else "L") ^ "[" ^ String.concat "," (List.map Zio.string_of_z d) ^ "]"
let show_res = function
  | RUnit -> "ok"
  | RInt v -> "ok " ^ Zio.string_of_z v
  | RBool b -> "ok " ^ string_of_bool b
  | RSeq (t, d) -> "ok " ^ show_seq t d
let show = function
  | Ok r -> show_res r
  | Err c -> "err " ^ Zio.string_of_z c
  | Panic c -> "panic " ^ Zio.string_of_z c
  | Fatal c -> "fatal " ^ Zio.string_of_z c

let rng kind s e =
  let sx, ex = (match kind with
    | "cc" | "bc" | "ec" -> (false, false) | "oc" | "eo" -> (true, false)
    | "co" | "bo" -> (false, true) | "oo" -> (true, true) | _ -> failwith "range kind") in
  { r_start = opt s; r_sx = sx; r_end = opt e; r_ex = ex }

let () =
  let spec = Array.length Sys.argv > 1 && Sys.argv.(1) = "spec" in
  let stepf = if spec then spec_step else run_step in
  let queryf = if spec then spec_query else run_query in
  Zio.iter_lines (fun line ->
      match Zio.split_tab line with
      | id :: input :: _ ->
          let st = ref init_state in
          let out = ref [] in
          let op o = let s', r = stepf !st o in st := s'; show r in
          let q x = show (queryf !st x) in
          List.iter (fun it ->
              match Zio.split_sp it with
              | [] -> ()
              | f ->
                  let r = (match f with
                    | [ "new"; d; k; vs ] -> op (ONew (reg d, k = "T", vals vs))
                    | [ "copy"; d; a ] -> op (OCopy (reg d, reg a))
                    | [ "push"; r; v ] -> op (OPush (reg r, z v))
                    | [ "append"; r; vs ] -> op (OAppend (reg r, vals vs))
                    | [ "set"; r; a; v ] -> op (OSet (reg r, z a, z v))
                    | [ "pop"; r ] -> op (OPop (reg r))
                    | [ "remove"; r; v ] -> op (ORemove (reg r, z v))
                    | [ "removeat"; r; a ] -> op (ORemoveAt (reg r, z a))
                    | [ "grow"; r; a ] -> op (OGrow (reg r, z a))
                    | [ "clear"; r ] -> op (OClear (reg r))
                    | [ "appendat"; r; a; v ] -> op (OAppendAt (reg r, z a, z v))
                    | [ "mapadd"; r; k ] -> op (OMapAdd (reg r, z k))
                    | [ "concat"; d; a; b ] -> op (OConcat (reg d, reg a, reg b))
                    | [ "repeat"; d; a; n ] -> op (ORepeat (reg d, reg a, z n))
                    | [ "len"; r ] -> q (QLen (reg r))
                    | [ "get"; r; a ] -> q (QGet (reg r, z a))
                    | [ "slice"; r; k; s; e ] -> q (QSlice (reg r, rng k s e))
                    | [ "eq"; a; b ] -> q (QEq (reg a, reg b))
                    | [ "contains"; r; v ] -> q (QContains (reg r, z v))
                    | [ "iter"; r ] -> q (QIter (reg r))
                    | [ "dump" ] ->
                        String.concat "" (List.map (fun l -> show_seq l.tup l.data) !st)
                    | _ -> "bad-item") in
                  out := r :: !out)
            (String.split_on_char ';' input);
          print_string (id ^ "\t" ^ String.concat "|" (List.rev !out) ^ "\n")
      | _ -> ())
