(* C07 model driver. stdin: "<id>\t<input>" (grammar in harness/cmd/c07/main.go);
   stdout: "<id>\t<expected observable>" *)
open C07_Strict
open C07_Float
open C07_FloatPow
open GoSem

let z = Zio.z_of_string
let zs = Zio.string_of_z

let ty_of = function
  | "i8" -> (true, 8) | "i16" -> (true, 16) | "i32" -> (true, 32) | "i64" -> (true, 64)
  | "u8" -> (false, 8) | "u16" -> (false, 16) | "u32" -> (false, 32) | "u64" -> (false, 64)
  | "u" -> (false, 64)
  | s -> failwith ("type " ^ s)

let binop_of = function
  | "add" -> OAdd | "sub" -> OSub | "mul" -> OMul | "div" -> ODiv | "mod" -> OMod
  | "and" -> OAnd | "or" -> OOr | "xor" -> OXor | "andnot" -> OAndNot | "pow" -> OPow
  | s -> failwith ("binop " ^ s)

let unop_of = function
  | "neg" -> UNeg | "not" -> UNot | "inc" -> UInc | "dec" -> UDec | s -> failwith ("unop " ^ s)

let shop_of = function
  | "shl" -> Shl | "shr" -> Shr | "lshl" -> LShl | "lshr" -> LShr | s -> failwith ("shiftop " ^ s)

let kind_of = function
  | "smallint" -> KSmallInt | "bigint" -> KBigInt | "i64" -> KInt64 | "i32" -> KInt32
  | "i16" -> KInt16 | "i8" -> KInt8 | "u64" -> KUInt64 | "u32" -> KUInt32 | "u16" -> KUInt16
  | "u8" -> KUInt8 | "u" -> KUInt | "float" -> KOther
  | s -> failwith ("kind " ^ s)

let show = function
  | Ok v -> "ok " ^ zs v
  | Err c -> "err " ^ zs c
  | Panic c -> "panic " ^ zs c
  | Fatal c -> "fatal " ^ zs c

let fop_of = function
  | "add" -> FAdd | "sub" -> FSub | "mul" -> FMul | "div" -> FDiv | s -> failwith ("fop " ^ s)

let rel_of_s = function
  | "lt" -> RLt | "le" -> RLe | "gt" -> RGt | "ge" -> RGe | "eq" -> REq | s -> failwith ("rel " ^ s)

let show_cmp = function
  | None -> "un"
  | Some Datatypes.Lt -> "lt" | Some Datatypes.Eq -> "eq" | Some Datatypes.Gt -> "gt"

let b64 bits = if f64_nan_bits bits then "nan" else zs bits
let b32 bits = if f32_nan_bits bits then "nan" else zs bits

let rec eval (f : string list) : string =
  match f with
  | "fp" :: _ :: rest -> eval ("f" :: rest)
  | [ "fpi"; _; op; a; n ] -> eval [ "f"; "fl"; op; a; zs (f64_of_int_bits (z n)) ]
  | [ "bin"; _; ty; op; a; b ] ->
      let s, w = ty_of ty in
      let w = Zio.z_of_int w in
      let a = z a and b = z b in
      if not (fits s w a && fits s w b) then "bad-operand"
      else if op = "pow" && String.length (zs b) > 5 && (zs b).[0] <> '-' then "exponent-too-large"
      else show (bin_impl (binop_of op) s w a b)
  | [ "un"; _; ty; op; a ] ->
      let s, w = ty_of ty in
      let w = Zio.z_of_int w in
      let a = z a in
      if not (fits s w a) then "bad-operand" else show (Ok (un_impl (unop_of op) s w a))
  | [ "sh"; _; ty; op; a; k; r ] ->
      let s, w = ty_of ty in
      let w = Zio.z_of_int w in
      let a = z a and r = z r and k = kind_of k in
      if not (fits s w a && kind_fits k r) then "bad-operand" else show (shift_impl (shop_of op) s w a k r)
  | [ "same"; ty; op; a; r ] ->
      let s, w = ty_of ty in
      let w = Zio.z_of_int w in
      let a = z a and r = z r in
      if not (fits s w a && fits s w r) then "bad-operand"
      else show (if op = "shl" then same_left s w a r else same_right s w a r)
  | [ "f"; ty; op; a; b ] -> (
      let a = z a and b = z b in
      let is32 = ty = "f32" in
      match op with
      | "add" | "sub" | "mul" | "div" ->
          if is32 then b32 (f32_op_bits (fop_of op) a b) else b64 (f64_op_bits (fop_of op) a b)
      | "pow" -> (
          (* Some bits: an IEEE 754-2008 9.2.1 special case; "nonspecial": the value is a
             rounded real power, outside the model (compared with Go's math.Pow) *)
          match if is32 then f32_pow_special_bits a b else f64_pow_special_bits a b with
          | Some r -> if is32 then b32 r else b64 r
          | None -> "nonspecial")
      | "mod" -> if is32 then b32 (f32_mod_bits a b) else b64 (f64_mod_bits a b)
      | "cmp" -> show_cmp (if is32 then f32_cmp_bits a b else f64_cmp_bits a b)
      | _ ->
          let c = if is32 then f32_cmp_bits a b else f64_cmp_bits a b in
          if rel_of (rel_of_s op) c then "true" else "false")
  | [ "cv"; op; x ] -> (
      let x = z x in
      match op with
      | "i2fl" | "i642f64" | "big2fl" -> b64 (f64_of_int_bits x)
      | "i2f32" -> b32 (f32_of_int_bits x)
      | "fl2f32" -> b32 (f32_of_f64_bits x)
      | "f322f64" -> b64 (f64_of_f32_bits x)
      | "fl2int" -> ( match f64_trunc_bits x with Some v -> "ok " ^ zs v | None -> "non-finite")
      | s -> failwith ("conv " ^ s))
  | _ -> "bad-input"

let () =
  Zio.iter_lines (fun line ->
      match Zio.split_tab line with
      | id :: input :: _ ->
          let r = try eval (Zio.split_sp input) with Failure m -> "model-failure " ^ m in
          print_string (id ^ "\t" ^ r ^ "\n")
      | _ -> ())
