(* C08 model driver. stdin: "<id>\t<op> <kind_a> <a> <kind_b> <b>", kind = I (integer, decimal)
   | F (float, decimal bits of the IEEE-754 binary64 pattern). stdout: "<id>\t<result of every
   path>", all six paths (generic, by_name, fold, typed Int/Float, x_ints) must agree (proved); prints "I <z>" | "F <bits>" | "B true|false" |
   "err <c>" | "paths-disagree ...". Float arithmetic instantiates the model's Section
   variables with OCaml's native IEEE doubles. *)
open C06_Int
open C08_Paths
open GoSem

let f_of_bits z = Int64.float_of_bits (Int64.of_string ("0u" ^ Zio.string_of_z z))
let bits_of_f f = Zio.z_of_string (Printf.sprintf "%Lu" (Int64.bits_of_float f))
let farith o x y =
  let a = f_of_bits x and b = f_of_bits y in
  bits_of_f (match o with OpAdd -> a +. b | OpSub -> a -. b | OpMul -> a *. b | OpDiv -> a /. b | OpMod -> Float.rem a b)
let fpow x y = bits_of_f (Float.pow (f_of_bits x) (f_of_bits y))
let fcmp c x y =
  let a = f_of_bits x and b = f_of_bits y in
  match c with CGt -> a > b | CGe -> a >= b | CLt -> a < b | CLe -> a <= b | CEq -> a = b
let i2f z = bits_of_f (float_of_string (Zio.string_of_z z))

let op_of = function
  | "add" -> OArith OpAdd | "sub" -> OArith OpSub | "mul" -> OArith OpMul | "div" -> OArith OpDiv
  | "mod" -> OArith OpMod | "pow" -> OPow | "gt" -> OCmp CGt | "ge" -> OCmp CGe | "lt" -> OCmp CLt
  | "le" -> OCmp CLe | "eq" -> OCmp CEq | "shl" -> OShl | "shr" -> OShr | "and" -> OBit BAnd
  | "or" -> OBit BOr | "xor" -> OBit BXor | "andnot" -> OBit BAndNot
  | s -> failwith ("op " ^ s)

let fits z = Zio.string_of_z z |> fun s -> (try ignore (Int64.of_string s); true with _ -> false)
let mk k s = match k with
  | "I" -> let z = Zio.z_of_string s in if fits z then VSmall z else VBig z
  | "F" -> VFloat (Zio.z_of_string s)
  | _ -> failwith "kind"

let show = function
  | Ok (VSmall z) | Ok (VBig z) -> "I " ^ Zio.string_of_z z
  | Ok (VFloat b) -> "F " ^ Zio.string_of_z b
  | Ok (VBool b) -> "B " ^ (if b then "true" else "false")
  | Ok VUndefined -> "undefined" | Ok VOther -> "other"
  | Err c -> "err " ^ Zio.string_of_z c
  | Panic c -> "panic " ^ Zio.string_of_z c
  | Fatal c -> "fatal " ^ Zio.string_of_z c

let () =
  Zio.iter_lines (fun line ->
      match Zio.split_tab line with
      | id :: input :: _ -> (
          match Zio.split_sp input with
          | [ op; ka; a; kb; b ] ->
              let r =
                try
                  let o = op_of op and l = mk ka a and r = mk kb b in
                  let g = show (generic farith fpow fcmp i2f o l r) in
                  let others =
                    [ show (by_name farith fpow fcmp i2f o l r);
                      (match fold farith fpow fcmp i2f o l r with Some v -> show (Ok v) | None -> g);
                      (if ka = "I" then show (typed_int farith fpow fcmp i2f o l r)
                       else if has_float_opcode o then show (typed_float farith fpow fcmp i2f o l r) else g);
                      (* the statically bound Int overload / Go backend helper value.XInts *)
                      (if ka = "I" && kb = "I" then show (x_ints o l r) else g) ]
                  in
                  if List.for_all (fun x -> x = g) others then g else "paths-disagree " ^ String.concat "|" (g :: others)
                with Failure m -> "model-failure " ^ m
              in
              print_string (id ^ "\t" ^ r ^ "\n")
          | _ -> print_string (id ^ "\tbad-input\n"))
      | _ -> ())
