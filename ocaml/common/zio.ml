(* Conversions between decimal strings / OCaml ints and the extracted Coq numbers
   (BinNums.positive / coq_Z / coq_N). Uses only the constructors, so it does
   not depend on which arithmetic functions a given extraction happened to include. *)
open BinNums

(* decimal digit array (most significant first) divided by 2 in place; returns remainder *)
let div2 (d : int array) : int =
  let r = ref 0 in
  for i = 0 to Array.length d - 1 do
    let v = !r * 10 + d.(i) in
    d.(i) <- v / 2;
    r := v mod 2
  done;
  !r

let is_zero d = Array.for_all (fun x -> x = 0) d

(* bits, least significant first, of a non-negative decimal string *)
let bits_of_dec (s : string) : bool list =
  let d = Array.init (String.length s) (fun i -> Char.code s.[i] - 48) in
  let rec go acc = if is_zero d then List.rev acc else let r = div2 d in go ((r = 1) :: acc) in
  go []

let rec pos_of_bits (b : bool list) : positive =
  match b with
  | [] -> failwith "pos_of_bits: zero"
  | [ true ] -> Coq_xH
  | true :: r -> Coq_xI (pos_of_bits r)
  | false :: r -> Coq_xO (pos_of_bits r)

(* strip trailing false (most significant zeros) *)
let rec strip b = match List.rev b with false :: r -> strip (List.rev r) | _ -> b

let z_of_string (s : string) : coq_Z =
  let s = String.trim s in
  let neg = String.length s > 0 && s.[0] = '-' in
  let s = if neg || (String.length s > 0 && s.[0] = '+') then String.sub s 1 (String.length s - 1) else s in
  let s = String.concat "" (String.split_on_char '_' s) in
  if s = "" then failwith "z_of_string: empty";
  String.iter (fun c -> if c < '0' || c > '9' then failwith ("z_of_string: " ^ s)) s;
  let b = strip (bits_of_dec s) in
  if b = [] then Z0 else if neg then Zneg (pos_of_bits b) else Zpos (pos_of_bits b)

let n_of_string (s : string) : coq_N =
  match z_of_string s with Z0 -> N0 | Zpos p -> Npos p | Zneg _ -> failwith "n_of_string: negative"

let rec bits_of_pos (p : positive) : bool list =
  match p with Coq_xH -> [ true ] | Coq_xI r -> true :: bits_of_pos r | Coq_xO r -> false :: bits_of_pos r

(* decimal digits (least significant first) *)
let dec_of_bits (b : bool list) : string =
  let d = ref [| 0 |] in
  let dbl_add c =
    let a = !d in
    let carry = ref c in
    for i = 0 to Array.length a - 1 do
      let v = (a.(i) * 2) + !carry in
      a.(i) <- v mod 10;
      carry := v / 10
    done;
    if !carry > 0 then d := Array.append a [| !carry |]
  in
  List.iter (fun bit -> dbl_add (if bit then 1 else 0)) (List.rev b);
  let a = !d in
  let n = Array.length a in
  String.init n (fun i -> Char.chr (48 + a.(n - 1 - i)))

let string_of_pos p = dec_of_bits (bits_of_pos p)
let string_of_z (z : coq_Z) : string =
  match z with Z0 -> "0" | Zpos p -> string_of_pos p | Zneg p -> "-" ^ string_of_pos p
let string_of_n (n : coq_N) : string = match n with N0 -> "0" | Npos p -> string_of_pos p

let z_of_int (i : int) : coq_Z = z_of_string (string_of_int i)
let int_of_z (z : coq_Z) : int = int_of_string (string_of_z z)

(* nat helpers are NOT here (Datatypes.nat exists only when an extraction uses nat); copy into a driver when needed:
   let rec nat_of_int i = if i <= 0 then Datatypes.O else Datatypes.S (nat_of_int (i - 1))
   let rec int_of_nat n = match n with Datatypes.O -> 0 | Datatypes.S m -> 1 + int_of_nat m *)

let split_tab (s : string) : string list = String.split_on_char '\t' s
let split_sp (s : string) : string list = List.filter (fun x -> x <> "") (String.split_on_char ' ' s)

(* iterate over stdin lines *)
let iter_lines (f : string -> unit) : unit =
  try
    while true do
      f (input_line stdin)
    done
  with End_of_file -> ()
