(* C05 model driver. argv[1] = operator list written by the Go harness ("B i kind spaced lexeme" / "U i lexeme").
   stdin: "<id>\ttree <polish>"  -> "<id>\t<printed text>\x1f<polish of parse (tokens (print e))|ERR>"
          "<id>\ttoks <symbols>" -> "<id>\t<polish of parse symbols|ERR>" *)
open C05_Prec

let blex : (int, string) Hashtbl.t = Hashtbl.create 64
let ulex : (int, string) Hashtbl.t = Hashtbl.create 16

let load_ops path =
  let ic = open_in path in
  (try
     while true do
       let l = input_line ic in
       match String.split_on_char ' ' l with
       | "B" :: i :: _ :: _ :: lex :: _ -> Hashtbl.replace blex (int_of_string i) lex
       | "U" :: i :: lex :: _ -> Hashtbl.replace ulex (int_of_string i) lex
       | _ -> ()
     done
   with End_of_file -> ());
  close_in ic

let n_of_int i = Zio.n_of_string (string_of_int i)
let int_of_n n = int_of_string (Zio.string_of_n n)
let tbl = C05_PrecTables.tables

exception Bad

let rec read_polish (f : string list) : expr * string list =
  match f with
  | [] -> raise Bad
  | s :: rest -> (
      let n = try int_of_string (String.sub s 1 (String.length s - 1)) with _ -> raise Bad in
      match s.[0] with
      | 'x' -> (Atom (n_of_int n), rest)
      | 'U' ->
          let x, r = read_polish rest in
          (Un (n_of_int n, x), r)
      | 'B' ->
          let l, r1 = read_polish rest in
          let r, r2 = read_polish r1 in
          (Bin (n_of_int n, l, r), r2)
      | _ -> raise Bad)

let rec polish (e : expr) : string =
  match e with
  | Atom a -> "x" ^ Zio.string_of_n a
  | Un (u, x) -> "U" ^ Zio.string_of_n u ^ " " ^ polish x
  | Bin (o, l, r) -> "B" ^ Zio.string_of_n o ^ " " ^ polish l ^ " " ^ polish r

let render_tok = function
  | TA a -> "x" ^ Zio.string_of_n a
  | TU u -> (try Hashtbl.find ulex (int_of_n u) with Not_found -> "?u")
  | TB o -> (try Hashtbl.find blex (int_of_n o) with Not_found -> "?b")
  | TL -> "("
  | TR -> ")"

let render (ps : piece list) : string =
  String.concat "" (List.map (function PT t -> render_tok t | PSp -> " ") ps)

let show_parse = function Some e -> polish e | None -> "ERR"

let tok_of_sym s =
  match s.[0] with
  | '(' -> TL
  | ')' -> TR
  | 'x' -> TA (n_of_int (int_of_string (String.sub s 1 (String.length s - 1))))
  | 'U' -> TU (n_of_int (int_of_string (String.sub s 1 (String.length s - 1))))
  | 'B' -> TB (n_of_int (int_of_string (String.sub s 1 (String.length s - 1))))
  | _ -> raise Bad

let () =
  if Array.length Sys.argv > 1 then load_ops Sys.argv.(1);
  Zio.iter_lines (fun line ->
      match Zio.split_tab line with
      | id :: input :: _ -> (
          let out =
            try
              match Zio.split_sp input with
              | "tree" :: f ->
                  let e, rest = read_polish f in
                  if rest <> [] then raise Bad;
                  if not (wf tbl e) then "bad-input"
                  else
                    let ps = print tbl e in
                    render ps ^ "\x1f" ^ show_parse (parse tbl (tokens ps))
              | "toks" :: f -> show_parse (parse tbl (List.map tok_of_sym f))
              | _ -> "bad-input"
            with Bad | Failure _ | Invalid_argument _ -> "bad-input"
          in
          print_string (id ^ "\t" ^ out ^ "\n"))
      | _ -> ())
