(* C03 model driver (regex front end).
   stdin : "<id>\t f=<flags|-> src=<hex of UTF-8 pattern> ..."   (further fields ignored)
   stdout: "<id>\t diag | text=<hex of UTF-8> | out-of-fuel"   (diag = parser or transpiler diagnostics)
   = Model/C03_RegexFront.transpile_source: Coq lexer + parser + C21 transpiler. *)
open BinNums

let rec pos_of_int (i : int) : positive =
  if i = 1 then Coq_xH else if i land 1 = 1 then Coq_xI (pos_of_int (i lsr 1)) else Coq_xO (pos_of_int (i lsr 1))
let z_of_small (i : int) : coq_Z = if i = 0 then Z0 else if i > 0 then Zpos (pos_of_int i) else Zneg (pos_of_int (-i))
let rec int_of_pos (p : positive) : int =
  match p with Coq_xH -> 1 | Coq_xO q -> 2 * int_of_pos q | Coq_xI q -> (2 * int_of_pos q) + 1
let int_of_z (z : coq_Z) : int = match z with Z0 -> 0 | Zpos p -> int_of_pos p | Zneg p -> -int_of_pos p

let bytes_of_hex (h : string) : int list =
  Stdlib.List.init (String.length h / 2) (fun i -> int_of_string ("0x" ^ String.sub h (2 * i) 2))

(* Go's utf8.DecodeRune *)
let decode (b : int list) : int list =
  let a = Array.of_list b in
  let n = Array.length a in
  let out = ref [] in
  let i = ref 0 in
  let cont k lo hi = !i + k < n && a.(!i + k) >= lo && a.(!i + k) <= hi in
  while !i < n do
    let b0 = a.(!i) in
    let r, sz =
      if b0 < 0x80 then (b0, 1)
      else if b0 >= 0xC2 && b0 <= 0xDF && cont 1 0x80 0xBF then (((b0 land 0x1F) lsl 6) lor (a.(!i + 1) land 0x3F), 2)
      else if b0 >= 0xE0 && b0 <= 0xEF
              && cont 1 (if b0 = 0xE0 then 0xA0 else 0x80) (if b0 = 0xED then 0x9F else 0xBF)
              && cont 2 0x80 0xBF
      then (((b0 land 0x0F) lsl 12) lor ((a.(!i + 1) land 0x3F) lsl 6) lor (a.(!i + 2) land 0x3F), 3)
      else if b0 >= 0xF0 && b0 <= 0xF4
              && cont 1 (if b0 = 0xF0 then 0x90 else 0x80) (if b0 = 0xF4 then 0x8F else 0xBF)
              && cont 2 0x80 0xBF && cont 3 0x80 0xBF
      then
        ( ((b0 land 0x07) lsl 18) lor ((a.(!i + 1) land 0x3F) lsl 12) lor ((a.(!i + 2) land 0x3F) lsl 6)
          lor (a.(!i + 3) land 0x3F), 4 )
      else (0xFFFD, 1)
    in
    out := r :: !out;
    i := !i + sz
  done;
  Stdlib.List.rev !out

let encode (cps : int list) : string =
  let b = Buffer.create 16 in
  Stdlib.List.iter
    (fun c ->
      let c = if c < 0 || c > 0x10FFFF || (c >= 0xD800 && c <= 0xDFFF) then 0xFFFD else c in
      if c < 0x80 then Buffer.add_char b (Char.chr c)
      else if c < 0x800 then (
        Buffer.add_char b (Char.chr (0xC0 lor (c lsr 6)));
        Buffer.add_char b (Char.chr (0x80 lor (c land 0x3F))))
      else if c < 0x10000 then (
        Buffer.add_char b (Char.chr (0xE0 lor (c lsr 12)));
        Buffer.add_char b (Char.chr (0x80 lor ((c lsr 6) land 0x3F)));
        Buffer.add_char b (Char.chr (0x80 lor (c land 0x3F))))
      else (
        Buffer.add_char b (Char.chr (0xF0 lor (c lsr 18)));
        Buffer.add_char b (Char.chr (0x80 lor ((c lsr 12) land 0x3F)));
        Buffer.add_char b (Char.chr (0x80 lor ((c lsr 6) land 0x3F)));
        Buffer.add_char b (Char.chr (0x80 lor (c land 0x3F)))))
    cps;
  Buffer.contents b

let hex_of_string (s : string) : string =
  String.concat "" (Stdlib.List.init (String.length s) (fun i -> Printf.sprintf "%02x" (Char.code s.[i])))

let field (line : string) (k : string) : string =
  let parts = String.split_on_char ' ' line in
  let pre = k ^ "=" in
  let n = String.length pre in
  match Stdlib.List.find_opt (fun p -> String.length p >= n && String.sub p 0 n = pre) parts with
  | Some p -> String.sub p n (String.length p - n)
  | None -> ""

let flags_of (s : string) : C21_RegexSyntax.flags =
  let h c = String.contains s c in
  { C21_RegexSyntax.fi = h 'i'; fm = h 'm'; fs = h 's'; fU = h 'U'; fx = h 'x'; fa = h 'a' }

let run (input : string) : string =
  let f = flags_of (field input "f") in
  let src = decode (bytes_of_hex (field input "src")) in
  match C03_RegexFront.transpile_source f (Stdlib.List.map z_of_small src) with
  | None -> "out-of-fuel"
  | Some None -> "diag"
  | Some (Some t) -> "text=" ^ hex_of_string (encode (Stdlib.List.map int_of_z t))

let () =
  Zio.iter_lines (fun line ->
      match Zio.split_tab line with
      | id :: input :: _ -> (
          try Printf.printf "%s\t%s\n" id (run input) with e -> Printf.printf "%s\tdriver-error %s\n" id (Printexc.to_string e))
      | _ -> ())
