(* C01 model driver. stdin: "<id>\t<sexp>" ; stdout: "<id>\t<result>"
   program  (prog FUEL m...)            -> "wt=0|1 guard=0|1 res=ok|crash|fuel out=v,v,..."
     m     (meth (T...) ((T val)...) (stmt...) stmt expr T)   params, locals, closures, body, ret, return type
     T     bit mask: 1 Int, 2 true, 4 false, 8 nil, 16 String
     val   (i N) | t | f | n | (s N)
     expr  val | (v X) | (OP a b) with OP one of + - * < =
     cond  (cv X) | (not c) | (clt a b) | (ceq a b)
     stmt  skip | (asg X e) | (seq s s) | (if c s s) | (while c s) | (print e) | (cc K) | (call X F e...)
   proto    (proto FUEL (obj...) (op...)) -> "wt=0|1 res=ok|crash|fuel|block acc=N out=<events of op 1>|<events of op 2>|..."
     obj   (gen NP (init-expr...) BODY FINAL (ARG...)) | (list k...) | (from LO) | (chan CAP) | (prom r V) | (prom e T) | (once)
           generator bodies in the syntax of ocaml/C15: expr (c N) (v X) (+ a b) (- a b) ( * a b) (h K a b);
           cond (lt a b) (le a b) (eq a b) (not c) (and c d) (or c d);
           stmt skip (set X e) (bump X e) (seq s...) (if c s s) (while c s) (yield e) (ret e) (throw T);
           local NP+i is initialised by init-expr i before BODY
     op    (next I) (reset I) (forin I [LIM]) (push I V) (pop I) (close I) (len I) (await I) (call I D)
     events: V<k> value, S stop, E<t> error tag, C closed error, K ok; comma separated within one operation
   mutex    (mutex FX op...)  ops: l u rl ru -> "ok,err,...[,fatal|,block]" one entry per executed operation  (FX = 0 as found, 1 fixed) *)
open C01_Core

type sx = A of string | L of sx list

let parse (s : string) : sx =
  let n = String.length s in
  let pos = ref 0 in
  let rec skip () = if !pos < n && (s.[!pos] = ' ') then (incr pos; skip ()) in
  let rec item () =
    skip ();
    if !pos >= n then failwith "sexp: eof";
    if s.[!pos] = '(' then begin
      incr pos;
      let acc = ref [] in
      let rec loop () =
        skip ();
        if !pos >= n then failwith "sexp: unclosed";
        if s.[!pos] = ')' then incr pos else (acc := item () :: !acc; loop ())
      in
      loop ();
      L (List.rev !acc)
    end else begin
      let st = !pos in
      while !pos < n && s.[!pos] <> ' ' && s.[!pos] <> '(' && s.[!pos] <> ')' do incr pos done;
      A (String.sub s st (!pos - st))
    end
  in
  item ()

let z = Zio.z_of_string
let zs = Zio.string_of_z
let rec nat_of_int n = if n <= 0 then Datatypes.O else Datatypes.S (nat_of_int (n - 1))
let nat s = nat_of_int (int_of_string s)

let ty_of = function
  | A k ->
      let m = int_of_string k in
      let b i = m land i <> 0 in
      mk_ty (b 1) (b 2) (b 4) (b 8) (b 16)
  | _ -> failwith "ty"

let val_of = function
  | L [ A "i"; A k ] -> VInt (z k)
  | L [ A "s"; A k ] -> VStr (z k)
  | A "t" -> VTrue
  | A "f" -> VFalse
  | A "n" -> VNil
  | _ -> failwith "val"

let rec expr_of (x : sx) : expr =
  match x with
  | L [ A "i"; A k ] -> EInt (z k)
  | L [ A "s"; A k ] -> EStr (z k)
  | A "t" -> ETrue
  | A "f" -> EFalse
  | A "n" -> ENil
  | L [ A "v"; A k ] -> EVar (nat k)
  | L [ A "+"; a; b ] -> EAdd (expr_of a, expr_of b)
  | L [ A "-"; a; b ] -> ESub (expr_of a, expr_of b)
  | L [ A "*"; a; b ] -> EMul (expr_of a, expr_of b)
  | L [ A "<"; a; b ] -> ELt (expr_of a, expr_of b)
  | L [ A "="; a; b ] -> EEq (expr_of a, expr_of b)
  | _ -> failwith "expr"

let rec cond_of = function
  | L [ A "cv"; A k ] -> CVar (nat k)
  | L [ A "not"; c ] -> CNot (cond_of c)
  | L [ A "clt"; a; b ] -> CLt (expr_of a, expr_of b)
  | L [ A "ceq"; a; b ] -> CEq (expr_of a, expr_of b)
  | _ -> failwith "cond"

let rec stmt_of = function
  | A "skip" -> SSkip
  | L [ A "asg"; A x; e ] -> SAssign (nat x, expr_of e)
  | L [ A "seq"; a; b ] -> SSeq (stmt_of a, stmt_of b)
  | L [ A "if"; c; a; b ] -> SIf (cond_of c, stmt_of a, stmt_of b)
  | L [ A "while"; c; a ] -> SWhile (cond_of c, stmt_of a)
  | L [ A "print"; e ] -> SPrint (expr_of e)
  | L [ A "cc"; A k ] -> SCallClo (nat k)
  | L (A "call" :: A x :: A f :: args) -> SCall (nat x, nat f, List.map expr_of args)
  | _ -> failwith "stmt"

let meth_of = function
  | L [ A "meth"; L ps; L ls; L cl; body; ret; rty ] ->
      { m_params = List.map ty_of ps;
        m_locals = List.map (function L [ t; v ] -> (ty_of t, val_of v) | _ -> failwith "local") ls;
        m_clos = List.map stmt_of cl;
        m_body = stmt_of body;
        m_ret = expr_of ret;
        m_rty = ty_of rty }
  | _ -> failwith "meth"

let show_val = function
  | VInt k -> zs k
  | VTrue -> "true"
  | VFalse -> "false"
  | VNil -> "nil"
  | VStr k -> "\"s" ^ zs k ^ "\""

let b01 b = if b then "1" else "0"

let mop_of = function
  | A "l" -> MLock | A "u" -> MUnlock | A "rl" -> MRLock | A "ru" -> MRUnlock | _ -> failwith "mop"


(* ---- protocol sequences (Model/C01_Proto.v over Model/C15_Gen.v) ---- *)
module G = C15_Gen
module P = C01_Proto

let rec gexpr = function
  | L [ A "c"; A k ] -> G.EConst (z k)
  | L [ A "v"; A k ] -> G.EVar (nat k)
  | L [ A "+"; a; b ] -> G.EAdd (gexpr a, gexpr b)
  | L [ A "-"; a; b ] -> G.ESub (gexpr a, gexpr b)
  | L [ A "*"; a; b ] -> G.EMul (gexpr a, gexpr b)
  | L [ A "h"; A k; a; b ] -> G.ECall (nat k, gexpr a, gexpr b)
  | _ -> failwith "gexpr"

let rec gcond = function
  | L [ A "lt"; a; b ] -> G.CLt (gexpr a, gexpr b)
  | L [ A "le"; a; b ] -> G.CLe (gexpr a, gexpr b)
  | L [ A "eq"; a; b ] -> G.CEq (gexpr a, gexpr b)
  | L [ A "not"; c ] -> G.CNot (gcond c)
  | L [ A "and"; c; d ] -> G.CAnd (gcond c, gcond d)
  | L [ A "or"; c; d ] -> G.COr (gcond c, gcond d)
  | _ -> failwith "gcond"

let rec gstmt = function
  | A "skip" -> G.SSkip
  | L [ A "set"; A x; e ] -> G.SAssign (nat x, gexpr e)
  | L [ A "bump"; A x; e ] -> G.SBump (nat x, gexpr e)
  | L (A "seq" :: ss) -> (
      match ss with
      | [] -> G.SSkip
      | [ s ] -> gstmt s
      | s :: r -> G.SSeq (gstmt s, gstmt (L (A "seq" :: r))))
  | L [ A "if"; c; a; b ] -> G.SIf (gcond c, gstmt a, gstmt b)
  | L [ A "while"; c; b ] -> G.SWhile (gcond c, gstmt b)
  | L [ A "yield"; e ] -> G.SYield (gexpr e)
  | L [ A "ret"; e ] -> G.SReturn (gexpr e)
  | L [ A "throw"; A t ] -> G.SThrow (z t)
  | _ -> failwith "gstmt"

let atom = function A k -> k | _ -> failwith "atom"

let obj_of = function
  | L [ A "gen"; A np; L inits; body; final; L args ] ->
      let np = int_of_string np in
      let pre = List.mapi (fun i e -> G.SAssign (nat_of_int (np + i), gexpr e)) inits in
      let b = List.fold_right (fun s acc -> G.SSeq (s, acc)) pre (gstmt body) in
      let f = { G.nlocals = nat_of_int (List.length inits); G.body = b; G.final = gexpr final } in
      let a = List.map (fun x -> z (atom x)) args in
      P.OGen (f, a, G.gen_init f a)
  | L (A "list" :: ks) -> P.OIter (List.map (fun x -> z (atom x)) ks, Datatypes.O)
  | L [ A "from"; A lo ] -> P.OFrom (z lo, Datatypes.O)
  | L [ A "chan"; A cap ] -> P.OChan (nat cap, [], false)
  | L [ A "prom"; A "r"; A v ] -> P.OProm (G.Resolved (z v))
  | L [ A "prom"; A "e"; A t ] -> P.OProm (G.Rejected (z t))
  | L [ A "once" ] -> P.OOnce (false, z "0")
  | _ -> failwith "obj"

let pop_of = function
  | L [ A "next"; A i ] -> P.PNext (nat i)
  | L [ A "reset"; A i ] -> P.PReset (nat i)
  | L [ A "forin"; A i ] -> P.PForIn (nat i, None)
  | L [ A "forin"; A i; A lim ] -> P.PForIn (nat i, Some (nat lim))
  | L [ A "push"; A i; A v ] -> P.PPush (nat i, z v)
  | L [ A "pop"; A i ] -> P.PPop (nat i)
  | L [ A "close"; A i ] -> P.PClose (nat i)
  | L [ A "len"; A i ] -> P.PLen (nat i)
  | L [ A "await"; A i ] -> P.PAwait (nat i)
  | L [ A "call"; A i; A d ] -> P.PCall (nat i, z d)
  | _ -> failwith "op"

let show_pev = function
  | P.EVal v -> "V" ^ zs v
  | P.EStop -> "S"
  | P.EErr t -> "E" ^ zs t
  | P.EClosed -> "C"
  | P.EOk -> "K"

let run_proto fuel objs ops =
  let h = List.map obj_of objs in
  let os = List.map pop_of ops in
  let w = P.wt_ops (List.map P.kind_of h) os in
  let res, acc, out =
    match P.run_ops (nat fuel) h os (z "0") [] with
    | P.POk (_, acc, out) ->
        ("ok", zs acc, String.concat "|" (List.rev_map (fun evs -> String.concat "," (List.map show_pev evs)) out))
    | P.PCrash -> ("crash", "0", "")
    | P.PFuel -> ("fuel", "0", "")
    | P.PBlock -> ("block", "0", "")
  in
  "wt=" ^ b01 w ^ " res=" ^ res ^ " acc=" ^ acc ^ " out=" ^ out

let run_sx (x : sx) : string =
  match x with
  | L (A "prog" :: A fuel :: ms) ->
      let p = List.map meth_of ms in
      let w = wt p in
      let g = no_narrowed_local_assigned_in_closure_or_loop p in
      let r = run (nat fuel) p in
      let res, out =
        match r with
        | ROk (_, out) -> ("ok", String.concat "," (List.rev_map show_val out))
        | RCrash -> ("crash", "")
        | RFuel -> ("fuel", "")
      in
      "wt=" ^ b01 w ^ " guard=" ^ b01 g ^ " res=" ^ res ^ " out=" ^ out
  | L [ A "proto"; A fuel; L objs; L ops ] -> run_proto fuel objs ops
  | L (A "mutex" :: A fx :: ops) ->
      (* per-operation outcome: ok / err (UnlockedError) ; the history stops at fatal / block *)
      let rec go e ops acc =
        match ops with
        | [] -> List.rev acc
        | o :: r -> (
            match elk_step (fx = "1") e o with
            | SOk e' -> go e' r ("ok" :: acc)
            | SErr e' -> go e' r ("err" :: acc)
            | SFatal -> List.rev ("fatal" :: acc)
            | SBlock -> List.rev ("block" :: acc))
      in
      String.concat "," (go e_new (List.map mop_of ops) [])
  | _ -> failwith "input"

let () =
  Zio.iter_lines (fun line ->
      match Zio.split_tab line with
      | id :: input :: _ ->
          let out = try run_sx (parse input) with Failure m -> "bad-input:" ^ m | Not_found -> "bad-input" in
          print_string (id ^ "\t" ^ out ^ "\n")
      | _ -> ())
