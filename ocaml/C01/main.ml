(* C01 model driver. stdin: "<id>\t<sexp>" ; stdout: "<id>\t<result>"
   program  (prog FUEL m...)            -> "wt=0|1 guard=0|1 res=ok|crash|fuel out=v,v,..."
     m     (meth (T...) ((T val)...) (stmt...) stmt expr T)   params, locals, closures, body, ret, return type
     T     bit mask: 1 Int, 2 true, 4 false, 8 nil, 16 String
     val   (i N) | t | f | n | (s N)
     expr  val | (v X) | (OP a b) with OP one of + - * < =
     cond  (cv X) | (not c) | (clt a b) | (ceq a b)
     stmt  skip | (asg X e) | (seq s s) | (if c s s) | (while c s) | (print e) | (cc K) | (call X F e...)
   mutex    (mutex FX op...)  ops: l u rl ru -> "ok,err,...[,fatal|,block]" one entry per executed operation  (FX = 0 as found, 1 fixed) *)
open C01_Core

type sx = A of string | L of sx list

let parse (s : string) : sx =
  let n = String.length s in
  let pos = ref 0 in
  let rec skip () = if !pos < n && (s.[!pos] = ' ') then (incr pos; skip ()) in
  let rec item () =
    skip ();
    if !pos >= n then failwith "sexp: eof";
    if s.[!pos] = '(' then begin
      incr pos;
      let acc = ref [] in
      let rec loop () =
        skip ();
        if !pos >= n then failwith "sexp: unclosed";
        if s.[!pos] = ')' then incr pos else (acc := item () :: !acc; loop ())
      in
      loop ();
      L (List.rev !acc)
    end else begin
      let st = !pos in
      while !pos < n && s.[!pos] <> ' ' && s.[!pos] <> '(' && s.[!pos] <> ')' do incr pos done;
      A (String.sub s st (!pos - st))
    end
  in
  item ()

let z = Zio.z_of_string
let zs = Zio.string_of_z
let rec nat_of_int n = if n <= 0 then Datatypes.O else Datatypes.S (nat_of_int (n - 1))
let nat s = nat_of_int (int_of_string s)

let ty_of = function
  | A k ->
      let m = int_of_string k in
      let b i = m land i <> 0 in
      mk_ty (b 1) (b 2) (b 4) (b 8) (b 16)
  | _ -> failwith "ty"

let val_of = function
  | L [ A "i"; A k ] -> VInt (z k)
  | L [ A "s"; A k ] -> VStr (z k)
  | A "t" -> VTrue
  | A "f" -> VFalse
  | A "n" -> VNil
  | _ -> failwith "val"

let rec expr_of (x : sx) : expr =
  match x with
  | L [ A "i"; A k ] -> EInt (z k)
  | L [ A "s"; A k ] -> EStr (z k)
  | A "t" -> ETrue
  | A "f" -> EFalse
  | A "n" -> ENil
  | L [ A "v"; A k ] -> EVar (nat k)
  | L [ A "+"; a; b ] -> EAdd (expr_of a, expr_of b)
  | L [ A "-"; a; b ] -> ESub (expr_of a, expr_of b)
  | L [ A "*"; a; b ] -> EMul (expr_of a, expr_of b)
  | L [ A "<"; a; b ] -> ELt (expr_of a, expr_of b)
  | L [ A "="; a; b ] -> EEq (expr_of a, expr_of b)
  | _ -> failwith "expr"

let rec cond_of = function
  | L [ A "cv"; A k ] -> CVar (nat k)
  | L [ A "not"; c ] -> CNot (cond_of c)
  | L [ A "clt"; a; b ] -> CLt (expr_of a, expr_of b)
  | L [ A "ceq"; a; b ] -> CEq (expr_of a, expr_of b)
  | _ -> failwith "cond"

let rec stmt_of = function
  | A "skip" -> SSkip
  | L [ A "asg"; A x; e ] -> SAssign (nat x, expr_of e)
  | L [ A "seq"; a; b ] -> SSeq (stmt_of a, stmt_of b)
  | L [ A "if"; c; a; b ] -> SIf (cond_of c, stmt_of a, stmt_of b)
  | L [ A "while"; c; a ] -> SWhile (cond_of c, stmt_of a)
  | L [ A "print"; e ] -> SPrint (expr_of e)
  | L [ A "cc"; A k ] -> SCallClo (nat k)
  | L (A "call" :: A x :: A f :: args) -> SCall (nat x, nat f, List.map expr_of args)
  | _ -> failwith "stmt"

let meth_of = function
  | L [ A "meth"; L ps; L ls; L cl; body; ret; rty ] ->
      { m_params = List.map ty_of ps;
        m_locals = List.map (function L [ t; v ] -> (ty_of t, val_of v) | _ -> failwith "local") ls;
        m_clos = List.map stmt_of cl;
        m_body = stmt_of body;
        m_ret = expr_of ret;
        m_rty = ty_of rty }
  | _ -> failwith "meth"

let show_val = function
  | VInt k -> zs k
  | VTrue -> "true"
  | VFalse -> "false"
  | VNil -> "nil"
  | VStr k -> "\"s" ^ zs k ^ "\""

let b01 b = if b then "1" else "0"

let mop_of = function
  | A "l" -> MLock | A "u" -> MUnlock | A "rl" -> MRLock | A "ru" -> MRUnlock | _ -> failwith "mop"

let run_sx (x : sx) : string =
  match x with
  | L (A "prog" :: A fuel :: ms) ->
      let p = List.map meth_of ms in
      let w = wt p in
      let g = no_narrowed_local_assigned_in_closure_or_loop p in
      let r = run (nat fuel) p in
      let res, out =
        match r with
        | ROk (_, out) -> ("ok", String.concat "," (List.rev_map show_val out))
        | RCrash -> ("crash", "")
        | RFuel -> ("fuel", "")
      in
      "wt=" ^ b01 w ^ " guard=" ^ b01 g ^ " res=" ^ res ^ " out=" ^ out
  | L (A "mutex" :: A fx :: ops) ->
      (* per-operation outcome: ok / err (UnlockedError) ; the history stops at fatal / block *)
      let rec go e ops acc =
        match ops with
        | [] -> List.rev acc
        | o :: r -> (
            match elk_step (fx = "1") e o with
            | SOk e' -> go e' r ("ok" :: acc)
            | SErr e' -> go e' r ("err" :: acc)
            | SFatal -> List.rev ("fatal" :: acc)
            | SBlock -> List.rev ("block" :: acc))
      in
      String.concat "," (go e_new (List.map mop_of ops) [])
  | _ -> failwith "input"

let () =
  Zio.iter_lines (fun line ->
      match Zio.split_tab line with
      | id :: input :: _ ->
          let out = try run_sx (parse input) with Failure m -> "bad-input:" ^ m | Not_found -> "bad-input" in
          print_string (id ^ "\t" ^ out ^ "\n")
      | _ -> ())
