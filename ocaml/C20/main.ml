(* C20 model driver.
   stdin : "<id>\t s=<hex> t=<hex> u=<hex> ic= ib= ig= w= c= k= iu= | seg=<hex,..> up=<r:m,..> lo=<r:m,..>"
   stdout: "<id>\t len=..;blen=..;..."   (same fields, same order as harness/cmd/c20/main.go)
   The part after '|' instantiates the section oracles of Model/C20_String.v:
     gseg s     := the segmentation printed by the harness (uniseg)
     to_upper r := table lookup (unicode.ToUpper of the runes of s), identity elsewhere. *)
open BinNums
open GoSem
open C20_String

(* small ints <-> coq_Z, by bits (no decimal round trip) *)
let rec pos_of_int (i : int) : positive =
  if i = 1 then Coq_xH else if i land 1 = 1 then Coq_xI (pos_of_int (i lsr 1)) else Coq_xO (pos_of_int (i lsr 1))

let z_of_small (i : int) : coq_Z = if i = 0 then Z0 else if i > 0 then Zpos (pos_of_int i) else Zneg (pos_of_int (-i))

let rec int_of_pos (p : positive) : int =
  match p with Coq_xH -> 1 | Coq_xO q -> 2 * int_of_pos q | Coq_xI q -> (2 * int_of_pos q) + 1

let int_of_z (z : coq_Z) : int = match z with Z0 -> 0 | Zpos p -> int_of_pos p | Zneg p -> -int_of_pos p

let bytes_of_hex (h : string) : coq_Z list =
  let n = String.length h / 2 in
  Stdlib.List.init n (fun i -> z_of_small (int_of_string ("0x" ^ String.sub h (2 * i) 2)))

let hex_of_bytes (l : coq_Z list) : string =
  String.concat "" (Stdlib.List.map (fun z -> Printf.sprintf "%02x" (int_of_z z)) l)

let dec_list (l : coq_Z list) : string = String.concat "," (Stdlib.List.map (fun z -> string_of_int (int_of_z z)) l)

let split_nonempty c s = Stdlib.List.filter (fun x -> x <> "") (String.split_on_char c s)

let field (kvs : (string * string) list) (k : string) : string = try Stdlib.List.assoc k kvs with Not_found -> ""

let parse_kvs (s : string) : (string * string) list =
  Stdlib.List.filter_map
    (fun f ->
      match String.index_opt f '=' with
      | Some i -> Some (String.sub f 0 i, String.sub f (i + 1) (String.length f - i - 1))
      | None -> None)
    (split_nonempty ' ' s)

let parse_table (s : string) : (int * int) list =
  Stdlib.List.map
    (fun e ->
      match String.split_on_char ':' e with
      | [ a; b ] -> (int_of_string a, int_of_string b)
      | _ -> failwith ("table " ^ e))
    (split_nonempty ',' s)

let lookup (tbl : (int * int) list) (r : coq_Z) : coq_Z =
  match Stdlib.List.assoc_opt (int_of_z r) tbl with Some m -> z_of_small m | None -> r

let show_err c = match int_of_z c with 3 -> "err:index" | 4 -> "err:range" | n -> "err:" ^ string_of_int n

let show_outcome (f : 'a -> string) (o : 'a outcome) : string =
  match o with
  | Ok a -> "ok:" ^ f a
  | Err c -> show_err c
  | Panic c -> (
      match int_of_z c with
      | 120 -> "panic strings: Repeat output length overflow"
      | n -> "panic " ^ string_of_int n)
  | Fatal c -> "fatal " ^ string_of_int (int_of_z c)

let show_opt f = function Some l -> f l | None -> "out-of-fuel"
let b01 b = if b then "1" else "0"
let cmp_all x y = Printf.sprintf "%d:%s%s%s%s" (int_of_z (cmp x y)) (b01 (lt x y)) (b01 (le x y)) (b01 (gt x y)) (b01 (ge x y))

let run (input : string) : string =
  let base, orc =
    match String.index_opt input '|' with
    | Some i -> (String.sub input 0 i, String.sub input (i + 1) (String.length input - i - 1))
    | None -> (input, "")
  in
  let kv = parse_kvs base and okv = parse_kvs orc in
  let hexf k = bytes_of_hex (field kv k) in
  let zf k = Zio.z_of_string (field kv k) in
  let s = hexf "s" and t = hexf "t" and u = hexf "u" in
  let seg = Stdlib.List.map bytes_of_hex (split_nonempty ',' (field okv "seg")) in
  let gseg (_ : coq_Z list) = seg in
  let up = lookup (parse_table (field okv "up")) and lo = lookup (parse_table (field okv "lo")) in
  let c = zf "c" and w = zf "w" in
  let iu = if field kv "iu" = "" then Z0 else zf "iu" in
  let seg_hex l = String.concat "," (Stdlib.List.map hex_of_bytes l) in
  let chr = Utf8.encode_rune c in
  String.concat ";"
    [
      "len=" ^ string_of_int (int_of_z (char_count s));
      "blen=" ^ string_of_int (int_of_z (byte_count s));
      "glen=" ^ string_of_int (int_of_z (grapheme_count gseg s));
      "citer=" ^ show_opt dec_list (char_iter_all s);
      "cseq=" ^ dec_list (chars s);
      "biter=" ^ show_opt dec_list (byte_iter_all s);
      "giter=" ^ show_opt seg_hex (grapheme_iter_all gseg s);
      "cat=" ^ show_outcome (fun z -> string_of_int (int_of_z z)) (char_at s (zf "ic"));
      "bat=" ^ show_outcome (fun z -> string_of_int (int_of_z z)) (byte_at s (zf "ib"));
      "gat=" ^ show_outcome hex_of_bytes (grapheme_at gseg s (zf "ig"));
      "catu=" ^ show_outcome (fun z -> string_of_int (int_of_z z)) (char_at s iu);
      "batu=" ^ show_outcome (fun z -> string_of_int (int_of_z z)) (byte_at s iu);
      "gatu=" ^ show_outcome hex_of_bytes (grapheme_at gseg s iu);
      "rjust=" ^ hex_of_bytes (rjust s w c);
      "ljust=" ^ hex_of_bytes (ljust s w c);
      "cc=ok:" ^ hex_of_bytes (concat_string s t);
      "ccc=ok:" ^ hex_of_bytes (concat_char s c);
      "rep=" ^ show_outcome hex_of_bytes (repeat s (zf "k"));
      "rm=ok:" ^ hex_of_bytes (remove_suffix s t);
      "rmc=ok:" ^ hex_of_bytes (remove_suffix_char s c);
      "cmp=" ^ cmp_all s t;
      "cmpr=" ^ cmp_all t s;
      "cmptu=" ^ cmp_all t u;
      "cmpsu=" ^ cmp_all s u;
      "cmpc=" ^ cmp_all s chr;
      "up=" ^ hex_of_bytes (uppercase up s);
      "low=" ^ hex_of_bytes (lowercase lo s);
    ]

(* ---- iterator protocol stream: "iter s=<hex> h=<ops> | steps=<restlen:state:clusterlen:newstate,..>"
   gstep (the model's oracle for uniseg.FirstGraphemeClusterInString) := the table of steps the
   harness recorded on the fresh run from (s, -1); anything else (never asked by the model on a
   table that is a complete fresh run) takes the whole rest as one cluster. *)
open C20_Iter

let rec nat_of_int i = if i <= 0 then Datatypes.O else Datatypes.S (nat_of_int (i - 1))

let rec take_l n l = if n <= 0 then [] else match l with [] -> [] | x :: t -> x :: take_l (n - 1) t
let rec drop_l n l = if n <= 0 then l else match l with [] -> [] | _ :: t -> drop_l (n - 1) t

let parse_steps (s : string) : ((int * int) * (int * int)) list =
  Stdlib.List.map
    (fun e ->
      match String.split_on_char ':' e with
      | [ a; b; c; d ] -> ((int_of_string a, int_of_string b), (int_of_string c, int_of_string d))
      | _ -> failwith ("step " ^ e))
    (split_nonempty ',' s)

let parse_op (o : string) : ikind pop =
  match o with
  | "c" -> PNew KChar
  | "b" -> PNew KByte
  | "g" -> PNew KGr
  | _ -> (
      let i = nat_of_int (int_of_string (String.sub o 1 (String.length o - 1))) in
      match o.[0] with
      | 'n' -> PNext i
      | 'r' -> PReset i
      | 'y' -> PCopy i
      | 'd' -> PDrain i
      | _ -> failwith ("op " ^ o))

let show_elem = function
  | EChar c -> string_of_int (int_of_z c)
  | EByte b -> string_of_int (int_of_z b)
  | EStr g -> hex_of_bytes g

let show_pout = function QElem a -> show_elem a | QStop -> "stop" | QUnit -> "-" | QBad -> "bad"

let run_iter (input : string) : string =
  let base, orc =
    match String.index_opt input '|' with
    | Some i -> (String.sub input 0 i, String.sub input (i + 1) (String.length input - i - 1))
    | None -> (input, "")
  in
  let kv = parse_kvs base and okv = parse_kvs orc in
  let s = bytes_of_hex (field kv "s") in
  let h = Stdlib.List.map parse_op (split_nonempty ',' (field kv "h")) in
  let tbl = parse_steps (field okv "steps") in
  let gstep (rest : coq_Z list) (q : coq_Z) =
    match Stdlib.List.assoc_opt (Stdlib.List.length rest, int_of_z q) tbl with
    | Some (cl, nq) -> ((take_l cl rest, drop_l cl rest), z_of_small nq)
    | None -> ((rest, []), q)
  in
  let outs = iter_run gstep s h in
  let gseg = gseg_of gstep in
  let ats n f = String.concat "," (Stdlib.List.init n (fun i -> f (z_of_small i))) in
  let strip o = if String.length o > 3 && String.sub o 0 3 = "ok:" then String.sub o 3 (String.length o - 3) else o in
  let nc = int_of_z (char_count s) and nb = int_of_z (byte_count s) and ng = int_of_z (grapheme_count gseg s) in
  String.concat "|"
    [
      "out=" ^ String.concat ";" (Stdlib.List.map (fun l -> String.concat "," (Stdlib.List.map show_pout l)) outs);
      "len=" ^ string_of_int nc;
      "blen=" ^ string_of_int nb;
      "glen=" ^ string_of_int ng;
      "cats=" ^ ats nc (fun i -> strip (show_outcome (fun z -> string_of_int (int_of_z z)) (char_at s i)));
      "bats=" ^ ats nb (fun i -> strip (show_outcome (fun z -> string_of_int (int_of_z z)) (byte_at s i)));
      "gats=" ^ ats ng (fun i -> strip (show_outcome hex_of_bytes (grapheme_at gseg s i)));
    ]

let is_iter (input : string) = String.length input >= 5 && String.sub input 0 5 = "iter "

let () =
  Zio.iter_lines (fun line ->
      match Zio.split_tab line with
      | id :: input :: _ -> (
          try print_string (id ^ "\t" ^ (if is_iter input then run_iter input else run input) ^ "\n")
          with e -> print_string (id ^ "\tdriver-error " ^ Printexc.to_string e ^ "\n"))
      | _ -> ())
