(* C15 model driver. stdin: "<id>\t(fn NLOCALS BODY FINAL (ARG...))" ; stdout: "<id>\t<result>"
   result: P=<ys>;<out>|G=<next results>|F=<for-in elements>;<err or ->|A=<await outcome or ->
     <ys>   comma separated yields of the plain run (S)
     <out>  R<v> | E<tag>
     G      results of len(ys)+4 calls of next on the machine: Y<v> F<v> E<tag> S, space separated
     F      what `for x in gen` collects, then E<tag> when the error escapes, - otherwise
     A      await (async f): R<v> | E<tag>; "-" when the body yields (not an async function)
   "fuel" when the reference interpreter runs out of fuel.
   S-expression syntax
     expr  (c <int>) | (v <n>) | (+ a b) | (- a b) | ( * a b) | (h <k> a b)
     cond  (lt a b) | (le a b) | (eq a b) | (not c) | (and c d) | (or c d)
     stmt  skip | (set <x> e) | (bump <x> e) | (seq s...) | (if c s s) | (while c s) | (yield e) | (ret e) | (throw <tag>) *)
open C15_Gen

type sx = A of string | L of sx list

let parse (s : string) : sx =
  let n = String.length s in
  let pos = ref 0 in
  let rec skip () = if !pos < n && (s.[!pos] = ' ') then (incr pos; skip ()) in
  let rec item () =
    skip ();
    if !pos >= n then failwith "sexp: eof";
    if s.[!pos] = '(' then begin
      incr pos;
      let acc = ref [] in
      let rec loop () =
        skip ();
        if !pos >= n then failwith "sexp: unclosed";
        if s.[!pos] = ')' then incr pos else (acc := item () :: !acc; loop ())
      in
      loop ();
      L (List.rev !acc)
    end else begin
      let st = !pos in
      while !pos < n && s.[!pos] <> ' ' && s.[!pos] <> '(' && s.[!pos] <> ')' do incr pos done;
      A (String.sub s st (!pos - st))
    end
  in
  item ()

let z = Zio.z_of_string
let zs = Zio.string_of_z

let rec nat_of_int (n : int) : Datatypes.nat = if n <= 0 then Datatypes.O else Datatypes.S (nat_of_int (n - 1))
let nat s = nat_of_int (int_of_string s)

let rec expr_of = function
  | L [ A "c"; A k ] -> EConst (z k)
  | L [ A "v"; A k ] -> EVar (nat k)
  | L [ A "+"; a; b ] -> EAdd (expr_of a, expr_of b)
  | L [ A "-"; a; b ] -> ESub (expr_of a, expr_of b)
  | L [ A "*"; a; b ] -> EMul (expr_of a, expr_of b)
  | L [ A "h"; A k; a; b ] -> ECall (nat k, expr_of a, expr_of b)
  | _ -> failwith "expr"

let rec cond_of = function
  | L [ A "lt"; a; b ] -> CLt (expr_of a, expr_of b)
  | L [ A "le"; a; b ] -> CLe (expr_of a, expr_of b)
  | L [ A "eq"; a; b ] -> CEq (expr_of a, expr_of b)
  | L [ A "not"; c ] -> CNot (cond_of c)
  | L [ A "and"; c; d ] -> CAnd (cond_of c, cond_of d)
  | L [ A "or"; c; d ] -> COr (cond_of c, cond_of d)
  | _ -> failwith "cond"

let rec stmt_of = function
  | A "skip" -> SSkip
  | L [ A "set"; A x; e ] -> SAssign (nat x, expr_of e)
  | L [ A "bump"; A x; e ] -> SBump (nat x, expr_of e)
  | L (A "seq" :: ss) -> (
      match ss with
      | [] -> SSkip
      | [ s ] -> stmt_of s
      | s :: r -> SSeq (stmt_of s, stmt_of (L (A "seq" :: r))))
  | L [ A "if"; c; a; b ] -> SIf (cond_of c, stmt_of a, stmt_of b)
  | L [ A "while"; c; b ] -> SWhile (cond_of c, stmt_of b)
  | L [ A "yield"; e ] -> SYield (expr_of e)
  | L [ A "ret"; e ] -> SReturn (expr_of e)
  | L [ A "throw"; A t ] -> SThrow (z t)
  | _ -> failwith "stmt"

let fuel = nat_of_int 20000

let show_out = function ORet v -> "R" ^ zs v | OThr t -> "E" ^ zs t
let show_gres = function GYield v -> "Y" ^ zs v | GFinish v -> "F" ^ zs v | GError t -> "E" ^ zs t | GStop -> "S"

let run (x : sx) : string =
  match x with
  | L [ A "fn"; A nl; b; fin; L args ] -> (
      let f = { nlocals = nat nl; body = stmt_of b; final = expr_of fin } in
      let args = List.map (function A k -> z k | _ -> failwith "arg") args in
      match plain fuel f args with
      | None -> "fuel"
      | Some (ys, out) ->
          let p = String.concat "," (List.map zs ys) ^ ";" ^ show_out out in
          let n = List.length ys + 4 in
          let g =
            match drive (nat_of_int n) fuel (gen_init f args) with
            | None -> "fuel"
            | Some rs -> String.concat " " (List.map show_gres rs)
          in
          let fi =
            match forin (nat_of_int (n + 2)) fuel (gen_init f args) with
            | None -> "fuel"
            | Some (vs, e) -> String.concat "," (List.map zs vs) ^ ";" ^ (match e with Some t -> "E" ^ zs t | None -> "-")
          in
          let a =
            if no_yield f.body then (match await_async fuel f args with Some o -> show_out o | None -> "fuel") else "-"
          in
          "P=" ^ p ^ "|G=" ^ g ^ "|F=" ^ fi ^ "|A=" ^ a)
  | _ -> failwith "case"

let () =
  Zio.iter_lines (fun line ->
      match Zio.split_tab line with
      | id :: input :: _ ->
          let out = try run (parse input) with Failure m -> "bad-input:" ^ m | Not_found -> "bad-input" in
          print_string (id ^ "\t" ^ out ^ "\n")
      | _ -> ())
