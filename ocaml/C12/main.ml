(* C12 model driver. stdin: "<id>\t<program>" ; stdout: "<id>\t<A|R> <errors fixed> <errors as-found>"
   Two input languages: (prog ...) for Model/C12_Checker.v, (prog2 ...) for Model/C12_Scopes.v (below).
   S-expression syntax of (prog ...)
     prog  (prog (methods (m <name> ty stmt...) ...) (main stmt...))
     ty    int | str | bool | nil | (clos ty)
     expr  (lit ty) | (var <name>) | (clos e) | (par e) | (call e) | (meth <name>)
     stmt  (let <name> e) | (set <name> e) | (ex e) | (ret e) *)
open C12_Checker

type sx = A of string | L of sx list

let parse (s : string) : sx =
  let n = String.length s in
  let pos = ref 0 in
  let rec skip () = if !pos < n && (s.[!pos] = ' ') then (incr pos; skip ()) in
  let rec item () =
    skip ();
    if !pos >= n then failwith "sexp: eof";
    if s.[!pos] = '(' then begin
      incr pos;
      let acc = ref [] in
      let rec loop () =
        skip ();
        if !pos >= n then failwith "sexp: unclosed";
        if s.[!pos] = ')' then incr pos else (acc := item () :: !acc; loop ())
      in
      loop ();
      L (List.rev !acc)
    end else begin
      let st = !pos in
      while !pos < n && s.[!pos] <> ' ' && s.[!pos] <> '(' && s.[!pos] <> ')' do incr pos done;
      A (String.sub s st (!pos - st))
    end
  in
  item ()

let nm = Zio.n_of_string

let rec ty_of = function
  | A "int" -> TInt
  | A "str" -> TStr
  | A "bool" -> TBool
  | A "nil" -> TNil
  | L [ A "clos"; t ] -> TClos (ty_of t)
  | _ -> failwith "ty"

let rec expr_of = function
  | L [ A "lit"; t ] -> ELit (ty_of t)
  | L [ A "var"; A x ] -> EVar (nm x)
  | L [ A "clos"; e ] -> EClos (expr_of e)
  | L [ A "par"; e ] -> EParen (expr_of e)
  | L [ A "call"; e ] -> ECall (expr_of e)
  | L [ A "meth"; A m ] -> EMeth (nm m)
  | _ -> failwith "expr"

let stmt_of = function
  | L [ A "let"; A x; e ] -> SLet (nm x, expr_of e)
  | L [ A "set"; A x; e ] -> SAssign (nm x, expr_of e)
  | L [ A "ex"; e ] -> SExpr (expr_of e)
  | L [ A "ret"; e ] -> SReturn (expr_of e)
  | _ -> failwith "stmt"

let method_of = function
  | L (A "m" :: A n :: t :: body) -> ((nm n, ty_of t), List.map stmt_of body)
  | _ -> failwith "method"

let prog_of = function
  | L [ A "prog"; L (A "methods" :: ms); L (A "main" :: mn) ] ->
      { methods = List.map method_of ms; main = List.map stmt_of mn }
  | _ -> failwith "prog"

(* ---- (prog2 ...) : the checker model with catch scopes (Model/C12_Scopes.v)
     prog2 (prog2 (methods (m <name> ty (thr <c>...) stmt...) ...) (main stmt...))
     ty    int | str | bool | nil
     expr  (lit ty) | (var <n>) | (par e) | (call e) | (meth <n>) | (let <n> e) | (set <n> e) | (ret e) | (ex e)
         | (throw <c>) | (do (body e...) (catch <c>...) (handler e...))
         | (clos (params (<n> ty)...) (rt ty | none) (thr <c>... | none) e...)
     (unused e) anywhere in an expression list marks the inserted initialiser: the driver also reports
     whether it belongs to the class closed_value of theorem C12_unused_local_scoped *)
module S = C12_Scopes

let rec sty_of = function
  | A "int" -> S.TInt
  | A "str" -> S.TStr
  | A "bool" -> S.TBool
  | A "nil" -> S.TNil
  | _ -> failwith "ty2"

let thr_of l = List.map (function A c -> nm c | _ -> failwith "thr") l

let inserted : S.expr list ref = ref []

let rec sblock_of (l : sx list) : S.block =
  match l with [] -> S.BNil | e :: r -> let e' = sexpr_of e in S.BCons (e', sblock_of r)

and sexpr_of = function
  | L [ A "lit"; t ] -> S.ELit (sty_of t)
  | L [ A "var"; A x ] -> S.EVar (nm x)
  | L [ A "par"; e ] -> S.EParen (sexpr_of e)
  | L [ A "ex"; e ] -> sexpr_of e
  | L [ A "call"; e ] -> S.ECall (sexpr_of e)
  | L [ A "meth"; A m ] -> S.EMeth (nm m)
  | L [ A "let"; A x; e ] -> S.ELet (nm x, sexpr_of e)
  | L [ A "unused"; A x; e ] -> let v = sexpr_of e in inserted := v :: !inserted; S.ELet (nm x, v)
  | L [ A "set"; A x; e ] -> S.EAssign (nm x, sexpr_of e)
  | L [ A "ret"; e ] -> S.EReturn (sexpr_of e)
  | L [ A "throw"; A c ] -> S.EThrow (nm c)
  | L [ A "do"; L (A "body" :: b); L (A "catch" :: ct); L (A "handler" :: h) ] ->
      S.EDo (sblock_of b, thr_of ct, sblock_of h)
  | L (A "clos" :: L (A "params" :: ps) :: L [ A "rt"; rt ] :: L (A "thr" :: th) :: body) ->
      let ps' = List.map (function L [ A x; t ] -> (nm x, sty_of t) | _ -> failwith "param") ps in
      let rt' = (match rt with A "none" -> None | t -> Some (sty_of t)) in
      let th' = (match th with [ A "none" ] -> None | l -> Some (thr_of l)) in
      S.EClos (ps', rt', th', sblock_of body)
  | _ -> failwith "expr2"

let smethod_of = function
  | L (A "m" :: A n :: t :: L (A "thr" :: u) :: body) -> (((nm n, sty_of t), thr_of u), sblock_of body)
  | _ -> failwith "method2"

let sprog_of = function
  | L [ A "prog2"; L (A "methods" :: ms); L (A "main" :: mn) ] ->
      { S.methods = List.map smethod_of ms; S.main = sblock_of mn }
  | _ -> failwith "prog2"

let rec int_of_nat n = match n with Datatypes.O -> 0 | Datatypes.S m -> 1 + int_of_nat m

let handle (input : string) : string =
  let sx = parse input in
  match sx with
  | L (A "prog2" :: _) ->
      inserted := [];
      let p = sprog_of sx in
      let en = int_of_nat (S.errors true p) and eo = int_of_nat (S.errors false p) in
      let cls = match !inserted with
        | [] -> "-"
        | l -> if List.for_all (fun v -> S.closed_value v) l then "closed" else "open" in
      (if en = 0 then "A" else "R") ^ " " ^ string_of_int en ^ " " ^ string_of_int eo ^ " " ^ cls
  | _ ->
      let p = prog_of sx in
      let en = int_of_nat (errors true p) and eo = int_of_nat (errors false p) in
      (if en = 0 then "A" else "R") ^ " " ^ string_of_int en ^ " " ^ string_of_int eo

let () =
  Zio.iter_lines (fun line ->
      match Zio.split_tab line with
      | id :: input :: _ ->
          let out = try handle input with Failure m -> "bad-input:" ^ m | Not_found -> "bad-input" in
          print_string (id ^ "\t" ^ out ^ "\n")
      | _ -> ())
