(* C12 model driver. stdin: "<id>\t<program>" ; stdout: "<id>\t<A|R> <errors fixed> <errors as-found>"
   S-expression syntax
     prog  (prog (methods (m <name> ty stmt...) ...) (main stmt...))
     ty    int | str | bool | nil | (clos ty)
     expr  (lit ty) | (var <name>) | (clos e) | (par e) | (call e) | (meth <name>)
     stmt  (let <name> e) | (set <name> e) | (ex e) | (ret e) *)
open C12_Checker

type sx = A of string | L of sx list

let parse (s : string) : sx =
  let n = String.length s in
  let pos = ref 0 in
  let rec skip () = if !pos < n && (s.[!pos] = ' ') then (incr pos; skip ()) in
  let rec item () =
    skip ();
    if !pos >= n then failwith "sexp: eof";
    if s.[!pos] = '(' then begin
      incr pos;
      let acc = ref [] in
      let rec loop () =
        skip ();
        if !pos >= n then failwith "sexp: unclosed";
        if s.[!pos] = ')' then incr pos else (acc := item () :: !acc; loop ())
      in
      loop ();
      L (List.rev !acc)
    end else begin
      let st = !pos in
      while !pos < n && s.[!pos] <> ' ' && s.[!pos] <> '(' && s.[!pos] <> ')' do incr pos done;
      A (String.sub s st (!pos - st))
    end
  in
  item ()

let nm = Zio.n_of_string

let rec ty_of = function
  | A "int" -> TInt
  | A "str" -> TStr
  | A "bool" -> TBool
  | A "nil" -> TNil
  | L [ A "clos"; t ] -> TClos (ty_of t)
  | _ -> failwith "ty"

let rec expr_of = function
  | L [ A "lit"; t ] -> ELit (ty_of t)
  | L [ A "var"; A x ] -> EVar (nm x)
  | L [ A "clos"; e ] -> EClos (expr_of e)
  | L [ A "par"; e ] -> EParen (expr_of e)
  | L [ A "call"; e ] -> ECall (expr_of e)
  | L [ A "meth"; A m ] -> EMeth (nm m)
  | _ -> failwith "expr"

let stmt_of = function
  | L [ A "let"; A x; e ] -> SLet (nm x, expr_of e)
  | L [ A "set"; A x; e ] -> SAssign (nm x, expr_of e)
  | L [ A "ex"; e ] -> SExpr (expr_of e)
  | L [ A "ret"; e ] -> SReturn (expr_of e)
  | _ -> failwith "stmt"

let method_of = function
  | L (A "m" :: A n :: t :: body) -> ((nm n, ty_of t), List.map stmt_of body)
  | _ -> failwith "method"

let prog_of = function
  | L [ A "prog"; L (A "methods" :: ms); L (A "main" :: mn) ] ->
      { methods = List.map method_of ms; main = List.map stmt_of mn }
  | _ -> failwith "prog"

let rec int_of_nat n = match n with Datatypes.O -> 0 | Datatypes.S m -> 1 + int_of_nat m

let handle (input : string) : string =
  let p = prog_of (parse input) in
  let en = int_of_nat (errors true p) and eo = int_of_nat (errors false p) in
  (if en = 0 then "A" else "R") ^ " " ^ string_of_int en ^ " " ^ string_of_int eo

let () =
  Zio.iter_lines (fun line ->
      match Zio.split_tab line with
      | id :: input :: _ ->
          let out = try handle input with Failure m -> "bad-input:" ^ m | Not_found -> "bad-input" in
          print_string (id ^ "\t" ^ out ^ "\n")
      | _ -> ())
