(* C06 model driver. stdin: "<id>\t<op> <repr_a> <a> <repr_b> <b>" ; stdout: "<id>\t<observable>"
   observable: "ok S <z>" | "ok B <z>" | "err <code>" | "panic <code>" *)
open C06_Int
open GoSem

let op_of = function
  | "add" -> OpAdd | "sub" -> OpSub | "mul" -> OpMul | "div" -> OpDiv | "mod" -> OpMod
  | s -> failwith ("unknown op " ^ s)

let mk r z = match r with "S" -> Small (Zio.z_of_string z) | "B" -> Big (Zio.z_of_string z) | _ -> failwith "repr"

let show = function
  | Ok (Small z) -> "ok S " ^ Zio.string_of_z z
  | Ok (Big z) -> "ok B " ^ Zio.string_of_z z
  | Err c -> "err " ^ Zio.string_of_z c
  | Panic c -> "panic " ^ Zio.string_of_z c
  | Fatal c -> "fatal " ^ Zio.string_of_z c

let () =
  Zio.iter_lines (fun line ->
      match Zio.split_tab line with
      | id :: input :: _ -> (
          match Zio.split_sp input with
          | [ op; ra; a; rb; b ] -> print_string (id ^ "\t" ^ show (impl (op_of op) (mk ra a) (mk rb b)) ^ "\n")
          | _ -> print_string (id ^ "\tbad-input\n"))
      | _ -> ())
