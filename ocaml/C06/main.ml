(* C06 model driver. stdin: "<id>\t<op> <repr_a> <a> <repr_b> <b>" ; stdout: "<id>\t<observable>"
   observable: "ok S <z>" | "ok B <z>" | "ok T" | "ok F" | "err <code>" | "panic <code>".
   An op suffixed ".i" (the Int-only entry points value.*Ints) has the same model as the
   plain op. Mode "spec" (argv[1]) prints the mathematical result instead ("<z>" | "T" | "F" | "zerodiv"),
   computed with the model's exact Z arithmetic; it is used by the c06.vm stream. *)
open C06_Int
open GoSem

let base_op s = match String.index_opt s '.' with Some i -> String.sub s 0 i | None -> s

let mk r z = match r with "S" -> Small (Zio.z_of_string z) | "B" -> Big (Zio.z_of_string z) | _ -> failwith "repr"

let show = function
  | Ok (Small z) -> "ok S " ^ Zio.string_of_z z
  | Ok (Big z) -> "ok B " ^ Zio.string_of_z z
  | Err c -> "err " ^ Zio.string_of_z c
  | Panic c -> "panic " ^ Zio.string_of_z c
  | Fatal c -> "fatal " ^ Zio.string_of_z c

let showb b = if b then "ok T" else "ok F"

let eval op x y =
  match base_op op with
  | "add" -> show (impl OpAdd x y)
  | "sub" -> show (impl OpSub x y)
  | "mul" -> show (impl OpMul x y)
  | "div" -> show (impl OpDiv x y)
  | "mod" -> show (impl OpMod x y)
  | "pow" -> show (Ok (ipow x y))
  | "neg" -> show (Ok (ineg x))
  | "gt" -> showb (icmp CGt x y)
  | "ge" -> showb (icmp CGe x y)
  | "lt" -> showb (icmp CLt x y)
  | "le" -> showb (icmp CLe x y)
  | "eq" -> showb (icmp CEq x y)
  | "cmp" -> show (Ok (icompare x y))
  | "shl" -> show (ishl x y)
  | "shr" -> show (ishr x y)
  | "and" -> show (Ok (ibit BAnd x y))
  | "or" -> show (Ok (ibit BOr x y))
  | "xor" -> show (Ok (ibit BXor x y))
  | "andnot" -> show (Ok (ibit BAndNot x y))
  | s -> failwith ("unknown op " ^ s)

(* the mathematical result, independent of representation *)
let spec_eval op a b =
  let z = Zio.string_of_z in
  let sb v = if v then "T" else "F" in
  match base_op op with
  | "add" | "sub" | "mul" | "div" | "mod" -> (
      let o = match base_op op with "add" -> OpAdd | "sub" -> OpSub | "mul" -> OpMul | "div" -> OpDiv | _ -> OpMod in
      match spec o a b with Some r -> z r | None -> "zerodiv")
  | "pow" -> z (big_exp a b)
  | "neg" -> z (BinInt.Z.opp a)
  | "gt" -> sb (cmp_spec CGt a b)
  | "ge" -> sb (cmp_spec CGe a b)
  | "lt" -> sb (cmp_spec CLt a b)
  | "le" -> sb (cmp_spec CLe a b)
  | "eq" -> sb (cmp_spec CEq a b)
  | "ne" -> sb (not (cmp_spec CEq a b))
  | "cmp" -> z (big_cmp a b)
  | "shl" -> z (shl_spec a b)
  | "shr" -> z (shl_spec a (BinInt.Z.opp b))
  | "and" -> z (bit_z BAnd a b)
  | "or" -> z (bit_z BOr a b)
  | "xor" -> z (bit_z BXor a b)
  | "andnot" -> z (bit_z BAndNot a b)
  | s -> failwith ("unknown op " ^ s)

let () =
  let spec_mode = Array.length Sys.argv > 1 && Sys.argv.(1) = "spec" in
  Zio.iter_lines (fun line ->
      match Zio.split_tab line with
      | id :: input :: _ -> (
          match Zio.split_sp input with
          | [ op; ra; a; rb; b ] ->
              let r =
                try if spec_mode then spec_eval op (Zio.z_of_string a) (Zio.z_of_string b) else eval op (mk ra a) (mk rb b)
                with Failure m -> "model-failure " ^ m
              in
              print_string (id ^ "\t" ^ r ^ "\n")
          | _ -> print_string (id ^ "\tbad-input\n"))
      | _ -> ())
