(* C27 model driver. stdin: "<id>\t(sess (inp stmt...) ...)" ; stdout: "<id>\t<incr> # <batch>"
   stmt : (def <m> i|s <expr>) | (const <k> <expr>) | (decl <v> <texp> <expr>) | (asg <v> <expr>) | (pr <expr>) | early
          | (td <a> <texp>) | (cls <c>)
   texp : i | s | (a <alias>) | (o <class>)
   expr : (i <int>) | (s <id>) | (l <v>) | (k <id>) | p | (c <m> <expr>) | (add a b) | (mul a b) | (div a b) | (new <class>)
   <incr>  : one entry per input, ';'-separated:  rej | ok:<v>,<v>... | err@<stmt>:<v>,... | crash@<stmt>:<v>,...
             (the extracted [incr true] = REPL with the fixes; with argument "found": [incr false])
   <batch> : one entry per ACCEPTED input k: the last segment of the extracted whole-program semantics
             [batch_run] (every method definition of the program in effect from the start) on the
             accepted inputs up to and including k — what `elk run` prints for that segment. *)
open C27_Repl

type sx = A of string | L of sx list

let parse (s : string) : sx =
  let n = String.length s in
  let pos = ref 0 in
  let rec skip () = if !pos < n && (s.[!pos] = ' ') then (Stdlib.incr pos; skip ()) in
  let rec item () =
    skip ();
    if !pos >= n then failwith "sexp: eof";
    if s.[!pos] = '(' then begin
      Stdlib.incr pos;
      let acc = ref [] in
      let rec loop () =
        skip ();
        if !pos >= n then failwith "sexp: unclosed";
        if s.[!pos] = ')' then Stdlib.incr pos else (acc := item () :: !acc; loop ())
      in
      loop ();
      L (List.rev !acc)
    end else begin
      let st = !pos in
      while !pos < n && s.[!pos] <> ' ' && s.[!pos] <> '(' && s.[!pos] <> ')' do Stdlib.incr pos done;
      A (String.sub s st (!pos - st))
    end
  in
  item ()

let z = Zio.z_of_string
let n_ = Zio.n_of_string
let ty_of_s = function "i" -> TInt | "s" -> TStr | _ -> failwith "ty"

let texp_of (x : sx) : texp =
  match x with
  | A "i" -> XInt
  | A "s" -> XStr
  | L [ A "a"; A k ] -> XAlias (n_ k)
  | L [ A "o"; A k ] -> XClass (n_ k)
  | _ -> failwith "texp"

let rec expr_of (x : sx) : expr =
  match x with
  | L [ A "i"; A k ] -> ELit (z k)
  | L [ A "s"; A k ] -> EStr (n_ k)
  | L [ A "l"; A k ] -> ELoc (n_ k)
  | L [ A "k"; A k ] -> EConst (n_ k)
  | A "p" -> EParam
  | L [ A "c"; A m; a ] -> ECall (n_ m, expr_of a)
  | L [ A "add"; a; b ] -> EAdd (expr_of a, expr_of b)
  | L [ A "mul"; a; b ] -> EMul (expr_of a, expr_of b)
  | L [ A "div"; a; b ] -> EDiv (expr_of a, expr_of b)
  | L [ A "new"; A k ] -> ENew (n_ k)
  | _ -> failwith "expr"

let stmt_of (x : sx) : stmt =
  match x with
  | L [ A "def"; A m; A t; b ] -> SDef (n_ m, ty_of_s t, expr_of b)
  | L [ A "const"; A k; e ] -> SConst (n_ k, expr_of e)
  | L [ A "decl"; A v; t; e ] -> SDecl (n_ v, texp_of t, expr_of e)
  | L [ A "td"; A a; t ] -> STypedef (n_ a, texp_of t)
  | L [ A "cls"; A c ] -> SClass (n_ c)
  | L [ A "asg"; A v; e ] -> SAssign (n_ v, expr_of e)
  | L [ A "pr"; e ] -> SPrint (expr_of e)
  | A "early" -> SEarly
  | _ -> failwith "stmt"

let rec int_of_nat n = match n with Datatypes.O -> 0 | Datatypes.S m -> 1 + int_of_nat m

let show_val = function
  | VInt k -> Zio.string_of_z k
  | VStr k -> "\"s" ^ Zio.string_of_n k ^ "\""
  | VNil -> "nil"
  | VObj k -> "obj" ^ Zio.string_of_n k

let show_res = function
  | Rejected -> "rej"
  | Ran (out, st) ->
      let vs = String.concat "," (List.map show_val out) in
      (match st with
       | Done -> "ok:" ^ vs
       | Error i -> "err@" ^ string_of_int (int_of_nat i) ^ ":" ^ vs
       | Crash i -> "crash@" ^ string_of_int (int_of_nat i) ^ ":" ^ vs)

let rec last = function [ x ] -> x | _ :: r -> last r | [] -> failwith "last"

let run (fx : bool) (x : sx) : string =
  match x with
  | L (A "sess" :: inps) ->
      let h = List.map (function L (A "inp" :: ss) -> List.map stmt_of ss | _ -> failwith "inp") inps in
      let rs, _ = incr fx i_init h in
      let acc = ref [] in
      let batch = ref [] in
      List.iter2
        (fun inp r ->
          match r with
          | Rejected -> ()
          | Ran _ ->
              acc := !acc @ [ inp ];
              batch := show_res (last (batch_run !acc)) :: !batch)
        h rs;
      String.concat ";" (List.map show_res rs) ^ " # " ^ String.concat ";" (List.rev !batch)
  | _ -> failwith "sess"

let () =
  let fx = not (Array.length Sys.argv > 1 && Sys.argv.(1) = "found") in
  Zio.iter_lines (fun line ->
      match Zio.split_tab line with
      | id :: input :: _ ->
          let out = try run fx (parse input) with Failure m -> "bad-input:" ^ m | Not_found -> "bad-input" in
          print_string (id ^ "\t" ^ out ^ "\n")
      | _ -> ())
