(* C09 model driver.
   mode "helpers" (argv[1]): stdin "<id>\t<op> <repr_a> <a> <repr_b> <b>" -> "<id>\tok S|B <z>" | "ok T|F" | "err <code>"
     ops: add sub mul div mod (value.*Ints) gt ge lt le eq (value.*Ints comparisons)
   mode "prog": stdin "<id>\t(prog (meths (m <nparams> (locals e...) (body s...) <ret>)...) (locals e...) (main s...))"
     -> "<id>\tD|<status>|<errclass>|<errmsg>|<line>~<line>..." | "<id>\tSTUCK" | "<id>\tFUEL"
     expr: (i <int>) (b t|f) (s <text>?) (v <slot>) (bin add|sub|mul|div|mod a b) (neg a)
           (cmp lt|le|gt|ge|eq|ne a b) (not a) (and a b) (or a b) (cat a b) (insp a) (call <f> a...)
           (nil) (sym <name>) (chr <c>) (new <class> e) (fld) (send recv <name> a...) (list e...)
     stmt: (set <slot> e) (print e) (if c (s...) (s...)) (while c (s...)) (ret e) (ex e) (for <slot> e (s...))
     optional 4th section: (classes (c <parent>|- (<name> (m ...))...)...)  class methods: slot 0 = self
   Literal text uses [a-z0-9_] only ('_' stands for a space). *)
open C09_Backends
open C06_Int
open GoSem

type sx = A of string | L of sx list

let parse (s : string) : sx =
  let n = String.length s in
  let pos = ref 0 in
  let rec skip () = if !pos < n && s.[!pos] = ' ' then (incr pos; skip ()) in
  let rec item () =
    skip ();
    if !pos >= n then failwith "sexp: eof";
    if s.[!pos] = '(' then begin
      incr pos;
      let acc = ref [] in
      let rec loop () =
        skip ();
        if !pos >= n then failwith "sexp: unclosed";
        if s.[!pos] = ')' then incr pos else (acc := item () :: !acc; loop ())
      in
      loop ();
      L (List.rev !acc)
    end else begin
      let st = !pos in
      while !pos < n && s.[!pos] <> ' ' && s.[!pos] <> '(' && s.[!pos] <> ')' do incr pos done;
      A (String.sub s st (!pos - st))
    end
  in
  item ()

let rec nat_of_int i = if i <= 0 then Datatypes.O else Datatypes.S (nat_of_int (i - 1))

(* OCaml string <-> Coq string (String0.string of Ascii.ascii of 8 bools, least significant first) *)
let ascii_of_char (c : char) : Ascii.ascii =
  let k = Char.code c in
  let b i = (k lsr i) land 1 = 1 in
  Ascii.Ascii (b 0, b 1, b 2, b 3, b 4, b 5, b 6, b 7)

let char_of_ascii (Ascii.Ascii (b0, b1, b2, b3, b4, b5, b6, b7)) : char =
  let v b i = if b then 1 lsl i else 0 in
  Char.chr (v b0 0 + v b1 1 + v b2 2 + v b3 3 + v b4 4 + v b5 5 + v b6 6 + v b7 7)

let coq_string (s : string) : String0.string =
  let r = ref String0.EmptyString in
  for i = String.length s - 1 downto 0 do
    r := String0.String (ascii_of_char s.[i], !r)
  done;
  !r

let rec ocaml_string (s : String0.string) : string =
  let b = Buffer.create 16 in
  let rec go = function
    | String0.EmptyString -> ()
    | String0.String (c, r) -> Buffer.add_char b (char_of_ascii c); go r
  in
  go s;
  Buffer.contents b

let text t = coq_string (String.map (fun c -> if c = '_' then ' ' else c) t)

let binop_of = function
  | "add" -> OpAdd | "sub" -> OpSub | "mul" -> OpMul | "div" -> OpDiv | "mod" -> OpMod
  | s -> failwith ("binop " ^ s)

let cop_of = function
  | "lt" -> CLt | "le" -> CLe | "gt" -> CGt | "ge" -> CGe | "eq" -> CEq | "ne" -> CNe
  | s -> failwith ("cop " ^ s)

let rec expr_of (x : sx) : expr =
  match x with
  | L [ A "i"; A k ] -> EInt (Zio.z_of_string k)
  | L [ A "b"; A "t" ] -> EBool true
  | L [ A "b"; A "f" ] -> EBool false
  | L [ A "s" ] -> EStr (coq_string "")
  | L [ A "s"; A t ] -> EStr (text t)
  | L [ A "v"; A k ] -> EVar (nat_of_int (int_of_string k))
  | L [ A "bin"; A o; a; b ] -> EBin (binop_of o, expr_of a, expr_of b)
  | L [ A "neg"; a ] -> ENeg (expr_of a)
  | L [ A "cmp"; A o; a; b ] -> ECmp (cop_of o, expr_of a, expr_of b)
  | L [ A "not"; a ] -> ENot (expr_of a)
  | L [ A "and"; a; b ] -> EAnd (expr_of a, expr_of b)
  | L [ A "or"; a; b ] -> EOr (expr_of a, expr_of b)
  | L [ A "cat"; a; b ] -> ECat (expr_of a, expr_of b)
  | L [ A "insp"; a ] -> EInspect (expr_of a)
  | L (A "call" :: A f :: args) -> ECall (nat_of_int (int_of_string f), List.map expr_of args)
  | L [ A "nil" ] -> ENil
  | L [ A "sym"; A t ] -> ESym (coq_string t)
  | L [ A "chr"; A t ] -> EChar (coq_string t)
  | L [ A "new"; A c; k ] -> ENew (nat_of_int (int_of_string c), expr_of k)
  | L [ A "fld" ] -> EField
  | L (A "send" :: r :: A nm :: args) -> ESend (expr_of r, nat_of_int (int_of_string nm), List.map expr_of args)
  | L (A "list" :: es) -> EList (List.map expr_of es)
  | L [ A "range"; A o; a; b ] ->
      let op = (match o with "cc" -> RClosed | "co" -> RRightOpen | "oc" -> RLeftOpen | "oo" -> ROpen
                | s -> failwith ("rop " ^ s)) in
      ERange (op, expr_of a, expr_of b)
  | _ -> failwith "expr"

let rec stmt_of (x : sx) : stmt =
  match x with
  | L [ A "set"; A k; e ] -> SAssign (nat_of_int (int_of_string k), expr_of e)
  | L [ A "print"; e ] -> SPrint (expr_of e)
  | L [ A "if"; c; L t; L e ] -> SIf (expr_of c, List.map stmt_of t, List.map stmt_of e)
  | L [ A "while"; c; L b ] -> SWhile (expr_of c, List.map stmt_of b)
  | L [ A "ret"; e ] -> SReturn (expr_of e)
  | L [ A "ex"; e ] -> SExpr (expr_of e)
  | L [ A "for"; A k; e; L b ] -> SForIn (nat_of_int (int_of_string k), expr_of e, List.map stmt_of b)
  | _ -> failwith "stmt"

let meth_of = function
  | L [ A "m"; A np; L (A "locals" :: ls); L (A "body" :: b); r ] ->
      { m_params = nat_of_int (int_of_string np); m_locals = List.map expr_of ls;
        m_body = List.map stmt_of b; m_ret = expr_of r }
  | _ -> failwith "meth"

let class_of = function
  | L (A "c" :: A par :: ms) ->
      { c_parent = (if par = "-" then None else Some (nat_of_int (int_of_string par)));
        c_meths = List.map (function
          | L [ A nm; m ] -> (nat_of_int (int_of_string nm), meth_of m)
          | _ -> failwith "class method") ms }
  | _ -> failwith "class"

let prog_of = function
  | L [ A "prog"; L (A "meths" :: ms); L (A "locals" :: ls); L (A "main" :: b) ] ->
      { p_meths = List.map meth_of ms; p_locals = List.map expr_of ls; p_main = List.map stmt_of b;
        p_classes = [] }
  | L [ A "prog"; L (A "meths" :: ms); L (A "locals" :: ls); L (A "main" :: b); L (A "classes" :: cs) ] ->
      { p_meths = List.map meth_of ms; p_locals = List.map expr_of ls; p_main = List.map stmt_of b;
        p_classes = List.map class_of cs }
  | _ -> failwith "prog"

let fuel = nat_of_int 30000

let run_prog (s : string) : string =
  match coq_Sref fuel (prog_of (parse s)) with
  | SStuck -> "STUCK"
  | SOutOfFuel -> "FUEL"
  | SDone o ->
      let cls, msg = match o.o_err with Some (c, m) -> (ocaml_string c, ocaml_string m) | None -> ("", "") in
      Printf.sprintf "D|%s|%s|%s|%s" (Zio.string_of_z o.o_status) cls msg
        (String.concat "~" (List.map ocaml_string o.o_out))

(* ---- helpers ---- *)
let mk r z = match r with "S" -> Small (Zio.z_of_string z) | "B" -> Big (Zio.z_of_string z) | _ -> failwith "repr"

let show = function
  | Ok (Small z) -> "ok S " ^ Zio.string_of_z z
  | Ok (Big z) -> "ok B " ^ Zio.string_of_z z
  | Err c -> "err " ^ Zio.string_of_z c
  | Panic c -> "panic " ^ Zio.string_of_z c
  | Fatal c -> "fatal " ^ Zio.string_of_z c

let showb b = if b then "ok T" else "ok F"

let run_helper op x y =
  match op with
  | "add" -> show (helper OpAdd x y)
  | "sub" -> show (helper OpSub x y)
  | "mul" -> show (helper OpMul x y)
  | "div" -> show (helper OpDiv x y)
  | "mod" -> show (helper OpMod x y)
  | "gt" -> showb (h_cmp HGt x y)
  | "ge" -> showb (h_cmp HGe x y)
  | "lt" -> showb (h_cmp HLt x y)
  | "le" -> showb (h_cmp HLe x y)
  | "eq" -> showb (h_cmp HEq x y)
  | s -> failwith ("unknown op " ^ s)

let () =
  let mode = if Array.length Sys.argv > 1 then Sys.argv.(1) else "prog" in
  Zio.iter_lines (fun line ->
      match Zio.split_tab line with
      | id :: input :: _ ->
          let r =
            try
              if mode = "helpers" then
                match Zio.split_sp input with
                | [ op; ra; a; rb; b ] -> run_helper op (mk ra a) (mk rb b)
                | _ -> "bad-input"
              else run_prog input
            with Failure m -> "model-failure " ^ m | Stack_overflow -> "model-failure stack"
          in
          print_string (id ^ "\t" ^ r ^ "\n")
      | _ -> ())
