(* C31 model driver. stdin: "<id>\t<K> <program>" ; stdout: "<id>\t<verdict>;<output>;<expanded>;<verdict2>;<output2>"
   verdict   A (run Static from the empty top-level frame succeeds) | R
   output    values printed by run Dynamic, space separated ("-" when rejected, "!" if Dynamic fails although Static accepted)
   expanded  the program with every macro boundary expanded by hand (expand_all K false), same syntax
   verdict2/output2  the same two observables of the expanded program
   S-expression syntax
     expr  (n <int>) | (v <name>) | (+ e e) | (u e) | (let <name> e) | (set <name> e)     -- (x := e), (x = e) as operands
     stmt  skip | (seq s...) | (let <name> e) | (set <name> e) | (ex e) | (pr e) | (blk s) | (if e s s) | (mac s) | (us s)
           (let / set / ex are expression statements: SExpr (EBind ..) / SExpr (ESet ..) / SExpr e)
           | (ifc c s s)     -- conditional on the truthiness condition c, compiled to nested SIf by the extracted
                                C31_Cond.ifc;  c ::= (e expr) | (not c) | (and c c) | (or c c) | (cu c)  (cu = unhygienic splice) *)
open C31_Hygiene
open C31_Cond

type sx = A of string | L of sx list

let parse (s : string) : sx =
  let n = String.length s in
  let pos = ref 0 in
  let rec skip () = if !pos < n && (s.[!pos] = ' ') then (incr pos; skip ()) in
  let rec item () =
    skip ();
    if !pos >= n then failwith "sexp: eof";
    if s.[!pos] = '(' then begin
      incr pos;
      let acc = ref [] in
      let rec loop () =
        skip ();
        if !pos >= n then failwith "sexp: unclosed";
        if s.[!pos] = ')' then incr pos else (acc := item () :: !acc; loop ())
      in
      loop ();
      L (List.rev !acc)
    end else begin
      let st = !pos in
      while !pos < n && s.[!pos] <> ' ' && s.[!pos] <> '(' && s.[!pos] <> ')' do incr pos done;
      A (String.sub s st (!pos - st))
    end
  in
  item ()

let z = Zio.z_of_string
let nm = Zio.n_of_string

let rec expr_of (x : sx) : expr =
  match x with
  | L [ A "n"; A k ] -> ELit (z k)
  | L [ A "v"; A k ] -> EVar (nm k)
  | L [ A "+"; a; b ] -> EAdd (expr_of a, expr_of b)
  | L [ A "u"; e ] -> EUnhyg (expr_of e)
  | L [ A "let"; A k; e ] -> EBind (nm k, expr_of e)
  | L [ A "set"; A k; e ] -> ESet (nm k, expr_of e)
  | _ -> failwith "expr"

let rec cond_of (x : sx) : cond =
  match x with
  | L [ A "e"; e ] -> CE (expr_of e)
  | L [ A "not"; c ] -> CNot (cond_of c)
  | L [ A "and"; a; b ] -> CAnd (cond_of a, cond_of b)
  | L [ A "or"; a; b ] -> COr (cond_of a, cond_of b)
  | L [ A "cu"; c ] -> CUnhyg (cond_of c)
  | _ -> failwith "cond"

let rec stmt_of (x : sx) : stmt =
  match x with
  | L [ A "ifc"; c; t; e ] -> ifc false (cond_of c) (stmt_of t) (stmt_of e)
  | A "skip" -> SSkip
  | L (A "seq" :: r) -> seq_of r
  | L [ A "let"; A k; e ] -> SExpr (EBind (nm k, expr_of e))
  | L [ A "set"; A k; e ] -> SExpr (ESet (nm k, expr_of e))
  | L [ A "ex"; e ] -> SExpr (expr_of e)
  | L [ A "pr"; e ] -> SPrint (expr_of e)
  | L [ A "blk"; s ] -> SBlock (stmt_of s)
  | L [ A "if"; c; t; e ] -> SIf (expr_of c, stmt_of t, stmt_of e)
  | L [ A "mac"; s ] -> SBoundary (stmt_of s)
  | L [ A "us"; s ] -> SUnhyg (stmt_of s)
  | _ -> failwith "stmt"

and seq_of = function
  | [] -> SSkip
  | [ s ] -> stmt_of s
  | s :: r -> SSeq (stmt_of s, seq_of r)

let zs = Zio.string_of_z
let ns = Zio.string_of_n

let rec show_expr = function
  | ELit k -> "(n " ^ zs k ^ ")"
  | EVar x -> "(v " ^ ns x ^ ")"
  | EAdd (a, b) -> "(+ " ^ show_expr a ^ " " ^ show_expr b ^ ")"
  | EUnhyg e -> "(u " ^ show_expr e ^ ")"
  | EBind (x, e) -> "(let " ^ ns x ^ " " ^ show_expr e ^ ")"
  | ESet (x, e) -> "(set " ^ ns x ^ " " ^ show_expr e ^ ")"

let rec flat = function SSeq (a, b) -> flat a @ flat b | s -> [ s ]

let rec show_stmt (s : stmt) : string =
  match s with
  | SSkip -> "skip"
  | SSeq _ -> "(seq" ^ String.concat "" (List.map (fun x -> " " ^ show_stmt x) (flat s)) ^ ")"
  | SExpr (EBind (x, e)) -> "(let " ^ ns x ^ " " ^ show_expr e ^ ")"
  | SExpr (ESet (x, e)) -> "(set " ^ ns x ^ " " ^ show_expr e ^ ")"
  | SExpr e -> "(ex " ^ show_expr e ^ ")"
  | SPrint e -> "(pr " ^ show_expr e ^ ")"
  | SBlock b -> "(blk " ^ show_stmt b ^ ")"
  | SIf (c, t, e) -> "(if " ^ show_expr c ^ " " ^ show_stmt t ^ " " ^ show_stmt e ^ ")"
  | SBoundary b -> "(mac " ^ show_stmt b ^ ")"
  | SUnhyg b -> "(us " ^ show_stmt b ^ ")"

let top : env = [ { ftyp = FDefault; fvars = [] } ]

let observe (s : stmt) : string * string =
  if accepts top s then
    match run Dynamic top false s with
    | Some (_, o) -> ("A", String.concat " " (List.map zs o))
    | None -> ("A", "!")
  else ("R", "-")

let handle (input : string) : string =
  let input = String.trim input in
  let i = String.index input ' ' in
  let k = nm (String.sub input 0 i) in
  let s = stmt_of (parse (String.sub input (i + 1) (String.length input - i - 1))) in
  if not (stmt_below k s) then failwith "names-not-below-K";
  let v, o = observe s in
  let s', _ = expand_all k false s in
  let v', o' = observe s' in
  String.concat ";" [ v; o; show_stmt s'; v'; o' ]

let () =
  Zio.iter_lines (fun line ->
      match Zio.split_tab line with
      | id :: input :: _ ->
          let out = try handle input with Failure m -> "bad-input:" ^ m | Not_found -> "bad-input" in
          print_string (id ^ "\t" ^ out ^ "\n")
      | _ -> ())
