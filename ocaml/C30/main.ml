(* C30 model driver. stdin: "<id>\t(case (P ...) V)" ; stdout: "<id>\t<result>"
   result: "else" | "(sel <i> (<x> <value>|unbound) ...)" with one entry per distinct variable of the
   selected clause's pattern (in first-occurrence order); the value is the LAST assignment in the
   model's environment, `unbound` when the successful match did not assign the variable.
   S-expression syntax
     atom    (i <int>) (s <id>) (y <id>) n t f
     value   atom | (l v...) | (u v...) | (m (k v)...) | (r (k v)...)
     pat     (lit atom) | (cmp lt|le|gt|ge <int>) | (rng c|o|lo|ro <int>|_ <int>|_) | (b <x>) | w
           | (seq l|u (p...) none|anon|(named <x>) (p...)) | (dict m|r (k p)...) | (or p q) | (and p q) | (as p <x>) *)
open C30_Pattern

type sx = A of string | L of sx list

let parse (s : string) : sx =
  let n = String.length s in
  let pos = ref 0 in
  let rec skip () = if !pos < n && (s.[!pos] = ' ') then (incr pos; skip ()) in
  let rec item () =
    skip ();
    if !pos >= n then failwith "sexp: eof";
    if s.[!pos] = '(' then begin
      incr pos;
      let acc = ref [] in
      let rec loop () =
        skip ();
        if !pos >= n then failwith "sexp: unclosed";
        if s.[!pos] = ')' then incr pos else (acc := item () :: !acc; loop ())
      in
      loop ();
      L (List.rev !acc)
    end else begin
      let st = !pos in
      while !pos < n && s.[!pos] <> ' ' && s.[!pos] <> '(' && s.[!pos] <> ')' do incr pos done;
      A (String.sub s st (!pos - st))
    end
  in
  item ()

let z = Zio.z_of_string

let atom_of = function
  | L [ A "i"; A k ] -> AInt (z k)
  | L [ A "s"; A k ] -> AStr (z k)
  | L [ A "y"; A k ] -> ASym (z k)
  | A "n" -> ANil
  | A "t" -> ABool true
  | A "f" -> ABool false
  | _ -> failwith "atom"

let rec value_of (x : sx) : value =
  match x with
  | L (A "l" :: r) -> VList (List.map value_of r)
  | L (A "u" :: r) -> VTuple (List.map value_of r)
  | L (A "m" :: r) -> VMap (List.map kv_of r)
  | L (A "r" :: r) -> VRec (List.map kv_of r)
  | _ -> VAtom (atom_of x)

and kv_of = function L [ k; v ] -> (atom_of k, value_of v) | _ -> failwith "kv"

let bound = function A "_" -> None | A k -> Some (z k) | _ -> failwith "bound"

let rec pat_of (x : sx) : pat =
  match x with
  | L [ A "lit"; a ] -> PLit (atom_of a)
  | L [ A "cmp"; A o; A k ] ->
      PCmp ((match o with "lt" -> Lt | "le" -> Le | "gt" -> Gt | "ge" -> Ge | _ -> failwith "cmpop"), z k)
  | L [ A "rng"; A k; lo; hi ] ->
      PRange
        ( (match k with "c" -> RClosed | "o" -> ROpen | "lo" -> RLeftOpen | "ro" -> RRightOpen | _ -> failwith "rkind"),
          bound lo, bound hi )
  | L [ A "b"; A v ] -> PBind (z v)
  | A "w" -> PWild
  | L [ A "seq"; A k; L pre; r; L post ] ->
      let rst = match r with A "none" -> RNone | A "anon" -> RAnon | L [ A "named"; A v ] -> RNamed (z v) | _ -> failwith "rest" in
      PSeq ((match k with "l" -> false | "u" -> true | _ -> failwith "seqkind"), List.map pat_of pre, rst, List.map pat_of post)
  | L (A "dict" :: A k :: es) ->
      PDict
        ( (match k with "m" -> false | "r" -> true | _ -> failwith "dictkind"),
          List.map (function L [ key; p ] -> (atom_of key, pat_of p) | _ -> failwith "entry") es )
  | L [ A "or"; p; q ] -> POr (pat_of p, pat_of q)
  | L [ A "and"; p; q ] -> PAnd (pat_of p, pat_of q)
  | L [ A "as"; p; A v ] -> PAs (pat_of p, z v)
  | _ -> failwith "pat"

let zs = Zio.string_of_z

let show_atom = function
  | AInt k -> "(i " ^ zs k ^ ")"
  | AStr k -> "(s " ^ zs k ^ ")"
  | ASym k -> "(y " ^ zs k ^ ")"
  | ANil -> "n"
  | ABool true -> "t"
  | ABool false -> "f"

let rec show_value = function
  | VAtom a -> show_atom a
  | VList l -> "(l" ^ String.concat "" (List.map (fun v -> " " ^ show_value v) l) ^ ")"
  | VTuple l -> "(u" ^ String.concat "" (List.map (fun v -> " " ^ show_value v) l) ^ ")"
  | VMap kvs -> "(m" ^ String.concat "" (List.map show_kv kvs) ^ ")"
  | VRec kvs -> "(r" ^ String.concat "" (List.map show_kv kvs) ^ ")"

and show_kv (k, v) = " (" ^ show_atom k ^ " " ^ show_value v ^ ")"

let rec int_of_nat n = match n with Datatypes.O -> 0 | Datatypes.S m -> 1 + int_of_nat m

let dedup (l : string list) : string list =
  List.rev (List.fold_left (fun acc x -> if List.mem x acc then acc else x :: acc) [] l)

let run (x : sx) : string =
  match x with
  | L [ A "case"; L ps; v ] -> (
      let cs = List.map pat_of ps in
      let v = value_of v in
      match switch cs v with
      | None -> "else"
      | Some (i, e) ->
          let i = int_of_nat i in
          let p = List.nth cs i in
          let names = dedup (List.map zs (vars p)) in
          let one nm =
            match env_get (z nm) e with Some w -> " (" ^ nm ^ " " ^ show_value w ^ ")" | None -> " (" ^ nm ^ " unbound)"
          in
          "(sel " ^ string_of_int i ^ String.concat "" (List.map one names) ^ ")")
  | _ -> failwith "case"

let () =
  Zio.iter_lines (fun line ->
      match Zio.split_tab line with
      | id :: input :: _ ->
          let out = try run (parse input) with Failure m -> "bad-input:" ^ m | Not_found -> "bad-input" in
          print_string (id ^ "\t" ^ out ^ "\n")
      | _ -> ())
