(* C32 model driver.
   stdin  "<id>\t<input>", stdout "<id>\t<observable>".
   Two input kinds:
   * rle (default): ops "a<line>:<bytes> b<bytes> r<count>" -> "ok n=<total> q=<lines for i=-1..n+1> o=<oracle>"
     or "panic <code>".  The o= field is the specification's verdict: "1" when the plain
     list computed by run_spec agrees with the table at every queried offset (the theorem
     says it must inside the domain), "-" when an op is outside the theorem's domain.
   * "trace <threads>": threads separated by '|', thrower first then awaiters innermost
     first; frames separated by ';' : E | B,name,file,ip,tcc,ops | N,file,func,line,tcc |
     C,name,file,ip,tcc,ops | C- ; ops separated by '.'.  Output: "name:line:tcc ..." *)
open C32_Lines
open C32_Trace
open GoSem

module Str_split = struct
  (* the part of s after the first occurrence of sep *)
  let after s sep =
    let n = String.length s and k = String.length sep in
    let rec go i = if i + k > n then None else if String.sub s i k = sep then Some (String.sub s (i + k) (n - i - k)) else go (i + 1) in
    go 0
end

let z = Zio.z_of_string
let zs = Zio.string_of_z

let op_of tok =
  match tok.[0] with
  | 'a' -> (
      match String.split_on_char ':' (String.sub tok 1 (String.length tok - 1)) with
      | [ l; b ] -> OpAdd (z l, z b)
      | _ -> failwith "op")
  | 'b' -> OpAddBytes (z (String.sub tok 1 (String.length tok - 1)))
  | 'r' -> OpRemove (z (String.sub tok 1 (String.length tok - 1)))
  | 'p' -> OpPrologue (z (String.sub tok 1 (String.length tok - 1)))
  | _ -> failwith ("op " ^ tok)

let in_domain = function
  | OpAdd (_, b) -> Zio.int_of_z b >= 1
  | OpAddBytes b -> Zio.int_of_z b >= 0
  | OpRemove _ -> true
  | OpPrologue b -> Zio.int_of_z b >= 0

let rle input =
  let ops = List.map op_of (Zio.split_sp input) in
  match run_impl ops with
  | Panic c -> "panic " ^ zs c
  | Err c -> "err " ^ zs c
  | Fatal c -> "fatal " ^ zs c
  | Ok t ->
      let total = Zio.int_of_z (total_bytes t) in
      let hi = if total + 1 < 1 then 1 else total + 1 in
      let dom = List.for_all in_domain ops in
      let spec = match run_spec ops with Ok ls -> Some ls | _ -> None in
      let oracle = ref (if dom then "1" else "-") in
      let b = Buffer.create 64 in
      Buffer.add_string b (Printf.sprintf "ok n=%d q=" total);
      for i = -1 to hi do
        let got = get_line_number t (Zio.z_of_int i) in
        if i > -1 then Buffer.add_char b ',';
        Buffer.add_string b (zs got);
        if dom && !oracle = "1" then
          match spec with
          | None -> oracle := "0@nospec"
          | Some ls -> if zs (spec_line ls (Zio.z_of_int i)) <> zs got then oracle := Printf.sprintf "0@%d" i
      done;
      Buffer.add_string b (" o=" ^ !oracle);
      Buffer.contents b

(* "lines <meta> :: <ops>": the operations reconstructed from a compiled function (one `a` per
   instruction after the prologue, then `p<k>` for a PREP_LOCALS prologue of k bytes).  The model
   builds the table; observable as printed by harness/cmd/c32/lines.go:
   "ok n=<total> q=<run-length coded get_line_number i for i=-1..M+1> o=1", M = sum of all sizes.
   o=1 states what the theorems give: the table accounts for exactly M bytes and (checked against
   run_spec when M <= 4000, the plain list being quadratic to build) answers like the plain list. *)
let lines input =
  let ops_s =
    match Str_split.after input " ::" with Some r -> String.trim r | None -> failwith "lines: no ::" in
  let ops = if ops_s = "" then [] else List.rev (List.rev_map op_of (Zio.split_sp ops_s)) in
  let m =
    List.fold_left
      (fun a o -> match o with OpAdd (_, b) | OpAddBytes b | OpPrologue b -> a + Zio.int_of_z b | OpRemove _ -> a)
      0 ops in
  match run_impl ops with
  | Panic c -> "panic " ^ zs c
  | Err c -> "err " ^ zs c
  | Fatal c -> "fatal " ^ zs c
  | Ok t ->
      let total = Zio.int_of_z (total_bytes t) in
      let spec = if m <= 4000 then (match run_spec ops with Ok ls -> Some ls | _ -> None) else None in
      let oracle = ref (if total = m && List.for_all in_domain ops then "1" else "0:total") in
      let b = Buffer.create 256 in
      Buffer.add_string b (Printf.sprintf "ok n=%d q=" total);
      let cur = ref "" and cnt = ref 0 and first = ref true in
      let flush () =
        if !cnt > 0 then begin
          if not !first then Buffer.add_char b ',';
          first := false;
          Buffer.add_string b (!cur ^ "*" ^ string_of_int !cnt)
        end in
      for i = -1 to m + 1 do
        let got = zs (get_line_number t (Zio.z_of_int i)) in
        (match spec with
         | Some ls -> if zs (spec_line ls (Zio.z_of_int i)) <> got && !oracle = "1" then oracle := Printf.sprintf "0:spec@%d" i
         | None -> ());
        if got = !cur then incr cnt else begin flush (); cur := got; cnt := 1 end
      done;
      flush ();
      Buffer.add_string b (" o=" ^ !oracle);
      Buffer.contents b

let table_of ops_s =
  let ops = if ops_s = "" then [] else List.map op_of (String.split_on_char '.' ops_s) in
  match run_impl ops with Ok t -> t | _ -> failwith "table panics"

let parse_thread s =
  let frames = List.filter (fun x -> x <> "") (String.split_on_char ';' s) in
  let stack = ref [] and cur = ref None in
  List.iter
    (fun f ->
      match String.split_on_char ',' f with
      | [ "E" ] -> stack := FEmpty :: !stack
      | [ "B"; name; file; ip; tcc; ops ] ->
          stack := FBytecode ({ bf_name = z name; bf_file = z file; bf_lines = table_of ops }, z ip, z tcc) :: !stack
      | [ "N"; file; func; line; tcc ] -> stack := FNative (z file, z func, z line, z tcc) :: !stack
      | [ "C"; name; file; ip; tcc; ops ] ->
          cur := Some (({ bf_name = z name; bf_file = z file; bf_lines = table_of ops }, z ip), z tcc)
      | [ "C-" ] -> cur := None
      | _ -> failwith ("frame " ^ f))
    frames;
  { th_stack = List.rev !stack; th_cur = !cur }

let trace input =
  match List.map parse_thread (String.split_on_char '|' input) with
  | [] -> "bad-input"
  | thrower :: awaiters ->
      let es = trace_through_awaits thrower awaiters in
      String.concat " " (List.map (fun e -> zs e.en_func ^ ":" ^ zs e.en_line ^ ":" ^ zs e.en_tcc) es)

(* "hist <clear><refonly> <episode> # <episode> ... [@ <awaiters>]": the stored-trace protocol.
   episode = <S|C|T>~<r|i><n>~<D|N>~<thread>^<thread>... : ending (swallowed / caught / T = the final,
   uncaught error), error value (reference / inline), origin kind (THROW instruction / native error)
   and the thread snapshots, the origin's first, then the snapshot of every instruction the error
   is handed back to by native code (innermost first).  Output: the trace `reported` gives for the
   final episode after the earlier ones, prepended by the awaiters' chains. *)
let hist input =
  let cfgs, rest =
    match String.index_opt input ' ' with
    | Some i -> (String.sub input 0 i, String.sub input (i + 1) (String.length input - i - 1))
    | None -> failwith "hist" in
  let c = { cfg_clear = cfgs.[0] = '1'; cfg_refonly = cfgs.[1] = '1' } in
  let main, awaiters =
    match Str_split.after rest " @ " with
    | Some a ->
        let n = String.length rest - String.length a - 3 in
        (String.sub rest 0 n, List.map parse_thread (String.split_on_char '|' a))
    | None -> (rest, []) in
  let split_on sep s =
    let rec go acc s = match Str_split.after s sep with
      | Some r -> go (String.sub s 0 (String.length s - String.length r - String.length sep) :: acc) r
      | None -> List.rev (s :: acc) in
    go [] s in
  let episode e =
    match String.split_on_char '~' (String.trim e) with
    | [ en; v; k; ths ] ->
        let v = let n = z (String.sub v 1 (String.length v - 1)) in if v.[0] = 'r' then VRef n else VInline n in
        let o =
          match List.map parse_thread (String.split_on_char '^' ths) with
          | [] -> failwith "origin"
          | t0 :: outer ->
              List.fold_left (fun o th -> Crossed (o, th)) (if k = "D" then Direct t0 else Native t0) outer in
        (en, o, v)
    | _ -> failwith ("episode " ^ e) in
  let eps = List.map episode (split_on " # " main) in
  let prior = List.filter (fun (en, _, _) -> en <> "T") eps in
  let h = List.map (fun (en, o, v) -> ((o, v), if en = "S" then Swallowed else Caught)) prior in
  match List.filter (fun (en, _, _) -> en = "T") eps with
  | [ (_, o, v) ] ->
      let base = reported c h o v in
      let es = List.fold_left (fun b th -> build_trace_prepend th b) base awaiters in
      String.concat " " (List.map (fun e -> zs e.en_func ^ ":" ^ zs e.en_line ^ ":" ^ zs e.en_tcc) es)
  | _ -> "bad-input"

let () =
  Zio.iter_lines (fun line ->
      match Zio.split_tab line with
      | id :: input :: _ ->
          let out =
            try
              if String.length input > 6 && String.sub input 0 6 = "trace " then
                trace (String.sub input 6 (String.length input - 6))
              else if String.length input > 5 && String.sub input 0 5 = "hist " then
                hist (String.sub input 5 (String.length input - 5))
              else if String.length input > 6 && String.sub input 0 6 = "lines " then lines input
              else rle input
            with e -> "driver-error " ^ Printexc.to_string e
          in
          print_string (id ^ "\t" ^ out ^ "\n")
      | _ -> ())
