(* C19 model driver.  argv[1]: file with the maximal ranges "lo hi" of unicode.IsGraphic dumped
   from Go at check time (instantiates the Section variable is_graphic; unicode.IsLetter is
   irrelevant for printing and is instantiated with the ASCII letters for the self-check).
   stdin: "<id>\t<case>"  with case = "S <hex bytes>" | "C <rune>" | "I <decimal>"
   stdout: "<id>\t<hex of the inspect output>"; for S/C/I the driver also reads the printed text
   back with the model's lexer and appends " MODEL-RT-FAIL" if that is not the input (the
   theorems say this never happens).
   Literal direction (stream c19.lit): "L <literal text>" -> eval_literal: "I<dec>" | "i8:<dec>" | ... |
   "u:<dec>" | "error";  "T <base> <hex bytes>" and "E <base> <text>" -> to_int: "I<dec>" | "error";
   "F <text>" (float literals) is not modelled: "-". *)
open BinNums
open C19_Inspect
open C19_Literal

let graphic = Bytes.make 0x110000 '\000'

let load path =
  let ic = open_in path in
  (try
     while true do
       let l = input_line ic in
       match Zio.split_sp l with
       | [ a; b ] -> for r = int_of_string a to int_of_string b do Bytes.set graphic r '\001' done
       | _ -> ()
     done
   with End_of_file -> ());
  close_in ic

let rec int_of_pos = function Coq_xH -> 1 | Coq_xO p -> 2 * int_of_pos p | Coq_xI p -> (2 * int_of_pos p) + 1
let int_of_z = function Z0 -> 0 | Zpos p -> int_of_pos p | Zneg p -> - int_of_pos p
let rec pos_of_int n = if n = 1 then Coq_xH else if n land 1 = 0 then Coq_xO (pos_of_int (n lsr 1)) else Coq_xI (pos_of_int (n lsr 1))
let z_of_int n = if n = 0 then Z0 else if n > 0 then Zpos (pos_of_int n) else Zneg (pos_of_int (-n))

let is_graphic z = let r = int_of_z z in r >= 0 && r < 0x110000 && Bytes.get graphic r = '\001'
let is_letter z = let r = int_of_z z in (r >= 65 && r <= 90) || (r >= 97 && r <= 122)

let bytes_of_hex h = List.init (String.length h / 2) (fun i -> z_of_int (int_of_string ("0x" ^ String.sub h (2 * i) 2)))
let hex_of_bytes l = String.concat "" (List.map (fun z -> Printf.sprintf "%02x" (int_of_z z land 255)) l)

let bytes_of_string t = List.init (String.length t) (fun i -> z_of_int (Char.code t.[i]))
let tok_name = function
  | TInt -> "I" | TI8 -> "i8:" | TI16 -> "i16:" | TI32 -> "i32:" | TI64 -> "i64:"
  | TU8 -> "u8:" | TU16 -> "u16:" | TU32 -> "u32:" | TU64 -> "u64:" | TUInt -> "u:"
let show_int = function Some v -> "I" ^ Zio.string_of_z v | None -> "error"

let () =
  load Sys.argv.(1);
  Zio.iter_lines (fun line ->
      match Zio.split_tab line with
      | id :: input :: _ ->
        let out =
          match Zio.split_sp input with
          | [ "S"; h ] ->
            let s = bytes_of_hex h in
            let t = inspect_string is_graphic s in
            hex_of_bytes t ^ (if lex_string_body is_letter t = Some s then "" else " MODEL-RT-FAIL")
          | [ "S" ] ->
            let t = inspect_string is_graphic [] in
            hex_of_bytes t ^ (if lex_string_body is_letter t = Some [] then "" else " MODEL-RT-FAIL")
          | [ "C"; n ] ->
            let c = z_of_int (int_of_string n) in
            let t = inspect_char is_graphic c in
            hex_of_bytes t ^ (if lex_char_body t = Some c then "" else " MODEL-RT-FAIL")
          | [ "I"; d ] ->
            let z = Zio.z_of_string d in
            let t = print_int z in
            hex_of_bytes t ^ (if eval_int_source t = Some z then "" else " MODEL-RT-FAIL")
          (* the model's READER applied to a text printed by the implementation *)
          | [ "LS"; h ] -> (match lex_string_body is_letter (bytes_of_hex h) with Some s -> "S " ^ hex_of_bytes s | None -> "none")
          | [ "LC"; h ] -> (match lex_char_body (bytes_of_hex h) with Some c -> "C " ^ string_of_int (int_of_z c) | None -> "none")
          | [ "LI"; h ] -> (match eval_int_source (bytes_of_hex h) with Some z -> "I " ^ Zio.string_of_z z | None -> "none")
          | [ "L"; t ] ->
            (match eval_literal (bytes_of_string t) with
             | Some (k, v) -> tok_name k ^ Zio.string_of_z v
             | None -> "error")
          | [ "T"; b; h ] -> show_int (to_int (bytes_of_hex h) (z_of_int (int_of_string b)))
          | [ "T"; b ] -> show_int (to_int [] (z_of_int (int_of_string b)))
          | [ "E"; b; t ] -> show_int (to_int (bytes_of_string t) (z_of_int (int_of_string b)))
          | [ "E"; b ] -> show_int (to_int [] (z_of_int (int_of_string b)))
          | "F" :: _ -> "-"
          | _ -> "bad-input"
        in
        print_string (id ^ "\t" ^ out ^ "\n")
      | _ -> ())
