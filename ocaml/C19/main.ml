(* C19 model driver.  argv[1]: file with the maximal ranges "lo hi" of unicode.IsGraphic dumped
   from Go at check time (instantiates the Section variable is_graphic; unicode.IsLetter is
   irrelevant for printing and is instantiated with the ASCII letters for the self-check).
   stdin: "<id>\t<case>"  with case = "S <hex bytes>" | "C <rune>" | "I <decimal>"
   stdout: "<id>\t<hex of the inspect output>"; for S/C/I the driver also reads the printed text
   back with the model's lexer and appends " MODEL-RT-FAIL" if that is not the input (the
   theorems say this never happens). *)
open BinNums
open C19_Inspect

let graphic = Bytes.make 0x110000 '\000'

let load path =
  let ic = open_in path in
  (try
     while true do
       let l = input_line ic in
       match Zio.split_sp l with
       | [ a; b ] -> for r = int_of_string a to int_of_string b do Bytes.set graphic r '\001' done
       | _ -> ()
     done
   with End_of_file -> ());
  close_in ic

let rec int_of_pos = function Coq_xH -> 1 | Coq_xO p -> 2 * int_of_pos p | Coq_xI p -> (2 * int_of_pos p) + 1
let int_of_z = function Z0 -> 0 | Zpos p -> int_of_pos p | Zneg p -> - int_of_pos p
let rec pos_of_int n = if n = 1 then Coq_xH else if n land 1 = 0 then Coq_xO (pos_of_int (n lsr 1)) else Coq_xI (pos_of_int (n lsr 1))
let z_of_int n = if n = 0 then Z0 else if n > 0 then Zpos (pos_of_int n) else Zneg (pos_of_int (-n))

let is_graphic z = let r = int_of_z z in r >= 0 && r < 0x110000 && Bytes.get graphic r = '\001'
let is_letter z = let r = int_of_z z in (r >= 65 && r <= 90) || (r >= 97 && r <= 122)

let bytes_of_hex h = List.init (String.length h / 2) (fun i -> z_of_int (int_of_string ("0x" ^ String.sub h (2 * i) 2)))
let hex_of_bytes l = String.concat "" (List.map (fun z -> Printf.sprintf "%02x" (int_of_z z land 255)) l)

let () =
  load Sys.argv.(1);
  Zio.iter_lines (fun line ->
      match Zio.split_tab line with
      | id :: input :: _ ->
        let out =
          match Zio.split_sp input with
          | [ "S"; h ] ->
            let s = bytes_of_hex h in
            let t = inspect_string is_graphic s in
            hex_of_bytes t ^ (if lex_string_body is_letter t = Some s then "" else " MODEL-RT-FAIL")
          | [ "S" ] ->
            let t = inspect_string is_graphic [] in
            hex_of_bytes t ^ (if lex_string_body is_letter t = Some [] then "" else " MODEL-RT-FAIL")
          | [ "C"; n ] ->
            let c = z_of_int (int_of_string n) in
            let t = inspect_char is_graphic c in
            hex_of_bytes t ^ (if lex_char_body t = Some c then "" else " MODEL-RT-FAIL")
          | [ "I"; d ] ->
            let z = Zio.z_of_string d in
            let t = print_int z in
            hex_of_bytes t ^ (if eval_int_source t = Some z then "" else " MODEL-RT-FAIL")
          (* the model's READER applied to a text printed by the implementation *)
          | [ "LS"; h ] -> (match lex_string_body is_letter (bytes_of_hex h) with Some s -> "S " ^ hex_of_bytes s | None -> "none")
          | [ "LC"; h ] -> (match lex_char_body (bytes_of_hex h) with Some c -> "C " ^ string_of_int (int_of_z c) | None -> "none")
          | [ "LI"; h ] -> (match eval_int_source (bytes_of_hex h) with Some z -> "I " ^ Zio.string_of_z z | None -> "none")
          | _ -> "bad-input"
        in
        print_string (id ^ "\t" ^ out ^ "\n")
      | _ -> ())
