(* C25 model driver.  argv[1] = "1" (fixed wrappers, default) | "0" (wrappers as found).
   stdin  "<id>\t<kind> [params] | op op ..."     stdout "<id>\t<outcome> <outcome> ..."
   kinds and ops:
     chan c0,c1,..  | push:<ch>:<v> pop:<ch> next:<ch> close:<ch> rdv:<ch>:<v>
                      sel:<cases>:<dflt 0/1>:<choice index or d>   cases = S<ch>=<v> or R<ch>, comma separated
     mutex          | lock unlock
     rw             | lock unlock rlock runlock
     wg             | add:<n> rem:<n> start end wait
     once           | call
     sched <mutex|rw|ro> | <thread>:<op> ...   (controlled multi-thread script, Model/C25_Sched.v; `sched-early rw`
                      = the refuted ReadLock variant): one token per step `<ok|err:c|blocked|busy>[+woken threads]`,
                      then `end:<blocked threads>`; the alternatives (which blocked writer is served) are joined by " || "
   outcomes: ok  ok:<v>  err:<code>  panic:<code>  fatal:<code>  blocked  (ran / skip for once);
   evaluation of a sequence stops after blocked, panic or fatal (the caller is gone).
   Every call is executed by the extracted step functions of Model/C25_Sync.v. *)
open C25_Sync

let rec nat_of_int i = if i <= 0 then Datatypes.O else Datatypes.S (nat_of_int (i - 1))
let rec int_of_nat n = match n with Datatypes.O -> 0 | Datatypes.S m -> 1 + int_of_nat m
let z = Zio.z_of_string
let zs = Zio.string_of_z

let show (o : obs) : string =
  match o with
  | OOk None -> "ok"
  | OOk (Some v) -> "ok:" ^ zs v
  | OErr c -> "err:" ^ zs c
  | OPanic c -> "panic:" ^ zs c
  | OFatal c -> "fatal:" ^ zs c
  | OBlocked -> "blocked"

let stops (o : obs) = match o with OPanic _ | OFatal _ | OBlocked -> true | _ -> false

let parse_case (s : string) : scase =
  if s.[0] = 'S' then
    match String.split_on_char '=' (String.sub s 1 (String.length s - 1)) with
    | [ ch; v ] -> SSend (nat_of_int (int_of_string ch), z v)
    | _ -> failwith ("bad case " ^ s)
  else SRecv (nat_of_int (int_of_string (String.sub s 1 (String.length s - 1))))

let parse_cact (tok : string) : cact =
  match String.split_on_char ':' tok with
  | [ "push"; ch; v ] -> CPush (nat_of_int (int_of_string ch), z v)
  | [ "pop"; ch ] -> CPop (nat_of_int (int_of_string ch))
  | [ "next"; ch ] -> CNext (nat_of_int (int_of_string ch))
  | [ "close"; ch ] -> CClose (nat_of_int (int_of_string ch))
  | [ "rdv"; ch; v ] -> CRdv (nat_of_int (int_of_string ch), z v, nat_of_int 1)
  | [ "sel"; cases; dflt; choice ] ->
      let cs = if cases = "" then [] else List.map parse_case (String.split_on_char ',' cases) in
      CSelect (cs, dflt = "1", if choice = "d" then None else Some (nat_of_int (int_of_string choice)))
  | _ -> failwith ("bad chan op " ^ tok)

(* ---- controlled scripts *)
let show_threads (ts : int list) : string =
  if ts = [] then "-" else String.concat "," (List.map string_of_int (List.sort compare ts))

let show_sres (r : C25_Sched.sres) : string =
  let imm =
    match r.C25_Sched.sr_imm with
    | C25_Sched.IOk -> "ok"
    | C25_Sched.IErr c -> "err:" ^ zs c
    | C25_Sched.IBlocked -> "blocked"
    | C25_Sched.IBusy -> "busy"
  in
  match r.C25_Sched.sr_woken with [] -> imm | w -> imm ^ "+" ^ show_threads (List.map int_of_nat w)

let uniq (l : string list) : string list =
  List.fold_left (fun acc x -> if List.mem x acc then acc else acc @ [ x ]) [] l

let sched_case (kind : string list) (steps : string list) : string =
  let parse tok =
    match String.split_on_char ':' tok with
    | [ t; op ] -> (nat_of_int (int_of_string t), op)
    | _ -> failwith ("bad step " ^ tok)
  in
  let steps = List.map parse steps in
  let render toks blocked = String.concat " " (List.map show_sres toks @ [ "end:" ^ show_threads (List.map int_of_nat blocked) ]) in
  let rw early =
    let script =
      List.map
        (fun (t, op) ->
          ( t,
            match op with
            | "lock" -> C25_Sched.SLock
            | "unlock" -> C25_Sched.SUnlock
            | "rlock" -> C25_Sched.SRLock
            | "runlock" -> C25_Sched.SRUnlock
            | _ -> failwith op ))
        steps
    in
    String.concat " || "
      (uniq (List.map (fun (toks, st) -> render toks (C25_Sched.sblocked st)) (C25_Sched.srun early script C25_Sched.sinit)))
  in
  match kind with
  | [ "sched"; ("rw" | "ro") ] -> rw false
  | [ "sched-early"; ("rw" | "ro") ] -> rw true
  | [ "sched"; "mutex" ] ->
      let script = List.map (fun (t, op) -> (t, match op with "lock" -> MOLock | "unlock" -> MOUnlock | _ -> failwith op)) steps in
      String.concat " || "
        (uniq (List.map (fun (toks, st) -> render toks st.C25_Sched.x_blk) (C25_Sched.xrun script C25_Sched.xinit)))
  | _ -> failwith "bad sched kind"

let run_seq (step : 'st -> string -> 'st * obs) (init : 'st) (ops : string list) : string =
  let st = ref init in
  let out = ref [] in
  let stop = ref false in
  List.iter
    (fun tok ->
      if not !stop then begin
        let st', o = step !st tok in
        st := st';
        out := show o :: !out;
        if stops o then stop := true
      end)
    ops;
  String.concat " " (List.rev !out)

let case fx (input : string) : string =
  let head, ops =
    match Str.split (Str.regexp_string "|") input with
    | [ h ] -> (Zio.split_sp h, [])
    | [ h; o ] -> (Zio.split_sp h, Zio.split_sp o)
    | _ -> failwith "bad input"
  in
  match head with
  | ("sched" | "sched-early") :: _ -> sched_case head ops
  | [ "chan"; caps ] ->
      let capa = Array.of_list (List.map int_of_string (String.split_on_char ',' caps)) in
      let capf k = let i = int_of_nat k in nat_of_int (if i < Array.length capa then capa.(i) else 0) in
      run_seq (fun st tok -> c_call fx st Datatypes.O (parse_cact tok)) (cinit capf) ops
  | [ "mutex" ] ->
      run_seq (fun st tok -> m_call fx st (match tok with "lock" -> MOLock | "unlock" -> MOUnlock | _ -> failwith tok)) minit ops
  | [ "rw" ] ->
      run_seq
        (fun st tok ->
          r_call fx st
            (match tok with "lock" -> ROLock | "unlock" -> ROUnlock | "rlock" -> RORLock | "runlock" -> RORUnlock | _ -> failwith tok))
        rinit ops
  | [ "wg" ] ->
      run_seq
        (fun st tok ->
          w_call fx st
            (match String.split_on_char ':' tok with
            | [ "add"; n ] -> WAdd (z n)
            | [ "rem"; n ] -> WRemove (z n)
            | [ "start" ] -> WStart
            | [ "end" ] -> WEnd
            | [ "wait" ] -> WWait
            | _ -> failwith tok))
        winit ops
  | [ "once" ] ->
      let st = ref oinit in
      String.concat " "
        (List.map
           (fun _ ->
             let st', r = o_call !st in
             st := st';
             match r with Some true -> "ran" | Some false -> "skip" | None -> "blocked")
           ops)
  | _ -> failwith "bad kind"

let () =
  let fx = not (Array.length Sys.argv > 1 && Sys.argv.(1) = "0") in
  Zio.iter_lines (fun line ->
      match Zio.split_tab line with
      | id :: input :: _ ->
          let r = try case fx input with e -> "exn:" ^ Printexc.to_string e in
          print_string (id ^ "\t" ^ r ^ "\n")
      | _ -> ())
