(* C22 model driver. stdin: "<id>\t<input>" (see harness/cmd/c22/main.go for the input
   grammar); stdout: "<id>\t<expected observable>" computed by the extracted Coq model.
   The tokeniser for the format-string subset (the counterpart of value/timescanner for the
   modelled directives) lives here and is validated by the stream like the rest of the model. *)
open C22_Civil
open C22_Zone

let z = Zio.z_of_string
let zs = Zio.string_of_z
let ztab = Array.init 256 (fun i -> Zio.z_of_int i)

let str_to_model (s : string) = List.init (String.length s) (fun i -> ztab.(Char.code s.[i]))
let model_to_str l = String.concat "" (List.map (fun c -> String.make 1 (Char.chr (Zio.int_of_z c))) l)

let unhex s =
  if s = "-" then ""
  else String.init (String.length s / 2) (fun i -> Char.chr (int_of_string ("0x" ^ String.sub s (2 * i) 2)))

let enhex s =
  if s = "" then "-" else String.concat "" (List.init (String.length s) (fun i -> Printf.sprintf "%02x" (Char.code s.[i])))

exception Unmodelled

(* format string -> token list; text runs up to the next '%' like the Go scanner *)
let tokenize (f : string) : tok list =
  let n = String.length f in
  let rec go i acc =
    if i >= n then List.rev acc
    else if f.[i] = '%' then begin
      if i + 1 >= n then raise Unmodelled;
      let dir p c j =
        let t =
          match c with
          | 'Y' -> TYear p | 'C' -> TCent p | 'y' -> TY2 p | 'm' -> TMonth p | 'd' -> TDay p | 'j' -> TYday p
          | _ -> raise Unmodelled
        in
        go j (t :: acc)
      in
      match f.[i + 1] with
      | '%' -> go (i + 2) (TText (str_to_model "%") :: acc)
      | 'n' -> go (i + 2) (TText (str_to_model "\n") :: acc)
      | 't' -> go (i + 2) (TText (str_to_model "\t") :: acc)
      | '-' -> if i + 2 >= n then raise Unmodelled else dir PNone f.[i + 2] (i + 3)
      | '_' -> if i + 2 >= n then raise Unmodelled else dir PSpace f.[i + 2] (i + 3)
      | 'e' -> go (i + 2) (TDay PSpace :: acc)
      | 'F' -> go (i + 2) (TIso :: acc)
      | 'D' -> go (i + 2) (TUS :: acc)
      | c -> dir PZero c (i + 2)
    end
    else begin
      let j = ref i in
      while !j < n && f.[!j] <> '%' do incr j done;
      go !j (TText (str_to_model (String.sub f i (!j - i))) :: acc)
    end
  in
  go 0 []

(* DateTime format strings: the date directives above plus %H %M %S (- _) %L %N %9N %T %R %z %:z *)
let ztokenize (f : string) : ztok list =
  let n = String.length f in
  let rec go i acc =
    if i >= n then List.rev acc
    else if f.[i] = '%' then begin
      if i + 1 >= n then raise Unmodelled;
      let time p c =
        match c with 'H' -> Some (ZHour p) | 'M' -> Some (ZMin p) | 'S' -> Some (ZSec p) | _ -> None
      in
      let date j = (* one date directive starting at i, ending before j *)
        match tokenize (String.sub f i (j - i)) with [t] -> ZD t | _ -> raise Unmodelled
      in
      let c1 = f.[i + 1] in
      let c2 = if i + 2 < n then f.[i + 2] else ' ' in
      match c1 with
      | ('-' | '_') -> (
          if i + 2 >= n then raise Unmodelled;
          match time (if c1 = '-' then PNone else PSpace) c2 with
          | Some t -> go (i + 3) (t :: acc)
          | None -> go (i + 3) (date (i + 3) :: acc))
      | 'L' -> go (i + 2) (ZMilli :: acc)
      | 'N' -> go (i + 2) (ZNano :: acc)
      | '9' when c2 = 'N' -> go (i + 3) (ZNano :: acc)
      | 'T' -> go (i + 2) (ZT :: acc)
      | 'R' -> go (i + 2) (ZR :: acc)
      | 'z' -> go (i + 2) (ZOff false :: acc)
      | ':' when c2 = 'z' -> go (i + 3) (ZOff true :: acc)
      | _ -> (
          match time PZero c1 with
          | Some t -> go (i + 2) (t :: acc)
          | None -> go (i + 2) (date (i + 2) :: acc))
    end
    else begin
      let j = ref i in
      while !j < n && f.[!j] <> '%' do incr j done;
      go !j (ZD (TText (str_to_model (String.sub f i (!j - i)))) :: acc)
    end
  in
  go 0 []

let show_z (t : zdt) =
  String.concat " " (List.map zs [t.zy; t.zm; t.zd; t.zH; t.zM; t.zS; t.zns; t.zoff; instant t])

let show3 ((y, m), d) = zs y ^ " " ^ zs m ^ " " ^ zs d
let show_bits b = show3 (unpack b)
let show_span (m, d) = zs m ^ " " ^ zs d

let show_parse = function
  | Datatypes.Coq_inr b -> "ok " ^ show_bits b
  | Datatypes.Coq_inl EFormat -> "err"
  | Datatypes.Coq_inl ENeedsNow -> "skip"

let dt_at (f : string array) k =
  mk_dt (z f.(k)) (z f.(k + 1)) (z f.(k + 2)) (z f.(k + 3)) (z f.(k + 4)) (z f.(k + 5)) (z f.(k + 6)) (z f.(k + 7))

let z0 = Zio.z_of_int 0

let show_zparse r orig =
  match r with
  | Datatypes.Coq_inr t -> (
      "ok " ^ show_z t
      ^ match orig with None -> "" | Some o -> if zs (zcmp t o) = "0" then " eq" else " ne")
  | Datatypes.Coq_inl EFormat -> "err"
  | Datatypes.Coq_inl ENeedsNow -> "skip"

let run (f : string array) : string =
  let i k = z f.(k) in
  match f.(0) with
  | "add" -> show_bits (add_span (pack (i 1) (i 2) (i 3)) (make_span Zio.(z_of_int 0) (i 4) (i 5)))
  | "sub" -> show_bits (sub_span (pack (i 1) (i 2) (i 3)) (make_span Zio.(z_of_int 0) (i 4) (i 5)))
  | "diff" -> show_span (diff (pack (i 1) (i 2) (i 3)) (pack (i 4) (i 5) (i 6)))
  | "diffadd" ->
      let a = pack (i 1) (i 2) (i 3) and b = pack (i 4) (i 5) (i 6) in
      show_bits (add_span a (diff b a))
  | "cmp" -> zs (cmp (pack (i 1) (i 2) (i 3)) (pack (i 4) (i 5) (i 6)))
  | "pack" -> show_bits (pack (i 1) (i 2) (i 3))
  | "span" -> show_span (span_of_parts (span_parts (make_span Zio.(z_of_int 0) (i 1) (i 2))))
  | "fmt" -> (
      try "ok " ^ enhex (model_to_str (format (tokenize (unhex f.(4))) (pack (i 1) (i 2) (i 3))))
      with Unmodelled -> "skip")
  | "parse" -> (
      try show_parse (parse (tokenize (unhex f.(1))) (str_to_model (unhex f.(2)))) with Unmodelled -> "skip")
  | "rt" -> (
      try
        let toks = tokenize (unhex f.(5)) in
        show_parse (parse toks (format toks (pack (i 2) (i 3) (i 4))))
      with Unmodelled -> "skip")
  | "zmk" -> show_z (dt_at f 1)
  | "zfmt" -> "ok " ^ enhex (model_to_str (zformat (ztokenize (unhex f.(9))) (dt_at f 1)))
  | "zparse" -> show_zparse (zparse (ztokenize (unhex f.(1))) (str_to_model (unhex f.(2)))) None
  | "zrt" ->
      let toks = ztokenize (unhex f.(9)) in
      let t = dt_at f 1 in
      show_zparse (zparse toks (zformat toks t)) (Some t)
  | "zcmp" -> zs (zcmp (dt_at f 1) (dt_at f 9))
  | "zin" -> show_z (in_zone (dt_at f 1) (i 9))
  | "zaddt" -> show_z (add_time (dt_at f 1) (i 9))
  | "zaddd" -> show_z (add_date (dt_at f 1) (make_span Zio.(z_of_int 0) (i 9) (i 10)))
  | _ -> "skip"

let () =
  Zio.iter_lines (fun line ->
      match Zio.split_tab line with
      | id :: input :: _ ->
          let f = Array.of_list (Zio.split_sp input) in
          let out = try run f with Unmodelled -> "skip" | Failure m -> "driver-failure " ^ m in
          print_string (id ^ "\t" ^ out ^ "\n")
      | _ -> ())
