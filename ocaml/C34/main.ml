(* C34 model driver. stdin: "<id>\t<input>" ; stdout: "<id>\t<observable>"
   input  := filter* ";" root            (tokens separated by one space, "~" stands for a space inside names,
                                           "^" for the empty string)
   filter := "P" pattern line | "G" regex
   root   := "R" ba be ae aa n kid^n     (hooks: - none, p pass, f fail, e error)
   kid    := "C" id name file l1 l2 out | "S" id name file l1 l2 ba be ae aa n kid^n
   observable: "exit=<0|1> ev=<sorted, comma separated tags: c<id> | ba<sid> | be<sid> | ae<sid> | aa<sid>>"
   With argument "legacy" the pre-fix filter combination is run instead (diagnostics only). *)
open C34_Filter

let coq_string_of (s : string) : BinNums.coq_Z list =
  List.init (String.length s) (fun i -> Zio.z_of_int (Char.code s.[i]))

let name_of tok =
  if tok = "^" then coq_string_of ""
  else coq_string_of (String.map (fun c -> if c = '~' then ' ' else c) tok)

let out_of = function "p" -> OPass | "f" -> OFail | "e" -> OError | s -> failwith ("outcome " ^ s)
let hook_of = function "-" -> None | s -> Some (out_of s)

exception Bad of string

let parse (toks : string list) =
  let rest = ref toks in
  let next () = match !rest with [] -> raise (Bad "eof") | t :: r -> rest := r; t in
  let z () = Zio.z_of_string (next ()) in
  let rec filters acc =
    match next () with
    | ";" -> List.rev acc
    | "P" -> let p = name_of (next ()) in let l = z () in filters (FPath (p, l) :: acc)
    | "G" -> let r = name_of (next ()) in filters (FGrep r :: acc)
    | t -> raise (Bad ("filter " ^ t))
  in
  let loc () = let f = name_of (next ()) in let a = z () in let b = z () in { lfile = f; lfirst = a; llast = b } in
  let rec kid () =
    match next () with
    | "C" ->
        let id = z () in let nm = name_of (next ()) in let lc = loc () in let o = out_of (next ()) in
        TCase { cid = id; cname = nm; cloc = lc; cout = o }
    | "S" ->
        let id = z () in let nm = name_of (next ()) in let lc = loc () in
        let ba = hook_of (next ()) in let be = hook_of (next ()) in let ae = hook_of (next ()) in let aa = hook_of (next ()) in
        let n = int_of_string (next ()) in
        let ks = kids n in
        TSuite ({ sid = id; sname = nm; sloc = lc; h_ba = ba; h_be = be; h_ae = ae; h_aa = aa }, ks)
    | t -> raise (Bad ("kid " ^ t))
  and kids n = if n <= 0 then [] else let k = kid () in k :: kids (n - 1) in
  let fs = filters [] in
  (match next () with "R" -> () | t -> raise (Bad ("root " ^ t)));
  let ba = hook_of (next ()) in let be = hook_of (next ()) in let ae = hook_of (next ()) in let aa = hook_of (next ()) in
  let n = int_of_string (next ()) in
  let ks = kids n in
  let root = { sid = Zio.z_of_string "0"; sname = coq_string_of ""; sloc = { lfile = coq_string_of ""; lfirst = Zio.z_of_string "0"; llast = Zio.z_of_string "0" };
               h_ba = ba; h_be = be; h_ae = ae; h_aa = aa } in
  (fs, root, ks)

let tag = function
  | EvCase (id, _) -> "c" ^ Zio.string_of_z id
  | EvHook (k, sid, _) ->
      (match k with HBeforeAll -> "ba" | HBeforeEach -> "be" | HAfterEach -> "ae" | HAfterAll -> "aa") ^ Zio.string_of_z sid

let () =
  let legacy = Array.length Sys.argv > 1 && Sys.argv.(1) = "legacy" in
  Zio.iter_lines (fun line ->
      match Zio.split_tab line with
      | id :: input :: _ -> (
          try
            let fs, root, ks = parse (Zio.split_sp input) in
            let evs, code =
              if legacy then legacy_run_tests glob_simple substrb fs root ks else run_tests_simple fs root ks in
            let tags = List.sort compare (List.map tag evs) in
            print_string (id ^ "\texit=" ^ Zio.string_of_z code ^ " ev=" ^ String.concat "," tags ^ "\n")
          with Bad m | Failure m -> print_string (id ^ "\tbad-input " ^ m ^ "\n"))
      | _ -> ())
