#!/bin/sh
# tools/altcheck.sh <repo-dir> <Cxx> [quick|thorough]
# Runs ./check Cxx against another checkout of elk (a scratch worktree with a candidate fix
# or a seeded defect) WITHOUT touching /repo: /verif is mirrored (with its build caches) to
# /tmp/verif-alt-<name>, the harness module is pointed at <repo-dir>, VERIF_REPO is set.
set -e
R=$(cd "$1" && pwd); P=$2; T=${3:-quick}
A=/tmp/verif-alt-$(basename "$R")
mkdir -p "$A"
rsync -a --delete --exclude .git --exclude 'replay/' --exclude '.build/work' /verif/ "$A"/ || [ $? -eq 24 ]
sed -i "s|=> /repo|=> $R|" "$A/harness/go.mod"
cd "$A" && VERIF_REPO="$R" ./check "$P" --tier "$T"
