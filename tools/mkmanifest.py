#!/usr/bin/env python3
"""Regenerates MANIFEST.json from tools/claims.json (one entry per claimed property).
Properties without a claim entry are listed under not_applicable with the stated reason."""
import json, os
ROOT = os.path.dirname(os.path.dirname(os.path.abspath(__file__)))
claims = json.load(open(os.path.join(ROOT, "tools", "claims.json")))
cd = os.path.join(ROOT, "tools", "claims")
for f in sorted(os.listdir(cd)):
    if f.endswith(".json"):
        claims["claims"][f[:-5]] = json.load(open(os.path.join(cd, f)))
props = [json.loads(l) for l in open(os.path.join(ROOT, "properties.jsonl"))]
checks = []
na = []
for p in props:
    pid = p["id"]
    c = claims["claims"].get(pid)
    if c and pid not in claims.get("ready", []):
        c = None
    if not c:
        na.append({"property_id": pid, "reason": claims["unclaimed"].get(pid, "no check built yet; see DESIGN.md section 5 for the planned model - not claimed until the check exists and passes on the unchanged tree")})
        continue
    checks.append({
        "property_id": pid,
        "quick_cmd": "./check %s --tier quick" % pid,
        "thorough_cmd": "./check %s --tier thorough" % pid,
        "evidence_file": "/verif/evidence/%s.json" % pid,
        "replay_cmd_template": "./check %s --replay {path}" % pid,
        "engine": "coq-model+correspondence",
        "level_claimed": {"category": c.get("category", "proof"), "text": c["text"], "design_ref": "DESIGN.md section 5, %s" % pid},
        "level_note": c["note"],
        "technique": c["technique"],
    })
m = {
    "version": 1,
    "setup_cmd": "./setup.sh",
    "hooks": {
        "guard": "verif",
        "enable": "go build -tags verif (harness module /verif/harness with replace github.com/elk-language/elk => /repo)",
        "baseline_off_cmd": "cd /repo && go test -mod=mod -json -vet=off -count=1 -timeout 25m ./...",
        "source_commits": claims.get("hook_commits", []),
        "add_only": True,
    },
    "engines": [
        {"name": "coq-model+correspondence", "path": "/verif/check",
         "serves_properties": [c["property_id"] for c in checks],
         "kind_free_text": "Coq 8.16.1 theorems over hand-written executable Gallina models (coq/), extracted to OCaml and run against the Go implementation built from /repo on the same seeded inputs (harness/), driven by ./check"}
    ],
    "checks": checks,
    "not_applicable": na,
    "notes": "fix: commits in /repo are listed in known_findings.json under `fixed`; hook commits under hooks.source_commits",
}
json.dump(m, open(os.path.join(ROOT, "MANIFEST.json"), "w"), indent=1)
print("claimed", len(checks), "unclaimed", len(na))
