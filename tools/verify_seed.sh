#!/bin/bash
# tools/verify_seed.sh <sid> <Cxx> [skiptests]
# Confirms a seeded defect delivered in /tmp/seed-out/<sid>/ (patch.diff, demo.sh, meta.json):
# builds, demo passes on clean HEAD and fails with the patch, the repo's suite passes with the
# patch, then runs ./check Cxx against the patched tree (altcheck). Keeps it under /verif/seeded/<sid>/.
SID=$1; P=$2; SKIP=$3
SRC=/tmp/seed-out/$SID
[ -f $SRC/patch.diff ] || { echo "no patch for $SID"; exit 2; }
A=/tmp/seedv-$SID-clean; B=/tmp/seedv-$SID
git -C /repo worktree remove --force $A 2>/dev/null; git -C /repo worktree remove --force $B 2>/dev/null
git -C /repo worktree add -q $A HEAD; git -C /repo worktree add -q $B HEAD
R="{}"
cd $B
if ! git apply $SRC/patch.diff; then echo "RESULT $SID patch-does-not-apply"; git -C /repo worktree remove --force $A; git -C /repo worktree remove --force $B; exit 3; fi
export GOPROXY=off
BUILD=fail; (cd $B && go build ./... ) > /tmp/seedv-$SID.build.log 2>&1 && BUILD=ok
chmod +x $SRC/demo.sh
( cd $SRC && timeout 1800 ./demo.sh $A ) > /tmp/seedv-$SID.demo_clean.log 2>&1; DC=$?
( cd $SRC && timeout 1800 ./demo.sh $B ) > /tmp/seedv-$SID.demo_mod.log 2>&1; DM=$?
TESTS=skipped
if [ -z "$SKIP" ]; then
  (cd $B && go test -vet=off -count=1 -timeout 40m ./... ) > /tmp/seedv-$SID.test.log 2>&1 && TESTS=ok || {
    if grep -q "^FAIL.*elk/vm" /tmp/seedv-$SID.test.log && [ $(grep -c "^FAIL" /tmp/seedv-$SID.test.log) -le 2 ]; then
      (cd $B && go test -vet=off -count=1 -timeout 40m ./vm/ ) > /tmp/seedv-$SID.test2.log 2>&1 && TESTS=ok-after-vm-rerun || TESTS=fail
    else TESTS=fail; fi; }
fi
git -C $B status --short | grep -v '^ M' | head -3
/verif/tools/altcheck.sh $B $P quick > /tmp/seedv-$SID.check.log 2>&1; CRC=$?
NV=$(grep -c '^VIOLATION' /tmp/seedv-$SID.check.log)
NF=$(grep -c 'no-failing-input-found' /tmp/seedv-$SID.check.log)
echo "RESULT $SID prop=$P build=$BUILD demo_clean_rc=$DC demo_mod_rc=$DM tests=$TESTS check_rc=$CRC violations=$NV no_input=$NF"
mkdir -p /verif/seeded/$SID
cp -r $SRC/* /verif/seeded/$SID/ 2>/dev/null
python3 - <<PY
import json
p='/verif/seeded/$SID/meta.json'
try: m=json.load(open(p))
except Exception: m={}
m['verified_by_integrator']={'head':'$(git -C /repo log --format=%h -1)','build':'$BUILD','demo_on_clean_rc':$DC,'demo_on_modified_rc':$DM,'repo_tests_with_patch':'$TESTS','check':'tools/altcheck.sh <patched worktree> $P quick','check_rc':$CRC,'violation_lines':$NV,'no_failing_input_found':$NF,'first_violation':open('/tmp/seedv-$SID.check.log').read().split('VIOLATION')[1][:200] if $NV else ''}
json.dump(m,open(p,'w'),indent=1)
PY
git -C /repo worktree remove --force $A; git -C /repo worktree remove --force $B; rm -rf /tmp/verif-alt-seedv-$SID; git -C /repo worktree prune
