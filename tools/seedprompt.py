#!/usr/bin/env python3
"""print the prompt for a seeding sub-agent: tools/seedprompt.py Cxx <variant-letter>"""
import json, sys
pid, var = sys.argv[1], (sys.argv[2] if len(sys.argv) > 2 else "a")
rec = [json.loads(l) for l in open("/verif/properties.jsonl") if json.loads(l)["id"] == pid][0]
sid = "%s%s" % (pid, var)
hint = {
 "a": "Prefer a change whose effect needs an unusual input or a boundary value to manifest.",
 "b": "Prefer a change that needs a multi-step sequence of operations, a particular interleaving/configuration, or two cooperating edits that each look harmless alone.",
}.get(var, "")
print(f"""You are a software engineer asked to produce a *seeded defect* for a mutation-style evaluation of a verification effort. You work ONLY inside your own scratch git worktree of the Elk language implementation (Go): create it with `git -C /repo worktree add /tmp/seedwt-{sid} HEAD` and work in /tmp/seedwt-{sid}. Never modify /repo itself, never commit anywhere, and do NOT read or list anything under /verif (your result must be independent of the existing verification machinery). Do not spawn sub-agents.

The semantic property (all you get):
{json.dumps(rec, indent=1)}

Task: make a small, realistic-looking change to the Elk sources in your worktree (the kind of regression a plausible refactoring, optimisation or bug-fix attempt could introduce — NOT an obvious sabotage like `panic("x")`, and not a change to tests, headers generators or build files) such that
 1. the code still compiles (`cd /tmp/seedwt-{sid} && GOPROXY=off go build ./...`),
 2. the repository's existing test suite still passes unedited: run at least the packages your change can affect, e.g. `cd /tmp/seedwt-{sid} && GOPROXY=off go test -vet=off -count=1 ./value/... ./vm/... ./compiler/... ./types/... ./parser/... ./lexer/... ./regex/... ./bytecode/... ./ext/...` (vm ≈ 2-4 min; the machine may be loaded; one vm test `TestVMSource_Go` was historically flaky under load — rerun once before concluding). Do not use -mod=mod inside the worktree (it rewrites go.mod); plain `go build`/`go test` with GOPROXY=off works.
 3. the property above is violated for some input/program/history/schedule — but NOT by ordinary use: it must need something specific to manifest. {hint}
 4. you have a demonstration: an executable shell script `demo.sh` taking the path of an elk checkout as `$1`, which builds what it needs from that checkout (e.g. `cd "$1" && GOPROXY=off go build -o /tmp/seed-{sid}-elk ./cmd/elk` then runs a small Elk program with `ELKPATH="$1" ELKWARN=0 /tmp/seed-{sid}-elk run prog.elk`, or copies a Go test file into a package of `$1`, runs `go test -run TestSeedDemo ./pkg/` and removes the file again) and exits 0 when the property holds on that checkout and non-zero (printing what went wrong) when it is violated. It must FAIL on your modified worktree and PASS on an unmodified checkout (verify both: create a second clean worktree `/tmp/seedwt-{sid}-clean` for that and remove it afterwards). Keep demo programs next to demo.sh and reference them relative to the script's own directory.
Useful facts: Elk programs run with `ELKPATH=<checkout> ELKWARN=0 <elk-binary> run file.elk`; syntax examples are plentiful in <checkout>/vm/*_test.go; `println(x.inspect)` prints values; tests for the test runner are `*.elk.test` run with `elk test`.

Deliver into the directory /tmp/seed-out/{sid}/ (create it): `patch.diff` (output of `git -C /tmp/seedwt-{sid} diff` — source changes only), `demo.sh` (+ any files it needs), and `meta.json` with keys: "property" ("{pid}"), "summary" (one sentence: what was changed), "manifests_when" (what specific input/sequence/configuration is needed for the violation to show), "why_tests_pass" (why the existing suite does not notice), "ran" (the commands you ran and their outcomes: build, which test packages passed, demo on modified = fail, demo on clean = pass). Finally remove both worktrees (`git -C /repo worktree remove --force /tmp/seedwt-{sid}`; same for -clean) and any binaries you left in /tmp. Your final message: the meta.json content plus anything the integrator should know. If after a serious attempt you cannot find a change satisfying all four points, say so plainly instead of delivering a weak one.""")
