#!/usr/bin/env python3
"""tools/c03_rekey.py <log>...  — maintenance helper (never run by a check): after the C03 harness changed
how non-terminating recursions are named, rebuild the generator-d part of known_findings.d/C03.json from
run logs: keep listed keys that a run still reports, add the keys of the replay files, drop timeout /
stack-overflow keys that no run produces any more (they were sampling artefacts of the old naming)."""
import sys, re, json, glob, os
ROOT = os.path.dirname(os.path.dirname(os.path.abspath(__file__)))
p = os.path.join(ROOT, "known_findings.d", "C03.json")
d = json.load(open(p)); L = d["findings"]
seen = set()
for lg in sys.argv[1:]:
    for l in open(lg):
        m = re.search(r"\[(front:[^\]]+)\]\s*$", l)
        if l.startswith("KNOWN-FINDING") and m:
            seen.add(m.group(1))
new = {}
for f in sorted(glob.glob("/tmp/c03keys/*.json")):
    r = json.load(open(f))
    if "key" in r:
        new.setdefault(r["key"], r)
keep = []
for e in L:
    k = e["key"]
    unstable = (":timeout:" in k or k.endswith(":stack-overflow"))
    if unstable and k not in seen:
        continue
    keep.append(e)
have = {e["key"] for e in keep}
lines = []
for k, r in sorted(new.items()):
    if k in have:
        continue
    site = k.split(":", 3)[3]
    if ":recursion:" in k:
        what = "the checker recurses without bound (ends in the CPU watchdog or in Go's stack overflow, depending on timing) through %s" % site
    elif ":timeout:" in k:
        what = "the checker does not terminate at %s" % site
    elif ":fatal:" in k:
        what = "the checker kills the process at %s" % site
    else:
        what = "the checker panics at %s" % site
    keep.append({"property": "C03", "key": k, "what": "declaration-level program (generator d; witness in the corpus, not minimised): " + what, "replay": "corpus/C03.front.txt"})
    lines.append("#witness %s %s" % (k, r["case"]))
d["findings"] = keep
json.dump(d, open(p, "w"), indent=1)
if lines:
    open(os.path.join(ROOT, "corpus", "C03.front.txt"), "a").write("\n".join(lines) + "\n")
print("kept", len(keep), "added", len(lines), "dropped", len(L) - (len(keep) - len(lines)))
