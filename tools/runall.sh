#!/bin/sh
# tools/runall.sh [tier] Cxx...   — run checks sequentially, one summary line each
T=$1; shift
cd /verif
for P in "$@"; do
  S=$(date +%s)
  ./check "$P" --tier "$T" > /tmp/runall_$P.log 2>&1; RC=$?
  E=$(date +%s)
  echo "$P rc=$RC wall=$((E-S))s viol=$(grep -c '^VIOLATION' /tmp/runall_$P.log) known=$(grep -c '^KNOWN-FINDING' /tmp/runall_$P.log)"
done
