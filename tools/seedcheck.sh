#!/bin/sh
# tools/seedcheck.sh <seeded-id> <Cxx> [tier]  — apply /verif/seeded/<id>/patch.diff to a scratch
# worktree of /repo HEAD, run ./check Cxx against it (via altcheck), report, clean up.
set -u
ID=$1; P=$2; T=${3:-quick}
W=/tmp/seedwt-$ID
git -C /repo worktree remove --force "$W" 2>/dev/null
git -C /repo worktree add -q "$W" HEAD || exit 2
PATCH=/verif/seeded/"$ID"/patch.diff; [ -f /verif/seeded/"$ID"/patch-rebased.diff ] && PATCH=/verif/seeded/"$ID"/patch-rebased.diff
if ! git -C "$W" apply "$PATCH"; then echo "PATCH DOES NOT APPLY"; git -C /repo worktree remove --force "$W"; exit 3; fi
/verif/tools/altcheck.sh "$W" "$P" "$T"; RC=$?
echo "seedcheck $ID $P rc=$RC"
git -C /repo worktree remove --force "$W"; rm -rf /tmp/verif-alt-seedwt-"$ID"; git -C /repo worktree prune
exit $RC
