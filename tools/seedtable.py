#!/usr/bin/env python3
"""Regenerate seeded/README.md from seeded/*/meta.json (+ seeded/status.json kept by the integrator)."""
import json, os, glob
ROOT = os.path.dirname(os.path.dirname(os.path.abspath(__file__)))
st = json.load(open(os.path.join(ROOT, "seeded", "status.json")))
rows = []
for d in sorted(glob.glob(os.path.join(ROOT, "seeded", "C*"))):
    sid = os.path.basename(d)
    try:
        m = json.load(open(os.path.join(d, "meta.json")))
    except Exception:
        continue
    v = m.get("verified_by_integrator", {})
    s = st.get(sid, {})
    rows.append((sid, m.get("property", "?"), (m.get("summary") or "").replace("\n", " ")[:230],
                 "demo clean rc=%s / modified rc=%s; repo tests: %s" % (v.get("demo_on_clean_rc"), v.get("demo_on_modified_rc"), v.get("repo_tests_with_patch")),
                 s.get("first", "caught" if v.get("check_rc") == 1 else "missed"), s.get("now", ""), s.get("note", "")))
out = ["# Seeded defects (mutation-style test of the checks)", "",
       "Each directory holds `patch.diff` (applies to a worktree of /repo; `patch-rebased.diff` where /repo moved on), the",
       "independent reviewer's demonstration (`demo.sh <checkout>`: exit 0 = property holds) and `meta.json` (what it breaks, what it needs to",
       "manifest, what was run, and the integrator's own verification block). None of these changes is committed to /repo.",
       "Run one with `tools/seedcheck.sh <id> <Cxx>`. `first` = verdict of the check as it was when the defect arrived;",
       "`now` = after strengthening the check (class-wise, never by special-casing the seeded input).", "",
       "| id | property | change | confirmed | first | now | note |", "|---|---|---|---|---|---|---|"]
for r in rows:
    out.append("| " + " | ".join(str(x).replace("|", "\\|") for x in r) + " |")
open(os.path.join(ROOT, "seeded", "README.md"), "w").write("\n".join(out) + "\n")
print(len(rows), "rows")
