#!/bin/sh
# tools/applyfix.sh <slug>  — apply /verif/fixes/<slug>.patch to /repo and commit ONLY the files the patch touches
set -e
F=/verif/fixes/$1
cd /repo
FILES=$(git apply --numstat "$F.patch" | awk '{print $3}')
git apply --3way "$F.patch"
git reset -q
git add -- $FILES
git commit -q -F "$F.msg"
echo "OK $1 $(git log --format=%h -1)"
git status --short | head
