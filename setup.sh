#!/bin/sh
# Build the framework from files on disk only (offline). Full .vo build, no -vos.
set -e
cd "$(dirname "$0")"
export GOFLAGS=-mod=mod GOPROXY=off
mkdir -p .build evidence replay
cp /repo/go.sum harness/go.sum 2>/dev/null || true
# regenerate the tables under coq/Gen/ (git-ignored) from /repo before the full build
python3 - <<'PY'
import sys, os, importlib.util
sys.path.insert(0, "lib")
import vlib
for f in sorted(os.listdir("checks")):
    if not f.endswith(".py"):
        continue
    if "def setup_gen" not in open(os.path.join("checks", f)).read():
        continue
    spec = importlib.util.spec_from_file_location("check_" + f[:-3], os.path.join("checks", f))
    mod = importlib.util.module_from_spec(spec)
    try:
        spec.loader.exec_module(mod)
        mod.setup_gen()
        print("gen ok", f)
    except Exception as e:
        print("WARN gen", f, repr(e)[:300])
vlib.regen_coqproject()
PY
(cd coq && coq_makefile -f _CoqProject -o Makefile.coq >/dev/null && timeout 7200 make -k -f Makefile.coq -j16 >/dev/null 2>.build_err.log || { echo 'WARN: some .vo did not build:'; grep -E '^File|Error' .build_err.log | head -20; })
python3 - <<'PY'
import sys, os
sys.path.insert(0, "lib")
import vlib
vlib.build_elk()
for d in sorted(os.listdir("harness/cmd")):
    try:
        vlib.build_harness(d)
    except vlib.BuildError as e:
        print("WARN harness", d, str(e)[:500])
for d in sorted(os.listdir("ocaml")):
    if d != "common" and os.path.exists(os.path.join("coq", "ExtractRun", d + ".v")):
        try:
            vlib.build_model(d)
        except vlib.BuildError as e:
            print("WARN model", d, str(e)[:500])
PY
echo setup done
