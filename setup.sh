#!/bin/sh
# Build the framework from files on disk only (offline). Full .vo build, no -vos.
set -e
cd "$(dirname "$0")"
export GOFLAGS=-mod=mod GOPROXY=off
mkdir -p .build evidence replay
cp /repo/go.sum harness/go.sum 2>/dev/null || true
(cd coq && coq_makefile -f _CoqProject -o Makefile.coq >/dev/null && timeout 7200 make -f Makefile.coq -j16 >/dev/null 2>.build_err.log || { tail -50 .build_err.log; exit 1; })
python3 - <<'PY'
import sys, os
sys.path.insert(0, "lib")
import vlib
vlib.build_elk()
for d in sorted(os.listdir("harness/cmd")):
    try:
        vlib.build_harness(d)
    except vlib.BuildError as e:
        print("WARN harness", d, str(e)[:500])
for d in sorted(os.listdir("ocaml")):
    if d != "common" and os.path.exists(os.path.join("coq", "ExtractRun", d + ".v")):
        try:
            vlib.build_model(d)
        except vlib.BuildError as e:
            print("WARN model", d, str(e)[:500])
PY
echo setup done
