// c14: dumps the catch tables of compiled programs.
// usage: h_c14 -list files.txt   (lines "<id>\t<path of .elk file>")
// For every bytecode function reachable from the compiled main function (value pools, walked
// recursively) that has at least one catch entry, prints
//   "<id>/<n>\tT <NIL> <JUMP> <UNDEFINED> ; from to jump fin ; ... ; <instruction bytes>\t<function name>"
// which the extracted checker (ocaml/C14) judges: laminar, post_order, finally-entry shape.
package main

import (
	"bufio"
	"flag"
	"fmt"
	"os"
	"strings"

	"verifharness/hx"

	"github.com/elk-language/elk/bitfield"
	"github.com/elk-language/elk/bytecode"
	"github.com/elk-language/elk/types/checker"
	"github.com/elk-language/elk/vm"
)

func walk(fn *vm.BytecodeFunction, seen map[*vm.BytecodeFunction]bool, out *[]*vm.BytecodeFunction) {
	if fn == nil || seen[fn] {
		return
	}
	seen[fn] = true
	*out = append(*out, fn)
	for _, v := range fn.Values {
		if !v.IsReference() {
			continue
		}
		switch r := v.AsReference().(type) {
		case *vm.BytecodeFunction:
			walk(r, seen, out)
		}
	}
}

func dump(fn *vm.BytecodeFunction) string {
	var b strings.Builder
	fmt.Fprintf(&b, "T %d %d %d ;", int(bytecode.NIL), int(bytecode.JUMP), int(bytecode.UNDEFINED))
	for _, e := range fn.CatchEntries {
		f := 0
		if e.Finally {
			f = 1
		}
		fmt.Fprintf(&b, " %d %d %d %d ;", e.From, e.To, e.JumpAddress, f)
	}
	for _, x := range fn.Instructions {
		fmt.Fprintf(&b, " %d", int(x))
	}
	return b.String()
}

func main() {
	list := flag.String("list", "", "file with id<TAB>path lines")
	flag.Parse()
	f, err := os.Open(*list)
	if err != nil {
		fmt.Fprintln(os.Stderr, err)
		os.Exit(2)
	}
	defer f.Close()
	sc := bufio.NewScanner(f)
	sc.Buffer(make([]byte, 1<<20), 1<<26)
	for sc.Scan() {
		parts := strings.Split(sc.Text(), "\t")
		if len(parts) < 2 {
			continue
		}
		id, path := parts[0], parts[1]
		var fns []*vm.BytecodeFunction
		res := hx.Guard(func() string {
			main, diags := checker.CheckFile(path, nil, bitfield.BitField16{}, nil)
			if diags != nil && diags.IsFailure() {
				return "reject"
			}
			walk(main, map[*vm.BytecodeFunction]bool{}, &fns)
			return "ok"
		})
		if res != "ok" {
			fmt.Fprintf(os.Stderr, "%s: %s\n", id, res)
			continue
		}
		for n, fn := range fns {
			if len(fn.CatchEntries) == 0 {
				continue
			}
			hx.Emit(fmt.Sprintf("%s/%d", id, n), dump(fn), fn.Name().String())
		}
	}
	hx.Flush()
}
