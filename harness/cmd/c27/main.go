// c27: correspondence stream c27.sessions. Drives REPL sessions IN-PROCESS through exactly the
// calls repl.evaluate makes (repl/repl.go:56-128): one checker.New() with
// SetAdditionalAbortChecks(true) + SetIncremental(true), one vm.New(), and per input
//   fn, dl := checker.CheckSourceBytecode("<repl:k>", input); if dl != nil { failure := dl.IsFailure();
//   checker.ClearErrors(); if failure { next input } }; vm.InterpretREPL(fn); on error PrintError+ResetError.
// (The signal/abort plumbing of evaluate is left out: the generated inputs terminate.)
//
// input   : a JSON array of strings, the inputs of one session, in order
// observed: a JSON array, one object per input:
//   {"st":"ok"|"rej"|"err"|"parse"|"panic", "out":<stdout of that input>, "val":<inspect of the value>,
//    "diag":[<failure messages>], "err":<inspect of the runtime error>, "sp":<value stack height after the input>}
// After a Go panic the session is abandoned (remaining inputs get st "skipped").
// With -extra digest every object also carries "env": a digest of the checker's visible environment
// (hook types/checker/verif_c27.go) taken after the input.
package main

import (
	"bytes"
	"encoding/json"
	"fmt"
	"os"
	"runtime/debug"
	"strings"

	"verifharness/hx"

	"github.com/elk-language/elk/types/checker"
	"github.com/elk-language/elk/value"
	"github.com/elk-language/elk/vm"
)

type res struct {
	St   string   `json:"st"`
	Out  string   `json:"out"`
	Val  string   `json:"val,omitempty"`
	Diag []string `json:"diag,omitempty"`
	Err  string   `json:"err,omitempty"`
	Sp   int      `json:"sp"`
	Env  string   `json:"env,omitempty"`
}

var withDigest bool

func stripColor(s string) string {
	var sb strings.Builder
	in := false
	for i := 0; i < len(s); i++ {
		c := s[i]
		if in {
			if c == 'm' {
				in = false
			}
			continue
		}
		if c == 0x1b {
			in = true
			continue
		}
		sb.WriteByte(c)
	}
	return sb.String()
}

func runSession(inputs []string) []res {
	var stdout, stderr bytes.Buffer
	tc := checker.New()
	tc.SetAdditionalAbortChecks(true)
	tc.SetIncremental(true)
	th := vm.New(vm.WithStdout(&stdout), vm.WithStderr(&stderr))
	out := make([]res, 0, len(inputs))
	dead := false
	for k, input := range inputs {
		if dead {
			out = append(out, res{St: "skipped"})
			continue
		}
		stdout.Reset()
		stderr.Reset()
		r := func() (r res) {
			defer func() {
				if p := recover(); p != nil {
					msg := fmt.Sprint(p)
					if i := strings.IndexByte(msg, '\n'); i >= 0 {
						msg = msg[:i]
					}
					st := string(debug.Stack())
					where := ""
					for _, l := range strings.Split(st, "\n") {
						if strings.Contains(l, "/elk/") && !strings.Contains(l, "verifharness") && strings.Contains(l, ".go:") {
							where = strings.TrimSpace(l)
							if i := strings.LastIndex(where, "/elk/"); i >= 0 {
								where = where[i+5:]
							}
							if i := strings.IndexByte(where, ' '); i >= 0 {
								where = where[:i]
							}
							break
						}
					}
					r = res{St: "panic", Err: msg + " @ " + where, Out: stdout.String()}
					dead = true
				}
			}()
			name := fmt.Sprintf("<repl:%d>", k)
			fn, dl := tc.CheckSourceBytecode(name, input)
			if dl != nil {
				failure := dl.IsFailure()
				var msgs []string
				for _, d := range dl {
					if d.Severity == 0 { // diagnostic.FAILURE
						msgs = append(msgs, stripColor(d.Message))
					}
				}
				tc.ClearErrors()
				if failure {
					st := "rej"
					if fn == nil && len(msgs) > 0 && strings.Contains(strings.Join(msgs, " "), "unexpected") {
						st = "parse"
					}
					return res{St: st, Diag: msgs}
				}
			}
			v, e := th.InterpretREPL(fn)
			if !e.IsUndefined() {
				r := res{St: "err", Out: stdout.String(), Err: stripColor(e.Inspect())}
				th.ResetError()
				return r
			}
			return res{St: "ok", Out: stdout.String(), Val: stripColor(v.Inspect())}
		}()
		if !dead {
			r.Sp = len(th.ValueStack())
			if withDigest {
				r.Env = envDigest(tc)
			}
		}
		out = append(out, r)
	}
	_ = value.Undefined
	return out
}

func main() {
	o := hx.ParseFlags()
	withDigest = strings.Contains(o.Extra, "digest")
	fullDigest = strings.Contains(o.Extra, "full")
	inputs := hx.ReadInputs(o.Input)
	for i, in := range inputs {
		var sess []string
		if err := json.Unmarshal([]byte(in), &sess); err != nil {
			fmt.Fprintln(os.Stderr, "bad session line:", err)
			os.Exit(2)
		}
		rs := runSession(sess)
		b, _ := json.Marshal(rs)
		hx.Emit(fmt.Sprintf("s%d", i), in, string(b))
	}
	hx.Flush()
}
