package main

import (
	"strings"

	"github.com/elk-language/elk/types/checker"
)

var fullDigest bool

func envDigest(tc *checker.Checker) string {
	d := checker.VerifC27EnvDigest(tc)
	if !checker.VerifC27ScopesInEnv(tc) {
		d += "!scopes-outside-env"
	}
	if fullDigest {
		d += "\n" + strings.Join(checker.VerifC27EnvLines(tc), "\n")
	}
	return d
}
