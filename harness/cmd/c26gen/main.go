// c26gen: extracts, from the Go AST of value/symbol_table.go, the micro-op sequence of every
// method of *SymbolTableStruct that touches the tables or the mutex, and prints it as the
// Coq file Gen/C26_SymTab.v. Any statement outside the known patterns aborts with exit 3
// (the check reports that as a broken tie). Variable names do not matter: expressions are
// compared after renaming receiver, parameters and locals to their roles.
package main

import (
	"flag"
	"fmt"
	"go/ast"
	"go/parser"
	"go/token"
	"os"
	"sort"
	"strings"
)

type env struct {
	recv  string
	roles map[string]string // ident -> role: NAME SYM NAMEVAL OK IDVAL SYMLOCAL
	fset  *token.FileSet
	meth  string
}

type unsupported struct{ msg string }

func (e *env) fail(n ast.Node, what string) {
	panic(unsupported{fmt.Sprintf("unsupported %s in %s at %s: %s", what, e.meth, e.fset.Position(n.Pos()), e.render(n))})
}

// render: canonical text of an expression/statement with identifiers replaced by roles
func (e *env) render(n ast.Node) string {
	switch x := n.(type) {
	case nil:
		return ""
	case *ast.Ident:
		if x.Name == e.recv {
			return "R"
		}
		if r, ok := e.roles[x.Name]; ok {
			return "<" + r + ">"
		}
		return x.Name
	case *ast.BasicLit:
		return x.Value
	case *ast.SelectorExpr:
		return e.render(x.X) + "." + x.Sel.Name
	case *ast.IndexExpr:
		return e.render(x.X) + "[" + e.render(x.Index) + "]"
	case *ast.CallExpr:
		var a []string
		for _, y := range x.Args {
			a = append(a, e.render(y))
		}
		return e.render(x.Fun) + "(" + strings.Join(a, ",") + ")"
	case *ast.UnaryExpr:
		return x.Op.String() + e.render(x.X)
	case *ast.BinaryExpr:
		return "(" + e.render(x.X) + x.Op.String() + e.render(x.Y) + ")"
	case *ast.ParenExpr:
		return e.render(x.X)
	case *ast.ExprStmt:
		return e.render(x.X)
	case *ast.DeferStmt:
		return "defer " + e.render(x.Call)
	case *ast.AssignStmt:
		var l, r []string
		for _, y := range x.Lhs {
			l = append(l, e.render(y))
		}
		for _, y := range x.Rhs {
			r = append(r, e.render(y))
		}
		return strings.Join(l, ",") + x.Tok.String() + strings.Join(r, ",")
	case *ast.ReturnStmt:
		var r []string
		for _, y := range x.Results {
			r = append(r, e.render(y))
		}
		return "return " + strings.Join(r, ",")
	case *ast.IfStmt:
		return "if " + e.render(x.Cond) + " {...}"
	default:
		return fmt.Sprintf("%T", n)
	}
}

const lenExpr = "Symbol(len(R.idTable))"

func (e *env) stmts(list []ast.Stmt) []string {
	var ops []string
	for _, st := range list {
		ops = append(ops, e.stmt(st)...)
	}
	return ops
}

func (e *env) stmt(st ast.Stmt) []string {
	switch x := st.(type) {
	case *ast.ExprStmt:
		switch e.render(x) {
		case "R.mutex.Lock()":
			return []string{"Lock"}
		case "R.mutex.RLock()":
			return []string{"RLock"}
		case "R.mutex.Unlock()":
			return []string{"Unlock"}
		case "R.mutex.RUnlock()":
			return []string{"RUnlock"}
		}
	case *ast.DeferStmt:
		switch e.render(x) {
		case "defer R.mutex.Unlock()":
			return []string{"DeferUnlock"}
		case "defer R.mutex.RUnlock()":
			return []string{"DeferRUnlock"}
		}
	case *ast.AssignStmt:
		if x.Tok == token.DEFINE && len(x.Lhs) == 2 && len(x.Rhs) == 1 && e.render(x.Rhs[0]) == "R.nameTable[<NAME>]" {
			v, ok1 := x.Lhs[0].(*ast.Ident)
			k, ok2 := x.Lhs[1].(*ast.Ident)
			if ok1 && ok2 {
				e.roles[v.Name] = "NAMEVAL"
				e.roles[k.Name] = "OK"
				return []string{"ReadName"}
			}
		}
		if x.Tok == token.DEFINE && len(x.Lhs) == 1 && len(x.Rhs) == 1 {
			if v, ok := x.Lhs[0].(*ast.Ident); ok {
				switch e.render(x.Rhs[0]) {
				case "R.idTable[<SYM>]":
					e.roles[v.Name] = "IDVAL"
					return []string{"ReadId"}
				case lenExpr:
					e.roles[v.Name] = "SYMLOCAL"
					return []string{"ReadLen", "LetSymLen"}
				}
			}
		}
		if x.Tok == token.ASSIGN {
			switch e.render(x) {
			case "R.nameTable[<NAME>]=<SYMLOCAL>":
				return []string{"WriteName"}
			case "R.idTable=append(R.idTable,<NAME>)":
				return []string{"AppendId"}
			}
		}
	case *ast.IfStmt:
		if x.Init == nil && x.Else == nil {
			var pre []string
			c := ""
			switch e.render(x.Cond) {
			case "!<OK>":
				c = "CNotOk"
			case "<OK>":
				c = "COk"
			case "((<SYM>>=" + lenExpr + ")||(<SYM><0))":
				c = "COutOfRange"
				pre = []string{"ReadLen"}
			}
			if c != "" {
				body := e.stmts(x.Body.List)
				ops := append(pre, fmt.Sprintf("Branch %s %d", c, len(body)))
				return append(ops, body...)
			}
		}
	case *ast.ReturnStmt:
		switch strings.TrimPrefix(e.render(x), "return ") {
		case "-1,false":
			return []string{"Return RetNotFound"}
		case "<NAMEVAL>,true":
			return []string{"Return RetValTrue"}
		case "\"\",false":
			return []string{"Return RetEmptyFalse"}
		case "<IDVAL>,true":
			return []string{"Return RetNameTrue"}
		case "<NAMEVAL>":
			return []string{"Return RetVal"}
		case "<SYMLOCAL>":
			return []string{"Return RetSymbol"}
		case "((<SYM><" + lenExpr + ")&&(<SYM>>0))":
			return []string{"ReadLen", "Return RetInRangePos"}
		}
	}
	e.fail(st, "statement")
	return nil
}

// does the node mention R.nameTable / R.idTable / R.mutex ?
func touchesFields(n ast.Node, recv string) bool {
	found := false
	ast.Inspect(n, func(m ast.Node) bool {
		if s, ok := m.(*ast.SelectorExpr); ok {
			if id, ok := s.X.(*ast.Ident); ok && id.Name == recv {
				switch s.Sel.Name {
				case "nameTable", "idTable", "mutex":
					found = true
				}
			}
		}
		return true
	})
	return found
}

func anyFieldMention(n ast.Node) bool {
	found := false
	ast.Inspect(n, func(m ast.Node) bool {
		switch s := m.(type) {
		case *ast.SelectorExpr:
			switch s.Sel.Name {
			case "nameTable", "idTable", "mutex":
				found = true
			}
		case *ast.KeyValueExpr:
			if id, ok := s.Key.(*ast.Ident); ok && (id.Name == "nameTable" || id.Name == "idTable") {
				found = true
			}
		}
		return true
	})
	return found
}

func recvOf(fd *ast.FuncDecl) (name string, typ string) {
	if fd.Recv == nil || len(fd.Recv.List) != 1 {
		return "", ""
	}
	f := fd.Recv.List[0]
	t := f.Type
	if st, ok := t.(*ast.StarExpr); ok {
		t = st.X
	}
	if id, ok := t.(*ast.Ident); ok {
		typ = id.Name
	}
	if len(f.Names) == 1 {
		name = f.Names[0].Name
	}
	return
}

var fnames = map[string]string{"ExistsId": "FExistsId", "Get": "FGet", "GetName": "FGetName", "Add": "FAdd"}

func main() {
	src := flag.String("src", "/repo/value/symbol_table.go", "source file")
	out := flag.String("out", "", "output .v (stdout when empty)")
	flag.Parse()
	fset := token.NewFileSet()
	file, err := parser.ParseFile(fset, *src, nil, 0)
	if err != nil {
		fmt.Fprintln(os.Stderr, "c26gen: parse:", err)
		os.Exit(3)
	}
	var entries []string
	var wrappers, others []string
	seen := map[string]bool{}
	code := 0
	func() {
		defer func() {
			if r := recover(); r != nil {
				if u, ok := r.(unsupported); ok {
					fmt.Fprintln(os.Stderr, "c26gen:", u.msg)
					code = 3
					return
				}
				panic(r)
			}
		}()
		for _, d := range file.Decls {
			fd, ok := d.(*ast.FuncDecl)
			if !ok || fd.Body == nil {
				continue
			}
			rn, rt := recvOf(fd)
			if rt != "SymbolTableStruct" {
				if anyFieldMention(fd) {
					others = append(others, fd.Name.Name)
				}
				continue
			}
			if !touchesFields(fd.Body, rn) {
				// wrapper: reaches the tables only through other methods
				var callees []string
				ast.Inspect(fd.Body, func(m ast.Node) bool {
					if c, ok := m.(*ast.CallExpr); ok {
						if s, ok := c.Fun.(*ast.SelectorExpr); ok {
							if id, ok := s.X.(*ast.Ident); ok && id.Name == rn {
								callees = append(callees, s.Sel.Name)
							}
						}
					}
					return true
				})
				sort.Strings(callees)
				wrappers = append(wrappers, fd.Name.Name+" -> "+strings.Join(callees, ","))
				continue
			}
			cn, ok := fnames[fd.Name.Name]
			if !ok {
				panic(unsupported{"unknown method " + fd.Name.Name + " touches the tables"})
			}
			e := &env{recv: rn, roles: map[string]string{}, fset: fset, meth: fd.Name.Name}
			for _, p := range fd.Type.Params.List {
				role := ""
				if id, ok := p.Type.(*ast.Ident); ok {
					switch id.Name {
					case "string":
						role = "NAME"
					case "Symbol":
						role = "SYM"
					}
				}
				if role == "" {
					e.fail(p, "parameter type")
				}
				for _, n := range p.Names {
					e.roles[n.Name] = role
				}
			}
			ops := e.stmts(fd.Body.List)
			seen[fd.Name.Name] = true
			entries = append(entries, fmt.Sprintf("(%s, [%s])", cn, strings.Join(ops, "; ")))
		}
		for m := range fnames {
			if !seen[m] {
				panic(unsupported{"expected method " + m + " not found"})
			}
		}
	}()
	if code != 0 {
		os.Exit(code)
	}
	var b strings.Builder
	b.WriteString("(* GENERATED by harness/cmd/c26gen from value/symbol_table.go -- do not edit; rewritten on every ./check C26 *)\n")
	b.WriteString("From Coq Require Import List.\nImport ListNotations.\nFrom Elk Require Import Model.C26_SymTab.\n")
	b.WriteString("Definition gen_functions : list (fname * list op) :=\n  [ " + strings.Join(entries, ";\n    ") + " ].\n")
	b.WriteString("(* wrappers: " + strings.Join(wrappers, "; ") + " *)\n")
	b.WriteString("(* non-method functions touching the fields: " + strings.Join(others, " ") + " *)\n")
	if *out == "" {
		fmt.Print(b.String())
		return
	}
	if err := os.WriteFile(*out, []byte(b.String()), 0o644); err != nil {
		fmt.Fprintln(os.Stderr, "c26gen:", err)
		os.Exit(3)
	}
}
