// Family "post-passes over completion-ordered results" (-extra pp=<k>; ids k<i>, corpus files postpass_*).
//
// The passes that run AFTER concurrent.Foreach and consume what the parallel body tasks left behind:
//
//	checkMethodsInConstants  <- c.methodCache.Slice: the methods called in constant initialisers, PUSHED IN
//	                            BODY-CHECK COMPLETION ORDER; walks each root's call graph (CalledMethods, written
//	                            by the tasks) and reports `method X circularly refers to constant Y`
//	optimiseCalls            <- globalData.callsToOptimise.Slice: call sites pushed in completion order, bound
//	                            statically to the method body (receiver + name) once all bodies are compiled
//	checkClassesWithIvars    <- init.InitialisedInstanceVariables written by the init body task (own or inherited)
//	checkMacros (Foreach)    -> macro bodies compiled in parallel, expanded later inside method bodies
//
// A program of this family has: several constants initialised by calls of DIFFERENT root methods (a constant
// may call two roots, a root may serve two constants, an initialiser may read an earlier such constant) whose
// call graphs OVERLAP (a hub helper most methods call, roots calling roots, random acyclic edges); some
// methods read one of those constants (a circular reference that must be diagnosed when the method is
// reachable from a root of that constant, however many other roots reached the method before) and some read
// only literal-initialised base constants; method bodies of very different sizes (filler statements 0 ..
// thousands) so that completion order under limit >= 2 differs from definition order; holders: one module,
// top level, a class singleton, or TWO modules defining methods of the SAME NAME with different bodies
// (static call binding must pick the receiver's one); classes with non-nilable instance variables whose init
// (own or inherited, long or short body) sets all or not all of them; macros with long/short bodies used in
// method bodies.  Recursive call graphs are NOT generated: checkMethodInConstant as found does not terminate
// on them (stack overflow at every schedule - a defect, but not a schedule dependence).
package main

import (
	"fmt"
	"strings"

	"verifharness/hx"
)

type ppShape struct {
	methods  int
	consts   int
	holder   string // module | toplevel | twomodules | singleton
	circ     bool   // methods may read the method-initialised constants
	classes  int    // classes with instance variables (+ one subclass each)
	ivarmiss bool   // some non-nilable instance variable is left unset
	macros   int
	errors   bool // ordinary type errors in some bodies
}

func (s ppShape) String() string {
	return fmt.Sprintf("family=postpass methods=%d consts=%d holder=%s circular_reads=%v ivar_classes=%d ivar_missing=%v macros=%d errors=%v",
		s.methods, s.consts, s.holder, s.circ, s.classes, s.ivarmiss, s.macros, s.errors)
}

func genPPShape(r *hx.Rng, idx int, thorough bool) ppShape {
	s := ppShape{}
	s.methods = r.Range(3, 9)
	s.consts = r.Range(2, 5)
	s.holder = []string{"module", "twomodules", "toplevel", "singleton"}[idx%4]
	// two of three programs may contain circular references; the others are accepted and run
	s.circ = idx%3 != 2
	s.classes = []int{0, 2, 1, 0, 3}[idx%5]
	s.ivarmiss = s.classes > 0 && idx%2 == 1
	s.macros = []int{0, 0, 2, 3}[(idx/2)%4]
	s.errors = idx%7 == 5
	return s
}

// how many filler statements a body gets: mostly tiny or huge, so that two bodies started together finish
// far apart
func ppFiller(r *hx.Rng) int {
	switch r.Below(7) {
	case 0, 1, 2:
		return 0
	case 3:
		return r.Range(5, 60)
	case 4:
		return r.Range(300, 900)
	default:
		return r.Range(1500, 3500)
	}
}

func writeFiller(b *strings.Builder, ind, v string, n int) {
	for i := 0; i < n; i++ {
		fmt.Fprintf(b, "%s%s = %s + %d * 2 - 1\n", ind, v, v, i%97)
	}
}

// genPostpass -> source, descriptor details (counts that tell how much of the class the program reached)
func genPostpass(r *hx.Rng, sh ppShape, tag string) (string, string) {
	n := sh.methods
	rank := make([]int, n)
	for i := range rank {
		rank[i] = i
	}
	for i := n - 1; i > 0; i-- {
		j := r.Below(i + 1)
		rank[i], rank[j] = rank[j], rank[i]
	}
	hub := 0
	for i := range rank {
		if rank[i] == 0 {
			hub = i
		}
	}
	// acyclic call graph: only towards lower ranks
	calls := make([][]int, n)
	for i := 0; i < n; i++ {
		if rank[i] == 0 {
			continue
		}
		if r.Chance(3, 5) {
			calls[i] = append(calls[i], hub)
		}
		for j := 0; j < n; j++ {
			if j != hub && rank[j] < rank[i] && len(calls[i]) < 3 && r.Chance(2, rank[i]+2) {
				calls[i] = append(calls[i], j)
			}
		}
	}
	// constants: initialiser calls one or two methods (the roots)
	type cdef struct {
		roots   []int
		readsPC bool // also reads the previous method-initialised constant
		early   bool // declared before the methods
	}
	cs := make([]cdef, sh.consts)
	for j := range cs {
		cs[j].roots = []int{r.Below(n)}
		if r.Chance(1, 3) {
			cs[j].roots = append(cs[j].roots, r.Below(n))
		}
		cs[j].readsPC = j > 0 && r.Chance(1, 4)
		cs[j].early = r.Chance(1, 3)
	}
	// programs with circular reads: make sure the class is reached, not only approached - two DIFFERENT roots of
	// two different constants both call the hub, the hub reads one of the two constants, and one of the two roots
	// (either one) has a huge body while the other has none, so that their completion order under limit >= 2 is
	// the definition order in about half of the programs and the reverse in the other half
	forcedFiller := map[int]int{}
	hubReads := -1
	if sh.circ && n >= 3 {
		var nh []int
		for i := 0; i < n; i++ {
			if i != hub {
				nh = append(nh, i)
			}
		}
		a := hx.Pick(r, nh)
		bb := hx.Pick(r, nh)
		for bb == a {
			bb = hx.Pick(r, nh)
		}
		cs[0].roots[0], cs[1].roots[0] = a, bb
		for _, m := range []int{a, bb} {
			has := false
			for _, c := range calls[m] {
				has = has || c == hub
			}
			if !has {
				calls[m] = append(calls[m], hub)
			}
		}
		if r.Chance(1, 2) {
			a, bb = bb, a
		}
		forcedFiller[a], forcedFiller[bb] = r.Range(1500, 3500), 0
		if r.Chance(4, 5) {
			hubReads = r.Below(2)
		}
	}
	nbase := 2
	cname := func(j int) string { return fmt.Sprintf("C%s_%d", strings.ToUpper(tag), j) }
	bname := func(j int) string { return fmt.Sprintf("B%s_%d", strings.ToUpper(tag), j) }
	// holders
	modOf := make([]int, n) // twomodules: 0 / 1
	names := make([]string, n)
	for i := 0; i < n; i++ {
		switch sh.holder {
		case "twomodules":
			modOf[i] = i % 2
			names[i] = fmt.Sprintf("m%d", i/2) // the same name in both modules
		case "toplevel":
			names[i] = fmt.Sprintf("%s_m%d", tag, i)
		default:
			names[i] = fmt.Sprintf("m%d", i)
		}
	}
	T := strings.ToUpper(tag)
	holderName := func(i int) string {
		switch sh.holder {
		case "module":
			return "M" + T
		case "twomodules":
			return fmt.Sprintf("M%s%c", T, 'A'+rune(modOf[i]))
		case "singleton":
			return "S" + T
		}
		return ""
	}
	callExpr := func(from, to int) string {
		h := holderName(to)
		if h == "" {
			return names[to] + "()"
		}
		if from >= 0 && holderName(from) == h && r.Chance(1, 2) {
			return names[to] + "()" // unqualified call inside the same holder
		}
		return h + "." + names[to] + "()"
	}
	mname := func(q int) string { return fmt.Sprintf("mk%s_%d", tag, q) }

	var b strings.Builder
	fmt.Fprintf(&b, "# %s\n", sh)
	if sh.macros > 0 {
		b.WriteString("using Std::Elk::AST::*\n")
	}
	for j := 0; j < nbase; j++ {
		fmt.Fprintf(&b, "const %s: Int = %d\n", bname(j), r.Range(1, 40))
	}
	nerr := 0
	macroMod := make([]bool, sh.macros)
	for q := 0; q < sh.macros; q++ {
		ind := ""
		macroMod[q] = r.Chance(1, 3)
		if macroMod[q] {
			fmt.Fprintf(&b, "module Q%s%d\n", T, q)
			ind = "  "
		}
		fmt.Fprintf(&b, "%smacro %s(i: IntLiteralNode)\n%s  var t = %d\n", ind, mname(q), ind, r.Range(0, 5))
		writeFiller(&b, ind+"  ", "t", ppFiller(r)/3)
		if sh.errors && r.Chance(1, 3) {
			nerr++
			fmt.Fprintf(&b, "%s  var bad_%s_q%d: Int = \"oops\"\n", ind, tag, q)
		}
		fmt.Fprintf(&b, "%s  (i.to_int * %d + t %% 7).to_ast_node\n%send\n", ind, r.Range(2, 9), ind)
		if macroMod[q] {
			b.WriteString("end\n")
		}
	}
	macroUse := func() string {
		q := r.Below(sh.macros)
		if macroMod[q] {
			return fmt.Sprintf("Q%s%d::%s!(%d)", T, q, mname(q), r.Range(1, 20))
		}
		return fmt.Sprintf("%s!(%d)", mname(q), r.Range(1, 20))
	}
	constDecl := func(j int) {
		var parts []string
		for _, rt := range cs[j].roots {
			parts = append(parts, callExpr(-1, rt))
		}
		if cs[j].readsPC {
			parts = append(parts, cname(j-1))
		}
		fmt.Fprintf(&b, "const %s: Int = %s\n", cname(j), strings.Join(parts, " + "))
	}
	// a constant that reads the previous one has to be declared after it
	for j := range cs {
		if cs[j].readsPC && !cs[j-1].early {
			cs[j].early = false
		}
	}
	for j := range cs {
		if cs[j].early {
			constDecl(j)
		}
	}
	circReads, baseReads, fillers := 0, 0, []string{}
	writeMethod := func(i int, ind string) {
		fmt.Fprintf(&b, "%sdef %s: Int\n%s  var a = %d\n", ind, names[i], ind, r.Range(0, 9))
		f := ppFiller(r)
		if ff, ok := forcedFiller[i]; ok {
			f = ff
		}
		fillers = append(fillers, fmt.Sprint(f))
		writeFiller(&b, ind+"  ", "a", f)
		if sh.errors && r.Chance(1, 3) {
			nerr++
			switch r.Below(3) {
			case 0:
				fmt.Fprintf(&b, "%s  var bad_%s_%d: Int = \"oops\"\n", ind, tag, i)
			case 1:
				fmt.Fprintf(&b, "%s  a.no_such_method_%s_%d\n", ind, tag, i)
			default:
				fmt.Fprintf(&b, "%s  undefined_fn_%s_%d(a)\n", ind, tag, i)
			}
		}
		if sh.macros > 0 && r.Chance(1, 2) {
			fmt.Fprintf(&b, "%s  a = a + %s\n", ind, macroUse())
		}
		parts := []string{}
		for _, c := range calls[i] {
			parts = append(parts, callExpr(i, c))
		}
		if r.Chance(1, 3) {
			baseReads++
			parts = append(parts, bname(r.Below(nbase)))
		}
		// the hub is the method most call graphs share: it reads a method-initialised constant more often
		if sh.circ && i == hub && hubReads >= 0 {
			circReads++
			parts = append(parts, cname(hubReads))
		} else if sh.circ && (r.Chance(1, 3) || (i == hub && r.Chance(2, 3))) {
			circReads++
			parts = append(parts, cname(r.Below(sh.consts)))
		}
		parts = append(parts, "a")
		fmt.Fprintf(&b, "%s  %s\n%send\n", ind, strings.Join(parts, " + "), ind)
	}
	switch sh.holder {
	case "toplevel":
		for i := 0; i < n; i++ {
			writeMethod(i, "")
		}
	case "module":
		fmt.Fprintf(&b, "module M%s\n", T)
		for i := 0; i < n; i++ {
			writeMethod(i, "  ")
		}
		b.WriteString("end\n")
	case "singleton":
		fmt.Fprintf(&b, "class S%s\n  singleton\n", T)
		for i := 0; i < n; i++ {
			writeMethod(i, "    ")
		}
		b.WriteString("  end\nend\n")
	case "twomodules":
		for m := 0; m < 2; m++ {
			fmt.Fprintf(&b, "module M%s%c\n", T, 'A'+rune(m))
			for i := 0; i < n; i++ {
				if modOf[i] == m {
					writeMethod(i, "  ")
				}
			}
			b.WriteString("end\n")
		}
	}
	// classes with instance variables: init (long or short) sets @a and - unless missing - @b; the subclass
	// inherits init and adds @c (nilable, or - missing - not nilable)
	for c := 0; c < sh.classes; c++ {
		missB := sh.ivarmiss && r.Chance(1, 2)
		missC := sh.ivarmiss && (!missB || r.Chance(1, 2))
		fmt.Fprintf(&b, "class KI%s%d\n  var @a: Int\n  var @b: Int\n  init(x: Int)\n    var t = %d\n", T, c, r.Range(0, 4))
		writeFiller(&b, "    ", "t", ppFiller(r))
		fmt.Fprintf(&b, "    @a = x + t %% 5\n")
		if !missB {
			fmt.Fprintf(&b, "    @b = x * %d\n", r.Range(2, 6))
		}
		b.WriteString("  end\n  def get: Int\n")
		if sh.macros > 0 && r.Chance(1, 2) {
			fmt.Fprintf(&b, "    @a + @b + %s\n", macroUse())
		} else {
			fmt.Fprintf(&b, "    @a + @b + %s\n", callExpr(-1, hub))
		}
		b.WriteString("  end\nend\n")
		ct := "Int?"
		if missC {
			ct = "Int"
		}
		fmt.Fprintf(&b, "class KJ%s%d < KI%s%d\n  var @c: %s\n  def twice: Int\n    var u = 0\n", T, c, T, c, ct)
		writeFiller(&b, "    ", "u", ppFiller(r)/2)
		b.WriteString("    @a * 2 + u % 3\n  end\nend\n")
	}
	for j := range cs {
		if !cs[j].early {
			constDecl(j)
		}
	}
	for j := range cs {
		fmt.Fprintf(&b, "println(%s.inspect)\n", cname(j))
	}
	for i := 0; i < n; i++ {
		fmt.Fprintf(&b, "println(%s.inspect)\n", callExpr(-1, i))
	}
	for c := 0; c < sh.classes; c++ {
		fmt.Fprintf(&b, "println(KI%s%d(%d).get.inspect)\nprintln(KJ%s%d(%d).twice.inspect)\n", T, c, r.Range(1, 9), T, c, r.Range(1, 9))
	}
	nroots := map[int]bool{}
	for _, c := range cs {
		for _, rt := range c.roots {
			nroots[rt] = true
		}
	}
	return b.String(), fmt.Sprintf("roots=%d const_reads=%d base_reads=%d injected_errors=%d fillers=%s", len(nroots), circReads, baseReads, nerr, strings.Join(fillers, "/"))
}
