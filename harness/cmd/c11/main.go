// c11: schedule-forcing stream for "type checking gives the same verdict under any parallel
// schedule".  For every seeded multi-method program (methods calling each other along a random
// acyclic order incl. forward references, closures, loops, symbol literals, and - in "error"
// programs - type errors in several bodies) the program is checked + compiled in process
// (checker.CheckSource) under a lattice of settings
//
//	MethodCheckConcurrencyLimit in {1 (baseline), 2, 4, 16, 100} x GOMAXPROCS in {1, 2, 16} x reps
//	(odd repetitions run with goroutines that call runtime.Gosched in a loop, to perturb the scheduler)
//
// and the sorted diagnostics (severity|location|message) and, for accepted programs, the standard
// output and error class of running the compiled bytecode must equal the baseline run (limit 1,
// GOMAXPROCS 1).  Output: "<id>\t<descriptor>\t same <runs> | DIFF <setting> <kind> :: <detail>".
// With -extra dump=<dir> the source of a differing program is written to <dir>/<id>.elk.
// With -extra start=<i> generation is replayed but programs before i are not run (restart after a
// crash: a Go panic inside a checker goroutine cannot be recovered and kills the process).
//
// Family "many bodies x shared fresh names" (-extra fam=<k>; ids f<i>): hundreds of method bodies, every
// group of k consecutive bodies first-uses the same n FRESH identifiers (local variable names and/or
// symbol literals occurring nowhere else in the program or in std) in rotated order, plus some names of
// their own (write pressure on the symbol table).  The symbol table is process-global and never forgets
// a name, so a name is fresh only ONCE per process: in-process repetitions (and the in-process baseline
// run) would make every later run find all names already interned.  Every run of a family program
// therefore happens in a FRESH child process (this binary re-executed with -extra one=<file>,limit=..,
// procs=..,load=..), the limit-1 / GOMAXPROCS-1 child being the baseline.
package main

import (
	"bytes"
	"fmt"
	"os"
	"os/exec"
	"path/filepath"
	"runtime"
	"sort"
	"strconv"
	"strings"
	"sync/atomic"

	"verifharness/hx"

	"github.com/elk-language/elk/bitfield"
	"github.com/elk-language/elk/types/checker"
	"github.com/elk-language/elk/vm"

	// native methods of Std::Elk::AST / Lexer / Parser / Diagnostic / Types (macro bodies call them at check
	// time); the elk binary gets them through the root package, which a verif-tagged harness cannot import
	_ "github.com/elk-language/elk/lexer/runtime"
	_ "github.com/elk-language/elk/parser/ast/runtime"
	_ "github.com/elk-language/elk/parser/runtime"
	_ "github.com/elk-language/elk/position/diagnostic/runtime"
	_ "github.com/elk-language/elk/types/runtime"
)

type method struct {
	name string
	ret  string // Int | String
}

func genProgram(r *hx.Rng, withErrors bool, tag string) (string, int, int) {
	k := r.Range(4, 14)
	ms := make([]method, k)
	rank := make([]int, k)
	for i := range rank {
		rank[i] = i
	}
	for i := k - 1; i > 0; i-- {
		j := r.Below(i + 1)
		rank[i], rank[j] = rank[j], rank[i]
	}
	for i := range ms {
		ms[i] = method{name: fmt.Sprintf("%s_m%d", tag, i), ret: "Int"}
		if r.Chance(1, 4) {
			ms[i].ret = "String"
		}
	}
	var b strings.Builder
	nerr := 0
	callInt := func(i int, arg string) string {
		// an Int-valued expression using a lower-ranked method, or a constant
		var cands []int
		for j := range ms {
			if rank[j] < rank[i] && ms[j].ret == "Int" {
				cands = append(cands, j)
			}
		}
		if len(cands) == 0 || r.Chance(1, 5) {
			return strconv.Itoa(r.Range(1, 9))
		}
		return fmt.Sprintf("%s(%s)", ms[hx.Pick(r, cands)].name, arg)
	}
	for i, m := range ms {
		fmt.Fprintf(&b, "def %s(a: Int): %s\n", m.name, m.ret)
		if withErrors && r.Chance(2, 5) {
			nerr++
			switch r.Below(4) {
			case 0:
				fmt.Fprintf(&b, "  var bad%d: Int = \"oops\"\n", i)
			case 1:
				fmt.Fprintf(&b, "  undefined_fn_%d(a)\n", i)
			case 2:
				fmt.Fprintf(&b, "  %s(\"wrong\")\n", ms[r.Below(k)].name)
			default:
				fmt.Fprintf(&b, "  a.no_such_method_%d\n", i)
			}
		}
		c1, c2 := r.Range(1, 50), r.Range(2, 9)
		if m.ret == "String" {
			if r.Chance(1, 2) {
				fmt.Fprintf(&b, "  var y = :sym_%d_%d\n  y.inspect + a.inspect + %s.inspect\n", i, c1, callInt(i, "a"))
			} else {
				fmt.Fprintf(&b, "  var t = a + %d\n  \"%s:\" + t.inspect + %s.inspect\n", c1, m.name, callInt(i, "t % 5"))
			}
		} else {
			switch r.Below(5) {
			case 0:
				fmt.Fprintf(&b, "  var t = a + %d\n  var u = t * %d\n  u - %s\n", c1, c2, callInt(i, "t % 7"))
			case 1:
				fmt.Fprintf(&b, "  var f = |x: Int| -> x + %d\n  f.(a) + %s\n", c1, callInt(i, "a"))
			case 2:
				fmt.Fprintf(&b, "  var i = 0\n  var acc = %d\n  while i < 3\n    acc = acc + %s\n    i = i + 1\n  end\n  acc\n", c1, callInt(i, "i"))
			case 3:
				fmt.Fprintf(&b, "  if a > %d\n    return %s + 1\n  end\n  a * %d\n", c1, callInt(i, "a - 1"), c2)
			default:
				fmt.Fprintf(&b, "  var s = :k_%d\n  var n = s.inspect.length\n  n + %s + %s\n", i, callInt(i, "a"), callInt(i, "n"))
			}
		}
		b.WriteString("end\n\n")
	}
	for _, m := range ms {
		if m.ret == "String" {
			fmt.Fprintf(&b, "println(%s(%d))\n", m.name, r.Range(0, 60))
		} else {
			fmt.Fprintf(&b, "println(%s(%d).inspect)\n", m.name, r.Range(0, 60))
		}
	}
	return b.String(), k, nerr
}

// ---------------------------------------------------------------------------------------------------
// family "many bodies x shared fresh names"

type famShape struct {
	methods int    // number of method bodies
	group   int    // k: consecutive bodies sharing the same fresh names
	shared  int    // n: fresh names shared by the bodies of one group
	own     int    // names only one body uses (write pressure on the symbol table)
	stride  int    // rotation of the shared names from one body of a group to the next
	kind    string // locals | symbols | mixed
	holder  string // module | class | toplevel
	errors  bool   // inject type errors into some bodies
}

func (f famShape) String() string {
	return fmt.Sprintf("family=shared-fresh-names methods=%d group=%d shared=%d own=%d stride=%d kind=%s holder=%s errors=%v",
		f.methods, f.group, f.shared, f.own, f.stride, f.kind, f.holder, f.errors)
}

func genFamShape(r *hx.Rng, idx int, thorough bool) famShape {
	f := famShape{}
	f.methods = r.Range(160, 320)
	if thorough && r.Chance(1, 2) {
		f.methods = r.Range(320, 900)
	}
	f.group = r.Range(2, 6)
	f.shared = r.Range(8, 24)
	f.own = r.Range(0, 6)
	f.stride = r.Range(1, f.shared-1)
	// the first programs cycle through the kinds/holders so that even a short stream covers each
	f.kind = []string{"locals", "symbols", "mixed"}[idx%3]
	f.holder = []string{"module", "toplevel", "class"}[(idx/3+idx)%3]
	f.errors = idx%4 == 3
	return f
}

// genFamily: a valid program (unless sh.errors) whose method bodies are independent of each other; names
// carry the per-program tag, so they occur nowhere else.  Returns the source and the number of injected errors.
func genFamily(r *hx.Rng, sh famShape, tag string) (string, int) {
	var b strings.Builder
	ind := "  "
	switch sh.holder {
	case "module":
		fmt.Fprintf(&b, "module W%s\n", tag)
	case "class":
		fmt.Fprintf(&b, "class K%s\n", tag)
	default:
		ind = ""
	}
	nerr := 0
	mname := func(i int) string { return fmt.Sprintf("%s_m%d", tag, i) }
	for i := 0; i < sh.methods; i++ {
		g := i / sh.group
		symBody := sh.kind == "symbols" || (sh.kind == "mixed" && i%2 == 1)
		ret := "Int"
		if symBody {
			ret = "Symbol"
		}
		fmt.Fprintf(&b, "%sdef %s(n: Int): %s\n", ind, mname(i), ret)
		if sh.errors && r.Chance(1, 9) {
			nerr++
			switch r.Below(3) {
			case 0:
				fmt.Fprintf(&b, "%s  var bad_%s_%d: Int = \"oops\"\n", ind, tag, i)
			case 1:
				fmt.Fprintf(&b, "%s  n.no_such_method_%s_%d\n", ind, tag, i)
			default:
				fmt.Fprintf(&b, "%s  undefined_fn_%s_%d(n)\n", ind, tag, i)
			}
		}
		var names []string
		for j := 0; j < sh.shared; j++ {
			k := (i*sh.stride + j) % sh.shared
			if symBody {
				// local AND symbol literal are fresh names shared within the group
				fmt.Fprintf(&b, "%s  v_%s_%d_%d := :s_%s_%d_%d\n", ind, tag, g, k, tag, g, k)
			} else {
				nm := fmt.Sprintf("v_%s_%d_%d", tag, g, k)
				names = append(names, nm)
				fmt.Fprintf(&b, "%s  %s := n + %d\n", ind, nm, k)
			}
			if j < sh.own {
				nm := fmt.Sprintf("o_%s_%d_%d", tag, i, j)
				if symBody {
					fmt.Fprintf(&b, "%s  %s := :t_%s_%d_%d\n", ind, nm, tag, i, j)
				} else {
					names = append(names, nm)
					fmt.Fprintf(&b, "%s  %s := n\n", ind, nm)
				}
			}
		}
		if symBody {
			// every symbol body of a group returns the group's symbol 0 through its local
			fmt.Fprintf(&b, "%s  v_%s_%d_0\n", ind, tag, g)
		} else {
			fmt.Fprintf(&b, "%s  %s\n", ind, strings.Join(names, " + "))
		}
		fmt.Fprintf(&b, "%send\n", ind)
	}
	recv := ""
	switch sh.holder {
	case "module":
		b.WriteString("end\n")
		recv = "W" + tag + "."
	case "class":
		b.WriteString("end\n")
		fmt.Fprintf(&b, "obj_%s := K%s()\n", tag, tag)
		recv = "obj_" + tag + "."
	}
	// run a sample: Int bodies are summed, symbol bodies of one group are compared with each other
	fmt.Fprintf(&b, "total_%s := 0\n", tag)
	step := sh.methods / 12
	for i := 0; i < sh.methods; i += step {
		symBody := sh.kind == "symbols" || (sh.kind == "mixed" && i%2 == 1)
		if !symBody {
			fmt.Fprintf(&b, "total_%s += %s%s(%d)\n", tag, recv, mname(i), r.Range(0, 9))
		}
	}
	fmt.Fprintf(&b, "println(total_%s.inspect)\n", tag)
	if sh.kind != "locals" {
		fmt.Fprintf(&b, "same_%s := 0\n", tag)
		for g := 0; g*sh.group < sh.methods; g++ {
			var syms []int
			for i := g * sh.group; i < (g+1)*sh.group && i < sh.methods; i++ {
				if sh.kind == "symbols" || i%2 == 1 {
					syms = append(syms, i)
				}
			}
			for x := 1; x < len(syms); x++ {
				fmt.Fprintf(&b, "same_%s += 1 if %s%s(1) == %s%s(2)\n", tag, recv, mname(syms[0]), recv, mname(syms[x]))
			}
		}
		fmt.Fprintf(&b, "println(same_%s.inspect)\n", tag)
	}
	return b.String(), nerr
}

// child mode: one check+compile(+run) of one file in this fresh process; prints the outcome as one line
func childMain(file string, limit, procs int, load bool) {
	text, err := os.ReadFile(file)
	if err != nil {
		fmt.Println("ERR\t" + err.Error())
		return
	}
	oc := runOnce(filepath.Base(file), string(text), limit, procs, load)
	fmt.Printf("OUT\t%s\t%v\t%s\t%s\n", strconv.Quote(oc.diags), oc.failed, strconv.Quote(oc.stdout), strconv.Quote(oc.rterr))
}

// runFresh: the same, in a fresh child process.  A child that dies (Go panic in a checker goroutine) is
// reported as an outcome of its own ("crash" verdict) rather than killing the stream.
func runFresh(self, file string, limit, procs int, load bool) outcome {
	ld := 0
	if load {
		ld = 1
	}
	nr := ""
	if norun {
		nr = ",norun=1"
	}
	cmd := exec.Command(self, "-extra", fmt.Sprintf("one=%s,limit=%d,procs=%d,load=%d%s", file, limit, procs, ld, nr))
	var so, se bytes.Buffer
	cmd.Stdout, cmd.Stderr = &so, &se
	err := cmd.Run()
	if strings.Contains(se.String(), "DATA RACE") {
		os.Stderr.Write(se.Bytes()) // race reports of the child (race build)
	}
	for _, l := range strings.Split(so.String(), "\n") {
		f := strings.Split(l, "\t")
		if len(f) == 5 && f[0] == "OUT" {
			var oc outcome
			oc.diags, _ = strconv.Unquote(f[1])
			oc.failed = f[2] == "true"
			oc.stdout, _ = strconv.Unquote(f[3])
			oc.rterr, _ = strconv.Unquote(f[4])
			return oc
		}
	}
	msg := se.String()
	if i := strings.Index(msg, "panic:"); i >= 0 {
		msg = msg[i:]
	} else if i := strings.Index(msg, "fatal error:"); i >= 0 {
		msg = msg[i:]
	}
	if len(msg) > 400 {
		msg = msg[:400]
	}
	return outcome{failed: true, diags: fmt.Sprintf("CHILD CRASHED (%v): %s", err, msg)}
}

type outcome struct {
	diags  string
	failed bool
	stdout string
	rterr  string
}

// norun: only check + compile (used under the race detector, whose checkptr instrumentation rejects the
// VM's unsafe stack-pointer arithmetic as soon as a program is run)
var norun bool

func runOnce(name, src string, limit, procs int, load bool) outcome {
	if procs > 0 {
		old := runtime.GOMAXPROCS(procs)
		defer runtime.GOMAXPROCS(old)
	}
	checker.MethodCheckConcurrencyLimit = limit
	var stop atomic.Bool
	if load {
		for g := 0; g < 4; g++ {
			go func() {
				for !stop.Load() {
					runtime.Gosched()
				}
			}()
		}
	}
	defer stop.Store(true)
	var o outcome
	bc, dl := checker.CheckSource(name, src, nil, bitfield.BitField16{}, nil)
	var ds []string
	for _, d := range dl {
		loc := "?"
		if d.Location != nil {
			loc = d.Location.String()
		}
		ds = append(ds, fmt.Sprintf("%d|%s|%s", d.Severity, loc, d.Message))
	}
	sort.Strings(ds)
	o.diags = strings.Join(ds, " ;; ")
	o.failed = bc == nil || (dl != nil && dl.IsFailure())
	if o.failed || norun {
		return o
	}
	var buf bytes.Buffer
	v := vm.New(vm.WithStdout(&buf))
	_, err := v.InterpretTopLevel(bc)
	o.stdout = buf.String()
	if !err.IsUndefined() {
		o.rterr = err.Class().Name
	}
	return o
}

func clip(s string) string {
	s = strings.ReplaceAll(s, "\n", "\\n")
	if len(s) > 300 {
		return s[:300] + "..."
	}
	return s
}

// crashKind: "crash:<letters of the panic message>" for the outcome of a child that died, "" otherwise.
// A crash at ANY setting (the limit-1 baseline included) is reported under this one kind, so that the
// schedule-dependent and the schedule-independent manifestation of one panic have one key.
func crashKind(o outcome) string {
	if !strings.HasPrefix(o.diags, "CHILD CRASHED") {
		return ""
	}
	msg := o.diags
	if i := strings.Index(msg, "panic: "); i >= 0 {
		msg = msg[i+7:]
	} else if i := strings.Index(msg, "fatal error: "); i >= 0 {
		msg = msg[i+13:]
	}
	if i := strings.IndexAny(msg, ":\n"); i >= 0 {
		msg = msg[:i]
	}
	var b strings.Builder
	dash := false
	for _, c := range msg {
		if (c >= 'a' && c <= 'z') || (c >= 'A' && c <= 'Z') {
			b.WriteRune(c)
			dash = false
		} else if !dash && b.Len() > 0 {
			b.WriteByte('-')
			dash = true
		}
		if b.Len() >= 48 {
			break
		}
	}
	return "crash:" + strings.Trim(b.String(), "-")
}

func compare(base, o outcome) (string, string) {
	if k := crashKind(base); k != "" {
		return k, "the limit-1 GOMAXPROCS-1 run crashed: " + clip(base.diags)
	}
	if k := crashKind(o); k != "" {
		return k, "crashed here (the limit-1 run did not): " + clip(o.diags)
	}
	if base.failed != o.failed {
		return "verdict", fmt.Sprintf("baseline failed=%v, here failed=%v; diagnostics here: %s", base.failed, o.failed, clip(o.diags))
	}
	if base.diags != o.diags {
		return "diagnostics", fmt.Sprintf("baseline [%s] here [%s]", clip(base.diags), clip(o.diags))
	}
	if base.rterr != o.rterr {
		return "runtime-error", fmt.Sprintf("baseline %q here %q", base.rterr, o.rterr)
	}
	if base.stdout != o.stdout {
		return "stdout", fmt.Sprintf("baseline %q here %q", clip(base.stdout), clip(o.stdout))
	}
	return "", ""
}

func main() {
	o := hx.ParseFlags()
	defer hx.Flush()
	dump, start, reps := "", 0, 1
	fam, freps, one, oneLimit, oneProcs, oneLoad := 0, 1, "", 1, 1, false
	pp, ppreps, ppin := 0, 1, 1 // post-pass family: programs, repetitions of the fresh-process settings, of the in-process lattice
	for _, kv := range strings.Split(o.Extra, ",") {
		if v, ok := strings.CutPrefix(kv, "fam="); ok {
			fam, _ = strconv.Atoi(v)
		}
		if v, ok := strings.CutPrefix(kv, "freps="); ok {
			freps, _ = strconv.Atoi(v)
		}
		if v, ok := strings.CutPrefix(kv, "pp="); ok {
			pp, _ = strconv.Atoi(v)
		}
		if v, ok := strings.CutPrefix(kv, "ppreps="); ok {
			ppreps, _ = strconv.Atoi(v)
		}
		if v, ok := strings.CutPrefix(kv, "ppin="); ok {
			ppin, _ = strconv.Atoi(v)
		}
		if v, ok := strings.CutPrefix(kv, "one="); ok {
			one = v
		}
		if v, ok := strings.CutPrefix(kv, "limit="); ok {
			oneLimit, _ = strconv.Atoi(v)
		}
		if v, ok := strings.CutPrefix(kv, "procs="); ok {
			oneProcs, _ = strconv.Atoi(v)
		}
		if kv == "load=1" {
			oneLoad = true
		}
		if v, ok := strings.CutPrefix(kv, "dump="); ok {
			dump = v
		}
		if v, ok := strings.CutPrefix(kv, "start="); ok {
			start, _ = strconv.Atoi(v)
		}
		if v, ok := strings.CutPrefix(kv, "reps="); ok {
			reps, _ = strconv.Atoi(v)
		}
		if kv == "norun=1" {
			norun = true
		}
	}
	if one != "" {
		childMain(one, oneLimit, oneProcs, oneLoad)
		return
	}
	limits := []int{2, 4, 16, 100, 1}
	procs := []int{1, 2, 16}
	type prog struct {
		id, desc, src string
		fresh         bool // every run in a fresh child process (names are fresh only once per process)
		pp            bool // post-pass family: fresh children (with run) + in-process check-only lattice
	}
	var progs []prog
	for i, path := range hx.ReadInputs(o.Input) { // corpus: file names of .elk programs
		text, err := os.ReadFile(path)
		if err == nil {
			// corpus programs run in process; files named fresh_* run, like the family programs, in fresh processes only
			progs = append(progs, prog{fmt.Sprintf("c%d", i), "corpus " + filepath.Base(path), string(text), false, false})
			if strings.HasPrefix(filepath.Base(path), "fresh_") {
				progs[len(progs)-1].fresh = true
			}
			if strings.HasPrefix(filepath.Base(path), "postpass_") {
				progs[len(progs)-1].fresh = true
				progs[len(progs)-1].pp = true
			}
		}
	}
	r := hx.NewRng(o.Seed)
	for i := 0; i < o.N; i++ {
		withErr := i%2 == 1
		// method names are unique per program: all programs of one harness process share the runtime's
		// Kernel singleton, where same-named methods of an earlier program would be redefined
		src, k, nerr := genProgram(r, withErr, fmt.Sprintf("g%d", i))
		progs = append(progs, prog{fmt.Sprintf("g%d", i), fmt.Sprintf("methods=%d injected_errors=%d", k, nerr), src, false, false})
	}
	// the family has its own generator state: the g-programs of a seed do not depend on fam
	rf := hx.NewRng(o.Seed ^ 0x5eedfa11)
	for i := 0; i < fam; i++ {
		sh := genFamShape(rf, i, o.Tier == "thorough")
		src, nerr := genFamily(rf, sh, fmt.Sprintf("f%d", i))
		progs = append(progs, prog{fmt.Sprintf("f%d", i), fmt.Sprintf("%s injected_errors=%d", sh, nerr), src, true, false})
	}
	// so has the post-pass family
	rp := hx.NewRng(o.Seed ^ 0x9057a55)
	for i := 0; i < pp; i++ {
		sh := genPPShape(rp, i, o.Tier == "thorough")
		src, det := genPostpass(rp, sh, fmt.Sprintf("k%d", i))
		progs = append(progs, prog{fmt.Sprintf("k%d", i), fmt.Sprintf("%s %s", sh, det), src, true, true})
	}
	self, _ := os.Executable()
	tmp, _ := os.MkdirTemp("", "c11fresh")
	defer os.RemoveAll(tmp)
	// fresh-process lattice: the limit-1 run must also agree with itself; 0 = GOMAXPROCS left at the default
	type fset struct{ limit, procs int }
	fsettings := []fset{{100, 0}, {16, 0}, {1, 0}, {100, 4}}
	if o.Tier == "thorough" {
		fsettings = append(fsettings, fset{16, 4}, fset{1, 4}, fset{100, 2})
	}
	// post-pass family: completion order is what matters, so low limits (few slots, long bodies hold them) too
	ppsettings := []fset{{100, 0}, {2, 0}, {3, 2}}
	if o.Tier == "thorough" {
		ppsettings = append(ppsettings, fset{1, 0}, fset{16, 0}, fset{2, 2}, fset{100, 4}, fset{4, 1})
	}
	for i, p := range progs {
		if i < start {
			continue
		}
		// announce before running, so that a crash can be attributed
		fmt.Fprintf(os.Stderr, "RUNNING %d %s\n", i, p.id)
		var base outcome
		file := filepath.Join(tmp, p.id+".elk")
		run := func(l, pc int, load bool) outcome { return runOnce(p.id+".elk", p.src, l, pc, load) }
		preps := reps
		var psettings []fset
		for _, l := range limits {
			for _, pc := range procs {
				psettings = append(psettings, fset{l, pc})
			}
		}
		if p.fresh {
			os.WriteFile(file, []byte(p.src), 0644)
			run = func(l, pc int, load bool) outcome { return runFresh(self, file, l, pc, load) }
			psettings, preps = fsettings, freps
			if p.pp {
				psettings, preps = ppsettings, ppreps
			}
		}
		base = run(1, 1, false)
		runs, res := 1, ""
	settings:
		for rep := 0; rep < preps; rep++ {
			for _, st := range psettings {
				{
					l, pc := st.limit, st.procs
					oc := run(l, pc, rep%2 == 1)
					runs++
					if kind, detail := compare(base, oc); kind != "" {
						res = fmt.Sprintf("DIFF limit=%d,procs=%d,rep=%d %s :: %s", l, pc, rep, kind, detail)
						break settings
					}
				}
			}
		}
		if p.pp && res == "" {
			// in-process lattice, check + compile only (the program is never run in this process, so no runtime
			// constant or method of it exists here); compared with the in-process limit-1 run
			saved := norun
			norun = true
			baseIn := runOnce(p.id+".elk", p.src, 1, 1, false)
			runs++
			if kind, detail := compare(outcome{diags: base.diags, failed: base.failed}, baseIn); kind != "" {
				res = fmt.Sprintf("DIFF inprocess,limit=1,procs=1 %s :: the in-process limit-1 check differs from the fresh-process one: %s", kind, detail)
			}
		inproc:
			for rep := 0; rep < ppin && res == ""; rep++ {
				for _, l := range limits {
					for _, pc := range procs {
						oc := runOnce(p.id+".elk", p.src, l, pc, rep%2 == 1)
						runs++
						if kind, detail := compare(baseIn, oc); kind != "" {
							res = fmt.Sprintf("DIFF inprocess,limit=%d,procs=%d,rep=%d %s :: %s", l, pc, rep, kind, detail)
							break inproc
						}
					}
				}
			}
			norun = saved
		}
		if res == "" {
			kind := "accepted"
			if base.failed {
				kind = "rejected"
			} else if base.rterr != "" {
				kind = "runtime-error"
			}
			res = fmt.Sprintf("same %d %s diags=%d out=%d", runs, kind, strings.Count(base.diags, " ;; ")+btoi(base.diags != ""), len(base.stdout))
		} else if dump != "" {
			os.MkdirAll(dump, 0755)
			os.WriteFile(filepath.Join(dump, p.id+".elk"), []byte(p.src), 0644)
		}
		hx.Emit(p.id, p.desc, res)
		hx.Flush()
	}
}

func btoi(b bool) int {
	if b {
		return 1
	}
	return 0
}
