// c11: schedule-forcing stream for "type checking gives the same verdict under any parallel
// schedule".  For every seeded multi-method program (methods calling each other along a random
// acyclic order incl. forward references, closures, loops, symbol literals, and - in "error"
// programs - type errors in several bodies) the program is checked + compiled in process
// (checker.CheckSource) under a lattice of settings
//
//	MethodCheckConcurrencyLimit in {1 (baseline), 2, 4, 16, 100} x GOMAXPROCS in {1, 2, 16} x reps
//	(odd repetitions run with goroutines that call runtime.Gosched in a loop, to perturb the scheduler)
//
// and the sorted diagnostics (severity|location|message) and, for accepted programs, the standard
// output and error class of running the compiled bytecode must equal the baseline run (limit 1,
// GOMAXPROCS 1).  Output: "<id>\t<descriptor>\t same <runs> | DIFF <setting> <kind> :: <detail>".
// With -extra dump=<dir> the source of a differing program is written to <dir>/<id>.elk.
// With -extra start=<i> generation is replayed but programs before i are not run (restart after a
// crash: a Go panic inside a checker goroutine cannot be recovered and kills the process).
package main

import (
	"bytes"
	"fmt"
	"os"
	"path/filepath"
	"runtime"
	"sort"
	"strconv"
	"strings"
	"sync/atomic"

	"verifharness/hx"

	"github.com/elk-language/elk/bitfield"
	"github.com/elk-language/elk/types/checker"
	"github.com/elk-language/elk/vm"
)

type method struct {
	name string
	ret  string // Int | String
}

func genProgram(r *hx.Rng, withErrors bool, tag string) (string, int, int) {
	k := r.Range(4, 14)
	ms := make([]method, k)
	rank := make([]int, k)
	for i := range rank {
		rank[i] = i
	}
	for i := k - 1; i > 0; i-- {
		j := r.Below(i + 1)
		rank[i], rank[j] = rank[j], rank[i]
	}
	for i := range ms {
		ms[i] = method{name: fmt.Sprintf("%s_m%d", tag, i), ret: "Int"}
		if r.Chance(1, 4) {
			ms[i].ret = "String"
		}
	}
	var b strings.Builder
	nerr := 0
	callInt := func(i int, arg string) string {
		// an Int-valued expression using a lower-ranked method, or a constant
		var cands []int
		for j := range ms {
			if rank[j] < rank[i] && ms[j].ret == "Int" {
				cands = append(cands, j)
			}
		}
		if len(cands) == 0 || r.Chance(1, 5) {
			return strconv.Itoa(r.Range(1, 9))
		}
		return fmt.Sprintf("%s(%s)", ms[hx.Pick(r, cands)].name, arg)
	}
	for i, m := range ms {
		fmt.Fprintf(&b, "def %s(a: Int): %s\n", m.name, m.ret)
		if withErrors && r.Chance(2, 5) {
			nerr++
			switch r.Below(4) {
			case 0:
				fmt.Fprintf(&b, "  var bad%d: Int = \"oops\"\n", i)
			case 1:
				fmt.Fprintf(&b, "  undefined_fn_%d(a)\n", i)
			case 2:
				fmt.Fprintf(&b, "  %s(\"wrong\")\n", ms[r.Below(k)].name)
			default:
				fmt.Fprintf(&b, "  a.no_such_method_%d\n", i)
			}
		}
		c1, c2 := r.Range(1, 50), r.Range(2, 9)
		if m.ret == "String" {
			if r.Chance(1, 2) {
				fmt.Fprintf(&b, "  var y = :sym_%d_%d\n  y.inspect + a.inspect + %s.inspect\n", i, c1, callInt(i, "a"))
			} else {
				fmt.Fprintf(&b, "  var t = a + %d\n  \"%s:\" + t.inspect + %s.inspect\n", c1, m.name, callInt(i, "t % 5"))
			}
		} else {
			switch r.Below(5) {
			case 0:
				fmt.Fprintf(&b, "  var t = a + %d\n  var u = t * %d\n  u - %s\n", c1, c2, callInt(i, "t % 7"))
			case 1:
				fmt.Fprintf(&b, "  var f = |x: Int| -> x + %d\n  f.(a) + %s\n", c1, callInt(i, "a"))
			case 2:
				fmt.Fprintf(&b, "  var i = 0\n  var acc = %d\n  while i < 3\n    acc = acc + %s\n    i = i + 1\n  end\n  acc\n", c1, callInt(i, "i"))
			case 3:
				fmt.Fprintf(&b, "  if a > %d\n    return %s + 1\n  end\n  a * %d\n", c1, callInt(i, "a - 1"), c2)
			default:
				fmt.Fprintf(&b, "  var s = :k_%d\n  var n = s.inspect.length\n  n + %s + %s\n", i, callInt(i, "a"), callInt(i, "n"))
			}
		}
		b.WriteString("end\n\n")
	}
	for _, m := range ms {
		if m.ret == "String" {
			fmt.Fprintf(&b, "println(%s(%d))\n", m.name, r.Range(0, 60))
		} else {
			fmt.Fprintf(&b, "println(%s(%d).inspect)\n", m.name, r.Range(0, 60))
		}
	}
	return b.String(), k, nerr
}

type outcome struct {
	diags  string
	failed bool
	stdout string
	rterr  string
}

// norun: only check + compile (used under the race detector, whose checkptr instrumentation rejects the
// VM's unsafe stack-pointer arithmetic as soon as a program is run)
var norun bool

func runOnce(name, src string, limit, procs int, load bool) outcome {
	old := runtime.GOMAXPROCS(procs)
	defer runtime.GOMAXPROCS(old)
	checker.MethodCheckConcurrencyLimit = limit
	var stop atomic.Bool
	if load {
		for g := 0; g < 4; g++ {
			go func() {
				for !stop.Load() {
					runtime.Gosched()
				}
			}()
		}
	}
	defer stop.Store(true)
	var o outcome
	bc, dl := checker.CheckSource(name, src, nil, bitfield.BitField16{}, nil)
	var ds []string
	for _, d := range dl {
		loc := "?"
		if d.Location != nil {
			loc = d.Location.String()
		}
		ds = append(ds, fmt.Sprintf("%d|%s|%s", d.Severity, loc, d.Message))
	}
	sort.Strings(ds)
	o.diags = strings.Join(ds, " ;; ")
	o.failed = bc == nil || (dl != nil && dl.IsFailure())
	if o.failed || norun {
		return o
	}
	var buf bytes.Buffer
	v := vm.New(vm.WithStdout(&buf))
	_, err := v.InterpretTopLevel(bc)
	o.stdout = buf.String()
	if !err.IsUndefined() {
		o.rterr = err.Class().Name
	}
	return o
}

func clip(s string) string {
	s = strings.ReplaceAll(s, "\n", "\\n")
	if len(s) > 300 {
		return s[:300] + "..."
	}
	return s
}

func compare(base, o outcome) (string, string) {
	if base.failed != o.failed {
		return "verdict", fmt.Sprintf("baseline failed=%v, here failed=%v; diagnostics here: %s", base.failed, o.failed, clip(o.diags))
	}
	if base.diags != o.diags {
		return "diagnostics", fmt.Sprintf("baseline [%s] here [%s]", clip(base.diags), clip(o.diags))
	}
	if base.rterr != o.rterr {
		return "runtime-error", fmt.Sprintf("baseline %q here %q", base.rterr, o.rterr)
	}
	if base.stdout != o.stdout {
		return "stdout", fmt.Sprintf("baseline %q here %q", clip(base.stdout), clip(o.stdout))
	}
	return "", ""
}

func main() {
	o := hx.ParseFlags()
	defer hx.Flush()
	dump, start, reps := "", 0, 1
	for _, kv := range strings.Split(o.Extra, ",") {
		if v, ok := strings.CutPrefix(kv, "dump="); ok {
			dump = v
		}
		if v, ok := strings.CutPrefix(kv, "start="); ok {
			start, _ = strconv.Atoi(v)
		}
		if v, ok := strings.CutPrefix(kv, "reps="); ok {
			reps, _ = strconv.Atoi(v)
		}
		if kv == "norun=1" {
			norun = true
		}
	}
	limits := []int{2, 4, 16, 100, 1}
	procs := []int{1, 2, 16}
	type prog struct{ id, desc, src string }
	var progs []prog
	for i, path := range hx.ReadInputs(o.Input) { // corpus: file names of .elk programs
		text, err := os.ReadFile(path)
		if err == nil {
			progs = append(progs, prog{fmt.Sprintf("c%d", i), "corpus " + filepath.Base(path), string(text)})
		}
	}
	r := hx.NewRng(o.Seed)
	for i := 0; i < o.N; i++ {
		withErr := i%2 == 1
		// method names are unique per program: all programs of one harness process share the runtime's
		// Kernel singleton, where same-named methods of an earlier program would be redefined
		src, k, nerr := genProgram(r, withErr, fmt.Sprintf("g%d", i))
		progs = append(progs, prog{fmt.Sprintf("g%d", i), fmt.Sprintf("methods=%d injected_errors=%d", k, nerr), src})
	}
	for i, p := range progs {
		if i < start {
			continue
		}
		// announce before running, so that a crash can be attributed
		fmt.Fprintf(os.Stderr, "RUNNING %d %s\n", i, p.id)
		base := runOnce(p.id+".elk", p.src, 1, 1, false)
		runs, res := 1, ""
	settings:
		for rep := 0; rep < reps; rep++ {
			for _, l := range limits {
				for _, pc := range procs {
					oc := runOnce(p.id+".elk", p.src, l, pc, rep%2 == 1)
					runs++
					if kind, detail := compare(base, oc); kind != "" {
						res = fmt.Sprintf("DIFF limit=%d,procs=%d,rep=%d %s :: %s", l, pc, rep, kind, detail)
						break settings
					}
				}
			}
		}
		if res == "" {
			kind := "accepted"
			if base.failed {
				kind = "rejected"
			} else if base.rterr != "" {
				kind = "runtime-error"
			}
			res = fmt.Sprintf("same %d %s diags=%d out=%d", runs, kind, strings.Count(base.diags, " ;; ")+btoi(base.diags != ""), len(base.stdout))
		} else if dump != "" {
			os.MkdirAll(dump, 0755)
			os.WriteFile(filepath.Join(dump, p.id+".elk"), []byte(p.src), 0644)
		}
		hx.Emit(p.id, p.desc, res)
		hx.Flush()
	}
}

func btoi(b bool) int {
	if b {
		return 1
	}
	return 0
}
