// c06: correspondence stream for Int arithmetic. Calls value.*Val (the functions behind the
// VM's generic opcodes, typed opcodes and the constant folder) and value.*Ints (the `op@1`
// overloads reached by explicit method calls, ops suffixed ".i") on Elk Ints built as
// SmallInt or *BigInt and prints the observed result in the model's vocabulary.
// Input line: "<op> <repr_a> <a> <repr_b> <b>". A result line ends with " MUT" when the call
// changed one of its operands (BigInts are shared references, so that is observable in Elk).
package main

import (
	"fmt"
	"math/big"
	"strings"

	"verifharness/hx"

	"github.com/elk-language/elk/value"
)

func mk(repr string, z *big.Int) value.Value {
	if repr == "S" {
		return value.SmallInt(z.Int64()).ToValue()
	}
	return value.Ref(value.ToElkBigInt(new(big.Int).Set(z)))
}

func reprOf(z *big.Int) string {
	if z.IsInt64() {
		return "S"
	}
	return "B"
}

func show(v value.Value, err value.Value) string {
	if !err.IsUndefined() {
		cls := err.Class().Name
		switch {
		case strings.Contains(cls, "ZeroDivision"):
			return "err 1"
		default:
			return "err 2 " + cls
		}
	}
	if v.IsSmallInt() {
		return fmt.Sprintf("ok S %d", int64(v.AsSmallInt()))
	}
	if v.IsTrue() {
		return "ok T"
	}
	if v.IsFalse() {
		return "ok F"
	}
	if v.IsReference() {
		if b, ok := v.AsReference().(*value.BigInt); ok {
			return "ok B " + b.ToGoBigInt().String()
		}
	}
	return "other " + v.Inspect()
}

func u(v value.Value) (value.Value, value.Value) { return v, value.Undefined }

func apply(op string, a, b value.Value) (value.Value, value.Value) {
	switch op {
	case "add":
		return value.AddVal(a, b)
	case "sub":
		return value.SubtractVal(a, b)
	case "mul":
		return value.MultiplyVal(a, b)
	case "div":
		return value.DivideVal(a, b)
	case "mod":
		return value.ModuloVal(a, b)
	case "pow":
		return value.ExponentiateVal(a, b)
	case "neg":
		return u(value.NegateVal(a))
	case "gt":
		return value.GreaterThanVal(a, b)
	case "ge":
		return value.GreaterThanEqualVal(a, b)
	case "lt":
		return value.LessThanVal(a, b)
	case "le":
		return value.LessThanEqualVal(a, b)
	case "eq":
		return u(value.EqualVal(a, b))
	case "cmp":
		return value.CompareVal(a, b)
	case "shl":
		return value.LeftBitshiftVal(a, b)
	case "shr":
		return value.RightBitshiftVal(a, b)
	case "and":
		return value.BitwiseAndVal(a, b)
	case "or":
		return value.BitwiseOrVal(a, b)
	case "xor":
		return value.BitwiseXorVal(a, b)
	case "andnot":
		return value.BitwiseAndNotVal(a, b)
	// the Int-only entry points (method overloads `op@1`, typed Int code)
	case "add.i":
		return u(value.AddInts(a, b))
	case "sub.i":
		return u(value.SubtractInts(a, b))
	case "mul.i":
		return u(value.MultiplyInts(a, b))
	case "div.i":
		return value.DivideInts(a, b)
	case "mod.i":
		return value.ModuloInts(a, b)
	case "pow.i":
		return u(value.ExponentiateInts(a, b))
	case "neg.i":
		return u(value.NegateInt(a))
	case "gt.i":
		return u(value.BoolVal(value.GreaterThanInts(a, b)))
	case "ge.i":
		return u(value.BoolVal(value.GreaterThanEqualInts(a, b)))
	case "lt.i":
		return u(value.BoolVal(value.LessThanInts(a, b)))
	case "le.i":
		return u(value.BoolVal(value.LessThanEqualInts(a, b)))
	case "eq.i":
		return u(value.BoolVal(value.EqualInts(a, b)))
	case "cmp.i":
		return u(value.CompareInts(a, b).ToValue())
	case "shl.i":
		return u(value.LeftBitshiftInts(a, b))
	case "shr.i":
		return u(value.RightBitshiftInts(a, b))
	case "and.i":
		return u(value.BitwiseAndInts(a, b))
	case "or.i":
		return u(value.BitwiseOrInts(a, b))
	case "xor.i":
		return u(value.BitwiseXorInts(a, b))
	case "andnot.i":
		return u(value.BitwiseAndNotInts(a, b))
	}
	panic("unknown op " + op)
}

func bigOf(v value.Value) *big.Int {
	if v.IsSmallInt() {
		return big.NewInt(int64(v.AsSmallInt()))
	}
	return new(big.Int).Set(v.AsReference().(*value.BigInt).ToGoBigInt())
}

func run(input string) string {
	f := strings.Fields(input)
	a, _ := new(big.Int).SetString(f[2], 10)
	b, _ := new(big.Int).SetString(f[4], 10)
	return hx.Guard(func() string {
		av, bv := mk(f[1], a), mk(f[3], b)
		r, e := apply(f[0], av, bv)
		s := show(r, e)
		if bigOf(av).Cmp(a) != 0 || bigOf(bv).Cmp(b) != 0 {
			s += " MUT"
		}
		return s
	})
}

var arith = []string{"add", "sub", "mul", "div", "mod"}
var cmps = []string{"gt", "ge", "lt", "le", "eq", "cmp"}
var bits = []string{"and", "or", "xor", "andnot"}

// shift amounts: around 0 and the word size, a few hundred bits, and amounts that no
// longer fit a machine word (only generated where the exact result is representable)
func shiftAmount(r *hx.Rng) *big.Int {
	switch r.Below(6) {
	case 0:
		return big.NewInt(int64(r.Range(-3, 3)))
	case 1:
		return big.NewInt(int64(hx.Pick(r, []int{61, 62, 63, 64, 65, 66, 127, 128, 129}) * (1 - 2*r.Below(2))))
	case 2:
		return big.NewInt(int64(r.Range(-300, 300)))
	case 3:
		return big.NewInt(int64(r.Range(-70, 70)))
	case 4:
		return r.BoundaryInt()
	default:
		return r.BigBits(r.Range(60, 90))
	}
}

// the exact result must fit in memory: an effective left shift of a non-zero value is
// limited to 4096 bits
func shiftOK(op string, a, n *big.Int) bool {
	if a.Sign() == 0 {
		return true
	}
	left := new(big.Int).Set(n)
	if op == "shr" {
		left.Neg(left)
	}
	return left.Cmp(big.NewInt(4096)) <= 0
}

func main() {
	o := hx.ParseFlags()
	defer hx.Flush()
	for i, in := range hx.ReadInputs(o.Input) {
		hx.Emit(fmt.Sprintf("c%d", i), in, run(in))
	}
	// exhaustive corner grid: every operator on every ordered pair of the values where the
	// small/big representation changes (added after seeded defect C06a: MinSmallInt * -1)
	{
		two63 := new(big.Int).Lsh(big.NewInt(1), 63)
		two64 := new(big.Int).Lsh(big.NewInt(1), 64)
		var corners []*big.Int
		for _, base := range []*big.Int{big.NewInt(0), two63, two64, big.NewInt(1 << 31), big.NewInt(1 << 32)} {
			for d := int64(-2); d <= 2; d++ {
				v := new(big.Int).Add(base, big.NewInt(d))
				corners = append(corners, v, new(big.Int).Neg(v))
			}
		}
		k := 0
		for _, a := range corners {
			for _, b := range corners {
				for _, grp := range [][]string{arith, cmps, bits} {
					for _, op := range grp {
						for _, suffix := range []string{"", ".i"} {
							in := fmt.Sprintf("%s%s %s %s %s %s", op, suffix, reprOf(a), a, reprOf(b), b)
							hx.Emit(fmt.Sprintf("x%d", k), in, run(in))
							k++
						}
					}
				}
			}
		}
	}
	r := hx.NewRng(o.Seed)
	for i := 0; i < o.N; i++ {
		var a, b *big.Int
		switch r.Below(4) {
		case 0:
			a, b = r.BoundaryInt(), r.BoundaryInt()
		case 1:
			a, b = r.BigBits(r.Range(1, 200)), r.BigBits(r.Range(1, 200))
		case 2:
			a, b = r.BoundaryInt(), big.NewInt(int64(r.Range(-4, 4)))
		default:
			a, b = r.BigBits(r.Range(1, 70)), r.BoundaryInt()
		}
		var op string
		switch r.Below(8) {
		case 0, 1, 2:
			op = hx.Pick(r, arith)
		case 3:
			op = hx.Pick(r, cmps)
			if r.Chance(1, 4) {
				b = new(big.Int).Add(a, big.NewInt(int64(r.Range(-1, 1))))
			}
		case 4:
			op = hx.Pick(r, bits)
		case 5, 6:
			op = hx.Pick(r, []string{"shl", "shr"})
			b = shiftAmount(r)
			if !shiftOK(op, a, b) {
				if r.Chance(1, 2) {
					a = big.NewInt(0)
				} else {
					b.Neg(b)
				}
			}
		default:
			if r.Chance(1, 2) {
				op = "neg"
				b = big.NewInt(0)
				if r.Chance(1, 3) {
					a = new(big.Int).Lsh(big.NewInt(1), 63)
					a.Add(a, big.NewInt(int64(r.Range(-1, 1))))
					if r.Chance(1, 2) {
						a.Neg(a)
					}
				}
			} else {
				op = "pow"
				b = big.NewInt(int64(r.Range(-3, 70)))
				if r.Chance(1, 2) && a.BitLen() > 8 {
					a = big.NewInt(int64(r.Range(-12, 12)))
				}
				if a.BitLen() > 130 {
					a = r.BigBits(r.Range(1, 130))
				}
			}
		}
		if r.Chance(1, 3) {
			op += ".i"
		}
		in := fmt.Sprintf("%s %s %s %s %s", op, reprOf(a), a, reprOf(b), b)
		hx.Emit(fmt.Sprintf("g%d", i), in, run(in))
	}
}
