// c06: correspondence stream for Int arithmetic. Calls value.*Val on Elk Ints built as
// SmallInt or *BigInt and prints the observed result in the model's vocabulary.
package main

import (
	"fmt"
	"math/big"
	"strings"

	"verifharness/hx"

	"github.com/elk-language/elk/value"
)

func mk(repr string, z *big.Int) value.Value {
	if repr == "S" {
		return value.SmallInt(z.Int64()).ToValue()
	}
	return value.Ref(value.ToElkBigInt(new(big.Int).Set(z)))
}

func reprOf(z *big.Int) string {
	if z.IsInt64() {
		return "S"
	}
	return "B"
}

func show(v value.Value, err value.Value) string {
	if !err.IsUndefined() {
		cls := err.Class().Name
		switch {
		case strings.Contains(cls, "ZeroDivision"):
			return "err 1"
		default:
			return "err 2 " + cls
		}
	}
	if v.IsSmallInt() {
		return fmt.Sprintf("ok S %d", int64(v.AsSmallInt()))
	}
	if v.IsReference() {
		if b, ok := v.AsReference().(*value.BigInt); ok {
			return "ok B " + b.ToGoBigInt().String()
		}
	}
	return "other " + v.Inspect()
}

func apply(op string, a, b value.Value) (value.Value, value.Value) {
	switch op {
	case "add":
		return value.AddVal(a, b)
	case "sub":
		return value.SubtractVal(a, b)
	case "mul":
		return value.MultiplyVal(a, b)
	case "div":
		return value.DivideVal(a, b)
	case "mod":
		return value.ModuloVal(a, b)
	}
	panic("unknown op " + op)
}

func run(input string) string {
	f := strings.Fields(input)
	a, _ := new(big.Int).SetString(f[2], 10)
	b, _ := new(big.Int).SetString(f[4], 10)
	return hx.Guard(func() string {
		av, bv := mk(f[1], a), mk(f[3], b)
		r, e := apply(f[0], av, bv)
		return show(r, e)
	})
}

func main() {
	o := hx.ParseFlags()
	defer hx.Flush()
	for i, in := range hx.ReadInputs(o.Input) {
		hx.Emit(fmt.Sprintf("c%d", i), in, run(in))
	}
	r := hx.NewRng(o.Seed)
	ops := []string{"add", "sub", "mul", "div", "mod"}
	for i := 0; i < o.N; i++ {
		var a, b *big.Int
		switch r.Below(4) {
		case 0:
			a, b = r.BoundaryInt(), r.BoundaryInt()
		case 1:
			a, b = r.BigBits(r.Range(1, 200)), r.BigBits(r.Range(1, 200))
		case 2:
			a, b = r.BoundaryInt(), big.NewInt(int64(r.Range(-4, 4)))
		default:
			a, b = r.BigBits(r.Range(1, 70)), r.BoundaryInt()
		}
		in := fmt.Sprintf("%s %s %s %s %s", hx.Pick(r, ops), reprOf(a), a, reprOf(b), b)
		hx.Emit(fmt.Sprintf("g%d", i), in, run(in))
	}
}
