package main

import (
	"bytes"
	"fmt"
	"go/format"
	"os"

	"github.com/elk-language/elk/bitfield"
	"github.com/elk-language/elk/types/checker"
)

func main() {
	src, _ := os.ReadFile(os.Args[1])
	var buffer bytes.Buffer
	gc, diags := checker.CheckSourceNative(os.Args[1], string(src), nil, bitfield.BitField16{}, &buffer, nil)
	if diags != nil {
		fmt.Fprintln(os.Stderr, diags.Error())
	}
	if gc == nil || (diags != nil && diags.IsFailure()) {
		os.Exit(2)
	}
	gc.Flush()
	res, err := format.Source(buffer.Bytes())
	if err != nil {
		os.Stdout.Write(buffer.Bytes())
		fmt.Fprintln(os.Stderr, "format:", err)
		os.Exit(3)
	}
	os.Stdout.Write(res)
}
