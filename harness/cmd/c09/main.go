// c09: harness for "the native Go backend behaves like the bytecode VM".
//
// -mode helpers (default): correspondence stream c09.helpers. Calls the Int runtime helpers the
// generated Go code uses (value.AddInts, SubtractInts, MultiplyInts, DivideInts, ModuloInts,
// GreaterThanInts, GreaterThanEqualInts, LessThanInts, LessThanEqualInts, EqualInts) and, as a
// second oracle on the implementation's own outputs, the functions behind the VM's typed
// opcodes (SmallInt/BigInt .AddVal ... as vm.opAddInt calls them); prints the helper's result
// in the model's vocabulary, suffixed " VMDIFF <vm result>" when the two differ and " MUT"
// when an operand was modified.  Input line: "<op> <repr_a> <a> <repr_b> <b>".
//
// -mode emit -src f.elk -out main.go [-pkg name]: runs the checker with the Go backend
// (checker.CheckSourceNative, exactly what elk.CompileSource does) and writes the gofmt'ed
// generated source.  With -pkg the two tokens that make the file a program (`package main`,
// `func main()`) are rewritten to `package <name>` / `func Main()` so that many generated
// programs can be linked into one binary.  Exit status: 0 emitted, 2 rejected by
// checker/back end (diagnostics on stdout), 3 generated source does not parse (gofmt);
// a Go panic inside the back end kills the process (status 2 from the Go runtime, "panic:" on
// stderr) - the caller classifies that.
package main

import (
	"bytes"
	"flag"
	"fmt"
	"go/format"
	"math/big"
	"os"
	"strings"

	"verifharness/hx"

	"github.com/elk-language/elk/bitfield"
	"github.com/elk-language/elk/types/checker"
	"github.com/elk-language/elk/value"
)

func mk(repr string, z *big.Int) value.Value {
	if repr == "S" {
		return value.SmallInt(z.Int64()).ToValue()
	}
	return value.Ref(value.ToElkBigInt(new(big.Int).Set(z)))
}

func reprOf(z *big.Int) string {
	if z.IsInt64() {
		return "S"
	}
	return "B"
}

func show(v value.Value, err value.Value) string {
	if !err.IsUndefined() {
		cls := err.Class().Name
		if strings.Contains(cls, "ZeroDivision") {
			return "err 1"
		}
		return "err 2 " + cls
	}
	if v.IsSmallInt() {
		return fmt.Sprintf("ok S %d", int64(v.AsSmallInt()))
	}
	if v.IsTrue() {
		return "ok T"
	}
	if v.IsFalse() {
		return "ok F"
	}
	if v.IsReference() {
		if b, ok := v.AsReference().(*value.BigInt); ok {
			return "ok B " + b.ToGoBigInt().String()
		}
	}
	return "other " + v.Inspect()
}

func u(v value.Value) (value.Value, value.Value) { return v, value.Undefined }

// the helper the Go backend emits
func helper(op string, a, b value.Value) (value.Value, value.Value) {
	switch op {
	case "add":
		return u(value.AddInts(a, b))
	case "sub":
		return u(value.SubtractInts(a, b))
	case "mul":
		return u(value.MultiplyInts(a, b))
	case "div":
		return value.DivideInts(a, b)
	case "mod":
		return value.ModuloInts(a, b)
	case "gt":
		return u(value.BoolVal(value.GreaterThanInts(a, b)))
	case "ge":
		return u(value.BoolVal(value.GreaterThanEqualInts(a, b)))
	case "lt":
		return u(value.BoolVal(value.LessThanInts(a, b)))
	case "le":
		return u(value.BoolVal(value.LessThanEqualInts(a, b)))
	case "eq":
		return u(value.BoolVal(value.EqualInts(a, b)))
	}
	panic("unknown op " + op)
}

// what the VM's typed opcode does (vm/thread.go opAddInt ... opEqualInt): dispatch on the
// left operand's representation, then the *Val method
func vmop(op string, a, b value.Value) (value.Value, value.Value) {
	if a.IsSmallInt() {
		l := a.AsSmallInt()
		switch op {
		case "add":
			return l.AddVal(b)
		case "sub":
			return l.SubtractVal(b)
		case "mul":
			return l.MultiplyVal(b)
		case "div":
			return l.DivideVal(b)
		case "mod":
			return l.ModuloVal(b)
		case "gt":
			return l.GreaterThanVal(b)
		case "ge":
			return l.GreaterThanEqualVal(b)
		case "lt":
			return l.LessThanVal(b)
		case "le":
			return l.LessThanEqualVal(b)
		case "eq":
			return u(l.EqualVal(b))
		}
	} else {
		l := a.AsReference().(*value.BigInt)
		switch op {
		case "add":
			return l.AddVal(b)
		case "sub":
			return l.SubtractVal(b)
		case "mul":
			return l.MultiplyVal(b)
		case "div":
			return l.DivideVal(b)
		case "mod":
			return l.ModuloVal(b)
		case "gt":
			return l.GreaterThanVal(b)
		case "ge":
			return l.GreaterThanEqualVal(b)
		case "lt":
			return l.LessThanVal(b)
		case "le":
			return l.LessThanEqualVal(b)
		case "eq":
			return u(l.EqualVal(b))
		}
	}
	panic("unknown op " + op)
}

func bigOf(v value.Value) *big.Int {
	if v.IsSmallInt() {
		return big.NewInt(int64(v.AsSmallInt()))
	}
	return new(big.Int).Set(v.AsReference().(*value.BigInt).ToGoBigInt())
}

func run(input string) string {
	f := strings.Fields(input)
	if len(f) != 5 {
		return "bad-input"
	}
	a, ok1 := new(big.Int).SetString(f[2], 10)
	b, ok2 := new(big.Int).SetString(f[4], 10)
	if !ok1 || !ok2 {
		return "bad-input"
	}
	return hx.Guard(func() string {
		av, bv := mk(f[1], a), mk(f[3], b)
		r, e := helper(f[0], av, bv)
		s := show(r, e)
		if bigOf(av).Cmp(a) != 0 || bigOf(bv).Cmp(b) != 0 {
			s += " MUT"
		}
		av2, bv2 := mk(f[1], a), mk(f[3], b)
		r2, e2 := vmop(f[0], av2, bv2)
		if s2 := show(r2, e2); s2 != s {
			s += " VMDIFF " + s2
		}
		return s
	})
}

var ops = []string{"add", "sub", "mul", "div", "mod", "gt", "ge", "lt", "le", "eq"}

func helpers(o *hx.Opts) {
	defer hx.Flush()
	for i, in := range hx.ReadInputs(o.Input) {
		hx.Emit(fmt.Sprintf("c%d", i), in, run(in))
	}
	r := hx.NewRng(o.Seed)
	for i := 0; i < o.N; i++ {
		var a, b *big.Int
		switch r.Below(6) {
		case 0:
			a, b = r.BoundaryInt(), r.BoundaryInt()
		case 1:
			a, b = r.BigBits(r.Range(1, 200)), r.BigBits(r.Range(1, 200))
		case 2:
			a, b = r.BoundaryInt(), big.NewInt(int64(r.Range(-4, 4)))
		case 3:
			a, b = r.BigBits(r.Range(1, 70)), r.BoundaryInt()
		case 4:
			// products / sums that land next to +-2^63
			a = r.BigBits(r.Range(28, 36))
			b = new(big.Int).Quo(new(big.Int).Lsh(big.NewInt(1), 63), new(big.Int).Add(new(big.Int).Abs(a), big.NewInt(1)))
			b.Add(b, big.NewInt(int64(r.Range(-2, 2))))
		default:
			a = r.BoundaryInt()
			b = new(big.Int).Add(a, big.NewInt(int64(r.Range(-1, 1))))
			if r.Chance(1, 2) {
				b.Neg(b)
			}
		}
		op := hx.Pick(r, ops)
		in := fmt.Sprintf("%s %s %s %s %s", op, reprOf(a), a, reprOf(b), b)
		hx.Emit(fmt.Sprintf("g%d", i), in, run(in))
	}
}

func emit(src, out, pkg string) int {
	text, err := os.ReadFile(src)
	if err != nil {
		fmt.Println("cannot read", src)
		return 4
	}
	var buffer bytes.Buffer
	gc, diags := checker.CheckSourceNative(src, string(text), nil, bitfield.BitField16{}, &buffer, nil)
	if diags != nil && diags.IsFailure() || gc == nil {
		if diags != nil {
			fmt.Println(diags.Error())
		}
		return 2
	}
	gc.Flush()
	res, ferr := format.Source(buffer.Bytes())
	if ferr != nil {
		os.WriteFile(out, buffer.Bytes(), 0644)
		fmt.Println("gofmt:", ferr)
		return 3
	}
	code := string(res)
	if pkg != "" {
		if !strings.HasPrefix(code, "package main\n") || strings.Count(code, "\nfunc main() {") != 1 {
			fmt.Println("unexpected shape of the generated file")
			return 3
		}
		code = "package " + pkg + "\n" + strings.TrimPrefix(code, "package main\n")
		code = strings.Replace(code, "\nfunc main() {", "\nfunc Main() {", 1)
	}
	if err := os.WriteFile(out, []byte(code), 0644); err != nil {
		fmt.Println("cannot write", out)
		return 4
	}
	return 0
}

func main() {
	mode := flag.String("mode", "helpers", "helpers|emit")
	src := flag.String("src", "", "emit: Elk source file")
	out := flag.String("out", "", "emit: Go file to write")
	pkg := flag.String("pkg", "", "emit: rename package main / func main")
	o := hx.ParseFlags()
	if *mode == "emit" {
		os.Exit(emit(*src, *out, *pkg))
	}
	helpers(o)
}
