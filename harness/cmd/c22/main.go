// c22: correspondence streams for Date arithmetic, packing, formatting and parsing.
// Calls the value package directly (MakeDate, AddDateSpan, SubtractDateSpan, DiffDate, Cmp,
// Format, ParseDate, DateSpan.String/ParseDateSpan) and prints the observed result in the
// model's vocabulary.
//
// -extra dates (default): stream c22.dates, every case is replayed on the extracted Coq model
// -extra rt             : stream c22.rt, round trips over directives the model does not cover,
//
//	evaluated on the implementation only
//
// Input lines (space separated, strings hex encoded):
//
//	add y m d months days | sub y m d months days | diff y2 m2 d2 y1 m1 d1
//	diffadd y1 m1 d1 y2 m2 d2 | cmp y1 m1 d1 y2 m2 d2 | pack y m d
//	fmt y m d <fmthex> | parse <fmthex> <inputhex> | rt <det> y m d <fmthex>
//	span months days
//	rt2 <kind> y m d <fmthex>          (c22.rt only)
package main

import (
	"encoding/hex"
	"fmt"
	"strconv"
	"strings"

	"verifharness/hx"

	"github.com/elk-language/elk/value"
)

const minYear, maxYear = -(1 << 22), (1 << 22) - 1

func atoi(s string) int {
	n, err := strconv.Atoi(s)
	if err != nil {
		panic("bad int " + s)
	}
	return n
}

func unhex(s string) string {
	if s == "-" {
		return ""
	}
	b, err := hex.DecodeString(s)
	if err != nil {
		panic("bad hex " + s)
	}
	return string(b)
}

func enhex(s string) string {
	if s == "" {
		return "-"
	}
	return hex.EncodeToString([]byte(s))
}

func showDate(d value.Date) string { return fmt.Sprintf("%d %d %d", d.Year(), d.Month(), d.Day()) }

func showSpan(s value.DateSpan) string {
	return fmt.Sprintf("%d %d", s.Years()*12+s.Months(), s.Days())
}

func isFormatErr(err value.Value) bool {
	return strings.Contains(err.Class().Name, "FormatError")
}

func run(input string) string {
	f := strings.Fields(input)
	return hx.Guard(func() string {
		switch f[0] {
		case "add":
			d := value.MakeDate(atoi(f[1]), atoi(f[2]), atoi(f[3]))
			return showDate(d.AddDateSpan(value.MakeDateSpan(0, atoi(f[4]), atoi(f[5]))))
		case "sub":
			d := value.MakeDate(atoi(f[1]), atoi(f[2]), atoi(f[3]))
			return showDate(d.SubtractDateSpan(value.MakeDateSpan(0, atoi(f[4]), atoi(f[5]))))
		case "diff":
			a := value.MakeDate(atoi(f[1]), atoi(f[2]), atoi(f[3]))
			b := value.MakeDate(atoi(f[4]), atoi(f[5]), atoi(f[6]))
			return showSpan(a.DiffDate(b))
		case "diffadd":
			a := value.MakeDate(atoi(f[1]), atoi(f[2]), atoi(f[3]))
			b := value.MakeDate(atoi(f[4]), atoi(f[5]), atoi(f[6]))
			return showDate(a.AddDateSpan(b.DiffDate(a)))
		case "cmp":
			a := value.MakeDate(atoi(f[1]), atoi(f[2]), atoi(f[3]))
			b := value.MakeDate(atoi(f[4]), atoi(f[5]), atoi(f[6]))
			return strconv.Itoa(a.Cmp(b))
		case "pack":
			return showDate(value.MakeDate(atoi(f[1]), atoi(f[2]), atoi(f[3])))
		case "fmt":
			d := value.MakeDate(atoi(f[1]), atoi(f[2]), atoi(f[3]))
			s, err := d.Format(unhex(f[4]))
			if !err.IsUndefined() {
				return "err"
			}
			return "ok " + enhex(s)
		case "parse":
			d, err := value.ParseDate(unhex(f[1]), unhex(f[2]))
			if !err.IsUndefined() {
				if isFormatErr(err) {
					return "err"
				}
				return "err-other " + err.Class().Name
			}
			return "ok " + showDate(d)
		case "rt", "rt2":
			off := 2
			d := value.MakeDate(atoi(f[off]), atoi(f[off+1]), atoi(f[off+2]))
			format := unhex(f[off+3])
			s, err := d.Format(format)
			if !err.IsUndefined() {
				return "err-format"
			}
			p, err := value.ParseDate(format, s)
			if !err.IsUndefined() {
				if isFormatErr(err) {
					return "err"
				}
				return "err-other " + err.Class().Name
			}
			return "ok " + showDate(p)
		case "span":
			s := value.MakeDateSpan(0, atoi(f[1]), atoi(f[2]))
			p, err := value.ParseDateSpan(s.String())
			if !err.IsUndefined() {
				return "err"
			}
			return showSpan(p)
		case "spanstr":
			// c22.rt: Date::Span and DateTime::Span string round trip on the implementation
			s := value.MakeDateSpan(0, atoi(f[1]), atoi(f[2]))
			p, err := value.ParseDateSpan(s.String())
			if !err.IsUndefined() {
				return "err"
			}
			if !p.Equal(s.ToValue()) {
				return "differs " + showSpan(p)
			}
			dts := value.NewDateTimeSpan(s, value.TimeSpan(atoi(f[3])))
			q, err := value.ParseDateTimeSpan(dts.String())
			if !err.IsUndefined() {
				return "err-dts " + enhex(dts.String())
			}
			if !q.Equal(value.Ref(dts)) {
				return "differs-dts " + enhex(dts.String()) + " " + enhex(q.String())
			}
			return "same"
		case "dtrt":
			// c22.rt: DateTime default to_string / parse round trip (UTC)
			dt := value.NewDateTime(atoi(f[1]), atoi(f[2]), atoi(f[3]), atoi(f[4]), atoi(f[5]), atoi(f[6]), 0, 0, atoi(f[7]), value.UTCTimezone)
			s := dt.String()
			p, err := value.ParseDateTime(value.DefaultDateTimeFormat, s)
			if !err.IsUndefined() {
				return "err " + enhex(s)
			}
			if !p.Equal(value.Ref(dt)) {
				return "differs " + enhex(s) + " " + enhex(p.String())
			}
			return "same"
		}
		return "unknown-op"
	})
}

// ---------------------------------------------------------------- generators

func isLeap(y int) bool { return (y%4 == 0 && y%100 != 0) || y%400 == 0 }
func dim(y, m int) int {
	switch m {
	case 2:
		if isLeap(y) {
			return 29
		}
		return 28
	case 4, 6, 9, 11:
		return 30
	}
	return 31
}

var boundaryYears = []int{minYear, minYear + 1, -100000, -10000, -9999, -1000, -999, -401, -400, -399, -101, -100, -99,
	-10, -9, -5, -4, -1, 0, 1, 4, 5, 9, 10, 99, 100, 400, 999, 1000, 1582, 1899, 1900, 1970, 1999, 2000, 2001, 2023, 2024,
	2100, 9999, 10000, 12345, 99999, 100000, 999999, 1000000, maxYear - 1, maxYear}

func genYear(r *hx.Rng) int {
	switch r.Below(5) {
	case 0, 1:
		return hx.Pick(r, boundaryYears)
	case 2:
		return r.Range(-20, 2500)
	case 3:
		return r.Range(-12000, 12000)
	}
	return r.Range(minYear, maxYear)
}

func genDate(r *hx.Rng) (int, int, int) {
	y := genYear(r)
	m := r.Range(1, 12)
	if r.Chance(1, 3) {
		m = hx.Pick(r, []int{1, 2, 2, 3, 12})
	}
	d := r.Range(1, dim(y, m))
	if r.Chance(1, 3) {
		d = hx.Pick(r, []int{1, 28, 29, 30, 31, dim(y, m)})
		if d > dim(y, m) {
			d = dim(y, m)
		}
	}
	return y, m, d
}

func sign(r *hx.Rng, n int) int {
	if r.Chance(1, 2) {
		return -n
	}
	return n
}

func genMonths(r *hx.Rng) int {
	switch r.Below(6) {
	case 0:
		return 0
	case 1:
		return sign(r, hx.Pick(r, []int{1, 2, 11, 12, 13, 23, 24, 25, 1200, 4800}))
	case 2:
		return r.Range(-40, 40)
	case 3:
		return r.Range(-60000, 60000)
	case 4:
		return sign(r, hx.Pick(r, []int{1<<31 - 1, 1 << 30, 100663296, 50331648}))
	}
	return 0
}

func genDays(r *hx.Rng) int {
	switch r.Below(7) {
	case 0:
		return 0
	case 1:
		return sign(r, hx.Pick(r, []int{1, 27, 28, 29, 30, 31, 59, 60, 365, 366, 1461, 36524, 36525, 146097}))
	case 2:
		return r.Range(-800, 800)
	case 3:
		return sign(r, hx.Pick(r, []int{106751, 106752, 106753, 200000, 213504, 1000000}))
	case 4:
		return r.Range(-3000000, 3000000)
	case 5:
		return sign(r, hx.Pick(r, []int{1<<31 - 1, 1 << 30, 1<<31 - 2}))
	}
	return r.Range(-40, 40)
}

type ftok struct {
	s       string // format text
	numeric bool
	kind    byte // Y m d j C y F D or 0 for text
}

var seps = []string{"-", "/", ".", " ", ":", "T", ", ", "%%", "%n", "%t", "_", " - ", "x"}

func variant(r *hx.Rng, c string) string {
	switch r.Below(3) {
	case 0:
		return "%" + c
	case 1:
		return "%-" + c
	}
	return "%_" + c
}

// genFormat returns the format string, whether every numeric directive is separated from
// the next one by text, and the set of directive kinds used.
func genFormat(r *hx.Rng) (string, bool, string) {
	var kinds []string
	switch r.Below(10) {
	case 0, 1, 2:
		kinds = []string{"Y", "m", "d"}
	case 3:
		kinds = []string{"Y", "j"}
	case 4:
		kinds = []string{"F"}
	case 5:
		kinds = []string{"C", "y", "m", "d"}
	case 6:
		kinds = []string{"Y", "m"}
	case 7:
		kinds = []string{"d", "m", "Y"}
	case 8:
		kinds = []string{"D"}
	default:
		all := []string{"Y", "m", "d", "j", "C", "y", "F", "D"}
		n := r.Range(1, 4)
		for i := 0; i < n; i++ {
			kinds = append(kinds, hx.Pick(r, all))
		}
	}
	if r.Chance(1, 6) {
		// shuffle
		for i := len(kinds) - 1; i > 0; i-- {
			j := r.Below(i + 1)
			kinds[i], kinds[j] = kinds[j], kinds[i]
		}
	}
	separated := true
	var b strings.Builder
	if r.Chance(1, 8) {
		b.WriteString(hx.Pick(r, seps))
	}
	for i, k := range kinds {
		switch k {
		case "F", "D":
			b.WriteString("%" + k)
		case "d":
			if r.Chance(1, 5) {
				b.WriteString("%e")
			} else {
				b.WriteString(variant(r, k))
			}
		default:
			b.WriteString(variant(r, k))
		}
		if i < len(kinds)-1 {
			if r.Chance(1, 7) {
				separated = false
			} else {
				b.WriteString(hx.Pick(r, seps))
			}
		}
	}
	if r.Chance(1, 8) {
		b.WriteString(hx.Pick(r, seps))
	}
	return b.String(), separated, strings.Join(kinds, "")
}

// does a format with these directive kinds determine the date?
func determines(kinds string) bool {
	has := func(c string) bool { return strings.Contains(kinds, c) }
	if strings.Count(kinds, "Y")+strings.Count(kinds, "F") > 1 || strings.Count(kinds, "m") > 1 || strings.Count(kinds, "d") > 1 ||
		strings.Count(kinds, "j") > 1 || strings.Count(kinds, "C") > 1 || strings.Count(kinds, "y") > 1 {
		return false
	}
	if has("D") {
		return false // two-digit year
	}
	if has("F") {
		return !has("j") && !has("m") && !has("d") && !has("C") && !has("y")
	}
	year := (has("Y") && !has("C") && !has("y")) || (has("C") && has("y") && !has("Y") && strings.Index(kinds, "C") < strings.Index(kinds, "y"))
	day := (has("m") && has("d") && !has("j")) || (has("j") && !has("m") && !has("d"))
	return year && day
}

func mutate(r *hx.Rng, s string) string {
	if len(s) == 0 {
		return "x"
	}
	b := []byte(s)
	switch r.Below(8) {
	case 0:
		return s[:r.Below(len(s))]
	case 1:
		return s + hx.Pick(r, []string{"0", " ", "-", "x", "12"})
	case 2:
		i := r.Below(len(b))
		b[i] = hx.Pick(r, []byte("0123456789- /x"))
		return string(b)
	case 3:
		i := r.Below(len(b) + 1)
		return s[:i] + hx.Pick(r, []string{"-", " ", "0", "9", "00"}) + s[i:]
	case 4:
		i := r.Below(len(b))
		return s[:i] + s[i+1:]
	case 5:
		return "-" + s
	case 6:
		return " " + s
	}
	return s
}

func genCase(r *hx.Rng) string {
	switch r.Below(20) {
	case 0, 1, 2, 3:
		y, m, d := genDate(r)
		return fmt.Sprintf("add %d %d %d %d %d", y, m, d, genMonths(r), genDays(r))
	case 4, 5, 6:
		y, m, d := genDate(r)
		return fmt.Sprintf("sub %d %d %d %d %d", y, m, d, genMonths(r), genDays(r))
	case 7:
		y, m, d := genDate(r)
		y2, m2, d2 := genDate(r)
		return fmt.Sprintf("diff %d %d %d %d %d %d", y, m, d, y2, m2, d2)
	case 8, 9:
		y, m, d := genDate(r)
		y2, m2, d2 := genDate(r)
		if r.Chance(1, 2) {
			// nearby dates
			y2 = y + r.Range(-1, 1)
			if y2 < minYear || y2 > maxYear {
				y2 = y
			}
			if d2 > dim(y2, m2) {
				d2 = dim(y2, m2)
			}
		}
		return fmt.Sprintf("diffadd %d %d %d %d %d %d", y, m, d, y2, m2, d2)
	case 10:
		y, m, d := genDate(r)
		y2, m2, d2 := genDate(r)
		if r.Chance(1, 3) {
			y2 = y
			if d2 > dim(y2, m2) {
				d2 = dim(y2, m2)
			}
		}
		return fmt.Sprintf("cmp %d %d %d %d %d %d", y, m, d, y2, m2, d2)
	case 11:
		if r.Chance(1, 2) {
			y, m, d := genDate(r)
			return fmt.Sprintf("pack %d %d %d", y, m, d)
		}
		return fmt.Sprintf("pack %d %d %d", hx.Pick(r, []int{minYear - 1, maxYear + 1, 1 << 23, -(1 << 23), 1<<31 - 1, r.Range(-20000000, 20000000)}), r.Range(0, 15), r.Range(0, 31))
	case 12:
		return fmt.Sprintf("span %d %d", genMonths(r), genDays(r))
	case 13, 14:
		y, m, d := genDate(r)
		f, _, _ := genFormat(r)
		return fmt.Sprintf("fmt %d %d %d %s", y, m, d, enhex(f))
	case 15, 16:
		y, m, d := genDate(r)
		f, _, _ := genFormat(r)
		s, err := value.MakeDate(y, m, d).Format(f)
		if !err.IsUndefined() {
			s = "x"
		}
		if r.Chance(2, 3) {
			s = mutate(r, s)
		}
		return fmt.Sprintf("parse %s %s", enhex(f), enhex(s))
	default:
		y, m, d := genDate(r)
		f, separated, kinds := genFormat(r)
		det := 0
		if determines(kinds) && (separated || strings.Count(kinds, "")-1 == 1) {
			det = 1
		}
		return fmt.Sprintf("rt %d %d %d %d %s", det, y, m, d, enhex(f))
	}
}

// c22.rt: directives outside the model; the round trip is evaluated on the implementation
var rt2Templates = []struct{ kind, format string }{
	{"names", "%Y %B %d"}, {"names", "%d %b %Y"}, {"names", "%A, %-d %^B %-Y"}, {"names", "%a %e %h %_Y"},
	{"names", "%^a %^b %d %Y"},
	{"iso-week", "%G-W%V-%u"}, {"iso-week", "%-G %-V %u"}, {"iso-week", "%_G/%_V/%u"}, {"iso-week", "%G %V %a"},
	{"week-mon", "%Y %W %u"}, {"week-mon", "%-Y/%-W/%u"}, {"week-mon", "%Y %_W %A"},
	{"week-sun", "%Y %U %w"}, {"week-sun", "%-Y/%-U/%w"},
	{"default", "%Y-%m-%d"}, {"default", "%F"},
}

func genCaseRT(r *hx.Rng) string {
	switch r.Below(10) {
	case 0:
		return fmt.Sprintf("spanstr %d %d %d", genMonths(r), genDays(r), hx.Pick(r, []int{0, 1, -1, 999999999, 3600000000000, -3600000000000, 86399999999999, -86399999999999, r.Range(-86399, 86399) * 1000000000}))
	case 1:
		y, m, d := genDate(r)
		return fmt.Sprintf("dtrt %d %d %d %d %d %d %d", y, m, d, r.Range(0, 23), r.Range(0, 59), r.Range(0, 59), hx.Pick(r, []int{0, 1, 999999999, r.Range(0, 999999999)}))
	}
	y, m, d := genDate(r)
	t := hx.Pick(r, rt2Templates)
	return fmt.Sprintf("rt2 %s %d %d %d %s", t.kind, y, m, d, enhex(t.format))
}

func main() {
	o := hx.ParseFlags()
	defer hx.Flush()
	value.InitGlobalEnvironment()
	for i, in := range hx.ReadInputs(o.Input) {
		hx.Emit(fmt.Sprintf("c%d", i), in, run(in))
	}
	r := hx.NewRng(o.Seed)
	for i := 0; i < o.N; i++ {
		var in string
		if o.Extra == "rt" {
			in = genCaseRT(r)
		} else {
			in = genCase(r)
		}
		hx.Emit(fmt.Sprintf("g%d", i), in, run(in))
	}
}
