// c22: correspondence streams for Date arithmetic, packing, formatting and parsing.
// Calls the value package directly (MakeDate, AddDateSpan, SubtractDateSpan, DiffDate, Cmp,
// Format, ParseDate, DateSpan.String/ParseDateSpan) and prints the observed result in the
// model's vocabulary.
//
// -extra dates (default): stream c22.dates, every case is replayed on the extracted Coq model
// -extra rt             : stream c22.rt, round trips over directives the model does not cover,
//
//	evaluated on the implementation only
//
// Input lines (space separated, strings hex encoded):
//
//	add y m d months days | sub y m d months days | diff y2 m2 d2 y1 m1 d1
//	diffadd y1 m1 d1 y2 m2 d2 | cmp y1 m1 d1 y2 m2 d2 | pack y m d
//	fmt y m d <fmthex> | parse <fmthex> <inputhex> | rt <det> y m d <fmthex>
//	span months days
//	rt2 <kind> y m d <fmthex>          (c22.rt only)
//
// -extra histgen        : stream c22.hist, PRINTS a seeded operation sequence without running it
//
//	(the check replays it with -input in several orders, each order in ONE process, and
//	every operation alone in a fresh process: results must not depend on the history).
//	Besides the Date operations above a history contains DateTime operations in
//	fixed-offset zones (<dt> = y m d H M S ns off, off = seconds east of UTC):
//
//	zmk <dt> | zfmt <dt> <fmthex> | zparse <fmthex> <inputhex> | zrt <dt> <fmthex>
//	zcmp <dt> <dt> | zin <dt> off2 | zaddt <dt> ns | zaddd <dt> months days
//	tzname off | tzload <namehex>
package main

import (
	"encoding/hex"
	"fmt"
	"strconv"
	"strings"

	"verifharness/hx"

	"github.com/elk-language/elk/value"
)

const minYear, maxYear = -(1 << 22), (1 << 22) - 1

func atoi(s string) int {
	n, err := strconv.Atoi(s)
	if err != nil {
		panic("bad int " + s)
	}
	return n
}

func unhex(s string) string {
	if s == "-" {
		return ""
	}
	b, err := hex.DecodeString(s)
	if err != nil {
		panic("bad hex " + s)
	}
	return string(b)
}

func enhex(s string) string {
	if s == "" {
		return "-"
	}
	return hex.EncodeToString([]byte(s))
}

func showDate(d value.Date) string { return fmt.Sprintf("%d %d %d", d.Year(), d.Month(), d.Day()) }

func showSpan(s value.DateSpan) string {
	return fmt.Sprintf("%d %d", s.Years()*12+s.Months(), s.Days())
}

func isFormatErr(err value.Value) bool {
	return strings.Contains(err.Class().Name, "FormatError")
}

func run(input string) string {
	f := strings.Fields(input)
	return hx.Guard(func() string {
		switch f[0] {
		case "add":
			d := value.MakeDate(atoi(f[1]), atoi(f[2]), atoi(f[3]))
			return showDate(d.AddDateSpan(value.MakeDateSpan(0, atoi(f[4]), atoi(f[5]))))
		case "sub":
			d := value.MakeDate(atoi(f[1]), atoi(f[2]), atoi(f[3]))
			return showDate(d.SubtractDateSpan(value.MakeDateSpan(0, atoi(f[4]), atoi(f[5]))))
		case "diff":
			a := value.MakeDate(atoi(f[1]), atoi(f[2]), atoi(f[3]))
			b := value.MakeDate(atoi(f[4]), atoi(f[5]), atoi(f[6]))
			return showSpan(a.DiffDate(b))
		case "diffadd":
			a := value.MakeDate(atoi(f[1]), atoi(f[2]), atoi(f[3]))
			b := value.MakeDate(atoi(f[4]), atoi(f[5]), atoi(f[6]))
			return showDate(a.AddDateSpan(b.DiffDate(a)))
		case "cmp":
			a := value.MakeDate(atoi(f[1]), atoi(f[2]), atoi(f[3]))
			b := value.MakeDate(atoi(f[4]), atoi(f[5]), atoi(f[6]))
			return strconv.Itoa(a.Cmp(b))
		case "pack":
			return showDate(value.MakeDate(atoi(f[1]), atoi(f[2]), atoi(f[3])))
		case "fmt":
			d := value.MakeDate(atoi(f[1]), atoi(f[2]), atoi(f[3]))
			s, err := d.Format(unhex(f[4]))
			if !err.IsUndefined() {
				return "err"
			}
			return "ok " + enhex(s)
		case "parse":
			d, err := value.ParseDate(unhex(f[1]), unhex(f[2]))
			if !err.IsUndefined() {
				if isFormatErr(err) {
					return "err"
				}
				return "err-other " + err.Class().Name
			}
			return "ok " + showDate(d)
		case "rt", "rt2":
			off := 2
			d := value.MakeDate(atoi(f[off]), atoi(f[off+1]), atoi(f[off+2]))
			format := unhex(f[off+3])
			s, err := d.Format(format)
			if !err.IsUndefined() {
				return "err-format"
			}
			p, err := value.ParseDate(format, s)
			if !err.IsUndefined() {
				if isFormatErr(err) {
					return "err"
				}
				return "err-other " + err.Class().Name
			}
			return "ok " + showDate(p)
		case "span":
			s := value.MakeDateSpan(0, atoi(f[1]), atoi(f[2]))
			p, err := value.ParseDateSpan(s.String())
			if !err.IsUndefined() {
				return "err"
			}
			return showSpan(p)
		case "spanstr":
			// c22.rt: Date::Span and DateTime::Span string round trip on the implementation
			s := value.MakeDateSpan(0, atoi(f[1]), atoi(f[2]))
			p, err := value.ParseDateSpan(s.String())
			if !err.IsUndefined() {
				return "err"
			}
			if !p.Equal(s.ToValue()) {
				return "differs " + showSpan(p)
			}
			dts := value.NewDateTimeSpan(s, value.TimeSpan(atoi(f[3])))
			q, err := value.ParseDateTimeSpan(dts.String())
			if !err.IsUndefined() {
				return "err-dts " + enhex(dts.String())
			}
			if !q.Equal(value.Ref(dts)) {
				return "differs-dts " + enhex(dts.String()) + " " + enhex(q.String())
			}
			return "same"
		case "zmk":
			return showZ(mkZ(f[1:9]))
		case "zfmt":
			s, err := mkZ(f[1:9]).Format(unhex(f[9]))
			if !err.IsUndefined() {
				return "err"
			}
			return "ok " + enhex(s)
		case "zparse":
			p, err := value.ParseDateTime(unhex(f[1]), unhex(f[2]))
			if !err.IsUndefined() {
				if isFormatErr(err) {
					return "err"
				}
				return "err-other " + err.Class().Name
			}
			return "ok " + showZ(p)
		case "zrt":
			dt := mkZ(f[1:9])
			format := unhex(f[9])
			s, err := dt.Format(format)
			if !err.IsUndefined() {
				return "err-format"
			}
			p, err := value.ParseDateTime(format, s)
			if !err.IsUndefined() {
				if isFormatErr(err) {
					return "err"
				}
				return "err-other " + err.Class().Name
			}
			eq := "ne"
			if p.Equal(value.Ref(dt)) {
				eq = "eq"
			}
			return "ok " + showZ(p) + " " + eq
		case "zcmp":
			return strconv.Itoa(mkZ(f[1:9]).Cmp(mkZ(f[9:17])))
		case "zin":
			return showZ(mkZ(f[1:9]).InZone(zoneOf(atoi(f[9]))))
		case "zaddt":
			return showZ(mkZ(f[1:9]).AddTimeSpan(value.TimeSpan(atoi(f[9]))))
		case "zaddd":
			return showZ(mkZ(f[1:9]).AddDateSpan(value.MakeDateSpan(0, atoi(f[9]), atoi(f[10]))))
		case "tzname":
			return enhex(zoneOf(atoi(f[1])).Name())
		case "tzload":
			z, err := value.LoadTimezone(unhex(f[1]))
			if !err.IsUndefined() {
				return "err"
			}
			return fmt.Sprintf("ok %d", value.NewDateTime(2000, 1, 1, 0, 0, 0, 0, 0, 0, z).ZoneOffsetSeconds())
		case "dtrt":
			// c22.rt: DateTime default to_string / parse round trip (UTC)
			dt := value.NewDateTime(atoi(f[1]), atoi(f[2]), atoi(f[3]), atoi(f[4]), atoi(f[5]), atoi(f[6]), 0, 0, atoi(f[7]), value.UTCTimezone)
			s := dt.String()
			p, err := value.ParseDateTime(value.DefaultDateTimeFormat, s)
			if !err.IsUndefined() {
				return "err " + enhex(s)
			}
			if !p.Equal(value.Ref(dt)) {
				return "differs " + enhex(s) + " " + enhex(p.String())
			}
			return "same"
		}
		return "unknown-op"
	})
}

// fixed-offset zone as Timezone.from_offset creates it
func zoneOf(off int) *value.Timezone {
	return value.NewTimezoneFromOffset(value.TimeSpan(off) * value.Second)
}

func mkZ(f []string) *value.DateTime {
	return value.NewDateTime(atoi(f[0]), atoi(f[1]), atoi(f[2]), atoi(f[3]), atoi(f[4]), atoi(f[5]), 0, 0, atoi(f[6]), zoneOf(atoi(f[7])))
}

// civil fields, zone offset (seconds east) and the instant (unix seconds)
func showZ(t *value.DateTime) string {
	return fmt.Sprintf("%d %d %d %d %d %d %d %d %d", t.Year(), t.Month(), t.Day(), t.Hour(), t.Minute(), t.Second(),
		t.NanosecondsInSecond(), t.ZoneOffsetSeconds(), t.UnixSeconds())
}

// ---------------------------------------------------------------- generators

func isLeap(y int) bool { return (y%4 == 0 && y%100 != 0) || y%400 == 0 }
func dim(y, m int) int {
	switch m {
	case 2:
		if isLeap(y) {
			return 29
		}
		return 28
	case 4, 6, 9, 11:
		return 30
	}
	return 31
}

var boundaryYears = []int{minYear, minYear + 1, -100000, -10000, -9999, -1000, -999, -401, -400, -399, -101, -100, -99,
	-10, -9, -5, -4, -1, 0, 1, 4, 5, 9, 10, 99, 100, 400, 999, 1000, 1582, 1899, 1900, 1970, 1999, 2000, 2001, 2023, 2024,
	2100, 9999, 10000, 12345, 99999, 100000, 999999, 1000000, maxYear - 1, maxYear}

func genYear(r *hx.Rng) int {
	switch r.Below(5) {
	case 0, 1:
		return hx.Pick(r, boundaryYears)
	case 2:
		return r.Range(-20, 2500)
	case 3:
		return r.Range(-12000, 12000)
	}
	return r.Range(minYear, maxYear)
}

func genDate(r *hx.Rng) (int, int, int) {
	y := genYear(r)
	m := r.Range(1, 12)
	if r.Chance(1, 3) {
		m = hx.Pick(r, []int{1, 2, 2, 3, 12})
	}
	d := r.Range(1, dim(y, m))
	if r.Chance(1, 3) {
		d = hx.Pick(r, []int{1, 28, 29, 30, 31, dim(y, m)})
		if d > dim(y, m) {
			d = dim(y, m)
		}
	}
	return y, m, d
}

func sign(r *hx.Rng, n int) int {
	if r.Chance(1, 2) {
		return -n
	}
	return n
}

func genMonths(r *hx.Rng) int {
	switch r.Below(6) {
	case 0:
		return 0
	case 1:
		return sign(r, hx.Pick(r, []int{1, 2, 11, 12, 13, 23, 24, 25, 1200, 4800}))
	case 2:
		return r.Range(-40, 40)
	case 3:
		return r.Range(-60000, 60000)
	case 4:
		return sign(r, hx.Pick(r, []int{1<<31 - 1, 1 << 30, 100663296, 50331648}))
	}
	return 0
}

func genDays(r *hx.Rng) int {
	switch r.Below(7) {
	case 0:
		return 0
	case 1:
		return sign(r, hx.Pick(r, []int{1, 27, 28, 29, 30, 31, 59, 60, 365, 366, 1461, 36524, 36525, 146097}))
	case 2:
		return r.Range(-800, 800)
	case 3:
		return sign(r, hx.Pick(r, []int{106751, 106752, 106753, 200000, 213504, 1000000}))
	case 4:
		return r.Range(-3000000, 3000000)
	case 5:
		return sign(r, hx.Pick(r, []int{1<<31 - 1, 1 << 30, 1<<31 - 2}))
	}
	return r.Range(-40, 40)
}

type ftok struct {
	s       string // format text
	numeric bool
	kind    byte // Y m d j C y F D or 0 for text
}

var seps = []string{"-", "/", ".", " ", ":", "T", ", ", "%%", "%n", "%t", "_", " - ", "x"}

func variant(r *hx.Rng, c string) string {
	switch r.Below(3) {
	case 0:
		return "%" + c
	case 1:
		return "%-" + c
	}
	return "%_" + c
}

// genFormat returns the format string, whether every numeric directive is separated from
// the next one by text, and the set of directive kinds used.
func genFormat(r *hx.Rng) (string, bool, string) {
	var kinds []string
	switch r.Below(10) {
	case 0, 1, 2:
		kinds = []string{"Y", "m", "d"}
	case 3:
		kinds = []string{"Y", "j"}
	case 4:
		kinds = []string{"F"}
	case 5:
		kinds = []string{"C", "y", "m", "d"}
	case 6:
		kinds = []string{"Y", "m"}
	case 7:
		kinds = []string{"d", "m", "Y"}
	case 8:
		kinds = []string{"D"}
	default:
		all := []string{"Y", "m", "d", "j", "C", "y", "F", "D"}
		n := r.Range(1, 4)
		for i := 0; i < n; i++ {
			kinds = append(kinds, hx.Pick(r, all))
		}
	}
	if r.Chance(1, 6) {
		// shuffle
		for i := len(kinds) - 1; i > 0; i-- {
			j := r.Below(i + 1)
			kinds[i], kinds[j] = kinds[j], kinds[i]
		}
	}
	separated := true
	var b strings.Builder
	if r.Chance(1, 8) {
		b.WriteString(hx.Pick(r, seps))
	}
	for i, k := range kinds {
		switch k {
		case "F", "D":
			b.WriteString("%" + k)
		case "d":
			if r.Chance(1, 5) {
				b.WriteString("%e")
			} else {
				b.WriteString(variant(r, k))
			}
		default:
			b.WriteString(variant(r, k))
		}
		if i < len(kinds)-1 {
			if r.Chance(1, 7) {
				separated = false
			} else {
				b.WriteString(hx.Pick(r, seps))
			}
		}
	}
	if r.Chance(1, 8) {
		b.WriteString(hx.Pick(r, seps))
	}
	return b.String(), separated, strings.Join(kinds, "")
}

// does a format with these directive kinds determine the date?
func determines(kinds string) bool {
	has := func(c string) bool { return strings.Contains(kinds, c) }
	if strings.Count(kinds, "Y")+strings.Count(kinds, "F") > 1 || strings.Count(kinds, "m") > 1 || strings.Count(kinds, "d") > 1 ||
		strings.Count(kinds, "j") > 1 || strings.Count(kinds, "C") > 1 || strings.Count(kinds, "y") > 1 {
		return false
	}
	if has("D") {
		return false // two-digit year
	}
	if has("F") {
		return !has("j") && !has("m") && !has("d") && !has("C") && !has("y")
	}
	year := (has("Y") && !has("C") && !has("y")) || (has("C") && has("y") && !has("Y") && strings.Index(kinds, "C") < strings.Index(kinds, "y"))
	day := (has("m") && has("d") && !has("j")) || (has("j") && !has("m") && !has("d"))
	return year && day
}

func mutate(r *hx.Rng, s string) string {
	if len(s) == 0 {
		return "x"
	}
	b := []byte(s)
	switch r.Below(8) {
	case 0:
		return s[:r.Below(len(s))]
	case 1:
		return s + hx.Pick(r, []string{"0", " ", "-", "x", "12"})
	case 2:
		i := r.Below(len(b))
		b[i] = hx.Pick(r, []byte("0123456789- /x"))
		return string(b)
	case 3:
		i := r.Below(len(b) + 1)
		return s[:i] + hx.Pick(r, []string{"-", " ", "0", "9", "00"}) + s[i:]
	case 4:
		i := r.Below(len(b))
		return s[:i] + s[i+1:]
	case 5:
		return "-" + s
	case 6:
		return " " + s
	}
	return s
}

func genCase(r *hx.Rng) string {
	switch r.Below(20) {
	case 0, 1, 2, 3:
		y, m, d := genDate(r)
		return fmt.Sprintf("add %d %d %d %d %d", y, m, d, genMonths(r), genDays(r))
	case 4, 5, 6:
		y, m, d := genDate(r)
		return fmt.Sprintf("sub %d %d %d %d %d", y, m, d, genMonths(r), genDays(r))
	case 7:
		y, m, d := genDate(r)
		y2, m2, d2 := genDate(r)
		return fmt.Sprintf("diff %d %d %d %d %d %d", y, m, d, y2, m2, d2)
	case 8, 9:
		y, m, d := genDate(r)
		y2, m2, d2 := genDate(r)
		if r.Chance(1, 2) {
			// nearby dates
			y2 = y + r.Range(-1, 1)
			if y2 < minYear || y2 > maxYear {
				y2 = y
			}
			if d2 > dim(y2, m2) {
				d2 = dim(y2, m2)
			}
		}
		return fmt.Sprintf("diffadd %d %d %d %d %d %d", y, m, d, y2, m2, d2)
	case 10:
		y, m, d := genDate(r)
		y2, m2, d2 := genDate(r)
		if r.Chance(1, 3) {
			y2 = y
			if d2 > dim(y2, m2) {
				d2 = dim(y2, m2)
			}
		}
		return fmt.Sprintf("cmp %d %d %d %d %d %d", y, m, d, y2, m2, d2)
	case 11:
		if r.Chance(1, 2) {
			y, m, d := genDate(r)
			return fmt.Sprintf("pack %d %d %d", y, m, d)
		}
		return fmt.Sprintf("pack %d %d %d", hx.Pick(r, []int{minYear - 1, maxYear + 1, 1 << 23, -(1 << 23), 1<<31 - 1, r.Range(-20000000, 20000000)}), r.Range(0, 15), r.Range(0, 31))
	case 12:
		return fmt.Sprintf("span %d %d", genMonths(r), genDays(r))
	case 13, 14:
		y, m, d := genDate(r)
		f, _, _ := genFormat(r)
		return fmt.Sprintf("fmt %d %d %d %s", y, m, d, enhex(f))
	case 15, 16:
		y, m, d := genDate(r)
		f, _, _ := genFormat(r)
		s, err := value.MakeDate(y, m, d).Format(f)
		if !err.IsUndefined() {
			s = "x"
		}
		if r.Chance(2, 3) {
			s = mutate(r, s)
		}
		return fmt.Sprintf("parse %s %s", enhex(f), enhex(s))
	default:
		y, m, d := genDate(r)
		f, separated, kinds := genFormat(r)
		det := 0
		if determines(kinds) && (separated || strings.Count(kinds, "")-1 == 1) {
			det = 1
		}
		return fmt.Sprintf("rt %d %d %d %d %s", det, y, m, d, enhex(f))
	}
}

// c22.rt: directives outside the model; the round trip is evaluated on the implementation
var rt2Templates = []struct{ kind, format string }{
	{"names", "%Y %B %d"}, {"names", "%d %b %Y"}, {"names", "%A, %-d %^B %-Y"}, {"names", "%a %e %h %_Y"},
	{"names", "%^a %^b %d %Y"},
	{"iso-week", "%G-W%V-%u"}, {"iso-week", "%-G %-V %u"}, {"iso-week", "%_G/%_V/%u"}, {"iso-week", "%G %V %a"},
	{"week-mon", "%Y %W %u"}, {"week-mon", "%-Y/%-W/%u"}, {"week-mon", "%Y %_W %A"},
	{"week-sun", "%Y %U %w"}, {"week-sun", "%-Y/%-U/%w"},
	{"default", "%Y-%m-%d"}, {"default", "%F"},
}

func genCaseRT(r *hx.Rng) string {
	switch r.Below(10) {
	case 0:
		return fmt.Sprintf("spanstr %d %d %d", genMonths(r), genDays(r), hx.Pick(r, []int{0, 1, -1, 999999999, 3600000000000, -3600000000000, 86399999999999, -86399999999999, r.Range(-86399, 86399) * 1000000000}))
	case 1:
		y, m, d := genDate(r)
		return fmt.Sprintf("dtrt %d %d %d %d %d %d %d", y, m, d, r.Range(0, 23), r.Range(0, 59), r.Range(0, 59), hx.Pick(r, []int{0, 1, 999999999, r.Range(0, 999999999)}))
	}
	y, m, d := genDate(r)
	t := hx.Pick(r, rt2Templates)
	return fmt.Sprintf("rt2 %s %d %d %d %s", t.kind, y, m, d, enhex(t.format))
}

// ---------------------------------------------------------------- c22.hist: operation histories

// The zone offsets of one history: a small pool of magnitudes (whole, half and quarter hour
// zones of the real world -12:00..+14:00, plus arbitrary minute offsets below 24 h); every
// operation draws a magnitude from the pool and a sign, so that the same magnitude occurs
// with both signs, in seeded order, many times within one process.
type histGen struct {
	r    *hx.Rng
	mags []int // seconds
}

var worldMinutes = []int{0, 30, 45, 0, 0, 15}

func newHistGen(r *hx.Rng) *histGen {
	g := &histGen{r: r}
	n := r.Range(4, 14)
	for i := 0; i < n; i++ {
		var m int
		switch r.Below(6) {
		case 0:
			m = r.Range(1, 23*60+59) * 60
		case 1:
			m = hx.Pick(r, []int{3600, 12 * 3600, 14 * 3600, 13*3600 + 45*60, 9*3600 + 30*60, 5*3600 + 45*60, 3*3600 + 30*60, 23*3600 + 59*60, 60, 0})
		default:
			m = (r.Range(0, 14)*60 + hx.Pick(r, worldMinutes)) * 60
		}
		g.mags = append(g.mags, m)
	}
	return g
}

func (g *histGen) off() int {
	m := hx.Pick(g.r, g.mags)
	if g.r.Chance(1, 2) {
		return -m
	}
	return m
}

func (g *histGen) dt() string {
	r := g.r
	y, m, d := genDate(r)
	if r.Chance(1, 2) {
		y = r.Range(-30, 2500)
		if d > dim(y, m) {
			d = dim(y, m)
		}
	}
	// keep clear of the ends of the Date range: zone conversion may move the day
	if y <= minYear+1 {
		y = minYear + 2
	}
	if y >= maxYear-1 {
		y = maxYear - 2
	}
	if d > dim(y, m) {
		d = dim(y, m)
	}
	H, M, S := r.Range(0, 23), r.Range(0, 59), r.Range(0, 59)
	if r.Chance(1, 4) {
		H, M, S = hx.Pick(r, []int{0, 23}), hx.Pick(r, []int{0, 59}), hx.Pick(r, []int{0, 59})
	}
	ns := hx.Pick(r, []int{0, 0, 1, 999999999, 123000000, r.Range(0, 999999999)})
	return fmt.Sprintf("%d %d %d %d %d %d %d %d", y, m, d, H, M, S, ns, g.off())
}

var zDateFmts = []string{"%Y-%m-%d", "%F", "%Y%m%d", "%d/%m/%Y", "%Y-%j", "%-d.%-m.%-Y", "%_Y %_m %_d"}
var zTimeFmts = []string{"%H:%M:%S", "%T", "%H%M%S", "%R", "%H:%M:%S.%9N", "%T.%L", "%H:%M:%S.%N", "%_H:%_M:%_S", "%-H:%-M:%-S"}
var zSeps = []string{" ", "T", "", " at ", "_"}

func (g *histGen) format() string {
	r := g.r
	if r.Chance(1, 3) {
		return value.DefaultDateTimeFormat
	}
	z := "%:z"
	if r.Chance(1, 2) {
		z = "%z"
	}
	zsep := hx.Pick(r, []string{" ", "", " ", "Z"})
	if r.Chance(1, 10) {
		return z + " " + hx.Pick(r, zDateFmts) + hx.Pick(r, zSeps) + hx.Pick(r, zTimeFmts)
	}
	return hx.Pick(r, zDateFmts) + hx.Pick(r, zSeps) + hx.Pick(r, zTimeFmts) + zsep + z
}

// the text of a DateTime under one of the generator's formats, written independently of the
// implementation (the generator must not run the code under test with zones)
func ownFormat(format string, f []int) string {
	y, m, d, H, M, S, ns, off := f[0], f[1], f[2], f[3], f[4], f[5], f[6], f[7]
	yday := d
	for i := 1; i < m; i++ {
		yday += dim(y, i)
	}
	sign := "+"
	if off < 0 {
		sign, off = "-", -off
	}
	rep := strings.NewReplacer(
		"%Y", fmt.Sprintf("%04d", y), "%-Y", fmt.Sprintf("%d", y), "%_Y", fmt.Sprintf("%4d", y),
		"%m", fmt.Sprintf("%02d", m), "%-m", fmt.Sprintf("%d", m), "%_m", fmt.Sprintf("%2d", m),
		"%d", fmt.Sprintf("%02d", d), "%-d", fmt.Sprintf("%d", d), "%_d", fmt.Sprintf("%2d", d),
		"%j", fmt.Sprintf("%03d", yday), "%F", fmt.Sprintf("%04d-%02d-%02d", y, m, d),
		"%H", fmt.Sprintf("%02d", H), "%-H", fmt.Sprintf("%d", H), "%_H", fmt.Sprintf("%2d", H),
		"%M", fmt.Sprintf("%02d", M), "%-M", fmt.Sprintf("%d", M), "%_M", fmt.Sprintf("%2d", M),
		"%S", fmt.Sprintf("%02d", S), "%-S", fmt.Sprintf("%d", S), "%_S", fmt.Sprintf("%2d", S),
		"%T", fmt.Sprintf("%02d:%02d:%02d", H, M, S), "%R", fmt.Sprintf("%02d:%02d", H, M),
		"%9N", fmt.Sprintf("%09d", ns), "%N", fmt.Sprintf("%09d", ns), "%L", fmt.Sprintf("%03d", ns/1000000),
		"%:z", fmt.Sprintf("%s%02d:%02d", sign, off/3600, off%3600/60), "%z", fmt.Sprintf("%s%02d%02d", sign, off/3600, off%3600/60),
	)
	return rep.Replace(format)
}

func mutateOffset(r *hx.Rng, s string) string {
	// change the text of the offset: other sign character, out-of-range hours/minutes, missing/extra colon
	i := strings.LastIndexAny(s, "+-")
	if i < 0 {
		return mutate(r, s)
	}
	switch r.Below(6) {
	case 0:
		return s[:i] + hx.Pick(r, []string{"+", "-", " ", "", "\u2212"}) + s[i+1:]
	case 1:
		return s[:i+1] + hx.Pick(r, []string{"24", "23", "99", "2", ""}) + s[min(i+3, len(s)):]
	case 2:
		if strings.Contains(s[i:], ":") {
			return s[:i] + strings.Replace(s[i:], ":", "", 1)
		}
		if len(s) >= i+3 {
			return s[:i+3] + ":" + s[i+3:]
		}
	case 3:
		return s + hx.Pick(r, []string{"0", ":", ":00", " "})
	case 4:
		if len(s) > i+3 {
			return s[:len(s)-2] + hx.Pick(r, []string{"60", "59", "99", "5"})
		}
	}
	return mutate(r, s)
}

func ints(s string) []int {
	var out []int
	for _, x := range strings.Fields(s) {
		out = append(out, atoi(x))
	}
	return out
}

func (g *histGen) next() string {
	r := g.r
	switch r.Below(20) {
	case 0, 1, 2, 3, 4:
		return genCase(r) // Date operations (no zones)
	case 5, 6, 7, 8:
		dt := g.dt()
		f := g.format()
		s := ownFormat(f, ints(dt))
		switch r.Below(6) {
		case 0:
			s = mutateOffset(r, s)
		case 1:
			s = mutate(r, s)
		}
		return fmt.Sprintf("zparse %s %s", enhex(f), enhex(s))
	case 9, 10, 11, 12:
		return fmt.Sprintf("zrt %s %s", g.dt(), enhex(g.format()))
	case 13, 14:
		return fmt.Sprintf("zfmt %s %s", g.dt(), enhex(g.format()))
	case 15:
		a := g.dt()
		b := g.dt()
		if r.Chance(1, 2) {
			// the same wall clock in another zone of the pool
			fa := strings.Fields(a)
			fa[7] = strconv.Itoa(g.off())
			b = strings.Join(fa, " ")
		}
		return fmt.Sprintf("zcmp %s %s", a, b)
	case 16:
		return fmt.Sprintf("zin %s %d", g.dt(), g.off())
	case 17:
		ns := hx.Pick(r, []int{0, 1, -1, 999999999, 3600000000000, -3600000000000, 86400000000000, -86400000000000,
			r.Range(-86400*400, 86400*400) * 1000000000, r.Range(-1000000000, 1000000000) * r.Range(0, 3000000)})
		return fmt.Sprintf("zaddt %s %d", g.dt(), ns)
	case 18:
		return fmt.Sprintf("zaddd %s %d %d", g.dt(), r.Range(-40, 40)*r.Below(3), genDays(r)%3000000)
	}
	switch r.Below(3) {
	case 0:
		return fmt.Sprintf("tzname %d", g.off())
	case 1:
		off := g.off()
		sign := "+"
		if off < 0 {
			sign, off = "-", -off
		}
		return fmt.Sprintf("tzload %s", enhex(fmt.Sprintf("UTC%s%02d:%02d", sign, off/3600, off%3600/60)))
	}
	return fmt.Sprintf("zmk %s", g.dt())
}

func main() {
	o := hx.ParseFlags()
	defer hx.Flush()
	value.InitGlobalEnvironment()
	if o.Extra == "histgen" {
		g := newHistGen(hx.NewRng(o.Seed))
		for i := 0; i < o.N; i++ {
			hx.Emit(fmt.Sprintf("h%d", i), g.next(), "-")
		}
		return
	}
	for i, in := range hx.ReadInputs(o.Input) {
		hx.Emit(fmt.Sprintf("c%d", i), in, run(in))
	}
	r := hx.NewRng(o.Seed)
	for i := 0; i < o.N; i++ {
		var in string
		if o.Extra == "rt" {
			in = genCaseRT(r)
		} else {
			in = genCase(r)
		}
		hx.Emit(fmt.Sprintf("g%d", i), in, run(in))
	}
}
