// c19 -extra lit: the LITERAL direction of C19 — "integer literals in every supported base and
// String#to_int denote exactly the written value".
//
// cases (generated here or replayed from corpus/C19.lit.txt):
//
//	L <text>         an integer literal spelling (optional unary sign, prefix 0x 0o 0b 0d 0q in
//	                 either case, `_` separators, leading zeros, suffix i8..u64/u); evaluated by the
//	                 real checker + compiler + VM in batched programs; observed = structural dump
//	                 ("I10", "i8:10", "u:12") or "error <first line>"
//	T <base> <hex>   value.String(bytes).ToInt(base) at the Go API (what String#to_int calls);
//	                 observed = "I<decimal>", "error" (FormatError) or "error-other <...>"
//	E <base> <text>  "<text>".to_int(<base>) (base 0: no argument) evaluated at the Elk level through
//	                 a helper method that catches FormatError; text is restricted to [0-9A-Za-z_+-]
//	F <text>         a Float / Float64 / Float32 literal spelling; observed = dump of the value (bits)
//
// The expected VALUES are never computed here: they come from the extracted Coq model
// (eval_literal / to_int) and from an independent exact oracle in checks/C19.py.
package main

import (
	"encoding/hex"
	"fmt"
	"math/big"
	"strconv"
	"strings"

	"verifharness/hx"

	"github.com/elk-language/elk/value"
)

const digitChars = "0123456789abcdefghijklmnopqrstuvwxyz"

var lexRadixes = []int{10, 16, 8, 2, 12, 4}
var radixPrefix = map[int]string{10: "", 16: "x", 8: "o", 2: "b", 12: "d", 4: "q"}
var widthBits = []int{7, 8, 15, 16, 31, 32, 63, 64}

// digit values (most significant first) of a numeral in radix b
func genDigits(r *hx.Rng, b int) []int {
	var ds []int
	switch r.Below(10) {
	case 0, 1, 2:
		// a value around a width boundary 2^k-2 .. 2^k+2
		z := new(big.Int).Lsh(big.NewInt(1), uint(hx.Pick(r, widthBits)))
		z.Add(z, big.NewInt(int64(r.Range(-2, 2))))
		ds = digitsOf(z, b)
	case 3:
		ds = digitsOf(r.BigBits(r.Range(1, 64)), b)
	case 4:
		ds = digitsOf(r.BigBits(r.Range(65, 200)), b)
	case 5:
		ds = digitsOf(big.NewInt(int64(r.Below(300))), b)
	default:
		// digits drawn from a sub-alphabet [0, m), m <= b: numerals that also look like numerals
		// of a smaller base
		m := r.Range(2, b)
		n := r.Range(1, 8)
		if r.Chance(1, 6) {
			n = r.Range(9, 40)
		}
		for i := 0; i < n; i++ {
			ds = append(ds, r.Below(m))
		}
	}
	if r.Chance(1, 3) {
		z := make([]int, r.Range(1, 4))
		ds = append(z, ds...)
	}
	return ds
}

func digitsOf(z *big.Int, b int) []int {
	var ds []int
	for _, c := range new(big.Int).Abs(z).Text(b) {
		ds = append(ds, strings.IndexRune(digitChars, c))
	}
	return ds
}

// spell the digits: letter case per numeral (lower / upper / mixed), `_` before digits.
// usFirst: an underscore may precede the first digit
func spell(r *hx.Rng, ds []int, usFirst bool) string {
	caseMode := r.Below(3)
	us := r.Chance(3, 10)
	var b strings.Builder
	for i, d := range ds {
		if us && (i > 0 || usFirst) && r.Chance(1, 3) {
			b.WriteByte('_')
		}
		c := digitChars[d]
		if d >= 10 && (caseMode == 1 || caseMode == 2 && r.Chance(1, 2)) {
			c -= 32
		}
		b.WriteByte(c)
	}
	return b.String()
}

func prefixOf(r *hx.Rng, radix int) string {
	p := radixPrefix[radix]
	if p == "" {
		return ""
	}
	if r.Chance(1, 3) {
		p = strings.ToUpper(p)
	}
	return "0" + p
}

var sizedSuffixes = []string{"i8", "i16", "i32", "i64", "u8", "u16", "u32", "u64", "u"}
var suffixBits = map[string]int{"i8": 8, "i16": 16, "i32": 32, "i64": 64, "u8": 8, "u16": 16, "u32": 32, "u64": 64, "u": 64}

func genLiteral(r *hx.Rng) string {
	radix := 10
	if r.Chance(1, 2) {
		radix = hx.Pick(r, lexRadixes)
	}
	suffix := ""
	if r.Chance(2, 5) {
		suffix = hx.Pick(r, sizedSuffixes)
	}
	var ds []int
	if suffix != "" && r.Chance(2, 3) {
		// around the bounds of that width: max-1, max, max+1 of the signed and unsigned reading
		bits := suffixBits[suffix]
		z := new(big.Int).Lsh(big.NewInt(1), uint(bits-r.Below(2)))
		z.Add(z, big.NewInt(int64(r.Range(-2, 1))))
		if r.Chance(1, 3) {
			z = r.BigBits(r.Range(1, bits))
		}
		ds = digitsOf(z, radix)
		if r.Chance(1, 4) {
			ds = append(make([]int, r.Range(1, 3)), ds...)
		}
	} else {
		ds = genDigits(r, radix)
	}
	pre := prefixOf(r, radix)
	text := pre + spell(r, ds, pre != "") + suffix
	signed := suffix == "" || suffix[0] == 'i'
	switch {
	case signed && r.Chance(1, 5):
		text = "-" + text
	case signed && r.Chance(1, 25):
		text = "+" + text
	}
	return text
}

var badBytes = []byte{' ', '.', '-', '+', 0, '/', ':', '@', '[', '`', '{', 0x80, 0xc3, 0xff, '\n', ',', '\''}

// a String#to_int input: (base, bytes)
func genToInt(r *hx.Rng) (int, string) {
	base := 0
	switch r.Below(20) {
	case 0, 1, 2, 3, 4, 5, 6, 7:
		base = 0
	case 8, 9:
		base = 10
	case 10, 11:
		base = hx.Pick(r, []int{2, 8, 16, 36})
	case 12:
		base = hx.Pick(r, []int{1, 37, -1, -10, 64, 256})
	default:
		base = r.Range(2, 36)
	}
	radix := base
	pre := ""
	switch {
	case base == 0:
		radix = 10
		if r.Chance(1, 2) {
			radix = hx.Pick(r, lexRadixes)
		}
		pre = prefixOf(r, radix)
	case base < 2 || base > 36:
		radix = 10
	case r.Chance(1, 10):
		// a prefix-looking start with an explicit base: the prefix letters are plain digits there
		pre = "0" + hx.Pick(r, []string{"x", "b", "o", "d", "q", "X", "B"})
	}
	sign := ""
	switch r.Below(12) {
	case 0:
		sign = "-"
	case 1:
		sign = "+"
	}
	body := spell(r, genDigits(r, radix), true)
	if r.Chance(1, 6) {
		// damage the numeral
		switch r.Below(8) {
		case 0:
			return base, ""
		case 1:
			return base, hx.Pick(r, []string{"-", "+", "_", "0x", "0b", "-0x", "0", "-0", "0_", "__", "0x_", "+-1", "--1", "1-", "1+1"})
		case 2, 3:
			// the smallest illegal digit of the radix, or a later one
			d := radix
			if r.Chance(1, 2) {
				d = r.Range(radix, 36)
			}
			if d <= 35 {
				c := digitChars[d]
				if d >= 10 && r.Chance(1, 2) {
					c -= 32
				}
				i := r.Below(len(body) + 1)
				body = body[:i] + string(c) + body[i:]
			}
		default:
			i := r.Below(len(body) + 1)
			body = body[:i] + string(hx.Pick(r, badBytes)) + body[i:]
		}
	}
	s := sign + pre + body
	return base, s
}

func elkSafe(s string) bool {
	for i := 0; i < len(s); i++ {
		c := s[i]
		if !(c >= '0' && c <= '9' || c >= 'a' && c <= 'z' || c >= 'A' && c <= 'Z' || c == '_' || c == '+' || c == '-') {
			return false
		}
	}
	return true
}

var floatSpecials = []string{"1.7976931348623157e308", "5e-324", "2.2250738585072014e-308", "2.2250738585072011e-308", "4.9e-324",
	"0.1", "0.30000000000000004", "9007199254740993.0", "9007199254740992.5", "1e23", "8.5e22", "123456789012345678901234567890.0",
	"3.4028235e38f32", "1e-45f32", "16777217.0f32", "0.1f32", "1.00000017881393432617187499f32", "1.000000178813934326171875f32",
	"0e0", "00.0", "0.0e5", "1e0", "1E5", "1e+5", "1e-5", "1_0.0_1e0_2", "1e_5", "0_1.5"}

func genFloatLit(r *hx.Rng) string {
	if r.Chance(1, 6) {
		return hx.Pick(r, floatSpecials)
	}
	dec := func(n int, first bool) string {
		var ds []int
		for i := 0; i < n; i++ {
			ds = append(ds, r.Below(10))
		}
		return spell(r, ds, first)
	}
	s := dec(r.Range(1, 6), false)
	if r.Chance(1, 8) {
		s = dec(r.Range(15, 25), false)
	}
	if r.Chance(1, 3) {
		s = strings.Repeat("0", r.Range(1, 3)) + s
	}
	frac, exp := r.Chance(3, 4), r.Chance(1, 2)
	if !frac && !exp {
		frac = true
	}
	if frac {
		n := r.Range(1, 8)
		if r.Chance(1, 6) {
			n = r.Range(15, 30)
		}
		s += "." + dec(n, false)
	}
	suffix := hx.Pick(r, []string{"", "", "", "f64", "f32"})
	if exp {
		lim := 30
		if suffix == "f32" {
			lim = 12
		}
		e := r.Range(-lim, lim)
		es := strconv.Itoa(e)
		if e >= 0 {
			es = hx.Pick(r, []string{"", "+", "", "0", "_"}) + es
			if strings.HasPrefix(es, "0") && r.Chance(1, 2) {
				es = "+" + es
			}
		}
		s += hx.Pick(r, []string{"e", "E"}) + es
	}
	return s + suffix
}

func genLitCase(r *hx.Rng) string {
	switch r.Below(20) {
	case 0, 1, 2, 3, 4, 5, 6, 7, 8, 9:
		return "L " + genLiteral(r)
	case 10, 11, 12, 13, 14:
		b, s := genToInt(r)
		return fmt.Sprintf("T %d %s", b, hex.EncodeToString([]byte(s)))
	case 15, 16, 17:
		for {
			b, s := genToInt(r)
			if elkSafe(s) {
				return fmt.Sprintf("E %d %s", b, s)
			}
		}
	default:
		return "F " + genFloatLit(r)
	}
}

// ---------------------------------------------------------------- evaluation

const litPrelude = `def c19_ti(s: String, base: Int): Int | Symbol
  do
    s.to_int(base)
  catch FormatError()
    :c19_format_error
  end
end
def c19_ti0(s: String): Int | Symbol
  do
    s.to_int
  catch FormatError()
    :c19_format_error
  end
end
`

// a sized literal that is out of the range of its width does not compile and would take the
// whole batch with it: such cases are evaluated alone (this is batching only, not an oracle)
func likelyError(text string) bool {
	t := strings.TrimLeft(text, "+-")
	for _, sfx := range sizedSuffixes {
		if !strings.HasSuffix(t, sfx) || len(t) <= len(sfx) {
			continue
		}
		body := strings.ReplaceAll(t[:len(t)-len(sfx)], "_", "")
		radix := 10
		if len(body) > 2 && body[0] == '0' {
			if rx, ok := map[byte]int{'x': 16, 'o': 8, 'b': 2, 'd': 12, 'q': 4}[body[1]|0x20]; ok {
				radix, body = rx, body[2:]
			}
		}
		z, ok := new(big.Int).SetString(body, radix)
		if !ok {
			return true
		}
		bits := suffixBits[sfx]
		if sfx[0] == 'i' {
			bits--
		}
		return z.BitLen() > bits
	}
	return false
}

func obsOf(rs evalRes) string {
	if rs.err != "" {
		return "error " + rs.err
	}
	if rs.v.IsInlineSymbol() && rs.v.AsInlineSymbol().String() == "c19_format_error" {
		return "error"
	}
	return dump(rs.v)
}

func runLit(cases []string) []string {
	obs := make([]string, len(cases))
	var batch, single []int
	var btext, stext []string
	for i, in := range cases {
		f := strings.Split(in, " ")
		switch {
		case f[0] == "T" && len(f) >= 2:
			base, e1 := strconv.Atoi(f[1])
			hx_ := ""
			if len(f) > 2 {
				hx_ = f[2]
			}
			b, e2 := hex.DecodeString(hx_)
			if e1 != nil || e2 != nil {
				obs[i] = "bad-input"
				continue
			}
			obs[i] = hx.Guard(func() string {
				v, err := value.String(b).ToInt(base)
				if !err.IsUndefined() {
					if err.Class() == value.FormatErrorClass {
						return "error"
					}
					return "error-other " + firstLine(err.Inspect())
				}
				return dump(v)
			})
		case f[0] == "E" && len(f) >= 2:
			base, e1 := strconv.Atoi(f[1])
			s := ""
			if len(f) > 2 {
				s = f[2]
			}
			if e1 != nil || !elkSafe(s) {
				obs[i] = "bad-input"
				continue
			}
			batch = append(batch, i)
			if base == 0 {
				btext = append(btext, fmt.Sprintf("c19_ti0(\"%s\")", s))
			} else {
				btext = append(btext, fmt.Sprintf("c19_ti(\"%s\", %d)", s, base))
			}
		case (f[0] == "L" || f[0] == "F") && len(f) == 2:
			if likelyError(f[1]) {
				single = append(single, i)
				stext = append(stext, f[1])
			} else {
				batch = append(batch, i)
				btext = append(btext, f[1])
			}
		default:
			obs[i] = "bad-input"
		}
	}
	batchPrelude = litPrelude
	for j, rs := range evalBatchN(btext, 100) {
		obs[batch[j]] = obsOf(rs)
	}
	batchPrelude = ""
	for j, rs := range evalBatchN(stext, 1) {
		obs[single[j]] = obsOf(rs)
	}
	return obs
}

func mainLit(o *hx.Opts, r *hx.Rng) {
	var ids, cases []string
	for i, in := range hx.ReadInputs(o.Input) {
		ids = append(ids, fmt.Sprintf("c%d", i))
		cases = append(cases, in)
	}
	for i := 0; i < o.N; i++ {
		ids = append(ids, fmt.Sprintf("g%d", i))
		cases = append(cases, genLitCase(r))
	}
	obs := runLit(cases)
	for i := range cases {
		hx.Emit(ids[i], cases[i], obs[i])
	}
	hx.Emit("meta", "programs", strconv.Itoa(nEval))
}
