// c19: correspondence + end-to-end streams for "inspect output evaluates back to an equal value".
//
//	-extra graphic  dump unicode.IsGraphic as maximal ranges "lo hi" (instantiates the model)
//	-extra insp     model-vs-implementation: cases "S <hex bytes>", "C <rune>", "I <decimal>";
//	                observed = hex of String/Char/SmallInt/BigInt .Inspect()
//	-extra lit      literal direction: integer/float literal spellings and String#to_int (see lit.go)
//	-extra rt       end to end: for every value v, text = v.inspect, the text is evaluated
//	                in-process (checker + compiler + VM) and the result is compared with v by a
//	                structural dump written here (independent of Inspect and of Elk's ==);
//	                observed = "eq" or "FAIL class=<canonical class> text=<hex> got=<...>"
package main

import (
	"context"
	"encoding/hex"
	"fmt"
	"math"
	"math/big"
	"reflect"
	"sort"
	"strconv"
	"strings"
	"unicode"
	"unicode/utf8"

	"verifharness/hx"

	"github.com/elk-language/elk/types/checker"
	"github.com/elk-language/elk/value"
	"github.com/elk-language/elk/vm"
)

// ---------------------------------------------------------------- evaluation

func evalSrc(src string) (res value.Value, errs string) {
	defer func() {
		if r := recover(); r != nil {
			res, errs = value.Undefined, "go_panic: "+firstLine(fmt.Sprint(r))
		}
	}()
	tc := checker.New()
	chunk, diags := tc.CheckSourceBytecode("<c19>", src)
	if diags.IsFailure() {
		return value.Undefined, "compile: " + firstLine(diags.Error())
	}
	var out strings.Builder
	ab := value.NewAborter(context.Background(), nil)
	v := vm.New(vm.WithStdout(&out), vm.WithStderr(&out), vm.WithAborter(ab))
	got, err := v.InterpretTopLevel(chunk)
	if !err.IsUndefined() {
		return value.Undefined, "runtime: " + firstLine(err.Inspect())
	}
	return got, ""
}

func firstLine(s string) string {
	s = strings.TrimSpace(s)
	if i := strings.IndexByte(s, '\n'); i >= 0 {
		s = s[:i]
	}
	if len(s) > 160 {
		s = s[:160]
	}
	return s
}

type evalRes struct {
	v   value.Value
	err string
}

var nEval int

// batchPrelude: definitions put in front of every batched program (set by the lit mode)
var batchPrelude string

// evalBatch evaluates every expression text; one program per batch, bisecting on failure.
func evalBatch(texts []string) []evalRes { return evalBatchN(texts, 120) }

func evalBatchN(texts []string, B int) []evalRes {
	out := make([]evalRes, len(texts))
	var rec func(lo, hi int)
	rec = func(lo, hi int) {
		if lo >= hi {
			return
		}
		var b strings.Builder
		b.WriteString(batchPrelude)
		b.WriteString("[\n")
		for i := lo; i < hi; i++ {
			b.WriteString("(")
			b.WriteString(texts[i])
			b.WriteString("),\n")
		}
		b.WriteString("]\n")
		nEval++
		v, e := evalSrc(b.String())
		if e == "" {
			if l, ok := v.SafeAsReference().(value.ArrayTuple); ok && v.IsReference() && l.Length() == hi-lo {
				for i, el := range l.Elements() {
					out[lo+i] = evalRes{v: el}
				}
				return
			}
			e = "result is not a list of the expected length: " + firstLine(v.Inspect())
		}
		if hi-lo == 1 {
			out[lo] = evalRes{err: e}
			return
		}
		mid := (lo + hi) / 2
		rec(lo, mid)
		rec(mid, hi)
	}
	for i := 0; i < len(texts); i += B {
		j := i + B
		if j > len(texts) {
			j = len(texts)
		}
		rec(i, j)
	}
	return out
}

// ---------------------------------------------------------------- structural dump

func dump(v value.Value) string {
	switch {
	case v.IsUndefined():
		return "undefined"
	case v.IsSmallInt():
		return "I" + strconv.FormatInt(int64(v.AsSmallInt()), 10)
	case v.IsFloat():
		return fmt.Sprintf("F%016x", canonBits(float64(v.AsFloat())))
	case v.IsChar():
		return fmt.Sprintf("C%d", rune(v.AsChar()))
	case v.IsNil():
		return "nil"
	case v.IsTrue():
		return "true"
	case v.IsFalse():
		return "false"
	case v.IsInlineSymbol():
		return "Y" + hex.EncodeToString([]byte(v.AsInlineSymbol().String()))
	case v.IsInt8():
		return fmt.Sprintf("i8:%d", v.AsInt8())
	case v.IsInt16():
		return fmt.Sprintf("i16:%d", v.AsInt16())
	case v.IsInt32():
		return fmt.Sprintf("i32:%d", v.AsInt32())
	case v.IsInlineInt64():
		return fmt.Sprintf("i64:%d", v.AsInt64())
	case v.IsUInt8():
		return fmt.Sprintf("u8:%d", v.AsUInt8())
	case v.IsUInt16():
		return fmt.Sprintf("u16:%d", v.AsUInt16())
	case v.IsUInt32():
		return fmt.Sprintf("u32:%d", v.AsUInt32())
	case v.IsInlineUInt64():
		return fmt.Sprintf("u64:%d", v.AsUInt64())
	case v.IsUInt():
		return fmt.Sprintf("u:%d", v.AsUInt())
	case v.IsInlineFloat64():
		return fmt.Sprintf("F64:%016x", canonBits(float64(v.AsFloat64())))
	case v.IsFloat32():
		f := float32(v.AsFloat32())
		if f != f {
			return "F32:nan"
		}
		return fmt.Sprintf("F32:%08x", math.Float32bits(f))
	}
	if !v.IsReference() {
		return "?" + v.Class().Name + ":" + v.Inspect()
	}
	switch r := v.AsReference().(type) {
	case value.String:
		return "S" + hex.EncodeToString([]byte(r))
	case *value.BigInt:
		return "I" + r.ToGoBigInt().String()
	case *value.BigFloat:
		if r.IsNaN() {
			return "BF:nan"
		}
		return "BF:" + r.AsGoBigFloat().Text('p', 0)
	case *value.Regex:
		return "R" + hex.EncodeToString([]byte(r.Source)) + ":" + fmt.Sprint(r.Flags)
	case value.ArrayList:
		return "L[" + dumpSeq(r) + "]"
	case value.ArrayTuple:
		return "T[" + dumpSeq(r) + "]"
	case vm.HashMap:
		return "M{" + dumpPairs(r) + "}"
	case vm.HashRecord:
		return "Rec{" + dumpPairs(r) + "}"
	case vm.HashSet:
		var xs []string
		for e := range r.All() {
			xs = append(xs, dump(e))
		}
		sort.Strings(xs)
		return "Set{" + strings.Join(xs, ",") + "}"
	}
	// ranges: struct pointers with Start and/or End fields
	rv := reflect.ValueOf(v.AsReference())
	if rv.Kind() == reflect.Ptr && rv.Elem().Kind() == reflect.Struct {
		var parts []string
		for _, fn := range []string{"Start", "End"} {
			f := rv.Elem().FieldByName(fn)
			if f.IsValid() {
				if fv, ok := f.Interface().(value.Value); ok {
					parts = append(parts, fn+"="+dump(fv))
				}
			}
		}
		if len(parts) > 0 {
			return "Rng:" + v.Class().Name + "(" + strings.Join(parts, ",") + ")"
		}
	}
	return "?" + v.Class().Name + ":" + v.Inspect()
}

func canonBits(f float64) uint64 {
	if f != f {
		return 0x7ff8000000000001
	}
	return math.Float64bits(f)
}

func dumpSeq(t value.ArrayTuple) string {
	var xs []string
	for _, e := range t.Elements() {
		xs = append(xs, dump(e))
	}
	return strings.Join(xs, ",")
}

func dumpPairs(r vm.HashRecord) string {
	var xs []string
	for p := range r.All() {
		xs = append(xs, dump(p.Key())+"=>"+dump(p.Value()))
	}
	sort.Strings(xs)
	return strings.Join(xs, ",")
}

// ---------------------------------------------------------------- cases

type kase struct {
	in   string      // canonical input text (corpus syntax)
	kind string      // first field of in
	val  value.Value // leaf built through the Go constructors (Undefined for X cases)
	expr string      // X cases: Elk expression that builds the value
	text string      // inspect output
	err  string      // construction problem
}

func mkInt(z *big.Int) value.Value {
	if z.IsInt64() {
		return value.SmallInt(z.Int64()).ToValue()
	}
	return value.Ref(value.ToElkBigInt(new(big.Int).Set(z)))
}

func parseCase(in string) *kase {
	f := strings.SplitN(in, " ", 2)
	k := &kase{in: in, kind: f[0], val: value.Undefined}
	arg := ""
	if len(f) > 1 {
		arg = f[1]
	}
	bad := func() *kase { k.err = "bad-input"; return k }
	switch k.kind {
	case "S":
		b, e := hex.DecodeString(arg)
		if e != nil {
			return bad()
		}
		k.val = value.Ref(value.String(b))
	case "Y":
		b, e := hex.DecodeString(arg)
		if e != nil {
			return bad()
		}
		k.val = value.ToSymbol(string(b)).ToValue()
	case "C":
		n, e := strconv.ParseInt(arg, 10, 32)
		if e != nil {
			return bad()
		}
		k.val = value.Char(n).ToValue()
	case "I":
		z, ok := new(big.Int).SetString(arg, 10)
		if !ok {
			return bad()
		}
		k.val = mkInt(z)
	case "F", "F64":
		u, e := strconv.ParseUint(arg, 16, 64)
		if e != nil {
			return bad()
		}
		if k.kind == "F" {
			k.val = value.Float(math.Float64frombits(u)).ToValue()
		} else {
			k.val = value.Float64(math.Float64frombits(u)).ToValue()
		}
	case "F32":
		u, e := strconv.ParseUint(arg, 16, 32)
		if e != nil {
			return bad()
		}
		k.val = value.Float32(math.Float32frombits(uint32(u))).ToValue()
	case "BF":
		bf, _, e := big.ParseFloat(arg, 10, 53, big.ToNearestEven)
		if e != nil {
			return bad()
		}
		k.val = value.Ref(value.ToElkBigFloat(bf))
	case "i8", "i16", "i32", "i64":
		n, e := strconv.ParseInt(arg, 10, 64)
		if e != nil {
			return bad()
		}
		switch k.kind {
		case "i8":
			k.val = value.Int8(n).ToValue()
		case "i16":
			k.val = value.Int16(n).ToValue()
		case "i32":
			k.val = value.Int32(n).ToValue()
		default:
			k.val = value.Int64(n).ToValue()
		}
	case "u8", "u16", "u32", "u64", "u":
		n, e := strconv.ParseUint(arg, 10, 64)
		if e != nil {
			return bad()
		}
		switch k.kind {
		case "u8":
			k.val = value.UInt8(n).ToValue()
		case "u16":
			k.val = value.UInt16(n).ToValue()
		case "u32":
			k.val = value.UInt32(n).ToValue()
		case "u64":
			k.val = value.UInt64(n).ToValue()
		default:
			k.val = value.UInt(n).ToValue()
		}
	case "K":
		switch arg {
		case "nil":
			k.val = value.Nil
		case "true":
			k.val = value.True.ToValue()
		case "false":
			k.val = value.False.ToValue()
		default:
			return bad()
		}
	case "X":
		k.expr = arg
	default:
		return bad()
	}
	return k
}

// ---------------------------------------------------------------- failure classes

func runeBucket(r rune) string {
	g := "nongraphic"
	if unicode.IsGraphic(r) {
		g = "graphic"
	}
	switch {
	case r < 0:
		return "negative"
	case r < 0x80:
		return "ascii-" + g
	case r < 0x100:
		return "latin1-" + g
	case r >= 0xD800 && r <= 0xDFFF:
		return "surrogate"
	case r < 0x10000:
		return "bmp-" + g
	case r <= 0x10FFFF:
		return "astral-" + g
	}
	return "beyond-max"
}

func steps(s string) []string {
	var out []string
	for len(s) > 0 {
		_, n := utf8.DecodeRuneInString(s)
		out = append(out, s[:n])
		s = s[n:]
	}
	return out
}

// class of one element of a failing adjacent pair: the interpolation triggers by name
func pairClass(st string) string {
	r, n := utf8.DecodeRuneInString(st)
	switch {
	case st == "$" || st == "#" || st == "{" || st == "_":
		return fmt.Sprintf("%q", st)
	case !(r == utf8.RuneError && n == 1) && unicode.IsLetter(r):
		return "letter"
	}
	return stepClass(st)
}

func stepClass(st string) string {
	r, n := utf8.DecodeRuneInString(st)
	if r == utf8.RuneError && n == 1 {
		return "invalid-byte-" + runeBucket(rune(st[0]))
	}
	return "rune-" + runeBucket(r)
}

// round trips of Go-built leaves in one batch, used to minimise failing strings/symbols
func firstBad(vs []value.Value) int {
	var ts []string
	for _, v := range vs {
		ts = append(ts, v.Inspect())
	}
	rs := evalBatchN(ts, 64)
	for i, r := range rs {
		if r.err != "" || dump(r.v) != dump(vs[i]) {
			return i
		}
	}
	return -1
}

func classify(k *kase, evalErr string) string {
	switch k.kind {
	case "S", "Y":
		var s string
		mk := func(x string) value.Value { return value.Ref(value.String(x)) }
		if k.kind == "S" {
			s = string(k.val.AsReference().(value.String))
		} else {
			s = k.val.AsInlineSymbol().String()
			mk = func(x string) value.Value { return value.ToSymbol(x).ToValue() }
		}
		name := map[string]string{"S": "string", "Y": "symbol"}[k.kind]
		if s == "" {
			return name + ":empty"
		}
		ss := steps(s)
		var singles, pairs []value.Value
		for _, st := range ss {
			singles = append(singles, mk(st))
		}
		if i := firstBad(singles); i >= 0 {
			st := ss[i]
			c := stepClass(st)
			if r, _ := utf8.DecodeRuneInString(st); len(st) == 1 && r < 0x80 && unicode.IsGraphic(r) {
				c = fmt.Sprintf("ascii-char-%q", st)
			}
			return name + ":" + c
		}
		for i := 0; i+1 < len(ss); i++ {
			pairs = append(pairs, mk(ss[i]+ss[i+1]))
		}
		if i := firstBad(pairs); i >= 0 {
			return name + ":pair:" + pairClass(ss[i]) + "+" + pairClass(ss[i+1])
		}
		return name + ":interaction"
	case "C":
		return "char:" + runeBucket(rune(k.val.AsChar()))
	case "I":
		return "int"
	case "F", "F64", "F32":
		var f float64
		switch k.kind {
		case "F":
			f = float64(k.val.AsFloat())
		case "F64":
			f = float64(k.val.AsFloat64())
		default:
			f = float64(k.val.AsFloat32())
		}
		c := "finite"
		switch {
		case f != f:
			c = "nan"
		case math.IsInf(f, 0):
			c = "inf"
		case f == 0 && math.Signbit(f):
			c = "negzero"
		case f == math.Trunc(f):
			c = "integral"
		}
		return strings.ToLower(k.kind) + ":" + c
	case "BF":
		if bf, ok := k.val.AsReference().(*value.BigFloat); ok && bf.AsGoBigFloat().Sign() == 0 {
			return "bigfloat:zero"
		}
		return "bigfloat:nonzero"
	case "i8", "i16", "i32", "i64":
		bits := map[string]uint{"i8": 8, "i16": 16, "i32": 32, "i64": 64}[k.kind]
		n, _ := strconv.ParseInt(strings.Fields(k.in)[1], 10, 64)
		if n == -(1 << (bits - 1)) {
			return k.kind + ":min"
		}
		if n < 0 {
			return k.kind + ":negative"
		}
		return k.kind + ":nonnegative"
	case "X":
		e := k.expr
		for _, p := range []struct{ pre, name string }{{"%[", "tuple"}, {"%{", "record"}, {"^[", "set"}, {"[", "list"}, {"{", "map"}, {"(", "range"}, {"%/", "regex"}} {
			if strings.HasPrefix(e, p.pre) {
				return "coll:" + p.name
			}
		}
		return "coll:other"
	}
	return k.kind
}

// ---------------------------------------------------------------- generators

var interesting = []rune{0, 1, 7, 8, 9, 10, 11, 12, 13, 27, 31, 32, '"', '#', '$', '\\', '`', '{', '}', '_', 'a', 'Z', '0', 127,
	0x80, 0x85, 0x9f, 0xa0, 0xad, 0xe9, 0xff, 0x100, 0x378, 0x200b, 0x200d, 0x2028, 0x2029, 0xd7ff, 0xe000, 0xfeff, 0xfffd, 0xfffe, 0xffff,
	0x10000, 0x1f600, 0xe0001, 0xe0100, 0xf0000, 0x10ffff}

func genRune(r *hx.Rng) rune {
	switch r.Below(8) {
	case 0, 1:
		return hx.Pick(r, interesting)
	case 2:
		return rune(r.Below(0x100))
	case 3:
		return rune(r.Below(0x3000))
	case 4:
		return rune(0x10000 + r.Below(0x100000))
	case 5:
		x := rune(r.Below(0x10000))
		if x >= 0xd800 && x <= 0xdfff {
			x -= 0x800
		}
		return x
	default:
		return rune(32 + r.Below(95))
	}
}

func genBytes(r *hx.Rng) []byte {
	var b []byte
	n := r.Below(7)
	if r.Chance(1, 10) {
		n = r.Below(40)
	}
	for i := 0; i < n; i++ {
		switch r.Below(10) {
		case 0:
			b = append(b, byte(r.Below(256))) // raw byte: often invalid UTF-8
		case 1:
			b = append(b, byte(0x80+r.Below(0x80)))
		case 2:
			// truncated multi-byte sequence
			e := utf8.AppendRune(nil, genRune(r))
			b = append(b, e[:1+r.Below(len(e))]...)
		case 3:
			b = append(b, hx.Pick(r, []string{"$a", "#{", "${", "$_", "#x", "\\n", "\\x41", "\\u0041", "\"", "$", "#", "\\"})...)
		default:
			b = utf8.AppendRune(b, genRune(r))
		}
	}
	return b
}

var floatBits = []uint64{0, 0x8000000000000000, 1, 0x000fffffffffffff, 0x0010000000000000, 0x7fefffffffffffff, 0x7ff0000000000000,
	0xfff0000000000000, 0x7ff8000000000000, 0x3ff0000000000000, 0x3ff0000000000001, 0x3fb999999999999a, 0x4340000000000000,
	0x4340000000000001, 0x433fffffffffffff, 0x43e0000000000000, 0x4415af1d78b58c40, 0x44b52d02c7e14af6, 0x3e7ad7f29abcaf48, 0xc08f400000000000}

func genFloatBits(r *hx.Rng) uint64 {
	switch r.Below(4) {
	case 0:
		return hx.Pick(r, floatBits)
	case 1:
		return r.Next()
	case 2:
		return math.Float64bits(float64(int64(r.Next()>>uint(r.Below(64)))) * math.Pow(10, float64(r.Range(-5, 25))))
	default:
		return math.Float64bits(float64(r.Range(-100000, 100000)) / float64(hx.Pick(r, []int{1, 2, 4, 8, 10, 100, 1000, 3, 7})))
	}
}

func safeLeaf(r *hx.Rng) string {
	switch r.Below(9) {
	case 0:
		return strconv.Itoa(r.Range(-1000, 1000))
	case 1:
		return hx.Pick(r, []string{`"a"`, `"foo bar"`, `""`, `"Z9"`, `"zażółć"`})
	case 2:
		return hx.Pick(r, []string{"`a`", "`Z`", "`ś`", "`0`"})
	case 3:
		return hx.Pick(r, []string{":foo", ":bar", ":Baz", ":a1"})
	case 4:
		return hx.Pick(r, []string{"1.5", "0.25", "-2.5", "1e100", "3.0"})
	case 5:
		return hx.Pick(r, []string{"nil", "true", "false"})
	case 6:
		return hx.Pick(r, []string{"12345678901234567890123", "-98765432109876543210", "5i8", "6u16", "7i64", "2.5f64"})
	case 7:
		return hx.Pick(r, []string{`"q\"uo"`, `"new\nline"`, `"do\$llar"`, `"ha\#sh"`, `"back\\slash"`, `"\u0001"`, `"\t"`})
	default:
		return strconv.Itoa(r.Range(0, 9))
	}
}

func genExpr(r *hx.Rng, depth int) string {
	if depth <= 0 {
		return safeLeaf(r)
	}
	n := r.Below(4)
	el := func() string {
		if r.Chance(1, 3) {
			return genExpr(r, depth-1)
		}
		return safeLeaf(r)
	}
	var xs []string
	for i := 0; i < n; i++ {
		xs = append(xs, el())
	}
	switch r.Below(7) {
	case 0:
		return "[" + strings.Join(xs, ", ") + "]"
	case 1:
		return "%[" + strings.Join(xs, ", ") + "]"
	case 2:
		return "^[" + strings.Join(xs, ", ") + "]"
	case 3, 4:
		var ps []string
		for i := 0; i < n; i++ {
			ps = append(ps, fmt.Sprintf("%s => %s", safeLeaf(r), el()))
		}
		if r.Chance(1, 2) {
			return "{" + strings.Join(ps, ", ") + "}"
		}
		return "%{" + strings.Join(ps, ", ") + "}"
	case 5:
		a, b := r.Range(-50, 50), r.Range(-50, 50)
		op := hx.Pick(r, []string{"...", "..<", "<..", "<.<"})
		switch r.Below(5) {
		case 0:
			return fmt.Sprintf("(%d%s)", a, hx.Pick(r, []string{"...", "..<"}))
		case 1:
			if b < 0 {
				b = -b
			}
			return fmt.Sprintf("(%s%d)", hx.Pick(r, []string{"...", "..<"}), b)
		case 2:
			return fmt.Sprintf("(%d.5%s%d.25)", a, op, b)
		case 3:
			return fmt.Sprintf("(`a`%s`z`)", op)
		}
		return fmt.Sprintf("(%d%s%d)", a, op, b)
	default:
		return hx.Pick(r, []string{"%/a+b/", "%/fo{2}\\d/i", "%/^x$/m", "%/a|b/"})
	}
}

func genCase(r *hx.Rng) string {
	switch r.Below(20) {
	case 0, 1, 2, 3, 4, 5:
		return "S " + hex.EncodeToString(genBytes(r))
	case 6, 7, 8:
		return fmt.Sprintf("C %d", genRune(r))
	case 9, 10:
		var z *big.Int
		if r.Chance(1, 2) {
			z = r.BoundaryInt()
		} else {
			z = r.BigBits(r.Range(1, 300))
		}
		return "I " + z.String()
	case 11, 12:
		return fmt.Sprintf("F %016x", genFloatBits(r))
	case 13:
		if r.Chance(1, 2) {
			return fmt.Sprintf("F64 %016x", genFloatBits(r))
		}
		return fmt.Sprintf("F32 %08x", math.Float32bits(float32(math.Float64frombits(genFloatBits(r)))))
	case 14:
		k := hx.Pick(r, []string{"i8", "i16", "i32", "i64"})
		bits := map[string]uint{"i8": 8, "i16": 16, "i32": 32, "i64": 64}[k]
		var n int64
		switch r.Below(4) {
		case 0:
			n = -(1 << (bits - 1))
		case 1:
			n = (1 << (bits - 1)) - 1
		case 2:
			n = int64(r.Range(-3, 3))
		default:
			n = int64(r.Next()) >> (64 - bits)
		}
		return fmt.Sprintf("%s %d", k, n)
	case 15:
		k := hx.Pick(r, []string{"u8", "u16", "u32", "u64", "u"})
		bits := map[string]uint{"u8": 8, "u16": 16, "u32": 32, "u64": 64, "u": 64}[k]
		n := r.Next() >> (64 - bits)
		if r.Chance(1, 3) {
			n = ^uint64(0) >> (64 - bits)
		}
		return fmt.Sprintf("%s %d", k, n)
	case 16:
		// symbols: identifiers, quoted names, control characters
		var b []byte
		switch r.Below(4) {
		case 0:
			b = []byte(hx.Pick(r, []string{"foo", "Bar", "a_b", "x1", "_p", "with space", "1abc", "+", "[]=", "ś", "a-b"}))
		case 1:
			for i, n := 0, 1+r.Below(5); i < n; i++ {
				b = utf8.AppendRune(b, genRune(r))
			}
		default:
			for i, n := 0, 1+r.Below(6); i < n; i++ {
				b = append(b, byte(32+r.Below(95)))
			}
		}
		return "Y " + hex.EncodeToString(b)
	case 17:
		if r.Chance(1, 3) {
			return "K " + hx.Pick(r, []string{"nil", "true", "false"})
		}
		return "BF " + hx.Pick(r, []string{"1.5", "0.1", "1e100", "-2.25", "123456789.125", "0", "3"})
	default:
		return "X " + genExpr(r, 2)
	}
}

// ---------------------------------------------------------------- modes

func dumpGraphic() {
	lo := -1
	for r := 0; r <= 0x110000; r++ {
		g := r < 0x110000 && unicode.IsGraphic(rune(r))
		if g && lo < 0 {
			lo = r
		}
		if !g && lo >= 0 {
			fmt.Printf("%d %d\n", lo, r-1)
			lo = -1
		}
	}
}

func runInsp(in string) string {
	k := parseCase(in)
	if k.err != "" || k.val.IsUndefined() {
		return "bad-input"
	}
	return hx.Guard(func() string { return hex.EncodeToString([]byte(k.val.Inspect())) })
}

func genInsp(r *hx.Rng) string {
	switch r.Below(10) {
	case 0, 1, 2, 3, 4, 5:
		return "S " + hex.EncodeToString(genBytes(r))
	case 6, 7:
		return fmt.Sprintf("C %d", genRune(r))
	default:
		if r.Chance(1, 2) {
			return "I " + r.BoundaryInt().String()
		}
		return "I " + r.BigBits(r.Range(1, 400)).String()
	}
}

func main() {
	o := hx.ParseFlags()
	defer hx.Flush()
	if o.Extra == "graphic" {
		dumpGraphic()
		return
	}
	r := hx.NewRng(o.Seed)
	if o.Extra == "insp" {
		for i, in := range hx.ReadInputs(o.Input) {
			hx.Emit(fmt.Sprintf("c%d", i), in, runInsp(in))
		}
		if o.Tier == "thorough" {
			// every code point once as a char and once inside a string
			for cp := 0; cp <= 0x10FFFF; cp++ {
				if cp >= 0xD800 && cp <= 0xDFFF {
					continue
				}
				in := fmt.Sprintf("C %d", cp)
				hx.Emit(fmt.Sprintf("a%d", cp), in, runInsp(in))
				in = "S " + hex.EncodeToString([]byte("a"+string(rune(cp))+"$"))
				hx.Emit(fmt.Sprintf("b%d", cp), in, runInsp(in))
			}
		}
		for i := 0; i < o.N; i++ {
			in := genInsp(r)
			hx.Emit(fmt.Sprintf("g%d", i), in, runInsp(in))
		}
		return
	}

	if o.Extra == "lit" {
		vm.InitGlobalEnvironment()
		mainLit(o, r)
		return
	}

	// ---- rt
	vm.InitGlobalEnvironment()
	var ids []string
	var ks []*kase
	for i, in := range hx.ReadInputs(o.Input) {
		ids = append(ids, fmt.Sprintf("c%d", i))
		ks = append(ks, parseCase(in))
	}
	for i := 0; i < o.N; i++ {
		ids = append(ids, fmt.Sprintf("g%d", i))
		ks = append(ks, parseCase(genCase(r)))
	}
	// X cases: build the value and its Elk-level inspect text in-process
	var xi []int
	var xe, xt []string
	for i, k := range ks {
		if k.kind == "X" && k.err == "" {
			xi = append(xi, i)
			xe = append(xe, k.expr)
			xt = append(xt, "("+k.expr+").inspect")
		}
	}
	xv := evalBatch(xe)
	xs := evalBatch(xt)
	for j, i := range xi {
		k := ks[i]
		if xv[j].err != "" || xs[j].err != "" {
			k.err = "construct: " + xv[j].err + xs[j].err
			continue
		}
		s, ok := xs[j].v.SafeAsReference().(value.String)
		if !ok || !xs[j].v.IsReference() {
			k.err = "construct: inspect is not a String"
			continue
		}
		k.val, k.text = xv[j].v, string(s)
	}
	risky := map[string]bool{"i8": true, "i16": true, "i32": true, "i64": true, "BF": true, "F32": true, "F64": true, "Y": true}
	var ti []int
	var tt []string
	var res []evalRes
	for pass := 0; pass < 2; pass++ {
		var pt []string
		for i, k := range ks {
			if k.err != "" || risky[k.kind] != (pass == 1) {
				continue
			}
			if k.kind != "X" {
				k.text = k.val.Inspect()
			}
			ti = append(ti, i)
			pt = append(pt, k.text)
		}
		tt = append(tt, pt...)
		res = append(res, evalBatchN(pt, []int{120, 8}[pass])...)
	}
	obs := make([]string, len(ks))
	for j, i := range ti {
		k := ks[i]
		th := hex.EncodeToString([]byte(k.text))
		switch {
		case res[j].err != "":
			obs[i] = fmt.Sprintf("FAIL class=%s text=%s got=error:%s", classify(k, res[j].err), th, res[j].err)
		case dump(res[j].v) != dump(k.val):
			got, want := dump(res[j].v), dump(k.val)
			cls := classify(k, "")
			if k.kind == "X" && strings.Contains(want, "Set{") && len(got) < len(want) {
				// the printed text is right but a HashSet literal loses range/tuple/regex elements when evaluated
				cls = "coll:set-literal-drops-element"
			}
			obs[i] = fmt.Sprintf("FAIL class=%s text=%s got=%s want=%s", cls, th, got, want)
		default:
			obs[i] = "eq"
		}
	}
	for i, k := range ks {
		if k.err != "" {
			obs[i] = "skip " + k.err
		}
		hx.Emit(ids[i], k.in, obs[i])
	}
	hx.Emit("meta", "programs", strconv.Itoa(nEval))
}
