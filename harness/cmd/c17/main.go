// c17: correspondence stream for the open-addressing hash tables (HashMap, HashRecord,
// HashSet "OfValue" flavours). Replays histories of operations on two registers `a` and `b`
// directly through the Go API (nil *vm.Thread) and prints, after every operation, the
// result of the operation plus a full observable snapshot of both registers.
//
// Input line:  KIND U=<k>[:<h>],... OP OP ...      (KIND = map | rec | set)
// Observed:    RET|SNAPa|SNAPb|EQ ; ...            (SNAP = len/gets/has/iter)
package main

import (
	"fmt"
	"sort"
	"strconv"
	"strings"

	"verifharness/hx"

	"github.com/elk-language/elk/value"
	"github.com/elk-language/elk/vm"
)

// ---------------------------------------------------------------------------
// values and hashes

func iv(k int) value.Value { return value.SmallInt(k).ToValue() }

const hashLo, hashHi = -3000, 3000

var hashTab [hashHi - hashLo + 1]uint64

func rawHash(k int) uint64 {
	h, err := vm.Hash(nil, iv(k))
	if !err.IsUndefined() {
		panic("hash error for key " + strconv.Itoa(k))
	}
	return uint64(h)
}

func initHashes() {
	for k := hashLo; k <= hashHi; k++ {
		hashTab[k-hashLo] = rawHash(k)
	}
}

func hashOf(k int) uint64 {
	if k >= hashLo && k <= hashHi {
		return hashTab[k-hashLo]
	}
	return rawHash(k)
}

func fmtVal(v value.Value) string {
	switch {
	case v.IsUndefined():
		return "-"
	case v.IsSmallInt():
		return strconv.FormatInt(int64(v.AsSmallInt()), 10)
	case v.IsTrue():
		return "T"
	}
	return "?"
}

func b01(b bool) string {
	if b {
		return "1"
	}
	return "0"
}

// ---------------------------------------------------------------------------
// the two registers

const (
	kMap = iota
	kRec
	kSet
)

type state struct {
	kind int
	m    [2]*vm.HashMapOfValue
	r    [2]*vm.HashRecordOfValue
	s    [2]*vm.HashSetOfValue
}

func newState(kind int) *state {
	st := &state{kind: kind}
	for i := 0; i < 2; i++ {
		st.fresh(i, 0)
	}
	return st
}

func (st *state) fresh(i, n int) {
	switch st.kind {
	case kMap:
		st.m[i] = vm.NewHashMapOfValue(n)
	case kRec:
		st.r[i] = vm.NewHashRecordOfValue(n)
	default:
		st.s[i] = vm.NewHashSetOfValue(n)
	}
}

func retErr(err value.Value) string {
	if !err.IsUndefined() {
		return "E"
	}
	return "-"
}

func retBool(b bool, err value.Value) string {
	if !err.IsUndefined() {
		return "E"
	}
	return b01(b)
}

func regIndex(s string) int {
	switch s {
	case "a":
		return 0
	case "b":
		return 1
	}
	panic("bad register " + s)
}

func atoi(s string) int {
	n, err := strconv.Atoi(s)
	if err != nil {
		panic("bad integer " + s)
	}
	return n
}

// exec runs one op and returns its RET.
func (st *state) exec(op string) string {
	f := strings.Split(op, ":")
	if len(f) < 2 {
		panic("bad op " + op)
	}
	i := regIndex(f[1])
	o := 1 - i
	arg := func(n int) int {
		if n >= len(f) {
			panic("missing operand in " + op)
		}
		return atoi(f[n])
	}
	switch f[0] {
	case "new":
		st.fresh(i, arg(2))
		return "-"

	case "set":
		k := iv(arg(2))
		switch st.kind {
		case kMap:
			return retErr(vm.HashMapOfValueSet(nil, st.m[i], k, iv(arg(3))))
		case kRec:
			return retErr(vm.HashRecordOfValueSet(nil, st.r[i], k, iv(arg(3))))
		default:
			return retBool(vm.HashSetOfValueAppend(nil, st.s[i], k))
		}

	case "del":
		k := iv(arg(2))
		switch st.kind {
		case kMap:
			return retBool(vm.HashMapOfValueDelete(nil, st.m[i], k))
		case kRec:
			return retBool(vm.HashRecordOfValueDelete(nil, st.r[i], k))
		default:
			return retBool(vm.HashSetOfValueDelete(nil, st.s[i], k))
		}

	case "cat":
		switch st.kind {
		case kMap:
			res, err := vm.HashMapOfValueConcat(nil, st.m[i], st.m[o])
			if !err.IsUndefined() {
				return "E"
			}
			st.m[i] = res
		case kRec:
			res, err := vm.HashRecordOfValueConcat(nil, st.r[i], st.r[o])
			if !err.IsUndefined() {
				return "E"
			}
			st.r[i] = res
		default:
			res, err := vm.HashSetOfValueUnion(nil, st.s[i], st.s[o])
			if !err.IsUndefined() {
				return "E"
			}
			st.s[i] = res
		}
		return "-"

	case "int":
		if st.kind != kSet {
			return "-"
		}
		res, err := vm.HashSetOfValueIntersection(nil, st.s[i], st.s[o])
		if !err.IsUndefined() {
			return "E"
		}
		st.s[i] = res
		return "-"

	case "cpy":
		switch st.kind {
		case kMap:
			return retErr(vm.HashMapOfValueCopy(nil, st.m[i], st.m[o]))
		case kRec:
			return retErr(vm.HashRecordOfValueCopy(nil, st.r[i], st.r[o]))
		default:
			return retErr(vm.HashSetOfValueCopy(nil, st.s[i], st.s[o]))
		}

	case "cln":
		switch st.kind {
		case kMap:
			st.m[i] = st.m[o].Clone()
		case kRec:
			st.r[i] = (*vm.HashRecordOfValue)((*vm.HashMapOfValue)(st.r[o]).Clone())
		default:
			st.s[i] = st.s[o].Copy().(*vm.HashSetOfValue)
		}
		return "-"

	case "ctab":
		switch st.kind {
		case kMap:
			return retErr(vm.HashMapOfValueCopyTable(nil, st.m[i], st.m[o].Table))
		case kRec:
			return retErr(vm.HashRecordOfValueCopyTable(nil, st.r[i], st.r[o].Table))
		default:
			var src []value.Value
			for v := range st.s[o].All() {
				src = append(src, v)
			}
			return retErr(vm.HashSetOfValueCopyTable(nil, st.s[i], src))
		}

	case "grow":
		n := arg(2)
		switch st.kind {
		case kMap:
			return retErr(vm.HashMapOfValueGrow(nil, st.m[i], n))
		case kRec:
			return retErr(vm.HashRecordOfValueGrow(nil, st.r[i], n))
		default:
			return retErr(vm.HashSetOfValueGrow(nil, st.s[i], n))
		}
	}
	panic("unknown op " + op)
}

type ent struct {
	k, v   int64
	ks, vs string
}

func sortEnts(es []ent) string {
	sort.SliceStable(es, func(x, y int) bool {
		if es[x].k != es[y].k {
			return es[x].k < es[y].k
		}
		return es[x].v < es[y].v
	})
	parts := make([]string, len(es))
	for i, e := range es {
		if e.vs == "" {
			parts[i] = e.ks
		} else {
			parts[i] = e.ks + "=" + e.vs
		}
	}
	return strings.Join(parts, ",")
}

func mkEnt(k value.Value, v value.Value, withVal bool) ent {
	e := ent{}
	if k.IsSmallInt() {
		e.k = int64(k.AsSmallInt())
		e.ks = strconv.FormatInt(e.k, 10)
	} else {
		e.ks = "?"
	}
	if withVal {
		e.vs = fmtVal(v)
		if v.IsSmallInt() {
			e.v = int64(v.AsSmallInt())
		}
	}
	return e
}

// snap: len/gets/has/iter of register i.
func (st *state) snap(i int, u []int) string {
	var length int
	gets := make([]string, 0, len(u))
	var has strings.Builder
	var es []ent

	getS := func(v, err value.Value) string {
		if !err.IsUndefined() {
			return "E"
		}
		return fmtVal(v)
	}
	hasS := func(b bool, err value.Value) {
		if !err.IsUndefined() {
			has.WriteByte('E')
			return
		}
		has.WriteString(b01(b))
	}

	switch st.kind {
	case kMap:
		h := st.m[i]
		length = h.Length()
		for _, k := range u {
			gets = append(gets, getS(vm.HashMapOfValueGet(nil, h, iv(k))))
		}
		for _, k := range u {
			hasS(vm.HashMapOfValueContainsKey(nil, h, iv(k)))
		}
		for p := range h.All() {
			es = append(es, mkEnt(p.Key(), p.Value(), true))
		}
	case kRec:
		h := st.r[i]
		length = h.Length()
		for _, k := range u {
			gets = append(gets, getS(vm.HashRecordOfValueGet(nil, h, iv(k))))
		}
		for _, k := range u {
			hasS(vm.HashRecordOfValueContainsKey(nil, h, iv(k)))
		}
		for p := range h.All() {
			es = append(es, mkEnt(p.Key(), p.Value(), true))
		}
	default:
		h := st.s[i]
		length = h.Length()
		gets = nil
		for _, k := range u {
			hasS(vm.HashSetOfValueContains(nil, h, iv(k)))
		}
		for v := range h.All() {
			es = append(es, mkEnt(v, value.Undefined, false))
		}
	}
	return strconv.Itoa(length) + "/" + strings.Join(gets, ",") + "/" + has.String() + "/" + sortEnts(es)
}

func (st *state) eq(i, j int) string {
	switch st.kind {
	case kMap:
		return retBool(vm.HashMapOfValueEqual(nil, st.m[i], st.m[j]))
	case kRec:
		return retBool(vm.HashRecordOfValueEqual(nil, st.r[i], st.r[j]))
	default:
		return retBool(vm.HashSetOfValueEqual(nil, st.s[i], st.s[j]))
	}
}

// step: one op and its snapshot; a Go panic anywhere yields ok=false.
func (st *state) step(op string, u []int) (tok string, ok bool) {
	defer func() {
		if r := recover(); r != nil {
			tok, ok = "panic", false
		}
	}()
	ret := st.exec(op)
	sa := st.snap(0, u)
	sb := st.snap(1, u)
	e := st.eq(0, 1) + st.eq(1, 0)
	return ret + "|" + sa + "|" + sb + "|" + e, true
}

// ---------------------------------------------------------------------------
// parsing / replay

func parseKind(s string) (int, bool) {
	switch s {
	case "map":
		return kMap, true
	case "rec":
		return kRec, true
	case "set":
		return kSet, true
	}
	return 0, false
}

func kindName(k int) string {
	return [...]string{"map", "rec", "set"}[k]
}

func parseUniverse(s string) ([]int, bool) {
	if !strings.HasPrefix(s, "U=") {
		return nil, false
	}
	s = s[2:]
	if s == "" {
		return nil, true
	}
	var u []int
	for _, p := range strings.Split(s, ",") {
		if c := strings.IndexByte(p, ':'); c >= 0 {
			p = p[:c] // stale hash: ignored
		}
		n, err := strconv.Atoi(p)
		if err != nil {
			return nil, false
		}
		u = append(u, n)
	}
	return u, true
}

func fmtUniverse(u []int) string {
	parts := make([]string, len(u))
	for i, k := range u {
		parts[i] = strconv.Itoa(k) + ":" + strconv.FormatUint(hashOf(k), 10)
	}
	return "U=" + strings.Join(parts, ",")
}

func normalise(kind int, u []int, ops []string) string {
	s := kindName(kind) + " " + fmtUniverse(u)
	if len(ops) > 0 {
		s += " " + strings.Join(ops, " ")
	}
	return s
}

func runHistory(kind int, u []int, ops []string) string {
	st := newState(kind)
	toks := make([]string, 0, len(ops))
	for _, op := range ops {
		tok, ok := st.step(op, u)
		toks = append(toks, tok)
		if !ok {
			break
		}
	}
	return strings.Join(toks, ";")
}

// replay returns (normalised input, observed).
func replay(line string) (string, string) {
	f := strings.Fields(line)
	if len(f) < 2 {
		return line, "badinput"
	}
	kind, ok := parseKind(f[0])
	if !ok {
		return line, "badinput"
	}
	u, ok := parseUniverse(f[1])
	if !ok {
		return line, "badinput"
	}
	ops := f[2:]
	norm := hx.Guard(func() string { return normalise(kind, u, ops) })
	if strings.HasPrefix(norm, "panic ") {
		return line, "badinput"
	}
	return norm, runHistory(kind, u, ops)
}

// ---------------------------------------------------------------------------
// generator

var moduli = []int{5, 8, 40, 10, 16, 12, 24, 1}

var poolCache = map[[2]int][]int{}

func pool(m, res int) []int {
	key := [2]int{m, res}
	if p, ok := poolCache[key]; ok {
		return p
	}
	var p []int
	for k := hashLo; k <= hashHi; k++ {
		if hashOf(k)%uint64(m) == uint64(res) {
			p = append(p, k)
		}
	}
	poolCache[key] = p
	return p
}

func shuffle(r *hx.Rng, xs []int) {
	for i := len(xs) - 1; i > 0; i-- {
		j := r.Below(i + 1)
		xs[i], xs[j] = xs[j], xs[i]
	}
}

// gen holds the state of one history under construction, including a cheap abstract
// model of which keys are (likely) present in each register; it is only used to bias
// the choice of keys.
type gen struct {
	r       *hx.Rng
	kind    int
	u       []int // shuffled universe
	coll    []int // the colliding part of the universe
	ops     []string
	present [2]map[int]bool
	deleted [2]map[int]bool
}

var regName = [2]string{"a", "b"}

func (g *gen) reg() int { return g.r.Below(2) }

func (g *gen) anyKey() int { return hx.Pick(g.r, g.u) }

func keysOf(m map[int]bool, order []int) []int {
	var ks []int
	for _, k := range order {
		if m[k] {
			ks = append(ks, k)
		}
	}
	return ks
}

func (g *gen) val() int {
	if g.kind == kSet {
		return 0
	}
	return g.r.Range(0, 99)
}

func (g *gen) emit(op string) { g.ops = append(g.ops, op) }

func (g *gen) opSet(i, k int) {
	g.emit(fmt.Sprintf("set:%s:%d:%d", regName[i], k, g.val()))
	g.present[i][k] = true
	delete(g.deleted[i], k)
}

func (g *gen) opDel(i, k int) {
	g.emit(fmt.Sprintf("del:%s:%d", regName[i], k))
	if g.present[i][k] {
		g.deleted[i][k] = true
	}
	delete(g.present[i], k)
}

func (g *gen) opNew(i, n int) {
	g.emit(fmt.Sprintf("new:%s:%d", regName[i], n))
	g.present[i] = map[int]bool{}
	g.deleted[i] = map[int]bool{}
}

func (g *gen) opGrow(i, n int) {
	g.emit(fmt.Sprintf("grow:%s:%d", regName[i], n))
	g.deleted[i] = map[int]bool{} // resize drops tombstones
}

func cloneSet(m map[int]bool) map[int]bool {
	c := make(map[int]bool, len(m))
	for k, v := range m {
		c[k] = v
	}
	return c
}

func (g *gen) opBulk(name string, i int) {
	o := 1 - i
	if name == "int" && g.kind != kSet {
		name = "cat"
	}
	g.emit(name + ":" + regName[i])
	switch name {
	case "cat", "cpy", "ctab":
		for k := range g.present[o] {
			g.present[i][k] = true
			delete(g.deleted[i], k)
		}
	case "int":
		for k := range g.present[i] {
			if !g.present[o][k] {
				delete(g.present[i], k)
			}
		}
		g.deleted[i] = map[int]bool{}
	case "cln":
		g.present[i] = cloneSet(g.present[o])
		g.deleted[i] = cloneSet(g.deleted[o])
	}
}

func (g *gen) randBulk(i int) {
	names := []string{"cat", "cpy", "cln", "ctab", "cat", "cpy"}
	if g.kind == kSet {
		names = append(names, "int", "int")
	}
	g.opBulk(hx.Pick(g.r, names), i)
}

// key for a delete: prefer keys likely present in register i.
func (g *gen) delKey(i int) int {
	if ks := keysOf(g.present[i], g.u); len(ks) > 0 && g.r.Chance(3, 4) {
		return hx.Pick(g.r, ks)
	}
	return g.anyKey()
}

// key for an insert: often a key that was deleted before (re-insertion over a tombstone).
func (g *gen) setKey(i int) int {
	if ks := keysOf(g.deleted[i], g.u); len(ks) > 0 && g.r.Chance(2, 5) {
		return hx.Pick(g.r, ks)
	}
	return g.anyKey()
}

// forced: the 5% new/grow ops. Returns true when it emitted one.
func (g *gen) forced() bool {
	if !g.r.Chance(1, 20) {
		return false
	}
	if g.r.Chance(1, 2) {
		g.opNew(g.reg(), g.r.Range(0, 12))
	} else {
		g.opGrow(g.reg(), g.r.Range(0, 6))
	}
	return true
}

func (g *gen) phaseFill(n int) {
	for j := 0; j < n; j++ {
		if g.forced() {
			continue
		}
		i := g.reg()
		switch x := g.r.Below(100); {
		case x < 82:
			g.opSet(i, g.setKey(i))
		case x < 94:
			g.opDel(i, g.delKey(i))
		default:
			g.randBulk(i)
		}
	}
}

func (g *gen) phaseDelete(n int) {
	for j := 0; j < n; j++ {
		if g.forced() {
			continue
		}
		i := g.reg()
		switch x := g.r.Below(100); {
		case x < 70:
			g.opDel(i, g.delKey(i))
		case x < 94:
			g.opSet(i, g.setKey(i))
		default:
			g.randBulk(i)
		}
	}
}

func (g *gen) phaseMixed(n int) {
	for j := 0; j < n; j++ {
		if g.forced() {
			continue
		}
		i := g.reg()
		switch x := g.r.Below(100); {
		case x < 45:
			g.opSet(i, g.setKey(i))
		case x < 80:
			g.opDel(i, g.delKey(i))
		default:
			g.randBulk(i)
		}
	}
}

func (g *gen) phaseBulk(n int) {
	// overlapping subsets of the universe in both registers
	for _, k := range g.u {
		if g.r.Chance(3, 5) {
			g.opSet(0, k)
		}
		if g.r.Chance(3, 5) {
			g.opSet(1, k)
		}
	}
	// a few tombstones
	for j := g.r.Below(3); j > 0; j-- {
		i := g.reg()
		g.opDel(i, g.delKey(i))
	}
	for j := 0; j < n; j++ {
		if g.forced() {
			continue
		}
		i := g.reg()
		switch x := g.r.Below(100); {
		case x < 55:
			g.randBulk(i)
		case x < 78:
			g.opSet(i, g.setKey(i))
		default:
			g.opDel(i, g.delKey(i))
		}
	}
}

// phaseTombClone: fill x with colliding keys, delete some (tombstones), clone it into y
// (tombstones kept), change x, copy x into the cloned table, concat with overlap.
func (g *gen) phaseTombClone() {
	x := g.reg()
	y := 1 - x
	keys := append([]int(nil), g.coll...)
	if len(keys) < 3 {
		keys = append([]int(nil), g.u...)
	}
	shuffle(g.r, keys)
	nfill := g.r.Range(3, 4)
	if nfill > len(keys) {
		nfill = len(keys)
	}
	for _, k := range keys[:nfill] {
		g.opSet(x, k)
	}
	ndel := g.r.Range(1, 2)
	for j := 0; j < ndel && j < nfill; j++ {
		if g.r.Chance(1, 2) {
			g.opDel(x, keys[j]) // oldest first: leaves a tombstone in front of the chain
		} else {
			g.opDel(x, g.delKey(x))
		}
	}
	g.opBulk("cln", y)
	// fill x differently
	for j := g.r.Range(1, 4); j > 0; j-- {
		if g.r.Chance(1, 4) {
			g.opDel(x, g.delKey(x))
		} else if g.r.Chance(1, 2) {
			g.opSet(x, hx.Pick(g.r, keys))
		} else {
			g.opSet(x, g.setKey(x))
		}
	}
	switch g.r.Below(4) {
	case 0:
		g.opBulk("ctab", y)
	case 1:
		g.opBulk("cat", y)
	default:
		g.opBulk("cpy", y)
	}
	// lookups of absent colliding keys happen in every snapshot; add overlap ops
	if g.r.Chance(1, 2) {
		g.opDel(y, g.delKey(y))
	}
	if g.r.Chance(1, 2) {
		g.opSet(y, g.setKey(y))
	}
	g.opBulk("cat", g.reg())
	if g.kind == kSet && g.r.Chance(1, 2) {
		g.opBulk("int", g.reg())
	}
}

func usesReg(ops []string, name string) bool {
	for _, op := range ops {
		f := strings.Split(op, ":")
		if len(f) >= 2 && f[1] == name {
			return true
		}
	}
	return false
}

func genHistory(r *hx.Rng) (int, []int, []string) {
	g := &gen{r: r}
	switch x := r.Below(10); {
	case x < 5:
		g.kind = kMap
	case x < 8:
		g.kind = kSet
	default:
		g.kind = kRec
	}

	// universe
	m := hx.Pick(r, moduli)
	res := r.Below(m)
	p := append([]int(nil), pool(m, res)...)
	shuffle(r, p)
	n := r.Range(3, 9)
	if n > len(p) {
		n = len(p)
	}
	seen := map[int]bool{}
	for _, k := range p[:n] {
		if !seen[k] {
			seen[k] = true
			g.u = append(g.u, k)
			g.coll = append(g.coll, k)
		}
	}
	for j := r.Below(3); j > 0; j-- {
		k := r.Range(-20, 20)
		if !seen[k] {
			seen[k] = true
			g.u = append(g.u, k)
		}
	}
	if len(g.u) == 0 {
		g.u = append(g.u, 0)
	}
	shuffle(r, g.u)

	for i := 0; i < 2; i++ {
		g.present[i] = map[int]bool{}
		g.deleted[i] = map[int]bool{}
	}

	length := r.Range(5, 60)
	for len(g.ops) < length {
		switch r.Below(9) {
		case 0, 1:
			g.phaseFill(r.Range(3, 14))
		case 2, 3:
			g.phaseDelete(r.Range(3, 12))
		case 4, 5:
			g.phaseMixed(r.Range(3, 16))
		case 6:
			g.phaseBulk(r.Range(2, 10))
		default:
			g.phaseTombClone()
		}
	}
	ops := g.ops[:length]

	// every history touches both registers
	for idx, name := range regName {
		if !usesReg(ops, name) {
			ops[1+idx] = fmt.Sprintf("set:%s:%d:%d", name, g.anyKey(), g.val())
		}
	}
	return g.kind, g.u, ops
}

// ---------------------------------------------------------------------------

func main() {
	o := hx.ParseFlags()
	defer hx.Flush()
	initHashes()
	for i, in := range hx.ReadInputs(o.Input) {
		norm, obs := replay(in)
		hx.Emit(fmt.Sprintf("c%d", i), norm, obs)
	}
	r := hx.NewRng(o.Seed)
	for i := 0; i < o.N; i++ {
		kind, u, ops := genHistory(r)
		hx.Emit(fmt.Sprintf("g%d", i), normalise(kind, u, ops), runHistory(kind, u, ops))
	}
}
