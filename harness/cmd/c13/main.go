// C13/C10 machine-level correspondence harness: drives the REAL Thread functions (push/pop,
// captureUpvalue, opCloseUpvalues, Upvalue.Get/Set, callBytecodeFunction, restoreLastFrame,
// callBytecodeFunctionTCO, growValueStack) through the hook vm/verif_c13.go with seeded
// micro-operation traces and prints what the program could observe.
//
// line:   id \t <cap> tok tok ... \t <reads oldest first>|<view>
// tokens: P<v> push  O pop  L<i> get local  S<i>:<v> set local  C<i> capture  U<h> upvalue get
//
//	V<h>:<v> upvalue set  X<i> CLOSE_UPVALUES_TO i  K<n> call (n slots become the frame)
//	R return  G growValueStack  g growth that happened inside the preceding call (70% rule;
//	emitted as observed, dropped and re-derived on replay)  T<a>:<lc> tail call
//	N<i> new variable instance in slot i (the machine does nothing)
//	W<k>:<v> an error with value v thrown in the current frame is caught k frames up (Thread.rethrow
//	through the hook vm/verif_c13b.go): k frames are discarded, stack trace (reads as 0) and error
//	are pushed in the catching frame; the model runs k OUnwind, OPush 0, OPush v
package main

import (
	"fmt"
	"reflect"
	"strconv"
	"strings"

	"github.com/elk-language/elk/vm"
	"verifharness/hx"
)

type runner struct {
	m     *vm.VerifC13
	toks  []string
	reads []string
}

func (r *runner) exec(tok string) {
	m := r.m
	arg := tok[1:]
	a, b := 0, 0
	if i := strings.IndexByte(arg, ':'); i >= 0 {
		a, _ = strconv.Atoi(arg[:i])
		b, _ = strconv.Atoi(arg[i+1:])
	} else if arg != "" {
		a, _ = strconv.Atoi(arg)
	}
	r.toks = append(r.toks, tok)
	switch tok[0] {
	case 'P':
		m.Push(int64(a))
	case 'O':
		m.Pop()
	case 'L':
		r.reads = append(r.reads, strconv.FormatInt(m.GetLocal(a), 10))
	case 'S':
		m.SetLocal(a, int64(b))
	case 'C':
		m.Capture(a)
	case 'U':
		r.reads = append(r.reads, strconv.FormatInt(m.GetUp(a), 10))
	case 'V':
		m.SetUp(a, int64(b))
	case 'X':
		m.Close(a)
	case 'K':
		c := m.Cap()
		m.Call(a)
		if m.Cap() != c {
			r.toks = append(r.toks, "g")
		}
	case 'R':
		m.Ret()
	case 'G':
		m.Grow()
	case 'T':
		m.TailCall(a, b)
	case 'N':
	case 'W':
		unwind(m, a, int64(b))
	default:
		panic("bad token " + tok)
	}
}

// the unwinding hook lives in a separate file (vm/verif_c13b.go); looked up by name so that the harness still
// builds (and reports `unwind-hook-missing`) against a checkout that does not have it yet
var haveUnwind = reflect.ValueOf(&vm.VerifC13{}).MethodByName("Unwind").IsValid()

func unwind(m *vm.VerifC13, k int, v int64) {
	reflect.ValueOf(m).MethodByName("Unwind").Call([]reflect.Value{reflect.ValueOf(k), reflect.ValueOf(v)})
}

// is the token safe to execute on the live state (memory-safe for the Go code)?
func safe(m *vm.VerifC13, tok string) bool {
	arg := tok[1:]
	a, b := 0, 0
	if i := strings.IndexByte(arg, ':'); i >= 0 {
		a, _ = strconv.Atoi(arg[:i])
		b, _ = strconv.Atoi(arg[i+1:])
	} else if arg != "" {
		a, _ = strconv.Atoi(arg)
	}
	live := m.SpOff() - m.FpOff()
	switch tok[0] {
	case 'P':
		return m.SpOff() < m.Cap()-1
	case 'O':
		return live > 0
	case 'L', 'S', 'C', 'N':
		return a >= 0 && m.FpOff()+a < m.Cap()-1
	case 'U', 'V':
		return a >= 0 && a < m.Handles()
	case 'X':
		return a >= 0 && m.FpOff()+a <= m.Cap()
	case 'K':
		return a >= 1 && a <= live && m.Frames() < 40
	case 'R':
		return m.Frames() > 0 && live >= 1
	case 'G':
		return m.Cap() <= 4096
	case 'T':
		return a >= 1 && b >= 0 && a+b <= live
	case 'W':
		// at least one slot in the throwing frame (what restoreLastFrame moves down), room for stack trace + error
		return haveUnwind && a >= 1 && a <= m.Frames() && live >= 1 && m.FpOff()+3 < m.Cap()
	}
	return false
}

// -extra notail: no tail calls (used by the C10 streams; tail calls are C13's subject)
var noTail bool

func gen(rng *hx.Rng, r *runner, n int, disciplined bool) {
	m := r.m
	val := 10
	for k := 0; k < n; k++ {
		live := m.SpOff() - m.FpOff()
		c := rng.Below(105)
		var tok string
		pickLocal := func() int {
			if live == 0 || (!disciplined && rng.Chance(1, 12)) {
				return live + rng.Below(2) // a dead slot just above sp (never in disciplined traces)
			}
			return rng.Below(live)
		}
		switch {
		case c >= 100:
			// an error thrown here is caught 1..3 frames up; afterwards the handler drops error, stack trace and
			// (mostly) the slot the discarded frames left behind
			if m.Frames() == 0 || !haveUnwind {
				continue
			}
			val++
			tok = fmt.Sprintf("W%d:%d", 1+rng.Below(min(m.Frames(), 3)), val)
			if safe(m, tok) {
				r.exec(tok)
				for j := rng.Range(0, 3); j > 0; j-- {
					if disciplined {
						l := m.SpOff() - m.FpOff()
						if t := fmt.Sprintf("X%d", l-1); l > 0 && safe(m, t) {
							r.exec(t)
						}
					}
					if safe(m, "O") {
						r.exec("O")
					}
				}
			}
			continue
		case c < 22:
			val++
			tok = fmt.Sprintf("P%d", val)
		case c < 30:
			if disciplined && live > 0 {
				t := fmt.Sprintf("X%d", live-1)
				if safe(m, t) {
					r.exec(t)
				}
			}
			tok = "O"
		case c < 38:
			tok = fmt.Sprintf("L%d", pickLocal())
		case c < 46:
			val++
			tok = fmt.Sprintf("S%d:%d", pickLocal(), val)
		case c < 60:
			if live == 0 {
				continue
			}
			tok = fmt.Sprintf("C%d", rng.Below(live))
		case c < 70:
			if m.Handles() == 0 {
				continue
			}
			tok = fmt.Sprintf("U%d", rng.Below(m.Handles()))
		case c < 77:
			if m.Handles() == 0 {
				continue
			}
			val++
			tok = fmt.Sprintf("V%d:%d", rng.Below(m.Handles()), val)
		case c < 82:
			tok = fmt.Sprintf("X%d", rng.Below(live+1))
		case c < 87:
			if live == 0 {
				continue
			}
			tok = fmt.Sprintf("K%d", 1+rng.Below(min(live, 3)))
		case c < 91:
			tok = "R"
		case c < 93:
			tok = "G"
		case c < 97:
			if live == 0 {
				continue
			}
			i := rng.Below(live)
			if disciplined || rng.Chance(1, 2) {
				t := fmt.Sprintf("X%d", i)
				if safe(m, t) {
					r.exec(t)
				}
			}
			tok = fmt.Sprintf("N%d", i)
		default:
			if live < 2 || noTail {
				continue
			}
			a := 1 + rng.Below(min(live-1, 2))
			lc := live - a
			if !disciplined && rng.Chance(1, 4) {
				lc = rng.Below(live - a + 1)
			}
			tok = fmt.Sprintf("T%d:%d", a, lc)
		}
		if safe(m, tok) {
			r.exec(tok)
		}
	}
	// final reads: everything the program could still look at
	for h := 0; h < m.Handles(); h++ {
		r.exec(fmt.Sprintf("U%d", h))
	}
	live := m.SpOff() - m.FpOff()
	for i := 0; i < live; i++ {
		r.exec(fmt.Sprintf("L%d", i))
	}
}

func emit(id string, capSlots int, r *runner, res string) {
	hx.Emit(id, strconv.Itoa(capSlots)+" "+strings.Join(r.toks, " "), res)
}

func main() {
	o := hx.ParseFlags()
	noTail = o.Extra == "notail"
	k := 0
	for _, in := range hx.ReadInputs(o.Input) {
		f := strings.Fields(in)
		if len(f) < 1 || (noTail && strings.Contains(in, " T")) || (!haveUnwind && strings.Contains(in, " W")) {
			continue
		}
		capSlots, _ := strconv.Atoi(f[0])
		r := &runner{m: vm.NewVerifC13(capSlots)}
		res := hx.Guard(func() string {
			for _, tok := range f[1:] {
				if tok == "g" {
					continue
				}
				if !safe(r.m, tok) {
					return "unsafe " + tok
				}
				r.exec(tok)
			}
			return strings.Join(r.reads, " ") + "|" + r.m.View()
		})
		emit(fmt.Sprintf("c%d", k), capSlots, r, res)
		k++
	}
	if o.Extra == "haveunwind" {
		fmt.Println(haveUnwind)
		return
	}
	rng := hx.NewRng(o.Seed)
	for i := 0; i < o.N; i++ {
		capSlots := hx.Pick(rng, []int{4, 6, 8, 8, 16, 64})
		disciplined := !rng.Chance(1, 4)
		n := rng.Range(6, 60)
		r := &runner{m: vm.NewVerifC13(capSlots)}
		res := hx.Guard(func() string {
			gen(rng, r, n, disciplined)
			return strings.Join(r.reads, " ") + "|" + r.m.View()
		})
		emit(fmt.Sprintf("g%d", i), capSlots, r, res)
	}
	hx.Flush()
}
