// c32 -extra lines: correspondence stream c32.lines — the line table of every function the real
// compiler produces (checker.CheckSource, the path `elk run` takes), checked at EVERY byte offset.
//
// Cases (each a whole program; every BytecodeFunction reachable from it is one evaluation):
//   * corpus / generated "wide" shapes: a container (def, module method, instance method, closure,
//     script, generator, async def) with 0..3 parameters and a number of locals that puts the highest
//     local slot around the 8/16 bit boundary of the PREP_LOCALS prologue (248..262), a few with
//     65530+ locals, plus controls with 0..5 locals; the body holds a call / throw whose source line
//     is encoded in the callee name (k<line>), in a String literal ("L<line>") and in a Symbol
//     (:t<line>) in several layouts (call in the middle of a multi-line expression, multi-line
//     arguments, statement, tail position, `1 + call` as the implicit return value);
//   * the C29 program corpus (cfgx.Program random programs, cfgx.Shapes loop/finally shapes; read only).
//
// For a function with code C (N bytes) and table T the harness decodes the instruction starts with
// the real disassembler and RECONSTRUCTS the operation sequence the model understands:
//     a<line(o)>:<size>  for every instruction after the prologue, then  p<k>  when C starts with
//     PREP_LOCALS8 (k=2) / PREP_LOCALS16 (k=3)
// (line(o) = T.GetLineNumber(o) at the instruction's first byte).  The extracted Coq model builds
// its table from these operations; observable, identical format on both sides:
//     ok n=<bytes the table accounts for> q=<run-length coded GetLineNumber(i), i=-1..N+1> o=<oracle>
// so the real table must be exactly the table the proved operations give: every byte of an
// instruction on the line of its first byte, the prologue on the line of the first instruction and
// counted with its real size, nothing beyond N.
// o= is the property evaluated on the implementation alone (the model prints o=1):
//     total     sum of the run counts != len(Instructions)
//     straddle  an instruction whose bytes map to two lines
//     span      a line outside the function's source span
//     marker    a call to k<L> / a load of "L<L>" or :t<L> whose LAST byte (ip-1 after the
//               instruction, what BuildStackTrace reads) is not on line L
//     run       a run with a count <= 0
package main

import (
	"fmt"
	"io"
	"os"
	"regexp"
	"sort"
	"strconv"
	"strings"

	"verifharness/cfgx"
	"verifharness/hx"

	"github.com/elk-language/elk/bitfield"
	"github.com/elk-language/elk/bytecode"
	"github.com/elk-language/elk/types/checker"
	"github.com/elk-language/elk/value"
	"github.com/elk-language/elk/vm"
)

func compileSrc(name, src string) (fn *vm.BytecodeFunction, diag string, panicked string) {
	defer func() {
		if r := recover(); r != nil {
			panicked = strings.SplitN(fmt.Sprint(r), "\n", 2)[0]
		}
	}()
	var flags bitfield.BitField16
	f, dl := checker.CheckSource(name, src, nil, flags, nil)
	if dl != nil && dl.IsFailure() {
		return nil, dl.Error(), ""
	}
	return f, "", ""
}

func walk(fn *vm.BytecodeFunction, seen map[*vm.BytecodeFunction]bool, visit func(*vm.BytecodeFunction)) {
	if fn == nil || seen[fn] {
		return
	}
	seen[fn] = true
	visit(fn)
	for _, v := range fn.Values {
		switch r := v.SafeAsReference().(type) {
		case *vm.BytecodeFunction:
			walk(r, seen, visit)
		case *vm.BytecodeCallSiteInfo:
			walk(r.Method, seen, visit)
		}
	}
}

// ------------------------------------------------------------------ wide shapes

type wideSpec struct {
	Cont   string // def mod inst closure script gen async
	Params int
	Locals int
	Layout string // one | chunk | each
	Form   string // mid3 args stmt tail ret1 throw
	Temps  int    // locals declared in a nested scope after the call
}

func (w wideSpec) String() string {
	return fmt.Sprintf("wide:cont=%s,params=%d,locals=%d,layout=%s,form=%s,temps=%d", w.Cont, w.Params, w.Locals, w.Layout, w.Form, w.Temps)
}

func parseWide(s string) (wideSpec, bool) {
	var w wideSpec
	if !strings.HasPrefix(s, "wide:") {
		return w, false
	}
	for _, kv := range strings.Split(s[5:], ",") {
		p := strings.SplitN(kv, "=", 2)
		if len(p) != 2 {
			return w, false
		}
		switch p[0] {
		case "cont":
			w.Cont = p[1]
		case "params":
			w.Params, _ = strconv.Atoi(p[1])
		case "locals":
			w.Locals, _ = strconv.Atoi(p[1])
		case "layout":
			w.Layout = p[1]
		case "form":
			w.Form = p[1]
		case "temps":
			w.Temps, _ = strconv.Atoi(p[1])
		}
	}
	return w, w.Cont != ""
}

var wideConts = []string{"def", "mod", "inst", "closure", "script", "gen", "async"}
var wideForms = []string{"mid3", "args", "stmt", "tail", "ret1", "throw"}
var wideLayouts = []string{"one", "chunk", "each"}

// source of one wide shape; every marker (k<line>, "L<line>", :t<line>) names the 1-based line it is on
func (w wideSpec) source() string {
	var ls []string
	add := func(s string) int { ls = append(ls, s); return len(ls) }
	cur := func() int { return len(ls) + 1 } // line number the next add() gets
	var markers []int
	ind := ""
	var params []string
	for i := 0; i < w.Params; i++ {
		params = append(params, fmt.Sprintf("p%d: Int", i))
	}
	ps := ""
	if w.Params > 0 {
		ps = "(" + strings.Join(params, ", ") + ")"
	}
	add("# " + w.String())
	switch w.Cont {
	case "def":
		add("def mid" + ps + ": Int")
		ind = "  "
	case "gen":
		add("def *mid" + ps + ": Int")
		ind = "  "
	case "async":
		add("async def mid" + ps + ": Int")
		ind = "  "
	case "mod":
		add("module MidMod")
		add("  def mid" + ps + ": Int")
		ind = "    "
	case "inst":
		add("class MidKls")
		add("  def mid" + ps + ": Int")
		ind = "    "
	case "closure":
		if w.Params > 0 {
			add("mid := |" + strings.Join(params, ", ") + "|: Int ->")
		} else {
			add("mid := ->")
		}
		ind = "  "
	case "script":
	}
	// the locals
	decl := func(i int) string { return fmt.Sprintf("v%d := %d", i, i%100) }
	switch w.Layout {
	case "each":
		for i := 0; i < w.Locals; i++ {
			add(ind + decl(i))
		}
	default:
		per := w.Locals
		if w.Layout == "chunk" {
			per = 37
		}
		if per > 4000 {
			per = 4000
		}
		for i := 0; i < w.Locals; {
			var b strings.Builder
			b.WriteString(ind)
			for j := 0; j < per && i < w.Locals; j, i = j+1, i+1 {
				if j > 0 {
					b.WriteByte(';')
				}
				b.WriteString(decl(i))
			}
			add(b.String())
		}
	}
	add("")
	call := func(line int, strLine int) string {
		markers = append(markers, line)
		return fmt.Sprintf("k%d(7, \"L%d\")", line, strLine)
	}
	isScript := w.Cont == "script"
	yield := ""
	if w.Cont == "gen" {
		yield = "yield "
	}
	last := "" // final expression of the body
	switch w.Form {
	case "mid3":
		add(ind + "r := 1 +")
		add(ind + "  " + call(cur(), cur()) + " +")
		add(ind + "  2")
		last = "r"
	case "args":
		l := cur()
		markers = append(markers, l)
		add(ind + fmt.Sprintf("r := 1 + k%d(", l))
		add(ind + "  7,")
		add(ind + fmt.Sprintf("  \"L%d\"", cur()))
		add(ind + ")")
		last = "r"
	case "stmt":
		add(ind + call(cur(), cur()))
		add(ind + "# note")
		last = "3"
	case "tail":
		last = "CALL"
	case "ret1":
		last = "1 + CALL"
	case "throw":
		add(ind + "r := " + call(cur(), cur()))
		add("")
		add(ind + fmt.Sprintf("throw unchecked :t%d if r > 100", cur()))
		last = "r"
	}
	for t := 0; t < w.Temps; t++ {
		add(ind + fmt.Sprintf("if v0 > %d", t))
		add(ind + fmt.Sprintf("  tmp%d := v0 + %d", t, t))
		add(ind + fmt.Sprintf("  v0 = tmp%d", t))
		add(ind + "end")
	}
	if strings.Contains(last, "CALL") {
		last = strings.Replace(last, "CALL", call(cur(), cur()), 1)
	}
	if isScript {
		add("println((" + last + ").inspect)")
	} else {
		add(ind + yield + last)
		if w.Cont == "gen" {
			add(ind + "3")
		}
	}
	switch w.Cont {
	case "def", "gen", "async", "closure":
		add("end")
	case "mod", "inst":
		add("  end")
		add("end")
	}
	sort.Ints(markers)
	for _, m := range markers {
		add(fmt.Sprintf("def k%d(x: Int, s: String): Int", m))
		add("  x + s.length")
		add("end")
	}
	return strings.Join(ls, "\n") + "\n"
}

// predefined slots of a container (self + parameters), used only to aim the sweep
func predefined(cont string, params int) int { return 1 + params }

// the systematic grid: every container x parameter count x a sweep of the local count through the
// 8 bit boundary of the highest slot index; forms / layouts / temps seeded
func wideGrid(r *hx.Rng, budget int, huge int) []wideSpec {
	var out []wideSpec
	type cp struct {
		c string
		p int
	}
	var cps []cp
	for _, c := range wideConts {
		for p := 0; p <= 3; p++ {
			if c == "script" && p > 0 {
				continue
			}
			cps = append(cps, cp{c, p})
		}
	}
	mk := func(c string, p, n int) wideSpec {
		w := wideSpec{Cont: c, Params: p, Locals: n, Layout: hx.Pick(r, wideLayouts), Form: hx.Pick(r, wideForms), Temps: r.Below(3)}
		if n > 600 {
			w.Layout = "one"
		}
		if n == 0 {
			w.Temps = 0 // the nested-scope temporaries read v0
		}
		if c == "gen" && (w.Form == "tail" || w.Form == "ret1") {
			w.Form = "mid3"
		}
		return w
	}
	// sweep: highest slot = predefined + locals (+ temps) - 1 from 250 to 260
	for round := 0; len(out) < budget; round++ {
		start := len(out)
		for _, x := range cps {
			for top := 250; top <= 260 && len(out) < budget; top++ {
				if round == 0 && (top < 253 || top > 257) {
					continue // first round: the boundary itself; later rounds widen
				}
				if round == 1 && top >= 253 && top <= 257 {
					continue
				}
				n := top + 1 - predefined(x.c, x.p)
				w := mk(x.c, x.p, n)
				if round%2 == 0 {
					w.Temps = 0
				}
				out = append(out, w)
			}
		}
		if round >= 1 {
			// controls with few locals
			for _, x := range cps {
				if len(out) < budget {
					out = append(out, mk(x.c, x.p, r.Below(6)))
				}
			}
		}
		if len(out) == start {
			break
		}
	}
	for i := 0; i < huge; i++ {
		x := cps[r.Below(len(cps))]
		n := 65530 + r.Below(8) - predefined(x.c, x.p)
		w := mk(x.c, x.p, n)
		w.Temps = r.Below(2)
		out = append(out, w)
	}
	return out
}

// ------------------------------------------------------------------ per function

var markerCall = regexp.MustCompile(`^k(\d+)$`)
var markerLit = regexp.MustCompile(`^[Lt](\d+)$`)

func rleInts(xs []int) string {
	var b strings.Builder
	for i := 0; i < len(xs); {
		j := i
		for j < len(xs) && xs[j] == xs[i] {
			j++
		}
		if i > 0 {
			b.WriteByte(',')
		}
		fmt.Fprintf(&b, "%d*%d", xs[i], j-i)
		i = j
	}
	return b.String()
}

// markerLine: the source line a decoded instruction is tagged with, 0 when it carries no marker
func markerLine(fn *vm.BytecodeFunction, off, size int) int {
	code := fn.Instructions
	op := bytecode.OpCode(code[off])
	name := op.String()
	idx := -1
	switch {
	case op >= bytecode.LOAD_VALUE_0 && op <= bytecode.LOAD_VALUE_3:
		idx = int(op - bytecode.LOAD_VALUE_0)
	case strings.HasPrefix(name, "LOAD_VALUE") || strings.HasPrefix(name, "CALL"):
		switch size {
		case 2:
			idx = int(code[off+1])
		case 3:
			idx = int(code[off+1])<<8 | int(code[off+2])
		}
	}
	if idx < 0 || idx >= len(fn.Values) {
		return 0
	}
	v := fn.Values[idx]
	var m []string
	if strings.HasPrefix(name, "CALL") {
		switch c := v.SafeAsReference().(type) {
		case *vm.CallSiteInfo:
			m = markerCall.FindStringSubmatch(c.Name.String())
		case *vm.BytecodeCallSiteInfo:
			if c.Method != nil {
				m = markerCall.FindStringSubmatch(c.Method.Name().String())
			}
		}
	} else {
		switch {
		case v.IsInlineSymbol():
			m = markerLit.FindStringSubmatch(v.AsInlineSymbol().String())
		default:
			if s, ok := v.SafeAsReference().(value.String); ok {
				m = markerLit.FindStringSubmatch(string(s))
			}
		}
	}
	if m == nil {
		return 0
	}
	n, _ := strconv.Atoi(m[1])
	return n
}

// analyse one function: (model input ops, observable) or ok=false when the disassembler cannot walk it
func analyse(fn *vm.BytecodeFunction, srcLines int, markers bool) (ops string, obs string, pl int, nmark int, ok bool) {
	code := fn.Instructions
	n := len(code)
	if n == 0 {
		return "", "", 0, 0, false
	}
	type ins struct{ off, size int }
	var is []ins
	res := hx.Guard(func() string {
		off := 0
		for off < n {
			nx, err := fn.DisassembleInstruction(io.Discard, off)
			if err != nil || nx <= off || nx > n {
				return "bad"
			}
			is = append(is, ins{off, nx - off})
			off = nx
		}
		return "fine"
	})
	if res != "fine" {
		return "", "", 0, 0, false
	}
	t := fn.LineInfoList
	var sb strings.Builder
	first := 0
	if op := bytecode.OpCode(code[0]); op == bytecode.PREP_LOCALS8 || op == bytecode.PREP_LOCALS16 {
		pl = is[0].size
		first = 1
	}
	for k := first; k < len(is); k++ {
		if k > first {
			sb.WriteByte(' ')
		}
		fmt.Fprintf(&sb, "a%d:%d", t.GetLineNumber(is[k].off), is[k].size)
	}
	if pl > 0 {
		fmt.Fprintf(&sb, " p%d", pl)
	}
	// the implementation's answers
	total := 0
	runOK := true
	for _, e := range t {
		total += e.InstructionCount
		if e.InstructionCount <= 0 {
			runOK = false
		}
	}
	q := make([]int, 0, n+3)
	for i := -1; i <= n+1; i++ {
		q = append(q, t.GetLineNumber(i))
	}
	oracle := "1"
	fail := func(s string) {
		if oracle == "1" {
			oracle = "0:" + s
		}
	}
	if total != n {
		fail(fmt.Sprintf("total%+d", total-n))
	}
	lo, hi := 1, srcLines
	if loc := fn.Location; loc != nil && loc.StartPos != nil && loc.EndPos != nil && loc.EndPos.Line >= loc.StartPos.Line {
		lo, hi = loc.StartPos.Line, loc.EndPos.Line
	}
	for _, x := range is {
		l0 := t.GetLineNumber(x.off)
		for b := 1; b < x.size; b++ {
			if t.GetLineNumber(x.off+b) != l0 {
				fail("straddle")
			}
		}
		if srcLines > 0 && (l0 < lo || l0 > hi) {
			fail("span")
		}
		if markers {
			if m := markerLine(fn, x.off, x.size); m > 0 {
				nmark++
				if got := t.GetLineNumber(x.off + x.size - 1); got != m {
					fail(fmt.Sprintf("marker%+d", got-m))
				}
			}
		}
	}
	if !runOK {
		fail("run")
	}
	obs = fmt.Sprintf("ok n=%d q=%s o=%s", total, rleInts(q), oracle)
	return sb.String(), obs, pl, nmark, true
}

func sanitizeName(s string) string {
	s = strings.NewReplacer("\t", "_", "\n", "_", " ", "_", ",", "_").Replace(s)
	if len(s) > 40 {
		s = s[:40]
	}
	return s
}

type lineCase struct {
	id, spec, src string
	markers       bool
}

func linesMain(o *hx.Opts, extra map[string]string) {
	r := hx.NewRng(o.Seed)
	var cases []lineCase
	for i, in := range hx.ReadInputs(o.Input) {
		// corpus lines are function cases "lines case=<spec>,... :: ops"; replay the spec's program
		spec := in
		if j := strings.Index(in, "case="); j >= 0 {
			spec = in[j+5:]
			if k := strings.IndexAny(spec, "; "); k >= 0 {
				spec = spec[:k]
			}
		}
		if w, ok := parseWide(spec); ok {
			cases = append(cases, lineCase{fmt.Sprintf("c%d", i), w.String(), w.source(), true})
		}
	}
	if path := extra["file"]; path != "" {
		// replay / debugging: analyse one program from disk (markers honoured when it uses the k<line> convention)
		b, err := os.ReadFile(path)
		if err != nil {
			fmt.Fprintln(os.Stderr, err)
			os.Exit(2)
		}
		cases = append(cases, lineCase{"f0", "file:" + sanitizeName(path), string(b), true})
	}
	nwide, _ := strconv.Atoi(extra["wide"])
	nhuge, _ := strconv.Atoi(extra["huge"])
	nshape, _ := strconv.Atoi(extra["shapes"])
	for i, w := range wideGrid(r, nwide, nhuge) {
		cases = append(cases, lineCase{fmt.Sprintf("w%d", i), w.String(), w.source(), true})
	}
	if nshape > 0 {
		for i, s := range cfgx.Shapes(hx.NewRng(o.Seed^0x5a5a), nshape) {
			cases = append(cases, lineCase{fmt.Sprintf("s%d", i), "cfgx-shape:" + sanitizeName(s.ID), s.Src, false})
		}
	}
	rp := hx.NewRng(o.Seed ^ 0xc32)
	for i := 0; i < o.N; i++ {
		src, _ := cfgx.Program(rp)
		cases = append(cases, lineCase{fmt.Sprintf("g%d", i), fmt.Sprintf("cfgx-program:%d", i), src, false})
	}
	if want := extra["src"]; want != "" {
		for _, c := range cases {
			if c.id == want || c.spec == want {
				fmt.Print(c.src)
				return
			}
		}
		fmt.Fprintln(os.Stderr, "no such case")
		os.Exit(2)
	}
	for _, c := range cases {
		fn, diag, pan := compileSrc(c.id+".elk", c.src)
		if fn == nil {
			what := "rejected"
			if pan != "" {
				what = "compiler-panic"
				diag = pan
			}
			d := strings.SplitN(diag, "\n", 2)[0]
			hx.Emit(c.id, "lines case="+c.spec+";fn=-;pl=0 ::", "unusable "+what+" "+sanitizeName(d))
			continue
		}
		srcLines := strings.Count(c.src, "\n")
		k := 0
		walk(fn, map[*vm.BytecodeFunction]bool{}, func(f *vm.BytecodeFunction) {
			if f.FileName() != fn.FileName() {
				return // a method of the standard library (lib/builtin/*.elk) reached through a call site
			}
			ops, obs, pl, nmark, ok := analyse(f, srcLines, c.markers)
			k++
			meta := fmt.Sprintf("lines case=%s;fn=%s;pl=%d;mk=%d ::", c.spec, sanitizeName(f.Name().String()), pl, nmark)
			if !ok {
				hx.Emit(fmt.Sprintf("%s.%d", c.id, k), meta, "unusable undecodable")
				return
			}
			hx.Emit(fmt.Sprintf("%s.%d", c.id, k), meta+" "+ops, obs)
		})
	}
}
