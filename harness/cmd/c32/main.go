// c32: correspondence stream c32.rle for the run-length line table. Drives the real
// bytecode.LineInfoList with a sequence of operations and queries every offset.
//
// input  : ops separated by spaces:  a<line>:<bytes>  (AddLineNumber)
//                                     b<bytes>         (AddBytesToLastLine)
//                                     r<count>         (RemoveBytes; r1 uses RemoveByte)
// observed: "ok n=<total bytes> q=<line(-1)>,<line(0)>,...,<line(n+1)> o=<oracle>"
//           | "panic <code>"   (103 nil dereference, 320 remove from empty)
// oracle (evaluated on the implementation's own answers): a plain []int byte->line list
// kept next to the table; o=1 when GetLineNumber(i)==plain[i] for all i in range, -1 beyond.
package main

import (
	"fmt"
	"strconv"
	"strings"

	"verifharness/hx"

	"github.com/elk-language/elk/bytecode"
)

func run(input string) string {
	res := hx.Guard(func() string {
		var l bytecode.LineInfoList
		var plain []int
		plainOK := true // false once an op leaves the theorem's domain (plain list no longer defined)
		for _, tok := range strings.Fields(input) {
			switch tok[0] {
			case 'a':
				p := strings.SplitN(tok[1:], ":", 2)
				line, _ := strconv.Atoi(p[0])
				n, _ := strconv.Atoi(p[1])
				l.AddLineNumber(line, n)
				if n < 1 {
					plainOK = false
				}
				for i := 0; i < n; i++ {
					plain = append(plain, line)
				}
			case 'b':
				n, _ := strconv.Atoi(tok[1:])
				l.AddBytesToLastLine(n)
				if n < 0 {
					plainOK = false
				}
				for i := 0; plainOK && len(plain) > 0 && i < n; i++ {
					plain = append(plain, plain[len(plain)-1])
				}
			case 'r':
				n, _ := strconv.Atoi(tok[1:])
				if n == 1 {
					l.RemoveByte()
				} else {
					l.RemoveBytes(n)
				}
				if n > 0 && n <= len(plain) {
					plain = plain[:len(plain)-n]
				} else if n > 0 {
					plainOK = false
				}
			}
		}
		total := 0
		for _, e := range l {
			total += e.InstructionCount
		}
		var sb strings.Builder
		fmt.Fprintf(&sb, "ok n=%d q=", total)
		oracle := "1"
		hi := total + 1
		if hi < 1 {
			hi = 1
		}
		for i := -1; i <= hi; i++ {
			got := l.GetLineNumber(i)
			if i > -1 {
				sb.WriteByte(',')
			}
			sb.WriteString(strconv.Itoa(got))
			if plainOK && oracle == "1" {
				want := -1
				if i >= 0 && i < len(plain) {
					want = plain[i]
				} else if i < 0 && len(plain) > 0 {
					want = plain[0]
				}
				if want != got || total != len(plain) {
					oracle = fmt.Sprintf("0@%d", i)
				}
			}
		}
		if !plainOK {
			oracle = "-"
		}
		sb.WriteString(" o=" + oracle)
		return sb.String()
	})
	if strings.HasPrefix(res, "panic ") {
		switch {
		case strings.Contains(res, "nil pointer dereference"):
			return "panic 103"
		case strings.Contains(res, "cannot remove a byte from an empty line info list"):
			return "panic 320"
		}
	}
	return res
}

func genOps(r *hx.Rng) string {
	n := r.Range(1, 40)
	if r.Chance(1, 10) {
		n = r.Range(40, 120)
	}
	nlines := r.Range(1, 6)
	base := r.Range(1, 200)
	var toks []string
	total := 0 // approximate number of bytes present (to aim removals at boundaries)
	for i := 0; i < n; i++ {
		c := r.Below(100)
		switch {
		case i == 0 && r.Chance(19, 20), c < 50:
			bytes := r.Range(1, 5)
			if r.Chance(1, 400) {
				bytes = 0 // outside the theorem's domain; the model still mirrors the code
			}
			toks = append(toks, fmt.Sprintf("a%d:%d", base+r.Below(nlines), bytes))
			total += bytes
		case c < 70:
			bytes := r.Range(0, 4)
			if r.Chance(1, 400) {
				bytes = -r.Range(1, 2)
			}
			toks = append(toks, fmt.Sprintf("b%d", bytes))
			total += bytes
		case c < 88:
			if total == 0 && r.Chance(9, 10) {
				nb := r.Range(1, 3)
				toks = append(toks, fmt.Sprintf("a%d:%d", base+r.Below(nlines), nb))
				total += nb
				continue
			}
			toks = append(toks, "r1")
			total--
		default:
			k := r.Range(0, 6)
			if k > total && r.Chance(7, 8) {
				k = total
			}
			switch r.Below(48) {
			case 0, 1, 2:
				k = total // remove everything
			case 3:
				k = total + 1 // one too many
			case 4:
				k = -r.Range(1, 3)
			case 5, 6, 7:
				k = r.Range(0, total) // across several run boundaries
			}
			toks = append(toks, fmt.Sprintf("r%d", k))
			if k > 0 {
				total -= k
			}
		}
		if total < 0 {
			total = 0
		}
	}
	return strings.Join(toks, " ")
}

func main() {
	o := hx.ParseFlags()
	defer hx.Flush()
	if strings.HasPrefix(o.Extra, "lines") {
		// -extra lines,wide=<n>,huge=<n>,shapes=<n>[,src=<case id>]   (see lines.go)
		extra := map[string]string{}
		for _, kv := range strings.Split(o.Extra, ",")[1:] {
			if p := strings.SplitN(kv, "=", 2); len(p) == 2 {
				extra[p[0]] = p[1]
			}
		}
		linesMain(o, extra)
		return
	}
	for i, in := range hx.ReadInputs(o.Input) {
		hx.Emit(fmt.Sprintf("c%d", i), in, run(in))
	}
	r := hx.NewRng(o.Seed)
	for i := 0; i < o.N; i++ {
		in := genOps(r)
		hx.Emit(fmt.Sprintf("g%d", i), in, run(in))
	}
}
