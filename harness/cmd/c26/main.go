// c26: correspondence streams for the symbol table (value/symbol_table.go).
//   -extra seq   : seeded op sequences on a fresh table; observed = every result + final table
//   -extra conc  : G goroutines interning overlapping name sets with interleaved lookups on a
//                  fresh table; the bijection is checked on the merged results (Go-side oracle)
//                  and a summary of the distinct observations is printed for the model.
//   -extra conc0 : as conc but never calls ExistsId (the unlocked reader), for -race builds.
// Names are printed as keys: decimal of the big-endian integer 0x01 ++ bytes(name).
package main

import (
	"fmt"
	"math"
	"math/big"
	"runtime"
	"sort"
	"strconv"
	"strings"
	"sync"

	"verifharness/hx"

	"github.com/elk-language/elk/value"
)

func key(name string) string {
	return new(big.Int).SetBytes(append([]byte{1}, []byte(name)...)).String()
}

func unkey(k string) string {
	z, ok := new(big.Int).SetString(k, 10)
	if !ok || z.Sign() <= 0 {
		panic("bad key " + k)
	}
	b := z.Bytes()
	return string(b[1:])
}

var special = []string{"", "a", "b", "foo", "Foo", "\u00e9", "e\u0301", "\u65e5\u672c\u8a9e", "\U0001F600", "a\x00b", " ", "\xff", strings.Repeat("x", 300)}

func universe(k int) []string {
	u := append([]string{}, special...)
	for i := 0; len(u) < k; i++ {
		u = append(u, fmt.Sprintf("sym_%d", i))
	}
	return u[:k]
}

func tf(b bool) string {
	if b {
		return "t"
	}
	return "f"
}

func sweep(t *value.SymbolTableStruct) []string {
	var keys []string
	for i := 0; ; i++ {
		n, ok := t.GetName(value.Symbol(i))
		if !ok {
			return keys
		}
		keys = append(keys, key(n))
	}
}

// ---------------------------------------------------------------- seq

func runSeq(input string) string {
	return hx.Guard(func() string {
		t := value.NewSymbolTable()
		var out []string
		for _, tok := range strings.Fields(input) {
			arg := tok[1:]
			switch tok[0] {
			case 'A':
				out = append(out, strconv.Itoa(int(t.Add(unkey(arg)))))
			case 'G':
				s, ok := t.Get(unkey(arg))
				out = append(out, strconv.Itoa(int(s))+","+tf(ok))
			case 'N':
				i, _ := strconv.ParseInt(arg, 10, 64)
				n, ok := t.GetName(value.Symbol(i))
				out = append(out, key(n)+","+tf(ok))
			case 'E':
				i, _ := strconv.ParseInt(arg, 10, 64)
				out = append(out, tf(t.ExistsId(value.Symbol(i))))
			default:
				panic("bad op " + tok)
			}
		}
		return strings.Join(out, " ") + " | T" + strings.Join(sweep(t), ",")
	})
}

func genSeq(r *hx.Rng, tier string) string {
	max := 40
	if tier == "thorough" {
		max = 200
	}
	u := universe(16)
	n := r.Range(1, max)
	adds := 0
	var ops []string
	name := func() string {
		if r.Chance(1, 2) {
			return u[r.Below(6)]
		}
		return u[r.Below(len(u))]
	}
	sym := func() int64 {
		switch p := r.Below(10); {
		case p < 7:
			return int64(r.Range(-2, adds+2))
		case p < 9:
			return int64(r.Range(0, 3))
		default:
			return hx.Pick(r, []int64{math.MinInt64, math.MaxInt64, 1 << 62, -(1 << 62), 1 << 31, -1})
		}
	}
	for i := 0; i < n; i++ {
		switch p := r.Below(100); {
		case p < 45:
			ops = append(ops, "A"+key(name()))
			adds++
		case p < 65:
			ops = append(ops, "G"+key(name()))
		case p < 85:
			ops = append(ops, "N"+strconv.FormatInt(sym(), 10))
		default:
			ops = append(ops, "E"+strconv.FormatInt(sym(), 10))
		}
	}
	return strings.Join(ops, " ")
}

// ---------------------------------------------------------------- conc

type rec struct {
	kind  byte // A G N M E
	name  string
	id    int
	ok    bool
	rname string // returned name (N, M)
	maxK  int    // largest id this goroutine had been handed before the call (-1: none)
}

func runConc(input string) string {
	f := strings.Fields(input)
	if len(f) != 5 {
		return "viol:format:" + input
	}
	G, _ := strconv.Atoi(f[0])
	K, _ := strconv.Atoi(f[1])
	P, _ := strconv.Atoi(f[2])
	S, _ := strconv.ParseUint(f[3], 10, 64)
	X := f[4] == "1"
	u := universe(K)
	t := value.NewSymbolTable()
	recs := make([][]rec, G)
	panics := make([]string, G)
	start := make(chan struct{})
	var wg sync.WaitGroup
	for g := 0; g < G; g++ {
		wg.Add(1)
		go func(g int) {
			defer wg.Done()
			defer func() {
				if r := recover(); r != nil {
					panics[g] = strings.SplitN(fmt.Sprint(r), "\n", 2)[0]
				}
			}()
			r := hx.NewRng(S*1000003 + uint64(g) + 1)
			own := map[string]int{}
			var ownNames []string
			maxK := -1
			learn := func(n string, id int) {
				if _, ok := own[n]; !ok {
					ownNames = append(ownNames, n)
				}
				own[n] = id
				if id > maxK {
					maxK = id
				}
			}
			add := func() {
				n := u[r.Below(len(u))]
				id := int(t.Add(n))
				recs[g] = append(recs[g], rec{kind: 'A', name: n, id: id, ok: true, maxK: maxK})
				learn(n, id)
			}
			<-start
			for i := 0; i < P; i++ {
				switch p := r.Below(100); {
				case p < 55:
					add()
				case p < 70:
					n := u[r.Below(len(u))]
					s, ok := t.Get(n)
					recs[g] = append(recs[g], rec{kind: 'G', name: n, id: int(s), ok: ok, maxK: maxK})
					if ok {
						learn(n, int(s))
					}
				case p < 85:
					if len(ownNames) == 0 {
						add()
						break
					}
					n := ownNames[r.Below(len(ownNames))]
					rn, ok := t.GetName(value.Symbol(own[n]))
					recs[g] = append(recs[g], rec{kind: 'N', name: n, id: own[n], ok: ok, rname: rn, maxK: maxK})
				case p < 95:
					id := r.Range(-2, K+2)
					rn, ok := t.GetName(value.Symbol(id))
					recs[g] = append(recs[g], rec{kind: 'M', id: id, ok: ok, rname: rn, maxK: maxK})
				default:
					if !X {
						add()
						break
					}
					id := r.Range(-2, K+2)
					ok := t.ExistsId(value.Symbol(id))
					recs[g] = append(recs[g], rec{kind: 'E', id: id, ok: ok, maxK: maxK})
				}
				if r.Chance(1, 8) {
					runtime.Gosched()
				}
			}
		}(g)
	}
	close(start)
	wg.Wait()
	T := sweep(t)
	Tn := make([]string, len(T))
	for i, k := range T {
		Tn[i] = unkey(k)
	}
	verdict := "ok"
	viol := func(clause, detail string) {
		if verdict == "ok" {
			verdict = "viol:" + clause + ":" + strings.NewReplacer("\t", " ", "\n", " ", " | ", " ").Replace(detail)
		}
	}
	for g, p := range panics {
		if p != "" {
			viol("panic", fmt.Sprintf("goroutine %d: %s", g, p))
		}
	}
	idOf := map[string]int{}
	nameOf := map[int]string{}
	added := map[string]bool{}
	set := map[string]bool{}
	for _, rs := range recs {
		for _, x := range rs {
			switch x.kind {
			case 'A', 'G':
				if x.kind == 'G' && !x.ok {
					if x.id != -1 {
						viol("get-miss", fmt.Sprintf("Get(%q) = %d,false", x.name, x.id))
					}
					set[fmt.Sprintf("G%s=%d,f", key(x.name), x.id)] = true
					break
				}
				if x.kind == 'A' {
					added[x.name] = true
					set[fmt.Sprintf("A%s=%d", key(x.name), x.id)] = true
				} else {
					set[fmt.Sprintf("G%s=%d,t", key(x.name), x.id)] = true
				}
				if old, ok := idOf[x.name]; ok && old != x.id {
					viol("same-name-same-id", fmt.Sprintf("%q got %d and %d", x.name, old, x.id))
				}
				idOf[x.name] = x.id
				if old, ok := nameOf[x.id]; ok && old != x.name {
					viol("distinct-names-distinct-ids", fmt.Sprintf("id %d for %q and %q", x.id, old, x.name))
				}
				nameOf[x.id] = x.name
			case 'N':
				set[fmt.Sprintf("N%d=%s,%s", x.id, key(x.rname), tf(x.ok))] = true
				if !x.ok || x.rname != x.name {
					viol("getname-of-own-id", fmt.Sprintf("GetName(%d) = %q,%v but the id was handed out for %q", x.id, x.rname, x.ok, x.name))
				}
			case 'M':
				set[fmt.Sprintf("M%d=%s,%s", x.id, key(x.rname), tf(x.ok))] = true
				if x.ok {
					if x.id < 0 || x.id >= len(Tn) || Tn[x.id] != x.rname {
						viol("getname-arbitrary", fmt.Sprintf("GetName(%d) = %q,true disagrees with the final table", x.id, x.rname))
					}
				} else if x.rname != "" || (x.id >= 0 && x.id <= x.maxK) {
					viol("getname-arbitrary", fmt.Sprintf("GetName(%d) = %q,false although id %d was already handed out", x.id, x.rname, x.maxK))
				}
			case 'E':
				set[fmt.Sprintf("E%d=%s", x.id, tf(x.ok))] = true
				if x.ok && !(x.id > 0 && x.id < len(Tn)) {
					viol("existsid", fmt.Sprintf("ExistsId(%d) = true, table length %d", x.id, len(Tn)))
				}
				if !x.ok && x.id > 0 && x.id <= x.maxK {
					viol("existsid", fmt.Sprintf("ExistsId(%d) = false although id %d was already handed out", x.id, x.maxK))
				}
			}
		}
	}
	// dense
	if len(Tn) != len(added) {
		viol("dense", fmt.Sprintf("final table has %d entries, %d distinct names were added", len(Tn), len(added)))
	}
	dup := map[string]bool{}
	for i, n := range Tn {
		if dup[n] {
			viol("dense", fmt.Sprintf("name %q stored twice (index %d)", n, i))
		}
		dup[n] = true
	}
	for n, id := range idOf {
		if id < 0 || id >= len(Tn) || Tn[id] != n {
			viol("dense", fmt.Sprintf("id %d of %q not backed by the final table", id, n))
		}
	}
	var entries []string
	for e := range set {
		entries = append(entries, e)
	}
	sort.Strings(entries)
	return verdict + " | T" + strings.Join(T, ",") + " | " + strings.Join(entries, " ")
}

func genConc(r *hx.Rng, tier string, x string) string {
	G := hx.Pick(r, []int{2, 3, 4, 8, 16, 32, 64})
	K := r.Range(1, 48)
	maxP := 300
	if tier == "thorough" {
		maxP = 2000
	}
	P := r.Range(5, maxP)
	S := r.Next() % 1000000000
	X := "0"
	if x == "conc" && r.Chance(1, 2) {
		X = "1"
	}
	return fmt.Sprintf("%d %d %d %d %s", G, K, P, S, X)
}

func main() {
	o := hx.ParseFlags()
	defer hx.Flush()
	mode := o.Extra
	if mode == "" {
		mode = "seq"
	}
	run := runSeq
	if mode != "seq" {
		run = runConc
	}
	for i, in := range hx.ReadInputs(o.Input) {
		if mode == "conc0" && strings.HasSuffix(in, " 1") {
			continue
		}
		hx.Emit(fmt.Sprintf("c%d", i), in, run(in))
	}
	r := hx.NewRng(o.Seed)
	for i := 0; i < o.N; i++ {
		var in string
		if mode == "seq" {
			in = genSeq(r, o.Tier)
		} else {
			in = genConc(r, o.Tier, mode)
		}
		hx.Emit(fmt.Sprintf("g%d", i), in, run(in))
	}
}
