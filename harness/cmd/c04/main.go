// c04: correspondence stream for "lexing partitions the source; colouring never alters text".
//
// One case = a lexing mode and a byte string. The harness drives the PUBLIC lexer API
// (lexer.New(src).Next() until END_OF_FILE; lexer.Colorize / ColorizeEmbellishedText) and records
// every token's span (start/end byte offsets, start line/column, end line/column), the SGR
// parameters fatih/color wraps that token in, and the colourised text.
//
// input    : "m=<n|e> s=<hex> | toks=<start,end,line,col,eline,ecol,params,TYPE/...>"
//
//	m=n normal source, m=e embellished text ("foo `1 + 2` bar", hook lexer.VerifNewEmbellished).
//	Everything after '|' is the OBSERVED token stream, fed to the proved monitor (the model
//	driver checks the step condition L of Model/C04_Spans.v on every real step).
//
// observed : "n=<tokens>;end=<eof|limit|panic ...>;col=<hex of Colorize(src)>;o2=<ok|reason>"
//
//	o2 is the second, independent oracle evaluated here on the implementation's own
//	outputs: spans reassemble the source, gaps hold only what the lexer skips, positions
//	recounted with strings/utf8 functions, regexp-stripped colouring equals the source.
//
// -extra exh:<k> enumerates ALL strings of at most k symbols over the 24-symbol alphabet below
// (instead of -n random cases).
package main

import (
	"encoding/hex"
	"fmt"
	"os"
	"regexp"
	"strconv"
	"strings"
	"unicode"
	"unicode/utf8"

	"verifharness/hx"

	"github.com/elk-language/elk/lexer"
	"github.com/elk-language/elk/token"
	"github.com/fatih/color"
)

type tokRec struct {
	start, end, line, col, eline, ecol int
	params                             string
	typ                                string
}

func s2hx(s string) string { return hex.EncodeToString([]byte(s)) }
func hx2s(h string) string {
	b, err := hex.DecodeString(h)
	if err != nil {
		panic("bad hex " + h)
	}
	return string(b)
}

// SGR parameters fatih/color uses for this token: wrap a marker and split.
func sgrParams(tok *token.Token) string {
	w := color.New(tok.AnsiStyling()...).Sprint("\x00")
	i := strings.IndexByte(w, 0)
	if i < 3 || !strings.HasPrefix(w, "\x1b[") || w[i-1] != 'm' || w[i+1:] != "\x1b[0m" {
		return "?" + s2hx(w)
	}
	return w[2 : i-1]
}

func sanitize(s string) string {
	return strings.Map(func(r rune) rune {
		if r == ' ' || r == ',' || r == '/' || r == ';' || r == '\t' || r == '|' || r == '=' {
			return '_'
		}
		return r
	}, s)
}

// lexAll drives Next() until END_OF_FILE. limit guards against a lexer that stops making progress.
func lexAll(mode string, src string) (toks []tokRec, end string) {
	end = "eof"
	defer func() {
		if r := recover(); r != nil {
			msg := fmt.Sprint(r)
			if i := strings.IndexByte(msg, '\n'); i >= 0 {
				msg = msg[:i]
			}
			end = "panic " + sanitize(msg)
		}
	}()
	var l *lexer.Lexer
	if mode == "e" {
		l = lexer.VerifNewEmbellished(src)
	} else {
		l = lexer.New(src)
	}
	limit := 4*len(src) + 16
	for {
		tok := l.Next()
		if tok.Type == token.END_OF_FILE {
			return
		}
		sp := tok.Span()
		toks = append(toks, tokRec{sp.StartPos.ByteOffset, sp.EndPos.ByteOffset, sp.StartPos.Line, sp.StartPos.Column,
			sp.EndPos.Line, sp.EndPos.Column, sgrParams(tok), sanitize(tok.Type.Name())})
		if len(toks) > limit {
			end = "limit"
			return
		}
	}
}

func colorize(mode, src string) (out string) {
	defer func() {
		if r := recover(); r != nil {
			msg := fmt.Sprint(r)
			if i := strings.IndexByte(msg, '\n'); i >= 0 {
				msg = msg[:i]
			}
			out = "panic " + sanitize(msg)
		}
	}()
	if mode == "e" {
		return s2hx(lexer.ColorizeEmbellishedText(src))
	}
	return s2hx(lexer.Colorize(src))
}

// ---------------------------------------------------------------- oracle 2

// what the lexer may skip between tokens: blanks, line comments, nested block comments
// underscore: the gap lies inside a \x[ / \b[ style collection, where the lexer drops a lone '_'
// (recorded as note=underscore-gap, not a violation of the property)
func gapOK(g string, underscore bool, usedUnderscore *bool) bool {
	i := 0
	n := len(g)
	for i < n {
		r, sz := utf8.DecodeRuneInString(g[i:])
		switch {
		case unicode.IsSpace(r):
			i += sz
		case r == '_' && underscore:
			*usedUnderscore = true
			i += sz
		case strings.HasPrefix(g[i:], "#[") || strings.HasPrefix(g[i:], "/*"):
			open, cl := "#[", "]#"
			if g[i] == '/' {
				open, cl = "/*", "*/"
			}
			depth := 0
			for {
				if i >= n {
					return false
				}
				if strings.HasPrefix(g[i:], open) {
					depth++
					i += 2
				} else if strings.HasPrefix(g[i:], cl) {
					depth--
					i += 2
					if depth == 0 {
						break
					}
				} else {
					i++
				}
			}
		case r == '#' || strings.HasPrefix(g[i:], "//"):
			for i < n && g[i] != '\n' {
				i++
			}
		default:
			return false
		}
	}
	return true
}

var sgrRe = regexp.MustCompile("\x1b\\[[0-9;]*m")

// position of byte offset n by recounting from the beginning: lines end at '\n', columns count runes
func recount(src string, n int) (line, col int) {
	p := src[:n]
	line = 1 + strings.Count(p, "\n")
	ls := strings.LastIndexByte(p, '\n') + 1
	col = 1 + utf8.RuneCountInString(p[ls:])
	return
}

var intCollBeg = regexp.MustCompile(`^[\\%^][xb]\[$`)

func oracle2(mode, src string, toks []tokRec, end string, colHex string) (verdict string, note string) {
	verdict = oracle2v(mode, src, toks, end, colHex, &note)
	return
}

func oracle2v(mode, src string, toks []tokRec, end string, colHex string, note *string) string {
	if end != "eof" {
		return "end:" + strings.Fields(end)[0]
	}
	var b strings.Builder
	prev := 0
	inIntColl := false
	used := false
	defer func() {
		if used {
			*note = "underscore-gap"
		}
	}()
	for i, t := range toks {
		if t.start < prev {
			return fmt.Sprintf("overlap@%d", i)
		}
		if t.end+1 < t.start || t.end+1 > len(src) || t.start < 0 {
			return fmt.Sprintf("range@%d", i)
		}
		g := src[prev:t.start]
		if !gapOK(g, inIntColl, &used) {
			return fmt.Sprintf("gap@%d", i)
		}
		if intCollBeg.MatchString(t.typ) {
			inIntColl = true
		}
		b.WriteString(g)
		b.WriteString(src[t.start : t.end+1])
		prev = t.end + 1
		ln, c := recount(src, t.start)
		if ln != t.line || c != t.col {
			return fmt.Sprintf("startpos@%d", i)
		}
		eln, ec := recount(src, t.end+1)
		if t.end == t.start {
			eln, ec = ln, c+1
		}
		if eln != t.eline || ec-1 != t.ecol {
			return fmt.Sprintf("endpos@%d", i)
		}
	}
	if !gapOK(src[prev:], inIntColl, &used) {
		return "gap@end"
	}
	b.WriteString(src[prev:])
	if b.String() != src {
		return "reassemble"
	}
	if strings.HasPrefix(colHex, "panic") {
		return "colorize-panic"
	}
	if !strings.Contains(src, "\x1b") {
		if sgrRe.ReplaceAllString(hx2s(colHex), "") != src {
			return "strip"
		}
	}
	return "ok"
}

func runCase(mode, src string) (oracle string, observed string) {
	toks, end := lexAll(mode, src)
	col := colorize(mode, src)
	for _, t := range toks {
		if strings.HasPrefix(t.params, "?") && end == "eof" {
			end = "badwrap" // fatih/color did not produce ESC[<params>m ... ESC[0m
		}
	}
	parts := make([]string, len(toks))
	for i, t := range toks {
		parts[i] = fmt.Sprintf("%d,%d,%d,%d,%d,%d,%s,%s", t.start, t.end, t.line, t.col, t.eline, t.ecol, t.params, t.typ)
	}
	oracle = "toks=" + strings.Join(parts, "/")
	v, note := oracle2(mode, src, toks, end, col)
	observed = fmt.Sprintf("n=%d;end=%s;col=%s;o2=%s", len(toks), end, col, v)
	if note != "" {
		observed += ";note=" + note
	}
	return
}

// ---------------------------------------------------------------- generator

var idents = []string{"a", "foo", "bar_baz", "x1", "é", "łódź", "日本", "𝒳y", "_priv", "_Priv", "Foo", "Ünï", "_", "__", "r", "rx",
	"def", "end", "if", "class", "nil", "true", "self", "loop", "@iv", "@é", "@", "$g", "$$C", "$", "$$", "§K", "§", "@{", "r`", "f"}
var numbers = []string{"0", "1", "123", "1_000", "1__0", "0x1f", "0XFF", "0b101", "0B2", "0o17", "0d1a", "0q123", "0x", "1.5", "1.", "1.e", "1e10",
	"1.2e-3", "1E+5", "1e", ".5", ".5e3", ".5f64", ".5f3", ".5bf", ".5b", "12i8", "12i16", "12i32", "12i64", "12i9", "12i", "3u", "3u8", "3u16", "3u32",
	"3u64", "3u7", "1f32", "1f64", "1f", "1.0f64", "2bf", "2b", "1_", "0x_1", "9é", "1..2", "1...2", "1<..2", "1<.<2", "1..<2"}
var operators = []string{"+", "-", "*", "/", "**", "=", "==", "===", "!=", "!==", "=~", "!~", "<", "<=", ">", ">=", "<=>", "<<", ">>", "<<<", ">>>",
	"<<=", ">>=", "<<<=", ">>>=", "&", "&&", "&&=", "&~", "&!", "&=", "|", "||", "||=", "|>", "|!", "|=", "^", "^=", "^[", "~", "~=", "~>", "??", "??=", "?.",
	"?..", "?[", "?", "!", "!{", ".", "..", "...", ".:", ":", "::", "::=", "::[", ":=", ":>", ":>>", "<:", "<<:", "<<@", "->", "=>", "<-", "-@", "+@", "++", "--",
	"+=", "-=", "*=", "**=", "/=", "%=", "%", "%|", "%[", "%{", "(", ")", "[", "]", "{", "}", ",", ";", "\\", "\\|", "\\[", "\\{", "\\=", "\\/a/"}
var blanks = []string{" ", " ", " ", "\t", "\n", "\n", "\r\n", "\r\n", "\r", "\n\n", "\r\n\r\n", "\n\r\n", "\r\r\n", "\n\r", "  ", " \n "}
var runesMB = []string{"é", "ß", "ł", "€", "日", "語", "😀", "𝒳", "\u00a0", "\u2003", "\u0085", "\u2028", "\u0301", "\ufffd", "\ufeff"}
var badUTF8 = []string{"\x80", "\xbf", "\xc3", "\xc0\xaf", "\xe2\x82", "\xe2", "\xed\xa0\x80", "\xf0\x9f\x98", "\xf4\x90\x80\x80", "\xff", "\xfe", "\xc3\x28"}
var escapes = []string{"\\n", "\\t", "\\\\", "\\\"", "\\r", "\\a", "\\b", "\\v", "\\f", "\\$", "\\#", "\\`", "\\x41", "\\xe9", "\\u00e9", "\\u20AC", "\\U0001F600",
	"\\q", "\\é", "\\€", "\\😀", "\\日", "\\\x80", "\\\xc3", "\\ ", "\\\n", "\\\r\n", "\\\r", "\\x", "\\xZ", "\\x4", "\\x4Z", "\\xé", "\\x4é", "\\x€", "\\x\n", "\\u", "\\u12",
	"\\u00é", "\\u123€", "\\uZZZZ", "\\u00e", "\\U", "\\U0001", "\\U0001F60é", "\\UFFFFFFFF", "\\U00110000", "\\uD800", "\\/", "\\1", "\\0"}
var significant = []string{"\"", "'", "`", "\\", "$", "#", "{", "}", "[", "]", "/", "*", "%", "@", "_", "\n", "\r", " ", "x", "u", "U", "w", "s", "b", "r", "i",
	"m", "1", "0", ".", "e", "f", "é", "€", "😀", "\xc3", "\x80", "^", "<", ">", "=", "-", "\x1b", "\x00", "§", "${", "#{", "##[", "]##", "/**", "**/", "#[", "]#", "/*", "*/", "//", "%/", "%w[", "\\w[", "^s["}

type gen struct {
	r     *hx.Rng
	depth int
}

func (g *gen) pick(xs []string) string { return hx.Pick(g.r, xs) }

func (g *gen) text(n int) string {
	var b strings.Builder
	for i := 0; i < n; i++ {
		switch g.r.Below(14) {
		case 0, 1, 2, 3, 4:
			b.WriteString(g.pick([]string{"a", "b", "z", "Q", "0", "7", "_", " ", "x", "u", "-", ".", ",", "n"}))
		case 5, 6, 7:
			b.WriteString(g.pick(runesMB))
		case 8:
			b.WriteString(g.pick(badUTF8))
		case 9:
			b.WriteString(g.pick(blanks))
		case 10:
			b.WriteString(g.pick(significant))
		default:
			b.WriteString(g.pick(idents))
		}
	}
	return b.String()
}

func (g *gen) strBody(n int, term string) string {
	var b strings.Builder
	for i := 0; i < n; i++ {
		switch g.r.Below(16) {
		case 0, 1, 2:
			b.WriteString(g.text(1))
		case 3, 4, 5, 6:
			b.WriteString(g.pick(escapes))
		case 7:
			b.WriteString(g.pick(escapes) + g.pick(runesMB))
		case 8:
			b.WriteString(g.pick(runesMB) + g.pick(escapes))
		case 9:
			if g.depth < 3 {
				g.depth++
				b.WriteString(g.pick([]string{"${", "#{"}) + g.expr(g.r.Range(0, 3)) + g.pick([]string{"}", "}", "}", ""}))
				g.depth--
			}
		case 10:
			b.WriteString(g.pick([]string{"$", "#"}) + g.pick(idents))
		case 11:
			b.WriteString(g.pick([]string{"$", "#", "$ ", "#1", "$é", "#_", "$_A", "$\xc3", "#€"}))
		case 12:
			b.WriteString(g.pick(blanks))
		case 13:
			b.WriteString(g.pick(badUTF8))
		default:
			b.WriteString(g.pick(runesMB))
		}
	}
	return b.String()
}

func (g *gen) comment() string {
	body := func() string { return g.text(g.r.Range(0, 4)) }
	switch g.r.Below(10) {
	case 0, 1:
		return "#" + strings.ReplaceAll(body(), "\n", " ") + g.pick([]string{"\n", "\r\n", ""})
	case 2:
		return "//" + strings.ReplaceAll(body(), "\n", " ") + g.pick([]string{"\n", "\r\n", ""})
	case 3:
		return "#[" + body() + g.pick([]string{"]#", "]#", ""})
	case 4:
		return "#[" + body() + "#[" + body() + "]#" + body() + g.pick([]string{"]#", "]#", ""})
	case 5:
		return "/*" + body() + g.pick([]string{"*/", "*/", ""})
	case 6:
		return "/*" + body() + "/*" + body() + "*/" + body() + g.pick([]string{"*/", "*/", ""})
	case 7:
		return "##[" + g.pick(blanks) + body() + g.pick(blanks) + body() + g.pick([]string{"]##", "]##", "]#", ""})
	case 8:
		return "/**" + g.pick(blanks) + body() + g.pick(blanks) + body() + g.pick([]string{"**/", "**/", "*/", ""})
	default:
		return "##[" + body() + "##[" + body() + "]##" + body() + "]##"
	}
}

func (g *gen) literal() string {
	q := func(open, cl string) string {
		return open + g.strBody(g.r.Range(0, 5), cl) + g.pick([]string{cl, cl, cl, cl, ""})
	}
	switch g.r.Below(22) {
	case 0, 1, 2, 3:
		return q("\"", "\"")
	case 4:
		return "'" + g.text(g.r.Range(0, 4)) + g.pick([]string{"'", "'", ""})
	case 5:
		return "`" + g.pick([]string{"a", "é", "€", "😀", "\n", "\r\n", "\\n", "\\`", "\\x41", "\\u00e9", "\\U0001F600", "\\é", "\\x", "\\xé", "\\u00é", "\\\n", "\\q", "ab", "a\nb", "",
			"\x80", "\\", "\\u12", "\\U0001é", "é\n"}) + g.pick([]string{"`", "`", "`", ""})
	case 6:
		return "r`" + g.pick([]string{"a", "é", "€", "\n", "ab", "a\nb", "", "\xc3", "\\"}) + g.pick([]string{"`", "`", ""})
	case 7, 8:
		return "%/" + g.regexBody() + g.pick([]string{"/", "/", "/", ""}) + g.pick([]string{"", "", "i", "imx", "sUa", "q", "é", "ié", "i€", "1"})
	case 9:
		return g.pick([]string{"\\w[", "%w[", "^w[", "\\s[", "%s[", "^s["}) + g.collBody(false) + g.pick([]string{"]", "]", "]", ""})
	case 10:
		return g.pick([]string{"\\x[", "%x[", "^x[", "\\b[", "%b[", "^b["}) + g.collBody(true) + g.pick([]string{"]", "]", "]", ""})
	case 11:
		return q("$\"", "\"")
	case 12:
		return q("@\"", "\"")
	case 13:
		return q(g.pick([]string{"$$\"", "§\""}), "\"")
	case 14:
		return g.pick([]string{"$'", "@'", "$$'", "§'"}) + g.text(g.r.Range(0, 3)) + g.pick([]string{"'", "'", ""})
	case 15:
		return g.comment()
	case 16:
		return g.comment()
	default:
		return g.pick(numbers)
	}
}

func (g *gen) regexBody() string {
	var b strings.Builder
	n := g.r.Range(0, 5)
	for i := 0; i < n; i++ {
		switch g.r.Below(10) {
		case 0, 1, 2:
			b.WriteString(g.pick([]string{"a", "b+", "[a-z]", "(x|y)", ".*", "\\d", "\\/", "\\\\", "\\é", "\\\n", "\\€", "$", "$x", "#{"}))
		case 3:
			if g.depth < 3 {
				g.depth++
				b.WriteString("${" + g.expr(g.r.Range(0, 2)) + g.pick([]string{"}", "}", ""}))
				g.depth--
			}
		case 4:
			b.WriteString(g.pick(blanks))
		case 5:
			b.WriteString(g.pick(badUTF8))
		default:
			b.WriteString(g.pick(runesMB))
		}
	}
	return b.String()
}

func (g *gen) collBody(ints bool) string {
	var b strings.Builder
	n := g.r.Range(0, 5)
	for i := 0; i < n; i++ {
		b.WriteString(g.pick([]string{" ", " ", "\n", "\r\n", "\t", "\u00a0", "\u2003", "\u0085", "", "  "}))
		if ints {
			b.WriteString(g.pick([]string{"1f", "ff", "101", "0", "1_0", "1__0", "_", "zz", "é", "12é", "\xc3", "_1", "1_"}))
		} else {
			b.WriteString(g.pick([]string{"foo", "bar", "é", "日本", "a\\b", "\"", "\xff", "$x", "#{", "'", "`"}))
		}
	}
	b.WriteString(g.pick([]string{"", " ", "\n"}))
	return b.String()
}

func (g *gen) expr(n int) string {
	var b strings.Builder
	for i := 0; i < n; i++ {
		switch g.r.Below(12) {
		case 0, 1, 2:
			b.WriteString(g.pick(idents))
		case 3, 4:
			b.WriteString(g.pick(operators))
		case 5:
			b.WriteString(g.pick(numbers))
		case 6, 7:
			b.WriteString(g.literal())
		case 8:
			b.WriteString(g.pick(runesMB))
		case 9:
			if g.r.Chance(1, 2) {
				b.WriteString(g.pick(badUTF8))
			} else {
				b.WriteString(g.pick(runesMB) + g.pick(idents))
			}
		default:
			b.WriteString(g.pick(blanks))
		}
		if g.r.Chance(1, 2) {
			b.WriteString(g.pick(blanks))
		}
	}
	return b.String()
}

func (g *gen) embellished() string {
	var b strings.Builder
	n := g.r.Range(0, 5)
	for i := 0; i < n; i++ {
		b.WriteString(g.text(g.r.Range(0, 3)))
		ticks := g.pick([]string{"`", "`", "``", "```"})
		b.WriteString(ticks + g.expr(g.r.Range(0, 3)) + g.pick([]string{ticks, ticks, "`", ""}))
	}
	b.WriteString(g.text(g.r.Range(0, 2)))
	return b.String()
}

func (g *gen) mutate(s string) string {
	k := g.r.Range(1, 3)
	for j := 0; j < k && len(s) > 0; j++ {
		p := g.r.Below(len(s) + 1)
		switch g.r.Below(5) {
		case 0: // delete a byte (may cut a rune in half)
			if p < len(s) {
				s = s[:p] + s[p+1:]
			}
		case 1:
			s = s[:p] + g.pick(significant) + s[p:]
		case 2:
			s = s[:p] + g.pick(escapes) + s[p:]
		case 3: // truncate: unterminated literals
			s = s[:p]
		default:
			s = s[:p] + g.pick(badUTF8) + s[p:]
		}
	}
	return s
}

func (g *gen) source() (mode, src string) {
	g.depth = 0
	mode = "n"
	switch g.r.Below(20) {
	case 0, 1, 2, 3, 4, 5, 6, 7:
		src = g.expr(g.r.Range(1, 8))
	case 8, 9, 10, 11:
		src = g.literal() + g.pick(blanks) + g.literal()
	case 12:
		src = g.text(g.r.Range(1, 8))
	case 13: // random symbols from the significant set
		n := g.r.Range(1, 10)
		var b strings.Builder
		for i := 0; i < n; i++ {
			b.WriteString(g.pick(significant))
		}
		src = b.String()
	case 14: // random bytes
		n := g.r.Range(1, 8)
		bs := make([]byte, n)
		for i := range bs {
			bs[i] = byte(g.r.Below(256))
		}
		src = string(bs)
	case 15, 16:
		mode = "e"
		src = g.embellished()
	default:
		src = g.expr(g.r.Range(1, 5))
		src = g.mutate(src)
	}
	if g.r.Chance(1, 4) {
		src = g.mutate(src)
	}
	if g.r.Chance(1, 10) { // whole source with CRLF line endings
		src = strings.ReplaceAll(strings.ReplaceAll(src, "\r\n", "\n"), "\n", "\r\n")
	}
	if g.r.Chance(1, 40) && mode == "n" {
		mode = "e"
	}
	return
}

// 24-symbol alphabet of lexer-significant bytes / runes for the exhaustive sweep
var exhAlphabet = []string{"\"", "\\", "x", "u", "é", "€", "\n", "\r", "`", "'", "$", "{", "}", "#", "[", "]", "/", "*", "%", "w", " ", "1", "\xc3", "a"}

func exhaustive(k int, emit func(mode, src string)) {
	var rec func(prefix string, left int)
	rec = func(prefix string, left int) {
		if prefix != "" {
			emit("n", prefix)
		}
		if left == 0 {
			return
		}
		for _, a := range exhAlphabet {
			rec(prefix+a, left-1)
		}
	}
	rec("", k)
}

func parseInput(in string) (mode, src string) {
	if i := strings.Index(in, "|"); i >= 0 {
		in = in[:i]
	}
	mode = "n"
	for _, f := range strings.Fields(in) {
		kv := strings.SplitN(f, "=", 2)
		if len(kv) != 2 {
			continue
		}
		switch kv[0] {
		case "m":
			mode = kv[1]
		case "s":
			src = hx2s(kv[1])
		case "q": // Go-quoted source, for hand-written corpus lines
			u, err := strconv.Unquote(kv[1])
			if err != nil {
				panic("bad quoted source " + kv[1])
			}
			src = u
		}
	}
	return
}

func main() {
	o := hx.ParseFlags()
	defer hx.Flush()
	os.Unsetenv("NO_COLOR") // color.New consults it on every call
	color.NoColor = false   // force the escapes: the harness has no terminal
	emit := func(id, mode, src string) {
		orc, obs := runCase(mode, src)
		hx.Emit(id, "m="+mode+" s="+s2hx(src)+" | "+orc, obs)
	}
	for i, in := range hx.ReadInputs(o.Input) {
		m, s := parseInput(in)
		emit(fmt.Sprintf("c%d", i), m, s)
	}
	if strings.HasPrefix(o.Extra, "exh:") {
		k, _ := strconv.Atoi(o.Extra[4:])
		i := 0
		exhaustive(k, func(m, s string) {
			emit(fmt.Sprintf("x%d", i), m, s)
			i++
		})
		return
	}
	g := &gen{r: hx.NewRng(o.Seed)}
	for i := 0; i < o.N; i++ {
		m, s := g.source()
		emit(fmt.Sprintf("g%d", i), m, s)
	}
}
