// c29: exports every BytecodeFunction the real checker/compiler produces, in textual form,
// together with the verdict of the implementation's own disassembler.
//
//	-extra gen      print coq/Gen/C29_Opcodes.v (hand table + sizes stepped from the real disassembler)
//	-extra optable  one case per opcode: "op<k>\tOP <k> <NAME>\tdis=<size> ff=<size>"
//	-extra export   (default) corpus replay (-input), repository sources, wide programs, -n generated programs;
//	                one case per function: "<id>\tF <dump>\t<go oracle>"
//	-extra src      print the generated programs (debugging)
//
// -nwide / -nwiderand: systematic wide shapes (cfgx/wide.go) and random programs in the wide
// profile: > 255 pool values / locals / upvalues / elements / arguments in front of or inside
// the construct under test, so that the 16-bit opcode variants are emitted.
//
// -abort compiles with checker.AdditionalAbortChecks (used by the C33 static stream).
package main

import (
	"flag"
	"fmt"
	"os"
	"strings"

	"verifharness/cfgx"
	"verifharness/hx"

	"github.com/elk-language/elk/env"
	"github.com/elk-language/elk/vm"
)

var abort = flag.Bool("abort", false, "compile with AdditionalAbortChecks")
var only = flag.Int("only", -1, "bias generated statements to one construct")
var norepo = flag.Bool("norepo", false, "skip the repository sources (main.elk.test)")
var nwide = flag.Int("nwide", 0, "number of systematic wide shapes (container x construct x pad)")
var nwiderand = flag.Int("nwiderand", 0, "number of random programs in the wide profile")
var repo = flag.String("repo", "/repo", "repository root (for the shipped Elk sources)")

func main() {
	o := hx.ParseFlags()
	defer hx.Flush()
	env.ELKPATH = *repo
	cfgx.OnlyPick = *only
	tab, problems := cfgx.LoadTable()
	for _, p := range problems {
		fmt.Fprintln(os.Stderr, "TABLE-PROBLEM: "+p)
	}
	switch o.Extra {
	case "gen":
		fmt.Print(cfgx.CoqTable(tab))
		if len(problems) > 0 {
			os.Exit(3)
		}
		return
	case "optable":
		for _, t := range tab {
			obs := fmt.Sprintf("dis=%d ff=%d", t.DisSize, t.DisSizeF)
			if t.DisSize < 0 || t.DisSizeF < 0 {
				obs = "dis=panic " + t.DisNote
			}
			hx.Emit(fmt.Sprintf("op%d", t.Code), fmt.Sprintf("OP %d %s", t.Code, t.Name), obs)
		}
		return
	}

	seen := map[*vm.BytecodeFunction]bool{}
	nfun := 0
	emit := func(origin string, fn *vm.BytecodeFunction) {
		cfgx.Walk(fn, seen, func(f *vm.BytecodeFunction) {
			nfun++
			hx.Emit(fmt.Sprintf("%s#%d", origin, nfun), "F "+cfgx.Dump(f)+";origin="+origin, cfgx.GoOracle(f, tab))
		})
	}
	note := func(origin, what, detail string) {
		detail = strings.ReplaceAll(strings.ReplaceAll(detail, "\n", " | "), "\t", " ")
		if len(detail) > 300 {
			detail = detail[:300]
		}
		hx.Emit(origin, "N "+what, detail)
	}
	compileSrc := func(origin, src string) {
		fn, diag, pan := cfgx.Compile(origin, src, *abort)
		switch {
		case pan != "":
			note(origin, "compiler-panic", pan+" SRC: "+src)
		case fn == nil:
			note(origin, "rejected", diag)
		default:
			emit(origin, fn)
		}
	}

	// 1. corpus / replay: lines "S <source with \n escaped>" or "F <dump>"
	for i, in := range hx.ReadInputs(o.Input) {
		switch {
		case strings.HasPrefix(in, "S "):
			compileSrc(fmt.Sprintf("corpus%d", i), strings.ReplaceAll(in[2:], "\\n", "\n"))
		case strings.HasPrefix(in, "F "):
			hx.Emit(fmt.Sprintf("corpus%d", i), in, "replay")
		}
	}
	if o.Extra == "replay" {
		return
	}

	// 2. the repository's own Elk sources (main.elk.test pulls in every *.elk.test and std)
	if o.Extra != "src" {
		for _, p := range cfgx.RepoSources(*repo) {
			if *norepo {
				break
			}
			rel := strings.TrimPrefix(p, *repo+"/")
			if strings.Contains(rel, "fixtures/") {
				continue
			}
			fn, diag, pan := cfgx.CompileFile(p, *abort)
			switch {
			case pan != "":
				note("repo:"+rel, "compiler-panic", pan)
			case fn == nil:
				note("repo:"+rel, "rejected", diag)
			default:
				emit("repo:"+rel, fn)
			}
		}
		// 3. wide frames / many upvalues (16-bit opcode variants)
		for _, w := range [][2]int{{8, 5}, {260, 3}, {300, 40}, {300, 270}} {
			compileSrc(fmt.Sprintf("wide%d_%d", w[0], w[1]), cfgx.WideProgram(w[0], w[1]))
		}
		if *nwide > 0 {
			for _, w := range cfgx.WideCorners(*nwide >= 500) {
				compileSrc(w.ID, w.Src)
			}
		}
	}

	// 3b. systematic wide shapes and random programs in the wide profile (own seeded streams)
	{
		rw := hx.NewRng(o.Seed ^ 0x57494445)
		for _, w := range cfgx.WideShapes(rw, *nwide) {
			if o.Extra == "src" {
				fmt.Printf("### %s\n%s\n", w.ID, w.Src)
				continue
			}
			compileSrc(w.ID, w.Src)
		}
		for i := 0; i < *nwiderand; i++ {
			src, tags := cfgx.WideRandomProgram(rw)
			if o.Extra == "src" {
				fmt.Printf("### widegen%d %s\n%s\n", i, tags, src)
				continue
			}
			compileSrc(fmt.Sprintf("widegen%d[%s]", i, tags), src)
		}
	}

	// 4. generated programs
	r := hx.NewRng(o.Seed)
	for i := 0; i < o.N; i++ {
		src, tags := cfgx.Program(r)
		if o.Extra == "src" {
			fmt.Printf("### %d %s\n%s\n", i, tags, src)
			continue
		}
		origin := fmt.Sprintf("gen%d[%s]", i, tags)
		fn, diag, pan := cfgx.Compile(fmt.Sprintf("gen%d", i), src, *abort)
		switch {
		case pan != "":
			note(origin, "compiler-panic", pan+" SRC: "+src)
		case fn == nil:
			note(origin, "rejected", diag)
		default:
			emit(origin, fn)
		}
	}
}
