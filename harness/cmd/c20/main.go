// c20: correspondence stream for Std::String operations (value/string.go).
//
// One case = a bundle (s, t, u, indices, width, char, count); every operation of the property
// is run on it by calling the value.String methods the VM's native methods call, and the
// results are printed as "field=value;..." in the model's vocabulary.
//
// input : "s=<hex> t=<hex> u=<hex> ic=<int> ib=<int> ig=<int> w=<int> c=<rune> k=<int> iu=<uint64> | seg=<hex,..> up=<r:m,..> lo=<r:m,..>"
//         everything after '|' is ORACLE data for the model, recomputed by this harness from the
//         live Go packages: uniseg's grapheme segmentation of s and unicode.ToUpper/ToLower of
//         the runes of s. Corpus lines may omit it.
// All strings are hex of their bytes (lossless; invalid UTF-8 is the point).
package main

import (
	"encoding/hex"
	"fmt"
	"math/big"
	"sort"
	"strconv"
	"strings"
	"unicode"
	"unicode/utf8"

	"verifharness/hx"

	"github.com/elk-language/elk/value"
	"github.com/rivo/uniseg"
)

type bundle struct {
	s, t, u    string
	ic, ib, ig *big.Int
	w          int
	c          rune
	k          *big.Int
	iu         uint64 // an index passed as UInt64 (char_at takes AnyInt)
}

func hx2s(h string) string {
	b, err := hex.DecodeString(h)
	if err != nil {
		panic("bad hex " + h)
	}
	return string(b)
}
func s2hx(s string) string { return hex.EncodeToString([]byte(s)) }

func parse(in string) bundle {
	if i := strings.Index(in, "|"); i >= 0 {
		in = in[:i]
	}
	b := bundle{ic: big.NewInt(0), ib: big.NewInt(0), ig: big.NewInt(0), k: big.NewInt(1), c: 'x'}
	for _, f := range strings.Fields(in) {
		kv := strings.SplitN(f, "=", 2)
		if len(kv) != 2 {
			continue
		}
		bi := func() *big.Int { z, _ := new(big.Int).SetString(kv[1], 10); return z }
		switch kv[0] {
		case "s":
			b.s = hx2s(kv[1])
		case "t":
			b.t = hx2s(kv[1])
		case "u":
			b.u = hx2s(kv[1])
		case "ic":
			b.ic = bi()
		case "ib":
			b.ib = bi()
		case "ig":
			b.ig = bi()
		case "k":
			b.k = bi()
		case "w":
			n, _ := strconv.Atoi(kv[1])
			b.w = n
		case "c":
			n, _ := strconv.Atoi(kv[1])
			b.c = rune(n)
		case "iu":
			n, _ := strconv.ParseUint(kv[1], 10, 64)
			b.iu = n
		}
	}
	return b
}

func (b bundle) base() string {
	return fmt.Sprintf("s=%s t=%s u=%s ic=%s ib=%s ig=%s w=%d c=%d k=%s iu=%d",
		s2hx(b.s), s2hx(b.t), s2hx(b.u), b.ic, b.ib, b.ig, b.w, b.c, b.k, b.iu)
}

// oracle data for the model, straight from uniseg / unicode
func (b bundle) oracle() string {
	var seg []string
	rest, state := b.s, -1
	for len(rest) > 0 {
		var c string
		c, rest, _, state = uniseg.FirstGraphemeClusterInString(rest, state)
		seg = append(seg, s2hx(c))
	}
	seen := map[rune]bool{}
	var rs []rune
	for _, r := range b.s { // invalid bytes appear as U+FFFD, as strings.Map sees them
		if !seen[r] {
			seen[r] = true
			rs = append(rs, r)
		}
	}
	sort.Slice(rs, func(i, j int) bool { return rs[i] < rs[j] })
	var up, lo []string
	for _, r := range rs {
		up = append(up, fmt.Sprintf("%d:%d", r, unicode.ToUpper(r)))
		lo = append(lo, fmt.Sprintf("%d:%d", r, unicode.ToLower(r)))
	}
	return "seg=" + strings.Join(seg, ",") + " up=" + strings.Join(up, ",") + " lo=" + strings.Join(lo, ",")
}

func intVal(z *big.Int) value.Value {
	if z.IsInt64() {
		return value.SmallInt(z.Int64()).ToValue()
	}
	return value.Ref(value.ToElkBigInt(new(big.Int).Set(z)))
}

func errName(err value.Value) string {
	cls := err.Class().Name
	switch {
	case strings.Contains(cls, "IndexError"):
		return "err:index"
	case strings.Contains(cls, "OutOfRange"):
		return "err:range"
	}
	return "err:" + cls
}

func isStop(err value.Value) bool {
	return err.IsInlineSymbol() && err.AsInlineSymbol() == value.ToSymbol("stop_iteration")
}

// drain an Elk iterator through NextValue, at most limit elements
func drain(next func() (value.Value, value.Value), limit int, show func(value.Value) string) string {
	var out []string
	for i := 0; ; i++ {
		v, err := next()
		if !err.IsUndefined() {
			if isStop(err) {
				break
			}
			return "err:" + err.Inspect()
		}
		if i > limit {
			return "nonterminating"
		}
		out = append(out, show(v))
	}
	return strings.Join(out, ",")
}

func showChar(v value.Value) string {
	if !v.IsChar() {
		return "notchar:" + v.Inspect()
	}
	return strconv.Itoa(int(v.AsChar()))
}
func showByte(v value.Value) string {
	if !v.IsUInt8() {
		return "notbyte:" + v.Inspect()
	}
	return strconv.Itoa(int(v.AsUInt8()))
}
func showStr(v value.Value) string {
	if v.IsReference() {
		if s, ok := v.AsReference().(value.String); ok {
			return s2hx(string(s))
		}
	}
	return "notstring:" + v.Inspect()
}

func okStr(s value.String, err value.Value) string {
	if !err.IsUndefined() {
		return errName(err)
	}
	return "ok:" + s2hx(string(s))
}

func b01(b bool) string {
	if b {
		return "1"
	}
	return "0"
}

func cmpAll(s value.String, o value.Value) string {
	c, err := s.CompareVal(o)
	if !err.IsUndefined() {
		return errName(err)
	}
	lt, _ := s.LessThan(o)
	le, _ := s.LessThanEqual(o)
	gt, _ := s.GreaterThan(o)
	ge, _ := s.GreaterThanEqual(o)
	return fmt.Sprintf("%d:%s%s%s%s", int64(c.AsSmallInt()), b01(lt), b01(le), b01(gt), b01(ge))
}

func run(b bundle) string {
	s, t, u := value.String(b.s), value.String(b.t), value.String(b.u)
	ch := value.Char(b.c)
	var f []string
	add := func(name string, g func() string) {
		f = append(f, name+"="+hx.Guard(g))
	}
	add("len", func() string { return strconv.Itoa(s.CharCount()) })
	add("blen", func() string { return strconv.Itoa(s.ByteCount()) })
	add("glen", func() string { return strconv.Itoa(s.GraphemeCount()) })
	add("citer", func() string { return drain(value.NewStringCharIterator(s).NextValue, len(b.s)+2, showChar) })
	add("cseq", func() string {
		var out []string
		for v := range s.Iterate() {
			out = append(out, showChar(v))
		}
		return strings.Join(out, ",")
	})
	add("biter", func() string { return drain(value.NewStringByteIterator(s).NextValue, len(b.s)+2, showByte) })
	add("giter", func() string { return drain(value.NewStringGraphemeIterator(s).NextValue, len(b.s)+2, showStr) })
	add("cat", func() string {
		c, err := s.Subscript(intVal(b.ic))
		if !err.IsUndefined() {
			return errName(err)
		}
		return "ok:" + strconv.Itoa(int(c))
	})
	add("bat", func() string {
		c, err := s.ByteAt(intVal(b.ib))
		if !err.IsUndefined() {
			return errName(err)
		}
		return "ok:" + strconv.Itoa(int(c))
	})
	add("gat", func() string { return okStr(s.GraphemeAt(intVal(b.ig))) })
	uidx := value.UInt64(b.iu).ToValue()
	add("catu", func() string {
		c, err := s.Subscript(uidx)
		if !err.IsUndefined() {
			return errName(err)
		}
		return "ok:" + strconv.Itoa(int(c))
	})
	add("batu", func() string {
		c, err := s.ByteAt(uidx)
		if !err.IsUndefined() {
			return errName(err)
		}
		return "ok:" + strconv.Itoa(int(c))
	})
	add("gatu", func() string { return okStr(s.GraphemeAt(uidx)) })
	add("rjust", func() string { return s2hx(string(s.RJust(b.w, ch))) })
	add("ljust", func() string { return s2hx(string(s.LJust(b.w, ch))) })
	add("cc", func() string { return okStr(s.Concat(value.Ref(t))) })
	add("ccc", func() string { return okStr(s.Concat(ch.ToValue())) })
	add("rep", func() string { return okStr(s.Repeat(intVal(b.k))) })
	add("rm", func() string { return okStr(s.RemoveSuffix(value.Ref(t))) })
	add("rmc", func() string { return okStr(s.RemoveSuffix(ch.ToValue())) })
	add("cmp", func() string { return cmpAll(s, value.Ref(t)) })
	add("cmpr", func() string { return cmpAll(t, value.Ref(s)) })
	add("cmptu", func() string { return cmpAll(t, value.Ref(u)) })
	add("cmpsu", func() string { return cmpAll(s, value.Ref(u)) })
	add("cmpc", func() string { return cmpAll(s, ch.ToValue()) })
	add("up", func() string { return s2hx(string(s.Uppercase())) })
	add("low", func() string { return s2hx(string(s.Lowercase())) })
	return strings.Join(f, ";")
}

// ---------------------------------------------------------------- generator

var ascii = []string{"a", "b", "z", "A", "Z", "0", " ", "x", "~", "\x00", "\n", "\r\n", "\x7f"}
var two = []string{"\u00e9", "\u017c", "\u00df", "\u00f1", "\u0080", "\u07ff", "\u03bb", "\u0416", "\u00ff", "\u0130", "\u01c5"}
var three = []string{"\u20ac", "\u0800", "\uffff", "\ufffd", "\ud7ff", "\ue000", "\u8a9e", "\u1100", "\u1161", "\u11a8", "\ud55c", "\u017f", "\u1e9e"}
var four = []string{"\U0001f600", "\U00010000", "\U0010ffff", "\U0001d518", "\U00010428", "\U0001f95f"}
var marks = []string{"\u0301", "\u0308", "\u20dd", "\u200d", "\ufe0f", "\U0001f3fb"}
var clusters = []string{"\U0001f468\u200d\U0001f4bb", "\U0001f468\U0001f3fb\u200d\U0001f4bb", "\U0001f469\u200d\U0001f469\u200d\U0001f467", "\U0001f1f5\U0001f1f1", "\U0001f1f5", "\U0001f1f5\U0001f1f1\U0001f1e9", "e\u0301", "\uac01", "\r\n", "\u2764\ufe0f"}
var invalid = []string{
	"\x80", "\xbf", "\xc0\x80", "\xc1\xbf", "\xe0\x80\x80", "\xe0\x9f\xbf", "\xed\xa0\x80", "\xed\xbf\xbf",
	"\xf0\x80\x80\x80", "\xf0\x8f\xbf\xbf", "\xf4\x90\x80\x80", "\xf5\x80\x80\x80", "\xff", "\xfe",
	"\xc3", "\xe2\x82", "\xe2", "\xf0\x9f\x98", "\xf0\x9f", "\xf0", "\xa9", "\x82\xac", "\x98\x80",
}

func piece(r *hx.Rng) string {
	switch r.Below(12) {
	case 0, 1, 2:
		return hx.Pick(r, ascii)
	case 3, 4:
		return hx.Pick(r, two)
	case 5:
		return hx.Pick(r, three)
	case 6:
		return hx.Pick(r, four)
	case 7:
		return hx.Pick(r, marks)
	case 8:
		return hx.Pick(r, clusters)
	case 9, 10:
		return hx.Pick(r, invalid)
	default:
		if r.Chance(1, 2) {
			return string([]byte{byte(r.Below(256))})
		}
		return string(rune(r.Below(0x110000))) // any code point (surrogates become U+FFFD)
	}
}

func genString(r *hx.Rng, maxPieces int) string {
	if r.Chance(1, 12) {
		return ""
	}
	var sb strings.Builder
	for n := r.Range(1, maxPieces); n > 0; n-- {
		sb.WriteString(piece(r))
	}
	return sb.String()
}

func related(r *hx.Rng, s string) string {
	switch r.Below(8) {
	case 0: // byte-level suffix
		return s[r.Below(len(s)+1):]
	case 1: // character-level suffix
		k := r.Below(utf8.RuneCountInString(s) + 1)
		i := 0
		for ; k > 0 && i < len(s); k-- {
			_, n := utf8.DecodeRuneInString(s[i:])
			i += n
		}
		return s[i:]
	case 2:
		return s
	case 3: // prefix
		return s[:r.Below(len(s)+1)]
	case 4: // s with one more piece
		return s + piece(r)
	case 5: // one byte changed
		if len(s) == 0 {
			return "a"
		}
		b := []byte(s)
		b[r.Below(len(b))] ^= byte(1 << r.Below(8))
		return string(b)
	default:
		return genString(r, 3)
	}
}

var padChars = []rune{'x', ' ', '0', '-', 0xE9, 0xDF, 0x20AC, 0x8A9E, 0x1F600, 0xFFFD, 0x301, 0x80, 0xFF, 0x7FF, 0x800, 0xFFFF, 0x10000, 0x10FFFF}

func genChar(r *hx.Rng, s string) rune {
	switch r.Below(8) {
	case 0, 1: // last character of s as Get sees it
		if c, err := value.String(s).Get(-1); err.IsUndefined() {
			return rune(c)
		}
		return 'x'
	case 2: // last rune as utf8 sees it
		c, _ := utf8.DecodeLastRuneInString(s)
		return c
	case 3:
		if r.Chance(1, 3) {
			return hx.Pick(r, []rune{0xD800, 0xDFFF, 0x110000}) // not scalar values: written as U+FFFD
		}
		return rune(r.Below(0x110000))
	default:
		return hx.Pick(r, padChars)
	}
}

func around(r *hx.Rng, n int) *big.Int {
	if r.Chance(1, 40) {
		z := new(big.Int).Lsh(big.NewInt(1), uint(hx.Pick(r, []int{31, 32, 62, 63, 64, 70})))
		z.Add(z, big.NewInt(int64(r.Range(-1, 1))))
		if r.Chance(1, 2) {
			z.Neg(z)
		}
		return z
	}
	return big.NewInt(int64(r.Range(-n-2, n+2)))
}

func gen(r *hx.Rng) bundle {
	var b bundle
	b.s = genString(r, 7)
	b.t = related(r, b.s)
	if r.Chance(1, 2) {
		b.u = related(r, b.t)
	} else {
		b.u = related(r, b.s)
	}
	b.ic = around(r, utf8.RuneCountInString(b.s))
	b.ib = around(r, len(b.s))
	b.ig = around(r, uniseg.GraphemeClusterCount(b.s))
	b.w = r.Range(-2, len(b.s)+3)
	if r.Chance(1, 6) {
		// >= 2^63: must be out of range, not wrap to a negative int
		b.iu = ^uint64(0) - uint64(r.Below(len(b.s)+3))
		if r.Chance(1, 3) {
			b.iu = 1<<63 + uint64(r.Below(3))
		}
	} else {
		b.iu = uint64(r.Below(len(b.s) + 3))
	}
	b.c = genChar(r, b.s)
	switch {
	case r.Chance(1, 30):
		// counts whose product with len(s) overflows int: strings.Repeat panics before allocating
		// (only used with non-empty s, and never a count that would really allocate)
		if len(b.s) >= 2 {
			b.k = new(big.Int).Lsh(big.NewInt(1), 63)
			b.k.Sub(b.k, big.NewInt(int64(r.Range(1, 3))))
		} else {
			b.k = new(big.Int).Lsh(big.NewInt(1), uint(hx.Pick(r, []int{63, 64, 90})))
		}
	case r.Chance(1, 30):
		b.k = new(big.Int).Neg(new(big.Int).Lsh(big.NewInt(1), uint(hx.Pick(r, []int{40, 63, 64}))))
	default:
		b.k = big.NewInt(int64(r.Range(-2, 4)))
	}
	return b
}

func main() {
	o := hx.ParseFlags()
	defer hx.Flush()
	if o.Extra == "iter" {
		mainIter(o)
		return
	}
	for i, in := range hx.ReadInputs(o.Input) {
		b := parse(in)
		hx.Emit(fmt.Sprintf("c%d", i), b.base()+" | "+b.oracle(), run(b))
	}
	r := hx.NewRng(o.Seed)
	for i := 0; i < o.N; i++ {
		b := gen(r)
		hx.Emit(fmt.Sprintf("g%d", i), b.base()+" | "+b.oracle(), run(b))
	}
}
