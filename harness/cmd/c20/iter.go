// c20 -extra iter: iterator PROTOCOL histories on value.String{Char,Byte,Grapheme}Iterator.
//
// One case = a string s and a history h of operations on a pool of iterator objects over s:
//
//	c b g   create a char / byte / grapheme iterator (value.NewString*Iterator), appended to the pool
//	n<i>    pool[i].NextValue()
//	r<i>    pool[i].Reset()
//	y<i>    pool[i].Copy(), appended to the pool
//	d<i>    `for x in pool[i]`: NextValue until :stop_iteration
//
// input    : "iter s=<hex> h=<op,op,..> | steps=<restlen:state:clusterlen:newstate,..>"
//
//	after '|' ORACLE data for the model: the steps uniseg.FirstGraphemeClusterInString
//	takes on the fresh run from (s, -1) - the model's `gstep` is this table.
//
// observed : "out=<op outputs ';'-separated>|len=..|blen=..|glen=..|cats=..|bats=..|gats=.."
//
//	per op: elements ','-separated (char: decimal rune, byte: decimal, grapheme: hex), "stop",
//	"-" (nothing observable), "bad" (no such iterator); cats/bats/gats = char_at / byte_at /
//	grapheme_at of every index 0..count-1 (the property's reference for the elements).
package main

import (
	"fmt"
	"strconv"
	"strings"

	"verifharness/hx"

	"github.com/elk-language/elk/value"
	"github.com/rivo/uniseg"
)

type strIter interface {
	NextValue() (value.Value, value.Value)
	Reset()
	Copy() value.Reference
}

type poolIt struct {
	it   strIter
	show func(value.Value) string
}

func iterOracle(s string) string {
	var st []string
	rest, state := s, -1
	for len(rest) > 0 {
		c, r, _, ns := uniseg.FirstGraphemeClusterInString(rest, state)
		st = append(st, fmt.Sprintf("%d:%d:%d:%d", len(rest), state, len(c), ns))
		rest, state = r, ns
	}
	return "steps=" + strings.Join(st, ",")
}

func runIter(s string, h []string) string {
	str := value.String(s)
	var pool []poolIt
	var outs []string
	next1 := func(p poolIt) (string, bool) {
		v, err := p.it.NextValue()
		if !err.IsUndefined() {
			if isStop(err) {
				return "stop", false
			}
			return "err:" + err.Inspect(), false
		}
		return p.show(v), true
	}
	for _, op := range h {
		outs = append(outs, hx.Guard(func() string {
			switch op {
			case "c":
				pool = append(pool, poolIt{value.NewStringCharIterator(str), showChar})
				return "-"
			case "b":
				pool = append(pool, poolIt{value.NewStringByteIterator(str), showByte})
				return "-"
			case "g":
				pool = append(pool, poolIt{value.NewStringGraphemeIterator(str), showStr})
				return "-"
			}
			if len(op) < 2 {
				return "badop"
			}
			i, err := strconv.Atoi(op[1:])
			if err != nil {
				return "badop"
			}
			if i < 0 || i >= len(pool) {
				return "bad"
			}
			p := pool[i]
			switch op[0] {
			case 'n':
				o, _ := next1(p)
				return o
			case 'r':
				p.it.Reset()
				return "-"
			case 'y':
				cp, ok := p.it.Copy().(strIter)
				if !ok {
					return "copy-is-not-an-iterator"
				}
				pool = append(pool, poolIt{cp, p.show})
				return "-"
			case 'd':
				var el []string
				for k := 0; ; k++ {
					if k > len(s)+2 {
						el = append(el, "nonterminating")
						break
					}
					o, more := next1(p)
					el = append(el, o)
					if !more {
						break
					}
				}
				return strings.Join(el, ",")
			}
			return "badop"
		}))
	}
	var f []string
	f = append(f, "out="+strings.Join(outs, ";"))
	add := func(name string, g func() string) { f = append(f, name+"="+hx.Guard(g)) }
	add("len", func() string { return strconv.Itoa(str.CharCount()) })
	add("blen", func() string { return strconv.Itoa(str.ByteCount()) })
	add("glen", func() string { return strconv.Itoa(str.GraphemeCount()) })
	add("cats", func() string {
		var l []string
		for i := 0; i < str.CharCount(); i++ {
			c, err := str.Subscript(value.SmallInt(i).ToValue())
			if !err.IsUndefined() {
				l = append(l, errName(err))
				continue
			}
			l = append(l, strconv.Itoa(int(c)))
		}
		return strings.Join(l, ",")
	})
	add("bats", func() string {
		var l []string
		for i := 0; i < str.ByteCount(); i++ {
			c, err := str.ByteAt(value.SmallInt(i).ToValue())
			if !err.IsUndefined() {
				l = append(l, errName(err))
				continue
			}
			l = append(l, strconv.Itoa(int(c)))
		}
		return strings.Join(l, ",")
	})
	add("gats", func() string {
		var l []string
		for i := 0; i < str.GraphemeCount(); i++ {
			c, err := str.GraphemeAt(value.SmallInt(i).ToValue())
			if !err.IsUndefined() {
				l = append(l, errName(err))
				continue
			}
			l = append(l, s2hx(string(c)))
		}
		return strings.Join(l, ",")
	})
	return strings.Join(f, "|")
}

// ---------------------------------------------------------------- generator

// clusters whose FIRST code point's class decides where the cluster ends (GB3 CR x LF, GB12/13
// regional indicators, GB11 emoji ZWJ sequences, GB6-8 Hangul jamo, GB9b Prepend) and other
// leading shapes: a string that STARTS with one of them is segmented differently when the
// segmenter believes the first code point has already been classified.
var leads = []string{
	// GB3-5: CR LF
	"\r\n", "\r\n\r\n", "\r", "\n\r\n", "\r\r\n",
	// GB12/13: regional indicator pairs (flags): 1, 2, 3, 4 indicators
	"\U0001f1f5\U0001f1f1", "\U0001f1f5\U0001f1f1\U0001f1e9\U0001f1ea", "\U0001f1f5\U0001f1f1\U0001f1e9", "\U0001f1f5",
	// GB11: emoji ZWJ sequences, emoji modifiers
	"\U0001f468\u200d\U0001f4bb", "\U0001f469\u200d\U0001f469\u200d\U0001f467", "\U0001f468\U0001f3fb\u200d\U0001f4bb",
	"\u2764\ufe0f\u200d\U0001f525", "\U0001f3f3\ufe0f\u200d\U0001f308", "\U0001f44d\U0001f3fd",
	// GB6-8: decomposed Hangul jamo L+V, L+V+T, L+L+V, precomposed LV + T, LVT + T, V+T, T+T
	"\u1100\u1161", "\u1100\u1161\u11a8", "\u1100\u1100\u1161", "\uac00\u11a8", "\uac01\u11a8", "\u1161\u11a8", "\u11a8\u11a8",
	// GB9b: Prepend
	"\u0600a", "\u0600\u0661", "\U000110bd\U00011093", "\u06dd\u0301x", "\u0600\r\n",
	// GB9/9a: leading Extend / ZWJ / variation selector / keycap / SpacingMark
	"\u0301a", "\u200da", "\u200d\U0001f4bb", "\ufe0f\u20e3", "1\ufe0f\u20e3",
	"e\u0301", "e\u0301\u0308", "\u0915\u093e", "\u0915\u094d\u0937", "\u0e01\u0e33",
	// tag sequence (flag of England)
	"\U0001f3f4\U000e0067\U000e0062\U000e0065\U000e006e\U000e0067\U000e007f",
	// invalid bytes in front of a rule
	"\x80\u0301", "\xf0\x9f\x87\U0001f1f5\U0001f1f1", "\xff\r\n",
}

func genIterString(r *hx.Rng) string {
	var sb strings.Builder
	switch r.Below(8) {
	case 0: // anything
		return genString(r, 5)
	case 1: // one leading cluster alone / twice
		l := hx.Pick(r, leads)
		if r.Chance(1, 2) {
			return l
		}
		return l + hx.Pick(r, leads)
	default:
		sb.WriteString(hx.Pick(r, leads))
	}
	for n := r.Below(4); n > 0; n-- {
		if r.Chance(1, 4) {
			sb.WriteString(hx.Pick(r, leads))
		} else {
			sb.WriteString(piece(r))
		}
	}
	return sb.String()
}

func genHist(r *hx.Rng, s string) []string {
	kinds := []string{"g", "g", "g", "c", "b"}
	var h []string
	n := 0 // pool size
	mk := func() int { h = append(h, hx.Pick(r, kinds)); n++; return n - 1 }
	op := func(c string, i int) { h = append(h, c+strconv.Itoa(i)) }
	nx := func(i, k int) {
		for ; k > 0; k-- {
			op("n", i)
		}
	}
	units := uniseg.GraphemeClusterCount(s)
	switch r.Below(10) {
	case 0: // partially consumed, reset, re-iterate
		i := mk()
		nx(i, r.Range(0, 3))
		op("r", i)
		op("d", i)
	case 1: // exhausted (for), reset, re-iterate with for, reset, next by next
		i := mk()
		op("d", i)
		op("r", i)
		op("d", i)
		op("r", i)
		nx(i, r.Range(1, units+2))
	case 2: // exhausted by next (past the end), reset, next by next
		i := mk()
		nx(i, units+r.Range(0, 2))
		op("r", i)
		nx(i, r.Range(1, units+2))
	case 3: // two iterators over one string, interleaved, one of them reset mid-way
		i, j := mk(), mk()
		for k := r.Range(2, 8); k > 0; k-- {
			switch r.Below(6) {
			case 0:
				op("r", hx.Pick(r, []int{i, j}))
			case 1, 2:
				op("n", i)
			default:
				op("n", j)
			}
		}
		op("d", i)
		op("r", j)
		op("d", j)
	case 4: // copy mid-way; original reset, copy continues (and vice versa)
		i := mk()
		nx(i, r.Range(0, 2))
		op("y", i)
		j := n
		n++
		a, b := i, j
		if r.Chance(1, 2) {
			a, b = j, i
		}
		op("r", a)
		op("n", b)
		op("d", a)
		op("d", b)
		op("r", b)
		op("d", b)
	case 5: // reset of a fresh iterator, reset twice
		i := mk()
		op("r", i)
		if r.Chance(1, 2) {
			op("r", i)
		}
		nx(i, r.Range(1, units+1))
		op("d", i)
	default: // random walk
		mk()
		for k := r.Range(2, 12); k > 0; k-- {
			i := r.Below(n)
			switch r.Below(20) {
			case 0:
				mk()
			case 1:
				op("y", i)
				n++
			case 2:
				op(hx.Pick(r, []string{"n", "r", "d", "y"}), n+r.Below(2)) // no such iterator
			case 3, 4, 5:
				op("r", i)
			case 6, 7, 8:
				op("d", i)
			default:
				op("n", i)
			}
		}
	}
	return h
}

func parseIter(in string) (string, []string) {
	if i := strings.Index(in, "|"); i >= 0 {
		in = in[:i]
	}
	var s string
	var h []string
	for _, f := range strings.Fields(in) {
		kv := strings.SplitN(f, "=", 2)
		if len(kv) != 2 {
			continue
		}
		switch kv[0] {
		case "s":
			s = hx2s(kv[1])
		case "h":
			if kv[1] != "" {
				h = strings.Split(kv[1], ",")
			}
		}
	}
	return s, h
}

func emitIter(id, s string, h []string) {
	hx.Emit(id, "iter s="+s2hx(s)+" h="+strings.Join(h, ",")+" | "+iterOracle(s), runIter(s, h))
}

func mainIter(o *hx.Opts) {
	for i, in := range hx.ReadInputs(o.Input) {
		s, h := parseIter(in)
		emitIter(fmt.Sprintf("c%d", i), s, h)
	}
	r := hx.NewRng(o.Seed)
	for i := 0; i < o.N; i++ {
		s := genIterString(r)
		emitIter(fmt.Sprintf("g%d", i), s, genHist(r, s))
	}
}
