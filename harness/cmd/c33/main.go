// c33: non-terminating program shapes compiled WITH abort checks (as the REPL does).
//
//	-extra shapes   "id\tS <source>\t<tags> gate=<bool>"  (cfgx.GridShapes: covering design + random
//	                cells up to -n, then the special shapes; -n 0 = covering design only)
//	-extra static   every BytecodeFunction of every program of -input ("id\tS <source>[\t<tags>]"; a line
//	                without id is named corpus<k>), preceded by the generated shapes when -n > 0:
//	                "<shape>#k\tF <dump>;origin=<shape>\t<tags>"
//	-extra dyn      -input <file with "id\tS <source>" lines> -delay <ms>: run each program in-process on
//	                a fresh vm.Thread whose Aborter is cancelled after <delay> ms; print
//	                "id\tS <source>\t<outcome> cancel_to_return_ms=<t>"; outcome is one of
//	                aborted | finished-before-cancel | other-error <class> | hang | go-panic <msg> |
//	                rejected <diag>.  The process stops after the first outcome that is not
//	                aborted/rejected (a hung interpreter goroutine keeps spinning): the caller re-submits
//	                the programs that got no line.
package main

import (
	"bufio"
	"context"
	"flag"
	"fmt"
	"os"
	"strings"
	"time"

	"verifharness/cfgx"
	"verifharness/hx"

	"github.com/elk-language/elk/env"
	"github.com/elk-language/elk/value"
	"github.com/elk-language/elk/vm"
)

var repo = flag.String("repo", "/repo", "repository root")
var delay = flag.Int("delay", 50, "ms before the context is cancelled")
var limit = flag.Int("limit", 5000, "ms to wait for the program to return after the cancel")

func esc(s string) string { return strings.ReplaceAll(s, "\n", "\\n") }

func runDyn(src string) string {
	fn, diag, pan := cfgx.Compile("shape", src, true)
	if pan != "" {
		return "go-panic compile: " + pan
	}
	if fn == nil {
		d := strings.ReplaceAll(diag, "\n", " | ")
		if len(d) > 200 {
			d = d[:200]
		}
		return "rejected " + d
	}
	ctx, cancel := context.WithCancel(context.Background())
	defer cancel()
	th := vm.New()
	devnull, _ := os.OpenFile(os.DevNull, os.O_WRONLY, 0)
	th.Stdout = devnull
	th.Aborter = value.NewAborter(ctx, cancel)
	type res struct {
		err value.Value
		pan string
	}
	done := make(chan res, 1)
	go func() {
		defer func() {
			if r := recover(); r != nil {
				done <- res{pan: strings.SplitN(fmt.Sprint(r), "\n", 2)[0]}
			}
		}()
		_, e := th.InterpretTopLevel(fn)
		done <- res{err: e}
	}()
	select {
	case r := <-done:
		return classify(r.err, r.pan, "finished-before-cancel", -1)
	case <-time.After(time.Duration(*delay) * time.Millisecond):
	}
	t0 := time.Now()
	cancel()
	select {
	case r := <-done:
		return classify(r.err, r.pan, "returned-without-error-after-cancel", time.Since(t0).Milliseconds())
	case <-time.After(time.Duration(*limit) * time.Millisecond):
		return fmt.Sprintf("hang cancel_to_return_ms=>%d", *limit)
	}
}

func classify(err value.Value, pan string, okword string, ms int64) string {
	suffix := ""
	if ms >= 0 {
		suffix = fmt.Sprintf(" cancel_to_return_ms=%d", ms)
	}
	if pan != "" {
		return "go-panic " + pan + suffix
	}
	if err.IsUndefined() {
		return okword + suffix
	}
	if err == value.ExecutionAbortedError.ToValue() || err.Class() == value.ExecutionAbortedErrorClass {
		return "aborted" + suffix
	}
	return "other-error " + err.Class().Name + suffix
}

type inCase struct{ id, src, tags string }

// readCases keeps the ids of the input lines ("id\tS src[\ttags]"; "S src" alone gets corpus<k>)
func readCases(path string) []inCase {
	if path == "" {
		return nil
	}
	f, err := os.Open(path)
	if err != nil {
		return nil
	}
	defer f.Close()
	var out []inCase
	sc := bufio.NewScanner(f)
	sc.Buffer(make([]byte, 1<<20), 1<<26)
	k := 0
	for sc.Scan() {
		l := strings.TrimRight(sc.Text(), "\r\n")
		if l == "" || strings.HasPrefix(l, "#") {
			continue
		}
		p := strings.Split(l, "\t")
		c := inCase{id: fmt.Sprintf("corpus%d", k), tags: "corpus"}
		switch {
		case len(p) >= 2 && strings.HasPrefix(p[1], "S "):
			c.id, c.src = p[0], p[1]
			if len(p) >= 3 {
				c.tags = p[2]
			}
		case strings.HasPrefix(p[0], "S "):
			c.src = p[0]
		default:
			continue
		}
		c.src = strings.ReplaceAll(c.src[2:], "\\n", "\n")
		k++
		out = append(out, c)
	}
	return out
}

func main() {
	o := hx.ParseFlags()
	defer hx.Flush()
	env.ELKPATH = *repo
	r := hx.NewRng(o.Seed)
	switch o.Extra {
	case "shapes":
		for _, s := range cfgx.GridShapes(r, o.N) {
			hx.Emit(s.ID, "S "+esc(s.Src), fmt.Sprintf("%s gate=%v", s.Tags, s.Gate))
		}
	case "static":
		seen := map[*vm.BytecodeFunction]bool{}
		var shapes []cfgx.Shape
		for _, c := range readCases(o.Input) {
			shapes = append(shapes, cfgx.Shape{ID: c.id, Tags: c.tags, Gate: true, Src: c.src})
		}
		if o.N > 0 {
			shapes = append(shapes, cfgx.GridShapes(r, o.N)...)
		}
		for _, s := range shapes {
			fn, diag, pan := cfgx.Compile(s.ID, s.Src, true)
			if fn == nil {
				d := strings.ReplaceAll(diag+pan, "\n", " | ")
				if len(d) > 200 {
					d = d[:200]
				}
				hx.Emit(s.ID, "N rejected", d)
				continue
			}
			k := 0
			cfgx.Walk(fn, seen, func(f *vm.BytecodeFunction) {
				k++
				hx.Emit(fmt.Sprintf("%s#%d", s.ID, k), "F "+cfgx.Dump(f)+";origin="+s.ID, s.Tags)
			})
		}
	case "dyn":
		for _, c := range readCases(o.Input) {
			res := runDyn(c.src)
			hx.Emit(c.id, "S "+esc(c.src), res)
			hx.Flush() // a fatal runtime error in a later program must not lose this line
			if !strings.HasPrefix(res, "aborted") && !strings.HasPrefix(res, "rejected") {
				break
			}
		}
		hx.Flush()
		os.Exit(0) // a hung interpreter goroutine must not keep the process alive
	}
}
