// c33: non-terminating program shapes compiled WITH abort checks (as the REPL does).
//
//	-extra shapes   "id\tS <source>\t<tags> gate=<bool>"
//	-extra static   every BytecodeFunction of every shape: "<shape>#k\tF <dump>\t<tags>"
//	-extra dyn      -input <file with S lines> -delay <ms>: run each program in-process on a fresh
//	                vm.Thread whose Aborter is cancelled after <delay> ms; print
//	                "id\tS <source>\t<outcome> cancel_to_return_ms=<t>"; outcome is one of
//	                aborted | finished-before-cancel | other-error <class> | hang | go-panic <msg> |
//	                rejected <diag>
package main

import (
	"context"
	"flag"
	"fmt"
	"os"
	"strings"
	"time"

	"verifharness/cfgx"
	"verifharness/hx"

	"github.com/elk-language/elk/env"
	"github.com/elk-language/elk/value"
	"github.com/elk-language/elk/vm"
)

var repo = flag.String("repo", "/repo", "repository root")
var delay = flag.Int("delay", 50, "ms before the context is cancelled")
var limit = flag.Int("limit", 5000, "ms to wait for the program to return after the cancel")

func esc(s string) string { return strings.ReplaceAll(s, "\n", "\\n") }

func runDyn(src string) string {
	fn, diag, pan := cfgx.Compile("shape", src, true)
	if pan != "" {
		return "go-panic compile: " + pan
	}
	if fn == nil {
		d := strings.ReplaceAll(diag, "\n", " | ")
		if len(d) > 200 {
			d = d[:200]
		}
		return "rejected " + d
	}
	ctx, cancel := context.WithCancel(context.Background())
	defer cancel()
	th := vm.New()
	devnull, _ := os.OpenFile(os.DevNull, os.O_WRONLY, 0)
	th.Stdout = devnull
	th.Aborter = value.NewAborter(ctx, cancel)
	type res struct {
		err value.Value
		pan string
	}
	done := make(chan res, 1)
	go func() {
		defer func() {
			if r := recover(); r != nil {
				done <- res{pan: strings.SplitN(fmt.Sprint(r), "\n", 2)[0]}
			}
		}()
		_, e := th.InterpretTopLevel(fn)
		done <- res{err: e}
	}()
	select {
	case r := <-done:
		return classify(r.err, r.pan, "finished-before-cancel", -1)
	case <-time.After(time.Duration(*delay) * time.Millisecond):
	}
	t0 := time.Now()
	cancel()
	select {
	case r := <-done:
		return classify(r.err, r.pan, "returned-without-error-after-cancel", time.Since(t0).Milliseconds())
	case <-time.After(time.Duration(*limit) * time.Millisecond):
		return fmt.Sprintf("hang cancel_to_return_ms=>%d", *limit)
	}
}

func classify(err value.Value, pan string, okword string, ms int64) string {
	suffix := ""
	if ms >= 0 {
		suffix = fmt.Sprintf(" cancel_to_return_ms=%d", ms)
	}
	if pan != "" {
		return "go-panic " + pan + suffix
	}
	if err.IsUndefined() {
		return okword + suffix
	}
	if err == value.ExecutionAbortedError.ToValue() || err.Class() == value.ExecutionAbortedErrorClass {
		return "aborted" + suffix
	}
	return "other-error " + err.Class().Name + suffix
}

func main() {
	o := hx.ParseFlags()
	defer hx.Flush()
	env.ELKPATH = *repo
	r := hx.NewRng(o.Seed)
	switch o.Extra {
	case "shapes":
		for _, s := range cfgx.Shapes(r, o.N) {
			hx.Emit(s.ID, "S "+esc(s.Src), fmt.Sprintf("%s gate=%v", s.Tags, s.Gate))
		}
	case "static":
		seen := map[*vm.BytecodeFunction]bool{}
		shapes := cfgx.Shapes(r, o.N)
		for i, in := range hx.ReadInputs(o.Input) {
			if strings.HasPrefix(in, "S ") {
				shapes = append([]cfgx.Shape{{ID: fmt.Sprintf("corpus%d", i), Tags: "corpus", Gate: true,
					Src: strings.ReplaceAll(in[2:], "\\n", "\n")}}, shapes...)
			}
		}
		for _, s := range shapes {
			fn, diag, pan := cfgx.Compile(s.ID, s.Src, true)
			if fn == nil {
				d := strings.ReplaceAll(diag+pan, "\n", " | ")
				if len(d) > 200 {
					d = d[:200]
				}
				hx.Emit(s.ID, "N rejected", d)
				continue
			}
			k := 0
			cfgx.Walk(fn, seen, func(f *vm.BytecodeFunction) {
				k++
				hx.Emit(fmt.Sprintf("%s#%d", s.ID, k), "F "+cfgx.Dump(f)+";origin="+s.ID, s.Tags)
			})
		}
	case "dyn":
		for i, in := range hx.ReadInputs(o.Input) {
			if strings.HasPrefix(in, "S ") {
				hx.Emit(fmt.Sprintf("d%d", i), in, runDyn(strings.ReplaceAll(in[2:], "\\n", "\n")))
			}
		}
		hx.Flush()
		os.Exit(0) // a hung interpreter goroutine must not keep the process alive
	}
}
