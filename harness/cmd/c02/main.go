// c02: correspondence harness for property C02 (static types describe runtime values).
//
// Mode "sub" (default): stream c02.sub. Generates seeded pairs of types (sigma, tau) over the core
// constructors of Model/C02_Types.v and asks the REAL checker (checker.CheckSource, in process) whether
//
//	def f(y: sigma)
//	  var x: tau = y
//	end
//
// is accepted. Prints "id \t (sub sigma tau) \t ok|reject|panic ...". The model driver answers the
// same question with the extracted `subtype`.
//
// Mode "check" (-extra check): reads "id \t source" lines on stdin (newlines escaped as \n, tabs as
// \t, backslash as \\) and prints "id \t - \t ok|reject:<first failure message>|panic ...". Used by
// checks/C02.py for the static assertions of stream c02.probe (the probe declarations must be
// accepted, the tightened ones rejected) - far faster than spawning `elk` per program.
//
// Mode "types" (-extra types): stream c02.cls. Reads "id \t source" lines (escaped as above), parses the
// source, runs the REAL checker on the AST (checker.CheckAST) and then walks the typed AST: prints
// "id \t - \t ok|<line>:<name>:<type>|..." with the checker's static type of every occurrence of a local
// named v<digits> (types as s-expressions over class NAMES: nil never any (c Name) (x Name) (or a b)
// (and a b) (not a); anything else is (unknown ...)), or "reject:<line>:<message>".
//
// Mode "diags" (-extra diags): streams c02.subhist / c02.ifc (lib/c02ifc.py). Reads "id \t source" lines, ONE
// checker.CheckSource run per line (a fresh Checker each time), prints "id \t - \t ok" or
// "id \t - \t L<line>:<message>|L<line>:<message>..." with EVERY failure diagnostic of the run, so that the
// caller can attribute verdicts to the individual questions of a history by line.
//
// Type s-expressions:  Int Float String bool Bool nil any never true false
//
//	(i <int>) (f <mantissa> <exp>)  = mantissa / 2^exp   (s <letters>)   (opt t)   (or a b)
package main

import (
	"bufio"
	"fmt"
	"math/big"
	"os"
	"strings"

	"verifharness/hx"

	"github.com/elk-language/elk/bitfield"
	"github.com/elk-language/elk/parser"
	"github.com/elk-language/elk/parser/ast"
	"github.com/elk-language/elk/position/diagnostic"
	"github.com/elk-language/elk/types"
	"github.com/elk-language/elk/types/checker"
)

type sx struct {
	atom string
	list []*sx
}

func parseSx(s string) (*sx, error) {
	pos := 0
	var item func() (*sx, error)
	item = func() (*sx, error) {
		for pos < len(s) && s[pos] == ' ' {
			pos++
		}
		if pos >= len(s) {
			return nil, fmt.Errorf("eof")
		}
		if s[pos] == '(' {
			pos++
			n := &sx{list: []*sx{}}
			for {
				for pos < len(s) && s[pos] == ' ' {
					pos++
				}
				if pos >= len(s) {
					return nil, fmt.Errorf("unclosed")
				}
				if s[pos] == ')' {
					pos++
					return n, nil
				}
				c, err := item()
				if err != nil {
					return nil, err
				}
				n.list = append(n.list, c)
			}
		}
		st := pos
		for pos < len(s) && s[pos] != ' ' && s[pos] != '(' && s[pos] != ')' {
			pos++
		}
		return &sx{atom: s[st:pos]}, nil
	}
	return item()
}

func (x *sx) String() string {
	if x.list == nil {
		return x.atom
	}
	parts := make([]string, len(x.list))
	for i, c := range x.list {
		parts[i] = c.String()
	}
	return "(" + strings.Join(parts, " ") + ")"
}

func A(s string) *sx          { return &sx{atom: s} }
func L(xs ...*sx) *sx         { return &sx{list: xs} }
func isHead(x *sx, h string) bool { return x.list != nil && len(x.list) > 0 && x.list[0].atom == h }

// dyadic m / 2^e as an exact decimal literal with a fraction part
func floatLit(m string, e string) string {
	mi, _ := new(big.Int).SetString(m, 10)
	var ei int
	fmt.Sscan(e, &ei)
	r := new(big.Rat).SetFrac(mi, new(big.Int).Lsh(big.NewInt(1), uint(ei)))
	d := ei
	if d == 0 {
		d = 1
	}
	return r.FloatString(d)
}

// Elk source text of a type
func elkType(x *sx) string {
	if x.list == nil {
		return x.atom
	}
	switch x.list[0].atom {
	case "i":
		return x.list[1].atom
	case "f":
		return floatLit(x.list[1].atom, x.list[2].atom)
	case "s":
		return "\"" + x.list[1].atom + "\""
	case "opt":
		return "(" + elkType(x.list[1]) + ")?"
	case "or":
		return "(" + elkType(x.list[1]) + " | " + elkType(x.list[2]) + ")"
	}
	return "?"
}

type gen struct{ r *hx.Rng }

var baseAtoms = []string{"Int", "Float", "String", "bool", "Bool", "nil", "true", "false", "Int", "String", "nil"}

func (g *gen) atom() *sx {
	c := g.r.Below(20)
	switch {
	case c < 9:
		return A(hx.Pick(g.r, baseAtoms))
	case c < 12:
		return L(A("i"), A(fmt.Sprint(g.r.Range(-2, 3))))
	case c < 14:
		return L(A("s"), A(hx.Pick(g.r, []string{"a", "b", "ab"})))
	case c < 16:
		return L(A("f"), A(fmt.Sprint(g.r.Range(-5, 9))), A(fmt.Sprint(g.r.Range(1, 2))))
	case c < 18:
		return A("never")
	default:
		return A(hx.Pick(g.r, baseAtoms))
	}
}

// `any` is generated only as a whole type: as a member of a declared union it is subject to an order
// dependent quirk of NewNormalisedUnion (`Int | String | any` normalises to `any | String`, which is not
// Any, so `any <= Int | String | any` is rejected while `any <= any | Int | String` is accepted) - an
// incompleteness of the checker, not a soundness matter; the model treats "has any as a member" as any.
func (g *gen) top(d int) *sx {
	if g.r.Chance(1, 14) {
		return A("any")
	}
	return g.typ(d)
}

func (g *gen) typ(d int) *sx {
	c := g.r.Below(10)
	if d <= 0 || c < 4 {
		return g.atom()
	}
	if c < 6 {
		return L(A("opt"), g.typ(d-1))
	}
	return L(A("or"), g.typ(d-1), g.typ(d-1))
}

// a type related to x: superset-ish / subset-ish mutations, so that both verdicts are frequent
func (g *gen) related(x *sx, d int) *sx {
	switch g.r.Below(8) {
	case 0:
		return L(A("or"), x, g.typ(1))
	case 1:
		return L(A("or"), g.typ(1), x)
	case 2:
		return L(A("opt"), x)
	case 3: // drop one side of a union / the option
		if isHead(x, "or") {
			return x.list[1+g.r.Below(2)]
		}
		if isHead(x, "opt") {
			return x.list[1]
		}
		return g.widen(x)
	case 4:
		return g.widen(x)
	case 5: // recurse into a component
		if isHead(x, "or") {
			if g.r.Chance(1, 2) {
				return L(A("or"), g.related(x.list[1], d-1), x.list[2])
			}
			return L(A("or"), x.list[2], g.related(x.list[1], d-1))
		}
		if isHead(x, "opt") {
			return L(A("opt"), g.related(x.list[1], d-1))
		}
		return g.widen(x)
	case 6:
		return x
	default:
		return g.typ(d)
	}
}

func (g *gen) widen(x *sx) *sx {
	if x.list != nil {
		switch x.list[0].atom {
		case "i":
			return A("Int")
		case "f":
			return A("Float")
		case "s":
			return A("String")
		case "opt":
			return L(A("opt"), g.widen(x.list[1]))
		case "or":
			return L(A("or"), g.widen(x.list[1]), g.widen(x.list[2]))
		}
		return x
	}
	switch x.atom {
	case "true", "false":
		return A(hx.Pick(g.r, []string{"bool", "Bool"}))
	case "bool":
		return A("Bool")
	case "Bool":
		return A("bool")
	}
	return x
}

func verdict(src string) string {
	return hx.Guard(func() string {
		_, dl := checker.CheckSource("<c02>", src, nil, bitfield.BitField16{}, nil)
		if dl.IsFailure() {
			for _, d := range dl {
				if d.Severity == diagnostic.FAIL {
					return "reject:" + strings.ReplaceAll(d.Message, "\t", " ")
				}
			}
			return "reject:?"
		}
		return "ok"
	})
}

func subProgram(sigma, tau *sx) string {
	return "def f(y: " + elkType(sigma) + ")\n  var x: " + elkType(tau) + " = y\nend\n"
}

func runSub(input string) string {
	x, err := parseSx(input)
	if err != nil || !isHead(x, "sub") || len(x.list) != 3 {
		return "bad-input"
	}
	return subVerdict(verdict(subProgram(x.list[1], x.list[2])))
}

func subVerdict(v string) string {
	if strings.HasPrefix(v, "reject:") {
		if strings.Contains(v, "cannot be assigned to type") {
			return "reject"
		}
		return "reject-other:" + v[7:]
	}
	return v
}

// runSubBatch checks up to len(inputs) cases with ONE checker run: case k occupies source lines
// 3k+1..3k+3 (`def fK(y: sigma)` / `var x: tau = y` / `end`), failures are attributed by line. A batch that
// panics or reports a failure without a usable location is redone case by case.
func runSubBatch(inputs []string) []string {
	res := make([]string, len(inputs))
	var b strings.Builder
	ok := true
	for k, in := range inputs {
		x, err := parseSx(in)
		if err != nil || !isHead(x, "sub") || len(x.list) != 3 {
			ok = false
			break
		}
		fmt.Fprintf(&b, "def f%d(y: %s)\n  var x: %s = y\nend\n", k, elkType(x.list[1]), elkType(x.list[2]))
	}
	if ok {
		ok = hx.Guard(func() string {
			_, dl := checker.CheckSource("<c02>", b.String(), nil, bitfield.BitField16{}, nil)
			for i := range res {
				res[i] = "ok"
			}
			for _, d := range dl {
				if d.Severity != diagnostic.FAIL {
					continue
				}
				if d.Location == nil || d.Location.Span == nil || d.Location.StartPos == nil {
					return "bad"
				}
				k := (d.Location.StartPos.Line - 1) / 3
				if k < 0 || k >= len(res) {
					return "bad"
				}
				if res[k] == "ok" {
					res[k] = subVerdict("reject:" + strings.ReplaceAll(d.Message, "\t", " "))
				}
			}
			return "fine"
		}) == "fine"
	}
	if !ok {
		for i, in := range inputs {
			res[i] = runSub(in)
		}
	}
	return res
}

// the checker's type as an s-expression of the class fragment (Model/C02_Classes.v)
func tySx(t types.Type) string {
	fold := func(op string, els []types.Type) string {
		if len(els) == 0 {
			return "never"
		}
		acc := tySx(els[len(els)-1])
		for i := len(els) - 2; i >= 0; i-- {
			acc = "(" + op + " " + tySx(els[i]) + " " + acc + ")"
		}
		return acc
	}
	switch n := t.(type) {
	case *types.NamedType:
		return tySx(n.Type)
	case types.Nil:
		return "nil"
	case types.Never:
		return "never"
	case types.Any:
		return "any"
	case *types.Class:
		return "(c " + n.Name() + ")"
	case *types.Exact:
		if cl, ok := n.Type.(*types.Class); ok {
			return "(x " + cl.Name() + ")"
		}
	case *types.Union:
		return fold("or", n.Elements)
	case *types.Intersection:
		return fold("and", n.Elements)
	case *types.Not:
		return "(not " + tySx(n.Type) + ")"
	case *types.Nilable:
		return "(or " + tySx(n.Type) + " nil)"
	}
	r := strings.NewReplacer(" ", "_", "(", "[", ")", "]", "\t", "_", "|", "/", ":", ";")
	return "(unknown " + r.Replace(types.Inspect(t)) + ")"
}

func isProbeLocal(name string) bool {
	if len(name) < 2 || name[0] != 'v' {
		return false
	}
	for _, ch := range name[1:] {
		if ch < '0' || ch > '9' {
			return false
		}
	}
	return true
}

// static types of all occurrences of locals v<k> in an accepted program
func typesOf(src string) string {
	return hx.Guard(func() string {
		prog, perr := parser.Parse("<c02>", src)
		if perr != nil {
			return "reject:0:parse " + strings.ReplaceAll(strings.ReplaceAll(perr.Error(), "\t", " "), "\n", " ")
		}
		_, dl := checker.CheckAST("<c02>", prog, nil, bitfield.BitField16{}, nil)
		for _, d := range dl {
			if d.Severity == diagnostic.FAIL {
				ln := 0
				if d.Location != nil && d.Location.StartPos != nil {
					ln = d.Location.StartPos.Line
				}
				return fmt.Sprintf("reject:%d:%s", ln, strings.ReplaceAll(strings.ReplaceAll(d.Message, "\t", " "), "\n", " "))
			}
		}
		var b strings.Builder
		b.WriteString("ok")
		ast.Traverse(prog, func(n, p ast.Node) ast.TraverseOption {
			if id, ok := n.(*ast.PublicIdentifierNode); ok && isProbeLocal(id.Value) {
				t := id.Type(nil)
				if t == nil || types.IsVoid(t) || id.Location() == nil || id.Location().StartPos == nil {
					return ast.TraverseContinue
				}
				fmt.Fprintf(&b, "|%d:%s:%s", id.Location().StartPos.Line, id.Value, tySx(t))
			}
			return ast.TraverseContinue
		}, nil)
		return b.String()
	})
}

// every failure of one checker run, by line
func diagsOf(src string) string {
	return hx.Guard(func() string {
		_, dl := checker.CheckSource("<c02>", src, nil, bitfield.BitField16{}, nil)
		var parts []string
		r := strings.NewReplacer("\t", " ", "\n", " ", "|", "/")
		for _, d := range dl {
			if d.Severity != diagnostic.FAIL {
				continue
			}
			ln := 0
			if d.Location != nil && d.Location.StartPos != nil {
				ln = d.Location.StartPos.Line
			}
			parts = append(parts, fmt.Sprintf("L%d:%s", ln, r.Replace(d.Message)))
		}
		if len(parts) == 0 {
			return "ok"
		}
		return strings.Join(parts, "|")
	})
}

func unescape(s string) string {
	var b strings.Builder
	for i := 0; i < len(s); i++ {
		if s[i] == '\\' && i+1 < len(s) {
			i++
			switch s[i] {
			case 'n':
				b.WriteByte('\n')
			case 't':
				b.WriteByte('\t')
			default:
				b.WriteByte(s[i])
			}
			continue
		}
		b.WriteByte(s[i])
	}
	return b.String()
}

func main() {
	o := hx.ParseFlags()
	defer hx.Flush()
	if o.Extra == "checkbatch" {
		// every input becomes the body of its own method `def w<i>() ... end` (after a common prelude given
		// on the first line with id "prelude"); 25 methods per checker run, failures attributed by line.
		sc := bufio.NewScanner(os.Stdin)
		sc.Buffer(make([]byte, 1<<20), 1<<26)
		prelude := ""
		var ids, srcs []string
		flush := func() {
			if len(ids) == 0 {
				return
			}
			var b strings.Builder
			b.WriteString(prelude)
			line := strings.Count(prelude, "\n") + 1
			starts := make([]int, len(ids))
			ends := make([]int, len(ids))
			for i, src := range srcs {
				starts[i] = line
				body := fmt.Sprintf("def w%d()\n%s\nend\n", i, strings.TrimRight(src, "\n"))
				b.WriteString(body)
				line += strings.Count(body, "\n")
				ends[i] = line - 1
			}
			res := make([]string, len(ids))
			fine := hx.Guard(func() string {
				_, dl := checker.CheckSource("<c02>", b.String(), nil, bitfield.BitField16{}, nil)
				for i := range res {
					res[i] = "ok"
				}
				for _, d := range dl {
					if d.Severity != diagnostic.FAIL {
						continue
					}
					if d.Location == nil || d.Location.Span == nil || d.Location.StartPos == nil {
						return "bad"
					}
					ln := d.Location.StartPos.Line
					hit := false
					for i := range ids {
						if ln >= starts[i] && ln <= ends[i] {
							if res[i] == "ok" {
								res[i] = "reject:" + strings.ReplaceAll(d.Message, "\t", " ")
							}
							hit = true
						}
					}
					if !hit {
						return "bad"
					}
				}
				return "fine"
			}) == "fine"
			for i := range ids {
				if !fine {
					res[i] = verdict(prelude + fmt.Sprintf("def w%d()\n%s\nend\n", i, strings.TrimRight(srcs[i], "\n")))
				}
				hx.Emit(ids[i], "-", res[i])
			}
			ids, srcs = nil, nil
		}
		for sc.Scan() {
			parts := strings.SplitN(sc.Text(), "\t", 2)
			if len(parts) != 2 {
				continue
			}
			if parts[0] == "prelude" {
				prelude = unescape(parts[1])
				continue
			}
			ids, srcs = append(ids, parts[0]), append(srcs, unescape(parts[1]))
			if len(ids) >= 25 {
				flush()
			}
		}
		flush()
		return
	}
	if o.Extra == "types" {
		sc := bufio.NewScanner(os.Stdin)
		sc.Buffer(make([]byte, 1<<20), 1<<26)
		for sc.Scan() {
			parts := strings.SplitN(sc.Text(), "\t", 2)
			if len(parts) != 2 {
				continue
			}
			hx.Emit(parts[0], "-", typesOf(unescape(parts[1])))
		}
		return
	}
	if o.Extra == "diags" {
		sc := bufio.NewScanner(os.Stdin)
		sc.Buffer(make([]byte, 1<<20), 1<<26)
		for sc.Scan() {
			parts := strings.SplitN(sc.Text(), "\t", 2)
			if len(parts) != 2 {
				continue
			}
			hx.Emit(parts[0], "-", diagsOf(unescape(parts[1])))
		}
		return
	}
	if o.Extra == "check" {
		sc := bufio.NewScanner(os.Stdin)
		sc.Buffer(make([]byte, 1<<20), 1<<26)
		for sc.Scan() {
			parts := strings.SplitN(sc.Text(), "\t", 2)
			if len(parts) != 2 {
				continue
			}
			hx.Emit(parts[0], "-", verdict(unescape(parts[1])))
		}
		return
	}
	const batch = 40
	var ids, ins []string
	flush := func() {
		for i, r := range runSubBatch(ins) {
			hx.Emit(ids[i], ins[i], r)
		}
		ids, ins = nil, nil
	}
	for k, in := range hx.ReadInputs(o.Input) {
		ids, ins = append(ids, fmt.Sprintf("k%d", k)), append(ins, in)
	}
	if len(ins) > 0 {
		flush()
	}
	g := &gen{r: hx.NewRng(o.Seed)}
	for i := 0; i < o.N; i++ {
		sigma := g.top(3)
		var tau *sx
		if g.r.Chance(2, 3) && sigma.atom != "any" {
			tau = g.related(sigma, 2)
		} else {
			tau = g.top(3)
		}
		if g.r.Chance(1, 3) {
			sigma, tau = tau, sigma
		}
		ids, ins = append(ids, fmt.Sprintf("g%d", i)), append(ins, L(A("sub"), sigma, tau).String())
		if len(ins) >= batch {
			flush()
		}
	}
	if len(ins) > 0 {
		flush()
	}
}
