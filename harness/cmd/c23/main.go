// c23: Go-API correspondence stream for ranges. Calls vm.<Kind>RangeContains,
// vm.<Kind>RangeIteratorNext and vm.<Kind>RangeIteratorAll on Elk Ints (SmallInt / BigInt)
// and prints what they do in the model's vocabulary.
//
//	C <kind> <a> <b> <x>      contains
//	E 0 <kind> <a> <b> <n>    elements via IteratorNext (all for finite kinds, first n for endless)
//	A 0 <kind> <a> <b> <n>    elements via IteratorAll (range-over-func)
package main

import (
	"fmt"
	"iter"
	"math/big"
	"strings"

	"verifharness/hx"

	"github.com/elk-language/elk/value"
	"github.com/elk-language/elk/vm"
)

const limit = 2500

func mk(z *big.Int) value.Value {
	if z.IsInt64() {
		return value.SmallInt(z.Int64()).ToValue()
	}
	return value.Ref(value.ToElkBigInt(new(big.Int).Set(z)))
}

func show(v value.Value) string {
	if v.IsSmallInt() {
		return fmt.Sprintf("%d", int64(v.AsSmallInt()))
	}
	if v.IsReference() {
		if b, ok := v.AsReference().(*value.BigInt); ok {
			return b.ToGoBigInt().String()
		}
	}
	return "?" + v.Inspect()
}

func contains(kind string, a, b, x value.Value) (bool, value.Value) {
	switch kind {
	case "closed":
		return vm.ClosedRangeContains(nil, value.NewClosedRange(a, b), x)
	case "open":
		return vm.OpenRangeContains(nil, value.NewOpenRange(a, b), x)
	case "lopen":
		return vm.LeftOpenRangeContains(nil, value.NewLeftOpenRange(a, b), x)
	case "ropen":
		return vm.RightOpenRangeContains(nil, value.NewRightOpenRange(a, b), x)
	case "eclosed":
		return vm.EndlessClosedRangeContains(nil, value.NewEndlessClosedRange(a), x)
	case "eopen":
		return vm.EndlessOpenRangeContains(nil, value.NewEndlessOpenRange(a), x)
	case "bclosed":
		return vm.BeginlessClosedRangeContains(nil, value.NewBeginlessClosedRange(b), x)
	case "bopen":
		return vm.BeginlessOpenRangeContains(nil, value.NewBeginlessOpenRange(b), x)
	}
	panic("kind " + kind)
}

// next function of a fresh iterator
func nexter(kind string, a, b value.Value) func() (value.Value, value.Value) {
	switch kind {
	case "closed":
		it := value.NewClosedRangeIterator(value.NewClosedRange(a, b))
		return func() (value.Value, value.Value) { return vm.ClosedRangeIteratorNext(nil, it) }
	case "open":
		it := value.NewOpenRangeIterator(value.NewOpenRange(a, b))
		return func() (value.Value, value.Value) { return vm.OpenRangeIteratorNext(nil, it) }
	case "lopen":
		it := value.NewLeftOpenRangeIterator(value.NewLeftOpenRange(a, b))
		return func() (value.Value, value.Value) { return vm.LeftOpenRangeIteratorNext(nil, it) }
	case "ropen":
		it := value.NewRightOpenRangeIterator(value.NewRightOpenRange(a, b))
		return func() (value.Value, value.Value) { return vm.RightOpenRangeIteratorNext(nil, it) }
	case "eclosed":
		it := value.NewEndlessClosedRangeIterator(value.NewEndlessClosedRange(a))
		return func() (value.Value, value.Value) { return vm.EndlessClosedRangeIteratorNext(nil, it) }
	case "eopen":
		it := value.NewEndlessOpenRangeIterator(value.NewEndlessOpenRange(a))
		return func() (value.Value, value.Value) { return vm.EndlessOpenRangeIteratorNext(nil, it) }
	}
	return nil
}

func all(kind string, a, b value.Value) iter.Seq2[value.Value, value.Value] {
	switch kind {
	case "closed":
		return vm.ClosedRangeIteratorAll(nil, value.NewClosedRangeIterator(value.NewClosedRange(a, b)))
	case "open":
		return vm.OpenRangeIteratorAll(nil, value.NewOpenRangeIterator(value.NewOpenRange(a, b)))
	case "lopen":
		return vm.LeftOpenRangeIteratorAll(nil, value.NewLeftOpenRangeIterator(value.NewLeftOpenRange(a, b)))
	case "ropen":
		return vm.RightOpenRangeIteratorAll(nil, value.NewRightOpenRangeIterator(value.NewRightOpenRange(a, b)))
	case "eclosed":
		return vm.EndlessClosedRangeIteratorAll(nil, value.NewEndlessClosedRangeIterator(value.NewEndlessClosedRange(a)))
	case "eopen":
		return vm.EndlessOpenRangeIteratorAll(nil, value.NewEndlessOpenRangeIterator(value.NewEndlessOpenRange(a)))
	}
	return nil
}

func finite(kind string) bool {
	return kind == "closed" || kind == "open" || kind == "lopen" || kind == "ropen"
}

func list(xs []string) string { return "[" + strings.Join(xs, ", ") + "]" }

func run(input string) string {
	f := strings.Fields(input)
	z := func(s string) value.Value {
		b, ok := new(big.Int).SetString(s, 10)
		if !ok {
			panic("bad int " + s)
		}
		return mk(b)
	}
	return hx.Guard(func() string {
		switch f[0] {
		case "C":
			r, err := contains(f[1], z(f[2]), z(f[3]), z(f[4]))
			if !err.IsUndefined() {
				return "err " + err.Inspect()
			}
			return fmt.Sprint(r)
		case "E":
			kind := f[2]
			next := nexter(kind, z(f[3]), z(f[4]))
			if next == nil {
				return "E:noiter"
			}
			var n int
			fmt.Sscan(f[5], &n)
			var xs []string
			for i := 0; ; i++ {
				if !finite(kind) && i >= n {
					return list(xs)
				}
				if i > limit {
					return "nofuel"
				}
				v, err := next()
				if !err.IsUndefined() {
					if err.IsInlineSymbol() && err.AsInlineSymbol().String() == "stop_iteration" {
						return list(xs)
					}
					return list(xs) + "!fail"
				}
				xs = append(xs, show(v))
			}
		case "A":
			kind := f[2]
			seq := all(kind, z(f[3]), z(f[4]))
			if seq == nil {
				return "E:noiter"
			}
			var n int
			fmt.Sscan(f[5], &n)
			var xs []string
			res := ""
			i := 0
			for v, err := range seq {
				if !err.IsUndefined() {
					res = "!yielded-error:" + err.Inspect()
					break
				}
				if !finite(kind) && i >= n {
					break
				}
				if i > limit {
					return "nofuel"
				}
				xs = append(xs, show(v))
				i++
			}
			return list(xs) + res
		}
		return "bad-input"
	})
}

func main() {
	o := hx.ParseFlags()
	defer hx.Flush()
	for i, in := range hx.ReadInputs(o.Input) {
		hx.Emit(fmt.Sprintf("c%d", i), in, run(in))
	}
	r := hx.NewRng(o.Seed)
	kinds := []string{"closed", "open", "lopen", "ropen", "eclosed", "eopen", "bclosed", "bopen"}
	for i := 0; i < o.N; i++ {
		var a *big.Int
		switch r.Below(3) {
		case 0:
			a = big.NewInt(int64(r.Range(-4, 4)))
		case 1:
			a = r.BoundaryInt()
		default:
			a = r.BigBits(r.Range(1, 100))
		}
		d := int64(r.Range(-3, 12))
		b := new(big.Int).Add(a, big.NewInt(d))
		kind := hx.Pick(r, kinds)
		var in string
		switch r.Below(4) {
		case 0, 1:
			x := new(big.Int).Add(a, big.NewInt(int64(r.Range(-3, 15))))
			if r.Chance(1, 8) {
				x = r.BoundaryInt()
			}
			in = fmt.Sprintf("C %s %s %s %s", kind, a, b, x)
		case 2:
			in = fmt.Sprintf("E 0 %s %s %s %d", kind, a, b, r.Range(0, 9))
		default:
			in = fmt.Sprintf("A 0 %s %s %s %d", kind, a, b, r.Range(0, 9))
		}
		hx.Emit(fmt.Sprintf("g%d", i), in, run(in))
	}
}
