// c23: Go-API correspondence stream for ranges. Calls vm.<Kind>RangeContains,
// vm.<Kind>RangeIteratorNext and vm.<Kind>RangeIteratorAll on Elk Ints (SmallInt / BigInt)
// and prints what they do in the model's vocabulary.
//
//	C <kind> <a> <b> <x>      contains
//	E 0 <kind> <a> <b> <n>    elements via IteratorNext (all for finite kinds, first n for endless)
//	A 0 <kind> <a> <b> <n>    elements via IteratorAll (range-over-func)
//
// A finite range a..b can yield at most max(0, b-a)+1 elements: an iterator that yields more
// than that (+ a margin) is cut off and reported as "<list>!nostop", i.e. a non-terminating
// iterator shows as a concrete wrong element list instead of a hang. A watchdog goroutine
// kills the process when a single case runs for more than 60 s.
package main

import (
	"fmt"
	"iter"
	"math/big"
	"os"
	"strings"
	"sync/atomic"
	"time"

	"verifharness/hx"

	"github.com/elk-language/elk/value"
	"github.com/elk-language/elk/vm"
)

const limit = 2500

func mk(z *big.Int) value.Value {
	if z.IsInt64() {
		return value.SmallInt(z.Int64()).ToValue()
	}
	return value.Ref(value.ToElkBigInt(new(big.Int).Set(z)))
}

func show(v value.Value) string {
	if v.IsSmallInt() {
		return fmt.Sprintf("%d", int64(v.AsSmallInt()))
	}
	if v.IsReference() {
		if b, ok := v.AsReference().(*value.BigInt); ok {
			return b.ToGoBigInt().String()
		}
	}
	return "?" + v.Inspect()
}

func contains(kind string, a, b, x value.Value) (bool, value.Value) {
	switch kind {
	case "closed":
		return vm.ClosedRangeContains(nil, value.NewClosedRange(a, b), x)
	case "open":
		return vm.OpenRangeContains(nil, value.NewOpenRange(a, b), x)
	case "lopen":
		return vm.LeftOpenRangeContains(nil, value.NewLeftOpenRange(a, b), x)
	case "ropen":
		return vm.RightOpenRangeContains(nil, value.NewRightOpenRange(a, b), x)
	case "eclosed":
		return vm.EndlessClosedRangeContains(nil, value.NewEndlessClosedRange(a), x)
	case "eopen":
		return vm.EndlessOpenRangeContains(nil, value.NewEndlessOpenRange(a), x)
	case "bclosed":
		return vm.BeginlessClosedRangeContains(nil, value.NewBeginlessClosedRange(b), x)
	case "bopen":
		return vm.BeginlessOpenRangeContains(nil, value.NewBeginlessOpenRange(b), x)
	}
	panic("kind " + kind)
}

// next function of a fresh iterator
func nexter(kind string, a, b value.Value) func() (value.Value, value.Value) {
	switch kind {
	case "closed":
		it := value.NewClosedRangeIterator(value.NewClosedRange(a, b))
		return func() (value.Value, value.Value) { return vm.ClosedRangeIteratorNext(nil, it) }
	case "open":
		it := value.NewOpenRangeIterator(value.NewOpenRange(a, b))
		return func() (value.Value, value.Value) { return vm.OpenRangeIteratorNext(nil, it) }
	case "lopen":
		it := value.NewLeftOpenRangeIterator(value.NewLeftOpenRange(a, b))
		return func() (value.Value, value.Value) { return vm.LeftOpenRangeIteratorNext(nil, it) }
	case "ropen":
		it := value.NewRightOpenRangeIterator(value.NewRightOpenRange(a, b))
		return func() (value.Value, value.Value) { return vm.RightOpenRangeIteratorNext(nil, it) }
	case "eclosed":
		it := value.NewEndlessClosedRangeIterator(value.NewEndlessClosedRange(a))
		return func() (value.Value, value.Value) { return vm.EndlessClosedRangeIteratorNext(nil, it) }
	case "eopen":
		it := value.NewEndlessOpenRangeIterator(value.NewEndlessOpenRange(a))
		return func() (value.Value, value.Value) { return vm.EndlessOpenRangeIteratorNext(nil, it) }
	}
	return nil
}

func all(kind string, a, b value.Value) iter.Seq2[value.Value, value.Value] {
	switch kind {
	case "closed":
		return vm.ClosedRangeIteratorAll(nil, value.NewClosedRangeIterator(value.NewClosedRange(a, b)))
	case "open":
		return vm.OpenRangeIteratorAll(nil, value.NewOpenRangeIterator(value.NewOpenRange(a, b)))
	case "lopen":
		return vm.LeftOpenRangeIteratorAll(nil, value.NewLeftOpenRangeIterator(value.NewLeftOpenRange(a, b)))
	case "ropen":
		return vm.RightOpenRangeIteratorAll(nil, value.NewRightOpenRangeIterator(value.NewRightOpenRange(a, b)))
	case "eclosed":
		return vm.EndlessClosedRangeIteratorAll(nil, value.NewEndlessClosedRangeIterator(value.NewEndlessClosedRange(a)))
	case "eopen":
		return vm.EndlessOpenRangeIteratorAll(nil, value.NewEndlessOpenRangeIterator(value.NewEndlessOpenRange(a)))
	}
	return nil
}

func finite(kind string) bool {
	return kind == "closed" || kind == "open" || kind == "lopen" || kind == "ropen"
}

func list(xs []string) string { return "[" + strings.Join(xs, ", ") + "]" }

// the largest number of elements a finite range a..b of any kind can have, plus a margin of 3
func capFor(a, b string) int {
	x, ok1 := new(big.Int).SetString(a, 10)
	y, ok2 := new(big.Int).SetString(b, 10)
	if !ok1 || !ok2 {
		return limit
	}
	d := new(big.Int).Sub(y, x)
	if d.Sign() < 0 {
		return 4
	}
	if !d.IsInt64() || d.Int64() > limit-4 {
		return limit
	}
	return int(d.Int64()) + 4
}

// watchdog: current case (for the message) and the time it started
var curCase atomic.Value
var curStart atomic.Int64

func watchdog() {
	for {
		time.Sleep(2 * time.Second)
		st := curStart.Load()
		if st != 0 && time.Now().UnixNano()-st > int64(60*time.Second) {
			// the stuck case becomes a concrete failing input (the main goroutine is inside it, not writing)
			c, _ := curCase.Load().([2]string)
			hx.Emit(c[0], c[1], "hang>60s")
			hx.Flush()
			fmt.Fprintf(os.Stderr, "c23 harness watchdog: case %v did not finish within 60s\n", c)
			os.Exit(3)
		}
	}
}

func timed(id, input string) string {
	curCase.Store([2]string{id, input})
	curStart.Store(time.Now().UnixNano())
	r := run(input)
	curStart.Store(0)
	return r
}

func run(input string) string {
	f := strings.Fields(input)
	z := func(s string) value.Value {
		b, ok := new(big.Int).SetString(s, 10)
		if !ok {
			panic("bad int " + s)
		}
		return mk(b)
	}
	return hx.Guard(func() string {
		switch f[0] {
		case "C":
			r, err := contains(f[1], z(f[2]), z(f[3]), z(f[4]))
			if !err.IsUndefined() {
				return "err " + err.Inspect()
			}
			return fmt.Sprint(r)
		case "E":
			kind := f[2]
			next := nexter(kind, z(f[3]), z(f[4]))
			if next == nil {
				return "E:noiter"
			}
			var n int
			fmt.Sscan(f[5], &n)
			var xs []string
			most := capFor(f[3], f[4])
			for i := 0; ; i++ {
				if !finite(kind) && i >= n {
					return list(xs)
				}
				if finite(kind) && i >= most {
					if most >= limit {
						return "nofuel"
					}
					return list(xs) + "!nostop"
				}
				v, err := next()
				if !err.IsUndefined() {
					if err.IsInlineSymbol() && err.AsInlineSymbol().String() == "stop_iteration" {
						return list(xs)
					}
					return list(xs) + "!fail"
				}
				xs = append(xs, show(v))
			}
		case "A":
			kind := f[2]
			seq := all(kind, z(f[3]), z(f[4]))
			if seq == nil {
				return "E:noiter"
			}
			var n int
			fmt.Sscan(f[5], &n)
			var xs []string
			res := ""
			i := 0
			most := capFor(f[3], f[4])
			for v, err := range seq {
				if !err.IsUndefined() {
					res = "!yielded-error:" + err.Inspect()
					break
				}
				if !finite(kind) && i >= n {
					break
				}
				if finite(kind) && i >= most {
					if most >= limit {
						return "nofuel"
					}
					res = "!nostop"
					break
				}
				xs = append(xs, show(v))
				i++
			}
			return list(xs) + res
		}
		return "bad-input"
	})
}

// the SmallInt/BigInt representation boundaries (value.MinSmallInt/MaxSmallInt = -2^63 / 2^63-1)
// and their neighbours, +-2^63, +-2^64, +-(2^64-1), +-2^32, 0
func anchors() []*big.Int {
	p := func(e uint) *big.Int { return new(big.Int).Lsh(big.NewInt(1), e) }
	add := func(z *big.Int, d int64) *big.Int { return new(big.Int).Add(z, big.NewInt(d)) }
	neg := func(z *big.Int) *big.Int { return new(big.Int).Neg(z) }
	maxS, minS := big.NewInt(int64(value.MaxSmallInt)), big.NewInt(int64(value.MinSmallInt))
	return []*big.Int{
		maxS, add(maxS, -1), add(maxS, 1), add(maxS, 2),
		minS, add(minS, 1), add(minS, -1), add(minS, -2),
		p(63), neg(p(63)), p(64), neg(p(64)), add(p(64), -1), neg(add(p(64), -1)), add(p(64), 1),
		p(32), neg(p(32)), add(p(31), -1), neg(p(31)), big.NewInt(0),
	}
}

// a range whose START or END (or, for the exclusive kinds, first/last ELEMENT) sits exactly on an anchor
func anchored(r *hx.Rng, anch []*big.Int, kind string) (a, b *big.Int) {
	z := new(big.Int).Set(hx.Pick(r, anch))
	d := int64(r.Range(-2, 8))
	switch r.Below(4) {
	case 0: // start on the anchor
		a = z
		b = new(big.Int).Add(a, big.NewInt(d))
	case 1: // end on the anchor
		b = z
		a = new(big.Int).Sub(b, big.NewInt(d))
	case 2: // last element on the anchor: the end is one further for the kinds that exclude it
		b = z
		if kind == "open" || kind == "ropen" {
			b = new(big.Int).Add(z, big.NewInt(1))
		}
		a = new(big.Int).Sub(b, big.NewInt(d))
	default: // first element on the anchor
		a = z
		if kind == "open" || kind == "lopen" || kind == "eopen" {
			a = new(big.Int).Sub(z, big.NewInt(1))
		}
		b = new(big.Int).Add(a, big.NewInt(d))
	}
	return a, b
}

func main() {
	o := hx.ParseFlags()
	defer hx.Flush()
	go watchdog()
	for i, in := range hx.ReadInputs(o.Input) {
		id := fmt.Sprintf("c%d", i)
		hx.Emit(id, in, timed(id, in))
	}
	r := hx.NewRng(o.Seed)
	kinds := []string{"closed", "open", "lopen", "ropen", "eclosed", "eopen", "bclosed", "bopen"}
	iterKinds := kinds[:6]
	anch := anchors()
	emit := func(i int, in string) {
		id := fmt.Sprintf("g%d", i)
		hx.Emit(id, in, timed(id, in))
	}
	i := 0
	// systematic part (at most half of the budget; complete from -n 5760): every
	// iterable kind x every anchor x start-on-anchor / end-on-anchor x widths 0..3, through
	// IteratorNext (E) and IteratorAll (A); contains at the anchor and both neighbours
	type sys struct {
		kind string
		z    *big.Int
		end  bool
		d    int64
	}
	var grid []sys
	for _, d := range []int64{0, 2, 1, 3} {
		for _, z := range anch {
			for _, kind := range iterKinds {
				for _, end := range []bool{true, false} {
					if d == 0 && !end {
						continue // same range as the end variant
					}
					grid = append(grid, sys{kind, z, end, d})
				}
			}
		}
	}
	budget := o.N / 2
	for gi := 0; gi < len(grid) && 3*gi < budget; gi++ {
		g := grid[gi]
		a, b := g.z, new(big.Int).Add(g.z, big.NewInt(g.d))
		if g.end {
			a, b = new(big.Int).Sub(g.z, big.NewInt(g.d)), g.z
		}
		emit(i, fmt.Sprintf("E 0 %s %s %s %d", g.kind, a, b, 4))
		emit(i+1, fmt.Sprintf("A 0 %s %s %s %d", g.kind, a, b, 4))
		x := new(big.Int).Add(g.z, big.NewInt(int64(gi%3)-1))
		emit(i+2, fmt.Sprintf("C %s %s %s %s", g.kind, a, b, x))
		i += 3
	}
	for ; i < o.N; i++ {
		kind := hx.Pick(r, kinds)
		var a, b *big.Int
		if r.Chance(1, 3) {
			a, b = anchored(r, anch, kind)
		} else {
			switch r.Below(3) {
			case 0:
				a = big.NewInt(int64(r.Range(-4, 4)))
			case 1:
				a = r.BoundaryInt()
			default:
				a = r.BigBits(r.Range(1, 100))
			}
			d := int64(r.Range(-3, 12))
			b = new(big.Int).Add(a, big.NewInt(d))
		}
		var in string
		switch r.Below(4) {
		case 0, 1:
			var x *big.Int
			switch r.Below(8) {
			case 0:
				x = r.BoundaryInt()
			case 1:
				x = new(big.Int).Add(hx.Pick(r, anch), big.NewInt(int64(r.Range(-1, 1))))
			case 2, 3:
				x = new(big.Int).Add(b, big.NewInt(int64(r.Range(-2, 2))))
			default:
				x = new(big.Int).Add(a, big.NewInt(int64(r.Range(-3, 15))))
			}
			in = fmt.Sprintf("C %s %s %s %s", kind, a, b, x)
		case 2:
			in = fmt.Sprintf("E 0 %s %s %s %d", kind, a, b, r.Range(0, 9))
		default:
			in = fmt.Sprintf("A 0 %s %s %s %d", kind, a, b, r.Range(0, 9))
		}
		emit(i, in)
	}
}
