// c18: correspondence streams for equality / hashing / ordering consistency.
// Calls the value package directly (value.EqualVal, LaxEqualVal, StrictEqualVal, LessThanVal,
// LessThanEqualVal, GreaterThanVal, GreaterThanEqualVal, CompareVal, Hash) on pairs and
// triples of values and prints the observed results in the model's vocabulary.
//
// value tokens:  I:<dec> Int | F:<bits> Float | D:<bits> Float64 | S:<bits> Float32 (bits decimal)
//   i8:/i16:/i32:/i64:<dec> | u8:/u16:/u32:/u64:/u:<dec> | s:<hex bytes> String | c:<code point> Char
//   y:<id> Symbol (yn:<hex name> accepted on input, printed as y:<id>)
//   b:<prec>:<text> BigFloat (implementation-only stream)
// case input:    "P a b"  or  "T a b c"
// observed for a pair:  "eq lax seq lt le gt ge cmp hashA hashB";  a triple prints ab | bc | ac
package main

import (
	"bufio"
	"encoding/hex"
	"fmt"
	"math"
	"math/big"
	"os"
	"strconv"
	"strings"

	"verifharness/hx"

	"github.com/elk-language/elk/value"
)

func mustBig(s string) *big.Int {
	z, ok := new(big.Int).SetString(s, 10)
	if !ok {
		panic("bad integer " + s)
	}
	return z
}

func u64(s string) uint64 {
	v, err := strconv.ParseUint(s, 10, 64)
	if err != nil {
		panic("bad unsigned " + s)
	}
	return v
}

func i64(s string) int64 {
	v, err := strconv.ParseInt(s, 10, 64)
	if err != nil {
		panic("bad signed " + s)
	}
	return v
}

// mk builds the Elk value for a token and returns the canonical token (symbols by id).
func mk(tok string) (value.Value, string) {
	k, p, _ := strings.Cut(tok, ":")
	switch k {
	case "I":
		z := mustBig(p)
		if z.IsInt64() {
			return value.SmallInt(z.Int64()).ToValue(), tok
		}
		return value.Ref(value.ToElkBigInt(z)), tok
	case "F":
		return value.Float(math.Float64frombits(u64(p))).ToValue(), tok
	case "D":
		return value.Float64(math.Float64frombits(u64(p))).ToValue(), tok
	case "S":
		return value.Float32(math.Float32frombits(uint32(u64(p)))).ToValue(), tok
	case "i8":
		return value.Int8(i64(p)).ToValue(), tok
	case "i16":
		return value.Int16(i64(p)).ToValue(), tok
	case "i32":
		return value.Int32(i64(p)).ToValue(), tok
	case "i64":
		return value.Int64(i64(p)).ToValue(), tok
	case "u8":
		return value.UInt8(u64(p)).ToValue(), tok
	case "u16":
		return value.UInt16(u64(p)).ToValue(), tok
	case "u32":
		return value.UInt32(u64(p)).ToValue(), tok
	case "u64":
		return value.UInt64(u64(p)).ToValue(), tok
	case "u":
		return value.UInt(u64(p)).ToValue(), tok
	case "s":
		b, err := hex.DecodeString(p)
		if err != nil {
			panic("bad hex " + p)
		}
		return value.Ref(value.String(string(b))), tok
	case "c":
		return value.Char(rune(i64(p))).ToValue(), tok
	case "yn":
		b, err := hex.DecodeString(p)
		if err != nil {
			panic("bad hex " + p)
		}
		s := value.ToSymbol(string(b))
		return s.ToValue(), fmt.Sprintf("y:%d", uint64(s))
	case "y":
		return value.Symbol(u64(p)).ToValue(), tok
	case "b":
		ps, txt, _ := strings.Cut(p, ":")
		switch txt {
		case "nan":
			return value.Ref(value.BigFloatNaN()), tok
		}
		f, _, err := big.ParseFloat(txt, 0, uint(u64(ps)), big.ToNearestEven)
		if err != nil {
			panic("bad big float " + txt)
		}
		return value.Ref(value.ToElkBigFloat(f)), tok
	}
	panic("unknown token " + tok)
}

func b3(v value.Value) string {
	switch {
	case v.IsUndefined():
		return "u"
	case v.IsTrue():
		return "t"
	case v.IsFalse():
		return "f"
	}
	return "?" + v.Inspect()
}

func rel(v, err value.Value) string {
	if !err.IsUndefined() {
		return "e"
	}
	return b3(v)
}

func cmpS(v, err value.Value) string {
	if !err.IsUndefined() {
		return "e"
	}
	switch {
	case v.IsUndefined():
		return "u"
	case v.IsNil():
		return "n"
	case v.IsSmallInt():
		return strconv.FormatInt(int64(v.AsSmallInt()), 10)
	}
	return "?" + v.Inspect()
}

func hashS(v value.Value) string {
	h, err := value.Hash(v)
	if !err.IsUndefined() {
		return "-"
	}
	return strconv.FormatUint(uint64(h), 10)
}

func obsPair(a, b value.Value) string {
	return hx.Guard(func() string {
		var sb strings.Builder
		sb.WriteString(b3(value.EqualVal(a, b)))
		sb.WriteByte(' ')
		sb.WriteString(b3(value.LaxEqualVal(a, b)))
		sb.WriteByte(' ')
		sb.WriteString(b3(value.StrictEqualVal(a, b)))
		sb.WriteByte(' ')
		sb.WriteString(rel(value.LessThanVal(a, b)))
		sb.WriteByte(' ')
		sb.WriteString(rel(value.LessThanEqualVal(a, b)))
		sb.WriteByte(' ')
		sb.WriteString(rel(value.GreaterThanVal(a, b)))
		sb.WriteByte(' ')
		sb.WriteString(rel(value.GreaterThanEqualVal(a, b)))
		sb.WriteByte(' ')
		sb.WriteString(cmpS(value.CompareVal(a, b)))
		sb.WriteByte(' ')
		sb.WriteString(hashS(a))
		sb.WriteByte(' ')
		sb.WriteString(hashS(b))
		return sb.String()
	})
}

// run one case; returns canonical input and observation
func run(input string) (string, string) {
	f := strings.Fields(input)
	var canon string
	obs := hx.Guard(func() string {
		switch f[0] {
		case "P":
			a, ta := mk(f[1])
			b, tb := mk(f[2])
			canon = "P " + ta + " " + tb
			return obsPair(a, b)
		case "T":
			a, ta := mk(f[1])
			b, tb := mk(f[2])
			c, tc := mk(f[3])
			canon = "T " + ta + " " + tb + " " + tc
			return obsPair(a, b) + " | " + obsPair(b, c) + " | " + obsPair(a, c)
		}
		panic("unknown case kind " + f[0])
	})
	if canon == "" {
		canon = input
	}
	return canon, obs
}

// ---------------------------------------------------------------- generation

type gen struct{ r *hx.Rng }

var intKinds = []string{"i8", "i16", "i32", "i64", "u8", "u16", "u32", "u64", "u"}
var numKinds = []string{"I", "I", "F", "F", "D", "S", "i8", "i16", "i32", "i64", "u8", "u16", "u32", "u64", "u"}
var ordKinds = []string{"I", "I", "F", "F"}

// a "base" is an exact rational p/2^s kept as a big.Float with plenty of precision
func (g *gen) base() *big.Float {
	r := g.r
	x := new(big.Float).SetPrec(2200)
	switch r.Below(10) {
	case 0:
		x.SetInt64(int64(r.Range(-3, 3)))
	case 1, 2, 3, 4, 5:
		exps := []uint{7, 8, 15, 16, 23, 24, 25, 31, 32, 52, 53, 54, 62, 63, 64, 65, 100, 127, 128, 1023}
		z := new(big.Int).Lsh(big.NewInt(1), hx.Pick(r, exps))
		z.Add(z, big.NewInt(int64(r.Range(-3, 3))))
		x.SetInt(z)
	case 6:
		x.SetInt(r.BigBits(r.Range(1, 70)))
	case 7:
		// fraction near an integer boundary
		exps := []uint{0, 1, 23, 24, 52, 53}
		z := new(big.Int).Lsh(big.NewInt(1), hx.Pick(r, exps))
		x.SetInt(z)
		x.Add(x, big.NewFloat([]float64{0.5, -0.5, 0.25, 1.5, 1e-300, -1e-300}[r.Below(6)]))
	case 8:
		x.SetFloat64(math.Float64frombits(r.Next() &^ (0x7ff << 52) | uint64(r.Range(1, 2046))<<52))
	default:
		x.SetFloat64([]float64{5e-324, 1e-310, math.SmallestNonzeroFloat32, math.MaxFloat32, math.MaxFloat64, 1.5, 0.1}[r.Below(7)])
	}
	if r.Chance(1, 2) {
		x.Neg(x)
	}
	return x
}

func (g *gen) special64() uint64 {
	return hx.Pick(g.r, []uint64{0, 1 << 63, 0x7ff0000000000000, 0xfff0000000000000, 0x7ff8000000000000, 0x7ff0000000000001, 0xfff8000000000001, 1, 1<<63 | 1})
}
func (g *gen) special32() uint64 {
	return hx.Pick(g.r, []uint64{0, 1 << 31, 0x7f800000, 0xff800000, 0x7fc00000, 0x7f800001, 1, 1<<31 | 1})
}

// project the base value into the given kind (nearest float, +-1 ulp sometimes; wrapped ints)
func (g *gen) inKind(k string, x *big.Float) string {
	r := g.r
	switch k {
	case "I":
		z, _ := x.Int(nil)
		if r.Chance(1, 6) {
			z.Add(z, big.NewInt(int64(r.Range(-1, 1))))
		}
		return "I:" + z.String()
	case "F", "D":
		if r.Chance(1, 10) {
			return k + ":" + strconv.FormatUint(g.special64(), 10)
		}
		f, _ := x.Float64()
		b := math.Float64bits(f)
		if r.Chance(1, 5) && !math.IsInf(f, 0) && f != 0 {
			b += uint64(int64(r.Range(-1, 1)))
		}
		return k + ":" + strconv.FormatUint(b, 10)
	case "S":
		if r.Chance(1, 10) {
			return "S:" + strconv.FormatUint(g.special32(), 10)
		}
		f, _ := x.Float32()
		b := math.Float32bits(f)
		if r.Chance(1, 5) && !math.IsInf(float64(f), 0) && f != 0 {
			b += uint32(int32(r.Range(-1, 1)))
		}
		return "S:" + strconv.FormatUint(uint64(b), 10)
	}
	z, _ := x.Int(nil)
	if r.Chance(1, 6) {
		z.Add(z, big.NewInt(int64(r.Range(-1, 1))))
	}
	bits := map[string]uint{"i8": 8, "i16": 16, "i32": 32, "i64": 64, "u8": 8, "u16": 16, "u32": 32, "u64": 64, "u": 64}[k]
	m := new(big.Int).Lsh(big.NewInt(1), bits)
	z.Mod(z, m) // wrap into [0, 2^bits)
	if k[0] == 'i' {
		half := new(big.Int).Rsh(m, 1)
		if z.Cmp(half) >= 0 {
			z.Sub(z, m)
		}
	}
	return k + ":" + z.String()
}

var strPool = []string{"", "61", "6162", "61620000", "ff", "efbfbd", "c3a9", "c3", "e282ac", "f09f9880", "eda080", "00", "7f", "80", "c080",
	"6161616161616161616161616161616161616161616161616161616161616161616161", "e9"}
var charPool = []int64{0, 97, 98, 127, 128, 233, 0x7ff, 0x800, 0x20ac, 0xd7ff, 0xd800, 0xdfff, 0xe000, 0xfffd, 0xffff, 0x10000, 0x1f600, 0x10ffff, 0x110000, -1, 2147483647}
var symPool = []string{"", "61", "666f6f", "626172", "ff", "c3a9", "3d3d", "2b"}

func (g *gen) other() string {
	r := g.r
	switch r.Below(3) {
	case 0:
		if r.Chance(1, 4) {
			n := r.Range(0, 40)
			b := make([]byte, n)
			for i := range b {
				b[i] = byte(r.Next())
			}
			return "s:" + hex.EncodeToString(b)
		}
		return "s:" + hx.Pick(r, strPool)
	case 1:
		if r.Chance(1, 4) {
			return "c:" + strconv.Itoa(r.Range(0, 0x110000))
		}
		return "c:" + strconv.FormatInt(hx.Pick(r, charPool), 10)
	}
	return "yn:" + hx.Pick(r, symPool)
}

// n values; mostly numeric around one base so that equal / adjacent values meet across kinds
func (g *gen) values(n int) []string {
	r := g.r
	out := make([]string, n)
	mode := r.Below(10)
	x := g.base()
	for i := range out {
		if mode >= 8 && i > 0 || mode == 9 {
			x = g.base() // unrelated magnitudes
		}
		switch {
		case mode == 0:
			out[i] = g.other()
		case mode <= 4:
			out[i] = g.inKind(hx.Pick(r, ordKinds), x)
		case mode == 5 && i > 0:
			// same kind as the first
			k, _, _ := strings.Cut(out[0], ":")
			if k == "s" || k == "c" || k == "yn" {
				out[i] = g.other()
			} else {
				out[i] = g.inKind(k, x)
			}
		default:
			out[i] = g.inKind(hx.Pick(r, numKinds), x)
		}
		if r.Chance(1, 40) {
			out[i] = g.other()
		}
		if i > 0 && r.Chance(1, 25) {
			out[i] = out[r.Below(i)]
		}
	}
	return out
}

// implementation-only values: BigFloat with several precisions
func (g *gen) bigFloatTok() string {
	r := g.r
	prec := hx.Pick(r, []int{24, 53, 64, 100, 200})
	switch r.Below(12) {
	case 0:
		return fmt.Sprintf("b:%d:nan", prec)
	case 1:
		return fmt.Sprintf("b:%d:%s", prec, hx.Pick(r, []string{"+inf", "-inf", "0", "-0"}))
	}
	x := g.base()
	y := new(big.Float).SetPrec(uint(prec)).Set(x)
	return fmt.Sprintf("b:%d:%s", prec, y.Text('p', 0))
}

// bfFamily (second generation of the implementation-only stream; draws from its OWN generator so
// that the first generation's cases stay what they were for every seed): a finite BigFloat b and two
// values of arbitrary numeric kinds projected from b's VALUE (so that they are equal to it wherever
// the kind can hold it; inKind perturbs some by one unit / one ulp).  The caller runs the pairs in
// BOTH orders: =~ between BigFloat and every other kind is implemented twice (BigFloat.LaxEqual
// and the other kind's own dispatch), and only the two orders side by side show a missing case.
var famKinds = []string{"I", "F", "D", "S", "i8", "i16", "i32", "i64", "u8", "u16", "u32", "u64", "u", "b"}

func (g *gen) bfFamily() (string, string, string) {
	r := g.r
	prec := hx.Pick(r, []int{24, 53, 64, 100, 200})
	var x *big.Float
	switch r.Below(4) {
	case 0:
		// small integers: every kind can hold them
		x = new(big.Float).SetPrec(2200).SetInt64(int64(r.Range(-4, 300)))
	case 1:
		// just below / at / above the top of a sized integer kind
		e := hx.Pick(r, []uint{7, 8, 15, 16, 31, 32, 63, 64})
		z := new(big.Int).Lsh(big.NewInt(1), e)
		z.Add(z, big.NewInt(int64(r.Range(-2, 1))))
		x = new(big.Float).SetPrec(2200).SetInt(z)
	default:
		x = g.base()
	}
	y := new(big.Float).SetPrec(uint(prec)).Set(x)
	if y.IsInf() {
		y.SetInt64(1)
	}
	bt := fmt.Sprintf("b:%d:%s", prec, y.Text('p', 0))
	val := new(big.Float).SetPrec(2200).Set(y)
	mk1 := func() string {
		k := hx.Pick(r, famKinds)
		if k == "b" {
			p2 := hx.Pick(r, []int{24, 53, 64, 100, 200})
			return fmt.Sprintf("b:%d:%s", p2, new(big.Float).SetPrec(uint(p2)).Set(val).Text('p', 0))
		}
		return g.inKind(k, val)
	}
	return bt, mk1(), mk1()
}

func main() {
	o := hx.ParseFlags()
	defer hx.Flush()
	if o.Extra == "xx" {
		// helper: xxhash64 (the function value.String.Hash applies to its bytes) of hex byte strings
		sc := bufio.NewScanner(os.Stdin)
		sc.Buffer(make([]byte, 1<<20), 1<<26)
		for sc.Scan() {
			l := strings.TrimSpace(sc.Text())
			b, err := hex.DecodeString(l)
			if err != nil {
				continue
			}
			hx.Emit(l, "-", strconv.FormatUint(uint64(value.String(string(b)).Hash()), 10))
		}
		return
	}
	for i, in := range hx.ReadInputs(o.Input) {
		c, ob := run(in)
		hx.Emit(fmt.Sprintf("c%d", i), c, ob)
	}
	g := &gen{r: hx.NewRng(o.Seed)}
	g2 := &gen{r: hx.NewRng(o.Seed ^ 0x5bd1e995c18f)}
	for i := 0; i < o.N; i++ {
		var in string
		switch o.Extra {
		case "triples":
			v := g.values(3)
			in = "T " + v[0] + " " + v[1] + " " + v[2]
		case "impl":
			// BigFloat mixed with Int/Float/BigFloat, pairs and triples (no model)
			v := g.values(3)
			for j := range v {
				if g.r.Chance(1, 2) {
					v[j] = g.bigFloatTok()
				}
			}
			// correlated triple (added after seeded defect C18a): a low-precision BigFloat holding a
			// large integer value and Ints within +-1 of that value, so that a conversion of the
			// Int at the BigFloat's precision rounds it onto the BigFloat
			if g.r.Chance(1, 3) {
				prec := hx.Pick(g.r, []int{24, 53, 64})
				var n *big.Int
				if g.r.Chance(1, 2) {
					n = new(big.Int).Exp(big.NewInt(10), big.NewInt(int64(g.r.Range(20, 40))), nil)
				} else {
					n = new(big.Int).Lsh(big.NewInt(int64(g.r.Range(1, 7))), uint(g.r.Range(64, 140)))
				}
				if g.r.Chance(1, 2) {
					n.Neg(n)
				}
				f := new(big.Float).SetPrec(uint(prec)).SetInt(n)
				exact, _ := f.Int(nil)
				v[0] = fmt.Sprintf("b:%d:%s", prec, f.Text('p', 0))
				v[1] = "I:" + new(big.Int).Add(exact, big.NewInt(int64(g.r.Range(-1, 1)))).String()
				v[2] = "I:" + new(big.Int).Add(exact, big.NewInt(int64(g.r.Range(-1, 1)))).String()
				if g.r.Chance(1, 2) {
					v[0], v[1] = v[1], v[0]
				}
			}
			in = "T " + v[0] + " " + v[1] + " " + v[2]
			// second generation: BigFloat against a value of every kind, both orders, and a triple
			bt, k1, k2 := g2.bfFamily()
			for j, in2 := range []string{"P " + bt + " " + k1, "P " + k1 + " " + bt, "T " + bt + " " + k1 + " " + k2, "T " + k1 + " " + bt + " " + k2} {
				c, ob := run(in2)
				hx.Emit(fmt.Sprintf("f%d.%d", i, j), c, ob)
			}
		default:
			v := g.values(2)
			in = "P " + v[0] + " " + v[1]
		}
		c, ob := run(in)
		hx.Emit(fmt.Sprintf("g%d", i), c, ob)
	}
}
