// c07: correspondence streams for fixed-width integers and floats.
//
//	-extra int    sized-integer operators through value.*Val dispatchers ("val") and through
//	              the native methods registered on the Std::IntN classes ("meth"), the four
//	              shift operators with every right-operand kind, the same-type shift helpers
//	-extra float  Float / Float64 / Float32 arithmetic, comparisons and conversions on bit
//	              patterns
//
// Input grammar (one case per line, fields separated by one space):
//
//	bin  <via> <ty> <op> <a> <b>          op: add sub mul div mod and or xor andnot pow
//	un   <via> <ty> <op> <a>              op: neg not inc dec
//	sh   <via> <ty> <op> <a> <kind> <r>   op: shl shr lshl lshr
//	same <ty> <op> <a> <r>                op: shl shr           (IntN.LeftBitshiftIntN ...)
//	f    <ty> <op> <bitsA> <bitsB>        ty: fl f64 f32; op: add sub mul div cmp lt le gt ge eq
//	cv   <op> <x>                         op: i2fl i2f32 big2fl fl2f32 f322f64 fl2int i642f64
//	fp   <via> <ty> <op> <bitsA> <bitsB>  op: pow mod; via: val (value.ExponentiateVal/ModuloVal),
//	                                      typed (f.ExponentiateFloat(o) ...), meth (native `**` / `%`
//	                                      registered on the class), meth1 (Float only: `**@1` / `%@1`)
//	fpi  <via> <op> <bitsA> <int>         Float ** Int, Float % Int (SmallInt or BigInt); via: val meth
//
// For pow the observed field is followed by one more tab-separated column: Go's math.Pow on the
// same operands (at binary64, rounded to the width), computed here, not through the value package.
//
// Observed: "ok <z>" | "err 1" (ZeroDivisionError) | "err 2" (any other Elk error) |
// "panic <msg>" | "hang" ; floats: "<bits>" | "nan" | "lt|eq|gt|un" | "true|false".
package main

import (
	"fmt"
	"math"
	"math/big"
	"strings"
	"time"

	"verifharness/hx"

	"github.com/elk-language/elk/value"
	"github.com/elk-language/elk/vm"
)

type ity struct {
	name   string
	signed bool
	w      uint
}

var itys = []ity{
	{"i8", true, 8}, {"i16", true, 16}, {"i32", true, 32}, {"i64", true, 64},
	{"u8", false, 8}, {"u16", false, 16}, {"u32", false, 32}, {"u64", false, 64}, {"u", false, 64},
}

func tyOf(n string) ity {
	for _, t := range itys {
		if t.name == n {
			return t
		}
	}
	panic("unknown type " + n)
}

func (t ity) min() *big.Int {
	if !t.signed {
		return big.NewInt(0)
	}
	return new(big.Int).Neg(new(big.Int).Lsh(big.NewInt(1), t.w-1))
}
func (t ity) max() *big.Int {
	if !t.signed {
		return new(big.Int).Sub(new(big.Int).Lsh(big.NewInt(1), t.w), big.NewInt(1))
	}
	return new(big.Int).Sub(new(big.Int).Lsh(big.NewInt(1), t.w-1), big.NewInt(1))
}

// mkInt builds the Elk value of sized type ty holding z (z must be in range).
func mkInt(ty string, z *big.Int) value.Value {
	switch ty {
	case "i8":
		return value.Int8(z.Int64()).ToValue()
	case "i16":
		return value.Int16(z.Int64()).ToValue()
	case "i32":
		return value.Int32(z.Int64()).ToValue()
	case "i64":
		return value.Int64(z.Int64()).ToValue()
	case "u8":
		return value.UInt8(z.Uint64()).ToValue()
	case "u16":
		return value.UInt16(z.Uint64()).ToValue()
	case "u32":
		return value.UInt32(z.Uint64()).ToValue()
	case "u64":
		return value.UInt64(z.Uint64()).ToValue()
	case "u":
		return value.UInt(z.Uint64()).ToValue()
	case "smallint":
		return value.SmallInt(z.Int64()).ToValue()
	case "bigint":
		return value.Ref(value.ToElkBigInt(new(big.Int).Set(z)))
	case "float":
		return value.Float(1.5).ToValue()
	}
	panic("unknown kind " + ty)
}

func classOf(ty string) *value.Class {
	switch ty {
	case "i8":
		return value.Int8Class
	case "i16":
		return value.Int16Class
	case "i32":
		return value.Int32Class
	case "i64":
		return value.Int64Class
	case "u8":
		return value.UInt8Class
	case "u16":
		return value.UInt16Class
	case "u32":
		return value.UInt32Class
	case "u64":
		return value.UInt64Class
	case "u":
		return value.UIntClass
	}
	panic("unknown type " + ty)
}

func showInt(v value.Value, err value.Value) string {
	if !err.IsUndefined() {
		cls := err.Class().Name
		if strings.Contains(cls, "ZeroDivision") {
			return "err 1"
		}
		return "err 2"
	}
	switch v.ValueFlag() {
	case value.INT8_FLAG:
		return fmt.Sprintf("ok %d", int8(v.AsInt8()))
	case value.INT16_FLAG:
		return fmt.Sprintf("ok %d", int16(v.AsInt16()))
	case value.INT32_FLAG:
		return fmt.Sprintf("ok %d", int32(v.AsInt32()))
	case value.INT64_FLAG:
		return fmt.Sprintf("ok %d", int64(v.AsInlineInt64()))
	case value.UINT8_FLAG:
		return fmt.Sprintf("ok %d", uint8(v.AsUInt8()))
	case value.UINT16_FLAG:
		return fmt.Sprintf("ok %d", uint16(v.AsUInt16()))
	case value.UINT32_FLAG:
		return fmt.Sprintf("ok %d", uint32(v.AsUInt32()))
	case value.UINT64_FLAG:
		return fmt.Sprintf("ok %d", uint64(v.AsInlineUInt64()))
	case value.UINT_FLAG:
		return fmt.Sprintf("ok %d", uint64(v.AsUInt()))
	}
	if v.IsUndefined() {
		return "undefined"
	}
	return "other " + v.Inspect()
}

var methName = map[string]string{
	"add": "+", "sub": "-", "mul": "*", "div": "/", "mod": "%", "pow": "**",
	"and": "&", "or": "|", "xor": "^", "andnot": "&~",
	"shl": "<<", "shr": ">>", "lshl": "<<<", "lshr": ">>>",
	"neg": "-@", "not": "~", "inc": "++", "dec": "--",
}

func callMethod(ty, op string, args ...value.Value) (value.Value, value.Value) {
	m := classOf(ty).LookupMethod(value.ToSymbol(methName[op]))
	if m == nil {
		return value.Undefined, value.Undefined
	}
	nm, ok := m.(*vm.NativeMethod)
	if !ok {
		return value.Undefined, value.Undefined
	}
	return nm.Function(nil, args)
}

func callVal(op string, a, b value.Value) (value.Value, value.Value) {
	switch op {
	case "add":
		return value.AddVal(a, b)
	case "sub":
		return value.SubtractVal(a, b)
	case "mul":
		return value.MultiplyVal(a, b)
	case "div":
		return value.DivideVal(a, b)
	case "mod":
		return value.ModuloVal(a, b)
	case "pow":
		return value.ExponentiateVal(a, b)
	case "and":
		return value.BitwiseAndVal(a, b)
	case "or":
		return value.BitwiseOrVal(a, b)
	case "xor":
		return value.BitwiseXorVal(a, b)
	case "andnot":
		return value.BitwiseAndNotVal(a, b)
	case "shl":
		return value.LeftBitshiftVal(a, b)
	case "shr":
		return value.RightBitshiftVal(a, b)
	case "lshl":
		return value.LogicalLeftBitshiftVal(a, b)
	case "lshr":
		return value.LogicalRightBitshiftVal(a, b)
	case "neg":
		return value.NegateVal(a), value.Undefined
	case "not":
		return value.BitwiseNotVal(a), value.Undefined
	case "inc":
		return value.IncrementVal(a), value.Undefined
	case "dec":
		return value.DecrementVal(a), value.Undefined
	}
	panic("unknown op " + op)
}

func sameShift(ty, op string, a, r *big.Int) string {
	l := op == "shl"
	switch ty {
	case "i8":
		x, y := value.Int8(a.Int64()), value.Int8(r.Int64())
		if l {
			return fmt.Sprintf("ok %d", int8(x.LeftBitshiftInt8(y)))
		}
		return fmt.Sprintf("ok %d", int8(x.RightBitshiftInt8(y)))
	case "i16":
		x, y := value.Int16(a.Int64()), value.Int16(r.Int64())
		if l {
			return fmt.Sprintf("ok %d", int16(x.LeftBitshiftInt16(y)))
		}
		return fmt.Sprintf("ok %d", int16(x.RightBitshiftInt16(y)))
	case "i32":
		x, y := value.Int32(a.Int64()), value.Int32(r.Int64())
		if l {
			return fmt.Sprintf("ok %d", int32(x.LeftBitshiftInt32(y)))
		}
		return fmt.Sprintf("ok %d", int32(x.RightBitshiftInt32(y)))
	case "i64":
		x, y := value.Int64(a.Int64()), value.Int64(r.Int64())
		if l {
			return fmt.Sprintf("ok %d", int64(x.LeftBitshiftInt64(y)))
		}
		return fmt.Sprintf("ok %d", int64(x.RightBitshiftInt64(y)))
	}
	return "unsupported"
}

var hangs int

// guarded runs f with panic capture and a watchdog (an endless loop cannot be interrupted;
// the goroutine is abandoned, so the number of abandoned goroutines is bounded by the caller).
func guarded(f func() string) string {
	ch := make(chan string, 1)
	go func() { ch <- hx.Guard(f) }()
	select {
	case s := <-ch:
		return s
	case <-time.After(2 * time.Second):
		hangs++
		return "hang"
	}
}

func parseBig(s string) *big.Int {
	z, ok := new(big.Int).SetString(s, 10)
	if !ok {
		panic("bad integer " + s)
	}
	return z
}

// ---------------------------------------------------------------- floats

func f64bits(s string) float64 { return math.Float64frombits(parseBig(s).Uint64()) }
func f32bits(s string) float32 { return math.Float32frombits(uint32(parseBig(s).Uint64())) }

func show64(f float64) string {
	if math.IsNaN(f) {
		return "nan"
	}
	return fmt.Sprintf("%d", math.Float64bits(f))
}
func show32(f float32) string {
	if f != f {
		return "nan"
	}
	return fmt.Sprintf("%d", math.Float32bits(f))
}

func showCmp(v value.Value) string {
	if v.IsNil() {
		return "un"
	}
	if v.IsSmallInt() {
		switch v.AsSmallInt() {
		case -1:
			return "lt"
		case 0:
			return "eq"
		case 1:
			return "gt"
		}
	}
	return "other " + v.Inspect()
}

func showBool(v value.Value) string {
	if v.IsTrue() {
		return "true"
	}
	if v.IsFalse() {
		return "false"
	}
	return "other " + v.Inspect()
}

func floatVal(ty, s string) value.Value {
	switch ty {
	case "fl":
		return value.Float(f64bits(s)).ToValue()
	case "f64":
		return value.Float64(f64bits(s)).ToValue()
	case "f32":
		return value.Float32(f32bits(s)).ToValue()
	}
	panic("unknown float type " + ty)
}

func showFloat(v value.Value) string {
	switch {
	case v.IsFloat():
		return show64(float64(v.AsFloat()))
	case v.IsInlineFloat64():
		return show64(float64(v.AsInlineFloat64()))
	case v.IsFloat32():
		return show32(float32(v.AsFloat32()))
	}
	if v.IsUndefined() {
		return "undefined"
	}
	return "other " + v.Inspect()
}

func runFloat(f []string) string {
	ty, op := f[1], f[2]
	a, b := floatVal(ty, f[3]), floatVal(ty, f[4])
	var r, e value.Value
	switch op {
	case "add":
		r, e = value.AddVal(a, b)
	case "sub":
		r, e = value.SubtractVal(a, b)
	case "mul":
		r, e = value.MultiplyVal(a, b)
	case "div":
		r, e = value.DivideVal(a, b)
	case "cmp":
		r, e = value.CompareVal(a, b)
		if !e.IsUndefined() {
			return "err 2"
		}
		return showCmp(r)
	case "lt":
		r, e = value.LessThanVal(a, b)
	case "le":
		r, e = value.LessThanEqualVal(a, b)
	case "gt":
		r, e = value.GreaterThanVal(a, b)
	case "ge":
		r, e = value.GreaterThanEqualVal(a, b)
	case "eq":
		r, e = value.EqualVal(a, b), value.Undefined
	default:
		panic("unknown float op " + op)
	}
	if !e.IsUndefined() {
		return "err 2"
	}
	switch op {
	case "lt", "le", "gt", "ge", "eq":
		return showBool(r)
	}
	return showFloat(r)
}

var fclasses = map[string]func() *value.Class{
	"fl":  func() *value.Class { return value.FloatClass },
	"f64": func() *value.Class { return value.Float64Class },
	"f32": func() *value.Class { return value.Float32Class },
}

func callFloatMethod(ty, name string, args ...value.Value) (value.Value, value.Value) {
	m := fclasses[ty]().LookupMethod(value.ToSymbol(name))
	if m == nil {
		return value.Undefined, value.Undefined
	}
	nm, ok := m.(*vm.NativeMethod)
	if !ok {
		return value.Undefined, value.Undefined
	}
	return nm.Function(nil, args)
}

// refPow is the trusted reference for `**`: Go's math.Pow at binary64, rounded to the width.
func refPow(ty string, a, b float64) string {
	if ty == "f32" {
		return show32(float32(math.Pow(a, b)))
	}
	return show64(math.Pow(a, b))
}

// fp <via> <ty> <op> <a> <b>
func runFloatPow(f []string) string {
	via, ty, op := f[1], f[2], f[3]
	a, b := floatVal(ty, f[4]), floatVal(ty, f[5])
	var r, e value.Value
	sym := map[string]string{"pow": "**", "mod": "%"}[op]
	switch via {
	case "val":
		if op == "pow" {
			r, e = value.ExponentiateVal(a, b)
		} else {
			r, e = value.ModuloVal(a, b)
		}
	case "meth":
		r, e = callFloatMethod(ty, sym, a, b)
	case "meth1":
		r, e = callFloatMethod(ty, sym+"@1", a, b)
	case "typed":
		e = value.Undefined
		switch ty {
		case "fl":
			if op == "pow" {
				r = a.AsFloat().ExponentiateFloat(b.AsFloat()).ToValue()
			} else {
				r = a.AsFloat().ModuloFloat(b.AsFloat()).ToValue()
			}
		case "f64":
			if op == "pow" {
				r = a.AsInlineFloat64().ExponentiateFloat64(b.AsInlineFloat64()).ToValue()
			} else {
				r = a.AsInlineFloat64().ModuloFloat64(b.AsInlineFloat64()).ToValue()
			}
		case "f32":
			if op == "pow" {
				r = a.AsFloat32().ExponentiateFloat32(b.AsFloat32()).ToValue()
			} else {
				r = a.AsFloat32().ModuloFloat32(b.AsFloat32()).ToValue()
			}
		}
	default:
		panic("unknown via " + via)
	}
	res := "err 2"
	if e.IsUndefined() {
		res = showFloat(r)
	}
	if op == "pow" {
		var x, y float64
		if ty == "f32" {
			x, y = float64(f32bits(f[4])), float64(f32bits(f[5]))
		} else {
			x, y = f64bits(f[4]), f64bits(f[5])
		}
		res += "\t" + refPow(ty, x, y)
	}
	return res
}

// fpi <via> <op> <a> <int>
func runFloatPowInt(f []string) string {
	via, op := f[1], f[2]
	a := floatVal("fl", f[3])
	z := parseBig(f[4])
	var b value.Value
	if z.IsInt64() {
		b = value.SmallInt(z.Int64()).ToValue()
	} else {
		b = value.Ref(value.ToElkBigInt(new(big.Int).Set(z)))
	}
	var r, e value.Value
	sym := map[string]string{"pow": "**", "mod": "%"}[op]
	if via == "meth" {
		r, e = callFloatMethod("fl", sym, a, b)
	} else if op == "pow" {
		r, e = value.ExponentiateVal(a, b)
	} else {
		r, e = value.ModuloVal(a, b)
	}
	res := "err 2"
	if e.IsUndefined() {
		res = showFloat(r)
	}
	if op == "pow" {
		y, _ := new(big.Float).SetInt(z).Float64() // one rounding to nearest even
		res += "\t" + refPow("fl", f64bits(f[3]), y)
	}
	return res
}

func runConv(f []string) string {
	op, x := f[1], f[2]
	switch op {
	case "i2fl": // SmallInt -> Float
		return show64(float64(value.SmallInt(parseBig(x).Int64()).ToFloat()))
	case "i642f64": // Int64 -> Float64
		return show64(float64(value.Int64(parseBig(x).Int64()).ToFloat64()))
	case "i2f32": // Int64 -> Float32
		return show32(float32(value.Int64(parseBig(x).Int64()).ToFloat32()))
	case "big2fl": // BigInt -> Float
		return show64(float64(value.ToElkBigInt(parseBig(x)).ToFloat()))
	case "fl2f32":
		return show32(float32(value.Float(f64bits(x)).ToFloat32()))
	case "f322f64":
		return show64(float64(value.Float64(f32bits(x))))
	case "fl2int":
		v := value.Float(f64bits(x)).ToInt()
		if v.IsSmallInt() {
			return fmt.Sprintf("ok %d", int64(v.AsSmallInt()))
		}
		if v.IsReference() {
			if b, ok := v.AsReference().(*value.BigInt); ok {
				return "ok " + b.ToGoBigInt().String()
			}
		}
		return "other " + v.Inspect()
	}
	panic("unknown conversion " + op)
}

// ---------------------------------------------------------------- dispatch

func run(input string) string {
	f := strings.Fields(input)
	return guarded(func() string {
		switch f[0] {
		case "bin":
			via, ty, op := f[1], f[2], f[3]
			a, b := mkInt(ty, parseBig(f[4])), mkInt(ty, parseBig(f[5]))
			if via == "meth" {
				return showInt(callMethod(ty, op, a, b))
			}
			return showInt(callVal(op, a, b))
		case "un":
			via, ty, op := f[1], f[2], f[3]
			a := mkInt(ty, parseBig(f[4]))
			if via == "meth" {
				return showInt(callMethod(ty, op, a))
			}
			return showInt(callVal(op, a, value.Undefined))
		case "sh":
			via, ty, op := f[1], f[2], f[3]
			a, r := mkInt(ty, parseBig(f[4])), mkInt(f[5], parseBig(f[6]))
			if via == "meth" {
				return showInt(callMethod(ty, op, a, r))
			}
			return showInt(callVal(op, a, r))
		case "same":
			return sameShift(f[1], f[2], parseBig(f[3]), parseBig(f[4]))
		case "f":
			return runFloat(f)
		case "cv":
			return runConv(f)
		case "fp":
			return runFloatPow(f)
		case "fpi":
			return runFloatPowInt(f)
		}
		return "bad-input"
	})
}

// ---------------------------------------------------------------- generators

func pow2(k uint) *big.Int { return new(big.Int).Lsh(big.NewInt(1), k) }

func clampTo(t ity, z *big.Int) *big.Int {
	// reduce into the type by two's complement wrap
	m := pow2(t.w)
	r := new(big.Int).Mod(z, m)
	if t.signed && r.Cmp(pow2(t.w-1)) >= 0 {
		r.Sub(r, m)
	}
	return r
}

func genOperand(r *hx.Rng, t ity) *big.Int {
	switch r.Below(6) {
	case 0:
		c := []*big.Int{t.min(), new(big.Int).Add(t.min(), big.NewInt(1)), big.NewInt(-1), big.NewInt(0), big.NewInt(1), big.NewInt(2),
			new(big.Int).Sub(t.max(), big.NewInt(1)), t.max()}
		return clampTo(t, hx.Pick(r, c))
	case 1:
		z := pow2(uint(r.Below(int(t.w) + 1)))
		z.Add(z, big.NewInt(int64(r.Range(-2, 2))))
		if r.Chance(1, 2) {
			z.Neg(z)
		}
		return clampTo(t, z)
	case 2:
		return clampTo(t, big.NewInt(int64(r.Range(-16, 16))))
	default:
		return clampTo(t, r.BigBits(int(t.w)+1))
	}
}

var kinds = []string{"smallint", "bigint", "i64", "i32", "i16", "i8", "u64", "u32", "u16", "u8", "u"}

func kindRange(k string) (lo, hi *big.Int) {
	switch k {
	case "smallint", "i64":
		return tyOf("i64").min(), tyOf("i64").max()
	case "i32", "i16", "i8", "u64", "u32", "u16", "u8", "u":
		return tyOf(k).min(), tyOf(k).max()
	}
	return nil, nil // bigint: unbounded
}

func genAmount(r *hx.Rng, k string, w uint) *big.Int {
	lo, hi := kindRange(k)
	var z *big.Int
	W := int64(w)
	switch r.Below(5) {
	case 0: // around the width, both directions
		c := []int64{-W - 1, -W, -W + 1, -1, 0, 1, W - 1, W, W + 1, 63, 64, 65, -63, -64, -65, 7, 8, 9, -7, -8, -9}
		z = big.NewInt(hx.Pick(r, c))
	case 1: // extremes of the kind
		if lo != nil {
			c := []*big.Int{lo, new(big.Int).Add(lo, big.NewInt(1)), hi, new(big.Int).Sub(hi, big.NewInt(1))}
			z = new(big.Int).Set(hx.Pick(r, c))
		} else {
			e := hx.Pick(r, []uint{62, 63, 64, 65, 70, 128})
			z = pow2(e)
			z.Add(z, big.NewInt(int64(r.Range(-1, 1))))
			if r.Chance(1, 2) {
				z.Neg(z)
			}
		}
	case 2:
		z = big.NewInt(int64(r.Range(-int(w)-2, int(w)+2)))
	case 3:
		z = big.NewInt(int64(r.Range(0, int(w))))
	default:
		z = r.BigBits(r.Range(1, 66))
	}
	if lo != nil && (z.Cmp(lo) < 0 || z.Cmp(hi) > 0) {
		kt := k
		if k == "smallint" {
			kt = "i64"
		}
		z = clampTo(tyOf(kt), z)
	}
	return z
}

var binOps = []string{"add", "sub", "mul", "div", "mod", "and", "or", "xor", "andnot", "pow"}
var unOps = []string{"neg", "not", "inc", "dec"}
var shOps = []string{"shl", "shr", "lshl", "lshr"}
var vias = []string{"val", "meth"}

func emitCase(id, in string) bool {
	f := strings.Fields(in)
	if hangs >= 4 && len(f) > 3 && f[0] == "bin" && f[3] == "pow" {
		return false // abandoned goroutines are bounded; not counted as a case
	}
	hx.Emit(id, in, run(in))
	return true
}

func genInt(r *hx.Rng, n int) {
	for i := 0; i < n; i++ {
		t := hx.Pick(r, itys)
		via := hx.Pick(r, vias)
		var in string
		switch c := r.Below(20); {
		case c < 6:
			op := hx.Pick(r, binOps)
			a, b := genOperand(r, t), genOperand(r, t)
			if op == "pow" {
				// the loop runs b-1 times: keep it short for wide types, full range for 8/16 bits
				if t.w > 16 {
					lo := -3
					if !t.signed {
						lo = 0
					}
					b = big.NewInt(int64(r.Range(lo, 70)))
				}
			}
			in = fmt.Sprintf("bin %s %s %s %s %s", via, t.name, op, a, b)
		case c < 8:
			in = fmt.Sprintf("un %s %s %s %s", via, t.name, hx.Pick(r, unOps), genOperand(r, t))
		case c < 18:
			k := hx.Pick(r, kinds)
			if r.Chance(1, 40) {
				k = "float"
			}
			amt := big.NewInt(0)
			if k != "float" {
				amt = genAmount(r, k, t.w)
			}
			in = fmt.Sprintf("sh %s %s %s %s %s %s", via, t.name, hx.Pick(r, shOps), genOperand(r, t), k, amt)
		default:
			if !t.signed {
				t = itys[r.Below(4)]
			}
			in = fmt.Sprintf("same %s %s %s %s", t.name, hx.Pick(r, []string{"shl", "shr"}), genOperand(r, t), genOperand(r, t))
		}
		emitCase(fmt.Sprintf("g%d", i), in)
	}
}

// exhaustive sweep over the 8-bit types (thorough tier)
func sweep8() {
	id := 0
	next := func(in string) {
		emitCase(fmt.Sprintf("x%d", id), in)
		id++
	}
	for _, tn := range []string{"i8", "u8"} {
		t := tyOf(tn)
		lo, hi := t.min().Int64(), t.max().Int64()
		for a := lo; a <= hi; a++ {
			for b := lo; b <= hi; b++ {
				for _, op := range binOps {
					via := vias[(a+b+int64(len(op)))&1]
					next(fmt.Sprintf("bin %s %s %s %d %d", via, tn, op, a, b))
				}
			}
			for _, op := range unOps {
				next(fmt.Sprintf("un val %s %s %d", tn, op, a))
				next(fmt.Sprintf("un meth %s %s %d", tn, op, a))
			}
			// every amount of the 8-bit kinds, boundary amounts of the wider kinds
			for _, op := range shOps {
				for r := int64(-128); r <= 127; r++ {
					next(fmt.Sprintf("sh %s %s %s %d i8 %d", vias[(a+r)&1], tn, op, a, r))
				}
				for r := int64(0); r <= 255; r++ {
					next(fmt.Sprintf("sh %s %s %s %d u8 %d", vias[(a+r)&1], tn, op, a, r))
				}
				for _, k := range kinds {
					if k == "i8" || k == "u8" {
						continue
					}
					klo, khi := kindRange(k)
					var amts []*big.Int
					for _, v := range []int64{-65, -64, -63, -9, -8, -7, -1, 0, 1, 7, 8, 9, 63, 64, 65} {
						amts = append(amts, big.NewInt(v))
					}
					if klo != nil {
						amts = append(amts, klo, new(big.Int).Add(klo, big.NewInt(1)), khi)
					} else {
						for _, e := range []uint{63, 64, 70} {
							amts = append(amts, pow2(e), new(big.Int).Neg(pow2(e)), new(big.Int).Sub(new(big.Int).Neg(pow2(e)), big.NewInt(1)))
						}
					}
					for j, z := range amts {
						if klo != nil && (z.Cmp(klo) < 0 || z.Cmp(khi) > 0) {
							continue
						}
						next(fmt.Sprintf("sh %s %s %s %d %s %s", vias[(int(a)+j)&1], tn, op, a, k, z))
					}
				}
			}
		}
		if t.signed {
			for a := lo; a <= hi; a++ {
				for b := lo; b <= hi; b++ {
					next(fmt.Sprintf("same %s shl %d %d", tn, a, b))
					next(fmt.Sprintf("same %s shr %d %d", tn, a, b))
				}
			}
		}
	}
}

// ---- float generation

func specials64(r *hx.Rng) uint64 {
	c := []uint64{
		0, 1 << 63, // +-0
		1, 2, 0x000FFFFFFFFFFFFF, 0x0010000000000000, 0x0010000000000001, // subnormals, min normal
		0x7FF0000000000000, 0xFFF0000000000000, // inf
		0x7FF8000000000000, 0x7FF0000000000001, 0xFFF8000000000001, // NaNs
		0x7FEFFFFFFFFFFFFF, 0xFFEFFFFFFFFFFFFF, // max finite
		0x3FF0000000000000, 0xBFF0000000000000, 0x3FE0000000000000, 0x4000000000000000, // 1 -1 0.5 2
		0x3FB999999999999A, 0x3FC999999999999A, 0x3FD3333333333333, // 0.1 0.2 0.3
		0x4340000000000000, 0x4340000000000001, 0x433FFFFFFFFFFFFF, // 2^53 and neighbours
		0x43E0000000000000, 0xC3E0000000000000, // +-2^63
	}
	return hx.Pick(r, c)
}

func gen64(r *hx.Rng) uint64 {
	switch r.Below(5) {
	case 0:
		return specials64(r)
	case 1: // ulp neighbours of powers of two
		e := uint64(r.Range(1, 2046))
		b := e << 52
		switch r.Below(3) {
		case 0:
			b--
		case 1:
			b++
		}
		if r.Chance(1, 2) {
			b |= 1 << 63
		}
		return b
	case 2: // moderate exponents so that sums and products are inexact but finite
		e := uint64(r.Range(1023-60, 1023+60))
		return (r.Next() & 0x800FFFFFFFFFFFFF) | e<<52
	case 3: // subnormal range
		return (r.Next() & 0x800FFFFFFFFFFFFF) | uint64(r.Range(0, 2))<<52
	}
	return r.Next()
}

func gen32(r *hx.Rng) uint32 {
	switch r.Below(5) {
	case 0:
		c := []uint32{0, 1 << 31, 1, 2, 0x007FFFFF, 0x00800000, 0x00800001, 0x7F800000, 0xFF800000, 0x7FC00000, 0x7F800001,
			0x7F7FFFFF, 0xFF7FFFFF, 0x3F800000, 0xBF800000, 0x3F000000, 0x40000000, 0x3DCCCCCD, 0x3E4CCCCD,
			0x4B800000, 0x4B800001, 0x4B7FFFFF, 0x5F000000}
		return hx.Pick(r, c)
	case 1:
		e := uint32(r.Range(1, 254))
		b := e << 23
		switch r.Below(3) {
		case 0:
			b--
		case 1:
			b++
		}
		if r.Chance(1, 2) {
			b |= 1 << 31
		}
		return b
	case 2:
		e := uint32(r.Range(127-30, 127+30))
		return (uint32(r.Next()) & 0x807FFFFF) | e<<23
	case 3:
		return (uint32(r.Next()) & 0x807FFFFF) | uint32(r.Range(0, 2))<<23
	}
	return uint32(r.Next())
}

// ---- `**` and `%`: the special-value grid (all ordered pairs, every run) and directed operands

func withSigns64(fs []float64) []uint64 {
	var out []uint64
	for _, f := range fs {
		b := math.Float64bits(f)
		out = append(out, b, b|1<<63)
	}
	return append(out, 0x7FF0000000000000, 0xFFF0000000000000, 0x7FF8000000000000)
}

func withSigns32(fs []float32) []uint32 {
	var out []uint32
	for _, f := range fs {
		b := math.Float32bits(f)
		out = append(out, b, b|1<<31)
	}
	return append(out, 0x7F800000, 0xFF800000, 0x7FC00000)
}

// zeros, one, halves, odd / even integers, non-integers, the largest non-integer, the largest odd
// integer, 2^53 and beyond (every value even), subnormals, extremes, neighbours of 1 — both signs
var corner64 = withSigns64([]float64{0, 1, 0.5, 2, 3, 4, 5, 1.5, 2.5, 0.25, 0.1, 1.0 / 3, 1023, 1024, 1075,
	4503599627370495.5, 4503599627370497, 9007199254740991, 9007199254740992, 9007199254740994, 9223372036854775808,
	math.MaxFloat64, math.SmallestNonzeroFloat64, math.Float64frombits(0x000FFFFFFFFFFFFF), math.Float64frombits(0x0010000000000000),
	math.Float64frombits(0x3FF0000000000001), math.Float64frombits(0x3FEFFFFFFFFFFFFF)})

var corner32 = withSigns32([]float32{0, 1, 0.5, 2, 3, 4, 5, 1.5, 2.5, 0.25, 0.1, 1.0 / 3, 127, 128, 150,
	8388607.5, 8388609, 16777215, 16777216, 16777218, 9223372036854775808,
	math.MaxFloat32, math.SmallestNonzeroFloat32, math.Float32frombits(0x007FFFFF), math.Float32frombits(0x00800000),
	math.Float32frombits(0x3F800001), math.Float32frombits(0x3F7FFFFF)})

var fpVias = map[string][]string{"fl": {"val", "typed", "meth", "meth1"}, "f64": {"val", "typed", "meth"}, "f32": {"val", "typed", "meth"}}

func gridPow() {
	id := 0
	next := func(in string) {
		hx.Emit(fmt.Sprintf("k%d", id), in, run(in))
		id++
	}
	for _, op := range []string{"pow", "mod"} {
		for _, ty := range []string{"fl", "f64"} {
			vs := fpVias[ty]
			for i, a := range corner64 {
				for _, b := range corner64 {
					next(fmt.Sprintf("fp %s %s %s %d %d", vs[(i+id)%len(vs)], ty, op, a, b))
				}
			}
		}
		vs := fpVias["f32"]
		for i, a := range corner32 {
			for _, b := range corner32 {
				next(fmt.Sprintf("fp %s f32 %s %d %d", vs[(i+id)%len(vs)], op, a, b))
			}
		}
	}
}

// operands for which `**` is finite and inexact, or sits on a case boundary
func genPow64(r *hx.Rng) uint64 {
	neg := uint64(0)
	if r.Chance(1, 3) {
		neg = 1 << 63
	}
	switch r.Below(8) {
	case 0:
		return hx.Pick(r, corner64)
	case 1: // small integers
		return math.Float64bits(float64(r.Range(0, 70))) | neg
	case 2: // quarters
		return math.Float64bits(float64(r.Range(0, 400))/4) | neg
	case 3: // neighbours of 1
		return uint64(int64(0x3FF0000000000000)+int64(r.Range(-40, 40))) | neg
	case 4: // integers around 2^52 .. 2^54, where non-integers and odd integers end
		return math.Float64bits(float64(uint64(1)<<uint(r.Range(51, 54)))+float64(r.Range(-5, 5))/2) | neg
	case 5: // moderate magnitudes
		return (r.Next() & 0x000FFFFFFFFFFFFF) | uint64(r.Range(1023-8, 1023+8))<<52 | neg
	case 6:
		return gen64(r)
	}
	return r.Next()
}

func genPow32(r *hx.Rng) uint32 {
	neg := uint32(0)
	if r.Chance(1, 3) {
		neg = 1 << 31
	}
	switch r.Below(8) {
	case 0:
		return hx.Pick(r, corner32)
	case 1:
		return math.Float32bits(float32(r.Range(0, 70))) | neg
	case 2:
		return math.Float32bits(float32(r.Range(0, 400))/4) | neg
	case 3:
		return uint32(int32(0x3F800000)+int32(r.Range(-40, 40))) | neg
	case 4:
		return math.Float32bits(float32(uint32(1)<<uint(r.Range(22, 25)))+float32(r.Range(-5, 5))/2) | neg
	case 5:
		return (uint32(r.Next()) & 0x007FFFFF) | uint32(r.Range(127-8, 127+8))<<23 | neg
	case 6:
		return gen32(r)
	}
	return uint32(r.Next())
}

func genPowInt(r *hx.Rng) *big.Int {
	switch r.Below(5) {
	case 0:
		return big.NewInt(int64(r.Range(-70, 70)))
	case 1:
		z := pow2(uint(r.Range(52, 64)))
		z.Add(z, big.NewInt(int64(r.Range(-2, 2))))
		if r.Chance(1, 2) {
			z.Neg(z)
		}
		return z
	case 2:
		return r.BoundaryInt()
	case 3: // beyond the binary64 range: converts to an infinity
		z := pow2(uint(r.Range(1020, 1030)))
		z.Add(z, big.NewInt(int64(r.Range(-1, 1))))
		if r.Chance(1, 2) {
			z.Neg(z)
		}
		return z
	}
	return r.BigBits(r.Range(1, 80))
}

var fOps = []string{"add", "sub", "mul", "div", "add", "sub", "mul", "div", "cmp", "lt", "le", "gt", "ge", "eq"}

func genFloat(r *hx.Rng, n int) {
	for i := 0; i < n; i++ {
		var in string
		switch c := r.Below(16); {
		case c < 4:
			ty := hx.Pick(r, []string{"fl", "f64"})
			in = fmt.Sprintf("f %s %s %d %d", ty, hx.Pick(r, fOps), gen64(r), gen64(r))
		case c < 8:
			in = fmt.Sprintf("f f32 %s %d %d", hx.Pick(r, fOps), gen32(r), gen32(r))
		case c < 11:
			ty := hx.Pick(r, []string{"fl", "f64"})
			in = fmt.Sprintf("fp %s %s %s %d %d", hx.Pick(r, fpVias[ty]), ty, hx.Pick(r, []string{"pow", "mod"}), genPow64(r), genPow64(r))
		case c < 13:
			in = fmt.Sprintf("fp %s f32 %s %d %d", hx.Pick(r, fpVias["f32"]), hx.Pick(r, []string{"pow", "mod"}), genPow32(r), genPow32(r))
		case c < 14:
			in = fmt.Sprintf("fpi %s %s %d %s", hx.Pick(r, []string{"val", "meth"}), hx.Pick(r, []string{"pow", "mod"}), genPow64(r), genPowInt(r))
		default:
			switch r.Below(7) {
			case 0:
				in = fmt.Sprintf("cv i2fl %s", clampTo(tyOf("i64"), r.BoundaryInt()))
			case 1:
				in = fmt.Sprintf("cv i642f64 %s", clampTo(tyOf("i64"), r.BigBits(64)))
			case 2:
				in = fmt.Sprintf("cv i2f32 %s", clampTo(tyOf("i64"), r.BigBits(r.Range(20, 64))))
			case 3:
				z := r.BigBits(r.Range(50, 1100))
				if r.Chance(1, 3) {
					z = r.BoundaryInt()
				}
				in = fmt.Sprintf("cv big2fl %s", z)
			case 4:
				in = fmt.Sprintf("cv fl2f32 %d", gen64(r))
			case 5:
				in = fmt.Sprintf("cv f322f64 %d", gen32(r))
			default:
				b := gen64(r)
				f := math.Float64frombits(b)
				if math.IsNaN(f) || math.IsInf(f, 0) {
					b = 0x4004000000000000 // 2.5: to_int of non-finite values is outside the property
				}
				in = fmt.Sprintf("cv fl2int %d", b)
			}
		}
		hx.Emit(fmt.Sprintf("g%d", i), in, run(in))
	}
}

func main() {
	o := hx.ParseFlags()
	defer hx.Flush()
	for i, in := range hx.ReadInputs(o.Input) {
		emitCase(fmt.Sprintf("c%d", i), in)
	}
	r := hx.NewRng(o.Seed)
	switch o.Extra {
	case "float":
		gridPow()
		genFloat(r, o.N)
	case "floatcases": // only the -input cases (used by the Elk program stream)
	default:
		genInt(r, o.N)
		if o.Tier == "thorough" {
			sweep8()
		}
	}
}
