// c24: correspondence stream c24.hist for ArrayList / ArrayTuple.
// A case is a history "item;item;..." over three registers. Every item is executed on real
// Elk values through the VM method wrappers (vm/array_list.go, vm/array_tuple.go, vm/tuple.go)
// or, for `appendat`, through the Go API; the observed result of every item is printed in
// the model's vocabulary, joined by '|'.
// -extra of      registers hold ArrayListOfValue / ArrayTupleOfValue
// -extra native  literals build NativeArrayList[SmallInt] / NativeArrayTuple[SmallInt]
package main

import (
	"fmt"
	"math/big"
	"os"
	"strconv"
	"strings"
	"syscall"
	"time"

	"verifharness/hx"

	"github.com/elk-language/elk/value"
	"github.com/elk-language/elk/vm"
)

const nilv = -1000003

var thread *vm.Thread
var native bool

func intVal(s string) value.Value {
	z, ok := new(big.Int).SetString(s, 10)
	if !ok {
		panic("bad int " + s)
	}
	if z.IsInt64() {
		return value.SmallInt(z.Int64()).ToValue()
	}
	return value.Ref(value.ToElkBigInt(z))
}

func elem(z int64) value.Value {
	if z == nilv {
		return value.Nil
	}
	return value.SmallInt(z).ToValue()
}

func parseVals(s string) []int64 {
	if s == "-" || s == "" {
		return nil
	}
	var out []int64
	for _, p := range strings.Split(s, ",") {
		z, err := strconv.ParseInt(p, 10, 64)
		if err != nil {
			panic(err)
		}
		out = append(out, z)
	}
	return out
}

func mkSeq(tup bool, vs []int64) value.Value {
	if native {
		es := make([]value.SmallInt, len(vs))
		for i, v := range vs {
			es[i] = value.SmallInt(v)
		}
		if tup {
			return value.Ref(value.NewNativeArrayTupleWithElements[value.SmallInt](0, es...))
		}
		return value.Ref(value.NewNativeArrayListWithElements[value.SmallInt](0, es...))
	}
	es := make([]value.Value, len(vs))
	for i, v := range vs {
		es[i] = elem(v)
	}
	if tup {
		return value.Ref(value.NewArrayTupleOfValueWithElements(0, es...))
	}
	return value.Ref(value.NewArrayListOfValueWithElements(0, es...))
}

func errCode(err value.Value) string {
	cls := err.Class()
	name := ""
	if cls != nil {
		name = cls.Name
	}
	switch {
	case strings.Contains(name, "IndexError"), strings.Contains(name, "OutOfRangeError"):
		return "err 3"
	default:
		return "err 2 " + name
	}
}

func isTuple(v value.Value) bool {
	if !v.IsReference() {
		return false
	}
	_, isList := v.AsReference().(value.ArrayList)
	return !isList
}

// elements via the public iteration protocol: iter, then next until :stop_iteration
func showSeq(v value.Value) string {
	if !v.IsReference() {
		return "other " + v.Inspect()
	}
	t, ok := v.AsReference().(value.ArrayTuple)
	if !ok {
		return "other " + v.Inspect()
	}
	var parts []string
	for _, e := range t.Elements() {
		parts = append(parts, showElem(e))
	}
	k := "L"
	if isTuple(v) {
		k = "T"
	}
	return k + "[" + strings.Join(parts, ",") + "]"
}

func showElem(e value.Value) string {
	if e.IsNil() {
		return strconv.Itoa(nilv)
	}
	if e.IsSmallInt() {
		return strconv.FormatInt(int64(e.AsSmallInt()), 10)
	}
	return "?" + e.Inspect()
}

func call(name string, args ...value.Value) (value.Value, value.Value) {
	return thread.CallMethodByName(value.ToSymbol(name), args...)
}

func mkRange(kind, s, e string) value.Value {
	var sv, ev value.Value
	if s != "_" {
		sv = intVal(s)
	}
	if e != "_" {
		ev = intVal(e)
	}
	switch kind {
	case "cc":
		return value.Ref(value.NewClosedRange(sv, ev))
	case "oc":
		return value.Ref(value.NewLeftOpenRange(sv, ev))
	case "co":
		return value.Ref(value.NewRightOpenRange(sv, ev))
	case "oo":
		return value.Ref(value.NewOpenRange(sv, ev))
	case "bc":
		return value.Ref(value.NewBeginlessClosedRange(ev))
	case "bo":
		return value.Ref(value.NewBeginlessOpenRange(ev))
	case "ec":
		return value.Ref(value.NewEndlessClosedRange(sv))
	case "eo":
		return value.Ref(value.NewEndlessOpenRange(sv))
	}
	panic("range kind " + kind)
}

type machine struct{ regs [3]value.Value }

func (m *machine) reg(s string) value.Value {
	i, _ := strconv.Atoi(s)
	return m.regs[i]
}

func unitRes(_ value.Value, err value.Value) string {
	if !err.IsUndefined() {
		return errCode(err)
	}
	return "ok"
}

func (m *machine) mutable(r string) bool { return !isTuple(m.reg(r)) }

func (m *machine) item(f []string) string {
	switch f[0] {
	case "new":
		d, _ := strconv.Atoi(f[1])
		m.regs[d] = mkSeq(f[2] == "T", parseVals(f[3]))
		return "ok"
	case "copy":
		d, _ := strconv.Atoi(f[1])
		src := m.reg(f[2])
		var vs []int64
		for _, e := range src.AsReference().(value.ArrayTuple).Elements() {
			if e.IsNil() {
				vs = append(vs, nilv)
			} else {
				vs = append(vs, int64(e.AsSmallInt()))
			}
		}
		m.regs[d] = mkSeq(isTuple(src), vs)
		return "ok"
	case "concat":
		d, _ := strconv.Atoi(f[1])
		v, err := call("+", m.reg(f[2]), m.reg(f[3]))
		if !err.IsUndefined() {
			return errCode(err)
		}
		m.regs[d] = v
		return "ok"
	case "repeat":
		d, _ := strconv.Atoi(f[1])
		v, err := call("*", m.reg(f[2]), intVal(f[3]))
		if !err.IsUndefined() {
			return errCode(err)
		}
		m.regs[d] = v
		return "ok"
	case "len":
		v, err := call("length", m.reg(f[1]))
		if !err.IsUndefined() {
			return errCode(err)
		}
		return "ok " + showElem(v)
	case "get":
		v, err := call("[]", m.reg(f[1]), intVal(f[2]))
		if !err.IsUndefined() {
			return errCode(err)
		}
		return "ok " + showElem(v)
	case "slice":
		v, err := call("slice", m.reg(f[1]), mkRange(f[2], f[3], f[4]))
		if !err.IsUndefined() {
			return errCode(err)
		}
		return "ok " + showSeq(v)
	case "eq":
		v, err := call("==", m.reg(f[1]), m.reg(f[2]))
		if !err.IsUndefined() {
			return errCode(err)
		}
		return "ok " + strconv.FormatBool(value.Truthy(v))
	case "contains":
		v, err := call("contains", m.reg(f[1]), intVal(f[2]))
		if !err.IsUndefined() {
			return errCode(err)
		}
		return "ok " + strconv.FormatBool(value.Truthy(v))
	case "iter":
		self := m.reg(f[1])
		it, err := call("iter", self)
		if !err.IsUndefined() {
			return errCode(err)
		}
		var parts []string
		for n := 0; n < 1000000; n++ {
			e, err := call("next", it)
			if !err.IsUndefined() {
				if err.IsInlineSymbol() || strings.Contains(err.Inspect(), "stop_iteration") {
					break
				}
				return errCode(err)
			}
			parts = append(parts, showElem(e))
		}
		k := "L"
		if isTuple(self) {
			k = "T"
		}
		return "ok " + k + "[" + strings.Join(parts, ",") + "]"
	case "dump":
		return showSeq(m.regs[0]) + showSeq(m.regs[1]) + showSeq(m.regs[2])
	}
	// mutations: tuples have no such methods (the type checker rejects them)
	if !m.mutable(f[1]) {
		return "err 2"
	}
	self := m.reg(f[1])
	switch f[0] {
	case "push":
		return unitRes(call("<<", self, intVal(f[2])))
	case "append":
		args := []value.Value{self}
		var rest []value.Value
		for _, v := range parseVals(f[2]) {
			rest = append(rest, elem(v))
		}
		// `append(*values)`: the rest parameter arrives as one collection
		args = append(args, value.Ref(value.NewArrayTupleOfValueWithElements(0, rest...)))
		return unitRes(call("append", args...))
	case "set":
		return unitRes(call("[]=", self, intVal(f[2]), intVal(f[3])))
	case "pop":
		v, err := call("pop", self)
		if !err.IsUndefined() {
			return errCode(err)
		}
		return "ok " + showElem(v)
	case "remove":
		v, err := call("remove", self, intVal(f[2]))
		if !err.IsUndefined() {
			return errCode(err)
		}
		return "ok " + strconv.FormatBool(value.Truthy(v))
	case "removeat":
		return unitRes(call("remove_at", self, intVal(f[2])))
	case "grow":
		return unitRes(call("grow", self, intVal(f[2])))
	case "clear":
		return unitRes(call("clear", self))
	case "appendat":
		l, ok := self.AsReference().(*value.ArrayListOfValue)
		if !ok {
			return "err 2"
		}
		err := l.AppendAt(intVal(f[2]), intVal(f[3]))
		return unitRes(value.Undefined, err)
	}
	return "bad-item " + f[0]
}

func run(input string) string {
	m := &machine{}
	for i := range m.regs {
		m.regs[i] = mkSeq(false, nil)
	}
	var out []string
	for _, it := range strings.Split(input, ";") {
		f := strings.Fields(it)
		if len(f) == 0 {
			continue
		}
		res, timedOut := guarded(hazardOf(m, f), func() string { return m.item(f) })
		out = append(out, res)
		if timedOut {
			// the call is still spinning in its goroutine: the registers are unusable
			break
		}
		// property evaluated on the implementation itself: capacity never below length
		for _, r := range m.regs {
			if l, ok := r.AsReference().(value.ArrayList); ok && l.Capacity() < l.Length() {
				out[len(out)-1] += " CAP<LEN"
			}
		}
	}
	return strings.Join(out, "|")
}

var hung = map[string]bool{}

// guarded runs one item and reports "timeout" for a call that does not return. Wall-clock time
// alone says nothing on a loaded machine (a starved process looks like a hung one), so the
// verdict is based on the CPU time this process burns while the call is pending: a spinning call
// accumulates CPU time at whatever share of a core it gets. "timeout" is answered when the
// process used guardCPU of CPU time since the item started, or (for a call that blocks without
// spinning) when guardWall elapsed. C24_GUARD_CPU_MS / C24_GUARD_WALL_MS override the limits
// (the Python driver re-runs every history that reported a timeout alone with larger limits).
// The spinning goroutine cannot be stopped, so the hazard class (item kind) that hung is
// remembered and answered "timeout" without calling when the same hazard shows up again.
var guardCPU = envMillis("C24_GUARD_CPU_MS", 5000)
var guardWall = envMillis("C24_GUARD_WALL_MS", 120000)

func envMillis(name string, def int) time.Duration {
	if v, err := strconv.Atoi(os.Getenv(name)); err == nil && v > 0 {
		return time.Duration(v) * time.Millisecond
	}
	return time.Duration(def) * time.Millisecond
}

func cpuTime() time.Duration {
	var ru syscall.Rusage
	if err := syscall.Getrusage(syscall.RUSAGE_SELF, &ru); err != nil {
		return 0
	}
	return time.Duration(ru.Utime.Nano() + ru.Stime.Nano())
}

func guarded(hazard string, f func() string) (string, bool) {
	if hazard != "" && hung[hazard] {
		return "timeout", true
	}
	ch := make(chan string, 1)
	go func() { ch <- canonPanic(hx.Guard(f)) }()
	// fast path: nearly every item returns within microseconds
	select {
	case r := <-ch:
		return r, false
	case <-time.After(200 * time.Millisecond):
	}
	cpu0, t0 := cpuTime(), time.Now()
	tick := time.NewTicker(100 * time.Millisecond)
	defer tick.Stop()
	for {
		select {
		case r := <-ch:
			return r, false
		case <-tick.C:
			if cpuTime()-cpu0 >= guardCPU || time.Since(t0) >= guardWall {
				hung[hazard] = true
				return "timeout", true
			}
		}
	}
}

// Go panics in the model's vocabulary
func canonPanic(r string) string {
	if !strings.HasPrefix(r, "panic ") {
		return r
	}
	switch {
	case strings.Contains(r, "makeslice"):
		return "panic 104"
	case strings.Contains(r, "index out of range"), strings.Contains(r, "slice bounds out of range"):
		return "panic 102"
	case strings.Contains(r, "nil pointer dereference"), strings.Contains(r, "invalid method"):
		return "panic 103"
	}
	return r
}

// the one hazard seen so far: `*` with a huge count on an empty receiver spins
func hazardOf(m *machine, f []string) string {
	if z, ok := new(big.Int).SetString(f[len(f)-1], 10); f[0] == "repeat" && ok && z.IsInt64() && z.Int64() >= 1000000 {
		if t, ok := m.reg(f[2]).AsReference().(value.ArrayTuple); ok && t.Length() == 0 {
			return "repeat-empty-huge"
		}
	}
	return ""
}

// ---------------- generator ----------------

type gen struct {
	r    *hx.Rng
	lens [3]int // generator's own estimate of the lengths (only steers argument choice)
	tup  [3]bool
}

func (g *gen) vals(n int) string {
	if n == 0 {
		return "-"
	}
	p := make([]string, n)
	for i := range p {
		p[i] = strconv.Itoa(g.r.Range(0, 4))
	}
	return strings.Join(p, ",")
}

func (g *gen) idx(n int) string {
	switch g.r.Below(20) {
	case 0:
		return hx.Pick(g.r, []string{"9223372036854775807", "-9223372036854775808", "9223372036854775808", "-9223372036854775809", "18446744073709551616", "4294967296", "-4294967296"})
	default:
		return strconv.Itoa(g.r.Range(-n-2, n+2))
	}
}

func (g *gen) anyReg() int { return g.r.Below(3) }

func (g *gen) query() string {
	r := g.anyReg()
	n := g.lens[r]
	switch g.r.Below(10) {
	case 0:
		return fmt.Sprintf("len %d", r)
	case 1, 2, 3:
		return fmt.Sprintf("get %d %s", r, g.idx(n))
	case 4, 5, 6:
		kind := hx.Pick(g.r, []string{"cc", "oc", "co", "oo", "bc", "bo", "ec", "eo"})
		s, e := g.idx(n), g.idx(n)
		if kind[0] == 'b' {
			s = "_"
		}
		if kind[0] == 'e' {
			e = "_"
		}
		return fmt.Sprintf("slice %d %s %s %s", r, kind, s, e)
	case 7:
		return fmt.Sprintf("eq %d %d", r, g.anyReg())
	case 8:
		return fmt.Sprintf("contains %d %d", r, g.r.Range(0, 5))
	default:
		return fmt.Sprintf("iter %d", r)
	}
}

func (g *gen) op(allowAppendAt bool) string {
	r := g.anyReg()
	n := g.lens[r]
	switch g.r.Below(26) {
	case 0:
		k := g.r.Range(0, 5)
		t := g.r.Chance(1, 3)
		g.lens[r], g.tup[r] = k, t
		kind := "L"
		if t {
			kind = "T"
		}
		return fmt.Sprintf("new %d %s %s", r, kind, g.vals(k))
	case 1:
		a := g.anyReg()
		g.lens[r], g.tup[r] = g.lens[a], g.tup[a]
		return fmt.Sprintf("copy %d %d", r, a)
	case 2, 3, 4, 5:
		if !g.tup[r] {
			g.lens[r]++
		}
		return fmt.Sprintf("push %d %d", r, g.r.Range(0, 4))
	case 6, 7:
		k := g.r.Range(0, 4)
		if !g.tup[r] {
			g.lens[r] += k
		}
		return fmt.Sprintf("append %d %s", r, g.vals(k))
	case 8, 9, 10:
		return fmt.Sprintf("set %d %s %d", r, g.idx(n), g.r.Range(0, 4))
	case 11, 12:
		if !g.tup[r] && n > 0 {
			g.lens[r]--
		}
		return fmt.Sprintf("pop %d", r)
	case 13, 14:
		return fmt.Sprintf("remove %d %d", r, g.r.Range(0, 4))
	case 15, 16, 17:
		return fmt.Sprintf("removeat %d %s", r, g.idx(n))
	case 18:
		arg := strconv.Itoa(g.r.Range(-2, 6))
		if g.r.Chance(1, 6) {
			arg = hx.Pick(g.r, []string{"9223372036854775807", "4611686018427387904", "-9223372036854775808", "18446744073709551616", "-18446744073709551616"})
		}
		return fmt.Sprintf("grow %d %s", r, arg)
	case 19:
		if g.r.Chance(1, 3) {
			if !g.tup[r] {
				g.lens[r] = 0
			}
			return fmt.Sprintf("clear %d", r)
		}
		fallthrough
	case 20, 21:
		a, b := g.anyReg(), g.anyReg()
		if g.lens[a]+g.lens[b] > 60 {
			return fmt.Sprintf("len %d", r)
		}
		g.lens[r], g.tup[r] = g.lens[a]+g.lens[b], g.tup[a] && g.tup[b]
		return fmt.Sprintf("concat %d %d %d", r, a, b)
	case 22, 23:
		a := g.anyReg()
		k := g.r.Range(-1, 4)
		if g.r.Chance(1, 6) {
			return fmt.Sprintf("repeat %d %d %s", r, a, hx.Pick(g.r, []string{"9223372036854775807", "4611686018427387904", "9223372036854775808", "-9223372036854775808", "-5", "18446744073709551616"}))
		}
		if g.lens[a]*k > 60 {
			k = 1
		}
		if k >= 0 {
			g.lens[r], g.tup[r] = g.lens[a]*k, g.tup[a]
		}
		return fmt.Sprintf("repeat %d %d %d", r, a, k)
	default:
		if allowAppendAt && g.r.Chance(1, 2) {
			i := g.r.Range(-1, n+3)
			if !g.tup[r] && i >= n {
				g.lens[r] = i + 1
			}
			return fmt.Sprintf("appendat %d %d %d", r, i, g.r.Range(0, 4))
		}
		return g.query()
	}
}

func (g *gen) history(maxOps int, allowAppendAt bool) string {
	g.lens = [3]int{}
	g.tup = [3]bool{}
	var items []string
	n := g.r.Range(1, maxOps)
	for i := 0; i < n; i++ {
		items = append(items, g.op(allowAppendAt))
		items = append(items, "dump")
		for q := g.r.Below(3); q > 0; q-- {
			items = append(items, g.query())
		}
	}
	return strings.Join(items, ";")
}

func main() {
	o := hx.ParseFlags()
	defer hx.Flush()
	native = o.Extra == "native"
	thread = vm.New()
	for i, in := range hx.ReadInputs(o.Input) {
		hx.Emit(fmt.Sprintf("c%d", i), in, run(in))
	}
	g := &gen{r: hx.NewRng(o.Seed)}
	for i := 0; i < o.N; i++ {
		maxOps := 80
		if i%4 != 0 {
			maxOps = 12
		}
		in := g.history(maxOps, !native)
		hx.Emit(fmt.Sprintf("g%d", i), in, run(in))
	}
}
