package main

import (
	"fmt"
	"strconv"
	"strings"

	"verifharness/hx"

	"github.com/elk-language/elk/parser/ast"
	"github.com/elk-language/elk/position"
	"github.com/elk-language/elk/token"
)

// ---- operator discovery (from the real parser) and table regeneration

type binOp struct {
	typ  token.Type
	lex  string
	kind int // 0 BinaryExpressionNode, 1 LogicalExpressionNode, 2 RangeLiteralNode
}
type unOp struct {
	typ token.Type
	lex string
}

var bops []binOp
var uops []unOp

var L0 = position.ZeroLocation

func isOperatorLexeme(s string) bool {
	if s == "" || s == "UNKNOWN" {
		return false
	}
	for _, r := range s {
		if r == '_' || (r >= 'a' && r <= 'z') || (r >= 'A' && r <= 'Z') || (r >= '0' && r <= '9') || r == ' ' {
			return false
		}
	}
	return true
}

func safeName(t token.Type) (s string) {
	defer func() {
		if recover() != nil {
			s = ""
		}
	}()
	s = t.Name()
	if s == "UNKNOWN" {
		return ""
	}
	return s
}

func singleExpr(src string) ast.ExpressionNode {
	p, ok, _ := parseOK(src)
	if !ok || p == nil || len(p.Body) != 1 {
		return nil
	}
	es, ok := p.Body[0].(*ast.ExpressionStatementNode)
	if !ok {
		return nil
	}
	return es.Expression
}

func isAtomNamed(n ast.ExpressionNode, name string) bool {
	id, ok := n.(*ast.PublicIdentifierNode)
	return ok && id.Value == name
}

// discoverOps: every token type T such that `x0 T x1` parses to a binary / logical / range
// node with operator T over the two identifiers, and every T such that `T x0` parses to a
// UnaryExpressionNode. The operator set therefore follows the parser.
func discoverOps() {
	bops, uops = nil, nil
	for t := token.Type(0); t < 600; t++ {
		lex := safeName(t)
		if !isOperatorLexeme(lex) {
			continue
		}
		switch n := singleExpr("x0 " + lex + " x1").(type) {
		case *ast.BinaryExpressionNode:
			if n.Op.Type == t && isAtomNamed(n.Left, "x0") && isAtomNamed(n.Right, "x1") {
				bops = append(bops, binOp{t, lex, 0})
			}
		case *ast.LogicalExpressionNode:
			if n.Op.Type == t && isAtomNamed(n.Left, "x0") && isAtomNamed(n.Right, "x1") {
				bops = append(bops, binOp{t, lex, 1})
			}
		case *ast.RangeLiteralNode:
			if n.Op.Type == t && isAtomNamed(n.Start, "x0") && n.End != nil && isAtomNamed(n.End, "x1") {
				bops = append(bops, binOp{t, lex, 2})
			}
		}
		if n, ok := singleExpr(lex + " x0").(*ast.UnaryExpressionNode); ok && n.Op.Type == t && isAtomNamed(n.Right, "x0") {
			uops = append(uops, unOp{t, lex})
		}
	}
}

func bopIndex(kind int, t token.Type) int {
	for i, o := range bops {
		if o.kind == kind && o.typ == t {
			return i
		}
	}
	return -1
}
func uopIndex(t token.Type) int {
	for i, o := range uops {
		if o.typ == t {
			return i
		}
	}
	return -1
}

// ---- trees in Polish notation: "B<i> l r" | "U<i> x" | "x<k>"

type tree struct {
	k    byte // 'a','U','B'
	i    int
	l, r *tree
}

func parsePolish(f []string, pos *int) *tree {
	if *pos >= len(f) {
		return nil
	}
	s := f[*pos]
	*pos++
	n, err := strconv.Atoi(s[1:])
	if err != nil {
		return nil
	}
	switch s[0] {
	case 'x':
		return &tree{k: 'a', i: n}
	case 'U':
		x := parsePolish(f, pos)
		if x == nil || n >= len(uops) {
			return nil
		}
		return &tree{k: 'U', i: n, l: x}
	case 'B':
		l := parsePolish(f, pos)
		r := parsePolish(f, pos)
		if l == nil || r == nil || n >= len(bops) {
			return nil
		}
		return &tree{k: 'B', i: n, l: l, r: r}
	}
	return nil
}

func (t *tree) polish() string {
	switch t.k {
	case 'a':
		return fmt.Sprintf("x%d", t.i)
	case 'U':
		return fmt.Sprintf("U%d %s", t.i, t.l.polish())
	}
	return fmt.Sprintf("B%d %s %s", t.i, t.l.polish(), t.r.polish())
}

// build the real AST node
func (t *tree) node() ast.ExpressionNode {
	switch t.k {
	case 'a':
		return ast.NewPublicIdentifierNode(L0, fmt.Sprintf("x%d", t.i))
	case 'U':
		return ast.NewUnaryExpressionNode(L0, token.New(L0, uops[t.i].typ), t.l.node())
	}
	o := bops[t.i]
	switch o.kind {
	case 0:
		return ast.NewBinaryExpressionNode(L0, token.New(L0, o.typ), t.l.node(), t.r.node())
	case 1:
		return ast.NewLogicalExpressionNode(L0, token.New(L0, o.typ), t.l.node(), t.r.node())
	}
	return ast.NewRangeLiteralNode(L0, token.New(L0, o.typ), t.l.node(), t.r.node())
}

// read a parsed node back; "" when it is outside the modelled forms
func readBack(n ast.ExpressionNode) string {
	switch e := n.(type) {
	case *ast.PublicIdentifierNode:
		if len(e.Value) >= 2 && e.Value[0] == 'x' {
			if _, err := strconv.Atoi(e.Value[1:]); err == nil {
				return e.Value
			}
		}
		return ""
	case *ast.UnaryExpressionNode:
		i := uopIndex(e.Op.Type)
		x := readBack(e.Right)
		if i < 0 || x == "" {
			return ""
		}
		return fmt.Sprintf("U%d %s", i, x)
	case *ast.BinaryExpressionNode:
		return readBin(bopIndex(0, e.Op.Type), e.Left, e.Right)
	case *ast.LogicalExpressionNode:
		return readBin(bopIndex(1, e.Op.Type), e.Left, e.Right)
	case *ast.RangeLiteralNode:
		if e.End == nil || e.Start == nil {
			return ""
		}
		return readBin(bopIndex(2, e.Op.Type), e.Start, e.End)
	}
	return ""
}

func readBin(i int, l, r ast.ExpressionNode) string {
	ls, rs := readBack(l), readBack(r)
	if i < 0 || ls == "" || rs == "" {
		return ""
	}
	return fmt.Sprintf("B%d %s %s", i, ls, rs)
}

func parseToPolish(src string) string {
	e := singleExpr(src)
	if e == nil {
		return "ERR"
	}
	s := readBack(e)
	if s == "" {
		return "ERR"
	}
	return s
}

// ---- table regeneration

func precOfBin(i int) uint8 {
	t := &tree{k: 'B', i: i, l: &tree{k: 'a'}, r: &tree{k: 'a', i: 1}}
	return ast.ExpressionPrecedence(t.node())
}

// effective parenthesisation rule of the operator's printer at equal precedence, observed
// on the real String(): which child of (x0 o x1) o x2 / x0 o (x1 o x2) is wrapped.
func ruleOfBin(i int) string {
	a := func(k int) *tree { return &tree{k: 'a', i: k} }
	left := (&tree{k: 'B', i: i, l: &tree{k: 'B', i: i, l: a(0), r: a(1)}, r: a(2)}).node().String()
	right := (&tree{k: 'B', i: i, l: a(0), r: &tree{k: 'B', i: i, l: a(1), r: a(2)}}).node().String()
	lp, rp := strings.HasPrefix(left, "("), strings.HasSuffix(right, ")")
	switch {
	case !lp && rp:
		return "RL"
	case lp && !rp:
		return "RR"
	case lp && rp:
		return "RN"
	}
	return "RA" // neither side wrapped: ambiguous printer
}

func spacedBin(i int) bool {
	t := &tree{k: 'B', i: i, l: &tree{k: 'a'}, r: &tree{k: 'a', i: 1}}
	return strings.Contains(t.node().String(), " ")
}

func pmBB(i, j int) string {
	src := fmt.Sprintf("x0 %s x1 %s x2", bops[i].lex, bops[j].lex)
	switch parseToPolish(src) {
	case fmt.Sprintf("B%d B%d x0 x1 x2", j, i):
		return "Reduce"
	case fmt.Sprintf("B%d x0 B%d x1 x2", i, j):
		return "Shift"
	}
	return "Error"
}
func pmUB(u, o int) string {
	src := fmt.Sprintf("%s x0 %s x1", uops[u].lex, bops[o].lex)
	switch parseToPolish(src) {
	case fmt.Sprintf("B%d U%d x0 x1", o, u):
		return "Reduce"
	case fmt.Sprintf("U%d B%d x0 x1", u, o):
		return "Shift"
	}
	return "Error"
}
func pmBU(o, u int) bool {
	src := fmt.Sprintf("x0 %s %s x1", bops[o].lex, uops[u].lex)
	return parseToPolish(src) == fmt.Sprintf("B%d x0 U%d x1", o, u)
}
func pmUU(u1, u2 int) bool {
	src := fmt.Sprintf("%s %s x0", uops[u1].lex, uops[u2].lex)
	return parseToPolish(src) == fmt.Sprintf("U%d U%d x0", u1, u2)
}

func coqList(xs []string) string { return "[" + strings.Join(xs, "; ") + "]" }

// emitTables prints Gen/C05_PrecTables.v, then a line "==== ops", then the operator list
// ("B <i> <kind> <spaced> <lexeme>" / "U <i> <lexeme>") used by the drivers for rendering.
func emitTables() {
	var w strings.Builder
	w.WriteString("(* REGENERATED on every run by harness/cmd/c05 from /repo's parser and ast packages. Do not edit. *)\n")
	w.WriteString("From Coq Require Import NArith List Bool.\nImport ListNotations.\nFrom Elk Require Import Model.C05_Prec.\nOpen Scope N_scope.\n\n")
	var precs, rules, spaced, uprecs []string
	ambiguous := false
	for i := range bops {
		precs = append(precs, fmt.Sprint(precOfBin(i)))
		r := ruleOfBin(i)
		if r == "RA" {
			ambiguous = true
			r = "RL"
		}
		rules = append(rules, r)
		spaced = append(spaced, fmt.Sprint(spacedBin(i)))
	}
	for u := range uops {
		t := &tree{k: 'U', i: u, l: &tree{k: 'a'}}
		uprecs = append(uprecs, fmt.Sprint(ast.ExpressionPrecedence(t.node())))
	}
	fmt.Fprintf(&w, "(* binary operators: %s *)\n", opNames())
	fmt.Fprintf(&w, "Definition bprec_l : list N := %s.\n", coqList(precs))
	fmt.Fprintf(&w, "Definition brule_l : list rule := %s.\n", coqList(rules))
	fmt.Fprintf(&w, "Definition spaced_l : list bool := %s.\n", coqList(spaced))
	fmt.Fprintf(&w, "Definition uprec_l : list N := %s.\n", coqList(uprecs))
	var rows []string
	for i := range bops {
		var row []string
		for j := range bops {
			row = append(row, pmBB(i, j))
		}
		rows = append(rows, coqList(row))
	}
	fmt.Fprintf(&w, "Definition pm_bb_l : list (list action) :=\n  [%s].\n", strings.Join(rows, ";\n   "))
	rows = nil
	for u := range uops {
		var row []string
		for o := range bops {
			row = append(row, pmUB(u, o))
		}
		rows = append(rows, coqList(row))
	}
	fmt.Fprintf(&w, "Definition pm_ub_l : list (list action) :=\n  [%s].\n", strings.Join(rows, ";\n   "))
	rows = nil
	for o := range bops {
		var row []string
		for u := range uops {
			row = append(row, fmt.Sprint(pmBU(o, u)))
		}
		rows = append(rows, coqList(row))
	}
	fmt.Fprintf(&w, "Definition pm_bu_l : list (list bool) :=\n  [%s].\n", strings.Join(rows, ";\n   "))
	rows = nil
	for u1 := range uops {
		var row []string
		for u2 := range uops {
			row = append(row, fmt.Sprint(pmUU(u1, u2)))
		}
		rows = append(rows, coqList(row))
	}
	fmt.Fprintf(&w, "Definition pm_uu_l : list (list bool) :=\n  [%s].\n", strings.Join(rows, ";\n   "))
	atom := ast.ExpressionPrecedence(ast.NewPublicIdentifierNode(L0, "x0"))
	fmt.Fprintf(&w, "\nDefinition ambiguous_printer : bool := %v.\n", ambiguous)
	fmt.Fprintf(&w, "Definition tables : Tables :=\n  mkTables %d %d (lookup bprec_l 0) (lookup brule_l RL) (lookup spaced_l true) (lookup uprec_l 0) %d\n", len(bops), len(uops), atom)
	w.WriteString("    (lookup2 pm_bb_l Error) (lookup2 pm_ub_l Error) (lookup2 pm_bu_l false) (lookup2 pm_uu_l false).\n")
	fmt.Print(w.String())
	fmt.Println("==== ops")
	for i, o := range bops {
		fmt.Printf("B %d %d %v %s\n", i, o.kind, spacedBin(i), o.lex)
	}
	for i, o := range uops {
		fmt.Printf("U %d %s\n", i, o.lex)
	}
}

func opNames() string {
	var s []string
	for i, o := range bops {
		s = append(s, fmt.Sprintf("%d=%s", i, strings.ReplaceAll(o.lex, "*", "STAR")))
	}
	for i, o := range uops {
		s = append(s, fmt.Sprintf("u%d=%s", i, strings.ReplaceAll(o.lex, "*", "STAR")))
	}
	return strings.Join(s, " ")
}

// ---- c05.expr cases

// observed for "tree <polish>": printed \x1f reparsed-polish|ERR
func evalTree(f []string) string {
	pos := 0
	t := parsePolish(f, &pos)
	if t == nil || pos != len(f) {
		return "bad-input"
	}
	s, ok := printNode(t.node())
	if !ok {
		return "PANIC " + s
	}
	back := parseToPolish(s)
	if back == t.polish() {
		return s + "\x1f" + back
	}
	// the property fails on this tree: name the smallest failing subtree as well
	best := t
	var walk func(x *tree)
	walk = func(x *tree) {
		if x == nil || x.k == 'a' {
			return
		}
		if ps, ok := printNode(x.node()); !ok || parseToPolish(ps) != x.polish() {
			if len(x.polish()) < len(best.polish()) {
				best = x
			}
		}
		walk(x.l)
		walk(x.r)
	}
	walk(t)
	return s + "\x1f" + back + "\x1f" + best.polish()
}

// observed for "toks <symbols>": parse result of the symbols rendered with single spaces
func evalToks(f []string) string {
	var parts []string
	for _, s := range f {
		switch s[0] {
		case '(', ')':
			parts = append(parts, s)
		case 'x':
			parts = append(parts, s)
		case 'U':
			n, _ := strconv.Atoi(s[1:])
			parts = append(parts, uops[n].lex)
		case 'B':
			n, _ := strconv.Atoi(s[1:])
			parts = append(parts, bops[n].lex)
		}
	}
	return parseToPolish(strings.Join(parts, " "))
}

func evalExprCase(in string) string {
	f := strings.Fields(in)
	if len(f) < 2 {
		return "bad-input"
	}
	return hx.Guard(func() string {
		if f[0] == "tree" {
			return evalTree(f[1:])
		}
		return evalToks(f[1:])
	})
}

func randTree(r *hx.Rng, depth int) *tree {
	if depth <= 0 || r.Chance(1, 4) {
		return &tree{k: 'a', i: r.Below(4)}
	}
	if r.Chance(1, 4) && len(uops) > 0 {
		return &tree{k: 'U', i: r.Below(len(uops)), l: randTree(r, depth-1)}
	}
	return &tree{k: 'B', i: r.Below(len(bops)), l: randTree(r, depth-1), r: randTree(r, depth-1)}
}

// infix symbols with parentheses placed at random (not by the printer's rule)
func (t *tree) randInfix(r *hx.Rng, out *[]string) {
	switch t.k {
	case 'a':
		*out = append(*out, fmt.Sprintf("x%d", t.i))
	case 'U':
		*out = append(*out, fmt.Sprintf("U%d", t.i))
		t.l.randWrapped(r, out)
	default:
		t.l.randWrapped(r, out)
		*out = append(*out, fmt.Sprintf("B%d", t.i))
		t.r.randWrapped(r, out)
	}
}
func (t *tree) randWrapped(r *hx.Rng, out *[]string) {
	if t.k != 'a' && r.Chance(1, 3) {
		*out = append(*out, "(")
		t.randInfix(r, out)
		*out = append(*out, ")")
		return
	}
	t.randInfix(r, out)
}

func runExpr(o *hx.Opts) {
	id := 0
	emit := func(in string) {
		hx.Emit(fmt.Sprintf("e%d", id), in, evalExprCase(in))
		id++
	}
	for _, in := range hx.ReadInputs(o.Input) {
		emit(in)
	}
	a := func(k int) *tree { return &tree{k: 'a', i: k} }
	// exhaustive: every ordered operator pair in every nesting
	for i := range bops {
		for j := range bops {
			emit("tree " + (&tree{k: 'B', i: j, l: &tree{k: 'B', i: i, l: a(0), r: a(1)}, r: a(2)}).polish())
			emit("tree " + (&tree{k: 'B', i: i, l: a(0), r: &tree{k: 'B', i: j, l: a(1), r: a(2)}}).polish())
			emit(fmt.Sprintf("toks x0 B%d x1 B%d x2", i, j))
		}
		for u := range uops {
			emit("tree " + (&tree{k: 'U', i: u, l: &tree{k: 'B', i: i, l: a(0), r: a(1)}}).polish())
			emit("tree " + (&tree{k: 'B', i: i, l: &tree{k: 'U', i: u, l: a(0)}, r: a(1)}).polish())
			emit("tree " + (&tree{k: 'B', i: i, l: a(0), r: &tree{k: 'U', i: u, l: a(1)}}).polish())
			emit(fmt.Sprintf("toks U%d x0 B%d x1", u, i))
			emit(fmt.Sprintf("toks x0 B%d U%d x1", i, u))
		}
	}
	for u1 := range uops {
		for u2 := range uops {
			emit("tree " + (&tree{k: 'U', i: u1, l: &tree{k: 'U', i: u2, l: a(0)}}).polish())
		}
	}
	if o.Tier == "thorough" {
		// every operator triple, left- and right-nested and mixed
		for i := range bops {
			for j := range bops {
				for k := range bops {
					emit("tree " + (&tree{k: 'B', i: k, l: &tree{k: 'B', i: j, l: &tree{k: 'B', i: i, l: a(0), r: a(1)}, r: a(2)}, r: a(3)}).polish())
					emit("tree " + (&tree{k: 'B', i: i, l: a(0), r: &tree{k: 'B', i: j, l: a(1), r: &tree{k: 'B', i: k, l: a(2), r: a(3)}}}).polish())
					emit("tree " + (&tree{k: 'B', i: i, l: a(0), r: &tree{k: 'B', i: k, l: &tree{k: 'B', i: j, l: a(1), r: a(2)}, r: a(3)}}).polish())
					emit(fmt.Sprintf("toks x0 B%d x1 B%d x2 B%d x3", i, j, k))
				}
			}
		}
	}
	r := hx.NewRng(o.Seed)
	for n := 0; n < o.N; n++ {
		t := randTree(r, r.Range(1, 6))
		if n%3 == 2 {
			var syms []string
			t.randInfix(r, &syms)
			emit("toks " + strings.Join(syms, " "))
		} else {
			emit("tree " + t.polish())
		}
	}
}
