package main

import (
	"fmt"
	"reflect"
	"strings"

	"github.com/elk-language/elk/parser"
	"github.com/elk-language/elk/parser/ast"
)

// dump renders a syntax tree structurally, ignoring source locations, inferred types and
// caches (fields of package position / types, fields named typ/static/Method/State).
// Two trees are "structurally identical ignoring locations" iff their dumps are equal.
func dump(n any) string {
	var b strings.Builder
	dumpValue(&b, reflect.ValueOf(n), 0)
	return b.String()
}

func skipType(t reflect.Type) bool {
	for t.Kind() == reflect.Pointer {
		t = t.Elem()
	}
	p := t.PkgPath()
	return strings.HasSuffix(p, "/position") || strings.HasSuffix(p, "/types")
}

func skipField(f reflect.StructField) bool {
	switch f.Name {
	case "typ", "static", "Method", "State", "HasDefer", "ImportPaths":
		return true
	}
	return skipType(f.Type)
}

func dumpValue(b *strings.Builder, v reflect.Value, depth int) {
	if depth > 4000 {
		b.WriteString("<deep>")
		return
	}
	if !v.IsValid() {
		b.WriteString("nil")
		return
	}
	switch v.Kind() {
	case reflect.Interface, reflect.Pointer:
		if v.IsNil() {
			b.WriteString("nil")
			return
		}
		dumpValue(b, v.Elem(), depth+1)
	case reflect.Struct:
		t := v.Type()
		b.WriteString("(")
		b.WriteString(t.Name())
		for i := 0; i < t.NumField(); i++ {
			f := t.Field(i)
			if skipField(f) {
				continue
			}
			if f.Anonymous {
				// NodeBase / TypedNodeBase / DocCommentableNodeBase: inline the remaining fields
				inner := v.Field(i)
				it := inner.Type()
				if it.Kind() == reflect.Struct {
					for j := 0; j < it.NumField(); j++ {
						g := it.Field(j)
						if skipField(g) || g.Anonymous {
							continue
						}
						b.WriteString(" " + g.Name + "=")
						dumpValue(b, inner.Field(j), depth+1)
					}
					continue
				}
			}
			b.WriteString(" " + f.Name + "=")
			dumpValue(b, v.Field(i), depth+1)
		}
		b.WriteString(")")
	case reflect.Slice, reflect.Array:
		b.WriteString("[")
		for i := 0; i < v.Len(); i++ {
			if i > 0 {
				b.WriteString(" ")
			}
			dumpValue(b, v.Index(i), depth+1)
		}
		b.WriteString("]")
	case reflect.String:
		fmt.Fprintf(b, "%q", v.String())
	case reflect.Bool:
		fmt.Fprintf(b, "%v", v.Bool())
	case reflect.Int, reflect.Int8, reflect.Int16, reflect.Int32, reflect.Int64:
		fmt.Fprintf(b, "%d", v.Int())
	case reflect.Uint, reflect.Uint8, reflect.Uint16, reflect.Uint32, reflect.Uint64, reflect.Uintptr:
		fmt.Fprintf(b, "%d", v.Uint())
	case reflect.Float32, reflect.Float64:
		fmt.Fprintf(b, "%v", v.Float())
	case reflect.Map:
		fmt.Fprintf(b, "<map %d>", v.Len())
	default:
		fmt.Fprintf(b, "<%s>", v.Kind())
	}
}

// parseOK parses src; ok is false when the parser reports any failure diagnostic.
func parseOK(src string) (prog *ast.ProgramNode, ok bool, msg string) {
	defer func() {
		if r := recover(); r != nil {
			prog, ok, msg = nil, false, "go_panic in parser: "+firstLine(fmt.Sprint(r))
		}
	}()
	p, diags := parser.Parse("<c05>", src)
	if diags.IsFailure() {
		return p, false, firstLine(diags.Error())
	}
	return p, true, ""
}

func printNode(n ast.Node) (s string, ok bool) {
	defer func() {
		if r := recover(); r != nil {
			s, ok = "go_panic in String(): "+firstLine(fmt.Sprint(r)), false
		}
	}()
	return n.String(), true
}

func firstLine(s string) string {
	s = strings.TrimSpace(s)
	if i := strings.IndexByte(s, '\n'); i >= 0 {
		s = s[:i]
	}
	if len(s) > 200 {
		s = s[:200]
	}
	return s
}

// roundtrip evaluates the property on one source text. verdict:
//   skip        the source itself does not parse without errors (outside the quantifier)
//   ok          print parses, trees equal ignoring locations, print is a fixpoint
//   print_panic / reparse_error / tree_differs / print_not_fixpoint
func roundtrip(src string) (verdict, printed, detail string) {
	t1, ok, _ := parseOK(src)
	if !ok {
		return "skip", "", ""
	}
	printed, pok := printNode(t1)
	if !pok {
		return "print_panic", "", printed
	}
	t2, ok, msg := parseOK(printed)
	if !ok {
		return "reparse_error", printed, msg
	}
	d1, d2 := dump(t1), dump(t2)
	if d1 != d2 {
		return "tree_differs", printed, diffAt(d1, d2)
	}
	p2, pok := printNode(t2)
	if !pok || p2 != printed {
		return "print_not_fixpoint", printed, firstLine(p2)
	}
	return "ok", printed, ""
}

func diffAt(a, b string) string {
	i := 0
	for i < len(a) && i < len(b) && a[i] == b[i] {
		i++
	}
	lo := i - 60
	if lo < 0 {
		lo = 0
	}
	ha, hb := i+80, i+80
	if ha > len(a) {
		ha = len(a)
	}
	if hb > len(b) {
		hb = len(b)
	}
	return "orig: ..." + a[lo:ha] + " | reparsed: ..." + b[lo:hb]
}
