package main

import (
	"fmt"
	"os"
	"strings"

	"verifharness/hx"
)

func esc(s string) string {
	return strings.NewReplacer("\\", "\\\\", "\n", "\\n", "\t", "\\t", "\r", "\\r").Replace(s)
}

func unesc(s string) string {
	var b strings.Builder
	for i := 0; i < len(s); i++ {
		if s[i] == '\\' && i+1 < len(s) {
			i++
			switch s[i] {
			case 'n':
				b.WriteByte('\n')
			case 't':
				b.WriteByte('\t')
			case 'r':
				b.WriteByte('\r')
			default:
				b.WriteByte(s[i])
			}
			continue
		}
		b.WriteByte(s[i])
	}
	return b.String()
}

func main() {
	o := hx.ParseFlags()
	defer hx.Flush()
	discoverOps()
	switch o.Extra {
	case "tables":
		emitTables()
	case "expr":
		runExpr(o)
	case "full":
		runFull(o)
	}
}

func runFull(o *hx.Opts) {
	id := 0
	emit := func(kind, label, src string) {
		hx.Emit(fmt.Sprintf("%s%d", kind, id), label, esc(evalCase(src)))
		id++
	}
	// 1. corpus (explicit sources, escaped)
	for _, in := range hx.ReadInputs(o.Input) {
		emit("c", "src "+in, unesc(in))
	}
	// 2. every .elk / .elh file of the repository
	for _, p := range elkFiles() {
		b, _ := os.ReadFile(p)
		emit("f", "file "+p, string(b))
	}
	// 3. every Elk source string used by the repository's own Go tests
	snips := harvestSnippets([]string{"parser", "types/checker", "compiler", "vm"})
	for _, s := range snips {
		emit("s", "src "+esc(s), s)
	}
	// 4. generated: expression kinds x operand contexts (deterministic), then random nestings
	all, reps := exprPool(snips)
	pool := reps
	if o.Tier == "thorough" {
		pool = all
	}
	for _, c := range contexts {
		n := strings.Count(c, "%s")
		for _, e := range pool {
			for h := 0; h < n; h++ {
				args := make([]string, n)
				for i := range args {
					args[i] = "x"
				}
				args[h] = e
				src := fill(c, args...)
				emit("g", "src "+esc(src), src)
			}
		}
	}
	r := hx.NewRng(o.Seed)
	var gen func(d int) string
	gen = func(d int) string {
		if d <= 0 || r.Chance(1, 3) {
			return hx.Pick(r, all)
		}
		c := hx.Pick(r, contexts)
		n := strings.Count(c, "%s")
		args := make([]string, n)
		for i := range args {
			args[i] = gen(d - 1)
		}
		return fill(c, args...)
	}
	for i := 0; i < o.N; i++ {
		var parts []string
		for k := r.Range(1, 3); k > 0; k-- {
			parts = append(parts, gen(r.Range(1, 3)))
		}
		src := strings.Join(parts, "\n")
		emit("r", "src "+esc(src), src)
	}
}
