package main

import (
	"fmt"
	goast "go/ast"
	goparser "go/parser"
	gotoken "go/token"
	"os"
	"path/filepath"
	"reflect"
	"sort"
	"strconv"
	"strings"

	"github.com/elk-language/elk/parser/ast"
)

func repoRoot() string {
	if r := os.Getenv("VERIF_REPO"); r != "" {
		return r
	}
	return "/repo"
}

// elkFiles: every .elk/.elh source in the repository (sorted).
func elkFiles() []string {
	var out []string
	filepath.Walk(repoRoot(), func(p string, info os.FileInfo, err error) error {
		if err != nil || info.IsDir() {
			return nil
		}
		if strings.HasSuffix(p, ".elk") || strings.HasSuffix(p, ".elh") {
			out = append(out, p)
		}
		return nil
	})
	sort.Strings(out)
	return out
}

// harvestSnippets: Elk source strings used as `input:`/`source:` fields in the repository's
// own Go tests (parser, checker, compiler, vm). Deterministic order, de-duplicated.
func harvestSnippets(dirs []string) []string {
	seen := map[string]bool{}
	var out []string
	for _, d := range dirs {
		files, _ := filepath.Glob(filepath.Join(repoRoot(), d, "*_test.go"))
		sort.Strings(files)
		for _, f := range files {
			fset := gotoken.NewFileSet()
			tree, err := goparser.ParseFile(fset, f, nil, goparser.SkipObjectResolution)
			if err != nil {
				continue
			}
			goast.Inspect(tree, func(n goast.Node) bool {
				kv, ok := n.(*goast.KeyValueExpr)
				if !ok {
					return true
				}
				id, ok := kv.Key.(*goast.Ident)
				if !ok || (id.Name != "input" && id.Name != "source") {
					return true
				}
				lit, ok := kv.Value.(*goast.BasicLit)
				if !ok || lit.Kind != gotoken.STRING {
					return true
				}
				s, err := strconv.Unquote(lit.Value)
				if err == nil && !seen[s] && len(s) < 20000 {
					seen[s] = true
					out = append(out, s)
				}
				return true
			})
		}
	}
	return out
}

// ---- minimisation and canonical keys

func isFail(v string) bool { return v != "ok" && v != "skip" }

// minimise: the shortest printed sub-expression/sub-statement of src that, taken as a
// program of its own, still violates the property (same verdict class).
func minimise(src string) string {
	cur := src
	for iter := 0; iter < 6; iter++ {
		t, ok, _ := parseOK(cur)
		if !ok {
			return cur
		}
		v0, _, _ := roundtrip(cur)
		best := ""
		seen := map[string]bool{}
		try := func(s string) {
			if s == "" || seen[s] || len(s) >= len(cur) || (best != "" && len(s) >= len(best)) {
				return
			}
			seen[s] = true
			if v, _, _ := roundtrip(s); isFail(v) && v == v0 {
				best = s
			}
		}
		func() {
			defer func() { recover() }()
			ast.Traverse(t, func(n, parent ast.Node) ast.TraverseOption {
				switch n.(type) {
				case ast.ExpressionNode, ast.StatementNode:
					if s := sliceOf(cur, n); s != "" {
						try(s)
					}
					if s, ok := printNode(n); ok {
						try(s)
					}
				}
				return ast.TraverseContinue
			}, func(n, parent ast.Node) ast.TraverseOption { return ast.TraverseContinue })
		}()
		if best == "" {
			break
		}
		cur = best
	}
	return cur
}

// sliceOf: the source text of a node, by its location
func sliceOf(src string, n ast.Node) (out string) {
	defer func() {
		if recover() != nil {
			out = ""
		}
	}()
	loc := n.Location()
	if loc == nil {
		return ""
	}
	a, b := loc.StartPos.ByteOffset, loc.EndPos.ByteOffset+1
	if a < 0 || b > len(src) || a >= b {
		return ""
	}
	return strings.TrimSpace(src[a:b])
}

// skeleton: node kind names to a small depth, operator token kinds for unary/postfix
// operators and flags; identifiers and literal values are dropped.
func skeleton(v reflect.Value, depth int) string {
	for v.IsValid() && (v.Kind() == reflect.Interface || v.Kind() == reflect.Pointer) {
		if v.IsNil() {
			return "nil"
		}
		v = v.Elem()
	}
	if !v.IsValid() {
		return "nil"
	}
	switch v.Kind() {
	case reflect.Struct:
		t := v.Type()
		name := strings.TrimSuffix(t.Name(), "Node")
		if t.Name() == "Token" {
			return ""
		}
		if depth <= 0 {
			return name
		}
		var parts []string
		for i := 0; i < t.NumField(); i++ {
			f := t.Field(i)
			if skipField(f) || f.Anonymous {
				continue
			}
			fv := v.Field(i)
			switch {
			case f.Name == "Op" || f.Name == "Modifier":
				if fv.Kind() == reflect.Pointer && !fv.IsNil() && (name == "UnaryExpression" || name == "PostfixExpression") {
					parts = append(parts, "op"+strconv.FormatUint(fv.Elem().Field(0).Uint(), 10))
				}
			case f.Name == "Flags":
				parts = append(parts, "flags"+strconv.FormatUint(fv.Field(0).Uint(), 10))
			case fv.Kind() == reflect.Bool:
				if fv.Bool() {
					parts = append(parts, f.Name)
				}
			case fv.Kind() == reflect.Slice:
				set := map[string]bool{}
				for j := 0; j < fv.Len(); j++ {
					if s := skeleton(fv.Index(j), depth-1); s != "" {
						set[s] = true
					}
				}
				var ks []string
				for k := range set {
					ks = append(ks, k)
				}
				sort.Strings(ks)
				if len(ks) > 0 {
					parts = append(parts, "["+strings.Join(ks, ",")+"]")
				}
			case fv.Kind() == reflect.Interface || fv.Kind() == reflect.Pointer || fv.Kind() == reflect.Struct:
				if s := skeleton(fv, depth-1); s != "" && s != "nil" {
					parts = append(parts, s)
				}
			}
		}
		if len(parts) == 0 {
			return name
		}
		return name + "(" + strings.Join(parts, " ") + ")"
	}
	return ""
}

// failKey: canonical class of a (minimised) failing source.
func failKey(verdict, minSrc string) string {
	t, ok, _ := parseOK(minSrc)
	if !ok || t == nil {
		return verdict + ":unparsed"
	}
	var top reflect.Value
	if len(t.Body) == 1 {
		if es, ok := t.Body[0].(*ast.ExpressionStatementNode); ok {
			top = reflect.ValueOf(es.Expression)
		} else {
			top = reflect.ValueOf(t.Body[0])
		}
	} else {
		top = reflect.ValueOf(t)
	}
	k := skeleton(top, 0)
	if len(k) > 160 {
		k = k[:160]
	}
	return verdict + ":" + k
}

// evalCase: observable for one source text: "<verdict>" or "<verdict>\x1f<key>\x1f<min>\x1f<printed-min>\x1f<detail>"
func evalCase(src string) string {
	v, _, _ := roundtrip(src)
	if !isFail(v) {
		return v
	}
	m := minimise(src)
	v2, printed, detail := roundtrip(m)
	if !isFail(v2) {
		m = src
		v2, printed, detail = roundtrip(m)
	}
	return fmt.Sprintf("%s\x1f%s\x1f%s\x1f%s\x1f%s", v2, failKey(v2, m), m, printed, detail)
}

// ---- generated programs: every harvested expression kind in every operand context

var contexts = []string{
	"(%s) + (%s)", "(%s) - (%s)", "(%s) * (%s)", "(%s) ** (%s)", "(%s) == (%s)", "(%s) < (%s)", "(%s) <=> (%s)",
	"(%s) && (%s)", "(%s) || (%s)", "(%s) ?? (%s)", "(%s) | (%s)", "(%s) << (%s)", "(%s) <: (%s)", "(%s) |> foo()",
	"-(%s)", "!(%s)", "~(%s)", "+(%s)",
	"(%s)...(%s)", "(%s)..<(%s)", "(%s)...", "(%s) as Foo", "(%s) as ::Foo::Bar",
	"(%s).foo", "(%s).foo(%s)", "(%s)?.foo", "(%s).foo = (%s)", "(%s)[(%s)]", "(%s)?[(%s)]", "(%s).()", "(%s)::Foo",
	"foo((%s), (%s))", "foo((%s), bar: (%s))", "foo (%s), (%s)", "Foo((%s))", "foo!((%s))",
	"a = (%s)", "a ||= (%s)", "a := (%s)", "a += (%s)", "@a = (%s)",
	"(%s) if (%s)", "(%s) unless (%s)", "(%s) while (%s)", "(%s) until (%s)", "(%s) if (%s) else (%s)", "(%s) for i in (%s)",
	"[(%s), (%s)]", "%%[(%s), (%s)]", "^[(%s), (%s)]", "{ (%s) => (%s) }", "%%{ a: (%s), b: (%s) }", "[(%s) if (%s)]", "[(%s) for i in (%s)]", "[(%s)]:(%s)",
	"\"foo #{(%s)} bar\"", ":\"foo #{(%s)}\"", "%%/a#{(%s)}b/",
	"return (%s)", "throw (%s)", "break (%s)", "continue (%s)", "yield (%s)", "try (%s)", "must (%s)", "await (%s)", "await_sync (%s)", "go (%s)", "typeof (%s)", "defer (%s)",
	"-> (%s)", "|a| -> (%s)", "|a: Int = (%s)|: Int -> a", "pure |a| -> (%s)",
	"if (%s) then (%s)", "if (%s)\n  (%s)\nelse\n  (%s)\nend", "unless (%s)\n  (%s)\nend", "while (%s)\n  (%s)\nend", "until (%s)\n  (%s)\nend",
	"loop\n  (%s)\nend", "do\n  (%s)\ncatch Foo as e\n  (%s)\nfinally\n  (%s)\nend", "for i in (%s)\n  (%s)\nend", "fornum i := 0; i < (%s); i += 1\n  (%s)\nend",
	"switch (%s)\ncase 1 then (%s)\ncase [a, *b] if (%s) then nil\nelse (%s)\nend", "$foo: (%s)",
	"var a: Int = (%s)", "val a = (%s)", "const Foo = (%s)", "const Foo: Int = (%s)", "var [a, b] = (%s)", "val %%{a, b: c} = (%s)",
	"def foo(a: Int = (%s)): Int\n  (%s)\nend", "def foo then (%s)", "class Foo\n  (%s)\nend", "module Foo\n  def bar\n    (%s)\n  end\nend",
	"quote\n  (%s)\nend", "quote (%s)", "macro foo(a: Elk::AST::Node)\n  (%s)\nend", "unquote((%s))", "!{(%s)}", "(%s) match [1, a]",
	"new((%s))", "(%s)++", "(%s)--", "&(%s)", "<<(%s)", "(%s) <- (%s)", "*(%s)", "foo(*(%s), **(%s))",
	"singleton\n  (%s)\nend", "extend where T < Foo\n  (%s)\nend", "using (%s)", "include (%s)", "(%s);(%s)",
}

// pool of expressions: source slices of the top-level expression statements of the
// harvested snippets that round-trip-parse on their own; short, single-line ones first.
func exprPool(snips []string) (all []string, reps []string) {
	seen := map[string]bool{}
	kinds := map[string]bool{}
	for _, s := range snips {
		t, ok, _ := parseOK(s)
		if !ok || t == nil {
			continue
		}
		for _, st := range t.Body {
			es, ok := st.(*ast.ExpressionStatementNode)
			if !ok {
				continue
			}
			src := sliceOf(s, es.Expression)
			if src == "" || len(src) > 120 || seen[src] {
				continue
			}
			if e := singleExpr(src); e == nil {
				continue
			}
			seen[src] = true
			all = append(all, src)
			k := skeleton(reflect.ValueOf(es.Expression), 0)
			if !kinds[k] {
				kinds[k] = true
				reps = append(reps, src)
			}
		}
	}
	return
}

func fill(ctx string, args ...string) string {
	n := strings.Count(ctx, "%s")
	a := make([]any, n)
	for i := range a {
		if i < len(args) {
			a[i] = args[i]
		} else {
			a[i] = "x"
		}
	}
	return fmt.Sprintf(ctx, a...)
}
