// c25: correspondence streams for channels and sync primitives (package value wrappers).
//
//	-extra misuse -input F : F holds "<id>\t<kind> [params] | op op ...\t<index of the op the model
//	                         expects to block, or -1>".  Every sequence runs single-threaded on fresh
//	                         primitives; each op runs under a watchdog (60 s, or 40 ms for the op that is
//	                         expected to block: an op that really blocks never completes, however long
//	                         one waits).  Observed = one outcome per op (ok, ok:<v>, err:<code>,
//	                         panic:<code>, blocked); lines are flushed one by one so that a Go fatal
//	                         error (which kills this process) is attributed to the next sequence by the
//	                         driver, which restarts the harness after it.
//	-extra sched -input F  : controlled multi-thread scenarios on the lock wrappers (sched.go)
//	-extra conc[:<start>]  : seeded concurrent scenarios on the wrappers with real goroutines
//	                         (producers/consumers on a channel, lockers on Mutex, readers/writers on
//	                         RWMutex+ROMutex); observed = the per-thread logs / counters.
//
// WaitGroup methods are called through reflection because the fix changes their signatures
// (they return the error value); the harness must build against both trees.
package main

import (
	"bufio"
	"fmt"
	"os"
	"reflect"
	"strconv"
	"strings"
	"sync"
	"sync/atomic"
	"time"

	"verifharness/hx"

	"github.com/elk-language/elk/value"
)

// ---------------------------------------------------------------- outcome encoding

func errCode(err value.Value) string {
	if err.IsUndefined() {
		return "ok"
	}
	if err.IsReference() {
		if o, ok := err.AsReference().(*value.Object); ok {
			msg := ""
			if m := o.Message(); m.IsReference() {
				if s, ok := m.AsReference().(value.String); ok {
					msg = string(s)
				}
			}
			switch o.Class() {
			case value.ChannelClosedErrorClass:
				switch {
				case strings.Contains(msg, "push"):
					return "err:251"
				case strings.Contains(msg, "pop"):
					return "err:252"
				case strings.Contains(msg, "close a"):
					return "err:253"
				}
			case value.MutexUnlockedErrorClass:
				return "err:255"
			case value.RWMutexUnlockedErrorClass:
				if strings.Contains(msg, "for writing") {
					return "err:256"
				}
				return "err:257"
			case value.OutOfRangeErrorClass:
				if strings.Contains(msg, "negative WaitGroup counter") {
					return "err:258"
				}
				return "err:259"
			}
			return "err:299:" + o.Class().Name
		}
	}
	if err.IsInlineSymbol() || strings.Contains(err.Inspect(), "stop_iteration") {
		return "err:254"
	}
	return "err:298:" + err.Inspect()
}

func panicCode(r any) string {
	msg := fmt.Sprint(r)
	switch {
	case strings.Contains(msg, "send on closed channel"):
		return "panic:201"
	case strings.Contains(msg, "close of closed channel"):
		return "panic:202"
	case strings.Contains(msg, "negative WaitGroup counter"):
		return "panic:203"
	}
	if i := strings.IndexByte(msg, '\n'); i >= 0 {
		msg = msg[:i]
	}
	return "panic:299:" + strings.ReplaceAll(msg, " ", "_")
}

// run one op under a watchdog
func guarded(wait time.Duration, f func() string) string {
	done := make(chan string, 1)
	go func() {
		defer func() {
			if r := recover(); r != nil {
				done <- panicCode(r)
			}
		}()
		done <- f()
	}()
	select {
	case r := <-done:
		return r
	case <-time.After(wait):
		return "blocked"
	}
}

// ---------------------------------------------------------------- WaitGroup through reflection

func wgCall(w *value.WaitGroup, method string, args ...int) string {
	m := reflect.ValueOf(w).MethodByName(method)
	in := make([]reflect.Value, len(args))
	for i, a := range args {
		in[i] = reflect.ValueOf(a)
	}
	out := m.Call(in)
	if len(out) == 1 {
		if v, ok := out[0].Interface().(value.Value); ok {
			return errCode(v)
		}
	}
	return "ok"
}

// ---------------------------------------------------------------- misuse sequences

type chanLike interface {
	Push(value.Value) value.Value
	Pop() (value.Value, value.Value)
	NextValue() (value.Value, value.Value)
	Close() value.Value
}

func popResult(native bool, v, err value.Value) string {
	if !err.IsUndefined() {
		return errCode(err)
	}
	if native {
		return "ok:" + strconv.FormatInt(int64(v.AsFloat()), 10)
	}
	return "ok:" + strconv.FormatInt(int64(v.AsSmallInt()), 10)
}

func mkVal(native bool, v int64) value.Value {
	if native {
		return value.Float(float64(v)).ToValue()
	}
	return value.SmallInt(v).ToValue()
}

func atoi(s string) int {
	n, err := strconv.ParseInt(s, 10, 64)
	if err != nil {
		panic("bad number " + s)
	}
	return int(n)
}

func runMisuse(input string, bidx int) string {
	parts := strings.SplitN(input, "|", 2)
	head := strings.Fields(parts[0])
	ops := []string{}
	if len(parts) == 2 {
		ops = strings.Fields(parts[1])
	}
	var step func(op string) string
	switch head[0] {
	case "chan", "nchan":
		native := head[0] == "nchan"
		var chans []chanLike
		for _, c := range strings.Split(head[1], ",") {
			if native {
				chans = append(chans, value.MakeNativeChannel[value.Float](atoi(c)))
			} else {
				chans = append(chans, value.NewChannelOfValue(atoi(c)))
			}
		}
		step = func(op string) string {
			f := strings.Split(op, ":")
			ch := chans[atoi(f[1])]
			switch f[0] {
			case "push":
				return errCode(ch.Push(mkVal(native, int64(atoi(f[2])))))
			case "pop":
				v, err := ch.Pop()
				return popResult(native, v, err)
			case "next":
				v, err := ch.NextValue()
				return popResult(native, v, err)
			case "close":
				return errCode(ch.Close())
			}
			panic("bad op " + op)
		}
	case "mutex":
		m := value.NewMutex()
		step = func(op string) string {
			switch op {
			case "lock":
				m.Lock()
				return "ok"
			case "unlock":
				return errCode(m.Unlock())
			}
			panic("bad op " + op)
		}
	case "rw", "ro":
		m := value.NewRWMutex()
		ro := value.NewROMutex(m)
		useRO := head[0] == "ro"
		step = func(op string) string {
			switch op {
			case "lock":
				m.Lock()
				return "ok"
			case "unlock":
				return errCode(m.Unlock())
			case "rlock":
				if useRO {
					ro.Lock()
				} else {
					m.ReadLock()
				}
				return "ok"
			case "runlock":
				if useRO {
					return errCode(ro.Unlock())
				}
				return errCode(m.ReadUnlock())
			}
			panic("bad op " + op)
		}
	case "wg":
		w := &value.WaitGroup{}
		step = func(op string) string {
			f := strings.Split(op, ":")
			switch f[0] {
			case "add":
				return wgCall(w, "Add", atoi(f[1]))
			case "rem":
				return wgCall(w, "Remove", atoi(f[1]))
			case "start":
				return wgCall(w, "Start")
			case "end":
				return wgCall(w, "End")
			case "wait":
				w.Wait()
				return "ok"
			}
			panic("bad op " + op)
		}
	default:
		return "badkind"
	}
	var out []string
	for i, op := range ops {
		wait := 60 * time.Second
		if i == bidx {
			wait = 40 * time.Millisecond
		}
		r := guarded(wait, func() string { return step(op) })
		out = append(out, r)
		if r == "blocked" || strings.HasPrefix(r, "panic") {
			break
		}
	}
	return strings.Join(out, " ")
}

func misuse(o *hx.Opts) {
	f, err := os.Open(o.Input)
	if err != nil {
		fmt.Fprintln(os.Stderr, "cannot open input:", err)
		os.Exit(2)
	}
	defer f.Close()
	sc := bufio.NewScanner(f)
	sc.Buffer(make([]byte, 1<<20), 1<<26)
	for sc.Scan() {
		p := strings.Split(sc.Text(), "\t")
		if len(p) < 3 {
			continue
		}
		// announce the case first: if the process dies the driver knows which one it was
		fmt.Printf("start\t%s\n", p[0])
		os.Stdout.Sync()
		hx.Emit(p[0], p[1], runMisuse(p[1], atoi(p[2])))
		hx.Flush()
	}
}

// ---------------------------------------------------------------- concurrent scenarios

func joinInts(xs []int64) string {
	s := make([]string, len(xs))
	for i, x := range xs {
		s[i] = strconv.FormatInt(x, 10)
	}
	return strings.Join(s, ",")
}

func concPC(r *hx.Rng, native bool) (string, string) {
	P := r.Range(1, 3)
	K := r.Range(1, 3)
	capc := hx.Pick(r, []int{0, 0, 1, 2, 5})
	items := r.Range(1, 40)
	style := r.Below(2) // 0 Pop, 1 NextValue
	kind := "chan"
	var ch chanLike
	if native {
		kind = "nchan"
		ch = value.MakeNativeChannel[value.Float](capc)
	} else {
		ch = value.NewChannelOfValue(capc)
	}
	input := fmt.Sprintf("pc %s P=%d K=%d cap=%d items=%d style=%d", kind, P, K, capc, items, style)
	pw := &value.WaitGroup{} // the wrapper under test joins the producers
	wgCall(pw, "Add", P)
	var all sync.WaitGroup
	logs := make([][]int64, K)
	var perr, endok atomic.Int64
	for p := 0; p < P; p++ {
		all.Add(1)
		go func(p int) {
			defer all.Done()
			for i := 0; i < items; i++ {
				if e := ch.Push(mkVal(native, int64((p+1)*1000+i))); !e.IsUndefined() {
					perr.Add(1)
				}
			}
			if wgCall(pw, "End") == "ok" {
				endok.Add(1)
			}
		}(p)
	}
	for k := 0; k < K; k++ {
		all.Add(1)
		go func(k int) {
			defer all.Done()
			for {
				var v, e value.Value
				if style == 0 {
					v, e = ch.Pop()
				} else {
					v, e = ch.NextValue()
				}
				if !e.IsUndefined() {
					return
				}
				if native {
					logs[k] = append(logs[k], int64(v.AsFloat()))
				} else {
					logs[k] = append(logs[k], int64(v.AsSmallInt()))
				}
			}
		}(k)
	}
	pw.Wait()
	c1 := errCode(ch.Close())
	c2 := errCode(ch.Close())
	all.Wait()
	ls := make([]string, K)
	for k := range logs {
		ls[k] = joinInts(logs[k])
	}
	return input, fmt.Sprintf("logs=%s perr=%d endok=%d close=%s,%s", strings.Join(ls, ";"), perr.Load(), endok.Load(), c1, c2)
}

func concMX(r *hx.Rng) (string, string) {
	G := r.Range(2, 8)
	iters := r.Range(20, 400)
	input := fmt.Sprintf("mx G=%d iters=%d", G, iters)
	m := value.NewMutex()
	var all sync.WaitGroup
	counter := 0 // plain variable: a broken mutex is also a data race
	var inside, overlap, uerr atomic.Int64
	for g := 0; g < G; g++ {
		all.Add(1)
		go func() {
			defer all.Done()
			for i := 0; i < iters; i++ {
				m.Lock()
				if inside.Add(1) != 1 {
					overlap.Add(1)
				}
				counter++
				inside.Add(-1)
				if e := m.Unlock(); !e.IsUndefined() {
					uerr.Add(1)
				}
			}
		}()
	}
	all.Wait()
	x1 := guarded(60*time.Second, func() string { return errCode(m.Unlock()) })
	return input, fmt.Sprintf("count=%d overlap=%d uerr=%d extra=%s", counter, overlap.Load(), uerr.Load(), x1)
}

func concRW(r *hx.Rng) (string, string) {
	W := r.Range(1, 3)
	R := r.Range(1, 5)
	iters := r.Range(20, 300)
	useRO := r.Below(2) == 1
	input := fmt.Sprintf("rw W=%d R=%d iters=%d ro=%v", W, R, iters, useRO)
	m := value.NewRWMutex()
	ro := value.NewROMutex(m)
	var all sync.WaitGroup
	shared := 0
	var writing, reading, viol, uerr, maxr atomic.Int64
	for w := 0; w < W; w++ {
		all.Add(1)
		go func() {
			defer all.Done()
			for i := 0; i < iters; i++ {
				m.Lock()
				if writing.Add(1) != 1 || reading.Load() != 0 {
					viol.Add(1)
				}
				shared++
				writing.Add(-1)
				if e := m.Unlock(); !e.IsUndefined() {
					uerr.Add(1)
				}
			}
		}()
	}
	for k := 0; k < R; k++ {
		all.Add(1)
		go func() {
			defer all.Done()
			sum := 0
			for i := 0; i < iters; i++ {
				if useRO {
					ro.Lock()
				} else {
					m.ReadLock()
				}
				n := reading.Add(1)
				for {
					old := maxr.Load()
					if n <= old || maxr.CompareAndSwap(old, n) {
						break
					}
				}
				if writing.Load() != 0 {
					viol.Add(1)
				}
				sum += shared
				reading.Add(-1)
				var e value.Value
				if useRO {
					e = ro.Unlock()
				} else {
					e = m.ReadUnlock()
				}
				if !e.IsUndefined() {
					uerr.Add(1)
				}
			}
			_ = sum
		}()
	}
	all.Wait()
	x1 := guarded(60*time.Second, func() string { return errCode(m.Unlock()) })
	x2 := guarded(60*time.Second, func() string { return errCode(m.ReadUnlock()) })
	return input, fmt.Sprintf("count=%d viol=%d uerr=%d extra=%s,%s", shared, viol.Load(), uerr.Load(), x1, x2)
}

func conc(o *hx.Opts, start int) {
	for i := start; i < o.N; i++ {
		// one generator per case, so that the driver can resume after a case that killed the process
		r := hx.NewRng(o.Seed + uint64(i)*0x9E3779B97F4A7C15)
		id := fmt.Sprintf("g%d", i)
		fmt.Printf("start\t%s\n", id)
		os.Stdout.Sync()
		var in, obs string
		switch i % 4 {
		case 0:
			in, obs = concPC(r, false)
		case 1:
			in, obs = concMX(r)
		case 2:
			in, obs = concRW(r)
		default:
			in, obs = concPC(r, true)
		}
		hx.Emit(id, in, obs)
		hx.Flush()
	}
}

func main() {
	o := hx.ParseFlags()
	switch o.Extra {
	case "misuse":
		misuse(o)
	case "conc":
		conc(o, 0)
	case "sched":
		sched(o)
	default:
		if strings.HasPrefix(o.Extra, "conc:") {
			conc(o, atoi(o.Extra[5:]))
			return
		}
		fmt.Fprintln(os.Stderr, "unknown -extra")
		os.Exit(2)
	}
}
