// c25 -extra sched -input F : controlled multi-thread scenarios on Mutex / RWMutex / ROMutex.
//
// F holds "<id>\tsched <mutex|rw|ro> | <thread>:<op> <thread>:<op> ...\t<ignored>" with
// op = lock unlock rlock runlock.  Every named thread is one goroutine that executes the calls
// the scheduler hands to it, one at a time.  The scheduler issues the steps of the script in
// order; after every step it waits until every call in flight has either RETURNED or is PARKED
// inside the Go runtime on a sync primitive (read from an all-goroutine stack dump: wait
// reasons "sync.Mutex.Lock", "sync.RWMutex.RLock", "sync.RWMutex.Lock", "semacquire").  A parked
// goroutine stays parked until another call releases it, and a releasing call readies its
// waiters before it returns, so "all calls returned or parked" is a stable state and no grace
// period is involved (fallback: a call neither returned nor parked for 700 ms counts as
// blocked).  A step addressed to a thread that is still inside a call is reported as `busy`
// and not executed.
//
// Observed = one token per step, `<outcome>[+<threads whose blocked call returned because of
// this step>]`, outcome = ok | err:<code> | panic:<code> | blocked | busy, followed by
// `end:<threads still blocked>` (or `end:-`).  After the result has been printed the harness
// tries to release what is still held/blocked (unlock calls until nothing is in flight) so
// that goroutines do not pile up.
package main

import (
	"bufio"
	"fmt"
	"os"
	"runtime"
	"sort"
	"strconv"
	"strings"
	"time"

	"verifharness/hx"

	"github.com/elk-language/elk/value"
)

type schedDone struct {
	thread int
	res    string
}

type schedThread struct {
	cmds chan func() string
	gid  int64
	busy bool
}

func curGoid() int64 {
	var b [64]byte
	n := runtime.Stack(b[:], false)
	f := strings.Fields(string(b[:n]))
	if len(f) < 2 {
		return -1
	}
	id, _ := strconv.ParseInt(f[1], 10, 64)
	return id
}

var stackBuf = make([]byte, 1<<20)

// wait reason of every goroutine, from one atomic dump
func goroutineStates() map[int64]string {
	for {
		n := runtime.Stack(stackBuf, true)
		if n < len(stackBuf) {
			res := map[int64]string{}
			for _, l := range strings.Split(string(stackBuf[:n]), "\n") {
				if !strings.HasPrefix(l, "goroutine ") {
					continue
				}
				a := strings.IndexByte(l, '[')
				b := strings.LastIndexByte(l, ']')
				if a < 0 || b < a {
					continue
				}
				id, err := strconv.ParseInt(strings.TrimSpace(l[10:a]), 10, 64)
				if err != nil {
					continue
				}
				reason := l[a+1 : b]
				if i := strings.IndexByte(reason, ','); i >= 0 {
					reason = reason[:i]
				}
				res[id] = reason
			}
			return res
		}
		stackBuf = make([]byte, 2*len(stackBuf))
	}
}

func syncParked(reason string) bool {
	return strings.HasPrefix(reason, "sync.") || reason == "semacquire"
}

type schedRun struct {
	threads map[int]*schedThread
	done    chan schedDone
}

func (s *schedRun) thread(t int) *schedThread {
	if th, ok := s.threads[t]; ok {
		return th
	}
	th := &schedThread{cmds: make(chan func() string)}
	ready := make(chan int64)
	go func() {
		ready <- curGoid()
		for f := range th.cmds {
			r := func() (res string) {
				defer func() {
					if r := recover(); r != nil {
						res = panicCode(r)
					}
				}()
				return f()
			}()
			s.done <- schedDone{t, r}
		}
	}()
	th.gid = <-ready
	s.threads[t] = th
	return th
}

// wait until every call in flight has returned or is parked; returns the calls that returned
func (s *schedRun) settle() map[int]string {
	returned := map[int]string{}
	start := time.Now()
	pause := 20 * time.Microsecond
	drain := func() {
		for {
			select {
			case d := <-s.done:
				returned[d.thread] = d.res
				s.threads[d.thread].busy = false
			default:
				return
			}
		}
	}
	inflight := func() bool {
		for _, th := range s.threads {
			if th.busy {
				return true
			}
		}
		return false
	}
	for {
		// cheap first: most calls return at once
		for k := 0; k < 3 && inflight(); k++ {
			runtime.Gosched()
			drain()
		}
		if !inflight() {
			return returned
		}
		states := goroutineStates() // BEFORE the next drain: a call parked here and not returned below was blocked
		drain()
		settled := true
		for _, th := range s.threads {
			if th.busy && !syncParked(states[th.gid]) {
				settled = false
			}
		}
		if settled || time.Since(start) > 700*time.Millisecond {
			return returned
		}
		time.Sleep(pause)
		if pause < 2*time.Millisecond {
			pause *= 2
		}
	}
}

func joinThreads(ts []int) string {
	if len(ts) == 0 {
		return "-"
	}
	sort.Ints(ts)
	s := make([]string, len(ts))
	for i, t := range ts {
		s[i] = strconv.Itoa(t)
	}
	return strings.Join(s, ",")
}

func runSched(input string) (string, func()) {
	parts := strings.SplitN(input, "|", 2)
	head := strings.Fields(parts[0])
	steps := []string{}
	if len(parts) == 2 {
		steps = strings.Fields(parts[1])
	}
	if len(head) < 2 {
		return "badinput", func() {}
	}
	var call func(op string) func() string
	var release func() // one round of unlock calls, used only after the result was reported
	switch head[1] {
	case "mutex":
		m := value.NewMutex()
		call = func(op string) func() string {
			switch op {
			case "lock":
				return func() string { m.Lock(); return "ok" }
			case "unlock":
				return func() string { return errCode(m.Unlock()) }
			}
			return nil
		}
		release = func() { m.Unlock() }
	case "rw", "ro":
		m := value.NewRWMutex()
		ro := value.NewROMutex(m)
		useRO := head[1] == "ro"
		call = func(op string) func() string {
			switch op {
			case "lock":
				return func() string { m.Lock(); return "ok" }
			case "unlock":
				return func() string { return errCode(m.Unlock()) }
			case "rlock":
				if useRO {
					return func() string { ro.Lock(); return "ok" }
				}
				return func() string { m.ReadLock(); return "ok" }
			case "runlock":
				if useRO {
					return func() string { return errCode(ro.Unlock()) }
				}
				return func() string { return errCode(m.ReadUnlock()) }
			}
			return nil
		}
		release = func() { m.Unlock(); m.ReadUnlock() }
	default:
		return "badkind", func() {}
	}
	s := &schedRun{threads: map[int]*schedThread{}, done: make(chan schedDone, 64)}
	var out []string
	for _, st := range steps {
		f := strings.SplitN(st, ":", 2)
		if len(f) != 2 || call(f[1]) == nil {
			return "badstep:" + st, func() {}
		}
		t := atoi(f[0])
		th := s.thread(t)
		if th.busy {
			out = append(out, "busy")
			continue
		}
		th.busy = true
		th.cmds <- call(f[1])
		ret := s.settle()
		tok := "blocked"
		if r, ok := ret[t]; ok {
			tok = r
			delete(ret, t)
		}
		if len(ret) > 0 {
			var woken []int
			for w, r := range ret {
				if r != "ok" {
					tok += "!" + strconv.Itoa(w) + "=" + r // a blocked lock call can only return ok
				}
				woken = append(woken, w)
			}
			tok += "+" + joinThreads(woken)
		}
		out = append(out, tok)
	}
	var still []int
	for t, th := range s.threads {
		if th.busy {
			still = append(still, t)
		}
	}
	out = append(out, "end:"+joinThreads(still))
	cleanup := func() {
		for round := 0; round < 2*len(steps)+4; round++ {
			s.settle()
			n := 0
			for _, th := range s.threads {
				if th.busy {
					n++
				}
			}
			if n == 0 {
				break
			}
			release()
		}
		for _, th := range s.threads {
			if !th.busy {
				close(th.cmds)
			}
		}
	}
	return strings.Join(out, " "), cleanup
}

func sched(o *hx.Opts) {
	f, err := os.Open(o.Input)
	if err != nil {
		fmt.Fprintln(os.Stderr, "cannot open input:", err)
		os.Exit(2)
	}
	defer f.Close()
	sc := bufio.NewScanner(f)
	sc.Buffer(make([]byte, 1<<20), 1<<26)
	for sc.Scan() {
		p := strings.Split(sc.Text(), "\t")
		if len(p) < 2 {
			continue
		}
		fmt.Printf("start\t%s\n", p[0])
		os.Stdout.Sync()
		obs, cleanup := runSched(p[1])
		hx.Emit(p[0], p[1], obs)
		hx.Flush()
		cleanup()
	}
}
