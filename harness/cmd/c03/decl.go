// Generator d of stream c03.front: DECLARATION-LEVEL programs for the checker stage.
//
// A program is a small graph of named entities - typedefs (plain and generic), classes (plain and
// generic), mixins, interfaces, modules and constants - spread over the root namespace, a container
// `M` (module / class / mixin / interface) and optionally a nested container `M::N` or a sibling
// `K`. Every entity refers to other entities (typedef body, superclass, include / implement,
// instance variable and method signature types, constant initialiser, method bodies that call
// methods of other entities) and every reference is written in one of the name forms of the
// language: plain `A`, qualified `M::N::A`, absolute `::M::N::A`, partially qualified `N::A`, a path
// through the wrong namespace, or a name that does not exist. The graphs are ILL-FORMED ON PURPOSE:
// cycles of length 1-3 (closed through unions, nilable types, generic arguments, bounds,
// superclasses, include, implement, constant initialisers, mutually recursive methods called from
// constant initialisers), forward references (the declaration order is shuffled, uses may come
// first), duplicate names (two entities of different kinds under one name) and missing names.
// After the declarations every entity is USED (`var x: T = 1`, `T()`, `T.m0()`, `T::mac!()`, `1 as T`,
// a method signature over T, `println(C)`), so that a cycle that was diagnosed but left in the type
// graph is walked by the subtype / method lookup / macro lookup code.
//
// The gate is the one of the whole stream: no panic, no Go fatal error, no hang within the CPU
// budget. The programs nearly always parse, so the checker stage runs on almost all of them.
package main

import (
	"fmt"
	"strings"

	"verifharness/hx"
)

const (
	dkTypedef = iota
	dkGTypedef
	dkClass
	dkGClass
	dkMixin
	dkIface
	dkModule
	dkConst
	dkCount
)

type dEnt struct {
	kind int
	name string
	ns   int   // index into dProg.nss
	refs []int // entities referred to
	form []int // name form of each reference
}

type dNs struct {
	path []string // nil = root
	kind string   // module | class | mixin | interface
}

type dProg struct {
	r    *hx.Rng
	nss  []dNs
	ents []dEnt
}

func (p *dProg) pick(xs []string) string { return xs[p.r.Below(len(xs))] }

// refName writes entity t as seen with name form f.
func (p *dProg) refName(t int, f int) string {
	if t < 0 || t >= len(p.ents) {
		return p.pick([]string{"Zz", "M::Zz", "::Zz", "Zz::A", "::M::N::Zz", "Int", "Std::Int", "::Std::String"})
	}
	e := p.ents[t]
	path := p.nss[e.ns].path
	full := strings.Join(append(append([]string{}, path...), e.name), "::")
	switch f {
	case 0: // plain
		return e.name
	case 1: // qualified
		return full
	case 2: // absolute
		return "::" + full
	case 3: // partially qualified: last namespace component only
		if len(path) > 0 {
			return path[len(path)-1] + "::" + e.name
		}
		return e.name
	case 4: // through another namespace (usually wrong; right when that namespace inherits/includes)
		o := p.nss[p.r.Below(len(p.nss))].path
		return strings.Join(append(append([]string{}, o...), e.name), "::")
	default: // a name that does not exist next to the entity
		return strings.Join(append(append([]string{}, path...), "Zz"), "::")
	}
}

func (p *dProg) pickForm(style int) int {
	switch style {
	case 0: // plain names only
		return 0
	case 1: // always qualified
		return 1 + p.r.Below(2)
	case 2: // mostly qualified
		if p.r.Chance(3, 4) {
			return 1 + p.r.Below(3)
		}
		return 0
	default: // anything
		return p.r.Below(6)
	}
}

func (p *dProg) ref(e *dEnt, k int) string {
	if len(e.refs) == 0 {
		return p.pick([]string{"Int", "String", "Std::Int", "Zz"})
	}
	k %= len(e.refs)
	return p.refName(e.refs[k], e.form[k])
}

// typeArgs appends type arguments when the target is generic (sometimes leaves them out or adds
// them to a non-generic target: that is a diagnostic, never a crash).
func (p *dProg) withArgs(e *dEnt, k int, inner string) string {
	s := p.ref(e, k)
	generic := false
	if len(e.refs) > 0 {
		t := e.refs[k%len(e.refs)]
		if t >= 0 && t < len(p.ents) {
			generic = p.ents[t].kind == dkGTypedef || p.ents[t].kind == dkGClass
		}
	}
	if generic != p.r.Chance(1, 10) {
		return s + "[" + inner + "]"
	}
	return s
}

// wrap puts a reference inside a type expression.
func (p *dProg) wrap(s string) string {
	switch p.r.Below(16) {
	case 0, 1, 2:
		return s
	case 3:
		return s + " | nil"
	case 4:
		return s + "?"
	case 5:
		return s + " | Int"
	case 6:
		return "Int | " + s
	case 7:
		return "ArrayList[" + s + "]"
	case 8:
		return "HashMap[String, " + s + "?]"
	case 9:
		return s + " & Int"
	case 10:
		return "Pair[" + s + ", Int]"
	case 11:
		return p.pick([]string{"^", "~", "&", "%"}) + s
	case 12:
		return "|a: " + s + "|: " + s
	case 13:
		return "(" + s + " | Float)?"
	case 14:
		return "Tuple[" + s + "] | ArrayList[" + s + " | nil]"
	default:
		return "-" + s
	}
}

func (p *dProg) typeOf(e *dEnt, k int) string {
	return p.wrap(p.withArgs(e, k, p.pick([]string{"Int", "T", "String", "Int?"})))
}

func (p *dProg) typeOfAll(e *dEnt) string {
	if len(e.refs) <= 1 {
		return p.typeOf(e, 0)
	}
	var parts []string
	for k := range e.refs {
		parts = append(parts, p.typeOf(e, k))
	}
	return strings.Join(parts, p.pick([]string{" | ", " | ", " & "}))
}

// methods of a container: m0..m2 calling each other / methods of the referenced entities.
func (p *dProg) methods(e *dEnt, inIface bool) string {
	var b strings.Builder
	n := p.r.Below(4)
	for i := 0; i < n; i++ {
		name := fmt.Sprintf("m%d", p.r.Below(3))
		ret := p.pick([]string{"", ": Int", ": " + p.typeOf(e, i), ": " + p.ref(e, i)})
		params := p.pick([]string{"", "", "(a: " + p.typeOf(e, i+1) + ")", "(a: Int = m" + fmt.Sprint(p.r.Below(3)) + "())"})
		if inIface {
			params = p.pick([]string{"", "", "(a: " + p.typeOf(e, i+1) + ")"})
			if p.r.Chance(1, 2) {
				b.WriteString("sig " + name + params + ret + "\n")
			} else {
				b.WriteString("def " + name + params + ret + "; end\n")
			}
			continue
		}
		callee := fmt.Sprintf("m%d", p.r.Below(3))
		body := p.pick([]string{
			callee + "()", "self." + callee + "()", callee, p.ref(e, i) + "." + callee + "()", p.ref(e, i) + "()." + callee + "()",
			p.ref(e, i), p.ref(e, i) + "()", "1", "loop; end", callee + "() + " + p.ref(e, i+1) + "." + callee + "()",
			p.ref(e, i) + "::mac!(1)", "mac!(" + callee + "())",
		})
		pre := p.pick([]string{"", "", "", "self.", "sealed ", "abstract ", "async "})
		if pre == "self." { // a singleton method
			b.WriteString("singleton\ndef " + name + params + ret + " then " + body + "\nend\n")
		} else {
			b.WriteString(pre + "def " + name + params + ret + " then " + body + "\n")
		}
	}
	if !inIface && p.r.Chance(1, 6) {
		b.WriteString("macro mac(a: Elk::AST::ExpressionNode): Elk::AST::ExpressionNode then " + p.pick([]string{"a", "mac!(a)", "m0()", p.ref(e, 0) + "::mac!(a)"}) + "\n")
	}
	return b.String()
}

func (p *dProg) constInit(e *dEnt) string {
	a, b := p.ref(e, 0), p.ref(e, 1)
	m := fmt.Sprintf("m%d", p.r.Below(3))
	return p.pick([]string{
		a, a + " + 1", a + " + " + b, "[" + a + ", " + b + "]", a + "()", a + "." + m + "()", a + "." + m, m + "()", "self." + m + "()",
		a + "()." + m + "()", "{ a: " + a + " }", a + " ?? " + b, "\"${" + a + "}\"", "|| -> " + a, a + "::mac!(1)", "1 as " + a, a + "::" + "C9",
		"if " + a + " then " + b + " else 1", a + "." + m + "() + " + b + "." + m + "()",
	})
}

// declName: the name under which an entity is declared - usually its plain name (it is printed
// inside its namespace), sometimes a qualified one (`class M::A`), which Elk accepts.
func (p *dProg) declName(e *dEnt, i int, inside bool) string {
	if inside {
		if p.r.Chance(1, 12) {
			return p.refName(i, 1+p.r.Below(2))
		}
		return e.name
	}
	return p.refName(i, 1+p.r.Below(2))
}

func (p *dProg) decl(i int, inside bool) string {
	e := &p.ents[i]
	name := p.declName(e, i, inside)
	tp := p.pick([]string{"[T]", "[T]", "[+T]", "[T < " + p.ref(e, 0) + "]", "[T = " + p.ref(e, 0) + "]", "[K, V]", "[T > " + p.ref(e, 1) + " < " + p.ref(e, 0) + "]"})
	switch e.kind {
	case dkTypedef:
		return "typedef " + name + " = " + p.typeOfAll(e) + "\n"
	case dkGTypedef:
		return "typedef " + name + tp + " = " + p.pick([]string{"T | ", "T | ", "", "ArrayList[T] | "}) + p.typeOfAll(e) + "\n"
	case dkConst:
		return "const " + name + p.pick([]string{"", "", ": Int", ": " + p.typeOf(e, 1), ": String"}) + " = " + p.constInit(e) + "\n"
	}
	var b strings.Builder
	kw := map[int]string{dkClass: "class", dkGClass: "class", dkMixin: "mixin", dkIface: "interface", dkModule: "module"}[e.kind]
	mod := ""
	if e.kind == dkClass || e.kind == dkGClass {
		mod = p.pick([]string{"", "", "", "abstract ", "sealed ", "primitive ", "noinit "})
	} else if e.kind == dkMixin {
		mod = p.pick([]string{"", "", "abstract "})
	}
	b.WriteString(mod + kw + " " + name)
	if e.kind == dkGClass || (p.r.Chance(1, 8) && e.kind != dkModule) {
		b.WriteString(tp)
	}
	k := 0
	if (e.kind == dkClass || e.kind == dkGClass) && len(e.refs) > 0 && p.r.Chance(4, 5) {
		b.WriteString(" < " + p.withArgs(e, 0, p.pick([]string{"T", "Int", name})))
		k = 1
	}
	b.WriteString("\n")
	for ; k < len(e.refs) || (k == 0 && p.r.Chance(1, 2)); k++ {
		t := p.withArgs(e, k, p.pick([]string{"T", "Int"}))
		switch p.r.Below(9) {
		case 0, 1:
			b.WriteString("include " + t + "\n")
		case 2, 3:
			b.WriteString("implement " + t + "\n")
		case 4:
			b.WriteString(p.pick([]string{"var @f: ", "getter f: ", "attr f: ", "setter f: "}) + p.wrap(t) + "\n")
		case 5:
			b.WriteString("typedef Inner = " + p.wrap(t) + "\n")
		case 6:
			b.WriteString("const C9" + p.pick([]string{"", ": " + p.wrap(t)}) + " = " + p.constInit(e) + "\n")
		case 7:
			b.WriteString("using " + p.ref(e, k) + p.pick([]string{"", "", "::*", "::{Inner, m0}"}) + "\n")
		default:
			if e.kind == dkMixin || e.kind == dkIface {
				b.WriteString(p.pick([]string{"include ", "implement "}) + t + "\n")
			} else {
				b.WriteString("class Inner < " + t + "; end\n")
			}
		}
	}
	b.WriteString(p.methods(e, e.kind == dkIface))
	b.WriteString("end\n")
	return b.String()
}

// use: statements at the root that exercise entity i after (or before) the declarations.
func (p *dProg) use(i int, x int) string {
	e := p.ents[i]
	n := p.refName(i, []int{1, 1, 2, 0, 3}[p.r.Below(5)])
	arg := ""
	if e.kind == dkGTypedef || e.kind == dkGClass {
		arg = p.pick([]string{"[Int]", "[Int]", "[String?]", "", "[" + n + "[Int]]"})
	}
	v := fmt.Sprintf("x%d", x)
	m := fmt.Sprintf("m%d", p.r.Below(3))
	if e.kind == dkConst {
		return p.pick([]string{"println(" + n + ")", "var " + v + " = " + n, "var " + v + ": Int = " + n, v + " := " + n + " + 1", "typedef U" + v + " = " + n, "const K" + v + " = " + n + "\nprintln(K" + v + ")"}) + "\n"
	}
	cands := []string{
		"var " + v + ": " + n + arg + " = 1",
		"var " + v + ": " + n + arg + " = 1",
		"var " + v + ": " + n + arg + " = nil",
		"var " + v + ": " + n + arg + "? = \"s\"",
		"var " + v + ": Int | " + n + arg + " = 1.5",
		"var " + v + ": ArrayList[" + n + arg + "] = [1]",
		"var " + v + ": " + n + arg + "\n" + v + " = 2",
		v + " := 1 as " + n,
		"def f" + v + "(a: " + n + arg + "): " + n + arg + " then a\nf" + v + "(1)",
		"typedef U" + v + " = " + n + arg + " | Int\nvar " + v + ": U" + v + " = :s",
		"println(1 <: " + n + ")",
		"var " + v + ": Int = 1\nvar y" + v + ": " + n + arg + " = " + v,
	}
	if e.kind != dkTypedef && e.kind != dkGTypedef {
		cands = append(cands,
			v+" := "+n+"()",
			v+" := "+n+p.pick([]string{"", "::[Int]"})+"(1)",
			"var "+v+": "+n+arg+" = "+n+"()",
			n+"."+m+"()",
			n+"()."+m+"()",
			n+"."+m,
			n+"::mac!(1)",
			n+"::foo!()",
			"println("+n+"::C9)",
			"var "+v+": "+n+"::Inner = 1",
			"class Sub"+v+" < "+n+arg+"; end\nvar "+v+": Sub"+v+" = 1",
			"class Inc"+v+"\ninclude "+n+arg+"\nend\nInc"+v+"()."+m+"()",
			"class Imp"+v+"\nimplement "+n+arg+"\nend\nvar "+v+": "+n+arg+" = Imp"+v+"()",
			"using "+n+"::*\n"+m+"()",
			"switch 1\ncase "+n+"() then 1\ncase "+n+"(f: 1) then 2\nend",
		)
	}
	return p.pick(cands) + "\n"
}

var dNames = []string{"A", "B", "C", "D", "E"}

// declProgram generates one program.
func declProgram(r *hx.Rng) string {
	p := &dProg{r: r}
	// namespaces
	p.nss = []dNs{{nil, ""}}
	layout := r.Below(6)
	ck := func() string { return p.pick([]string{"module", "module", "class", "class", "mixin", "interface"}) }
	if layout >= 1 {
		top := p.pick([]string{"M", "M", "Outer"})
		p.nss = append(p.nss, dNs{[]string{top}, ck()})
		if layout == 3 || layout == 4 {
			p.nss = append(p.nss, dNs{[]string{top, "N"}, ck()})
		}
		if layout == 5 {
			p.nss = append(p.nss, dNs{[]string{"K"}, ck()})
		}
	}
	// entities: a theme makes homogeneous graphs (all typedefs, all classes, ...) likely
	n := r.Range(1, 4)
	themes := [][]int{
		{dkTypedef, dkTypedef, dkTypedef, dkGTypedef},
		{dkClass, dkClass, dkClass, dkGClass},
		{dkMixin, dkIface, dkClass, dkMixin, dkIface},
		{dkConst, dkConst, dkConst, dkModule, dkClass},
		{dkTypedef, dkGTypedef, dkClass, dkGClass, dkMixin, dkIface, dkModule, dkConst},
		{dkTypedef, dkClass, dkGTypedef, dkGClass},
		{dkModule, dkClass, dkConst, dkMixin},
	}
	theme := themes[r.Below(len(themes))]
	for i := 0; i < n; i++ {
		ns := 0
		if len(p.nss) > 1 && r.Chance(3, 4) {
			ns = 1 + r.Below(len(p.nss)-1)
		}
		p.ents = append(p.ents, dEnt{kind: theme[r.Below(len(theme))], name: dNames[i], ns: ns})
	}
	if n >= 2 && r.Chance(1, 8) { // duplicate name: two entities (maybe of different kinds) under one name
		p.ents[n-1].name = p.ents[0].name
		if r.Chance(1, 2) {
			p.ents[n-1].ns = p.ents[0].ns
		}
	}
	// edges
	style := []int{0, 1, 1, 2, 2, 3}[r.Below(6)]
	addEdge := func(a, b int) {
		p.ents[a].refs = append(p.ents[a].refs, b)
		p.ents[a].form = append(p.ents[a].form, p.pickForm(style))
	}
	switch shape := r.Below(8); {
	case shape <= 3: // a cycle of length 1..3 (bounded by n) through the first entities, then extras
		l := r.Range(1, 3)
		if l > n {
			l = n
		}
		for i := 0; i < l; i++ {
			addEdge(i, (i+1)%l)
		}
		for i := l; i < n; i++ {
			addEdge(i, r.Below(n))
		}
	case shape == 4: // forward chain: i -> i+1, the last one closes nothing
		for i := 0; i+1 < n; i++ {
			addEdge(i, i+1)
		}
	case shape == 5: // a missing name somewhere in a chain
		for i := 0; i < n; i++ {
			if r.Chance(1, 3) {
				addEdge(i, -1)
			} else {
				addEdge(i, r.Below(n))
			}
		}
	default: // random edges, 1-2 per entity
		for i := 0; i < n; i++ {
			for k := r.Range(1, 2); k > 0; k-- {
				addEdge(i, r.Below(n))
			}
		}
	}
	if r.Chance(1, 4) { // one more edge anywhere
		addEdge(r.Below(n), r.Below(n))
	}
	// print: entities grouped by namespace, order shuffled; a namespace may be reopened
	order := make([]int, n)
	for i := range order {
		order[i] = i
	}
	for i := n - 1; i > 0; i-- {
		j := r.Below(i + 1)
		order[i], order[j] = order[j], order[i]
	}
	var decls strings.Builder
	open := func(ns dNs, depth int) {
		decls.WriteString(ns.kind + " " + ns.path[depth] + "\n")
	}
	flat := r.Chance(1, 6) // declare everything at the root under qualified names (`class M::A`)
	for _, i := range order {
		ns := p.nss[p.ents[i].ns]
		if flat || len(ns.path) == 0 {
			decls.WriteString(p.decl(i, len(ns.path) == 0))
			continue
		}
		// the enclosing containers: `module M` + nested `class N`, or `class M::N` in one go
		if len(ns.path) == 2 && r.Chance(1, 4) {
			decls.WriteString(ns.kind + " " + p.pick([]string{"", "::"}) + ns.path[0] + "::" + ns.path[1] + "\n")
			decls.WriteString(p.decl(i, true))
			decls.WriteString("end\n")
			continue
		}
		for d := range ns.path {
			if d == len(ns.path)-1 {
				open(ns, d)
			} else {
				open(p.nss[1], d)
			}
		}
		decls.WriteString(p.decl(i, true))
		for range ns.path {
			decls.WriteString("end\n")
		}
	}
	if flat { // the containers must exist for `class M::A` to be declarable: declare them empty (or not at all)
		var pre strings.Builder
		for _, ns := range p.nss[1:] {
			if r.Chance(5, 6) {
				if len(ns.path) == 2 {
					pre.WriteString(p.nss[1].kind + " " + ns.path[0] + "\n" + ns.kind + " " + ns.path[1] + "; end\nend\n")
				} else {
					pre.WriteString(ns.kind + " " + ns.path[0] + "; end\n")
				}
			}
		}
		s := decls.String()
		decls.Reset()
		decls.WriteString(pre.String() + s)
	}
	var uses strings.Builder
	x := 0
	for _, i := range order {
		for k := r.Range(1, 2); k > 0; k-- {
			uses.WriteString(p.use(i, x))
			x++
		}
	}
	switch r.Below(8) {
	case 0: // uses first: everything is a forward reference
		return uses.String() + decls.String()
	case 1: // declarations only
		return decls.String()
	default:
		return decls.String() + uses.String()
	}
}
