package main

import (
	"fmt"
	"os"

	"github.com/elk-language/elk/parser"
)

func main() {
	b, _ := os.ReadFile(os.Args[1])
	_, dl := parser.Parse("x", string(b))
	fmt.Println("len", len(b))
	for _, d := range dl {
		fmt.Println(d.Message, d.Location.StartPos.ByteOffset, d.Location.EndPos.ByteOffset, d.Location.StartPos.Line, d.Location.EndPos.Line)
	}
}
