// c03: stream c03.front - FUZZING (not proof) of the Elk front end for totality.
//
// Every input (a byte string) goes through four stages, each under its own recover():
//
//	lex    lexer.Lex(src)                                  ok | diag (an ERROR token)
//	parse  parser.Parse(name, src)                         ok | diag
//	check  checker.CheckSource(name, src, nil, 0, nil)     ok | diag | skip (parser rejected the input:
//	       CheckSource returns the parser's diagnostics without running the checker) | off (the driver did
//	       not give this input the checker stage)
//	regex  regex.Transpile(src, flags) for 10 flag bytes, the input taken as a regex literal body
//	render the REPORTING step of `elk run` / the REPL: the diagnostics of parser.Parse (and of the
//	       checker stage when it ran) are printed with DiagnosticList.HumanStringWithSourceMap(true,
//	       lexer.Colorizer{}, {name: src}) - every excerpt line is re-lexed by lexer.Colorize WITHOUT its
//	       newline - and lexer.Colorize runs on the whole input and on each of its lines (what the
//	       REPL's highlighter does with a fragment)            ok | diag (something was printed) | off
//
// A stage that panics is reported as panic:<file>:<function>:<message> where file/function name the
// top-most frame of the panicking goroutine that lies in the elk module (no line numbers: stable
// under patches).
//
// Two modes:
//
//	-worker   reads "id \t hex(bytes) \t stages" lines on stdin; prints "B\t<id>" before and
//	          "E\t<id>\t<results>" after every input, flushing both, so the driver knows which input was
//	          in flight when the process dies (Go fatal error, stack overflow, panic in another
//	          goroutine) or hangs.
//	default   driver: generates the inputs (all randomness from hx.NewRng(seed)), deals them to K=8
//	          worker subprocesses, enforces a watchdog and prints "id \t hex(input) \t observed".
//
// Watchdog. The machine may be heavily loaded, so wall-clock alone is unreliable. An input is
// abandoned in the first round when the worker has burnt > 2 s of CPU on it (utime+stime from
// /proc/<pid>/stat: load-independent) or 20 s of wall have passed; the worker is asked (SIGUSR1)
// for 8 snapshots of its goroutine stacks - the deepest frame common to all of them is the
// function whose loop does not terminate - and the input is RETRIED
// alone in a fresh worker with 6 s CPU / 60 s wall. Only a second expiry is reported as
// "timeout:<stage>:<file>:<function>". A worker that dies is treated alike: the input in flight is
// retried alone, and only a second death is reported "fatal:<stage>:<file>:<function>:<message>".
// To bound the cost of a hang that many inputs reach, after 3 confirmed timeouts at one site
// further first-round expiries at the same site are reported "timeout-unretried:<site>".
// Inputs of generator p (tiny, no checker stage) have 0.5 s of CPU in the first round and 1.5 s in
// the retry; after 12 first-round expiries at one site the remaining p inputs are skipped
// ("skipped:site-cap:<site>").
//
// Generator d (decl.go): declaration-level programs for the checker stage - graphs of typedefs,
// classes, mixins, interfaces, modules and constants referring to each other in every name form
// (plain, M::X, ::M::X, nested), with cycles, forward references, duplicates and missing names on
// purpose, every entity used afterwards; 1 s of CPU in the first round, 3 s in the retry.
//
// Corpus / -input file format (corpus/C03.front.txt): one input per line, either
// "text:<escaped>" (escapes \\ \n \t \r \xHH, everything else literal) or "hex:<hex bytes>";
// lines starting with '#' are comments.
package main

import (
	"bufio"
	"bytes"
	"encoding/hex"
	"flag"
	"fmt"
	"io"
	"os"
	"os/exec"
	"os/signal"
	"path/filepath"
	"regexp"
	"runtime"
	"runtime/debug"
	"sort"
	"strconv"
	"strings"
	"sync"
	"syscall"
	"time"

	"verifharness/hx"

	"github.com/elk-language/elk/bitfield"
	"github.com/elk-language/elk/lexer"
	"github.com/elk-language/elk/parser"
	"github.com/elk-language/elk/position/diagnostic"
	"github.com/elk-language/elk/regex"
	"github.com/elk-language/elk/token"
	"github.com/elk-language/elk/types/checker"

	// the packages whose init() registers the native runtime (AST/lexer/parser classes that macros
	// call at compile time): exactly the side-effect imports of the root package `elk`, which cmd/elk
	// links (the root package itself has no init and is not imported: tools/seedcheck.sh copies hook
	// files of other packages into the root directory of its scratch worktree)
	_ "github.com/elk-language/elk/ext/std"
	_ "github.com/elk-language/elk/lexer/runtime"
	_ "github.com/elk-language/elk/parser/ast/runtime"
	_ "github.com/elk-language/elk/parser/runtime"
	_ "github.com/elk-language/elk/position/diagnostic/runtime"
	_ "github.com/elk-language/elk/repl/breakpoint"
	_ "github.com/elk-language/elk/types/runtime"
)

const modPrefix = "github.com/elk-language/elk/"

// ------------------------------------------------------------------ panic sites

// siteOf turns a fully qualified Go function name and its file into "<pkgdir>/<file>:<func>".
func siteOf(fn, file string) string {
	fn = strings.TrimPrefix(fn, modPrefix)
	slash := strings.LastIndexByte(fn, '/')
	dot := strings.IndexByte(fn[slash+1:], '.')
	pkg, name := fn, ""
	if dot >= 0 {
		pkg, name = fn[:slash+1+dot], fn[slash+1+dot+1:]
	}
	// the directory of the package is its import path below the module root
	return pkg + "/" + filepath.Base(file) + ":" + name
}

// isAccessor: frames of the leaf data packages (token, position) - the interesting site is the caller.
func isAccessor(fn string) bool {
	fn = strings.TrimPrefix(fn, modPrefix)
	if strings.Contains(fn, "HumanString") { // the diagnostic printer lives in package position
		return false
	}
	return strings.HasPrefix(fn, "token.") || strings.HasPrefix(fn, "position.")
}

func firstLine(s string) string {
	if i := strings.IndexByte(s, '\n'); i >= 0 {
		s = s[:i]
	}
	s = strings.ReplaceAll(s, "\t", " ")
	if len(s) > 160 {
		s = s[:160]
	}
	return s
}

// guard runs one stage; a panic becomes "panic:<site>:<message>".
func guard(f func() string) (res string) {
	defer func() {
		if r := recover(); r != nil {
			site := "unknown"
			pcs := make([]uintptr, 64)
			n := runtime.Callers(2, pcs)
			frames := runtime.CallersFrames(pcs[:n])
			for {
				fr, more := frames.Next()
				if strings.HasPrefix(fr.Function, modPrefix) {
					site = siteOf(fr.Function, fr.File)
					// a nil receiver inside a token/position accessor is blamed on its caller
					if !isAccessor(fr.Function) || !more {
						break
					}
				}
				if !more {
					break
				}
			}
			res = "panic:" + site + ":" + firstLine(fmt.Sprint(r))
			if os.Getenv("C03_TRACE") != "" { // debugging aid: full stack of a recovered panic
				fmt.Fprintf(os.Stderr, "%s\n%s\n", res, debug.Stack())
			}
		}
	}()
	return f()
}

var regexFlagBytes = []uint8{0, 1, 2, 4, 8, 16, 32, 0x3f, 0x15, 0xff}

// The stages are named functions so that a stack dump of a hung or dead worker tells the stage.
//
//go:noinline
func stageLex(src string) string {
	r := "ok"
	for _, t := range lexer.Lex(src) {
		if t.Type == token.ERROR {
			r = "diag"
		}
	}
	return r
}

//go:noinline
func stageParse(src string) string {
	_, dl := parser.Parse("<c03>", src)
	if len(dl) > 0 {
		return "diag"
	}
	return "ok"
}

// diagnostics of the last checker stage, printed by the render stage
var lastCheckDiags diagnostic.DiagnosticList

//go:noinline
func stageCheck(src string) string {
	_, dl := checker.CheckSource("<c03>", src, nil, bitfield.BitField16{}, nil)
	lastCheckDiags = dl
	if dl.IsFailure() {
		return "diag"
	}
	return "ok"
}

//go:noinline
func stageRender(src string, checkDiags diagnostic.DiagnosticList) string {
	r := "ok"
	sm := map[string]string{"<c03>": src}
	_, dl := parser.Parse("<c03>", src)
	for _, l := range []diagnostic.DiagnosticList{dl, checkDiags} {
		if len(l) == 0 {
			continue
		}
		// an error return (source of another file unreadable) is a report, not a crash
		if str, err := l.HumanStringWithSourceMap(true, lexer.Colorizer{}, sm); err == nil && str != "" {
			r = "diag"
		}
	}
	lexer.Colorize(src)
	if strings.IndexByte(src, '\n') >= 0 {
		for _, line := range strings.Split(src, "\n") {
			lexer.Colorize(line)
		}
	}
	return r
}

//go:noinline
func stageRegex(src string) string {
	r := "ok"
	for _, f := range regexFlagBytes {
		_, dl := regex.Transpile(src, bitfield.BitField8FromInt(f))
		if len(dl) > 0 {
			r = "diag"
		}
	}
	return r
}

func runStages(src string, stages string) string {
	lex := guard(func() string { return stageLex(src) })
	parse := guard(func() string { return stageParse(src) })
	check := "off"
	lastCheckDiags = nil
	if strings.Contains(stages, "c") {
		if parse != "ok" {
			check = "skip"
		} else {
			check = guard(func() string { return stageCheck(src) })
		}
	}
	rx := "off"
	if strings.Contains(stages, "r") {
		rx = guard(func() string { return stageRegex(src) })
	}
	rd := "off"
	if strings.Contains(stages, "d") {
		cd := lastCheckDiags
		rd = guard(func() string { return stageRender(src, cd) })
	}
	lastCheckDiags = nil
	return "lex=" + lex + ";parse=" + parse + ";check=" + check + ";regex=" + rx + ";render=" + rd
}

// stageOf names the stage a goroutine block of a stack dump was in ("check" for a goroutine
// without a stage frame: only the checker starts goroutines).
func stageOf(block string) string {
	for _, st := range [][2]string{{"main.stageLex", "lex"}, {"main.stageParse", "parse"}, {"main.stageCheck", "check"}, {"main.stageRegex", "regex"}, {"main.stageRender", "render"}} {
		if strings.Contains(block, st[0]+"(") {
			return st[1]
		}
	}
	if block == "" {
		return "unknown"
	}
	return "check"
}

func workerMain() {
	debug.SetMaxStack(256 << 20) // a runaway recursion dies after 256 MB instead of 1 GB
	installSampler()
	in := bufio.NewReaderSize(os.Stdin, 1<<20)
	out := bufio.NewWriter(os.Stdout)
	// package initialisation (the native global environment) costs up to 1-2 s of CPU under load:
	// tell the driver when it is over so that it is not charged to the first input
	fmt.Fprintf(out, "R\n")
	out.Flush()
	for {
		line, err := in.ReadString('\n')
		line = strings.TrimRight(line, "\r\n")
		if line != "" {
			p := strings.Split(line, "\t")
			if len(p) >= 2 {
				b, herr := hex.DecodeString(p[1])
				stages := "lpcrd"
				if len(p) >= 3 {
					stages = p[2]
				}
				fmt.Fprintf(out, "B\t%s\n", p[0])
				out.Flush()
				res := "bad-hex"
				if herr == nil {
					res = runStages(string(b), stages)
				}
				fmt.Fprintf(out, "E\t%s\t%s\n", p[0], strings.ReplaceAll(res, "\n", "\\n"))
				out.Flush()
			}
		}
		if err != nil {
			return
		}
	}
}

// ------------------------------------------------------------------ driver: worker pool

type job struct {
	idx    int
	id     string
	src    string
	stages string
	cpu    float64 // first-round CPU budget in seconds (0 = default 2 s); the retry gets three times as much
}

func (j job) budget() float64 {
	if j.cpu > 0 {
		return j.cpu
	}
	return 2.0
}

// siteCap: after this many first-round expiries at ONE site the remaining inputs of generator p are
// not run any more ("skipped:site-cap:<site>"): a hang in a scanner is reached by hundreds of
// prefixes and every expiry costs a worker restart. The run fails anyway (the expiries are retried
// and reported); the skipped inputs are counted in the evidence.
const siteCap = 12

type wproc struct {
	cmd    *exec.Cmd
	stdin  io.WriteCloser
	lines  chan string
	stderr *capBuf
}

// capBuf keeps the first 256 kB written to it.
type capBuf struct {
	mu sync.Mutex
	b  bytes.Buffer
}

func (c *capBuf) Write(p []byte) (int, error) {
	c.mu.Lock()
	if c.b.Len() < 256<<10 {
		c.b.Write(p)
	}
	c.mu.Unlock()
	return len(p), nil
}
func (c *capBuf) String() string { c.mu.Lock(); defer c.mu.Unlock(); return c.b.String() }

func startWorker() *wproc {
	cmd := exec.Command(os.Args[0], "-worker")
	cmd.Env = append(os.Environ(), "GOTRACEBACK=all", "GOMAXPROCS=2")
	stdin, err := cmd.StdinPipe()
	if err != nil {
		panic(err)
	}
	stdout, err := cmd.StdoutPipe()
	if err != nil {
		panic(err)
	}
	w := &wproc{cmd: cmd, stdin: stdin, lines: make(chan string, 16), stderr: &capBuf{}}
	cmd.Stderr = w.stderr
	if err := cmd.Start(); err != nil {
		panic(err)
	}
	go func() {
		rd := bufio.NewReaderSize(stdout, 1<<16)
		for {
			l, err := rd.ReadString('\n')
			if l != "" {
				w.lines <- strings.TrimRight(l, "\r\n")
			}
			if err != nil {
				close(w.lines)
				return
			}
		}
	}()
	// wait for the "R" (ready) line
	select {
	case <-w.lines:
	case <-time.After(180 * time.Second):
	}
	return w
}

// cpuTicks: utime+stime of the process in clock ticks (100 Hz), -1 if unreadable.
func cpuTicks(pid int) int64 {
	b, err := os.ReadFile(fmt.Sprintf("/proc/%d/stat", pid))
	if err != nil {
		return -1
	}
	s := string(b)
	i := strings.LastIndexByte(s, ')') // comm may contain spaces
	f := strings.Fields(s[i+1:])
	if len(f) < 13 {
		return -1
	}
	u, _ := strconv.ParseInt(f[11], 10, 64)
	k, _ := strconv.ParseInt(f[12], 10, 64)
	return u + k
}

func (w *wproc) stop() {
	w.stdin.Close()
	done := make(chan struct{})
	go func() { w.cmd.Wait(); close(done) }()
	select {
	case <-done:
	case <-time.After(10 * time.Second):
		w.cmd.Process.Kill()
		<-done
	}
}

// quitAndCollect asks a hung worker for samples of its goroutine stacks (SIGUSR1, see
// installSampler; SIGQUIT and then SIGKILL if it does not answer) and returns its stderr.
func (w *wproc) quitAndCollect() string {
	done := make(chan struct{})
	go func() { w.cmd.Wait(); close(done) }()
	for _, sig := range []syscall.Signal{syscall.SIGUSR1, syscall.SIGQUIT, syscall.SIGKILL} {
		w.cmd.Process.Signal(sig)
		select {
		case <-done:
			return w.stderr.String()
		case <-time.After(12 * time.Second):
		}
	}
	<-done
	return w.stderr.String()
}

// installSampler: on SIGUSR1 the worker writes 8 snapshots of all goroutine stacks, 25 ms apart,
// to stderr and exits. The driver takes the deepest frame common to all snapshots of the
// goroutine that runs the stages: the function whose loop does not terminate (the frames below it
// change from snapshot to snapshot).
func installSampler() {
	ch := make(chan os.Signal, 1)
	signal.Notify(ch, syscall.SIGUSR1)
	go func() {
		<-ch
		buf := make([]byte, 2<<20)
		for k := 0; k < 8; k++ {
			n := runtime.Stack(buf, true)
			fmt.Fprintf(os.Stderr, "\n=== sample %d\n%s\n", k, buf[:n])
			time.Sleep(25 * time.Millisecond)
		}
		os.Exit(3)
	}()
}

var frameFn = regexp.MustCompile(`^(github\.com/elk-language/elk/\S.*)\([^()]*\)$`)
var frameFnLoose = regexp.MustCompile(`^(github\.com/elk-language/elk/[^\s(]+(?:\(\*?[\w\[\],.*/ ]+\))?[\w.\[\]·]*)`)

type frame struct{ fn, site string }

// pickBlock chooses the goroutine of interest in a Go stack dump: the one running the stages
// (preferMain), else the first one that has a frame in the elk module.
func pickBlock(dump string, preferMain bool) string {
	blocks := strings.Split("\n"+dump, "\ngoroutine ")
	if preferMain {
		for _, b := range blocks[1:] {
			if strings.Contains(b, "main.runStages(") {
				return b
			}
		}
	}
	for _, b := range blocks[1:] {
		if strings.Contains(b, "\n"+modPrefix) {
			return b
		}
	}
	return ""
}

// elkFrames lists the frames of one goroutine block that lie in the elk module, innermost first.
func elkFrames(block string) []frame {
	var out []frame
	ls := strings.Split(block, "\n")
	for i, l := range ls {
		if !strings.HasPrefix(l, modPrefix) {
			continue
		}
		fn := ""
		if m := frameFn.FindStringSubmatch(l); m != nil {
			fn = m[1]
		} else if m := frameFnLoose.FindStringSubmatch(l); m != nil {
			fn = m[1]
		} else {
			continue
		}
		file := "unknown.go"
		if i+1 < len(ls) {
			f := strings.TrimSpace(ls[i+1])
			if j := strings.Index(f, ".go:"); j >= 0 {
				file = f[:j+3]
			}
		}
		out = append(out, frame{fn, siteOf(fn, file)})
	}
	return out
}

// traceSite extracts "<file>:<function>" of the top-most elk frame from a Go crash/SIGQUIT dump
// (a frame in a token/position accessor is skipped in favour of its caller).
func traceSite(dump string, preferMain bool) string {
	best := "unknown"
	blk := pickBlock(dump, preferMain)
	for _, f := range elkFrames(blk) {
		best = f.site
		if !isAccessor(f.fn) {
			break
		}
	}
	return stageOf(blk) + ":" + best
}

// recursionSite: when the goroutine's stack is a runaway recursion (some elk function occurs at least
// three times among the innermost 60 elk frames; for a stack overflow also: more than 100 frames, so the
// Go runtime elided the middle) the place where a watchdog sample or the stack-overflow happens to catch it is
// arbitrary. The stable name of such a failure is the recursion cycle itself; it is represented by
// the lexicographically smallest site among the repeated ones, marked "~rec".
func recursionSite(blk string, needElided bool) (string, bool) {
	if needElided && !strings.Contains(blk, "frames elided") {
		return "", false
	}
	fr := elkFrames(blk)
	if len(fr) > 60 {
		fr = fr[:60]
	}
	cnt := map[string]int{}
	for _, f := range fr {
		if strings.HasPrefix(f.site, "ds/") || isAccessor(f.fn) {
			continue
		}
		cnt[f.site]++
	}
	best := ""
	for s, n := range cnt {
		if n >= 3 && (best == "" || s < best) {
			best = s
		}
	}
	if best == "" {
		return "", false
	}
	return best + "~rec", true
}

// hangSite: deepest frame common to all stack samples of the stage goroutine (or the recursion cycle,
// see recursionSite, when the last sample shows a runaway recursion).
func hangSite(dump string) string {
	parts := strings.Split(dump, "\n=== sample ")
	if len(parts) < 2 {
		return traceSite(dump, true)
	}
	var common []frame // outermost first
	stage := "unknown"
	// a recursion whose depth oscillates is only sometimes caught deep: look at every sample
	bestRec, recStage := "", ""
	for _, p := range parts[1:] {
		if blk := pickBlock(p, true); blk != "" {
			if rs, ok := recursionSite(blk, false); ok && (bestRec == "" || rs < bestRec) {
				bestRec, recStage = rs, stageOf(blk)
			}
		}
	}
	if bestRec != "" {
		return recStage + ":" + bestRec
	}
	for k, p := range parts[1:] {
		blk := pickBlock(p, true)
		if k == 0 {
			stage = stageOf(blk)
		}
		fr := elkFrames(blk)
		for i, j := 0, len(fr)-1; i < j; i, j = i+1, j-1 {
			fr[i], fr[j] = fr[j], fr[i]
		}
		if k == 0 {
			common = fr
			continue
		}
		n := 0
		for n < len(common) && n < len(fr) && common[n].site == fr[n].site {
			n++
		}
		common = common[:n]
	}
	// a helper of the data-structure package (ds.Set.Contains ...) that happens to be on top in every
	// sample is not the loop: blame its caller
	for len(common) > 1 && strings.HasPrefix(common[len(common)-1].site, "ds/") {
		common = common[:len(common)-1]
	}
	if len(common) == 0 {
		return stage + ":unknown"
	}
	return stage + ":" + common[len(common)-1].site
}

// fatalSummary: "<site>:<first fatal/panic line>" of a dead worker's stderr.
func fatalSummary(dump string, exit string) string {
	msg := ""
	for _, l := range strings.Split(dump, "\n") {
		if strings.HasPrefix(l, "fatal error:") || strings.HasPrefix(l, "panic:") || strings.HasPrefix(l, "runtime: goroutine stack exceeds") {
			msg = l
			if !strings.HasPrefix(l, "runtime:") {
				break
			}
		}
	}
	if msg == "" {
		msg = "worker exited (" + exit + ") without a Go trace"
	}
	if strings.Contains(msg, "stack overflow") || strings.Contains(msg, "stack exceeds") {
		if blk := pickBlock(dump, false); blk != "" {
			if rs, ok := recursionSite(blk, true); ok {
				return stageOf(blk) + ":" + rs + ":" + firstLine(msg)
			}
		}
	}
	return traceSite(dump, false) + ":" + firstLine(msg)
}

type outcome struct {
	kind string // "done" | "timeout" | "died"
	obs  string // done: stage results; timeout: site; died: fatal summary
}

// runOne sends one job to w and waits. On timeout/death the worker is gone (w must be dropped).
func runOne(w *wproc, j job, cpuBudget float64, wallBudget time.Duration) outcome {
	pid := w.cmd.Process.Pid
	// the CPU clock of the input starts at the first watchdog tick (150 ms after it was sent): reading
	// /proc/<pid>/stat for every one of tens of thousands of 30 us inputs costs more than the inputs
	cpu0 := int64(-2)
	_, err := fmt.Fprintf(w.stdin, "%s\t%s\t%s\n", j.id, hex.EncodeToString([]byte(j.src)), j.stages)
	deadline := time.After(wallBudget)
	tick := time.NewTicker(150 * time.Millisecond)
	defer tick.Stop()
	died := func() outcome {
		werr := w.cmd.Wait()
		ex := "exit 0"
		if werr != nil {
			ex = werr.Error()
		}
		return outcome{"died", fatalSummary(w.stderr.String(), ex)}
	}
	if err != nil {
		// the worker is already dead: drain
		for range w.lines {
		}
		return died()
	}
	for {
		select {
		case l, ok := <-w.lines:
			if !ok {
				return died()
			}
			if strings.HasPrefix(l, "E\t"+j.id+"\t") {
				return outcome{"done", l[len("E\t"+j.id+"\t"):]}
			}
		case <-tick.C:
			if cpu0 == -2 {
				cpu0 = cpuTicks(pid)
				continue
			}
			if c := cpuTicks(pid); c >= 0 && cpu0 >= 0 && float64(c-cpu0)/100.0 > cpuBudget {
				return outcome{"timeout", hangSite(w.quitAndCollect())}
			}
		case <-deadline:
			return outcome{"timeout", hangSite(w.quitAndCollect())}
		}
	}
}

func runAll(jobs []job) []string {
	const K = 8
	res := make([]string, len(jobs))
	first := make([]outcome, len(jobs))
	ch := make(chan job)
	var wg sync.WaitGroup
	var mu sync.Mutex
	confirmed := map[string]int{} // site -> confirmed timeouts (filled in the retry phase)
	expired := map[string]int{}   // site -> first-round expiries
	for k := 0; k < K; k++ {
		wg.Add(1)
		go func() {
			defer wg.Done()
			var w *wproc
			for j := range ch {
				if j.id[0] == 'p' {
					capped := ""
					mu.Lock()
					for site, c := range expired {
						if c >= siteCap && (capped == "" || site < capped) {
							capped = site
						}
					}
					mu.Unlock()
					if capped != "" {
						mu.Lock()
						first[j.idx] = outcome{"done", "skipped:site-cap:" + capped}
						mu.Unlock()
						continue
					}
				}
				if w == nil {
					w = startWorker()
				}
				o := runOne(w, j, j.budget(), 20*time.Second)
				if o.kind != "done" {
					w = nil
				}
				mu.Lock()
				first[j.idx] = o
				if o.kind == "timeout" {
					expired[o.obs]++
				}
				mu.Unlock()
			}
			if w != nil {
				w.stop()
			}
		}()
	}
	for _, j := range jobs {
		ch <- j
	}
	close(ch)
	wg.Wait()
	// retry phase: every abandoned input alone in a fresh worker, smallest inputs first
	var retry []int
	for i, o := range first {
		if o.kind == "done" {
			res[i] = o.obs
		} else {
			retry = append(retry, i)
		}
	}
	sort.SliceStable(retry, func(a, b int) bool { return len(jobs[retry[a]].src) < len(jobs[retry[b]].src) })
	sem := make(chan struct{}, 4)
	var wg2 sync.WaitGroup
	for _, i := range retry {
		o1 := first[i]
		// declaration-level programs (generator d) are always retried: their failures are identified by
		// the input, so which of them get confirmed must not depend on the (unstable) site names
		if o1.kind == "timeout" && jobs[i].id[0] != 'd' {
			mu.Lock()
			c := confirmed[o1.obs]
			mu.Unlock()
			if c >= 3 {
				res[i] = "timeout-unretried:" + o1.obs
				continue
			}
		}
		sem <- struct{}{}
		wg2.Add(1)
		go func(i int, o1 outcome) {
			defer wg2.Done()
			defer func() { <-sem }()
			w := startWorker()
			o := runOne(w, jobs[i], 3*jobs[i].budget(), 60*time.Second)
			switch o.kind {
			case "done":
				w.stop()
				res[i] = o.obs + ";note=first-round-" + o1.kind + ":" + o1.obs
			case "timeout":
				mu.Lock()
				confirmed[o.obs]++
				mu.Unlock()
				res[i] = "timeout:" + o.obs
			default:
				res[i] = "fatal:" + o.obs
			}
		}(i, o1)
		if o1.kind == "timeout" && jobs[i].id[0] != 'd' {
			// timeouts are retried one at a time so that the per-site cap can take effect
			wg2.Wait()
		}
	}
	wg2.Wait()
	return res
}

// ------------------------------------------------------------------ corpus format

func decodeCorpusLine(l string) (string, bool) {
	switch {
	case strings.HasPrefix(l, "hex:"):
		b, err := hex.DecodeString(strings.TrimSpace(l[4:]))
		return string(b), err == nil
	case strings.HasPrefix(l, "text:"):
		s := l[5:]
		var out []byte
		for i := 0; i < len(s); i++ {
			if s[i] != '\\' || i+1 >= len(s) {
				out = append(out, s[i])
				continue
			}
			i++
			switch s[i] {
			case 'n':
				out = append(out, '\n')
			case 't':
				out = append(out, '\t')
			case 'r':
				out = append(out, '\r')
			case '\\':
				out = append(out, '\\')
			case 'x':
				if i+2 < len(s) {
					if v, err := strconv.ParseUint(s[i+1:i+3], 16, 8); err == nil {
						out = append(out, byte(v))
						i += 2
						continue
					}
				}
				out = append(out, '\\', 'x')
			default:
				out = append(out, '\\', s[i])
			}
		}
		return string(out), true
	}
	return "", false
}

// ------------------------------------------------------------------ valid programs harvested from the repo

var rawSnippet = regexp.MustCompile("(?s)(?:source|input):\\s*`([^`]*)`")
var quotedSnippet = regexp.MustCompile(`(?:source|input):\s*("(?:[^"\\\n]|\\.)*")`)

func harvest(repo string) []string {
	var out []string
	seen := map[string]bool{}
	add := func(s string) {
		if len(s) == 0 || len(s) > 20000 || seen[s] {
			return
		}
		seen[s] = true
		out = append(out, s)
	}
	filepath.Walk(repo, func(p string, info os.FileInfo, err error) error {
		if err != nil {
			return nil
		}
		if info.IsDir() {
			if n := info.Name(); n == ".git" || n == "node_modules" {
				return filepath.SkipDir
			}
			return nil
		}
		if (strings.HasSuffix(p, ".elk") || strings.HasSuffix(p, ".elh")) && info.Size() <= 20000 {
			if b, err := os.ReadFile(p); err == nil {
				add(string(b))
			}
		}
		return nil
	})
	var tests []string
	for _, pat := range []string{"vm/*_test.go", "parser/*_test.go", "types/checker/*_test.go"} {
		m, _ := filepath.Glob(filepath.Join(repo, pat))
		sort.Strings(m)
		tests = append(tests, m...)
	}
	for _, f := range tests {
		b, err := os.ReadFile(f)
		if err != nil {
			continue
		}
		for _, m := range rawSnippet.FindAllSubmatch(b, -1) {
			add(string(m[1]))
		}
		for _, m := range quotedSnippet.FindAllSubmatch(b, -1) {
			if s, err := strconv.Unquote(string(m[1])); err == nil {
				add(s)
			}
		}
	}
	return out
}

// harvestInputs: every input:/source: string literal of the Go test files matching the patterns
// (relative to the repo root), in file order, without duplicates.
func harvestInputs(repo string, patterns ...string) []string {
	var out []string
	seen := map[string]bool{}
	add := func(s string) {
		if len(s) == 0 || len(s) > 20000 || seen[s] {
			return
		}
		seen[s] = true
		out = append(out, s)
	}
	for _, pat := range patterns {
		m, _ := filepath.Glob(filepath.Join(repo, pat))
		sort.Strings(m)
		for _, f := range m {
			b, err := os.ReadFile(f)
			if err != nil {
				continue
			}
			for _, m := range rawSnippet.FindAllSubmatch(b, -1) {
				add(string(m[1]))
			}
			for _, m := range quotedSnippet.FindAllSubmatch(b, -1) {
				if s, err := strconv.Unquote(string(m[1])); err == nil {
					add(s)
				}
			}
		}
	}
	return out
}

// ------------------------------------------------------------------ generators

type gen struct {
	r     *hx.Rng
	valid []string
}

var idents = []string{"a", "b", "c", "foo", "bar", "baz", "x", "self", "_", "println"}
var consts = []string{"Int", "String", "Foo", "Bar", "Std::Int", "ArrayList", "HashMap", "Float", "Object", "Elk::AST::ExpressionNode", "T", "Nil", "Bool"}
var binops = []string{"+", "-", "*", "/", "%", "**", "==", "!=", "===", "<", "<=", ">", ">=", "<=>", "&&", "||", "??", "&", "|", "^", "<<", ">>", "|>", "=~", "<:", ":>", "<<:", "..." /*range*/, "..<", "<..", "and", "or", "&~", "&!"}
var unops = []string{"-", "+", "!", "~", "&", "*", "**", "try ", "must ", "await ", "typeof ", "go ", "not "}
var regexOdd = []string{"(?#", "(?#)", "(?#x", "(?", "(", ")", "[", "]", "[^", "\\", "\\p{", "\\p{L", "\\x{", "\\u", "\\x4", "{", "}", "{1,", "{,2}", "a{2,1}", "(?<n>", "(?<", "(?P<n>", "(?i-m:", "(?i", "(?:", "(?=", "(?!", "(?<=", "*", "+", "?", "|", "^", "$", ".", "[a-", "[\\", "[[:alpha:]]", "[[:", "\\c", "\\0", "\\Q", "\\E", "#", " ", "\n", "/", "\\/", "${", "${a}", "a", "b", "1", "é", "\xff", "-", ",", "[z-a]", "\\b", "\\A", "\\z", "\\h", "\\123", "\\o{"}

func (g *gen) pick(xs []string) string { return xs[g.r.Below(len(xs))] }

func (g *gen) regexBody() string {
	n := g.r.Range(0, 6)
	var b strings.Builder
	for i := 0; i < n; i++ {
		b.WriteString(g.pick(regexOdd))
	}
	return b.String()
}

func (g *gen) regexLit() string {
	flags := []string{"", "", "i", "m", "x", "s", "U", "a", "imsxUa", "z", "ii", "-i", "xx"}
	return "%/" + g.regexBody() + "/" + g.pick(flags)
}

func (g *gen) typ(d int) string {
	if d <= 0 {
		return g.pick(consts)
	}
	switch g.r.Below(14) {
	case 0:
		return g.typ(d-1) + "?"
	case 1:
		return g.typ(d-1) + " | " + g.typ(d-1)
	case 2:
		return g.typ(d-1) + " & " + g.typ(d-1)
	case 3:
		return g.pick(consts) + "[" + g.typ(d-1) + "]"
	case 4:
		return "|" + g.pick(idents) + ": " + g.typ(d-1) + "|: " + g.typ(d-1)
	case 5:
		return g.pick([]string{"never", "void", "any", "nil", "bool", "self", "true", "1", "\"a\"", ":sym", "1.5"})
	case 6:
		return "%[" + g.typ(d-1) + ", " + g.typ(d-1) + "]"
	case 7:
		return g.pick([]string{"^", "~", "&", "%", "-", "+"}) + g.typ(d-1)
	case 8:
		return "(" + g.typ(d-1) + ")"
	case 9:
		return g.pick(consts) + "[" + g.typ(d-1) + ", " + g.typ(d-1) + "]"
	case 10:
		return "||: " + g.typ(d-1)
	case 11:
		return g.typ(d-1) + " / " + g.typ(d-1)
	case 12:
		return "typeof " + g.expr(d-1)
	default:
		return g.pick(consts)
	}
}

func (g *gen) param() string {
	s := g.pick(idents)
	switch g.r.Below(8) {
	case 0:
		return s
	case 1:
		return s + ": " + g.typ(1)
	case 2:
		return s + ": " + g.typ(1) + " = " + g.expr(1)
	case 3:
		return s + " = " + g.expr(1)
	case 4:
		return "*" + s
	case 5:
		return "**" + s + ": " + g.typ(0)
	case 6:
		return s + "?: " + g.typ(0)
	default:
		return "@" + s
	}
}

func (g *gen) params() string {
	n := g.r.Range(0, 3)
	var ps []string
	for i := 0; i < n; i++ {
		ps = append(ps, g.param())
	}
	return strings.Join(ps, ", ")
}

func (g *gen) closure(d int) string {
	body := g.expr(d - 1)
	switch g.r.Below(12) {
	case 0:
		return "|" + g.pick(idents) + "| " + body // missing arrow
	case 1:
		return "|" + g.params() + "| -> " + body
	case 2:
		return "|| " + body // missing arrow
	case 3:
		return "|| -> " + body
	case 4:
		return "-> " + body
	case 5:
		return "|" + g.params() + "|: " + g.typ(1) + " -> " + body
	case 6:
		return "|" + g.params() + "|: " + g.typ(1) + " ! " + g.typ(0) + " -> " + body
	case 7:
		return "|" + g.params() + "| ->\n" + g.stmts(d-1, 2) + "end"
	case 8:
		return "|" + g.pick(idents) + ": " + g.typ(1) + " = " + g.expr(1) + " | " + g.pick(idents) + "|: " + g.typ(0) + " -> " + body
	case 9:
		return "|" + g.params() // unterminated
	case 10:
		return "|" + g.params() + "|: -> " + body
	default:
		return "|" + g.params() + "| " + g.pick([]string{"->", "=>", "-", ">", "", ":"}) + " " + body
	}
}

func (g *gen) strLit(d int) string {
	switch g.r.Below(8) {
	case 0:
		return "\"a${" + g.expr(d-1) + "}b\""
	case 1:
		return "\"#{" + g.expr(d-1) + "}\""
	case 2:
		return "\"${" + g.expr(d-1)
	case 3:
		return "\"#" + g.pick(idents) + " $" + g.pick(idents) + "\""
	case 4:
		return "'raw ${x}'"
	case 5:
		return "\"\\x4\\u{zz}\\q\""
	case 6:
		return "\"abc"
	default:
		return "\"s\""
	}
}

func (g *gen) pattern(d int) string {
	if d <= 0 {
		return g.pick([]string{"1", "\"s\"", "a", "_", "nil", "true", ":sym", "1.5", "Int()", "> 10", "1...5", "< 'a'", "== b", "-1", "`c`", "Foo", "*rest"})
	}
	switch g.r.Below(12) {
	case 0:
		return "[" + g.pattern(d-1) + ", *" + g.pick(idents) + "]"
	case 1:
		return "%[" + g.pattern(d-1) + ", " + g.pattern(d-1) + "]"
	case 2:
		return "{" + g.pick(idents) + ": " + g.pattern(d-1) + "}"
	case 3:
		return "{" + g.expr(0) + " => " + g.pattern(d-1) + "}"
	case 4:
		return g.pick(consts) + "(" + g.pick(idents) + ": " + g.pattern(d-1) + ")"
	case 5:
		return g.pattern(d-1) + " || " + g.pattern(d-1)
	case 6:
		return g.pattern(d-1) + " && " + g.pattern(d-1)
	case 7:
		return g.regexLit()
	case 8:
		return g.pattern(d-1) + " as " + g.pick(idents)
	case 9:
		return "^[" + g.pattern(d-1) + "]"
	case 10:
		return "%{" + g.pick(idents) + ": " + g.pattern(d-1) + "}"
	default:
		return g.pattern(0)
	}
}

// ---- literal grammar: every literal kind the lexer has a scanner (or a lexer mode) for, with
// valid, invalid and missing parts. Used by the p (prefix) generator and by atom().

var intDigits = map[string]string{"": "0123456789", "0x": "0123456789abcdefABCDEF", "0X": "09afAF", "0b": "01", "0B": "01", "0o": "01234567", "0O": "07", "0q": "0123", "0d": "0123456789ab", "0D": "09abAB"}
var intPrefixes = []string{"", "", "", "0x", "0X", "0b", "0B", "0o", "0O", "0q", "0d", "0D"}
var numSuffixes = []string{"", "", "", "i8", "i16", "i32", "i64", "u", "u8", "u16", "u32", "u64", "bf", "f32", "f64", "i9", "u7", "f", "i", "n", "_", "__1"}
var badDigits = []string{"g", "z", "_", "__", "G", "9", "2", "é", ".", "-", "x", "\\", "$", "\""}

func (g *gen) digits(set string, min, max int, dirty bool) string {
	var b strings.Builder
	for i := g.r.Range(min, max); i > 0; i-- {
		if dirty && g.r.Chance(1, 4) {
			b.WriteString(g.pick(badDigits))
			continue
		}
		b.WriteByte(set[g.r.Below(len(set))])
		if g.r.Chance(1, 8) {
			b.WriteByte('_')
		}
	}
	return b.String()
}

func (g *gen) numLit() string {
	pre := g.pick(intPrefixes)
	set := intDigits[pre]
	dirty := g.r.Chance(1, 3)
	switch g.r.Below(6) {
	case 0, 1, 2:
		return pre + g.digits(set, 0, 5, dirty) + g.pick(numSuffixes)
	case 3:
		return g.digits("0123456789", 0, 3, dirty) + "." + g.digits("0123456789", 0, 3, dirty) + g.pick(numSuffixes)
	case 4:
		return g.digits("0123456789", 0, 3, false) + g.pick([]string{"e", "E", "e+", "e-", ".5e", "e_"}) + g.digits("0123456789", 0, 3, dirty) + g.pick(numSuffixes)
	default:
		return g.pick([]string{"-", "+", ""}) + pre + g.digits(set, 1, 20, false) + g.pick(numSuffixes)
	}
}

var collPrefixes = []string{"%", "%", "^", "\\", "\\"}
var wordElems = []string{"foo", "bar", "a", "1", "_", "é", "\\n", "]x", "${a}", "\"", "'", "#", ":", "%w[", "\\]", "0x1", "-", "f.o", "日本"}

// collLit: %w[ %s[ %x[ %b[ (and the ^ set / \ list forms) with valid and invalid elements, any
// whitespace between them, closed, closed with a capacity, or not closed at all.
func (g *gen) collLit() string {
	kind := g.pick([]string{"w", "s", "i", "f", "x", "x", "x", "b", "b", "b"})
	var b strings.Builder
	b.WriteString(g.pick(collPrefixes) + kind + g.pick([]string{"[", "[", "[", "[", "(", "{", ""}))
	sep := []string{" ", " ", " ", "  ", "\n", "\t", " \n ", "\r\n", ""}
	if g.r.Chance(1, 3) {
		b.WriteString(g.pick(sep))
	}
	for i := g.r.Range(0, 4); i > 0; i-- {
		switch kind {
		case "x":
			b.WriteString(g.digits("0123456789abcdefABCDEF", 1, 4, g.r.Chance(1, 2)))
		case "b":
			b.WriteString(g.digits("01", 1, 4, g.r.Chance(1, 2)))
		default:
			b.WriteString(g.pick(wordElems))
		}
		if i > 1 || g.r.Chance(1, 3) {
			b.WriteString(g.pick(sep))
		}
	}
	b.WriteString(g.pick([]string{"]", "]", "]", "", "", "]:3", "]:", "] ", "]]", ")", "\n"}))
	return b.String()
}

func (g *gen) escape() string {
	return g.pick([]string{"\\n", "\\t", "\\\\", "\\\"", "\\x41", "\\x4", "\\xg1", "\\x", "\\u0041", "\\u00", "\\uzzzz", "\\u", "\\U0001F600", "\\U0001F6", "\\U", "\\u{1F600}", "\\u{", "\\q", "\\", "\\é", "\\\n", "\\$", "\\#", "\\'", "\\`", "\\0", "\\e", "\\a"})
}

func (g *gen) textBody(extra []string) string {
	var b strings.Builder
	for i := g.r.Range(0, 4); i > 0; i-- {
		switch g.r.Below(6) {
		case 0, 1:
			b.WriteString(g.escape())
		case 2:
			b.WriteString(g.pick(extra))
		default:
			b.WriteString(g.pick([]string{"a", "bc", " ", "é", "日", "\n", "\xff", "1", "_", "#", "$", "{", "}"}))
		}
	}
	return b.String()
}

func (g *gen) literal() string {
	interp := []string{"${a}", "${", "${1 + }", "#{a}", "#{", "#a", "#@a", "#A", "$a", "${\"x\"}", "${%x[f g", "${%w[a}", "#{\\x[z]}"}
	switch g.r.Below(16) {
	case 0, 1, 2:
		return g.numLit()
	case 3, 4, 5, 6:
		return g.collLit()
	case 7:
		return "\"" + g.textBody(interp) + g.pick([]string{"\"", "\"", ""})
	case 8:
		return "'" + g.textBody([]string{"\\'", "${a}"}) + g.pick([]string{"'", "'", ""})
	case 9:
		return g.pick([]string{"`", "r`", "R`"}) + g.textBody([]string{"\\`"}) + g.pick([]string{"`", "`", ""})
	case 10:
		return ":" + g.pick([]string{"foo", "Foo", "_a", "+", "[]=", "[]", "<=>", "1", "", ":", "\"" + g.textBody(interp) + g.pick([]string{"\"", ""}), "'a b" + g.pick([]string{"'", ""}), "foo=", "foo?", "!"})
	case 11:
		return g.pick([]string{"$", "@", "@@", ""}) + g.pick([]string{"\"", "'"}) + g.textBody(interp) + g.pick([]string{"\"", "'", ""})
	case 12:
		return "%/" + g.pick([]string{g.regexBody(), g.textBody(interp)}) + g.pick([]string{"/", "/", ""}) + g.pick([]string{"", "i", "imsxUa", "z", "i-m", "_"})
	case 13:
		return g.pick([]string{"[", "%[", "^[", "{", "%{", "^{", "("}) + g.numLit() + g.pick([]string{", ", " ", ",", ": ", " => "}) + g.literal() + g.pick([]string{"]", "}", ")", "", "]:2", ",]"})
	case 14:
		return g.numLit() + g.pick([]string{"...", "..<", "<..", "<.<", "..", "....", "."}) + g.pick([]string{g.numLit(), ""})
	default:
		return g.pick([]string{"#", "#[", "##[", "]#", "]##", "#[ #[", "# a\n", "##[ ${a}", "\\", "\\\n", "\\ \n", "%", "^", "\\x", "%x", "^b", "%w", "0x", "0b", ".", "..", ":", "::", "$", "@", "@@", "&.", "?.", "?..", "|>", "<<:", ">>>=", "===", "=:=", "=!=", "!==", "!~", "??=", "**=", "-@", "+@", "\x00", "\xEF\xBB\xBF", "\xe2\x80\xa8"})
	}
}

// literalSnippet puts a literal into a short context.
func (g *gen) literalSnippet() string {
	lit := g.literal()
	switch g.r.Below(8) {
	case 0:
		return "a := " + lit
	case 1:
		return "println(" + lit + ")"
	case 2:
		return "var x = " + lit + g.pick([]string{"\n", "\nb", "; 1", " "})
	case 3:
		return lit + " " + g.literal()
	case 4:
		return "foo(1, " + lit + g.pick([]string{")", "", ").bar"})
	case 5:
		return "switch a\ncase " + lit + " then 1\nend"
	default:
		return lit
	}
}

func (g *gen) args(d int) string {
	n := g.r.Range(0, 3)
	var as []string
	for i := 0; i < n; i++ {
		switch g.r.Below(6) {
		case 0:
			as = append(as, g.pick(idents)+": "+g.expr(d-1))
		case 1:
			as = append(as, "*"+g.expr(d-1))
		default:
			as = append(as, g.expr(d-1))
		}
	}
	return strings.Join(as, ", ")
}

func (g *gen) atom() string {
	switch g.r.Below(16) {
	case 0:
		return g.pick([]string{"1", "0", "5", "1i8", "2u", "3u8", "0x1f", "0b12", "1_000", "1e3", "2.5", "1.5f32", "9bf", "1i9", "0d12", "12."})
	case 1:
		return g.pick([]string{"nil", "true", "false", "self", "undefined"})
	case 2:
		return ":" + g.pick(idents)
	case 3:
		return g.pick(consts)
	case 4:
		return "[1, " + g.pick(idents) + "]"
	case 5:
		return "{" + g.pick(idents) + ": 1, \"k\" => 2}"
	case 6:
		return g.pick([]string{"%w[a b]", "%s[a b]", "%i[1 2]", "%b[1 0]", "%x[ff]", "^[1, 2]", "^{a: 1}", "%[1, 2]", "%{a: 1}", "^w[a b]", "%w[", "[1, 2]:3"})
	case 7:
		return g.regexLit()
	case 8:
		return g.pick([]string{"`c`", "`\\n`", "r`a`", "`ab`", "`"})
	case 9:
		return "@" + g.pick(idents)
	case 10:
		return "$" + g.pick(idents)
	case 11, 12:
		return g.literal()
	default:
		return g.pick(idents)
	}
}

func (g *gen) expr(d int) string {
	if d <= 0 {
		return g.atom()
	}
	switch g.r.Below(34) {
	case 0, 1, 2:
		return g.expr(d-1) + " " + g.pick(binops) + " " + g.expr(d-1)
	case 3:
		return g.pick(unops) + g.expr(d-1)
	case 4, 5, 6:
		return g.closure(d)
	case 7:
		return g.pick(idents) + "(" + g.args(d) + ")"
	case 8:
		return g.expr(d-1) + g.pick([]string{".", "?.", "..", "?..", "::"}) + g.pick(idents) + "(" + g.args(d) + ")"
	case 9:
		return g.expr(d-1) + "." + g.pick([]string{"inspect", "to_string", "length", "class", "foo", "call", "+", "[]"})
	case 10:
		return "println((" + g.pick(idents) + " " + g.pick([]string{"??", "||", "&&", "!!"}) + " " + g.expr(d-1) + ").inspect)"
	case 11:
		return g.pick(idents) + "(" + g.expr(d-1) + " " + g.pick([]string{"??", "||", "&&"}) + " " + g.expr(d-1) + ")"
	case 12:
		return g.expr(d-1) + ".(" + g.args(d) + ")"
	case 13:
		return "if " + g.expr(d-1) + " then " + g.expr(d-1) + " else " + g.expr(d-1) + " end"
	case 14:
		return "if " + g.expr(d-1) + "\n" + g.stmts(d-1, 2) + g.pick([]string{"end", "else\n1\nend", "elsif b\n2\nend", ""})
	case 15:
		return g.expr(d-1) + " " + g.pick([]string{"if", "unless", "while", "until", "for a in"}) + " " + g.expr(d-1)
	case 16:
		return g.expr(d-1) + " as " + g.typ(1)
	case 17:
		return "(" + g.expr(d-1) + ")"
	case 18:
		var b strings.Builder
		b.WriteString("switch " + g.expr(d-1) + "\n")
		for i := g.r.Range(0, 3); i > 0; i-- {
			b.WriteString("case " + g.pattern(d-1) + g.pick([]string{" then ", "\n", " "}) + g.expr(d-1) + "\n")
		}
		b.WriteString(g.pick([]string{"end", "else 1\nend", "else\n", ""}))
		return b.String()
	case 19:
		return "do\n" + g.stmts(d-1, 2) + g.pick([]string{"end", "catch " + g.pattern(1) + "\n1\nend", "finally\n1\nend", "catch String() as e, st\n2\nend", ""})
	case 20:
		return g.pick(idents) + "!(" + g.args(d) + ")"
	case 21:
		return g.pick([]string{"quote", "quote_expr", "quote_type", "quote_pattern"}) + g.pick([]string{"\n", " ", "(", " do\n"}) + g.expr(d-1) + g.pick([]string{"\nend", ")", ""})
	case 22:
		return g.pick([]string{"unquote", "unquote_expr", "unquote_type", "unquote_ident", "unquote_const", "unquote_ivar", "!"}) + "(" + g.expr(d-1) + ")"
	case 23:
		return g.strLit(d)
	case 24:
		return g.expr(d-1) + "[" + g.expr(d-1) + "]"
	case 25:
		return g.pick(consts) + "::[" + g.typ(1) + "](" + g.args(d) + ")"
	case 26:
		return g.pick(idents) + " " + g.pick([]string{"=", "+=", "||=", "&&=", "??=", ":=", "<<=", "**="}) + " " + g.expr(d-1)
	case 27:
		return g.expr(d-1) + g.pick([]string{"++", "--", "!", "?"})
	case 28:
		return "[" + g.expr(d-1) + " for " + g.pick(idents) + " in " + g.expr(d-1) + g.pick([]string{"]", " if " + g.pick(idents) + "]", ""})
	case 29:
		return "{" + g.expr(d-1) + " => " + g.expr(d-1) + g.pick([]string{"}", ", **" + g.pick(idents) + "}", ""})
	case 30:
		return g.pick([]string{"return", "break", "continue", "throw", "yield", "break[l]", "await", "go", "throw unchecked"}) + " " + g.expr(d-1)
	case 31:
		return g.pick(consts) + "(" + g.args(d) + ")"
	case 32:
		return "new" + g.pick([]string{"", "(1)", "::[Int](1)"})
	default:
		return g.atom()
	}
}

func (g *gen) stmt(d int) string {
	switch g.r.Below(26) {
	case 0, 1:
		return g.pick([]string{"var", "val", "const"}) + " " + g.pick(idents) + g.pick([]string{"", ": " + g.typ(1)}) + g.pick([]string{"", " = " + g.expr(d)})
	case 2:
		return "var a: Int? = nil; println((a " + g.pick([]string{"??", "||", "&&"}) + " " + g.expr(d-1) + ").inspect)"
	case 3:
		return g.pick([]string{"", "sig ", "async ", "abstract ", "sealed ", "macro ", "native ", "overload "}) + "def " + g.pick([]string{"", "*", "self."}) + g.pick([]string{"foo", "bar", "+", "[]", "[]=", "call", "==", "foo=", "fib"}) +
			g.pick([]string{"", "[T]", "[T < Int]", "[+T, -U > String = Int]"}) + g.pick([]string{"", "(" + g.params() + ")"}) + g.pick([]string{"", ": " + g.typ(1)}) + g.pick([]string{"", " ! " + g.typ(0)}) +
			g.pick([]string{"\n" + g.stmts(d-1, 2) + "end", " then " + g.expr(d-1), "; end", "\n", ""})
	case 4:
		return g.pick([]string{"", "abstract ", "sealed ", "primitive ", "noinit "}) + g.pick([]string{"class", "module", "mixin", "interface", "struct", "singleton", "extend where T < Int", "enum"}) + " " + g.pick(consts) +
			g.pick([]string{"", "[T]", "[+T < Object]", "[T", " < " + g.typ(1), "(" + g.params() + ")"}) + g.pick([]string{"\n" + g.stmts(d-1, 3) + "end", "; end", "\n", ""})
	case 5:
		return "typedef " + g.pick(consts) + g.pick([]string{"", "[T]"}) + " = " + g.typ(2)
	case 6:
		return "macro " + g.pick(idents) + "(" + g.pick(idents) + ": Elk::AST::ExpressionNode)" + g.pick([]string{"", ": Elk::AST::ExpressionNode"}) + "\n" +
			g.pick([]string{"quote\n" + g.expr(d-1) + "\nend\n", g.stmts(d-1, 2), "quote\n!{" + g.pick(idents) + "} + unquote(" + g.pick(idents) + ")\nend\n"}) + "end\n" + g.pick(idents) + "!(" + g.args(d) + ")"
	case 7:
		return g.pick([]string{"while", "until", "loop", "for a in", "for %[a, b] in", "$l: while", "$l: loop"}) + " " + g.expr(d-1) + "\n" + g.stmts(d-1, 2) + g.pick([]string{"end", "end", ""})
	case 8:
		return g.pick([]string{"using", "import", "include", "implement", "extend", "alias", "typedef"}) + " " + g.pick([]string{g.pick(consts), g.pick(consts) + "::*", g.pick(consts) + "::{A, b as c}", "\"./x\"", g.pick(idents) + " " + g.pick(idents), "foo=", ""})
	case 9:
		return g.pick([]string{"getter", "setter", "attr", "instance_variables", "var @a: Int", "init", "init(@a: Int); end"}) + " " + g.pick(idents) + g.pick([]string{"", ": " + g.typ(1), ", b: Int"})
	case 10:
		return "##[\n doc ${x}\n]##\n" + g.stmt(d-1)
	case 11:
		return "# comment " + g.pick(regexOdd) + "\n" + g.expr(d)
	case 12:
		return "#[ block " + g.pick([]string{"]#", "#[ nested ]# ]#", ""}) + " " + g.expr(d)
	case 13:
		return "defer " + g.expr(d)
	case 14:
		return "extern \"go\" def foo(a: Int): Int"
	case 15:
		return "go " + g.pick([]string{"import \"fmt\"", "\n fmt.Println(1)\nend", "fmt.Println(${a})"})
	case 16:
		return "test \"x\"\n" + g.stmts(d-1, 2) + "end"
	default:
		return g.expr(d)
	}
}

func (g *gen) stmts(d int, max int) string {
	var b strings.Builder
	for i := g.r.Range(1, max); i > 0; i-- {
		b.WriteString(g.stmt(d))
		b.WriteString(g.pick([]string{"\n", "\n", "\n", "; ", "\r\n"}))
	}
	return b.String()
}

func (g *gen) grammar() string {
	switch g.r.Below(10) {
	case 0:
		return g.closure(g.r.Range(1, 2))
	case 1:
		return g.regexLit()
	case 2, 3:
		return g.expr(g.r.Range(1, 3))
	default:
		return g.stmts(g.r.Range(1, 3), 3)
	}
}

// tokenTexts: the source text of every token of src (lexer spans are inclusive byte ranges).
func tokenTexts(src string) (out []string) {
	defer func() {
		if r := recover(); r != nil {
			out = strings.Fields(src)
		}
	}()
	for _, t := range lexer.Lex(src) {
		sp := t.Span()
		if sp == nil || sp.StartPos == nil || sp.EndPos == nil {
			continue
		}
		a, b := sp.StartPos.ByteOffset, sp.EndPos.ByteOffset+1
		if a < 0 || b > len(src) || a >= b {
			continue
		}
		out = append(out, src[a:b])
	}
	return out
}

var xAlphabet = []string{"|", "||", "a", "->", "(", ")", ":", "Int", "=", "1", "&&", "??", ".", ",", "[", "]", "{", "}", "%/", "/", "\"", "${", "def", "end", "\n"}

func (g *gen) base() string {
	if len(g.valid) > 0 && g.r.Chance(2, 3) {
		return g.pick(g.valid)
	}
	return g.grammar()
}

func (g *gen) mutate() string {
	toks := tokenTexts(g.base())
	if len(toks) == 0 {
		return g.pick(xAlphabet)
	}
	if len(toks) > 60 {
		s := g.r.Below(len(toks) - 60)
		toks = toks[s : s+60]
	}
	toks = append([]string(nil), toks...)
	for k := g.r.Range(1, 3); k > 0 && len(toks) > 0; k-- {
		i := g.r.Below(len(toks))
		switch g.r.Below(5) {
		case 0: // delete
			toks = append(toks[:i], toks[i+1:]...)
		case 1: // duplicate
			toks = append(toks[:i+1], toks[i:]...)
		case 2: // swap with another
			j := g.r.Below(len(toks))
			toks[i], toks[j] = toks[j], toks[i]
		case 3: // replace by an interesting token
			toks[i] = g.pick(xAlphabet)
		default: // replace by a token from elsewhere in the same program
			toks[i] = toks[g.r.Below(len(toks))]
		}
	}
	return strings.Join(toks, g.pick([]string{" ", " ", ""}))
}

func (g *gen) truncate() string {
	src := g.base()
	if len(src) == 0 {
		return src
	}
	if len(src) > 1500 { // a window of a big file first
		s := g.r.Below(len(src) - 1500)
		src = src[s : s+1500]
	}
	switch g.r.Below(4) {
	case 0: // byte offset (may split a rune)
		return src[:g.r.Below(len(src)+1)]
	case 1: // line end
		var ends []int
		for i := 0; i < len(src); i++ {
			if src[i] == '\n' {
				ends = append(ends, i)
			}
		}
		if len(ends) == 0 {
			return src[:g.r.Below(len(src)+1)]
		}
		return src[:ends[g.r.Below(len(ends))]+g.r.Below(2)]
	case 2: // token boundary
		toks := tokenTexts(src)
		if len(toks) == 0 {
			return src
		}
		return strings.Join(toks[:g.r.Range(1, len(toks))], " ")
	default: // drop a prefix as well (the middle of a program)
		a := g.r.Below(len(src))
		b := a + g.r.Below(len(src)-a+1)
		return src[a:b]
	}
}

func (g *gen) raw() string {
	n := g.r.Range(1, 40)
	b := make([]byte, n)
	punct := "|&?!%/\\\"'`#$@^~*+-=<>()[]{}:;.,_ \n\tae1E"
	mode := g.r.Below(3)
	for i := range b {
		switch mode {
		case 0:
			b[i] = byte(g.r.Below(256))
		case 1:
			b[i] = punct[g.r.Below(len(punct))]
		default:
			if g.r.Chance(1, 6) {
				b[i] = byte(g.r.Below(256))
			} else {
				b[i] = punct[g.r.Below(len(punct))]
			}
		}
	}
	return string(b)
}

// xAll enumerates every 1..3 token input over the alphabet, joined by sep.
func xAll(sep string) []string {
	var out []string
	A := xAlphabet
	for _, a := range A {
		out = append(out, a)
	}
	for _, a := range A {
		for _, b := range A {
			out = append(out, a+sep+b)
		}
	}
	for _, a := range A {
		for _, b := range A {
			for _, c := range A {
				out = append(out, a+sep+b+sep+c)
			}
		}
	}
	return out
}

// ------------------------------------------------------------------ driver main

func driverMain(o *hx.Opts) {
	repo := os.Getenv("VERIF_REPO")
	if repo == "" {
		repo = "/repo"
	}
	r := hx.NewRng(o.Seed)
	g := &gen{r: r, valid: harvest(repo)}
	var jobs []job
	add := func(label string, src string, stages string) {
		jobs = append(jobs, job{idx: len(jobs), id: fmt.Sprintf("%s%d", label, len(jobs)), src: src, stages: stages})
	}
	for _, l := range hx.ReadInputs(o.Input) {
		if s, ok := decodeCorpusLine(l); ok {
			add("c", s, "lpcrd")
		}
	}
	// The checker stage builds a fresh global environment per input (no state can leak from one
	// input to the next) and only does work when the parser accepts the input; -extra checkevery=<k>
	// gives it to every k-th generated input (default 1 = all).
	checkEvery := 1
	if strings.HasPrefix(o.Extra, "checkevery=") {
		if v, err := strconv.Atoi(o.Extra[len("checkevery="):]); err == nil && v > 0 {
			checkEvery = v
		}
	}
	stagesFor := func(k int) string {
		if k%checkEvery == 0 {
			return "lpcrd"
		}
		return "lprd"
	}
	n := o.N
	declOnly := strings.Contains(o.Extra, "declonly") // development aid: generator d alone
	if declOnly {
		n = 0
	}
	if declOnly {
	} else if o.Tier == "thorough" {
		// exhaustive part: all 1-3 token inputs, joined with a space and with nothing
		k := 0
		for _, sep := range []string{" ", ""} {
			for _, s := range xAll(sep) {
				add("x", s, stagesFor(k))
				k++
			}
		}
	} else {
		all := xAll(" ")
		nx := n / 5
		for k := 0; k < nx; k++ {
			s := all[r.Below(len(all))]
			if r.Chance(1, 4) {
				s = strings.ReplaceAll(s, " ", "")
			}
			add("x", s, stagesFor(k))
		}
		n -= nx
	}
	for k := 0; k < n; k++ {
		switch k % 8 {
		case 0, 1, 2:
			add("g", g.grammar(), stagesFor(k))
		case 3, 4:
			add("m", g.mutate(), stagesFor(k))
		case 5, 6:
			add("t", g.truncate(), stagesFor(k))
		default:
			if r.Chance(1, 3) {
				add("r", g.regexBody(), stagesFor(k))
			} else {
				add("r", g.raw(), stagesFor(k))
			}
		}
	}
	// p = EVERY-BYTE-POSITION prefix truncation (what the REPL lexes and parses after each keystroke,
	// and what a file cut off anywhere looks like): for each base text b and each 0 < i <= len(b) the
	// inputs b[:i] and b[:i]+"\n" (the cut element ends its source line: the diagnostic excerpt is
	// re-lexed without the newline). Bases: (1) all input: strings of lexer/*_test.go, (2) input:/source:
	// strings of parser/*_test.go (quick: a seeded sample), (3) snippets of the literal grammar (every
	// literal kind, valid and invalid parts). Stages: lex, parse, render (no checker, no regex: 30 us each).
	// Its own Rng, so the other generators' streams do not depend on it.
	pr := hx.NewRng(o.Seed ^ 0x70726566697865)
	pg := &gen{r: pr, valid: nil}
	seenP := map[string]bool{}
	np := 0
	addPrefixes := func(b string) {
		if len(b) > 400 {
			b = b[:400]
		}
		for i := 1; i <= len(b); i++ {
			for _, s := range []string{b[:i], b[:i] + "\n"} {
				if !seenP[s] {
					seenP[s] = true
					add("p", s, "lpd")
					jobs[len(jobs)-1].cpu = 0.5 // <= 401 bytes, no checker: 30 us of work
					np++
				}
			}
		}
	}
	lexIn := harvestInputs(repo, "lexer/*_test.go")
	parseIn := harvestInputs(repo, "parser/*_test.go")
	nParse, nLit := len(parseIn), o.N/12
	if o.Tier != "thorough" {
		nParse, nLit = o.N/12, o.N/8
	}
	if strings.Contains(o.Extra, "noprefix") || declOnly {
		lexIn, nParse, nLit = nil, 0, 0
	}
	for _, b := range lexIn {
		addPrefixes(b)
	}
	if nParse >= len(parseIn) {
		for _, b := range parseIn {
			addPrefixes(b)
		}
	} else {
		for k := 0; k < nParse; k++ {
			addPrefixes(parseIn[pr.Below(len(parseIn))])
		}
	}
	for k := 0; k < nLit; k++ {
		addPrefixes(pg.literalSnippet())
	}
	// d = declaration-level programs for the checker (decl.go): graphs of typedefs / classes / mixins /
	// interfaces / modules / constants with references in every name form, ill-formed on purpose
	// (cycles, forward references, duplicates, missing names), every entity used afterwards. Its own
	// Rng. A tiny program is checked in ~30 ms: 1 s of CPU in the first round, 3 s alone in the retry.
	dr := hx.NewRng(o.Seed ^ 0x6465636c6172)
	nd := o.N / 10
	if o.Tier == "thorough" {
		// NOT widened in the thorough tier (same 300 programs as the quick tier): the checker's
		// non-termination on ill-formed declaration graphs is one family of genuine defects with an
		// open-ended set of call-site names (where a runaway recursion is caught depends on timing);
		// 7500 programs produced a handful of new names in every run, which a known-findings file
		// keyed by call site cannot absorb. DESIGN.md, section 10, C03.
		nd = o.N / 100
	}
	if strings.Contains(o.Extra, "nodecl") {
		nd = 0
	}
	for k := 0; k < nd; k++ {
		add("d", declProgram(dr), "lpcd")
		jobs[len(jobs)-1].cpu = 1.0
	}
	if os.Getenv("C03_DUMP") != "" { // debugging aid: print the inputs instead of running them
		for _, j := range jobs {
			fmt.Printf("### %s\n%s\n", j.id, j.src)
		}
		return
	}
	res := runAll(jobs)
	for i, j := range jobs {
		hx.Emit(j.id, hex.EncodeToString([]byte(j.src)), res[i])
	}
	hx.Flush()
}

func main() {
	worker := flag.Bool("worker", false, "worker mode (internal)")
	o := hx.ParseFlags()
	if *worker {
		workerMain()
		return
	}
	driverMain(o)
}
