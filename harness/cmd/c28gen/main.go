// c28gen: walks the LIVE global type environment (types.NewGlobalEnvironment(): the compiled
// std headers) and the LIVE runtime classes (value.RootModule after every InitGlobalEnvironment
// of the elk binary has run) and prints, for every method the std headers declare, the declared
// signature next to the runtime method that a call on an instance of that namespace reaches.
//
//	-extra tsv   (default) one TSV line per row, used by checks/C28.py
//	-extra coq   the Coq table Gen/C28_Headers.v (rows + keys of the rows the harness finds incompatible)
//
// Row kinds:  own  = method declared directly in the namespace
//
//	inh  = method a concrete class inherits (through superclass / included mixins) in the
//	       type environment; the runtime lookup is done on the runtime class of the same name
//
// No unexported field is needed: types.Namespace.Methods()/Subtypes()/Parent() and
// value.Class.Methods/LookupMethod are exported.
package main

import (
	"bufio"
	"flag"
	"fmt"
	"os"
	"sort"
	"strings"

	_ "github.com/elk-language/elk" // same package initialisers as cmd/elk (ext/std, runtime AST classes, ...)
	"github.com/elk-language/elk/types"
	"github.com/elk-language/elk/value"
	"github.com/elk-language/elk/vm"
)

type row struct {
	kind     string // own | inh
	ns       string // Std::Regex, &Std::Regex (singleton / module methods are "&")
	nskind   string // class mixin module interface singleton
	concrete bool   // instances can exist (non-abstract class, module, singleton)
	name     string
	declIn   string // namespace that declares the method (== ns for own rows)
	flags    string // a=abstract n=native s=sealed g=generator y=async m=macro o=has overloads v=overload
	req      int
	opt      int
	rest     int // 0/1
	post     int
	nrest    int // 0/1
	total    int // len(Params)
	params   string
	ret      string
	throw    string
	retset   string // acceptable runtime classes of the result: names, self, void, never, * (= anything)
	throwset string
	found    int
	rkind    string // native bytecode getter setter other none
	pc       int
	opc      int
	rwhere   string // runtime container in which the method was found
}

func nsKind(n types.Namespace) string {
	switch n.(type) {
	case *types.Class:
		return "class"
	case *types.Mixin:
		return "mixin"
	case *types.Module:
		return "module"
	case *types.Interface:
		return "interface"
	case *types.SingletonClass:
		return "singleton"
	}
	return fmt.Sprintf("%T", n)
}

func clean(s string) string {
	s = strings.ReplaceAll(s, "\t", " ")
	s = strings.ReplaceAll(s, "\n", " ")
	return s
}

// runtime constant lookup by full name
func runtimeConst(full string) (value.Value, bool) {
	var cur value.Value = value.Ref(value.RootModule)
	for _, part := range strings.Split(full, "::") {
		if part == "" || part == "Root" {
			continue
		}
		var consts value.SymbolMap
		if !cur.IsReference() {
			return value.Undefined, false
		}
		switch c := cur.AsReference().(type) {
		case *value.Class:
			consts = c.Constants
		case *value.Module:
			consts = c.Constants
		case *value.Interface:
			consts = c.Constants
		default:
			return value.Undefined, false
		}
		v := consts.GetString(part)
		if v.IsUndefined() {
			return value.Undefined, false
		}
		cur = v
	}
	return cur, true
}

// the runtime method container that receives calls on instances of the namespace
func runtimeContainer(full string, singleton bool) (*value.MethodContainer, string) {
	v, ok := runtimeConst(full)
	if !ok || !v.IsReference() {
		return nil, "no-runtime-constant"
	}
	switch c := v.AsReference().(type) {
	case *value.Class:
		if singleton {
			sc := c.SingletonClass()
			if sc == nil {
				dc := c.DirectClass()
				if dc == nil {
					return nil, "no-singleton"
				}
				return &dc.MethodContainer, ""
			}
			return &sc.MethodContainer, ""
		}
		return &c.MethodContainer, ""
	case *value.Module:
		dc := c.DirectClass()
		if dc == nil {
			return nil, "no-module-class"
		}
		return &dc.MethodContainer, ""
	case *value.Interface:
		dc := c.DirectClass()
		if singleton && dc != nil {
			return &dc.MethodContainer, ""
		}
		return nil, "interface"
	}
	return nil, "not-a-namespace"
}

func lookup(mc *value.MethodContainer, name value.Symbol) (value.Method, string) {
	if mc == nil {
		return nil, ""
	}
	if m, ok := mc.Methods[name]; ok {
		return m, "own"
	}
	if mc.Parent == nil {
		return nil, ""
	}
	for p := range mc.Parent.Parents() {
		if m, ok := p.Methods[name]; ok {
			return m, p.PrintableName()
		}
	}
	return nil, ""
}

func fillRuntime(r *row, mc *value.MethodContainer, why string, name value.Symbol) {
	m, where := lookup(mc, name)
	if m == nil {
		r.found = 0
		r.rkind = "none"
		r.rwhere = why
		return
	}
	r.found = 1
	r.rwhere = where
	r.pc = m.ParameterCount()
	r.opc = m.OptionalParameterCount()
	switch m.(type) {
	case *vm.NativeMethod:
		r.rkind = "native"
	case *vm.BytecodeFunction:
		r.rkind = "bytecode"
	case *vm.GetterMethod:
		r.rkind = "getter"
	case *vm.SetterMethod:
		r.rkind = "setter"
	default:
		r.rkind = fmt.Sprintf("other:%T", m)
	}
}

func declRow(kind, ns, nskind string, concrete bool, name string, m *types.Method, overload bool) row {
	r := row{kind: kind, ns: ns, nskind: nskind, concrete: concrete, name: name}
	if m.DefinedUnder != nil {
		r.declIn = m.DefinedUnder.Name()
		if _, ok := m.DefinedUnder.(*types.SingletonClass); ok {
			r.declIn = "&" + m.DefinedUnder.(*types.SingletonClass).AttachedObject.Name()
		}
	}
	fl := ""
	if m.IsAbstract() {
		fl += "a"
	}
	if m.IsNative() {
		fl += "n"
	}
	if m.IsSealed() {
		fl += "s"
	}
	if m.IsGenerator() {
		fl += "g"
	}
	if m.IsAsync() {
		fl += "y"
	}
	if m.IsMacro() {
		fl += "m"
	}
	if len(m.Overloads) > 0 {
		fl += "o"
	}
	if overload {
		fl += "v"
	}
	if fl == "" {
		fl = "-"
	}
	r.flags = fl
	r.total = len(m.Params)
	r.opt = m.OptionalParamCount
	if m.HasPositionalRestParam() {
		r.rest = 1
		r.post = m.PostParamCount
	}
	if m.HasNamedRestParam() {
		r.nrest = 1
	}
	r.req = r.total - r.opt - r.rest - r.nrest
	var ps []string
	for _, p := range m.Params {
		k := "n"
		switch p.Kind {
		case types.NormalParameterKind:
			k = "n"
		case types.DefaultValueParameterKind:
			k = "o"
		case types.PositionalRestParameterKind:
			k = "r"
		case types.NamedRestParameterKind:
			k = "k"
		}
		// 4th sub-field: the member classes of the declared parameter type (same denotation as retset), used by
		// c28.calls to pass every member class of a union / named type through a local declared with that type
		ps = append(ps, p.Name.String()+"\x1f"+k+"\x1f"+clean(types.Inspect(p.Type))+"\x1f"+strings.Join(typeSet(p.Type, false), ","))
	}
	r.params = strings.Join(ps, "\x1e")
	r.ret = clean(types.Inspect(m.ReturnType))
	r.retset = strings.Join(typeSet(m.ReturnType, true), ",")
	r.throwset = strings.Join(typeSet(m.ThrowType, false), ",")
	if m.ThrowType == nil {
		r.throw = "never"
	} else {
		r.throw = clean(types.Inspect(m.ThrowType))
	}
	return r
}

// typeSet: the simple structural denotation used by c28.calls: class / mixin names (a runtime class is a
// member when it or one of its type-level ancestors is listed), "*" = anything (any, type parameters,
// interfaces - structural -, closures, intersections, singleton types), "self", "void", "never".
func typeSet(t types.Type, ret bool) []string {
	set := map[string]bool{}
	var walk func(t types.Type, depth int)
	walk = func(t types.Type, depth int) {
		if depth > 12 {
			set["*"] = true
			return
		}
		switch x := t.(type) {
		case nil:
			if ret {
				set["void"] = true
			} else {
				set["never"] = true
			}
		case types.Void:
			set["void"] = true
		case types.Never:
			set["never"] = true
		case types.Any, types.Untyped:
			set["*"] = true
		case types.Self:
			set["self"] = true
		case types.Nil:
			set["Std::Nil"] = true
		case types.Bool:
			set["Std::True"] = true
			set["Std::False"] = true
		case types.True:
			set["Std::True"] = true
		case types.False:
			set["Std::False"] = true
		case *types.Nilable:
			set["Std::Nil"] = true
			walk(x.Type, depth+1)
		case *types.Union:
			for _, e := range x.Elements {
				walk(e, depth+1)
			}
		case *types.NamedType:
			walk(x.Type, depth+1)
		case *types.Generic:
			walk(x.Namespace, depth+1)
		case *types.Class:
			if x.Name() == "Std::Bool" {
				set["Std::True"] = true
				set["Std::False"] = true
			}
			set[x.Name()] = true
		case *types.Mixin:
			set[x.Name()] = true
		case *types.MixinProxy:
			set[x.Name()] = true
		case *types.Module:
			set[x.Name()] = true
		default:
			set["*"] = true
		}
	}
	walk(t, 0)
	var out []string
	for k := range set {
		out = append(out, k)
	}
	sort.Strings(out)
	return out
}

// type-level ancestors (superclasses and included mixins) of every class / mixin
var ancestors = map[string][]string{}

func recordAncestors(n types.Namespace, full string) {
	var a []string
	seen := map[string]bool{}
	for p := range types.Parents(n) {
		name := ""
		switch q := p.(type) {
		case *types.Class:
			name = q.Name()
		case *types.Mixin:
			name = q.Name()
		case *types.MixinProxy:
			name = q.Name()
		case *types.Generic:
			name = q.Namespace.Name()
		case *types.MixinWithWhere:
			name = q.Name()
		}
		if name != "" && name != full && !seen[name] {
			seen[name] = true
			a = append(a, name)
		}
	}
	ancestors[full] = a
}

var rows []row
var mixinReport []string
var runtimeAnc []string

func isConcrete(n types.Namespace) bool {
	switch t := n.(type) {
	case *types.Class:
		return !t.IsAbstract()
	case *types.Module, *types.SingletonClass:
		return true
	}
	return false
}

func walk(n types.Namespace, seen map[types.Namespace]bool) {
	if seen[n] {
		return
	}
	seen[n] = true
	full := n.Name()
	if full != "" && full != "Root" {
		switch n.(type) {
		case *types.Class, *types.Mixin:
			recordAncestors(n, full)
		}
		emitNamespace(n, full, false)
		if s := n.Singleton(); s != nil {
			emitNamespace(s, full, true)
		}
	}
	for _, sub := range types.SortedSubtypes(n) {
		if sn, ok := sub.Type.(types.Namespace); ok {
			switch sn.(type) {
			case *types.Class, *types.Mixin, *types.Module, *types.Interface:
				walk(sn, seen)
			}
		}
	}
}

func emitNamespace(n types.Namespace, full string, singleton bool) {
	label := full
	_, isModule := n.(*types.Module)
	if singleton || isModule {
		label = "&" + full
	}
	mc, why := runtimeContainer(full, singleton)
	conc := isConcrete(n)
	own := map[value.Symbol]bool{}
	for name, m := range types.SortedOwnMethods(n) {
		own[name] = true
		if m.IsMacro() {
			continue
		}
		r := declRow("own", label, nsKind(n), conc, name.String(), m, strings.Contains(name.String(), "@"))
		fillRuntime(&r, mc, why, name)
		rows = append(rows, r)
	}
	// inherited methods of a concrete class: every non-abstract method the type environment resolves
	// on instances must be reachable through the runtime class as well (mixins really included)
	if c, ok := n.(*types.Class); ok && !c.IsAbstract() && !singleton {
		for name, m := range types.SortedMethods(n) {
			if own[name] || m.IsMacro() || m.IsAbstract() {
				continue
			}
			r := declRow("inh", label, nsKind(n), conc, name.String(), m, strings.Contains(name.String(), "@"))
			fillRuntime(&r, mc, why, name)
			rows = append(rows, r)
		}
		// mixin inclusion report: mixins in the type-level ancestry vs runtime ancestry
		var tm []string
		for p := range types.Parents(n) {
			switch q := p.(type) {
			case *types.MixinProxy:
				tm = append(tm, q.Name())
			case *types.Generic:
				if _, ok := q.Namespace.(*types.MixinProxy); ok {
					tm = append(tm, q.Namespace.Name())
				}
			}
		}
		rt := map[string]bool{}
		if mc != nil {
			rc := (*value.Class)(nil)
			if v, ok := runtimeConst(full); ok && v.IsReference() {
				rc, _ = v.AsReference().(*value.Class)
			}
			if rc != nil {
				for p := range rc.Parents() {
					rt["Std::"+strings.TrimPrefix(p.PrintableName(), "Std::")] = true
					rt[p.PrintableName()] = true
				}
			}
		}
		var rnames []string
		for k := range rt {
			rnames = append(rnames, k)
		}
		sort.Strings(rnames)
		runtimeAnc = append(runtimeAnc, full+"\t"+strings.Join(rnames, ","))
		sort.Strings(tm)
		for _, mname := range tm {
			if !rt[mname] {
				mixinReport = append(mixinReport, full+"\t"+mname)
			}
		}
	}
}

// runtime natives without a declaration
func undeclared(env *types.GlobalEnvironment) []string {
	var out []string
	var visit func(full string, v value.Value, depth int)
	seen := map[value.Reference]bool{}
	visit = func(full string, v value.Value, depth int) {
		if !v.IsReference() || depth > 6 {
			return
		}
		ref := v.AsReference()
		if seen[ref] {
			return
		}
		var consts value.SymbolMap
		var inst, single *value.MethodContainer
		switch c := ref.(type) {
		case *value.Class:
			consts = c.Constants
			inst = &c.MethodContainer
			if sc := c.SingletonClass(); sc != nil {
				single = &sc.MethodContainer
			}
		case *value.Module:
			consts = c.Constants
			if dc := c.DirectClass(); dc != nil && dc.IsSingleton() {
				single = &dc.MethodContainer
			}
		case *value.Interface:
			consts = c.Constants
		default:
			return
		}
		seen[ref] = true
		var tn types.Namespace
		if t, err := lookupType(env, full); err == nil {
			tn = t
		}
		check := func(mc *value.MethodContainer, singleton bool) {
			if mc == nil {
				return
			}
			var names []string
			for name := range mc.Methods {
				names = append(names, name.String())
			}
			sort.Strings(names)
			for _, name := range names {
				m := mc.Methods[value.ToSymbol(name)]
				if _, ok := m.(*vm.NativeMethod); !ok {
					continue
				}
				declared := false
				if tn != nil {
					var target types.Namespace = tn
					if _, isMod := tn.(*types.Module); singleton && !isMod {
						if s := tn.Singleton(); s != nil {
							target = s
						} else {
							target = nil
						}
					}
					if target != nil && target.Method(value.ToSymbol(name)) != nil {
						declared = true
					}
				}
				if !declared {
					l := full
					if singleton {
						l = "&" + full
					}
					out = append(out, fmt.Sprintf("%s\t%s\t%d\t%d", l, name, m.ParameterCount(), m.OptionalParameterCount()))
				}
			}
		}
		check(inst, false)
		check(single, true)
		var keys []string
		for k := range consts {
			keys = append(keys, k.String())
		}
		sort.Strings(keys)
		for _, k := range keys {
			if strings.Contains(k, "::") {
				continue
			}
			visit(full+"::"+k, consts[value.ToSymbol(k)], depth+1)
		}
	}
	visit("Std", value.Ref(value.StdModule), 0)
	return out
}

func lookupType(env *types.GlobalEnvironment, full string) (ns types.Namespace, err error) {
	defer func() {
		if e := recover(); e != nil {
			err = fmt.Errorf("%v", e)
		}
	}()
	var cur types.Namespace = env.Root
	for _, part := range strings.Split(full, "::") {
		c, ok := cur.SubtypeString(part)
		if !ok {
			return nil, fmt.Errorf("no subtype %s", part)
		}
		n, ok := c.Type.(types.Namespace)
		if !ok {
			return nil, fmt.Errorf("not a namespace %s", part)
		}
		cur = n
	}
	return cur, nil
}

// text that is safe inside a Coq comment
func commentSafe(s string) string {
	s = strings.ReplaceAll(s, "\"", "'")
	s = strings.ReplaceAll(s, "(*", "( *")
	s = strings.ReplaceAll(s, "*)", "* )")
	return s
}

func key(r row) string { return r.kind + ":" + r.ns + "#" + r.name }

func main() {
	extra := flag.String("extra", "tsv", "tsv|coq")
	root := flag.String("root", "Std", "only namespaces whose full name starts with this")
	flag.Parse()

	env := types.NewGlobalEnvironment()
	seen := map[types.Namespace]bool{}
	walk(env.Root, seen)
	var keep []row
	for _, r := range rows {
		n := strings.TrimPrefix(r.ns, "&")
		if n == *root || strings.HasPrefix(n, *root+"::") {
			keep = append(keep, r)
		}
	}
	rows = keep
	w := bufio.NewWriter(os.Stdout)
	defer w.Flush()
	switch *extra {
	case "tsv":
		for _, r := range rows {
			c := 0
			if r.concrete {
				c = 1
			}
			fmt.Fprintf(w, "ROW\t%s\t%s\t%s\t%d\t%s\t%s\t%s\t%d\t%d\t%d\t%d\t%d\t%d\t%s\t%s\t%s\t%d\t%s\t%d\t%d\t%s\t%s\t%s\n",
				r.kind, r.ns, r.nskind, c, r.name, r.declIn, r.flags, r.req, r.opt, r.rest, r.post, r.nrest, r.total,
				r.params, r.ret, r.throw, r.found, r.rkind, r.pc, r.opc, r.rwhere, r.retset, r.throwset)
		}
		var an []string
		for k := range ancestors {
			an = append(an, k)
		}
		sort.Strings(an)
		for _, k := range an {
			fmt.Fprintf(w, "ANC\t%s\t%s\n", k, strings.Join(ancestors[k], ","))
		}
		for _, m := range runtimeAnc {
			fmt.Fprintf(w, "RANC\t%s\n", m)
		}
		for _, m := range mixinReport {
			fmt.Fprintf(w, "MIXIN\t%s\n", m)
		}
		for _, u := range undeclared(env) {
			fmt.Fprintf(w, "UNDECL\t%s\n", u)
		}
	case "coq":
		var excList []string
		for i, r := range rows {
			if !compatible(r) {
				excList = append(excList, fmt.Sprintf("%d%%N (* %s *)", i, commentSafe(key(r))))
			}
		}
		fmt.Fprintln(w, "(* GENERATED by harness/cmd/c28gen from the live type environment and runtime classes of /repo. Do not edit. *)")
		fmt.Fprintln(w, "From Coq Require Import List NArith.")
		fmt.Fprintln(w, "From Elk Require Import Model.C28_Arity.")
		fmt.Fprintln(w, "Import ListNotations.")
		fmt.Fprintln(w, "")
		fmt.Fprintln(w, "(* mkRow index (mkDecl required optional rest? named-rest? abstract? concrete? init?) (mkRt found? kind parameterCount optionalParameterCount) *)")
		fmt.Fprintln(w, "Definition rows : list row := [")
		b := func(x bool) string {
			if x {
				return "true"
			}
			return "false"
		}
		for i, r := range rows {
			sep := ";"
			if i == len(rows)-1 {
				sep = ""
			}
			rk := "ROther"
			switch r.rkind {
			case "native":
				rk = "RNative"
			case "bytecode":
				rk = "RBytecode"
			case "getter":
				rk = "RGetter"
			case "setter":
				rk = "RSetter"
			case "none":
				rk = "RNone"
			}
			fmt.Fprintf(w, "  mkRow %d%%N (mkDecl %d %d %s %s %s %s %s) (mkRt %s %s %d %d)%s (* %s *)\n",
				i,
				r.req, r.opt, b(r.rest == 1), b(r.nrest == 1), b(strings.Contains(r.flags, "a")), b(r.concrete), b(r.name == "#init"),
				b(r.found == 1), rk, r.pc, r.opc, sep, commentSafe(key(r)))
		}
		fmt.Fprintln(w, "].")
		fmt.Fprintln(w, "")
		fmt.Fprintln(w, "(* keys of the rows the HARNESS's own compatibility test rejects, in row order; Props/C28.v proves that")
		fmt.Fprintln(w, "   this is exactly the list the Coq definition `compatible` rejects. checks/C28.py requires every one of")
		fmt.Fprintln(w, "   them to be a recorded known finding. *)")
		fmt.Fprintln(w, "Definition exceptions : list N := [")
		for i, k := range excList {
			sep := ";"
			if i == len(excList)-1 {
				sep = ""
			}
			p := strings.SplitN(k, " ", 2)
			fmt.Fprintf(w, "  %s%s %s\n", p[0], sep, p[1])
		}
		fmt.Fprintln(w, "].")
	}
}

// the harness's own copy of Model/C28_Arity.v `compatible` (kept in step by theorem
// C28_exceptions_are_the_incompatible_rows, which compares the two on the whole table)
func compatible(r row) bool {
	if r.found == 1 {
		return r.pc == r.total || (r.pc > r.total && r.pc-r.total <= r.opc)
	}
	if r.name == "#init" {
		return r.total == 0
	}
	return strings.Contains(r.flags, "a") || !r.concrete
}

