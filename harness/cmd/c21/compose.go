// c21 -extra compose: stream c21.compose - composition TERMS over regex values.
//
// A term is built from LEAVES (regex literals: a flag set and a source) with `+` (Regex#+,
// value.Regex.ConcatVal) and `* n` (Regex#*, value.Regex.RepeatVal), nested to depth 3.  The
// harness evaluates the term on the IMPLEMENTATION through the Go API that vm/regex.go registers
// for `+` / `*`, step by step (every subterm yields a *value.Regex whose Source the next step
// glues into a new source and compiles), and matches every subterm's value against the subjects.
// The model side (ocaml/C21, Model/C21_Compose.v) gets the leaf TREES only (walked from Go's own
// regex parser, like c21.text) and computes the denotation of the term from them; it never sees
// the composed source.
//
// case line (generated or replayed):
//
//	input   : "term=<T> tsrc=<S> subj=<hex,..> orc=<tables> elk=<hex|->"
//	           T ::= L(<flags>;<tree>) | P(T,T) | R(<n>;T)         (what the model reads)
//	           S ::= L(<flags>;<src hex>) | P(S,S) | R(<n>;S)      (replay form)
//	           elk = the Elk expression `((%/x/ + %/y/i) * 2)` when every leaf can be written as a literal
//	observed: "st=<ok|err:<i>:<msg>>;fl=<flags>;src=<hex>;sub=<i>:<op>:<class>/..;sm=<bits>/..;d=<bits|->;rt=<bits|->"
//	           sub/sm: one entry per subterm in post-order (op L, P, R<n>; class = shape of the subterm's
//	           Source text), sm = Regex.MatchesString of that subterm's value per subject
//	           d  = the same composition made on the Go side from the leaves' transpiled texts
//	                ("(?:"+Transpile(leaf)+")", juxtaposition, "(?:..){n}") - direct oracle
//	           rt = CompileRegex(value.Source, value.Flags) again (the source re-read as a literal)
//	           [;gd=<bits|->/..;gc=<foldmix|other>] only when Go's regexp disagrees with itself on some subterm's compiled text:
//	                per subterm the verdicts of the text with alternation factoring blocked (main.go guardText), "-" where equal
//
// corpus / replay lines: "tsrc=<S> [subj=<hex,..>]".
package main

import (
	"fmt"
	"regexp"
	"strconv"
	"strings"
	"unicode/utf8"

	"verifharness/hx"

	"github.com/elk-language/elk/bitfield"
	"github.com/elk-language/elk/regex"
	"github.com/elk-language/elk/regex/flag"
	"github.com/elk-language/elk/regex/parser"
	"github.com/elk-language/elk/regex/parser/ast"
	"github.com/elk-language/elk/value"
)

type cleaf struct {
	fs   string
	f    bitfield.BitField8
	src  string
	root ast.Node
	tree string
}

type cterm struct {
	op   byte // 'L', 'P', 'R'
	leaf *cleaf
	l, r *cterm
	n    int
}

func (t *cterm) forModel() string {
	switch t.op {
	case 'L':
		return "L(" + t.leaf.fs + ";" + t.leaf.tree + ")"
	case 'P':
		return "P(" + t.l.forModel() + "," + t.r.forModel() + ")"
	}
	return "R(" + strconv.Itoa(t.n) + ";" + t.l.forModel() + ")"
}

func (t *cterm) forReplay() string {
	switch t.op {
	case 'L':
		h := s2hx(t.leaf.src)
		if h == "" {
			h = "e"
		}
		return "L(" + t.leaf.fs + ";" + h + ")"
	case 'P':
		return "P(" + t.l.forReplay() + "," + t.r.forReplay() + ")"
	}
	return "R(" + strconv.Itoa(t.n) + ";" + t.l.forReplay() + ")"
}

// the Elk expression, "" when some leaf cannot be written as a %/../ literal
func (t *cterm) elk() string {
	switch t.op {
	case 'L':
		s := t.leaf.src
		// `/` ends the literal, `${` starts an interpolation, a trailing `\` would escape the closing `/`
		if strings.Contains(s, "/") || strings.Contains(s, "${") || strings.HasSuffix(s, `\`) || !utf8.ValidString(s) {
			return ""
		}
		for _, c := range s {
			if c < 0x20 || c == 0x7f {
				return ""
			}
		}
		fl := ""
		if t.leaf.fs != "-" {
			fl = t.leaf.fs
		}
		return "%/" + s + "/" + fl
	case 'P':
		a, b := t.l.elk(), t.r.elk()
		if a == "" || b == "" {
			return ""
		}
		return "(" + a + " + " + b + ")"
	}
	a := t.l.elk()
	if a == "" {
		return ""
	}
	return "(" + a + " * " + strconv.Itoa(t.n) + ")"
}

func (t *cterm) postorder(out *[]*cterm) {
	if t.op != 'L' {
		t.l.postorder(out)
		if t.op == 'P' {
			t.r.postorder(out)
		}
	}
	*out = append(*out, t)
}

func (t *cterm) leaves() int {
	switch t.op {
	case 'L':
		return 1
	case 'P':
		return t.l.leaves() + t.r.leaves()
	}
	return t.l.leaves()
}

// ---------------------------------------------------------------- leaves

func makeLeaf(fs, src string, w *walker) *cleaf {
	f := parseFlags(fs)
	fs = flagString(f)
	if wouldHang(src) || !utf8.ValidString(src) {
		return nil
	}
	var root ast.Node
	bad := false
	if p := hx.Guard(func() string {
		n, diags := parser.Parse(src)
		root, bad = n, len(diags) > 0
		return ""
	}); p != "" || bad {
		return nil
	}
	w2 := &walker{uni: map[string]bool{}, posix: map[string]bool{}}
	tree := w2.re(root)
	if w2.bad {
		return nil
	}
	// the leaf itself must be a valid regex value
	if p := hx.Guard(func() string {
		if _, err := value.CompileRegex(src, f); err != nil {
			return "err"
		}
		return ""
	}); p != "" {
		return nil
	}
	for n := range w2.uni {
		w.uni[n] = true
	}
	for n := range w2.posix {
		w.posix[n] = true
	}
	return &cleaf{fs: fs, f: f, src: src, root: root, tree: tree}
}

var groupHeads = []string{"(", "(", "(?:", "(?:", "(?i:", "(?-i:", "(?s:", "(?m:", "(?a:", "(?<g>", "(?P<h>"}

// text of one regex literal; the shapes the composition operators have to wrap correctly are weighted up:
// sources that begin with `(` and end with `)` without being ONE group, top-level alternations, anchors,
// the empty regex, sources that end in a quantifier or an escape
func genLeafSource(r *hx.Rng, idx int) (string, string) {
	fs := genFlags(r)
	if strings.Contains(fs, "x") && r.Chance(2, 3) {
		fs = flagString(parseFlags(strings.ReplaceAll(fs, "x", "")))
	}
	x := strings.Contains(fs, "x")
	suffix := strconv.Itoa(idx)
	small := func(budget int) string {
		g := &gen{r: r, x: x, xs: x, budget: budget, nox: true, suffix: suffix}
		return g.concat()
	}
	head := func() string {
		h := hx.Pick(r, groupHeads)
		if strings.HasSuffix(h, ">") {
			h = h[:len(h)-1] + suffix + string(rune('a'+r.Below(26))) + string(rune('a'+r.Below(26))) + ">"
		}
		return h
	}
	group := func() string {
		body := small(r.Range(1, 2))
		if r.Chance(1, 4) {
			body += "|" + small(1)
		}
		return head() + body + ")"
	}
	var src string
	switch k := r.Below(100); {
	case k < 26: // several top-level groups
		n := r.Range(2, 3)
		sep := hx.Pick(r, []string{"", "", "", "|", "|", "-", "."})
		var parts []string
		for i := 0; i < n; i++ {
			p := group()
			if i < n-1 && r.Chance(1, 5) {
				p += hx.Pick(r, []string{"?", "*", "+", "{2}"})
			}
			parts = append(parts, p)
		}
		src = strings.Join(parts, sep)
		if sep != "|" && r.Chance(1, 6) {
			src = strings.Join(parts[:n-1], sep) + "|" + parts[n-1]
		}
	case k < 32: // one group (the wrapper may legitimately be redundant here)
		src = group()
	case k < 40:
		src = hx.Pick(r, []string{"^", "$", `\A`, `\z`, `\b`, `\B`, "", "", "^", "$"})
	case k < 52: // top-level alternation
		n := r.Range(2, 3)
		var parts []string
		for i := 0; i < n; i++ {
			parts = append(parts, small(r.Range(1, 2)))
		}
		src = strings.Join(parts, "|")
	case k < 58: // begins with `(`, or ends with `)`, not both
		if r.Chance(1, 2) {
			src = group() + small(1)
		} else {
			src = small(1) + group()
		}
	case k < 64: // ends in a quantifier
		src = small(1) + hx.Pick(r, []string{"a", "[ab]", "(b)", "."}) + hx.Pick(r, []string{"*", "+", "?", "{2}", "{1,2}", "{,2}", "*?", "+?"})
	default:
		g := &gen{r: r, x: x, xs: x, budget: r.Range(1, 6), nox: true, suffix: suffix}
		g.fg = r.Chance(1, 8)
		src = g.regex()
	}
	return fs, src
}

func genLeaf(r *hx.Rng, idx int, w *walker) *cterm {
	for try := 0; try < 30; try++ {
		fs, src := genLeafSource(r, idx)
		if strings.Contains(src, "100") { // {1000} {1001} {1,1000}: nesting them exceeds Go's repeat limits
			continue
		}
		if l := makeLeaf(fs, src, w); l != nil {
			return &cterm{op: 'L', leaf: l}
		}
	}
	return &cterm{op: 'L', leaf: makeLeaf("-", "a", w)}
}

var repCounts = []int{2, 2, 2, 2, 3, 3, 3, 1, 1, 0, 0, 2}

func genTerm(r *hx.Rng, depth int, idx *int, w *walker) *cterm {
	if depth == 0 || (depth < 3 && r.Chance(1, 4)) {
		*idx++
		return genLeaf(r, *idx, w)
	}
	if r.Chance(11, 20) {
		l := genTerm(r, depth-1, idx, w)
		rr := genTerm(r, depth-1, idx, w)
		return &cterm{op: 'P', l: l, r: rr}
	}
	return &cterm{op: 'R', l: genTerm(r, depth-1, idx, w), n: hx.Pick(r, repCounts)}
}

func anchorLeaf(r *hx.Rng, w *walker, srcs []string) *cterm {
	fs := "-"
	if r.Chance(1, 4) {
		fs = hx.Pick(r, []string{"m", "i", "s", "ms", "a"})
	}
	return &cterm{op: 'L', leaf: makeLeaf(fs, hx.Pick(r, srcs), w)}
}

func genCase(r *hx.Rng, w *walker) *cterm {
	idx := 0
	depth := 3
	switch k := r.Below(10); {
	case k < 2:
		depth = 1
	case k < 6:
		depth = 2
	}
	var t *cterm
	for try := 0; ; try++ {
		idx = 0
		t = genTerm(r, depth, &idx, w)
		if t.leaves() <= 6 || try > 5 {
			break
		}
	}
	// unanchored, `matches` is "some substring matches": most verdicts would be `true`.  Half of the terms are
	// closed with anchor LEAVES (they are regex values with their own flags like any other leaf)
	if r.Chance(1, 2) {
		a := anchorLeaf(r, w, []string{"^", "^", `\A`})
		z := anchorLeaf(r, w, []string{"$", "$", `\z`})
		if r.Chance(1, 2) {
			t = &cterm{op: 'P', l: &cterm{op: 'P', l: a, r: t}, r: z}
		} else {
			t = &cterm{op: 'P', l: a, r: &cterm{op: 'P', l: t, r: z}}
		}
	}
	return t
}

// ---------------------------------------------------------------- subjects: drawn from the languages of the leaves

type tsampler struct {
	s      *sampler
	target *cterm
	mode   int
}

func (ts *tsampler) sample(t *cterm) []rune {
	switch t.op {
	case 'L':
		ts.s.x = t.leaf.f.HasFlag(flag.ExtendedFlag)
		return ts.s.sample(t.leaf.root)
	case 'P':
		if t == ts.target {
			switch ts.mode % 4 {
			case 0:
				return ts.sample(t.l)
			case 1:
				return ts.sample(t.r)
			case 2:
				b := ts.sample(t.r)
				return append(b, ts.sample(t.l)...)
			default:
				a := ts.sample(t.l)
				a = append(a, ts.sample(t.r)...)
				return append(a, ts.sample(t.r)...)
			}
		}
		a := ts.sample(t.l)
		return append(a, ts.sample(t.r)...)
	}
	n := t.n
	if t == ts.target {
		switch ts.mode % 5 {
		case 0:
			if n > 0 {
				n--
			} else {
				n++
			}
		case 1:
			n++
		case 2, 3:
			// `l r r` / `l l r` for (l + r) * n: what a quantifier bound to one side only accepts
			if t.l.op == 'P' {
				var out []rune
				ln, rn := 1, n
				if ts.mode%5 == 3 {
					ln, rn = n, 1
				}
				for i := 0; i < ln; i++ {
					out = append(out, ts.sample(t.l.l)...)
				}
				for i := 0; i < rn; i++ {
					out = append(out, ts.sample(t.l.r)...)
				}
				return out
			}
			n++
		default:
			// the same match n times
			one := ts.sample(t.l)
			var out []rune
			for i := 0; i < n; i++ {
				out = append(out, one...)
			}
			return out
		}
	}
	var out []rune
	for i := 0; i < n; i++ {
		out = append(out, ts.sample(t.l)...)
	}
	return out
}

const maxComposeRunes = 14

func clipN(rs []rune, n int) string {
	if len(rs) > n {
		rs = rs[:n]
	}
	return clip16(rs)
}

func clip16(rs []rune) string {
	var sb strings.Builder
	for _, r := range rs {
		if r < 0 || r > 0x10FFFF || (r >= 0xD800 && r <= 0xDFFF) {
			r = 0xFFFD
		}
		sb.WriteRune(r)
	}
	return sb.String()
}

func composeSubjects(t *cterm, seed uint64, given []string) []string {
	s := &sampler{r: hx.NewRng(seed), pool: map[rune]bool{}}
	var nodes, inner []*cterm
	t.postorder(&nodes)
	for _, n := range nodes {
		if n.op != 'L' {
			inner = append(inner, n)
		}
	}
	seen := map[string]bool{}
	var out []string
	put := func(v string) {
		if !utf8.ValidString(v) {
			v = strings.ToValidUTF8(v, "�")
		}
		if !seen[v] {
			seen[v] = true
			out = append(out, v)
		}
	}
	for _, g := range given {
		put(g)
	}
	put("")
	want := len(out) + s.r.Range(7, 10)
	ts := &tsampler{s: s}
	ts.sample(t) // fill the pool
	for try := 0; try < 50 && len(out) < want; try++ {
		ts.target = nil
		switch try % 4 {
		case 0:
			put(clipN(ts.sample(t), maxComposeRunes))
		case 2:
			put(clipN(s.mutate(ts.sample(t)), maxComposeRunes))
		default:
			if len(inner) > 0 {
				ts.target = hx.Pick(s.r, inner)
				ts.mode = s.r.Below(20)
			}
			put(clipN(ts.sample(t), maxComposeRunes))
		}
	}
	return out
}

// ---------------------------------------------------------------- shape of a source text (failure-key classes)

// top-level structure of a regex source: skips escapes, \Q..\E and bracket expressions
func sourceClass(src string) string {
	if src == "" {
		return "empty"
	}
	rs := []rune(src)
	depth, groups, closedAtEnd := 0, 0, false
	topAlt := false
	topOther := false
	for i := 0; i < len(rs); i++ {
		c := rs[i]
		switch {
		case c == '\\':
			if i+1 < len(rs) && rs[i+1] == 'Q' {
				j := strings.Index(string(rs[i:]), `\E`)
				if j < 0 {
					i = len(rs)
				} else {
					i += len([]rune(string(rs[i:])[:j])) + 1
				}
			} else {
				i++
			}
			if depth == 0 {
				topOther = true
			}
			closedAtEnd = false
		case c == '[':
			j := i + 1
			if j < len(rs) && rs[j] == '^' {
				j++
			}
			if j < len(rs) && rs[j] == ']' {
				j++
			}
			for ; j < len(rs) && rs[j] != ']'; j++ {
				if rs[j] == '\\' {
					j++
				} else if rs[j] == '[' && j+1 < len(rs) && rs[j+1] == ':' {
					if k := strings.Index(string(rs[j:]), ":]"); k >= 0 {
						j += len([]rune(string(rs[j:])[:k])) + 1
					}
				}
			}
			i = j
			if depth == 0 {
				topOther = true
			}
			closedAtEnd = false
		case c == '(':
			if depth == 0 {
				groups++
			}
			depth++
			closedAtEnd = false
		case c == ')':
			if depth > 0 {
				depth--
			}
			closedAtEnd = depth == 0
		case c == '|' && depth == 0:
			topAlt = true
			closedAtEnd = false
		default:
			if depth == 0 {
				topOther = true
			}
			closedAtEnd = false
		}
	}
	delimited := rs[0] == '(' && closedAtEnd
	switch {
	case delimited && groups == 1 && !topAlt && !topOther:
		return "group"
	case delimited && topAlt:
		return "groups-alt"
	case delimited:
		return "groups"
	case topAlt:
		return "alt"
	}
	switch rs[len(rs)-1] {
	case '*', '+', '?', '}':
		return "quantified-end"
	}
	if len(rs) <= 2 && (src == "^" || src == "$" || src == `\A` || src == `\z` || src == `\b` || src == `\B`) {
		return "anchor"
	}
	return "plain"
}

// ---------------------------------------------------------------- the implementation

type evalRes struct {
	re  []*value.Regex // per subterm (post-order); nil after a failure
	err string
	at  int
}

func evalCompose(nodes []*cterm) evalRes {
	res := evalRes{re: make([]*value.Regex, len(nodes)), at: -1}
	index := map[*cterm]int{}
	for i, n := range nodes {
		index[n] = i
		var v, e value.Value
		var direct *value.Regex
		p := hx.Guard(func() string {
			switch n.op {
			case 'L':
				re, err := value.CompileRegex(n.leaf.src, n.leaf.f)
				if err != nil {
					return "leaf: " + err.Error()
				}
				direct = re
			case 'P':
				v, e = res.re[index[n.l]].ConcatVal(value.Ref(res.re[index[n.r]]))
			default:
				v, e = res.re[index[n.l]].RepeatVal(value.SmallInt(n.n).ToValue())
			}
			return ""
		})
		if p == "" && direct == nil {
			if !e.IsUndefined() {
				p = "error " + strings.SplitN(e.Inspect(), "\n", 2)[0]
			} else if r, ok := v.SafeAsReference().(*value.Regex); ok {
				direct = r
			} else {
				p = "not-a-regex " + v.Inspect()
			}
		}
		if p != "" {
			res.err, res.at = p, i
			return res
		}
		res.re[i] = direct
	}
	return res
}

func bitsOf(match func(string) bool, subjects []string) string {
	var sb strings.Builder
	for _, s := range subjects {
		sb.WriteString(b01(match(s)))
	}
	if sb.Len() == 0 {
		return "-"
	}
	return sb.String()
}

// the same composition made on the Go side from the leaves' own transpiled texts
func directGo(t *cterm) (string, bool) {
	switch t.op {
	case 'L':
		text, diags := regex.Transpile(t.leaf.src, t.leaf.f)
		if diags != nil || len(diags) > 0 {
			return "", false
		}
		return "(?:" + text + ")", true
	case 'P':
		a, ok1 := directGo(t.l)
		b, ok2 := directGo(t.r)
		return a + b, ok1 && ok2
	}
	a, ok := directGo(t.l)
	return "(?:" + a + "){" + strconv.Itoa(t.n) + "}", ok
}

// diagnosis of a failing case (-extra compose-diag): the match RELATION of a value on a subject - for every
// start position i (in runes) the end positions j such that the value matches exactly the stretch i..j of the
// subject IN ITS CONTEXT (anchors and \b see the whole subject): `\A(?s:.{i})(?:T)(?s:.{n-j})\z` over the Go text
// T of the value's compiled regexp.  Encoding: subjects joined by ",", rows i = 0..n joined by ".", n+1 bits each.
// The model prints the same relation from cden (the transformer applied to the singleton start set {i}).
func relationOf(v *value.Regex, subjects []string) string {
	text := v.Re.String()
	cache := map[[2]int]*regexp.Regexp{}
	var per []string
	for _, s := range subjects {
		n := utf8.RuneCountInString(s)
		var rows []string
		for i := 0; i <= n; i++ {
			var sb strings.Builder
			for j := 0; j <= n; j++ {
				if j < i {
					sb.WriteByte('0')
					continue
				}
				k := [2]int{i, n - j}
				re, ok := cache[k]
				if !ok {
					re, _ = regexp.Compile(`\A(?s:.{` + strconv.Itoa(i) + `})(?:` + text + `)(?s:.{` + strconv.Itoa(n-j) + `})\z`)
					cache[k] = re
				}
				sb.WriteString(b01(re != nil && re.MatchString(s)))
			}
			rows = append(rows, sb.String())
		}
		per = append(per, strings.Join(rows, "."))
	}
	return strings.Join(per, ",")
}

func observeCompose(t *cterm, nodes []*cterm, subjects []string, diag bool) string {
	return hx.Guard(func() string {
		res := evalCompose(nodes)
		var sub, sm []string
		gd := make([]string, len(nodes)) // per subterm: verdicts of the factoring-guarded text where they differ, else "-"
		gdAny, gc := false, ""
		for i := range gd {
			gd[i] = "-"
		}
		for i, n := range nodes {
			op := string(n.op)
			if n.op == 'R' {
				op += strconv.Itoa(n.n)
			}
			if res.re[i] == nil {
				sub = append(sub, strconv.Itoa(i)+":"+op+":-")
				sm = append(sm, "-")
				continue
			}
			sub = append(sub, strconv.Itoa(i)+":"+op+":"+sourceClass(res.re[i].Source))
			sm = append(sm, bitsOf(res.re[i].MatchesString, subjects))
			// Go's regexp against itself on this value's compiled text (main.go: guardText)
			if b, c := guardBits(res.re[i].Re.String(), subjects, sm[len(sm)-1]); b != "" {
				gdAny = true
				gd[i] = b
				if gc == "" || c == "other" {
					gc = c
				}
			}
		}
		st := "ok"
		fl, src, rt := "-", "-", "-"
		if res.at >= 0 {
			st = "err:" + strconv.Itoa(res.at) + ":" + s2hx(res.err)
		} else {
			root := res.re[len(nodes)-1]
			fl = flagString(root.Flags)
			src = s2hx(root.Source)
			if src == "" {
				src = "e"
			}
			if again, err := value.CompileRegex(root.Source, root.Flags); err == nil {
				rt = bitsOf(again.MatchesString, subjects)
			} else {
				rt = "ERR"
			}
		}
		d := "-"
		if text, ok := directGo(t); ok {
			if re, err := regexp.Compile(text); err == nil {
				d = bitsOf(re.MatchString, subjects)
			}
		}
		rel := ""
		if diag {
			var rs []string
			for i := range nodes {
				if res.re[i] == nil {
					rs = append(rs, "-")
				} else {
					rs = append(rs, relationOf(res.re[i], subjects))
				}
			}
			rel = ";rel=" + strings.Join(rs, "/")
		}
		guard := ""
		if gdAny {
			guard = ";gd=" + strings.Join(gd, "/") + ";gc=" + gc
		}
		return "st=" + st + ";fl=" + fl + ";src=" + src + ";sub=" + strings.Join(sub, "/") + ";sm=" + strings.Join(sm, "/") + ";d=" + d + ";rt=" + rt + guard + rel
	})
}

func emitCompose(id string, t *cterm, w *walker, given []string, diag bool) {
	var nodes []*cterm
	t.postorder(&nodes)
	replay := t.forReplay()
	subjects := composeSubjects(t, seedOf("compose", replay), given)
	var sh []string
	for _, s := range subjects {
		if s == "" {
			sh = append(sh, "e")
		} else {
			sh = append(sh, s2hx(s))
		}
	}
	elk := "-"
	if e := t.elk(); e != "" {
		elk = s2hx(e)
	}
	dg := ""
	if diag {
		dg = " diag=1"
	}
	hx.Emit(id, "term="+t.forModel()+" tsrc="+replay+" subj="+strings.Join(sh, ",")+" orc="+oracleTable(subjects, w)+" elk="+elk+dg,
		observeCompose(t, nodes, subjects, diag))
}

// ---------------------------------------------------------------- replay form

func parseReplayTerm(s string, w *walker) (*cterm, error) {
	pos := 0
	word := func() string {
		st := pos
		for pos < len(s) && !strings.ContainsRune("(),;", rune(s[pos])) {
			pos++
		}
		return s[st:pos]
	}
	expect := func(c byte) error {
		if pos < len(s) && s[pos] == c {
			pos++
			return nil
		}
		return fmt.Errorf("expected %c at %d", c, pos)
	}
	var term func() (*cterm, error)
	term = func() (*cterm, error) {
		k := word()
		if err := expect('('); err != nil {
			return nil, err
		}
		var t *cterm
		switch k {
		case "L":
			fs := word()
			if err := expect(';'); err != nil {
				return nil, err
			}
			h := word()
			src := ""
			if h != "e" {
				src = hx2s(h)
			}
			l := makeLeaf(fs, src, w)
			if l == nil {
				return nil, fmt.Errorf("leaf %q does not compile", src)
			}
			t = &cterm{op: 'L', leaf: l}
		case "P":
			l, err := term()
			if err != nil {
				return nil, err
			}
			if err := expect(','); err != nil {
				return nil, err
			}
			r, err := term()
			if err != nil {
				return nil, err
			}
			t = &cterm{op: 'P', l: l, r: r}
		case "R":
			n, err := strconv.Atoi(word())
			if err != nil {
				return nil, err
			}
			if err := expect(';'); err != nil {
				return nil, err
			}
			l, err := term()
			if err != nil {
				return nil, err
			}
			t = &cterm{op: 'R', l: l, n: n}
		default:
			return nil, fmt.Errorf("node %q", k)
		}
		return t, expect(')')
	}
	t, err := term()
	if err == nil && pos != len(s) {
		err = fmt.Errorf("trailing text")
	}
	return t, err
}

func composeMain(o *hx.Opts) {
	for i, in := range hx.ReadInputs(o.Input) {
		var tsrc string
		var given []string
		for _, f := range strings.Fields(in) {
			kv := strings.SplitN(f, "=", 2)
			if len(kv) != 2 {
				continue
			}
			switch kv[0] {
			case "tsrc":
				tsrc = kv[1]
			case "subj":
				for _, h := range strings.Split(kv[1], ",") {
					if h == "e" || h == "" {
						given = append(given, "")
					} else {
						given = append(given, hx2s(h))
					}
				}
			}
		}
		if tsrc == "" {
			continue
		}
		w := &walker{uni: map[string]bool{}, posix: map[string]bool{}}
		t, err := parseReplayTerm(tsrc, w)
		if err != nil {
			hx.Emit(fmt.Sprintf("k%d", i), "term=- tsrc="+tsrc+" subj=e orc= elk=-", "st=bad-replay:"+s2hx(err.Error()))
			continue
		}
		emitCompose(fmt.Sprintf("k%d", i), t, w, given, o.Extra == "compose-diag")
	}
	r := hx.NewRng(o.Seed)
	for i := 0; i < o.N; i++ {
		w := &walker{uni: map[string]bool{}, posix: map[string]bool{}}
		emitCompose(fmt.Sprintf("g%d", i), genCase(r, w), w, nil, false)
	}
}
