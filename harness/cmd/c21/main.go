// c21: correspondence stream for the Elk regex transpiler (regex/transpile.go).
//
// One case = (flag set, Elk regex source). The harness
//   * parses the source with Go's own regex/parser and WALKS the returned tree into the compact
//     syntax the model driver reads (so the Gallina model needs no parser; mutated text works too),
//   * runs regex.Transpile, compiles the emitted text with Go's regexp and matches 6-10 subject
//     strings built from the characters / classes the pattern mentions,
//   * dumps, for every rune that can matter, its unicode.SimpleFold orbit and its membership in the
//     Unicode / POSIX tables the pattern can ask about (oracles of Model/C21_RegexSem.v),
//   * for patterns with extended mode (global x flag and / or flag groups `(?x)`, `(?-x)`, `(?x:..)`,
//     `(?-x:..)`): re-transpiles xStrip(src) without the global x - an independent, source-level reading
//     of "comments and whitespace are removed where x is on, `#` and whitespace are literal where it is off".
//
// input   : "f=<imsUxa subset|-> src=<hex> ast=<tree|ERR|HANG> subj=<hex,..> orc=<r:orbit:names;..>"
// observed: "text=<hex|ERR>;go=<ok|err>;m=<bits|->;xref=<hex|ERR|->[;xcause=<class>][;gd=<bits>;gc=<foldmix|other>]"
//           (gd/gc: only when Go's regexp gives other verdicts once alternation factoring is blocked - see guardText)
// corpus / replay lines: "f=<flags> src=<hex> [subj=<hex,..>]" (everything else is re-derived).
package main

import (
	"encoding/hex"
	"fmt"
	"hash/fnv"
	"regexp"
	"regexp/syntax"
	"sort"
	"strconv"
	"strings"
	"sync"
	"time"
	"unicode"
	"unicode/utf8"

	"verifharness/hx"

	"github.com/elk-language/elk/bitfield"
	"github.com/elk-language/elk/regex"
	"github.com/elk-language/elk/regex/flag"
	"github.com/elk-language/elk/regex/parser"
	"github.com/elk-language/elk/regex/parser/ast"
)

// ---------------------------------------------------------------- small helpers

func s2hx(s string) string { return hex.EncodeToString([]byte(s)) }
func hx2s(h string) string {
	b, err := hex.DecodeString(h)
	if err != nil {
		panic("bad hex " + h)
	}
	return string(b)
}

func cps(s string) string {
	if s == "" {
		return "-"
	}
	var p []string
	for _, r := range s {
		p = append(p, strconv.Itoa(int(r)))
	}
	return strings.Join(p, ".")
}

const flagOrder = "imsUxa"

var flagBits = map[rune]bitfield.BitFlag8{
	'i': flag.CaseInsensitiveFlag, 'm': flag.MultilineFlag, 's': flag.DotAllFlag,
	'U': flag.UngreedyFlag, 'x': flag.ExtendedFlag, 'a': flag.ASCIIFlag,
}

func parseFlags(s string) bitfield.BitField8 {
	var f bitfield.BitField8
	for _, c := range s {
		if b, ok := flagBits[c]; ok {
			f.SetFlag(b)
		}
	}
	return f
}

func flagString(f bitfield.BitField8) string {
	var sb strings.Builder
	for _, c := range flagOrder {
		if f.HasFlag(flagBits[c]) {
			sb.WriteRune(c)
		}
	}
	if sb.Len() == 0 {
		return "-"
	}
	return sb.String()
}

// ---------------------------------------------------------------- tree walker

type walker struct {
	bad    bool            // a node kind the compact syntax cannot express
	uni    map[string]bool // \p names
	posix  map[string]bool // [:name:] names
	flagsX bool            // some flag group mentions x
	setsX  bool            // some flag group sets x
}

func (w *walker) atom(n ast.Node) string {
	switch n := n.(type) {
	case *ast.CharNode:
		return "c" + strconv.Itoa(int(n.Value))
	case *ast.MetaCharEscapeNode:
		return "m" + strconv.Itoa(int(n.Value))
	case *ast.BellEscapeNode:
		return "sa"
	case *ast.FormFeedEscapeNode:
		return "sf"
	case *ast.TabEscapeNode:
		return "st"
	case *ast.NewlineEscapeNode:
		return "sn"
	case *ast.CarriageReturnEscapeNode:
		return "sr"
	case *ast.HexEscapeNode:
		return "x" + cps(n.Value)
	case *ast.UnicodeEscapeNode:
		return "x" + cps(n.Value)
	case *ast.OctalEscapeNode:
		return "o" + cps(n.Value)
	case *ast.CaretEscapeNode:
		return "k" + strconv.Itoa(int(n.Value))
	case *ast.WordCharClassNode:
		return "p0w"
	case *ast.NotWordCharClassNode:
		return "p1w"
	case *ast.DigitCharClassNode:
		return "p0d"
	case *ast.NotDigitCharClassNode:
		return "p1d"
	case *ast.WhitespaceCharClassNode:
		return "p0s"
	case *ast.NotWhitespaceCharClassNode:
		return "p1s"
	case *ast.HorizontalWhitespaceCharClassNode:
		return "p0h"
	case *ast.NotHorizontalWhitespaceCharClassNode:
		return "p1h"
	case *ast.VerticalWhitespaceCharClassNode:
		return "p0v"
	case *ast.NotVerticalWhitespaceCharClassNode:
		return "p1v"
	case *ast.UnicodeCharClassNode:
		w.uni[n.Value] = true
		return "u" + b01(n.Negated) + ":" + cps(n.Value)
	}
	return ""
}

func b01(b bool) string {
	if b {
		return "1"
	}
	return "0"
}

func (w *walker) item(n ast.Node) string {
	switch n := n.(type) {
	case *ast.CharRangeNode:
		l, r := w.atom(n.Left), w.atom(n.Right)
		if l == "" || r == "" {
			w.bad = true
		}
		return "r(" + l + "," + r + ")"
	case *ast.NamedCharClassNode:
		w.posix[n.Name] = true
		return "n" + b01(n.Negated) + ":" + cps(n.Name)
	}
	a := w.atom(n)
	if a == "" {
		w.bad = true
	}
	return "a(" + a + ")"
}

func fieldFlags(f bitfield.BitField8) string { return flagString(f) }

func (w *walker) quant(kind string, alt bool, r ast.Node) string {
	return "q(" + kind + ";" + b01(alt) + ";" + w.re(r) + ")"
}

func (w *walker) re(n ast.Node) string {
	switch n := n.(type) {
	case *ast.AnyCharClassNode:
		return "any"
	case *ast.StartOfStringAnchorNode:
		return "bol"
	case *ast.EndOfStringAnchorNode:
		return "eol"
	case *ast.AbsoluteStartOfStringAnchorNode:
		return "absbeg"
	case *ast.AbsoluteEndOfStringAnchorNode:
		return "absend"
	case *ast.WordBoundaryAnchorNode:
		return "wordb"
	case *ast.NotWordBoundaryAnchorNode:
		return "nwordb"
	case *ast.QuotedTextNode:
		return "Q(" + cps(n.Value) + ")"
	case *ast.CharClassNode:
		var it []string
		for _, e := range n.Elements {
			it = append(it, w.item(e))
		}
		return "C(" + b01(n.Negated) + ";" + strings.Join(it, ",") + ")"
	case *ast.ConcatenationNode:
		var it []string
		for _, e := range n.Elements {
			it = append(it, w.re(e))
		}
		return "cat(" + strings.Join(it, ",") + ")"
	case *ast.UnionNode:
		return "alt(" + w.re(n.Left) + "," + w.re(n.Right) + ")"
	case *ast.ZeroOrOneQuantifierNode:
		return w.quant("opt", n.Alt, n.Regex)
	case *ast.ZeroOrMoreQuantifierNode:
		return w.quant("star", n.Alt, n.Regex)
	case *ast.OneOrMoreQuantifierNode:
		return w.quant("plus", n.Alt, n.Regex)
	case *ast.NQuantifierNode:
		return w.quant("n:"+cps(n.N), n.Alt, n.Regex)
	case *ast.NMQuantifierNode:
		return w.quant("nm:"+cps(n.N)+":"+cps(n.M), n.Alt, n.Regex)
	case *ast.GroupNode:
		var kind string
		switch {
		case n.Name != "":
			kind = "nam:" + cps(n.Name)
		case n.NonCapturing:
			kind = "non"
		case n.IsAnyFlagSet() || n.Regex == nil:
			kind = "fl:" + fieldFlags(n.SetFlags) + ":" + fieldFlags(n.UnsetFlags)
			if n.SetFlags.HasFlag(flag.ExtendedFlag) {
				w.setsX, w.flagsX = true, true
			}
			if n.UnsetFlags.HasFlag(flag.ExtendedFlag) {
				w.flagsX = true
			}
		default:
			kind = "cap"
		}
		if n.Regex == nil {
			return "G(" + kind + ";)"
		}
		return "G(" + kind + ";" + w.re(n.Regex) + ")"
	case nil:
		w.bad = true
		return "?"
	}
	a := w.atom(n)
	if a == "" {
		w.bad = true
		return "?"
	}
	return "A(" + a + ")"
}

// ---------------------------------------------------------------- oracles (live Go tables)

var baseUni = []string{"L", "Mn", "Nd", "Pc", "Z", "Zs"}

type tableOracle struct {
	uniRe   map[string]*regexp.Regexp // fallback for names Go accepts that are in neither table
	posixRe map[string]*regexp.Regexp
}

var orc = tableOracle{uniRe: map[string]*regexp.Regexp{}, posixRe: map[string]*regexp.Regexp{}}

func (o *tableOracle) inUni(name string, r rune) bool {
	if t, ok := unicode.Categories[name]; ok {
		return unicode.Is(t, r)
	}
	if t, ok := unicode.Scripts[name]; ok {
		return unicode.Is(t, r)
	}
	re, seen := o.uniRe[name]
	if !seen {
		re, _ = regexp.Compile(`^\p{` + name + `}$`)
		o.uniRe[name] = re
	}
	return re != nil && re.MatchString(string(r))
}

func (o *tableOracle) inPosix(name string, r rune) bool {
	re, seen := o.posixRe[name]
	if !seen {
		re, _ = regexp.Compile(`^[[:` + name + `:]]$`)
		o.posixRe[name] = re
	}
	return re != nil && re.MatchString(string(r))
}

func orbit(r rune) []rune {
	var out []rune
	for x := unicode.SimpleFold(r); x != r && len(out) < 8; x = unicode.SimpleFold(x) {
		out = append(out, x)
	}
	return out
}

func oracleTable(subjects []string, w *walker) string {
	set := map[rune]bool{}
	for _, s := range subjects {
		for _, r := range s {
			set[r] = true
			for _, o := range orbit(r) {
				set[o] = true
			}
		}
	}
	var rs []rune
	for r := range set {
		rs = append(rs, r)
	}
	sort.Slice(rs, func(i, j int) bool { return rs[i] < rs[j] })
	uni := append([]string{}, baseUni...)
	for n := range w.uni {
		dup := false
		for _, b := range baseUni {
			dup = dup || b == n
		}
		if !dup {
			uni = append(uni, n)
		}
	}
	sort.Strings(uni[len(baseUni):])
	var px []string
	for n := range w.posix {
		px = append(px, n)
	}
	sort.Strings(px)
	var ent []string
	for _, r := range rs {
		var os, ns []string
		for _, o := range orbit(r) {
			os = append(os, strconv.Itoa(int(o)))
		}
		for _, n := range uni {
			if orc.inUni(n, r) {
				ns = append(ns, cps(n))
			}
		}
		for _, n := range px {
			if orc.inPosix(n, r) {
				ns = append(ns, "P/"+cps(n))
			}
		}
		e := strconv.Itoa(int(r)) + ":"
		if len(os) == 0 {
			e += "-"
		} else {
			e += strings.Join(os, ".")
		}
		e += ":"
		if len(ns) == 0 {
			e += "-"
		} else {
			e += strings.Join(ns, ",")
		}
		ent = append(ent, e)
	}
	return strings.Join(ent, ";")
}

// ---------------------------------------------------------------- subjects

var alphabet = []rune{
	'a', 'b', 'k', 'K', 's', 'S', 'x', 'y', 'z', 'A', 'Z', 0xE9, 0xC9, 0xDF, 0x212A, 0x17F, 0x3C3, 0x3C2, 0x3A3,
	0x1C4, 0x1C5, 0x1C6, '0', '5', '9', 0x663, '_', 0x203F, 0x301, 0xA0, 0x2028, 0x2029, 0x0B, '\t', '\n', '\r', '\f', ' ',
	0x85, 0x3000, '-', '.', '*', '#', '|', ']', '!', 0x1F600, 0x7F, 0x01,
}

var predefMembers = map[string][]rune{
	"w": {'a', 'Z', '5', '_', 0xE9, 0x663, 0x203F, 0x301, 0x17F, 0x212A},
	"d": {'0', '5', 0x663},
	"s": {' ', '\t', '\n', 0x0B, '\f', '\r', 0x85, 0xA0, 0x2028, 0x3000},
	"h": {' ', '\t', 0xA0, 0x3000},
	"v": {'\n', 0x0B, '\f', '\r', 0x85, 0x2028, 0x2029},
}
var predefOthers = map[string][]rune{
	"w": {'-', ' ', '.', 0xA0, '\n', 0x2028, '!'},
	"d": {'a', 0xE9, '-', ' ', 0xB2},
	"s": {'a', '_', 0x301, '0', 0x200B},
	"h": {'\n', 'a', 0x0B, 0x2028, 0x85},
	"v": {' ', '\t', 'a', 0xA0, 0x3000},
}
var posixMembers = map[string][]rune{
	"alpha": {'a', 'Z'}, "digit": {'5'}, "alnum": {'a', '7'}, "upper": {'A', 'K'}, "lower": {'z', 'k', 's'},
	"space": {' ', '\t', 0x0B, '\n'}, "blank": {' ', '\t'}, "punct": {'!', '-', '_'}, "word": {'_', 'a', '0'},
	"xdigit": {'f', 'A', '9'}, "cntrl": {0x01, 0x7F}, "graph": {'!', 'a'}, "print": {' ', 'a'}, "ascii": {0x7F, 'a'},
}

type sampler struct {
	r    *hx.Rng
	x    bool
	pool map[rune]bool
}

func (s *sampler) add(rs ...rune) {
	for _, r := range rs {
		if r >= 0 && r <= unicode.MaxRune && !(r >= 0xD800 && r <= 0xDFFF) {
			s.pool[r] = true
		}
	}
}

func parseNum(v string, base int) (rune, bool) {
	n, err := strconv.ParseInt(v, base, 32)
	if err != nil || n < 0 || n > unicode.MaxRune || (n >= 0xD800 && n <= 0xDFFF) {
		return 0, false
	}
	return rune(n), true
}

// the code point of a one-character atom
func atomRune(n ast.Node) (rune, bool) {
	switch n := n.(type) {
	case *ast.CharNode:
		return n.Value, true
	case *ast.MetaCharEscapeNode:
		return n.Value, true
	case *ast.BellEscapeNode:
		return 7, true
	case *ast.FormFeedEscapeNode:
		return 12, true
	case *ast.TabEscapeNode:
		return 9, true
	case *ast.NewlineEscapeNode:
		return 10, true
	case *ast.CarriageReturnEscapeNode:
		return 13, true
	case *ast.HexEscapeNode:
		return parseNum(n.Value, 16)
	case *ast.UnicodeEscapeNode:
		return parseNum(n.Value, 16)
	case *ast.OctalEscapeNode:
		return parseNum(n.Value, 8)
	case *ast.CaretEscapeNode:
		if n.Value >= 'a' && n.Value <= 'z' {
			return n.Value - 'a' + 1, true
		}
		if n.Value >= 'A' && n.Value <= 'Z' {
			return n.Value - 'A' + 1, true
		}
	}
	return 0, false
}

func predefOf(n ast.Node) (string, bool, bool) {
	switch n.(type) {
	case *ast.WordCharClassNode:
		return "w", false, true
	case *ast.NotWordCharClassNode:
		return "w", true, true
	case *ast.DigitCharClassNode:
		return "d", false, true
	case *ast.NotDigitCharClassNode:
		return "d", true, true
	case *ast.WhitespaceCharClassNode:
		return "s", false, true
	case *ast.NotWhitespaceCharClassNode:
		return "s", true, true
	case *ast.HorizontalWhitespaceCharClassNode:
		return "h", false, true
	case *ast.NotHorizontalWhitespaceCharClassNode:
		return "h", true, true
	case *ast.VerticalWhitespaceCharClassNode:
		return "v", false, true
	case *ast.NotVerticalWhitespaceCharClassNode:
		return "v", true, true
	}
	return "", false, false
}

func (s *sampler) tableRune(name string) (rune, bool) {
	t, ok := unicode.Categories[name]
	if !ok {
		t, ok = unicode.Scripts[name]
	}
	if !ok || t == nil {
		return 0, false
	}
	n := len(t.R16) + len(t.R32)
	if n == 0 {
		return 0, false
	}
	k := s.r.Below(n)
	if s.r.Chance(1, 2) { // the low ranges hold the familiar characters
		k = s.r.Below(min(n, 4))
	}
	var lo, hi rune
	if k < len(t.R16) {
		lo, hi = rune(t.R16[k].Lo), rune(t.R16[k].Hi)
	} else {
		lo, hi = rune(t.R32[k-len(t.R16)].Lo), rune(t.R32[k-len(t.R16)].Hi)
	}
	if s.r.Chance(1, 2) {
		return lo, true
	}
	return hi, true
}

func (s *sampler) other() rune {
	if len(s.pool) > 0 && s.r.Chance(1, 2) {
		rs := make([]rune, 0, len(s.pool))
		for r := range s.pool {
			rs = append(rs, r)
		}
		sort.Slice(rs, func(i, j int) bool { return rs[i] < rs[j] })
		return hx.Pick(s.r, rs)
	}
	return hx.Pick(s.r, alphabet)
}

func (s *sampler) variant(r rune) rune {
	if o := orbit(r); len(o) > 0 && s.r.Chance(2, 3) {
		return hx.Pick(s.r, o)
	}
	return s.other()
}

// one character for an atom / class element (a likely member; sometimes deliberately not)
func (s *sampler) element(n ast.Node) []rune {
	if r, ok := atomRune(n); ok {
		s.add(r)
		s.add(orbit(r)...)
		if s.r.Chance(1, 5) {
			return []rune{s.variant(r)}
		}
		return []rune{r}
	}
	if p, neg, ok := predefOf(n); ok {
		s.add(predefMembers[p][0], predefOthers[p][0])
		if neg != s.r.Chance(1, 6) {
			return []rune{hx.Pick(s.r, predefOthers[p])}
		}
		return []rune{hx.Pick(s.r, predefMembers[p])}
	}
	switch n := n.(type) {
	case *ast.UnicodeCharClassNode:
		r, ok := s.tableRune(n.Value)
		if ok {
			s.add(r)
			s.add(orbit(r)...)
		}
		if !ok || n.Negated != s.r.Chance(1, 6) {
			return []rune{s.other()}
		}
		return []rune{r}
	case *ast.NamedCharClassNode:
		m := posixMembers[n.Name]
		if len(m) == 0 || n.Negated != s.r.Chance(1, 6) {
			return []rune{s.other()}
		}
		s.add(m[0])
		return []rune{hx.Pick(s.r, m)}
	case *ast.CharRangeNode:
		lo, ok1 := atomRune(n.Left)
		hi, ok2 := atomRune(n.Right)
		if !ok1 || !ok2 {
			return []rune{s.other()}
		}
		s.add(lo, hi, lo-1, hi+1)
		switch s.r.Below(5) {
		case 0:
			return []rune{lo}
		case 1:
			return []rune{hi}
		case 2:
			if hi > lo {
				return []rune{lo + rune(s.r.Below(int(hi-lo)+1))}
			}
			return []rune{lo}
		case 3:
			return []rune{hx.Pick(s.r, []rune{lo - 1, hi + 1})}
		default:
			return []rune{s.variant(lo + (hi-lo)/2)}
		}
	}
	return []rune{s.other()}
}

func isChar(n ast.Node, c rune) bool {
	ch, ok := n.(*ast.CharNode)
	return ok && ch.Value == c
}

// a string the pattern plausibly matches
func (s *sampler) sample(n ast.Node) []rune {
	switch n := n.(type) {
	case nil:
		return nil
	case *ast.CharNode:
		if s.x && unicode.IsSpace(n.Value) {
			return nil
		}
		return s.element(n)
	case *ast.AnyCharClassNode:
		return []rune{s.other()}
	case *ast.StartOfStringAnchorNode, *ast.EndOfStringAnchorNode, *ast.AbsoluteStartOfStringAnchorNode,
		*ast.AbsoluteEndOfStringAnchorNode, *ast.WordBoundaryAnchorNode, *ast.NotWordBoundaryAnchorNode:
		return nil
	case *ast.QuotedTextNode:
		rs := []rune(n.Value)
		s.add(rs...)
		return rs
	case *ast.CharClassNode:
		for _, e := range n.Elements { // mention every element
			s.element(e)
		}
		if len(n.Elements) == 0 || n.Negated != s.r.Chance(1, 6) {
			return []rune{s.other()}
		}
		return s.element(hx.Pick(s.r, n.Elements))
	case *ast.ConcatenationNode:
		var out []rune
		comment := false
		for _, e := range n.Elements {
			if s.x {
				if comment {
					comment = !isChar(e, '\n')
					continue
				}
				if isChar(e, '#') {
					comment = true
					continue
				}
			}
			out = append(out, s.sample(e)...)
		}
		return out
	case *ast.UnionNode:
		if s.r.Chance(1, 2) {
			s.sample(n.Right)
			return s.sample(n.Left)
		}
		s.sample(n.Left)
		return s.sample(n.Right)
	case *ast.GroupNode:
		if n.SetFlags.HasFlag(flag.ExtendedFlag) {
			s.x = true
		}
		return s.sample(n.Regex)
	case *ast.ZeroOrOneQuantifierNode:
		return s.rep(n.Regex, 0, 1)
	case *ast.ZeroOrMoreQuantifierNode:
		return s.rep(n.Regex, 0, 2)
	case *ast.OneOrMoreQuantifierNode:
		return s.rep(n.Regex, 1, 2)
	case *ast.NQuantifierNode:
		k, _ := strconv.Atoi(n.N)
		return s.rep(n.Regex, min(k, 3), min(k, 3))
	case *ast.NMQuantifierNode:
		lo, _ := strconv.Atoi(n.N)
		hi := lo + 2
		if n.M != "" {
			hi, _ = strconv.Atoi(n.M)
		}
		lo, hi = min(lo, 3), min(hi, 3)
		if hi < lo {
			hi = lo
		}
		return s.rep(n.Regex, lo, hi)
	}
	return s.element(n)
}

func (s *sampler) rep(n ast.Node, lo, hi int) []rune {
	var out []rune
	s.sample(n) // mention
	for k := s.r.Range(lo, hi); k > 0; k-- {
		out = append(out, s.sample(n)...)
	}
	return out
}

const maxSubjectRunes = 6

func clip(rs []rune) string {
	if len(rs) > maxSubjectRunes {
		rs = rs[:maxSubjectRunes]
	}
	var sb strings.Builder
	for _, r := range rs {
		if r < 0 || r > unicode.MaxRune || (r >= 0xD800 && r <= 0xDFFF) {
			r = 0xFFFD
		}
		sb.WriteRune(r)
	}
	return sb.String()
}

func (s *sampler) mutate(rs []rune) []rune {
	rs = append([]rune{}, rs...)
	for k := s.r.Range(1, 2); k > 0; k-- {
		switch op := s.r.Below(6); {
		case op == 0 && len(rs) > 0:
			i := s.r.Below(len(rs))
			rs[i] = s.variant(rs[i])
		case op == 1 && len(rs) > 0:
			rs[s.r.Below(len(rs))] = s.other()
		case op == 2 && len(rs) > 0:
			i := s.r.Below(len(rs))
			rs = append(rs[:i], rs[i+1:]...)
		case op == 3:
			i := s.r.Below(len(rs) + 1)
			rs = append(rs[:i], append([]rune{s.other()}, rs[i:]...)...)
		case op == 4:
			rs = append([]rune{hx.Pick(s.r, []rune{'\n', 'a', ' ', '_', 0xE9})}, rs...)
		default:
			rs = append(rs, hx.Pick(s.r, []rune{'\n', 'a', ' ', '_', 0xE9}))
		}
	}
	return rs
}

func subjectsFor(root ast.Node, f bitfield.BitField8, seed uint64, given []string) []string {
	s := &sampler{r: hx.NewRng(seed), x: f.HasFlag(flag.ExtendedFlag), pool: map[rune]bool{}}
	x0 := s.x
	seen := map[string]bool{}
	var out []string
	put := func(v string) {
		if !utf8.ValidString(v) {
			v = strings.ToValidUTF8(v, "�")
		}
		if !seen[v] {
			seen[v] = true
			out = append(out, v)
		}
	}
	for _, g := range given {
		put(g)
	}
	put("")
	want := len(out) + s.r.Range(5, 9)
	s.sample(root) // fill the pool
	for try := 0; try < 40 && len(out) < want; try++ {
		s.x = x0
		switch {
		case try%3 == 0:
			put(clip(s.sample(root)))
		case try%3 == 1:
			put(clip(s.mutate(s.sample(root))))
		default:
			var rs []rune
			for k := s.r.Range(1, 4); k > 0; k-- {
				rs = append(rs, s.other())
			}
			put(clip(rs))
		}
	}
	return out
}

// ---------------------------------------------------------------- strip_x: independent reading of extended mode
//
// ---- flag-aware reading of extended mode (second pass: inline `(?x)` / `(?-x)` / `(?x:..)` / `(?-x:..)`)
//
// xScan walks the SOURCE with the x state the text itself prescribes: `x0` at the start, a bare
// flag group `(?..x..)` / `(?..-..x..)` switches it for the rest of the enclosing group, a group
// with content restores the state it was opened under when it closes (`|` does not touch it).
// Where x is on, comments and unescaped whitespace are removed; where x is off, `#` and
// whitespace are ordinary characters and stay.  When stripping, x is erased from the flag groups
// (it is invisible in the emitted text), so the stripped source never enters extended mode and
// Transpile(xStrip(src, x0), f - x) is what Transpile(src, f) must emit.
// It does not use the regex lexer / parser / transpiler.  ok=false: the text has a `(?` head
// this scanner does not read (the oracle is then not applied).
//
// edit, when not nil, is called for every rune that is copied as an ordinary character
// (outside escapes, classes, \Q..\E, group heads) with the x state at that point and may
// substitute it (used by the cause classification only); strip=false copies the comments and
// whitespace of the x-on regions too.

const flagChars = "imsUxa"

func xScan(src string, x0 bool, strip bool, edit func(c rune, x bool) rune, live []bool) (string, bool) {
	rs := []rune(src)
	n := len(rs)
	var out []rune
	var stack []bool
	x := x0
	i := 0
	// TOKENS ARE NOT FUSED.  The one token of the regex lexer whose length depends on what follows it is the simple octal
	// escape `\` DIGIT+ (lexer.octalEscape reads every following digit).  Under x, `\0 5` / `\0#..\n5` are the escape \0
	// followed by the character 5 (whitespace and comments separate tokens, they are not deleted from inside one); deleting
	// the stretch would write `\05`, another token.  So when something has been removed directly after an octal escape and
	// the next copied rune is a digit, the neutral separator `(?#)` is written between them (an empty comment group: the
	// lexer drops it in every mode and it leaves no node, so the emitted text is not affected).
	afterOctal, gap := false, false
	put := func(rs ...rune) {
		if len(rs) == 0 {
			return
		}
		if strip && afterOctal && gap && rs[0] >= '0' && rs[0] <= '9' {
			out = append(out, []rune("(?#)")...)
		}
		afterOctal, gap = false, false
		out = append(out, rs...)
	}
	for i < n {
		c := rs[i]
		switch {
		case c == '\\' && i+1 < n && rs[i+1] >= '0' && rs[i+1] <= '9':
			j := i + 2
			for j < n && rs[j] >= '0' && rs[j] <= '9' {
				j++
			}
			put(rs[i:j]...)
			afterOctal = true
			i = j
		case c == '\\' && i+1 < n && rs[i+1] == 'Q':
			j := i + 2
			for j < n && rs[j] != '\\' {
				j++
			}
			j = min(j+2, n)
			put(rs[i:j]...)
			i = j
		case c == '\\':
			j := min(i+2, n)
			put(rs[i:j]...)
			i = j
		case c == '[':
			j := i + 1
			for j < n && rs[j] != ']' {
				switch {
				case rs[j] == '\\':
					j += 2
				case rs[j] == '[' && j+1 < n && rs[j+1] == ':':
					k := j + 2
					for k < n && !(rs[k] == ':' && k+1 < n && rs[k+1] == ']') {
						k++
					}
					j = k + 2
				default:
					j++
				}
			}
			j = min(j+1, n)
			put(rs[i:j]...)
			i = j
		case x && c == '#':
			if live != nil {
				live[i] = true
			}
			j := i
			for j < n && rs[j] != '\n' {
				j++
			}
			j = min(j+1, n)
			if !strip {
				put(rs[i:j]...)
			}
			gap = true
			i = j
		case x && unicode.IsSpace(c):
			if live != nil {
				live[i] = true
			}
			if !strip {
				put(c)
			}
			gap = true
			i++
		case c == '(' && i+1 < n && rs[i+1] == '?':
			j := i + 2
			if j < n && rs[j] == '#' { // comment group, verbatim
				for j < n && rs[j] != ')' {
					j++
				}
				j = min(j+1, n)
				put(rs[i:j]...)
				i = j
				continue
			}
			set, unset, dash := false, false, false
			for j < n && (rs[j] == '-' || strings.ContainsRune(flagChars, rs[j])) {
				switch {
				case rs[j] == '-':
					dash = true
				case rs[j] == 'x' && dash:
					unset = true
				case rs[j] == 'x':
					set = true
				}
				j++
			}
			nx := (x || set) && !unset
			// when stripping, x is erased from the head (`(?x)` -> `(?)`, `(?i-x:` -> `(?i:`, `(?-x:` -> `(?:`): the emitted text
			// is the same (x is invisible to Go, a flag group with content and no visible flag is written `(?:`), and the
			// stripped source then never enters extended mode at all
			erased := func(end int, close rune) []rune {
				var st, un []rune
				d := false
				for _, c := range rs[i+2 : end] {
					switch {
					case c == '-':
						d = true
					case c == 'x':
					case d:
						un = append(un, c)
					default:
						st = append(st, c)
					}
				}
				h := append([]rune("(?"), st...)
				if len(un) > 0 {
					h = append(append(h, '-'), un...)
				}
				return append(h, close)
			}
			switch {
			case j < n && rs[j] == ')': // bare flag group: the rest of the enclosing group
				x = nx
				if strip && (set || unset) {
					put(erased(j, ')')...)
					i = j + 1
					continue
				}
				j++
			case j < n && rs[j] == ':': // scoped
				stack = append(stack, x)
				x = nx
				if strip && (set || unset) {
					put(erased(j, ':')...)
					i = j + 1
					continue
				}
				j++
			case j == i+2 && j < n && (rs[j] == '<' || rs[j] == '\'' || (rs[j] == 'P' && j+1 < n && rs[j+1] == '<')):
				// named group: the head up to the closing > or ' is copied
				if rs[j] == 'P' {
					j++
				}
				q := rs[j]
				if q == '<' {
					q = '>'
				}
				j++
				for j < n && rs[j] != q && rs[j] != ')' {
					j++
				}
				if j >= n || rs[j] != q {
					return "", false
				}
				j++
				stack = append(stack, x)
			default:
				return "", false
			}
			put(rs[i:j]...)
			i = j
		case c == '(':
			stack = append(stack, x)
			put(c)
			i++
		case c == ')':
			if len(stack) > 0 {
				x = stack[len(stack)-1]
				stack = stack[:len(stack)-1]
			}
			put(c)
			i++
		default:
			if edit != nil {
				c = edit(c, x)
			}
			put(c)
			i++
		}
	}
	return string(out), true
}

func xStrip(src string, x0 bool) (string, bool) { return xScan(src, x0, true, nil, nil) }

// per rune of src: it is a `#` that starts a comment, or a whitespace rune that is dropped, under the x state the
// text prescribes at that point (nil when the scanner cannot read the text)
func xLive(src string, x0 bool) []bool {
	live := make([]bool, len([]rune(src)))
	if _, ok := xScan(src, x0, false, nil, live); !ok {
		return nil
	}
	return live
}

// the source (nothing removed) with every `#` (hash) or whitespace rune (!hash) that stands where
// x is OFF replaced by 'c' - used by the cause classification only
func defuseOutsideX(src string, x0 bool, hash bool) string {
	s, ok := xScan(src, x0, false, func(c rune, x bool) rune {
		if !x && ((hash && c == '#') || (!hash && unicode.IsSpace(c))) {
			return 'c'
		}
		return c
	}, nil)
	if !ok {
		return src
	}
	return s
}

// neutralise copies src and defuses one suspected cause of an extended-mode disagreement:
//   set    INSIDE `#` comments, every rune of set becomes 'c' (an escape `\.` as a whole, "cc", and only when set has `\`)
//   hashq  a quantifier character directly after a comment's `#` becomes 'c'
//   nlq    a quantifier character directly after the newline that ends a comment becomes 'c'
//   wsq    a quantifier character directly after unescaped whitespace becomes 'c'
//   lone   a `#` that is the last character of the text gets a 'c' appended
type defuse struct {
	set                   string
	hashq, nlq, wsq, lone bool
}

func neutralise(src string, x0 bool, d defuse) string {
	const quant = "*+?{"
	rs := []rune(src)
	live := xLive(src, x0)
	on := func(i int) bool { return live == nil || live[i] }
	out := make([]rune, 0, len(rs)+1)
	n := len(rs)
	i := 0
	for i < n {
		c := rs[i]
		j := i + 1
		switch {
		case c == '\\' && i+1 < n && rs[i+1] == 'Q':
			j = i + 2
			for j < n && rs[j] != '\\' {
				j++
			}
			j = min(j+2, n)
		case c == '\\':
			j = min(i+2, n)
		case c == '[':
			for j < n && rs[j] != ']' {
				switch {
				case rs[j] == '\\':
					j += 2
				case rs[j] == '[' && j+1 < n && rs[j+1] == ':':
					k := j + 2
					for k < n && !(rs[k] == ':' && k+1 < n && rs[k+1] == ']') {
						k++
					}
					j = k + 2
				default:
					j++
				}
			}
			j = min(j+1, n)
		case c == '(' && i+2 < n && rs[i+1] == '?' && rs[i+2] == '#':
			j = i + 3
			for j < n && rs[j] != ')' {
				j++
			}
			j = min(j+1, n)
		case c == '#' && on(i):
			out = append(out, '#')
			// inert: a `[` or a `\Q` of this comment has been defused.  What follows it up to the end of the comment was inside
			// the class / the quoted text for the lexer and inside the comment for the oracle - without effect in both readings -
			// and must not come alive through the defusing itself (`#[*{\n]` -> `#c*{\nc` would make `{` a new cause): every
			// special character after it is replaced too
			inert := false
			for j < n && rs[j] != '\n' {
				switch {
				case d.hashq && j == i+1 && strings.ContainsRune(quant, rs[j]):
					out = append(out, 'c')
				case inert && rs[j] == '\\' && j+1 < n && rs[j+1] != '\n':
					out = append(out, 'c', 'c')
					j++
				case inert && strings.ContainsRune("|()[]*+?{}\\^$", rs[j]):
					out = append(out, 'c')
				case rs[j] == '\\' && j+1 < n && rs[j+1] != '\n':
					// an escape inside the comment is ONE token for the lexer (`\|` is no pipe, `\*` no quantifier): it is defused as
					// a whole, and only as the cause "backslash"; its second character is never replaced on its own (`\*` -> `\c`
					// would make a new token, a caret escape that takes the next character)
					// `\x{..}` `\u{..}` `\U{..}` `\o{..}` `\p{..}` `\P{..}`: the braces and what is between them belong to the escape
					e := j + 1
					if strings.ContainsRune("xuUopP", rs[j+1]) && j+2 < n && rs[j+2] == '{' {
						k := j + 3
						for k < n && rs[k] != '}' && rs[k] != '\n' {
							k++
						}
						if k < n && rs[k] == '}' {
							e = k
						}
					}
					for k := j; k <= e; k++ {
						if strings.ContainsRune(d.set, '\\') {
							out = append(out, 'c')
						} else {
							out = append(out, rs[k])
						}
					}
					if rs[j+1] == 'Q' && strings.ContainsRune(d.set, '\\') {
						inert = true
					}
					j = e
				case strings.ContainsRune(d.set, rs[j]):
					out = append(out, 'c')
					if rs[j] == '[' {
						inert = true
					}
				default:
					out = append(out, rs[j])
				}
				j++
			}
			if j >= n && j == i+1 && d.lone {
				out = append(out, 'c')
			}
			if j < n { // the newline
				out = append(out, '\n')
				j++
				// a quantifier after the newline, possibly behind `(?#..)` groups (the lexer drops them)
				k := j
				for k+2 < n && rs[k] == '(' && rs[k+1] == '?' && rs[k+2] == '#' {
					for k < n && rs[k] != ')' {
						k++
					}
					k = min(k+1, n)
				}
				if d.nlq && k < n && strings.ContainsRune(quant, rs[k]) {
					out = append(out, rs[j:k]...)
					out = append(out, 'c')
					j = k + 1
				}
			}
			i = j
			continue
		case unicode.IsSpace(c) && on(i):
			out = append(out, c)
			if d.wsq && j < n && strings.ContainsRune(quant, rs[j]) {
				out = append(out, 'c')
				j++
			}
			i = j
			continue
		}
		j = min(j, n)
		out = append(out, rs[i:j]...)
		i = j
	}
	return string(out)
}

// which feature makes Transpile(src, f) differ from Transpile(strip_x(src), f-x): the first
// single defusing that restores agreement (or, failing that, silences the oracle) names the cause; otherwise the
// smallest set of defusings that does
func xCause(src string, f bitfield.BitField8) string {
	g := f
	g.UnsetFlag(flag.ExtendedFlag)
	x0 := f.HasFlag(flag.ExtendedFlag)
	// what the direct oracle says about a (defused) source: 2 = both readings give the same result, 1 = they differ but the
	// oracle raises no failure (the implementation rejects the source, or Go rejects the emitted text - exactly the cases the
	// check only counts), 0 = the failure is still there
	levels := map[string]int{}
	level := func(s string) int {
		if l, ok := levels[s]; ok {
			return l
		}
		l := 0
		if st, ok := xStrip(s, x0); ok && !wouldHang(s) && !wouldHang(st) {
			ta, a := transpileHex(s, f)
			_, b := transpileHex(st, g)
			switch {
			case a == b:
				l = 2
			case a == "ERR":
				l = 1
			default:
				if _, err := regexp.Compile(ta); err != nil {
					l = 1
				}
			}
		}
		levels[s] = l
		return l
	}
	agrees := func(s string) bool { return level(s) == 2 }
	single := []struct {
		name string
		d    defuse
	}{
		{"hashq", defuse{hashq: true}}, {"lonehash", defuse{lone: true}}, {"nlq", defuse{nlq: true}}, {"pipe", defuse{set: "|"}}, {"paren", defuse{set: "()"}},
		{"bracket", defuse{set: "[]"}}, {"quantifier", defuse{set: "*+?{}"}}, {"backslash", defuse{set: "\\"}}, {"wsq", defuse{wsq: true}},
		{"anchor", defuse{set: "^$"}},
	}
	// inline x groups: a literal `#` / whitespace where x is OFF read as a comment / dropped (or the reverse);
	// tried first so that this class never hides behind one of the comment-text classes below
	if xGroupRe.MatchString(src) {
		if s := defuseOutsideX(src, x0, true); s != src && agrees(s) {
			return "hashoff"
		}
		if s := defuseOutsideX(src, x0, false); s != src && agrees(s) {
			return "wsoff"
		}
	}
	for _, c := range single {
		if s := neutralise(src, x0, c.d); s != src && agrees(s) {
			return c.name
		}
	}
	// several causes at once.  Candidates are the defusings that touch the text; every SET of them is tried, smallest sets
	// first, and among sets of one size the one made of the most specific classes first (rank below: `#*..` is hashq, not "a
	// quantifier somewhere in the comment").  The first set whose joint defusing restores agreement is the answer,
	// "multi-a+b": a smallest set of causes, each of them needed.  The check reports the case under EACH of their class keys,
	// so a pattern that combines known classes maps to the known keys and a new class in the mix still raises its own key.
	// (An exhaustive search, not a greedy one: defusing rewrites text - `\p{L}` -> `cc{L}` - and can itself break a pattern,
	// so whether a cause can be dropped depends on which others are defused.)
	rank := map[string]uint{"hashq": 0, "lonehash": 1, "nlq": 2, "wsq": 3, "pipe": 4, "paren": 5, "bracket": 6, "backslash": 7, "anchor": 8, "quantifier": 9}
	var cand []int
	for k, c := range single {
		if neutralise(src, x0, c.d) != src {
			cand = append(cand, k)
		}
	}
	type subset struct {
		mask, size int
		weight     uint
	}
	var subsets []subset
	for mask := 1; mask < 1<<len(cand); mask++ {
		ss := subset{mask: mask}
		for b, k := range cand {
			if mask&(1<<b) != 0 {
				ss.size++
				ss.weight += 1 << rank[single[k].name]
			}
		}
		if ss.size >= 2 {
			subsets = append(subsets, ss)
		}
	}
	sort.Slice(subsets, func(i, j int) bool {
		if subsets[i].size != subsets[j].size {
			return subsets[i].size < subsets[j].size
		}
		return subsets[i].weight < subsets[j].weight
	})
	build := func(in map[int]bool) defuse {
		var d defuse
		for k, c := range single {
			if in[k] {
				d.set += c.d.set
				d.hashq, d.nlq, d.wsq, d.lone = d.hashq || c.d.hashq, d.nlq || c.d.nlq, d.wsq || c.d.wsq, d.lone || c.d.lone
			}
		}
		return d
	}
	for _, ss := range subsets {
		in := map[int]bool{}
		for b, k := range cand {
			if ss.mask&(1<<b) != 0 {
				in[k] = true
			}
		}
		if !agrees(neutralise(src, x0, build(in))) {
			continue
		}
		// a member of the set may be there only because defusing ANOTHER member brought text to life: the defused `[` of
		// `#x[z\n .. #z{x]\n` turns `#z{x]` into a real comment whose `{` is a parse error, and only "quantifier" removes it.
		// Such a member is dropped when, without it, the oracle raises no failure any more (level 1: the implementation
		// rejects the defused source - a case the check counts but does not report); general classes are tried first.
		for _, name := range []string{"quantifier", "anchor", "backslash", "bracket", "paren", "pipe", "wsq", "nlq", "lonehash", "hashq"} {
			for k, c := range single {
				if c.name == name && in[k] && len(in) > 1 {
					delete(in, k)
					if level(neutralise(src, x0, build(in))) == 0 {
						in[k] = true
					}
				}
			}
		}
		var names []string
		for k, c := range single {
			if in[k] {
				names = append(names, c.name)
			}
		}
		if len(names) == 1 {
			return names[0]
		}
		return "multi-" + strings.Join(names, "+")
	}
	return "other"
}

var xGroupRe = regexp.MustCompile(`\(\?[A-Za-z-]*x`)

// the lexer never returns from an unterminated `(?#` comment group (reported under C03)
func wouldHang(src string) bool {
	i := strings.LastIndex(src, "(?#")
	return i >= 0 && !strings.Contains(src[i:], ")") && lexerHangs()
}

// probed once, and only when such a source shows up: does regex.Transpile("(?#") return?
// (with fixes/C03-regex-unterminated-comment.patch it does, and these inputs run normally)
var hangProbe struct {
	once  sync.Once
	hangs bool
}

func lexerHangs() bool {
	hangProbe.once.Do(func() {
		done := make(chan struct{})
		go func() {
			defer func() { recover(); close(done) }()
			regex.Transpile("(?#", bitfield.BitField8{})
		}()
		select {
		case <-done:
			hangProbe.hangs = false
		case <-time.After(10 * time.Second):
			hangProbe.hangs = true
		}
	})
	return hangProbe.hangs
}

// ---------------------------------------------------------------- third oracle: Go's regexp against itself
//
// Go's regexp/syntax parser rewrites every alternation while parsing (parser.factor: common leading literals / leading
// character classes of adjacent alternatives are factored out, single characters are merged into classes).  The rewrite
// is meant to be invisible; it is not: its equality test on the leading piece (Regexp.Equal) ignores the FoldCase flag of
// a one-rune literal, so `Z.|(?i)z` becomes `Z(?:.|(?:))` - the case-insensitive alternative is read case-sensitively
// (Go 1.25: regexp.MustCompile(`Z(?i).|z`).MatchString("z") == false).  Go's regexp is the trusted reference of this
// check, so the deviation is detected WITHOUT the model: guardText writes the empty group `(?:)` at the start of the
// text, after every `|` and after every group head.  `(?:)` matches the empty string and nothing else, so the guarded
// text denotes the same language; an alternative that starts with it has neither a leading literal nor a leading class,
// so nothing is factored.  When the compiled guarded text and the compiled emitted text disagree on a subject, Go's
// regexp disagrees with itself; the verdicts of the guarded text are printed (gd=) with the class of the cause (gc=).

func guardText(text string) string {
	const g = "(?:)"
	rs := []rune(text)
	n := len(rs)
	out := make([]rune, 0, n+16)
	out = append(out, []rune(g)...)
	i := 0
	for i < n {
		c := rs[i]
		switch {
		case c == '\\' && i+1 < n && rs[i+1] == 'Q':
			j := i + 2
			for j < n && !(rs[j] == '\\' && j+1 < n && rs[j+1] == 'E') {
				j++
			}
			j = min(j+2, n)
			out = append(out, rs[i:j]...)
			i = j
		case c == '\\':
			j := min(i+2, n)
			out = append(out, rs[i:j]...)
			i = j
		case c == '[':
			j := i + 1
			if j < n && rs[j] == '^' {
				j++
			}
			if j < n && rs[j] == ']' { // a `]` in first place is a member
				j++
			}
			for j < n && rs[j] != ']' {
				switch {
				case rs[j] == '\\':
					j += 2
				case rs[j] == '[' && j+1 < n && rs[j+1] == ':':
					k := j + 2
					for k < n && !(rs[k] == ':' && k+1 < n && rs[k+1] == ']') {
						k++
					}
					if k < n {
						j = k + 2
					} else {
						j++
					}
				default:
					j++
				}
			}
			j = min(j+1, n)
			out = append(out, rs[i:j]...)
			i = j
		case c == '|':
			out = append(out, c)
			out = append(out, []rune(g)...)
			i++
		case c == '(' && i+1 < n && rs[i+1] == '?':
			j := i + 2
			switch {
			case j < n && (rs[j] == '<' || (rs[j] == 'P' && j+1 < n && rs[j+1] == '<')):
				for j < n && rs[j] != '>' {
					j++
				}
				j = min(j+1, n)
				out = append(out, rs[i:j]...)
				out = append(out, []rune(g)...)
			default:
				for j < n && rs[j] != ')' && rs[j] != ':' {
					j++
				}
				scoped := j < n && rs[j] == ':'
				j = min(j+1, n)
				out = append(out, rs[i:j]...)
				if scoped {
					out = append(out, []rune(g)...)
				}
			}
			i = j
		case c == '(':
			out = append(out, c)
			out = append(out, []rune(g)...)
			i++
		default:
			out = append(out, c)
			i++
		}
	}
	return string(out)
}

// the alternatives of an alternation of the guarded (hence unfactored) tree, alternatives that are themselves nothing but
// an alternation expanded (Go flattens those before it factors)
func altList(re *syntax.Regexp, out *[]*syntax.Regexp) {
	for _, s := range re.Sub {
		inner := s
		if inner.Op == syntax.OpConcat {
			var rest []*syntax.Regexp
			for _, q := range inner.Sub {
				if q.Op != syntax.OpEmptyMatch {
					rest = append(rest, q)
				}
			}
			if len(rest) == 1 {
				inner = rest[0]
			}
		}
		if inner.Op == syntax.OpAlternate {
			altList(inner, out)
		} else {
			*out = append(*out, s)
		}
	}
}

type leadAtom struct {
	lit  bool
	r    rune
	fold bool
	s    string
}

// an alternative as the sequence of its leading pieces, literal strings split into runes (the factoring peels common
// leading pieces off one by one); empty matches (the guards) skipped
func leadAtoms(re *syntax.Regexp, out *[]leadAtom) {
	switch re.Op {
	case syntax.OpEmptyMatch:
	case syntax.OpConcat:
		for _, s := range re.Sub {
			leadAtoms(s, out)
		}
	case syntax.OpLiteral:
		for _, r := range re.Rune {
			*out = append(*out, leadAtom{lit: true, r: r, fold: re.Flags&syntax.FoldCase != 0})
		}
	case syntax.OpRepeat:
		// a fixed repeat of a one-rune literal is the other kind of piece the factoring compares with Equal
		if re.Min == re.Max && len(re.Sub) == 1 && re.Sub[0].Op == syntax.OpLiteral && len(re.Sub[0].Rune) == 1 {
			*out = append(*out, leadAtom{lit: true, r: re.Sub[0].Rune[0], fold: re.Sub[0].Flags&syntax.FoldCase != 0,
				s: "{" + strconv.Itoa(re.Min) + "}" + strconv.Itoa(int(re.Flags&syntax.NonGreedy))})
			return
		}
		*out = append(*out, leadAtom{s: re.String()})
	default:
		*out = append(*out, leadAtom{s: re.String()})
	}
}

// foldMix: some alternation of the (guarded) text has two alternatives that agree on their first k pieces and continue
// with the SAME stored rune, one as a case-insensitive literal and one as a case-sensitive literal - the one situation in
// which the factoring's flag-blind equality merges two pieces that are not equal
func foldMix(re *syntax.Regexp) bool {
	if re.Op == syntax.OpAlternate {
		var alts []*syntax.Regexp
		altList(re, &alts)
		seqs := make([][]leadAtom, len(alts))
		for i, a := range alts {
			leadAtoms(a, &seqs[i])
		}
		for i := range seqs {
			for j := i + 1; j < len(seqs); j++ {
				a, b := seqs[i], seqs[j]
				k := 0
				for k < len(a) && k < len(b) && a[k] == b[k] {
					k++
				}
				if k < len(a) && k < len(b) && a[k].lit && b[k].lit && a[k].r == b[k].r && a[k].s == b[k].s && a[k].fold != b[k].fold {
					return true
				}
			}
		}
	}
	for _, s := range re.Sub {
		if foldMix(s) {
			return true
		}
	}
	return false
}

// guardBits: the verdicts of the guarded text and the class of the cause when they differ from `plain` (the verdicts of
// the emitted text); "" when they are the same (or the text has no alternation / the guarded text does not compile)
func guardBits(text string, subjects []string, plain string) (string, string) {
	if !strings.Contains(text, "|") || len(subjects) == 0 {
		return "", ""
	}
	gt := guardText(text)
	gre, err := regexp.Compile(gt)
	if err != nil {
		return "", ""
	}
	var sb strings.Builder
	for _, s := range subjects {
		sb.WriteString(b01(gre.MatchString(s)))
	}
	if sb.String() == plain {
		return "", ""
	}
	cls := "other"
	if tree, err := syntax.Parse(gt, syntax.Perl); err == nil && foldMix(tree) {
		cls = "foldmix"
	}
	return sb.String(), cls
}

// ";gd=<bits>;gc=<class>" when Go's regexp disagrees with itself on the emitted text, "" otherwise
func guardOracle(text string, subjects []string, plain string) string {
	bits, cls := guardBits(text, subjects, plain)
	if bits == "" {
		return ""
	}
	return ";gd=" + bits + ";gc=" + cls
}

// ---------------------------------------------------------------- running the implementation

func transpileHex(src string, f bitfield.BitField8) (string, string) {
	if wouldHang(src) {
		return "", "ERR"
	}
	text, diags := regex.Transpile(src, f)
	if diags != nil || len(diags) > 0 {
		return "", "ERR"
	}
	return text, s2hx(text)
}

func observe(src string, f bitfield.BitField8, subjects []string, xref string) string {
	return hx.Guard(func() string {
		text, th := transpileHex(src, f)
		if xref != "-" && th != "ERR" && th != xref {
			cause := xCause(src, f)
			xm := ""
			if cause == "wsq" && xref != "ERR" {
				// dropped whitespace with a quantifier: `( ?)` -> `(?)`; the texts may differ harmlessly,
				// so the stripped source's matcher is run on the same subjects
				if xre, err := regexp.Compile(hx2s(xref)); err == nil {
					xm = ";xm="
					for _, s := range subjects {
						xm += b01(xre.MatchString(s))
					}
				}
			}
			xref += ";xcause=" + cause + xm
		}
		if th == "ERR" {
			return "text=ERR;go=err;m=-;xref=" + xref
		}
		re, err := regexp.Compile(text)
		if err != nil {
			return "text=" + th + ";go=err;m=-;xref=" + xref
		}
		var m strings.Builder
		for _, s := range subjects {
			m.WriteString(b01(re.MatchString(s)))
		}
		if m.Len() == 0 {
			m.WriteString("-")
		}
		return "text=" + th + ";go=ok;m=" + m.String() + ";xref=" + xref + guardOracle(text, subjects, m.String())
	})
}

func seedOf(f, src string) uint64 {
	h := fnv.New64a()
	h.Write([]byte(f + "|" + src))
	return h.Sum64()
}

func emitCase(id string, fs string, src string, given []string) {
	f := parseFlags(fs)
	fs = flagString(f)
	head := "f=" + fs + " src=" + s2hx(src)
	if wouldHang(src) {
		hx.Emit(id, head+" ast=HANG subj=e orc=", "skipped-unterminated-comment-group")
		return
	}
	// direct oracle for extended mode: whenever x is on somewhere (literal flag or a flag group that mentions x)
	xref := "-"
	if f.HasFlag(flag.ExtendedFlag) || xGroupRe.MatchString(src) {
		g := f
		g.UnsetFlag(flag.ExtendedFlag)
		if st, ok := xStrip(src, f.HasFlag(flag.ExtendedFlag)); ok {
			xref = hx.Guard(func() string { _, h := transpileHex(st, g); return h })
		}
	}
	var root ast.Node
	var bad bool
	p := hx.Guard(func() string {
		n, diags := parser.Parse(src)
		root = n
		bad = len(diags) > 0
		return ""
	})
	if p != "" {
		hx.Emit(id, head+" ast=ERR subj=e orc=", p)
		return
	}
	if bad {
		hx.Emit(id, head+" ast=ERR subj=e orc=", observe(src, f, nil, xref))
		return
	}
	w := &walker{uni: map[string]bool{}, posix: map[string]bool{}}
	tree := w.re(root)
	if w.bad {
		hx.Emit(id, head+" ast=ERR subj=e orc=", "unexpected-node;"+observe(src, f, nil, xref))
		return
	}
	subjects := subjectsFor(root, f, seedOf(fs, src), given)
	var sh []string
	for _, s := range subjects {
		if s == "" {
			sh = append(sh, "e")
		} else {
			sh = append(sh, s2hx(s))
		}
	}
	hx.Emit(id, head+" ast="+tree+" subj="+strings.Join(sh, ",")+" orc="+oracleTable(subjects, w), observe(src, f, subjects, xref))
}

// ---------------------------------------------------------------- generator `t`: grammar-directed pattern text

var litChars = []rune{
	'a', 'a', 'b', 'b', 'k', 'K', 's', 'S', 'x', 'y', 'A', 'Z', 0xE9, 0xC9, 0xDF, 0x212A, 0x17F, 0x3C3, 0x3C2, 0x3A3,
	0x1C4, 0x1C5, 0x1C6, '0', '5', 0x663, '_', 0x203F, 0x301, 0xA0, 0x2028, 0x0B, '\t', '\n', ' ', 0x85, 0x3000,
	'}', ']', ',', '-', ':', '<', '>', '\'', '=', '!', '/', '#', '"', '&',
}
var classChars = []rune{
	'a', 'b', 'k', 'K', 's', 'z', 'A', 'Z', 0xE9, 0xDF, 0x212A, 0x17F, 0x3C3, 0x3A3, 0x1C5, '0', '5', '9', 0x663, '_', 0x203F,
	0x301, 0xA0, 0x2028, 0x0B, '\n', ' ', 0x85, '^', '$', '.', '+', '*', '?', '|', '(', ')', '{', '}', ',', ':', '<', '>', '\'', '#',
}
var escapes = []string{
	`\.`, `\*`, `\\`, `\|`, `\(`, `\)`, `\ `, `\-`, `\^`, `\$`, `\[`, `\]`, `\{`, `\}`, `\?`, `\+`,
	`\x41`, `\x6b`, `\x{1F600}`, `\x{e9}`, `\x{212A}`, `\u00e9`, `\u{17f}`, `\U0001F600`, `\U{3a3}`,
	`\101`, `\0`, `\12`, `\o{101}`, `\o153`, `\cA`, `\cj`, `\cI`, `\a`, `\f`, `\t`, `\n`, `\r`,
}
var rangeLeft = []string{`a`, `A`, `0`, `k`, `\x41`, `\x{e0}`, `\t`, `\cA`, `\.`, `\-`, "à", "α", `!`, ` `, `J`, "а"}
var rangeRight = []string{`z`, `Z`, `9`, `k`, `f`, `\x5a`, `\x{ff}`, `\x{17f}`, `\r`, "ÿ", "ω", `~`, `m`, `L`, "я", "K"}
var predefs = []string{`\d`, `\D`, `\w`, `\W`, `\s`, `\S`, `\h`, `\H`, `\v`, `\V`}
var uniClasses = []string{
	`\p{L}`, `\P{Lu}`, `\p{Lu}`, `\p{Ll}`, `\p{Greek}`, `\pL`, `\PL`, `\p{Nd}`, `\pN`, `\p{Latin}`, `\P{Greek}`, `\p{^L}`,
	`\P{^Lu}`, `\p{Zs}`, `\p{Mn}`, `\p{Lt}`, `\p{Cyrillic}`, `\pP`, `\p{Sm}`, `\p{Foo}`,
}
var posixClasses = []string{
	`[:alpha:]`, `[:^digit:]`, `[:digit:]`, `[:upper:]`, `[:^upper:]`, `[:lower:]`, `[:space:]`, `[:^space:]`, `[:punct:]`,
	`[:alnum:]`, `[:word:]`, `[:^word:]`, `[:xdigit:]`, `[:blank:]`, `[:cntrl:]`, `[:ascii:]`, `[:^ascii:]`, `[:print:]`, `[:graph:]`, `[:foo:]`,
}
var anchors = []string{`^`, `$`, `\A`, `\z`, `\b`, `\B`, `^`, `$`, `\b`}
var groupNames = []string{"n", "m", "foo", "bar", "A", "q"}
var commentPlain = []rune{' ', 'a', 'b', 'x', 'y', 'z', ' ', 'c', '1', ',', '.'}
var commentSpecial = []rune{'|', '|', '(', ')', '*', '#', '[', ']', '+', '?', '{', '\\', '^', '$'}

type gen struct {
	r      *hx.Rng
	x      bool // extended mode is on at the point being generated (as the text prescribes it)
	xs     bool // the pattern plays with x: literal flag, or some flag group so far mentions x
	fg     bool // flag-group-heavy pattern
	budget int
	names  int
	nox    bool   // c21.compose leaves: flag groups never mention x
	suffix string // c21.compose leaves: appended to group names (unique per leaf: `+` must not see a name twice)
}

// text whose reading depends on the x state: written after flag groups (bare and scoped), at the start of
// a scoped group's body and after its end, whatever the state is - a literal `#` / whitespace where x is
// off, a comment / nothing where it is on
var probes = []string{
	"#", "#", "#b", "#b", " ", " ", " #", "# ", "#\n", "# c\n", "#c\nd", " b", "\t", "\n", "b #", "b#c", " # #\n", "#y z\n ", "  ", "\n#",
}

func (g *gen) probe() string {
	if g.r.Chance(1, 6) {
		return g.sprinkle(false)
	}
	return hx.Pick(g.r, probes)
}

func (g *gen) sprinkle(last bool) string {
	switch g.r.Below(8) {
	case 0, 1:
		return " "
	case 2:
		return "\n"
	case 3:
		return hx.Pick(g.r, []string{"\t", "  ", " \n ", " ", " ", "　", "\x0b"})
	case 4, 5, 6:
		var sb strings.Builder
		if g.r.Chance(1, 2) {
			sb.WriteByte(' ')
		}
		sb.WriteByte('#')
		for k := g.r.Below(6); k > 0; k-- {
			if g.r.Chance(1, 4) {
				sb.WriteRune(hx.Pick(g.r, commentSpecial))
			} else {
				sb.WriteRune(hx.Pick(g.r, commentPlain))
			}
		}
		if !last || g.r.Chance(1, 2) {
			sb.WriteByte('\n')
		}
		return sb.String()
	}
	return ""
}

func (g *gen) regex() string {
	n := 1
	switch k := g.r.Below(100); {
	case k < 8:
		n = 3
	case k < 30:
		n = 2
	}
	var alts []string
	for i := 0; i < n; i++ {
		alts = append(alts, g.concat())
	}
	return strings.Join(alts, "|")
}

func (g *gen) concat() string {
	n := 1
	switch k := g.r.Below(100); {
	case k < 5:
		n = 0
	case k < 35:
		n = 1
	case k < 65:
		n = 2
	case k < 85:
		n = 3
	default:
		n = g.r.Range(4, 5)
	}
	var sb strings.Builder
	for i := 0; i < n && (g.budget > 0 || i == 0); i++ {
		if (g.x && g.r.Chance(2, 5)) || (!g.x && g.xs && g.r.Chance(1, 5)) {
			// where x is off (after `(?-x)`, inside `(?-x:..)`, before `(?x)`) the same text is literal
			sb.WriteString(g.sprinkle(false))
		}
		sb.WriteString(g.quantified())
	}
	if (g.x && g.r.Chance(1, 4)) || (!g.x && g.xs && g.r.Chance(1, 8)) {
		sb.WriteString(g.sprinkle(true))
	}
	return sb.String()
}

func (g *gen) quantifier() string {
	var q string
	switch g.r.Below(12) {
	case 0, 1, 2:
		q = "*"
	case 3, 4:
		q = "+"
	case 5, 6, 7:
		q = "?"
	case 8:
		q = "{" + hx.Pick(g.r, []string{"0", "1", "2", "3", "2", "1000", "1001"}) + "}"
	case 9:
		q = "{" + hx.Pick(g.r, []string{"0", "1", "2"}) + ",}"
	case 10:
		q = "{" + hx.Pick(g.r, []string{"0,1", "1,2", "2,3", "0,0", "1,3", "2,1", "1,1000"}) + "}"
	default:
		q = "{," + hx.Pick(g.r, []string{"0", "1", "2", "3"}) + "}"
	}
	if g.r.Chance(1, 4) {
		q += "?"
	}
	return q
}

func (g *gen) quantified() string {
	p, flagOnly := g.primary()
	g.budget--
	if g.r.Chance(3, 10) && (!flagOnly || g.r.Chance(1, 10)) {
		g.budget--
		return p + g.quantifier()
	}
	return p
}

// `(?set-unset` with every flag possible on either side (x weighted up); returns the head, whether it
// mentions x, and the x state it produces from the current one (set first, then unset, as group() does)
func (g *gen) flagGroupHead() (string, bool, bool) {
	pool := []rune("xxxiiaasmU")
	if g.nox {
		pool = []rune("iiiaasmU")
	}
	subset := func(k int) string {
		var out []rune
		for ; k > 0; k-- {
			c := hx.Pick(g.r, pool)
			if !strings.ContainsRune(string(out), c) {
				out = append(out, c)
			}
		}
		return string(out)
	}
	var set, unset string
	switch k := g.r.Below(20); {
	case k < 4:
	case k < 15:
		set = subset(1)
	case k < 19:
		set = subset(2)
	default:
		set = subset(3)
	}
	dash := false
	if set == "" || g.r.Chance(2, 5) {
		dash = true
		unset = subset(1)
		if g.r.Chance(1, 5) {
			unset = subset(2)
		}
		if g.r.Chance(1, 12) {
			unset = ""
		}
	}
	head := "(?" + set
	if dash {
		head += "-" + unset
	}
	mentions := strings.Contains(set, "x") || strings.Contains(unset, "x")
	nx := (g.x || strings.Contains(set, "x")) && !strings.Contains(unset, "x")
	return head, mentions, nx
}

// returns the text and whether it is a flag-only group
func (g *gen) primary() (string, bool) {
	k := g.r.Below(100)
	if g.budget <= 1 && k >= 64 {
		k = g.r.Below(64)
	}
	if g.fg && g.budget > 1 && g.r.Chance(1, 3) {
		k = 77 + g.r.Below(23) // a flag-only group or a group
	}
	switch {
	case k < 30:
		return string(hx.Pick(g.r, litChars)), false
	case k < 39:
		return hx.Pick(g.r, escapes), false
	case k < 43:
		return ".", false
	case k < 49:
		return hx.Pick(g.r, anchors), false
	case k < 57:
		return hx.Pick(g.r, predefs), false
	case k < 61:
		return hx.Pick(g.r, uniClasses), false
	case k < 64:
		return `\Q` + hx.Pick(g.r, []string{"a.b", "K", "", "*", "a b", "é(", "x|y", "#\n"}) + `\E`, false
	case k < 77:
		return g.class(), false
	case k < 83: // flag-only group
		h, mentions, nx := g.flagGroupHead()
		if g.r.Chance(1, 25) {
			h = hx.Pick(g.r, []string{"(?", "(?-"})
			mentions, nx = false, g.x
		}
		g.x = nx
		g.xs = g.xs || mentions
		h += ")"
		if g.r.Chance(1, 2) {
			h += g.probe()
		}
		return h, true
	default:
		var head, tail string
		saved := g.x
		switch j := g.r.Below(20); {
		case j < 6 && !g.fg:
			head = "("
		case j < 10 && !g.fg:
			head = "(?:"
		case j < 12 && !g.fg:
			head = "(?<" + groupNames[g.names%len(groupNames)]  + g.suffix + ">"
			g.names++
		case j < 14 && !g.fg:
			head = "(?P<" + groupNames[g.names%len(groupNames)]  + g.suffix + ">"
			g.names++
		case j < 15 && !g.fg:
			head = "(?'" + groupNames[g.names%len(groupNames)] + g.suffix + "'"
			g.names++
		case j < 3: // fg: plain groups stay possible (a bare flag group inside them is scoped by them)
			head = hx.Pick(g.r, []string{"(", "(?:"})
		default:
			h, mentions, nx := g.flagGroupHead()
			head = h + ":"
			g.x = nx
			g.xs = g.xs || mentions
			if g.r.Chance(1, 3) {
				head += g.probe()
			}
			if g.r.Chance(1, 3) {
				tail = g.probe()
			}
		}
		g.budget--
		body := g.regex()
		g.x = saved
		return head + body + ")" + tail, false
	}
}

func (g *gen) classAtom() string {
	switch k := g.r.Below(10); {
	case k < 6:
		return string(hx.Pick(g.r, classChars))
	default:
		return hx.Pick(g.r, escapes)
	}
}

func (g *gen) class() string {
	var sb strings.Builder
	sb.WriteByte('[')
	if g.r.Chance(2, 5) {
		sb.WriteByte('^')
	}
	n := g.r.Range(1, 3)
	if g.r.Chance(1, 8) {
		n = 4
	}
	if g.r.Chance(1, 40) {
		n = 0
	}
	for i := 0; i < n; i++ {
		switch k := g.r.Below(20); {
		case k < 6:
			sb.WriteString(g.classAtom())
		case k < 10:
			i := g.r.Below(len(rangeLeft))
			l, r := rangeLeft[i], rangeRight[i]
			switch g.r.Below(12) {
			case 0:
				r = hx.Pick(g.r, rangeRight) // possibly reversed: Go rejects it
			case 1:
				r = hx.Pick(g.r, predefs) // `a-\d`
			case 2:
				r = hx.Pick(g.r, []string{"]", `\p{L}`, "^", "."})
			}
			sb.WriteString(l + "-" + r)
		case k < 15:
			sb.WriteString(hx.Pick(g.r, predefs))
		case k < 17:
			sb.WriteString(hx.Pick(g.r, uniClasses))
		default:
			sb.WriteString(hx.Pick(g.r, posixClasses))
		}
	}
	sb.WriteByte(']')
	return sb.String()
}

func genFlags(r *hx.Rng) string {
	var k int
	switch p := r.Below(100); {
	case p < 30:
		k = 0
	case p < 62:
		k = 1
	case p < 82:
		k = 2
	case p < 92:
		k = 3
	default:
		k = r.Range(4, 5)
	}
	base := []rune("imsUa")
	for i := len(base) - 1; i > 0; i-- {
		j := r.Below(i + 1)
		base[i], base[j] = base[j], base[i]
	}
	set := string(base[:k])
	if r.Chance(1, 3) {
		set += "x"
	}
	return flagString(parseFlags(set))
}

func genPattern(r *hx.Rng) (string, string) {
	fs := genFlags(r)
	x := strings.Contains(fs, "x")
	g := &gen{r: r, x: x, xs: x, budget: 12}
	g.fg = r.Chance(1, 6)
	return fs, g.regex()
}

// ---------------------------------------------------------------- generator `u`: mutated pattern text

var punct = []rune("()[]{}|*+?.^$\\-:#,<>'Pixa \n=!")

func mutateText(r *hx.Rng, src string) string {
	rs := []rune(src)
	for k := r.Range(1, 3); k > 0; k-- {
		switch op := r.Below(3); {
		case op == 0 && len(rs) > 0:
			i := r.Below(len(rs))
			rs = append(rs[:i], rs[i+1:]...)
		case op == 1:
			i := r.Below(len(rs) + 1)
			rs = append(rs[:i], append([]rune{hx.Pick(r, punct)}, rs[i:]...)...)
		case len(rs) > 0:
			i := r.Below(len(rs))
			rs = append(rs[:i], append([]rune{rs[i]}, rs[i:]...)...)
		}
	}
	return string(rs)
}

func main() {
	o := hx.ParseFlags()
	defer hx.Flush()
	if o.Extra == "compose" || o.Extra == "compose-diag" {
		composeMain(o)
		return
	}
	for i, in := range hx.ReadInputs(o.Input) {
		var fs, src string
		var given []string
		for _, f := range strings.Fields(in) {
			kv := strings.SplitN(f, "=", 2)
			if len(kv) != 2 {
				continue
			}
			switch kv[0] {
			case "f":
				fs = kv[1]
			case "src":
				src = hx2s(kv[1])
			case "subj":
				for _, h := range strings.Split(kv[1], ",") {
					if h == "e" || h == "" {
						given = append(given, "")
					} else {
						given = append(given, hx2s(h))
					}
				}
			}
		}
		emitCase(fmt.Sprintf("c%d", i), fs, src, given)
	}
	r := hx.NewRng(o.Seed)
	for i := 0; i < o.N; i++ {
		fs, src := genPattern(r)
		if i%4 == 3 {
			emitCase(fmt.Sprintf("u%d", i), fs, mutateText(r, src), nil)
		} else {
			emitCase(fmt.Sprintf("t%d", i), fs, src, nil)
		}
	}
}
