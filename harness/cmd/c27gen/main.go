// c27gen: reads the Go AST of the package types/checker and prints, as the Coq file
// Gen/C27_CheckerFields.v, the list of the fields of `type Checker struct` in declaration
// order together with six syntactic facts about each of them:
//
//	f_saved        CheckSource copies the field into a local before it calls CheckProgram
//	f_restored     the `if c.Errors.IsFailure() {...}` block of CheckSource assigns the field
//	f_reset_before CheckSource assigns the field at top level before it calls CheckProgram
//	f_assigned_cs  CheckSource assigns the field anywhere in its body
//	f_assigned_cp  CheckProgram, or a *Checker method reachable from it, assigns the field
//	f_reset_cp     the field is assigned UNCONDITIONALLY on every run of CheckProgram: by a statement
//	               that is a direct child of the body of CheckProgram, or of the body of a *Checker
//	               method that such a statement calls as `c.M(..)` (expression or assignment statement;
//	               transitively). Statements nested in if/for/switch/func literals do not count; guard
//	               clauses (`if c.IsHeader() { return }`) in front of the statement are ignored.
//
// "assigns F" means: `c.F = e`, `c.F op= e`, `c.F++`, or a call `c.F.SetXxx(..)`/`c.F.UnsetXxx(..)`.
// In CheckSource a call `c.M(..)` to a *Checker method also counts for everything M assigns
// directly (one level, CheckProgram excluded). Files named verif_*.go and *_test.go are skipped.
// Exit 2 when `type Checker struct`, CheckSource or CheckProgram is missing.
package main

import (
	"flag"
	"fmt"
	"go/ast"
	"go/parser"
	"go/token"
	"os"
	"sort"
	"strings"
)

type method struct {
	recv string
	decl *ast.FuncDecl
}

var methods = map[string]*method{}

func recvOf(fd *ast.FuncDecl) (name string, typ string) {
	if fd.Recv == nil || len(fd.Recv.List) != 1 {
		return "", ""
	}
	f := fd.Recv.List[0]
	t := f.Type
	if st, ok := t.(*ast.StarExpr); ok {
		t = st.X
	}
	if id, ok := t.(*ast.Ident); ok {
		typ = id.Name
	}
	if len(f.Names) == 1 {
		name = f.Names[0].Name
	}
	return
}

// recvField: e is exactly `recv.F`
func recvField(e ast.Expr, recv string) (string, bool) {
	for {
		p, ok := e.(*ast.ParenExpr)
		if !ok {
			break
		}
		e = p.X
	}
	s, ok := e.(*ast.SelectorExpr)
	if !ok {
		return "", false
	}
	id, ok := s.X.(*ast.Ident)
	if !ok || id.Name != recv || recv == "" {
		return "", false
	}
	return s.Sel.Name, true
}

// directAssigns: fields assigned directly inside n (func literals included)
func directAssigns(n ast.Node, recv string, out map[string]bool) {
	if n == nil {
		return
	}
	ast.Inspect(n, func(m ast.Node) bool {
		switch x := m.(type) {
		case *ast.AssignStmt:
			if x.Tok != token.DEFINE {
				for _, l := range x.Lhs {
					if f, ok := recvField(l, recv); ok {
						out[f] = true
					}
				}
			}
		case *ast.IncDecStmt:
			if f, ok := recvField(x.X, recv); ok {
				out[f] = true
			}
		case *ast.CallExpr:
			if s, ok := x.Fun.(*ast.SelectorExpr); ok {
				if strings.HasPrefix(s.Sel.Name, "Set") || strings.HasPrefix(s.Sel.Name, "Unset") {
					if f, ok := recvField(s.X, recv); ok {
						out[f] = true
					}
				}
			}
		}
		return true
	})
}

// recvCalls: names of *Checker methods called as `recv.M(..)` inside n
func recvCalls(n ast.Node, recv string) []string {
	var r []string
	if n == nil {
		return r
	}
	ast.Inspect(n, func(m ast.Node) bool {
		if c, ok := m.(*ast.CallExpr); ok {
			if name, ok := recvField(c.Fun, recv); ok {
				if _, ok := methods[name]; ok {
					r = append(r, name)
				}
			}
		}
		return true
	})
	return r
}

// recvRefs: names of *Checker methods mentioned as `recv.M` (called or taken as a value)
func recvRefs(n ast.Node, recv string) []string {
	var r []string
	ast.Inspect(n, func(m ast.Node) bool {
		if s, ok := m.(*ast.SelectorExpr); ok {
			if name, ok := recvField(s, recv); ok {
				if _, ok := methods[name]; ok {
					r = append(r, name)
				}
			}
		}
		return true
	})
	return r
}

// assignsOneLevel: direct assignments in n plus those of the receiver methods n calls
func assignsOneLevel(n ast.Node, recv string, out map[string]bool) {
	directAssigns(n, recv, out)
	for _, name := range recvCalls(n, recv) {
		if name == "CheckProgram" {
			continue
		}
		m := methods[name]
		directAssigns(m.decl.Body, m.recv, out)
	}
}

// mentions: every `recv.G` selector inside n
func mentions(n ast.Node, recv string, out map[string]bool) {
	if n == nil {
		return
	}
	ast.Inspect(n, func(m ast.Node) bool {
		if s, ok := m.(*ast.SelectorExpr); ok {
			if f, ok := recvField(s, recv); ok {
				out[f] = true
			}
		}
		return true
	})
}

// topLevelCalls: *Checker methods called by the statement st itself (an expression statement
// `c.M(..)` or an assignment/definition whose right-hand sides are `c.M(..)`), not by anything nested
func topLevelCalls(st ast.Stmt, recv string) []string {
	var r []string
	add := func(e ast.Expr) {
		if c, ok := e.(*ast.CallExpr); ok {
			if name, ok := recvField(c.Fun, recv); ok {
				if _, ok := methods[name]; ok {
					r = append(r, name)
				}
			}
		}
	}
	switch x := st.(type) {
	case *ast.ExprStmt:
		add(x.X)
	case *ast.AssignStmt:
		for _, e := range x.Rhs {
			add(e)
		}
	}
	return r
}

// topLevelAssigns: fields assigned by the statement st itself (st is an assignment, an inc/dec
// or an expression statement `c.F.SetXxx(..)`); nothing nested counts
func topLevelAssigns(st ast.Stmt, recv string, out map[string]bool) {
	switch x := st.(type) {
	case *ast.AssignStmt:
		if x.Tok != token.DEFINE {
			for _, l := range x.Lhs {
				if f, ok := recvField(l, recv); ok {
					out[f] = true
				}
			}
		}
	case *ast.IncDecStmt:
		if f, ok := recvField(x.X, recv); ok {
			out[f] = true
		}
	case *ast.ExprStmt:
		if c, ok := x.X.(*ast.CallExpr); ok {
			if s, ok := c.Fun.(*ast.SelectorExpr); ok {
				if strings.HasPrefix(s.Sel.Name, "Set") || strings.HasPrefix(s.Sel.Name, "Unset") {
					if f, ok := recvField(s.X, recv); ok {
						out[f] = true
					}
				}
			}
		}
	}
}

// unconditionalAssigns: see f_reset_cp in the header comment
func unconditionalAssigns(root string, out map[string]bool) {
	seen := map[string]bool{root: true}
	work := []string{root}
	for len(work) > 0 {
		name := work[len(work)-1]
		work = work[:len(work)-1]
		m := methods[name]
		for _, st := range m.decl.Body.List {
			topLevelAssigns(st, m.recv, out)
			for _, callee := range topLevelCalls(st, m.recv) {
				if !seen[callee] {
					seen[callee] = true
					work = append(work, callee)
				}
			}
		}
	}
}

func hasSel(n ast.Node, name string) bool {
	found := false
	ast.Inspect(n, func(m ast.Node) bool {
		if s, ok := m.(*ast.SelectorExpr); ok && s.Sel.Name == name {
			found = true
		}
		return true
	})
	return found
}

func callsRecv(n ast.Node, recv, name string) bool {
	for _, c := range recvCalls(n, recv) {
		if c == name {
			return true
		}
	}
	return false
}

func die(msg string) {
	fmt.Fprintln(os.Stderr, "c27gen:", msg)
	os.Exit(2)
}

func coqBool(b bool) string {
	if b {
		return "true"
	}
	return "false"
}

func main() {
	src := flag.String("src", "/repo/types/checker", "directory of package checker")
	flag.Parse()
	dir := strings.TrimRight(*src, "/")
	ents, err := os.ReadDir(dir)
	if err != nil {
		die(err.Error())
	}
	var names []string
	for _, e := range ents {
		n := e.Name()
		if e.IsDir() || !strings.HasSuffix(n, ".go") || strings.HasSuffix(n, "_test.go") || strings.HasPrefix(n, "verif_") {
			continue
		}
		names = append(names, n)
	}
	sort.Strings(names)
	fset := token.NewFileSet()
	var fields []string
	foundStruct := false
	for _, n := range names {
		file, err := parser.ParseFile(fset, dir+"/"+n, nil, 0)
		if err != nil {
			die("parse: " + err.Error())
		}
		for _, d := range file.Decls {
			switch x := d.(type) {
			case *ast.GenDecl:
				if x.Tok != token.TYPE {
					continue
				}
				for _, sp := range x.Specs {
					ts := sp.(*ast.TypeSpec)
					st, ok := ts.Type.(*ast.StructType)
					if !ok || ts.Name.Name != "Checker" {
						continue
					}
					if foundStruct {
						die("type Checker struct declared twice")
					}
					foundStruct = true
					for _, f := range st.Fields.List {
						if len(f.Names) == 0 { // embedded field: named after its type
							t := f.Type
							if s, ok := t.(*ast.StarExpr); ok {
								t = s.X
							}
							switch y := t.(type) {
							case *ast.Ident:
								fields = append(fields, y.Name)
							case *ast.SelectorExpr:
								fields = append(fields, y.Sel.Name)
							default:
								die("unsupported embedded field in Checker")
							}
						}
						for _, id := range f.Names {
							fields = append(fields, id.Name)
						}
					}
				}
			case *ast.FuncDecl:
				if x.Body == nil {
					continue
				}
				rn, rt := recvOf(x)
				if rt == "Checker" {
					methods[x.Name.Name] = &method{recv: rn, decl: x}
				}
			}
		}
	}
	if !foundStruct {
		die("type Checker struct not found in " + dir)
	}
	cs, ok := methods["CheckSource"]
	if !ok {
		die("method CheckSource of Checker not found in " + dir)
	}
	cp, ok := methods["CheckProgram"]
	if !ok {
		die("method CheckProgram of Checker not found in " + dir)
	}

	// shape of CheckSource: ... saves/resets ...; stmt calling c.CheckProgram; if c.Errors.IsFailure() {...}
	var cpStmt ast.Stmt
	var failIf *ast.IfStmt
	for _, st := range cs.decl.Body.List {
		if ifs, ok := st.(*ast.IfStmt); ok && failIf == nil && hasSel(ifs.Cond, "IsFailure") {
			failIf = ifs
			continue
		}
		if cpStmt == nil && callsRecv(st, cs.recv, "CheckProgram") {
			cpStmt = st
		}
	}
	shapeOK := cpStmt != nil && failIf != nil && cpStmt.Pos() < failIf.Pos()

	assignedCS := map[string]bool{}
	assignsOneLevel(cs.decl.Body, cs.recv, assignedCS)

	saved := map[string]bool{}
	resetBefore := map[string]bool{}
	if cpStmt != nil {
		for _, st := range cs.decl.Body.List {
			if st.Pos() >= cpStmt.Pos() {
				break
			}
			if st == ast.Stmt(failIf) {
				continue
			}
			assignsOneLevel(st, cs.recv, resetBefore)
			ast.Inspect(st, func(m ast.Node) bool {
				as, ok := m.(*ast.AssignStmt)
				if !ok || (as.Tok != token.DEFINE && as.Tok != token.ASSIGN) {
					return true
				}
				local := false
				for _, l := range as.Lhs {
					if id, ok := l.(*ast.Ident); ok && id.Name != "_" {
						local = true
					}
				}
				if !local {
					return true
				}
				for _, r := range as.Rhs {
					mentions(r, cs.recv, saved)
					for _, name := range recvCalls(r, cs.recv) {
						callee := methods[name]
						mentions(callee.decl.Body, callee.recv, saved)
					}
				}
				return true
			})
		}
	}
	// a mentioned method name is not a field
	for name := range methods {
		delete(saved, name)
	}

	restored := map[string]bool{}
	if failIf != nil {
		assignsOneLevel(failIf.Body, cs.recv, restored)
	}

	// transitive closure of receiver calls from CheckProgram
	reach := map[string]bool{"CheckProgram": true}
	work := []string{"CheckProgram"}
	assignedCP := map[string]bool{}
	for len(work) > 0 {
		name := work[len(work)-1]
		work = work[:len(work)-1]
		m := methods[name]
		directAssigns(m.decl.Body, m.recv, assignedCP)
		for _, callee := range recvRefs(m.decl.Body, m.recv) {
			if !reach[callee] {
				reach[callee] = true
				work = append(work, callee)
			}
		}
	}
	_ = cp
	resetCP := map[string]bool{}
	unconditionalAssigns("CheckProgram", resetCP)

	var b strings.Builder
	fmt.Fprintf(&b, "(* GENERATED by harness/cmd/c27gen from %s/checker.go — do not edit *)\n", dir)
	b.WriteString("From Coq Require Import String List Bool.\nImport ListNotations.\nOpen Scope string_scope.\n")
	b.WriteString("Record field := mkField { f_name : string; f_saved : bool; f_restored : bool; f_reset_before : bool; f_assigned_cs : bool; f_assigned_cp : bool; f_reset_cp : bool }.\n")
	b.WriteString("Definition gen_fields : list field := [\n")
	for i, f := range fields {
		sep := ";"
		if i == len(fields)-1 {
			sep = ""
		}
		fmt.Fprintf(&b, "  mkField \"%s\" %s %s %s %s %s %s%s\n", f,
			coqBool(saved[f]), coqBool(restored[f]), coqBool(resetBefore[f]), coqBool(assignedCS[f]), coqBool(assignedCP[f]), coqBool(resetCP[f]), sep)
	}
	b.WriteString("].\n")
	fmt.Fprintf(&b, "Definition gen_checksource_found : bool := %s.\n", coqBool(shapeOK))
	fmt.Print(b.String())
}
