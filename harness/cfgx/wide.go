package cfgx

import (
	"fmt"
	"strings"

	"verifharness/hx"
)

// Systematic WIDE shapes (untrusted generator): container x construct x pad kind, with a pad
// of pool-filling statements in front of the construct so that the pool / local / upvalue
// indices the construct refers to straddle the 8/16 bit operand boundary (255, 256, 257 ...;
// also 300+ and 512+ so that both operand bytes are non-zero).  The programs are only
// compiled, never run (recursion need not terminate).

type WideShape struct {
	ID  string
	Src string
}

// environment every wide shape can refer to: a method defined EARLIER in the file and
// alphabetically before every container, one defined LATER (static binding deferred to
// optimiseCalls), a generator, an async method, a constant and a class.
const widePre = "const ZCONST: Int = 5\n" +
	"def aearly(x: Int): Int\n  x + 1\nend\n" +
	"class ZKls\n  attr x: Int, y: Int\n  init(@x: Int, @y: Int); end\nend\n"
const widePost = "def zlater(x: Int): Int\n  x + 2\nend\n" +
	"def *zgen(x: Int): Int\n  yield x\n  x + 1\nend\n" +
	"async def zasync(x: Int): Int\n  x + 3\nend\n"

// containers: pre, post; the body is indented by ind; self = format of a recursive call
var wideContainers = []struct {
	tag, pre, post string
	ind            int
	self           string
}{
	{"def", "def mid(p: Int): Int\n", "end\nprintln(mid(3).inspect)\n", 1, "mid(%s)"},
	{"module-method", "module MidMod\n  def calc(p: Int): Int\n", "  end\nend\nprintln(MidMod.calc(3).inspect)\n", 2, "calc(%s)"},
	{"class-method", "class MidKls\n  def run(p: Int): Int\n", "  end\nend\nprintln(MidKls().run(3).inspect)\n", 2, "run(%s)"},
	{"parent-class-method", "class MidBase\n  def run(p: Int): Int\n", "  end\nend\nclass MidSub < MidBase\n  def run(p: Int): Int\n    p\n  end\nend\nprintln(MidBase().run(3).inspect)\n", 2, "run(%s)"},
	{"closure", "mid := |p: Int|: Int ->\n", "end\nprintln(mid.(3).inspect)\n", 1, ""},
	{"generator", "def *mid(p: Int): Int\n", "end\nfor q in mid(3) then println(q.inspect)\n", 1, ""},
	{"async", "async def mid(p: Int): Int\n", "end\nprintln((await mid(3)).inspect)\n", 1, ""},
	{"top-level", "var p = 3\n", "", 0, ""},
}

// constructs: statements over the Int locals a, b and the String local pd; the LAST line is an
// Int expression (the value of the body, so a call there is in tail position).
// SELF(..) LATER(..) EARLIER(..) are replaced per container.
var wideConstructs = []struct{ tag, src string }{
	{"tail-self", "return a if a > 100\nSELF(a + 1)"},
	{"tail-later", "LATER(a)"},
	{"tail-earlier", "EARLIER(a)"},
	{"return-tail-later", "return LATER(a) if a > 3\na"},
	{"return-tail-self", "return SELF(a - 1) if a > 3\na"},
	{"call-later", "b = LATER(a) + 1\nb"},
	{"call-self", "b = 1 + SELF(a)\nb"},
	{"call-earlier", "b = 1 + EARLIER(a)\nb"},
	{"call-native", "pd = a.to_string\npd.length"},
	{"call-dynamic", "var u: Int | Float = a\nu = 2.5 if a > 3\nt := u.to_string\nt.length"},
	{"call-value-ignored", "LATER(a)\nEARLIER(b)\nb"},
	{"logical-call-statement", "a > 1 && LATER(a) > 0\na > 2 || EARLIER(a) > 0\nb"},
	{"closure-call", "f1 := |x: Int|: Int -> x + a\nf1.(2)"},
	{"closure-capture", "f2 := ->\n  a = a + 1\n  b = b + a\n  b\nend\nf2.()"},
	{"for-in-list", "for i in [a, 2, 3]\n  b += i\nend\nb"},
	{"for-in-range", "for i in 1...a\n  b += i\nend\nb"},
	{"for-in-generator", "for i in zgen(a)\n  b += i\nend\nb"},
	{"constant", "b = ZCONST + a\nb"},
	{"break-continue-through-finally", "while a < 10\n  do\n    a += 1\n    break if a > 5\n    continue if a > 2\n  finally\n    b += 1\n  end\nend\nb"},
	{"labelled-break-through-finally", "$out: loop\n  a += 1\n  while b < 50\n    do\n      b += 1\n      break[out] if b > 20\n      continue[out] if b > 10\n    finally\n      a += 1\n    end\n  end\nend\nb"},
	{"return-through-finally", "do\n  return a if a > 2\nfinally\n  b += 1\nend\nb"},
	{"catch", "do\n  throw \"e\" if a > 2\n  b += 1\ncatch String() as e\n  b = e.length\nend\nb"},
	{"string-interpolation", "pd = \"v=#{a} w=#{b + 1}\"\npd.length"},
	{"regex-bigint-float", "b += 1 if %/a+b/.matches(\"aab\")\nb += (2.5 * 2.0).to_int\nb + 90000000000"},
	{"switch", "switch a\ncase 1 then b = 1\ncase 2...5 then b = 2\ncase > 100 then b = 3\nelse b = 4\nend\nb"},
	{"switch-list", "switch [a, b, 3]\ncase [1, x, *r] then b = x\ncase [y, 2, 3] then b = y\nelse b = 0\nend\nb"},
	{"switch-record", "switch { \"a\" => a, \"b\" => 2 }\ncase { \"a\" => x } then b = 1\nelse b = 0\nend\nb"},
	{"instantiate", "k := ZKls(a, b)\nk.x + k.y"},
	{"await", "b = await zasync(a)\nb"},
	{"nil-coalesce", "var q: Int? = nil\nq = a if a > 2\nr := q ?? 4\nr"},
	{"collections", "l := [a, 1, b]\nl << a\nm := { \"k\" => a, \"j\" => 2 }\nl.length + m.length"},
	{"symbol-tuple-range", "t := %[a, :sym, 2]\nb += 1 if (1...9).contains(a)\nb + t.length"},
	{"nested-closure", "f3 := |x: Int| ->\n  h := |y: Int|: Int -> x + y + a\n  h.(1)\nend\nf3.(b)"},
	{"go-defer", "defer b += 1\nb"},
}

var widePadKinds = []string{"strings", "native-calls", "earlier-calls", "later-calls", "floats", "mixed"}

func widePad(b *strings.Builder, ind int, kind string, n int) {
	pad := strings.Repeat("  ", ind)
	for i := 0; i < n; i++ {
		k := kind
		if kind == "mixed" {
			k = widePadKinds[i%5]
		}
		switch k {
		case "strings":
			fmt.Fprintf(b, "%spd = \"k%d\"\n", pad, i)
		case "native-calls":
			fmt.Fprintf(b, "%spd = a.to_string\n", pad)
		case "earlier-calls":
			fmt.Fprintf(b, "%sa = aearly(a)\n", pad)
		case "later-calls":
			fmt.Fprintf(b, "%sa = zlater(a)\n", pad)
		default:
			fmt.Fprintf(b, "%spf = %d.5\n", pad, i)
		}
	}
}

// wideShape assembles one program. extraLocals > 0 declares that many locals first, so that
// a, b, pd live in slots > 255.
func wideShape(ci, ki int, padKind string, padN, extraLocals int) WideShape {
	c := wideContainers[ci]
	k := wideConstructs[ki]
	var b strings.Builder
	b.WriteString(widePre)
	b.WriteString(c.pre)
	ind := strings.Repeat("  ", c.ind)
	for i := 0; i < extraLocals; i++ {
		fmt.Fprintf(&b, "%svar w%d = %d\n", ind, i, i)
	}
	fmt.Fprintf(&b, "%svar a = p\n%svar b = 1\n%svar pd = \"\"\n%svar pf = 0.5\n", ind, ind, ind, ind)
	widePad(&b, c.ind, padKind, padN)
	self := c.self
	if self == "" {
		self = "zlater(%s)"
	}
	src := k.src
	src = replaceCall(src, "SELF", self)
	src = replaceCall(src, "LATER", "zlater(%s)")
	src = replaceCall(src, "EARLIER", "aearly(%s)")
	b.WriteString(indent(src, c.ind))
	b.WriteString(c.post)
	b.WriteString(widePost)
	id := fmt.Sprintf("wide:%s/%s/%s/pad%d", c.tag, k.tag, padKind, padN)
	if extraLocals > 0 {
		id += fmt.Sprintf("/locals%d", extraLocals)
	}
	return WideShape{id, b.String()}
}

// replaceCall rewrites NAME(args) to the format f (one %s); args contain no parentheses
// other than balanced ones.
func replaceCall(src, name, f string) string {
	for {
		i := strings.Index(src, name+"(")
		if i < 0 {
			return src
		}
		j := i + len(name) + 1
		depth := 1
		e := j
		for e < len(src) && depth > 0 {
			switch src[e] {
			case '(':
				depth++
			case ')':
				depth--
			}
			e++
		}
		src = src[:i] + fmt.Sprintf(f, src[j:e-1]) + src[e:]
	}
}

// WideShapes: the product container x construct, each with a seeded pad kind and a pad count
// that puts the construct's operands around the 8/16 bit boundary; every 4th shape also gets
// > 255 locals.  budget < product: a seeded sample (every construct at least once when the
// budget allows); budget >= product: the whole product, repeated with fresh pads.
func WideShapes(r *hx.Rng, budget int) []WideShape {
	type ck struct{ c, k int }
	var all []ck
	for ki := range wideConstructs {
		for ci := range wideContainers {
			all = append(all, ck{ci, ki})
		}
	}
	var out []WideShape
	mk := func(x ck) {
		padN := r.Range(246, 258)
		switch r.Below(10) {
		case 0:
			padN = r.Range(300, 330)
		case 1:
			padN = r.Range(508, 520)
		}
		extra := 0
		if r.Chance(1, 4) {
			extra = r.Range(248, 258)
			if r.Chance(1, 2) {
				padN = 0
			}
		}
		out = append(out, wideShape(x.c, x.k, hx.Pick(r, widePadKinds), padN, extra))
	}
	if budget < len(all) {
		// one container per construct first (rotating), then random pairs
		off := r.Below(len(wideContainers))
		for ki := range wideConstructs {
			if len(out) >= budget {
				break
			}
			mk(ck{(ki + off) % len(wideContainers), ki})
		}
		for len(out) < budget {
			mk(all[r.Below(len(all))])
		}
		return out
	}
	for len(out) < budget {
		for _, x := range all {
			mk(x)
		}
	}
	return out
}

// WideCorners: fixed programs for the remaining wide operands: argument counts, instance
// variable indices, upvalue counts, element counts.
func WideCorners(huge bool) []WideShape {
	var out []WideShape
	if huge {
		// bodies of more than 65535 bytes: the 16-bit jump distances cannot span them; the
		// compiler must reject the program (or the validator sees a truncated distance)
		body := strings.Repeat("    a = a * 7 - b\n", 9600)
		out = append(out, WideShape{"wide:corner/if-body-over-64k",
			"def huge(p: Int): Int\n  var a = p\n  var b = 1\n  if a > 3\n" + body + "  else\n    b = 2\n  end\n  a + b\nend\nprintln(huge(1).inspect)\n"})
		out = append(out, WideShape{"wide:corner/loop-body-over-64k",
			"def huge(p: Int): Int\n  var a = p\n  var b = 1\n  while a < 3\n" + body + "  end\n  a + b\nend\nprintln(huge(1).inspect)\n"})
		out = append(out, WideShape{"wide:corner/code-over-64k-with-handlers",
			"def huge(p: Int): Int\n  var a = p\n  var b = 1\n" + strings.Repeat("  a = a * 7 - b\n", 9600) + "  do\n    throw \"e\" if a > 2\n    while a < 9\n      a += 1\n      break if a > 5\n    end\n  catch String() as e\n    b = 2\n  finally\n    b += 1\n  end\n  a + b\nend\nprintln(huge(1).inspect)\n"})
	}
	seq := func(n int, f func(i int) string, sep string) string {
		el := make([]string, n)
		for i := range el {
			el[i] = f(i)
		}
		return strings.Join(el, sep)
	}
	for _, n := range []int{255, 256, 260} {
		params := seq(n, func(i int) string { return fmt.Sprintf("a%d: Int", i) }, ", ")
		args := seq(n, func(i int) string { return fmt.Sprint(i) }, ", ")
		out = append(out, WideShape{fmt.Sprintf("wide:corner/method-args%d", n),
			fmt.Sprintf("def many(%s): Int\n  a0 + a%d\nend\ndef caller(x: Int): Int\n  many(%s)\nend\nprintln(caller(1).inspect)\nprintln(many(%s).inspect)\n", params, n-1, args, args)})
		out = append(out, WideShape{fmt.Sprintf("wide:corner/constructor-args%d", n),
			fmt.Sprintf("class Big\n  attr s: Int\n  init(%s)\n    @s = a0 + a%d\n  end\nend\nx := Big(%s)\nprintln(x.s.inspect)\n", params, n-1, args)})
		attrs := seq(n+2, func(i int) string { return fmt.Sprintf("  attr v%d: Int\n", i) }, "")
		inits := seq(n+2, func(i int) string { return fmt.Sprintf("    @v%d = %d\n", i, i) }, "")
		out = append(out, WideShape{fmt.Sprintf("wide:corner/ivars%d", n+2),
			fmt.Sprintf("class ManyIvars\n%s  init\n%s  end\n  def sum: Int\n    @v%d = @v%d + @v0\n    @v%d + @v%d\n  end\nend\nprintln(ManyIvars().sum.inspect)\n", attrs, inits, n+1, n, n-1, n+1)})
	}
	return out
}
