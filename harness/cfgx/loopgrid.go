package cfgx

// C33 second generation: a systematic grid of non-terminating shapes
//
//	context  x  loop form  x  (labelled | unlabelled)  x  body ending
//
// The loop-form dimension lists every loop the parser accepts (loop, while/until with literal and
// computed conditions, their single-line `then` forms, modifier while/until/for-in, `fornum` with
// each of the 8 subsets of its three clauses, for-in over range literals / range values / Int /
// generator / user iterator / pattern parameter / finite builtin collections inside an outer loop),
// the ending dimension lists how an iteration ends (fallthrough, `continue` in every syntactic
// position, `continue` through do/finally, `continue[label]` from a nested loop, nested loops whose
// break/continue leads back).  Every shape keeps the contract of the first generation: it never
// terminates on its own, `n` is the loop's own counter and is never touched by an ending.
//
// The first generation (shapes.go: Shapes) is kept unchanged because cmd/c32 replays it.

import (
	"fmt"
	"strings"

	"verifharness/hx"
)

type loopForm struct {
	tag    string
	family string
	pre    string // top-level definitions the form needs (generator, iterator class)
	setup  string // statements right before the loop, same scope
	head   string // loop header up to and including the counter step; {L} = label position
	tail   string
	depth  int  // extra indentation of the body (compound forms)
	iso    bool // spawns threads: run alone in its process
}

const patGen = "def *pairs: ArrayTuple[Int]\n  var i = 0\n  loop\n    yield %[i, 1]\n    i += 1\n  end\n  %[0, 0]\nend\n"
const natIter = "class NatIter\n  include Iterator::Base[Int]\n  def next: Int ! :stop_iteration\n    1\n  end\nend\n"
const big = "4000000000000000000"

var loopForms = []loopForm{
	// --- loop / while / until
	{tag: "loop", family: "loop", head: "{L}loop\n  n += 1\n", tail: "end\n"},
	{tag: "while-true", family: "while", head: "{L}while true\n  n += 1\n", tail: "end\n"},
	{tag: "while-cond", family: "while", head: "{L}while n >= 0\n  n += 1\n", tail: "end\n"},
	{tag: "until-false", family: "while", head: "{L}until false\n  n += 1\n", tail: "end\n"},
	{tag: "until-cond", family: "while", head: "{L}until n < 0\n  n += 1\n", tail: "end\n"},
	{tag: "while-then-do", family: "while", head: "{L}while n >= 0 then do\n  n += 1\n", tail: "end\n"},
	{tag: "until-then-do", family: "while", head: "{L}until n < 0 then do\n  n += 1\n", tail: "end\n"},
	// --- modifier loops (the body is a do block)
	{tag: "mod-while-cond", family: "modifier", head: "{L}do\n  n += 1\n", tail: "end while n >= 0\n"},
	{tag: "mod-until-cond", family: "modifier", head: "{L}do\n  n += 1\n", tail: "end until n < 0\n"},
	{tag: "mod-while-true", family: "modifier", head: "{L}do\n  n += 1\n", tail: "end while true\n"},
	{tag: "mod-until-false", family: "modifier", head: "{L}do\n  n += 1\n", tail: "end until false\n"},
	{tag: "mod-for-in-range", family: "modifier", head: "{L}do\n  n += 1\n", tail: "end for q in 1...\n"},
	{tag: "mod-for-in-generator", family: "modifier", pre: natGen, head: "{L}do\n  n += 1\n", tail: "end for q in nat()\n"},
	// --- fornum: every subset of {initialiser, condition, increment}
	{tag: "fornum-none", family: "fornum", head: "{L}fornum ;;\n  n += 1\n", tail: "end\n"},
	{tag: "fornum-init", family: "fornum", head: "{L}fornum q := 0;;\n  n += 1\n", tail: "end\n"},
	{tag: "fornum-cond", family: "fornum", head: "{L}fornum ; n >= 0;\n  n += 1\n", tail: "end\n"},
	{tag: "fornum-incr", family: "fornum", head: "{L}fornum ;; m += 1\n  n += 1\n", tail: "end\n"},
	{tag: "fornum-init-cond", family: "fornum", head: "{L}fornum q := 0; q >= 0;\n  n += 1\n", tail: "end\n"},
	{tag: "fornum-init-incr", family: "fornum", head: "{L}fornum q := 0;; q += 1\n  n += 1\n", tail: "end\n"},
	{tag: "fornum-cond-incr", family: "fornum", head: "{L}fornum ; n >= 0; m += 1\n  n += 1\n", tail: "end\n"},
	{tag: "fornum-init-cond-incr", family: "fornum", head: "{L}fornum q := 0; q >= 0; q += 1\n  n += 1\n", tail: "end\n"},
	{tag: "fornum-cond-then-do", family: "fornum", head: "{L}fornum ; n >= 0; then do\n  n += 1\n", tail: "end\n"},
	// --- for in
	{tag: "for-in-endless-range", family: "for-in", head: "{L}for q in 1...\n  n += 1\n", tail: "end\n"},
	{tag: "for-in-closed-range", family: "for-in", head: "{L}for q in 1..." + big + "\n  n += 1\n", tail: "end\n"},
	{tag: "for-in-open-range", family: "for-in", head: "{L}for q in 1..<" + big + "\n  n += 1\n", tail: "end\n"},
	{tag: "for-in-range-value", family: "for-in", setup: "rng := 1...\n", head: "{L}for q in rng\n  n += 1\n", tail: "end\n"},
	{tag: "for-in-int-literal", family: "for-in", head: "{L}for q in " + big + "\n  n += 1\n", tail: "end\n"},
	{tag: "for-in-int-value", family: "for-in", setup: "lim := " + big + "\n", head: "{L}for q in lim\n  n += 1\n", tail: "end\n"},
	{tag: "for-in-generator", family: "for-in", pre: natGen, head: "{L}for q in nat()\n  n += 1\n", tail: "end\n"},
	{tag: "for-in-user-iterator", family: "for-in", pre: natIter, head: "{L}for q in NatIter()\n  n += 1\n", tail: "end\n"},
	{tag: "for-in-pattern-generator", family: "for-in", pre: patGen, head: "{L}for %[q, w] in pairs()\n  n += 1\n", tail: "end\n"},
	{tag: "for-in-then-do", family: "for-in", head: "{L}for q in 1... then do\n  n += 1\n", tail: "end\n"},
	// finite builtin collections: the non-terminating cycle runs through an enclosing `loop`
	{tag: "for-in-list-in-loop", family: "for-in-finite", head: "loop\n  {L}for q in [1, 2, 3]\n    n += 1\n", tail: "  end\nend\n", depth: 1},
	{tag: "for-in-tuple-in-loop", family: "for-in-finite", head: "loop\n  {L}for q in %[1, 2, 3]\n    n += 1\n", tail: "  end\nend\n", depth: 1},
	{tag: "for-in-map-in-loop", family: "for-in-finite", setup: "hm := { 1 => 2, 3 => 4 }\n", head: "loop\n  {L}for q in hm\n    n += 1\n", tail: "  end\nend\n", depth: 1},
	{tag: "for-in-string-in-loop", family: "for-in-finite", head: "loop\n  {L}for q in \"abc\"\n    n += 1\n", tail: "  end\nend\n", depth: 1},
	{tag: "for-in-pattern-list-in-loop", family: "for-in-finite", head: "loop\n  {L}for %[q, w] in [%[1, 2], %[3, 4]]\n    n += 1\n", tail: "  end\nend\n", depth: 1},
	// for-in over a Channel is the special shape "for-in-channel" (a known finding: the receive does not
	// observe the context); a variant fed by a producer thread ends in the same blocked receive as soon
	// as the producer is aborted first, so it is not a separate grid form
}

// endings: CONT is the `continue` of the loop under test (`continue[outer]` when it is labelled)
type ending struct {
	tag   string
	cls   string // fall | continue | continue-finally | continue-outer
	src   string
	label bool // needs the loop under test to be labelled
	nodyn bool // compiled and validated, never run: see leaky below
}

// `continue` written inside a catch body, inside a finally block or after `defer` leaves the values
// the handler keeps on the value stack (thrown value, stack trace, finally flag) behind on every
// iteration - with or without abort checks: `elk run` of such a loop overruns the value stack within
// milliseconds and dies with a Go panic or SIGSEGV (seen 2026-09-22, not a C33 matter: no cancellation
// is involved).  Running them in the cancellation harness would only observe that memory corruption.
const leaky = true

var endings = []ending{
	// --- fallthrough (first generation fillers)
	{tag: "plain", cls: "fall", src: "  a = a + 1\n"},
	{tag: "do-catch", cls: "fall", src: "  do\n    a += 1\n    throw \"x\" if a % 7 == 0\n  catch String() as e\n    b += 1\n  end\n"},
	{tag: "do-catch-finally", cls: "fall", src: "  do\n    a += 1\n    throw \"x\" if a % 7 == 0\n  catch String() as e\n    b += 1\n  finally\n    c += 1\n  end\n"},
	{tag: "inner-finite-loop", cls: "fall", src: "  for k in 1...3\n    a += k\n  end\n"},
	{tag: "inner-infinite-loop", cls: "fall", src: "  loop\n    a += 1\n  end\n"},
	{tag: "inner-continue", cls: "fall", src: "  while a >= 0\n    a += 1\n    continue if a % 2 == 0\n    b += 1\n  end\n"},
	{tag: "inner-break-if", cls: "fall", src: "  loop\n    a += 1\n    break if a % 3 == 0\n  end\n"},
	{tag: "switch", cls: "fall", src: "  switch a + b\n  case 1 then c = 1\n  case 2...5 then c = 2\n  case > 100 then c = 3\n  else c = 4\n  end\n  a += 1\n"},
	{tag: "closure-call", cls: "fall", src: "  f := |x: Int|: Int -> x + a\n  a = f.(1)\n"},
	{tag: "modifier-while-inside", cls: "fall", src: "  a += 1 while a < n\n"},
	// --- continue, every syntactic position
	{tag: "continue", cls: "continue", src: "  CONT\n"},
	{tag: "continue-if", cls: "continue", src: "  CONT if n >= 0\n  a += 1\n"},
	{tag: "continue-unless", cls: "continue", src: "  CONT unless n < 0\n  a += 1\n"},
	{tag: "continue-value", cls: "continue", src: "  CONT a\n"},
	{tag: "continue-if-else", cls: "continue", src: "  if a > 5\n    a = 0\n    CONT\n  else\n    a += 1\n    CONT\n  end\n"},
	{tag: "continue-switch", cls: "continue", src: "  a += 1\n  switch a\n  case 1 then CONT\n  case > 5 then CONT\n  else CONT\n  end\n"},
	{tag: "continue-or", cls: "continue", src: "  a += 1\n  n < 0 || CONT\n"},
	{tag: "continue-in-catch", cls: "continue", src: "  do\n    a += 1\n    throw \"x\"\n  catch String() as e\n    CONT\n  end\n", nodyn: leaky},
	{tag: "continue-after-inner-break", cls: "continue", src: "  loop\n    a += 1\n    break\n  end\n  CONT\n"},
	{tag: "continue-after-inner-for-in", cls: "continue", src: "  for k in [1, 2]\n    a += k\n    continue\n  end\n  CONT\n"},
	{tag: "continue-in-nested-do", cls: "continue", src: "  do\n    do\n      a += 1\n      CONT\n    end\n  end\n"},
	// --- continue through finally
	{tag: "continue-do-finally", cls: "continue-finally", src: "  do\n    a += 1\n    CONT\n  finally\n    b += 1\n  end\n"},
	{tag: "continue-in-finally-scope", cls: "continue-finally", src: "  do\n    a += 1\n    CONT if n >= 0\n  finally\n    b += 1\n  end\n"},
	{tag: "continue-two-finally", cls: "continue-finally", src: "  do\n    do\n      a += 1\n      CONT\n    finally\n      b += 1\n    end\n  finally\n    c += 1\n  end\n"},
	{tag: "continue-if-two-finally", cls: "continue-finally", src: "  do\n    do\n      a += 1\n      CONT if n >= 0\n    finally\n      b += 1\n    end\n  finally\n    c += 1\n  end\n"},
	{tag: "continue-catch-finally", cls: "continue-finally", src: "  do\n    a += 1\n    throw \"x\"\n  catch String() as e\n    CONT\n  finally\n    b += 1\n  end\n", nodyn: leaky},
	{tag: "continue-in-finally-block", cls: "continue-finally", src: "  do\n    a += 1\n  finally\n    CONT\n  end\n", nodyn: leaky},
	{tag: "continue-defer", cls: "continue-finally", src: "  do\n    defer b += 1\n    a += 1\n    CONT\n  end\n", nodyn: leaky},
	// --- continue[label] from a nested loop (labelled forms only)
	{tag: "continue-outer", cls: "continue-outer", label: true, src: "  loop\n    a += 1\n    CONT if a % 3 == 0\n  end\n"},
	{tag: "continue-outer-direct", cls: "continue-outer", label: true, src: "  loop\n    a += 1\n    CONT\n  end\n"},
	{tag: "continue-outer-finally", cls: "continue-outer", label: true, src: "  do\n    loop\n      a += 1\n      CONT if a % 3 == 0\n    end\n  finally\n    b += 1\n  end\n"},
	{tag: "continue-outer-inner-finally", cls: "continue-outer", label: true, src: "  while a >= 0\n    do\n      a += 1\n      CONT\n    finally\n      b += 1\n    end\n  end\n"},
	{tag: "continue-outer-from-for-in", cls: "continue-outer", label: true, src: "  for k in [1, 2, 3]\n    a += k\n    CONT\n  end\n"},
	{tag: "continue-outer-from-fornum", cls: "continue-outer", label: true, src: "  fornum k := 0; k < 3;\n    a += k\n    CONT\n  end\n"},
	{tag: "continue-outer-two-levels", cls: "continue-outer", label: true, src: "  loop\n    until a < 0\n      a += 1\n      CONT\n    end\n  end\n"},
}

type gridContext struct {
	tag, pre, post string
	depth          int
}

const gridLocals = "var n = 0\nvar a = 0\nvar b = 0\nvar c = 0\nvar m = 0\n"

var gridContexts = []gridContext{
	{"top-level", "", "", 0},
	{"method", "def spin(p: Int): Int\n  var n = p\n  var a = 0\n  var b = 0\n  var c = 0\n  var m = 0\n", "  n\nend\nspin(0)\n", 1},
	{"closure", "spin := ->\n", "  n\nend\nspin.()\n", 1},
	{"generator-body", "def *spin: Int\n  var n = 0\n  var a = 0\n  var b = 0\n  var c = 0\n  var m = 0\n", "  n\nend\nfor z in spin()\n  a += z\nend\n", 1},
	{"nested-closure", "outerf := ->\n  innerf := ->\n", "    n\n  end\n  innerf.()\nend\nouterf.()\n", 2},
	{"class-method", "class Spinner\n  def spin(p: Int): Int\n    var n = p\n    var a = 0\n    var b = 0\n    var c = 0\n    var m = 0\n", "    n\n  end\nend\nSpinner().spin(0)\n", 2},
	{"module-method", "module SpinMod\n  def spin(p: Int): Int\n    var n = p\n    var a = 0\n    var b = 0\n    var c = 0\n    var m = 0\n", "    n\n  end\nend\nSpinMod.spin(0)\n", 2},
	{"in-if", "if n == 0\n", "end\n", 1},
	{"in-do-finally", "do\n", "finally\n  c += 1\nend\n", 1},
	{"in-switch-case", "switch n\ncase 0\n", "else\n  n = 1\nend\n", 1},
}

// GridShape assembles one cell of the grid.
func GridShape(ci, fi, ei int, labelled bool) Shape {
	cx := gridContexts[ci]
	lf := loopForms[fi]
	en := endings[ei]
	cont, lab := "continue", ""
	if labelled {
		cont, lab = "continue[outer]", "$outer: "
	}
	body := strings.ReplaceAll(en.src, "CONT", cont)
	loop := lf.setup + strings.ReplaceAll(lf.head, "{L}", lab) + indent(body, lf.depth) + lf.tail
	var b strings.Builder
	b.WriteString(lf.pre)
	b.WriteString(gridLocals)
	b.WriteString(cx.pre)
	b.WriteString(indent(loop, cx.depth))
	b.WriteString(cx.post)
	// programs share a process in the dynamic stream: every global definition gets a name of its own
	sfx := fmt.Sprintf("%dx%dx%d", ci, fi, ei)
	if labelled {
		sfx += "l"
	}
	src := b.String()
	for _, w := range []string{"spin", "nat", "pairs"} {
		src = strings.ReplaceAll(src, w+"(", w+"_"+sfx+"(")
		src = strings.ReplaceAll(src, "*"+w+":", "*"+w+"_"+sfx+":")
	}
	for _, w := range []string{"NatIter", "Spinner", "SpinMod"} {
		src = strings.ReplaceAll(src, w, w+"X"+strings.ReplaceAll(sfx, "x", "X"))
	}
	ftag := lf.tag
	if labelled {
		ftag += "+label"
	}
	id := fmt.Sprintf("%s/%s/%s", cx.tag, ftag, en.tag)
	tags := fmt.Sprintf("ctx=%s,form=%s,family=%s,end=%s,cls=%s,label=%v", cx.tag, lf.tag, lf.family, en.tag, en.cls, labelled)
	if lf.iso {
		tags += ",isolate"
	}
	if en.nodyn {
		tags += ",nodyn"
	}
	return Shape{ID: id, Tags: tags, Gate: true, Src: src}
}

// GridSize is the number of cells (labelled and unlabelled variants counted).
func GridSize() int {
	n := 0
	for _, e := range endings {
		if e.label {
			n += len(loopForms) * len(gridContexts)
		} else {
			n += 2 * len(loopForms) * len(gridContexts)
		}
	}
	return n
}

// core endings: one representative of each way an iteration can end (where `continue` lands and how
// it gets there); they meet EVERY loop form on every run
var coreEndings = map[string]bool{"plain": true, "continue": true, "continue-if": true, "continue-do-finally": true,
	"continue-in-finally-scope": true, "continue-outer": true, "continue-outer-finally": true}

// GridShapes returns, in this order,
//  1. a covering design that does not depend on the budget:
//     a. every loop form x every core ending (context rotating with the pair and the seed, label
//     alternating; endings that need a label are always labelled);
//     b. every ending x every loop family (the form rotates inside the family);
//     c. every context x every loop family with `continue` and with one further ending;
//  2. cells drawn at random without repetition until `budget` shapes are reached (the whole grid when
//     the budget exceeds it);
//
// followed by the special shapes of the first generation (recursion, channels, blocking natives)
// and gridSpecial.
func GridShapes(r *hx.Rng, budget int) []Shape {
	type cell struct {
		c, f, e int
		l       bool
	}
	seen := map[cell]bool{}
	var out []Shape
	add := func(c cell) {
		if endings[c.e].label {
			c.l = true
		}
		if seen[c] {
			return
		}
		seen[c] = true
		out = append(out, GridShape(c.c, c.f, c.e, c.l))
	}
	salt := r.Below(1 << 20)
	nc := len(gridContexts)
	var families []string
	byFamily := map[string][]int{}
	for fi, lf := range loopForms {
		if _, ok := byFamily[lf.family]; !ok {
			families = append(families, lf.family)
		}
		byFamily[lf.family] = append(byFamily[lf.family], fi)
	}
	contI := 0
	for ei, e := range endings {
		if e.tag == "continue" {
			contI = ei
		}
		if !coreEndings[e.tag] {
			continue
		}
		for fi := range loopForms {
			add(cell{(fi*3 + ei*7 + salt) % nc, fi, ei, (fi+ei+salt)%2 == 0})
		}
	}
	for ei := range endings {
		for k, fam := range families {
			fs := byFamily[fam]
			fi := fs[(ei+k+salt)%len(fs)]
			add(cell{(fi*3 + ei*7 + salt + 1) % nc, fi, ei, (fi+ei+salt)%2 == 1})
		}
	}
	for ci := range gridContexts {
		for k, fam := range families {
			fs := byFamily[fam]
			fi := fs[(ci+k+salt)%len(fs)]
			add(cell{ci, fi, contI, (ci+k+salt)%2 == 0})
			fi = fs[(ci+k+salt+1)%len(fs)]
			add(cell{ci, fi, (ci*5 + k*11 + salt) % len(endings), (ci+k+salt)%2 == 1})
		}
	}
	if budget > len(out) {
		var rest []cell
		for ci := range gridContexts {
			for fi := range loopForms {
				for ei, e := range endings {
					for _, l := range []bool{false, true} {
						if e.label && !l {
							continue
						}
						c := cell{ci, fi, ei, l}
						if !seen[c] {
							rest = append(rest, c)
						}
					}
				}
			}
		}
		for i := len(rest) - 1; i > 0; i-- {
			j := r.Below(i + 1)
			rest[i], rest[j] = rest[j], rest[i]
		}
		k := budget - len(out)
		if k > len(rest) {
			k = len(rest)
		}
		for _, c := range rest[:k] {
			add(c)
		}
	}
	for _, s := range special {
		s.Tags += ",isolate"
		out = append(out, s)
	}
	out = append(out, gridSpecial...)
	return out
}

// further fixed shapes: loops hidden in collection literals, single-expression modifier loops
var gridSpecial = []Shape{
	{"set-literal-for-in-range", "collection-literal,for-in", true, "s := ^[q % 8 for q in 1...]\n"},
	{"set-literal-for-in-generator", "collection-literal,for-in,generator", true, natGen + "s := ^[q % 8 for q in nat()]\n"},
	{"modifier-while-expression", "modifier", true, "var n = 0\nn += 1 while n >= 0\n"},
	{"modifier-until-expression", "modifier", true, "var n = 0\nn += 1 until n < 0\n"},
	{"modifier-for-in-expression", "modifier,for-in", true, "var n = 0\nn += q for q in 1...\n"},
	{"while-then-expression", "while,single-line", true, "var n = 0\nwhile n >= 0 then n += 1\n"},
	{"fornum-cond-then-expression", "fornum,single-line", true, "var n = 0\nfornum ; n >= 0; then n += 1\n"},
	{"loop-as-value", "loop,value", true, "var n = 0\nv := while n >= 0\n  n += 1\n  continue n\nend\n"},
	{"thread-spinning-main-spinning", "go,loop,isolate", true, "var n = 0\nvar k = 0\ngo\n  loop\n    k += 1\n  end\nend\nloop\n  n += 1\nend\n"},
}
