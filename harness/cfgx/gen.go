package cfgx

import (
	"fmt"
	"strings"

	"verifharness/hx"
)

// Program generator (untrusted): seeded, type-correct-by-construction Elk programs that mix
// every control-flow construct the bytecode compiler handles.  All locals are Ints a,b,c
// (plus loop variables), so any statement can be nested anywhere.

// OnlyPick >= 0 biases statement generation to one construct (generator debugging).
var OnlyPick = -1

type gen struct {
	r        *hx.Rng
	n        int // fresh name counter
	b        strings.Builder
	loops    []string // enclosing loop labels ("" = unlabelled)
	inFunc   bool
	inGen    bool
	inFin    int
	closSeen bool // a closure literal precedes: the checker then mis-types return/yield (DESIGN 6 #10, C12)
	noLoop   bool // macro bodies run at compile time: keep them loop-free
	tags     map[string]bool

	// second generation (calls between methods, wide operands)
	callables []string // call formats with one %s (an Int argument), each evaluates to an Int; earlier, current and LATER items
	selfCall  string   // call format of the method whose body is being generated ("" outside methods)
	wide      bool     // wide profile: pads / wide frames / big literals
	wideLoc   int      // > 0: this many extra locals are declared BEFORE a, b, c (slots of a, b, c need 16 bits)
}

func (g *gen) fresh(p string) string { g.n++; return fmt.Sprintf("%s%d", p, g.n) }
func (g *gen) tag(t string)          { g.tags[t] = true }
func (g *gen) w(ind int, s string) {
	g.b.WriteString(strings.Repeat("  ", ind))
	g.b.WriteString(s)
	g.b.WriteByte('\n')
}
func (g *gen) k() int    { return g.r.Range(1, 9) }
func (g *gen) v() string { return hx.Pick(g.r, []string{"a", "b", "c"}) }
func (g *gen) expr() string {
	switch g.r.Below(8) {
	case 0:
		return fmt.Sprintf("%s + %d", g.v(), g.k())
	case 1:
		return fmt.Sprintf("%s * %d - %s", g.v(), g.k(), g.v())
	case 2:
		return fmt.Sprintf("(%s %% %d)", g.v(), g.k())
	case 3:
		return fmt.Sprintf("%d", g.r.Range(-3, 400))
	case 4:
		return fmt.Sprintf("%d", g.r.Range(100000, 90000000000))
	case 5:
		return fmt.Sprintf("(%s & %d) | %d", g.v(), g.k(), g.k())
	case 6:
		return fmt.Sprintf("-%s", g.v())
	default:
		return g.v()
	}
}
func (g *gen) cond() string {
	op := hx.Pick(g.r, []string{"<", "<=", ">", ">=", "==", "!="})
	c := fmt.Sprintf("%s %s %d", g.v(), op, g.r.Range(0, 30))
	switch g.r.Below(6) {
	case 0:
		return c + " && " + fmt.Sprintf("%s %s %s", g.v(), op, g.v())
	case 1:
		return c + " || " + fmt.Sprintf("%s > %d", g.v(), g.k())
	}
	return c
}

func (g *gen) block(ind, depth int) {
	n := g.r.Range(1, 3)
	for i := 0; i < n; i++ {
		g.stmt(ind, depth)
	}
}

func (g *gen) stmt(ind, depth int) {
	if depth <= 0 {
		g.w(ind, fmt.Sprintf("%s = %s", g.v(), g.expr()))
		return
	}
	d := depth - 1
	pick := g.r.Below(36)
	if OnlyPick >= 0 && g.r.Chance(2, 3) {
		pick = OnlyPick
	}
	if g.noLoop && ((pick >= 3 && pick <= 9) || pick == 14 || pick == 15 || pick == 23 || pick == 26) {
		pick = 0
	}
	switch pick {
	case 0, 1:
		g.w(ind, fmt.Sprintf("%s = %s", g.v(), g.expr()))
	case 2:
		g.tag("if")
		g.w(ind, "if "+g.cond())
		g.block(ind+1, d)
		if g.r.Chance(1, 2) {
			g.w(ind, "else")
			g.block(ind+1, d)
		}
		g.w(ind, "end")
	case 3:
		g.tag("while")
		g.loop(ind, d, "while "+g.cond())
	case 4:
		g.tag("until")
		g.loop(ind, d, "until "+g.cond())
	case 5:
		g.tag("loop")
		g.loop(ind, d, "loop")
	case 6:
		g.tag("for-in-range")
		iv := g.fresh("i")
		g.loop(ind, d, fmt.Sprintf("for %s in %d...%d", iv, g.r.Range(0, 3), g.r.Range(4, 9)))
	case 7:
		g.tag("for-in-list")
		iv := g.fresh("i")
		g.loop(ind, d, fmt.Sprintf("for %s in [%d, %s, 3]", iv, g.k(), g.v()))
	case 8:
		g.tag("for-numeric")
		iv := g.fresh("j")
		g.loop(ind, d, fmt.Sprintf("fornum %s := 0; %s < %d; %s += 1", iv, iv, g.k(), iv))
	case 9:
		g.tag("modifier-loop")
		kw := hx.Pick(g.r, []string{"while", "until"})
		g.w(ind, fmt.Sprintf("%s += 1 %s %s", g.v(), kw, g.cond()))
	case 10, 11:
		g.tag("do-catch")
		fin := g.r.Chance(1, 2)
		cat := !fin || g.r.Chance(2, 3)
		g.w(ind, "do")
		g.block(ind+1, d)
		if cat && g.r.Chance(1, 2) {
			g.w(ind+1, fmt.Sprintf("throw \"e%d\" if %s", g.k(), g.cond()))
		}
		if cat {
			e := g.fresh("e")
			g.w(ind, "catch String() as "+e)
			g.block(ind+1, d)
			if g.r.Chance(1, 3) {
				g.w(ind, "catch Int() as "+g.fresh("e"))
				g.block(ind+1, d)
			}
		}
		if fin {
			g.tag("finally")
			g.w(ind, "finally")
			g.inFin++
			g.block(ind+1, d)
			g.inFin--
		}
		g.w(ind, "end")
	case 12:
		g.tag("switch")
		g.w(ind, fmt.Sprintf("switch %s + %s", g.v(), g.v()))
		g.w(ind, fmt.Sprintf("case %d", g.k()))
		g.block(ind+1, d)
		g.w(ind, fmt.Sprintf("case %d...%d", g.r.Range(10, 14), g.r.Range(15, 20)))
		g.block(ind+1, d)
		g.w(ind, fmt.Sprintf("case > %d", g.r.Range(50, 60)))
		g.block(ind+1, d)
		if g.r.Chance(1, 2) {
			nv := g.fresh("n")
			g.w(ind, "case "+nv)
			g.w(ind+1, fmt.Sprintf("%s = %s + 1", g.v(), nv))
		} else {
			g.w(ind, "else")
			g.block(ind+1, d)
		}
		g.w(ind, "end")
	case 13:
		g.tag("switch-collection")
		x, rest := g.fresh("x"), g.fresh("r")
		g.w(ind, fmt.Sprintf("switch [%s, %s, %d]", g.v(), g.v(), g.k()))
		g.w(ind, fmt.Sprintf("case [1, %s, *%s]", x, rest))
		g.w(ind+1, fmt.Sprintf("%s = %s", g.v(), x))
		g.w(ind, fmt.Sprintf("case [%s, 2, 3]", g.fresh("y")))
		g.block(ind+1, d)
		g.w(ind, "else")
		g.block(ind+1, d)
		g.w(ind, "end")
	case 14:
		g.tag("closure")
		g.closSeen = true
		f := g.fresh("f")
		g.w(ind, fmt.Sprintf("%s := |x: Int|: Int -> x + %s", f, g.v()))
		g.w(ind, fmt.Sprintf("%s = %s.(%s)", g.v(), f, g.expr()))
	case 15:
		g.tag("closure-mutating")
		g.closSeen = true
		f := g.fresh("f")
		g.w(ind, f+" := ->")
		saveL, saveF, saveG := g.loops, g.inFunc, g.inGen
		g.loops, g.inFunc, g.inGen = nil, false, false
		g.block(ind+1, d)
		g.w(ind+1, g.v())
		g.loops, g.inFunc, g.inGen = saveL, saveF, saveG
		g.w(ind, "end")
		g.w(ind, fmt.Sprintf("%s = %s.()", g.v(), f))
	case 16:
		if len(g.loops) > 0 && g.inFin == 0 {
			g.tag("break")
			l := hx.Pick(g.r, g.loops)
			if l != "" && g.r.Chance(2, 3) {
				g.tag("labelled-jump")
				g.w(ind, fmt.Sprintf("break[%s] if %s", l, g.cond()))
			} else {
				g.w(ind, "break if "+g.cond())
			}
		} else {
			g.w(ind, fmt.Sprintf("%s += %d", g.v(), g.k()))
		}
	case 17:
		if len(g.loops) > 0 && g.inFin == 0 {
			g.tag("continue")
			l := hx.Pick(g.r, g.loops)
			if l != "" && g.r.Chance(2, 3) {
				g.tag("labelled-jump")
				g.w(ind, fmt.Sprintf("continue[%s] if %s", l, g.cond()))
			} else {
				g.w(ind, "continue if "+g.cond())
			}
		} else {
			g.w(ind, fmt.Sprintf("%s -= %d", g.v(), g.k()))
		}
	case 18:
		if g.inFunc && g.inFin == 0 && !g.closSeen {
			g.tag("return")
			g.w(ind, fmt.Sprintf("return %s if %s", g.expr(), g.cond()))
		} else if g.inGen && g.inFin == 0 && !g.closSeen {
			g.tag("yield")
			g.w(ind, "yield "+g.expr())
		} else {
			g.w(ind, fmt.Sprintf("%s = %s", g.v(), g.expr()))
		}
	case 19:
		g.tag("string-interp")
		s := g.fresh("s")
		g.w(ind, fmt.Sprintf("%s := \"v=#{%s} w=#{%s + 1}\"", s, g.v(), g.v()))
		g.w(ind, fmt.Sprintf("%s = %s.length", g.v(), s))
	case 20:
		g.tag("collections")
		l, m := g.fresh("l"), g.fresh("m")
		g.w(ind, fmt.Sprintf("%s := [%s, %d, %s]", l, g.v(), g.k(), g.expr()))
		g.w(ind, fmt.Sprintf("%s << %s", l, g.v()))
		g.w(ind, fmt.Sprintf("%s := { \"k\" => %s, \"j\" => %d }", m, g.v(), g.k()))
		g.w(ind, fmt.Sprintf("%s = %s.length + %s.length", g.v(), l, m))
	case 21:
		g.tag("nil-coalesce")
		q, rr := g.fresh("q"), g.fresh("r")
		g.w(ind, fmt.Sprintf("var %s: Int? = nil", q))
		g.w(ind, fmt.Sprintf("%s = %s if %s", q, g.v(), g.cond()))
		g.w(ind, fmt.Sprintf("%s := %s ?? %d", rr, q, g.k()))
		g.w(ind, fmt.Sprintf("%s = %s", g.v(), rr))
	case 22:
		g.tag("unless")
		g.w(ind, "unless "+g.cond())
		g.block(ind+1, d)
		g.w(ind, "end")
	case 23:
		g.tag("nested-closure")
		g.closSeen = true
		f, h := g.fresh("f"), g.fresh("h")
		g.w(ind, fmt.Sprintf("%s := |x: Int| ->", f))
		g.w(ind+1, fmt.Sprintf("%s := |y: Int|: Int -> x + y + %s", h, g.v()))
		g.w(ind+1, fmt.Sprintf("%s.(%d)", h, g.k()))
		g.w(ind, "end")
		g.w(ind, fmt.Sprintf("%s = %s.(%s)", g.v(), f, g.v()))
	case 24:
		g.tag("ternary-modifiers")
		g.w(ind, fmt.Sprintf("%s = %s if %s else %s", g.v(), g.expr(), g.cond(), g.expr()))
	case 25:
		g.tag("record-switch")
		x := g.fresh("x")
		g.w(ind, fmt.Sprintf("switch { \"a\" => %s, \"b\" => %d }", g.v(), g.k()))
		g.w(ind, fmt.Sprintf("case { \"a\" => %s }", x))
		g.w(ind+1, fmt.Sprintf("%s = 1", g.v()))
		g.w(ind, "else")
		g.block(ind+1, d)
		g.w(ind, "end")
	case 26:
		g.tag("many-captures")
		g.closSeen = true
		// closure capturing all three locals and assigning each (SET_UPVALUE_0/1/8)
		f := g.fresh("f")
		g.w(ind, f+" := ->")
		g.w(ind+1, "a = a + 1")
		g.w(ind+1, "b = b + a")
		g.w(ind+1, "c = c + b")
		g.w(ind+1, "c")
		g.w(ind, "end")
		g.w(ind, fmt.Sprintf("%s = %s.()", g.v(), f))
	case 27:
		g.tag("regex-range-tuple")
		t := g.fresh("t")
		g.w(ind, fmt.Sprintf("%s := %%[%s, %d]", t, g.v(), g.k()))
		g.w(ind, fmt.Sprintf("%s = %s.length", g.v(), t))
		g.w(ind, fmt.Sprintf("%s += 1 if %%/a+b/.matches(\"aab\")", g.v()))
		g.w(ind, fmt.Sprintf("%s += 1 if (1...%d).contains(%s)", g.v(), g.k(), g.v()))
	case 28, 29:
		// call of another method of the program (defined earlier, the current one, or LATER:
		// static binding is then deferred to optimiseCalls), value used
		if c := g.call(); c != "" {
			g.tag("call")
			g.w(ind, fmt.Sprintf("%s = %s", g.v(), fmt.Sprintf(c, g.expr())))
		} else {
			g.w(ind, fmt.Sprintf("%s += %s", g.v(), g.expr()))
		}
	case 30, 31:
		// call in tail position of a guarded return
		if c := g.call(); c != "" && g.inFunc && g.inFin == 0 && !g.closSeen {
			g.tag("tail-call")
			g.w(ind, fmt.Sprintf("return %s if %s", fmt.Sprintf(c, g.expr()), g.cond()))
		} else if c != "" {
			g.tag("call")
			g.w(ind, fmt.Sprintf("%s = 1 + %s", g.v(), fmt.Sprintf(c, g.v())))
		} else {
			g.w(ind, fmt.Sprintf("%s -= %s", g.v(), g.expr()))
		}
	case 32:
		// dynamic dispatch on a union receiver, call whose value is ignored, short-circuit with a call
		g.tag("call-dynamic")
		u, t := g.fresh("u"), g.fresh("t")
		g.w(ind, fmt.Sprintf("var %s: Int | Float = %s", u, g.v()))
		g.w(ind, fmt.Sprintf("%s = 2.5 if %s", u, g.cond()))
		g.w(ind, fmt.Sprintf("%s := %s.to_string", t, u))
		g.w(ind, fmt.Sprintf("%s = %s.length", g.v(), t))
	case 33:
		g.tag("logical-call-statement")
		if c := g.call(); c != "" {
			g.w(ind, fmt.Sprintf("%s && %s > 0", g.cond(), fmt.Sprintf(c, g.v())))
			g.w(ind, fmt.Sprintf("%s || %s > 1", g.cond(), fmt.Sprintf(c, g.v())))
			g.w(ind, fmt.Sprintf(c, g.expr()))
		} else {
			g.w(ind, fmt.Sprintf("%s && %s.to_string.length > 0", g.cond(), g.v()))
		}
	case 34:
		if g.wide {
			g.bigLiteral(ind)
		} else {
			g.w(ind, fmt.Sprintf("%s = %s", g.v(), g.expr()))
		}
	default:
		g.w(ind, fmt.Sprintf("%s += %s", g.v(), g.expr()))
	}
}

// call returns the format of a call to some method of the program ("" if there is none).
func (g *gen) call() string {
	if g.noLoop {
		return "" // macro bodies run at compile time
	}
	if g.selfCall != "" && g.r.Chance(1, 3) {
		g.tag("self-recursion")
		return g.selfCall
	}
	if len(g.callables) == 0 {
		return g.selfCall
	}
	return hx.Pick(g.r, g.callables)
}

// wideCounts: operand values around the 8/16 bit boundary (and one with a non-zero high byte > 1)
func (g *gen) wideCount() int {
	switch g.r.Below(8) {
	case 0:
		return g.r.Range(300, 330)
	case 1:
		return g.r.Range(515, 530)
	default:
		return g.r.Range(244, 262)
	}
}

// pad emits n statements each of which adds (at least) one entry to the value pool of the
// current function, so that whatever follows refers to pool indices >= 256 (LOAD_VALUE16,
// GET_CONST16, CALL_METHOD*16, CALL16, NEXT16 ...).  Needs the locals of locals().
func (g *gen) pad(ind, n int) {
	g.tag("pad")
	kind := g.r.Below(5)
	for i := 0; i < n; i++ {
		k := kind
		if kind == 4 {
			k = i % 4
		}
		c := ""
		if k == 2 {
			c = g.call()
		}
		switch {
		case k == 0:
			g.w(ind, fmt.Sprintf("pd = \"k%d\"", i))
		case k == 1:
			g.w(ind, fmt.Sprintf("pf = %d.5", i))
		case k == 2 && c != "":
			g.w(ind, fmt.Sprintf("a = %s", fmt.Sprintf(c, "a")))
		default:
			g.w(ind, "pd = a.to_string") // a native call site per statement
		}
	}
}

// bigLiteral: collection / string literals with more than 255 dynamic elements (NEW_*16)
func (g *gen) bigLiteral(ind int) {
	n := g.wideCount()
	el := make([]string, n)
	x := g.fresh("big")
	switch g.r.Below(5) {
	case 0:
		g.tag("big-list")
		for i := range el {
			el[i] = g.v()
		}
		g.w(ind, fmt.Sprintf("%s := [%s]", x, strings.Join(el, ", ")))
	case 1:
		g.tag("big-tuple")
		for i := range el {
			el[i] = g.v()
		}
		g.w(ind, fmt.Sprintf("%s := %%[%s]", x, strings.Join(el, ", ")))
	case 2:
		g.tag("big-map")
		for i := range el {
			el[i] = fmt.Sprintf("%d => %s", i, g.v())
		}
		g.w(ind, fmt.Sprintf("%s := { %s }", x, strings.Join(el, ", ")))
	case 3:
		g.tag("big-set")
		for i := range el {
			el[i] = fmt.Sprintf("%s + %d", g.v(), i)
		}
		g.w(ind, fmt.Sprintf("%s := ^[%s]", x, strings.Join(el, ", ")))
	default:
		g.tag("big-string")
		for i := range el {
			el[i] = fmt.Sprintf("#{%s}", g.v())
		}
		g.w(ind, fmt.Sprintf("%s := \"%s\"", x, strings.Join(el, "-")))
	}
	g.w(ind, fmt.Sprintf("%s = %s.length", g.v(), x))
}

func (g *gen) loop(ind, depth int, head string) {
	label := ""
	if g.r.Chance(1, 3) {
		label = g.fresh("lb")
		g.tag("labelled-loop")
		head = "$" + label + ": " + head
	}
	g.w(ind, head)
	g.loops = append(g.loops, label)
	saveFin := g.inFin
	g.inFin = 0
	g.w(ind+1, "a += 1")
	g.w(ind+1, "break if a > 200")
	g.block(ind+1, depth)
	g.inFin = saveFin
	g.loops = g.loops[:len(g.loops)-1]
	g.w(ind, "end")
}

func (g *gen) locals(ind int) {
	for i := 0; i < g.wideLoc; i++ {
		g.w(ind, fmt.Sprintf("var w%d = %d", i, i))
	}
	if g.wide {
		g.w(ind, "var pd = \"\"")
		g.w(ind, "var pf = 0.5")
	}
	g.w(ind, fmt.Sprintf("var a = %d", g.r.Range(0, 5)))
	g.w(ind, fmt.Sprintf("var b = %d", g.r.Range(0, 5)))
	g.w(ind, fmt.Sprintf("var c = %d", g.r.Range(0, 5)))
}

// Program returns (source, comma separated construct tags).
func Program(r *hx.Rng) (string, string) { return program(r, false) }

// WideRandomProgram: the same generator in the wide profile: bodies are preceded by 244..530
// pool-filling statements and/or declare that many extra locals first, so that the constructs
// that follow are encoded with the 16-bit opcode variants; literals with > 255 elements.
func WideRandomProgram(r *hx.Rng) (string, string) { return program(r, true) }

type item struct {
	kind int
	name string
}

func program(r *hx.Rng, wide bool) (string, string) {
	g := &gen{r: r, tags: map[string]bool{}, wide: wide}
	depth := r.Range(2, 4)
	if wide {
		depth = r.Range(1, 3)
		g.tag("wide")
	}
	var calls []string
	nItems := r.Range(1, 4)
	// plan first: bodies may call methods that are defined LATER in the file
	var items []item
	for it := 0; it < nItems; it++ {
		k := r.Below(7)
		switch k {
		case 0, 1:
			m := g.fresh("m")
			items = append(items, item{0, m})
			g.callables = append(g.callables, m+"(%s)", m+"(%s, 7)")
		case 2:
			items = append(items, item{2, g.fresh("g")})
		case 3:
			m := g.fresh("am")
			items = append(items, item{3, m})
			g.callables = append(g.callables, "(await "+m+"(%s))")
		case 4:
			cn := g.fresh("Kls")
			items = append(items, item{4, cn})
			g.callables = append(g.callables, cn+"(1, 2).run(%s)")
		case 5:
			items = append(items, item{5, g.fresh("mc")})
		default:
			mn := g.fresh("Mod")
			items = append(items, item{6, mn})
			g.callables = append(g.callables, mn+".calc(%s)")
		}
	}
	// prologue of a body: locals (possibly > 255 of them), then the pool pad
	open := func(ind int, first string) {
		g.wideLoc = 0
		if g.wide && r.Chance(1, 3) {
			g.wideLoc = g.wideCount()
			g.tag("wide-locals")
		}
		g.locals(ind)
		g.w(ind, first)
		if g.wide && (g.wideLoc == 0 || r.Chance(1, 3)) {
			g.pad(ind, g.wideCount())
		}
	}
	// final expression of a method body: a plain value or a call in tail position
	last := func(ind int, plain string) {
		val := func() string {
			if c := g.call(); c != "" && r.Chance(1, 2) {
				g.tag("tail-call")
				return fmt.Sprintf(c, g.expr())
			}
			return g.expr()
		}
		switch r.Below(12) {
		case 0, 1, 2:
			if c := g.call(); c != "" {
				g.tag("tail-call")
				g.w(ind, fmt.Sprintf(c, plain))
				return
			}
			g.w(ind, plain)
		case 3:
			// the body's value is a conditional whose branches end in values or returns
			g.tag("final-if-return")
			g.w(ind, "if "+g.cond())
			if r.Chance(1, 2) {
				g.w(ind+1, "return "+val())
			} else {
				g.w(ind+1, val())
			}
			g.w(ind, "else")
			if r.Chance(1, 2) {
				g.w(ind+1, "return "+val())
			} else {
				g.w(ind+1, val())
			}
			g.w(ind, "end")
		case 4:
			g.tag("final-switch-return")
			g.w(ind, "switch "+g.v())
			g.w(ind, "case 1 then return "+val())
			g.w(ind, "case 2...5")
			g.w(ind+1, val())
			g.w(ind, "else")
			if r.Chance(1, 2) {
				g.w(ind+1, "return "+val())
			} else {
				g.w(ind+1, val())
			}
			g.w(ind, "end")
		case 5:
			g.tag("final-do-catch")
			g.w(ind, "do")
			g.w(ind+1, fmt.Sprintf("throw \"e\" if %s", g.cond()))
			if r.Chance(1, 2) {
				g.w(ind+1, "return "+val())
			} else {
				g.w(ind+1, val())
			}
			g.w(ind, "catch String() as "+g.fresh("e"))
			if r.Chance(1, 2) {
				g.w(ind+1, "return "+val())
			} else {
				g.w(ind+1, val())
			}
			if r.Chance(1, 3) {
				g.w(ind, "finally")
				g.w(ind+1, "b += 1")
			}
			g.w(ind, "end")
		case 6:
			g.tag("final-return")
			g.w(ind, "return "+val())
		case 7:
			g.tag("final-modifier-if")
			g.w(ind, fmt.Sprintf("%s if %s else %s", val(), g.cond(), val()))
		case 8:
			g.tag("final-unless-return")
			g.w(ind, "unless "+g.cond())
			g.w(ind+1, "return "+val())
			g.w(ind, "end")
			g.w(ind, plain)
		default:
			g.w(ind, plain)
		}
	}
	for _, it := range items {
		g.closSeen = false
		switch it.kind {
		case 0:
			g.tag("method")
			m := it.name
			g.selfCall = m + "(%s)"
			g.w(0, fmt.Sprintf("def %s(p: Int, o: Int = %d): Int", m, g.k()))
			open(1, "a = p + o")
			g.inFunc = true
			g.block(1, depth)
			g.inFunc = false
			last(1, "a + b + c")
			g.w(0, "end")
			calls = append(calls, fmt.Sprintf("a = %s(%d)", m, g.k()))
		case 2:
			g.tag("generator")
			m := it.name
			g.selfCall = ""
			g.w(0, fmt.Sprintf("def *%s(p: Int): Int", m))
			open(1, "a = p")
			g.w(1, "yield a + b")
			g.inGen = true
			g.block(1, depth)
			g.inGen = false
			g.w(1, "c")
			g.w(0, "end")
			iv := g.fresh("i")
			calls = append(calls, fmt.Sprintf("for %s in %s(%d) then b += %s", iv, m, g.k(), iv))
		case 3:
			g.tag("async")
			m := it.name
			g.selfCall = ""
			g.w(0, fmt.Sprintf("async def %s(p: Int): Int", m))
			open(1, "a = p")
			g.inFunc = true
			g.block(1, depth)
			g.inFunc = false
			if len(calls) > 0 && r.Chance(1, 2) {
				g.w(1, "b")
			} else {
				last(1, "a + 1")
			}
			g.w(0, "end")
			calls = append(calls, fmt.Sprintf("c = await %s(%d)", m, g.k()))
		case 4:
			g.tag("class")
			cn := it.name
			g.selfCall = "run(%s)"
			g.w(0, "class "+cn)
			g.w(1, "attr x: Int, y: Int")
			g.w(1, "init(@x: Int, @y: Int); end")
			g.w(1, "def run(p: Int): Int")
			open(2, "a = p + @x")
			g.inFunc = true
			g.block(2, depth)
			g.inFunc = false
			g.w(2, "@y = a")
			last(2, "a + @y")
			g.w(1, "end")
			g.w(0, "end")
			calls = append(calls, fmt.Sprintf("b = %s(%d, 2).run(%d)", cn, g.k(), g.k()))
		case 5:
			g.tag("macro")
			m := it.name
			g.selfCall = ""
			saveW := g.wide
			g.wide = false
			g.wideLoc = 0
			g.w(0, "using Std::Elk::AST::*")
			g.w(0, fmt.Sprintf("macro %s(i: IntLiteralNode)", m))
			g.locals(1)
			g.w(1, "a = i.to_int")
			g.noLoop = true
			g.block(1, depth-1)
			g.noLoop = false
			g.w(1, "(a + b).to_ast_node")
			g.w(0, "end")
			g.wide = saveW
			calls = append(calls, fmt.Sprintf("c = %s!(%d)", m, g.k()))
		default:
			g.tag("module")
			mn := it.name
			g.selfCall = "calc(%s)"
			g.w(0, "module "+mn)
			g.w(1, "def calc(p: Int): Int")
			open(2, "a = p")
			g.inFunc = true
			g.block(2, depth)
			g.inFunc = false
			last(2, "a")
			g.w(1, "end")
			g.w(0, "end")
			calls = append(calls, fmt.Sprintf("a = %s.calc(%d)", mn, g.k()))
		}
	}
	g.selfCall = ""
	open(0, "a = a + 0")
	for _, c := range calls {
		g.w(0, c)
	}
	g.block(0, depth)
	g.w(0, "println((a + b + c).inspect)")
	var tags []string
	for t := range g.tags {
		tags = append(tags, t)
	}
	sortStrings(tags)
	return g.b.String(), strings.Join(tags, ",")
}

func sortStrings(s []string) {
	for i := 1; i < len(s); i++ {
		for j := i; j > 0 && s[j] < s[j-1]; j-- {
			s[j], s[j-1] = s[j-1], s[j]
		}
	}
}

// WideProgram: a function with more than 255 locals / a closure with many upvalues, so that
// the 16-bit opcode variants (GET_LOCAL16, SET_LOCAL16, BOX_LOCAL16, PREP_LOCALS16,
// SET_UPVALUE8...) are emitted.
func WideProgram(nLocals int, nCaptured int) string {
	var b strings.Builder
	b.WriteString("def wide(p: Int): Int\n")
	for i := 0; i < nLocals; i++ {
		fmt.Fprintf(&b, "  var w%d = p + %d\n", i, i)
	}
	fmt.Fprintf(&b, "  bx := &w%d\n  by := &w0\n", nLocals-1)
	b.WriteString("  f := ->\n")
	for i := 0; i < nCaptured; i++ {
		fmt.Fprintf(&b, "    w%d = w%d + 1\n", nLocals-1-i, nLocals-1-i)
	}
	fmt.Fprintf(&b, "    w%d\n  end\n", nLocals-1)
	fmt.Fprintf(&b, "  f.() + w0 + w%d\nend\nprintln(wide(1).inspect)\n", nLocals-1)
	return b.String()
}
