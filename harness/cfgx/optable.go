// Package cfgx: shared by the C29 and C33 harnesses (bytecode export, hand-written opcode table,
// compile helpers, program generators).
package cfgx

import (
	"fmt"
	"io"
	"strings"

	"github.com/elk-language/elk/bytecode"
	"github.com/elk-language/elk/value"
	"github.com/elk-language/elk/vm"
)

// HAND-WRITTEN, TRUSTED TABLE (from reading /repo/vm/thread.go `run`, lines ~500-1360, and the
// op* helpers).  One line per opcode:  NAME  operands  kind  [flags]
//
//	operands: '-' or comma separated role:width ; roles
//	   V value-pool index (any value)        S value-pool index of an inline Symbol
//	   C index of a *CallSiteInfo            B index of a *BytecodeCallSiteInfo
//	   T index of a *NativeCallSiteInfo      L local slot index        U upvalue index
//	   N plain number (count / ivar index)   R raw byte(s) (flags, literals)
//	   J forward jump distance (target = end of instruction + operand)
//	   K backward jump distance (target = end of instruction - operand)
//	   P PREP_LOCALS slot count
//	kind: fall jump branch loop ret throw retfin dyn skip1 spawn yield stop closure
//	flags: check (CHECK_ABORT or a blocking opcode that observes the thread context)
//	       block (blocking opcode WITHOUT context support; reported, not gated)
//	       iV<n> iL<n> iU<n> implicit index operand encoded in the opcode itself
//
// The operand WIDTHS are cross-checked on every run against the sizes obtained by stepping the
// real vm.(*BytecodeFunction).DisassembleInstruction; the roles/kinds are trusted.
const handTable = `
NOOP - fall
RETURN - ret
LOAD_VALUE_0 - fall iV0
LOAD_VALUE_1 - fall iV1
LOAD_VALUE_2 - fall iV2
LOAD_VALUE_3 - fall iV3
LOAD_VALUE8 V:1 fall
LOAD_VALUE16 V:2 fall
ADD - fall
ADD_INT - fall
ADD_FLOAT - fall
SUBTRACT - fall
SUBTRACT_INT - fall
SUBTRACT_FLOAT - fall
MULTIPLY - fall
MULTIPLY_INT - fall
MULTIPLY_FLOAT - fall
DIVIDE - fall
DIVIDE_INT - fall
DIVIDE_FLOAT - fall
EXPONENTIATE - fall
EXPONENTIATE_INT - fall
NEGATE - fall
NEGATE_INT - fall
NEGATE_FLOAT - fall
NOT - fall
BITWISE_NOT - fall
TRUE - fall
FALSE - fall
NIL - fall
POP - fall
POP_2 - fall
PREP_LOCALS8 P:1 fall
PREP_LOCALS16 P:2 fall
SET_LOCAL_1 - fall iL1
SET_LOCAL_2 - fall iL2
SET_LOCAL_3 - fall iL3
SET_LOCAL_4 - fall iL4
SET_LOCAL8 L:1 fall
SET_LOCAL16 L:2 fall
GET_LOCAL_1 - fall iL1
GET_LOCAL_2 - fall iL2
GET_LOCAL_3 - fall iL3
GET_LOCAL_4 - fall iL4
GET_LOCAL8 L:1 fall
GET_LOCAL16 L:2 fall
BOX_LOCAL8 L:1,R:1 fall
BOX_LOCAL16 L:2,R:1 fall
JUMP_UNLESS_LE J:2 branch
JUMP_UNLESS_LT J:2 branch
JUMP_UNLESS_GE J:2 branch
JUMP_UNLESS_GT J:2 branch
JUMP_UNLESS_EQ J:2 branch
JUMP_UNLESS_ILE J:2 branch
JUMP_UNLESS_ILT J:2 branch
JUMP_UNLESS_IGE J:2 branch
JUMP_UNLESS_IGT J:2 branch
JUMP_UNLESS_IEQ J:2 branch
JUMP_UNLESS_NIL J:2 branch
JUMP_UNLESS_NNP J:2 branch
JUMP_UNLESS_UNP J:2 branch
JUMP_UNLESS_UNDEF J:2 branch
JUMP_UNLESS J:2 branch
JUMP_UNLESS_NP J:2 branch
JUMP J:2 jump
JUMP_IF J:2 branch
JUMP_IF_NP J:2 branch
JUMP_IF_IEQ J:2 branch
JUMP_IF_EQ J:2 branch
LOOP K:2 loop
JUMP_IF_NIL J:2 branch
JUMP_IF_NIL_NP J:2 branch
RBITSHIFT - fall
RBITSHIFT_INT - fall
LOGIC_RBITSHIFT - fall
LBITSHIFT - fall
LBITSHIFT_INT - fall
LOGIC_LBITSHIFT - fall
BITWISE_AND - fall
BITWISE_AND_INT - fall
BITWISE_OR - fall
BITWISE_OR_INT - fall
BITWISE_XOR - fall
BITWISE_XOR_INT - fall
MODULO - fall
MODULO_INT - fall
MODULO_FLOAT - fall
EQUAL - fall
EQUAL_INT - fall
EQUAL_FLOAT - fall
STRICT_EQUAL - fall
GREATER - fall
GREATER_INT - fall
GREATER_FLOAT - fall
GREATER_EQUAL - fall
GREATER_EQUAL_I - fall
GREATER_EQUAL_F - fall
LESS - fall
LESS_INT - fall
LESS_FLOAT - fall
LESS_EQUAL - fall
LESS_EQUAL_INT - fall
LESS_EQUAL_FLOAT - fall
NOT_EQUAL - fall
NOT_EQUAL_INT - fall
NOT_EQUAL_FLOAT - fall
STRICT_NOT_EQUAL - fall
INIT_NAMESPACE - fall
SELF - fall
DEF_METHOD - fall
UNDEFINED - fall
GET_CLASS - fall
CALL_METHOD_TCO8 C:1 fall
CALL_METHOD_TCO16 C:2 fall
CALL_METHOD8 C:1 fall
CALL_METHOD16 C:2 fall
CALL_METHOD_BC8 B:1 fall
CALL_METHOD_BC16 B:2 fall
CALL_METHOD_NT8 T:1 fall
CALL_METHOD_NT16 T:2 fall
CALL8 C:1 fall
CALL16 C:2 fall
INCLUDE - fall
GET_SINGLETON - fall
COMPARE - fall
DOC_COMMENT - fall
DEF_GETTER - fall
DEF_SETTER - fall
RETURN_FIRST_ARG - ret iL1
INSTANTIATE8 N:1 fall
INSTANTIATE16 N:2 fall
RETURN_SELF - ret
GET_IVAR_0 - fall
GET_IVAR_1 - fall
GET_IVAR_2 - fall
GET_IVAR8 N:1 fall
GET_IVAR16 N:2 fall
GET_IVAR_NAME16 S:2 fall
SET_IVAR_0 - fall
SET_IVAR_1 - fall
SET_IVAR_2 - fall
SET_IVAR8 N:1 fall
SET_IVAR16 N:2 fall
SET_IVAR_NAME16 S:2 fall
NEW_ARRAY_TUPLE8 N:1 fall
NEW_ARRAY_TUPLE16 N:2 fall
APPEND - fall
COPY - fall
SUBSCRIPT - fall
SUBSCRIPT_SET - fall
APPEND_AT - fall
NEW_ARRAY_LIST8 N:1 fall
NEW_ARRAY_LIST16 N:2 fall
GET_ITERATOR - fall
FOR_IN_BUILTIN J:2 branch
FOR_IN J:2 branch
NEXT8 C:1 fall
NEXT16 C:2 fall
NEW_STRING8 N:1 fall
NEW_STRING16 N:2 fall
NEW_HASH_MAP8 N:1 fall
NEW_HASH_MAP16 N:2 fall
MAP_SET - fall
NEW_HASH_RECORD8 N:1 fall
NEW_HASH_RECORD16 N:2 fall
LAX_EQUAL - fall
LAX_NOT_EQUAL - fall
NEW_REGEX8 R:1,N:1 fall
NEW_REGEX16 R:1,N:2 fall
BITWISE_AND_NOT - fall
UNARY_PLUS - fall
INCREMENT - fall
INCREMENT_INT - fall
DECREMENT - fall
DECREMENT_INT - fall
DUP - fall
DUP_2 - fall
DUP_SECOND - fall
POP_2_SKIP_ONE - fall
NEW_SYMBOL8 N:1 fall
NEW_SYMBOL16 N:2 fall
SWAP - fall
NEW_RANGE R:1 fall
SET_SUPERCLASS - fall
AS - fall
MUST - fall
INSTANCE_OF - fall
IS_A - fall
POP_SKIP_ONE - fall
INSPECT_STACK - fall
NEW_HASH_SET8 N:1 fall
NEW_HASH_SET16 N:2 fall
THROW - throw
RETHROW - throw
RETURN_FINALLY - retfin
JUMP_TO_FINALLY - dyn
CLOSURE - closure
CLOSED_CLOSURE - closure
SET_UPVALUE_0 - fall iU0
SET_UPVALUE_1 - fall iU1
SET_UPVALUE8 U:1 fall
SET_UPVALUE16 U:2 fall
GET_UPVALUE_0 - fall iU0
GET_UPVALUE_1 - fall iU1
GET_UPVALUE8 U:1 fall
GET_UPVALUE16 U:2 fall
CLOSE_UPVALUES_TO_1 - fall iL1
CLOSE_UPVALUES_TO_2 - fall iL2
CLOSE_UPVALUES_TO_3 - fall iL3
CLOSE_UPVALUES_TO8 L:1 fall
CLOSE_UPVALUES_TO16 L:2 fall
DEF_NAMESPACE R:1 fall
GET_CONST8 S:1 fall
GET_CONST16 S:2 fall
DEF_CONST - fall
EXEC - fall
INT_M1 - fall
INT_0 - fall
INT_1 - fall
INT_2 - fall
INT_3 - fall
INT_4 - fall
INT_5 - fall
LOAD_INT_8 R:1 fall
LOAD_INT_16 R:2 fall
LOAD_INT64_8 R:1 fall
LOAD_UINT64_8 R:1 fall
LOAD_INT32_8 R:1 fall
LOAD_UINT32_8 R:1 fall
LOAD_INT16_8 R:1 fall
LOAD_UINT16_8 R:1 fall
LOAD_INT8 R:1 fall
LOAD_UINT8 R:1 fall
LOAD_CHAR_8 R:1 fall
FLOAT_0 - fall
FLOAT_1 - fall
FLOAT_2 - fall
GENERATOR - spawn
YIELD - yield
STOP_ITERATION - stop
GO - fall
PROMISE - spawn
AWAIT - skip1 block
AWAIT_RESULT - fall
AWAIT_SYNC - fall block
DEF_IVARS - fall
BREAKPOINT - fall block
SELECT - fall check
CHECK_ABORT - fall check
EXEC_DEFER - fall
`

type Operand struct {
	Role  byte
	Width int
}

type OpInfo struct {
	Code     int
	Name     string
	Operands []Operand
	Kind     string
	Check    bool
	Block    bool
	ImpRole  byte // 0 = none
	ImpVal   int
	DisSize  int    // size observed by stepping the real disassembler (0x00 fill); -1 = panic
	DisSizeF int    // same with 0xff fill
	DisNote  string // error / panic text from the disassembler
}

func (o *OpInfo) HandSize() int {
	if o.Kind == "closure" {
		return -2
	}
	n := 1
	for _, p := range o.Operands {
		n += p.Width
	}
	return n
}

// OpCount: number of opcodes defined by the implementation (CHECK: names table length).
func OpCount() int {
	n := 0
	for i := 0; i < 256; i++ {
		s := safeName(i)
		if s == "" || s == "UNKNOWN" {
			break
		}
		n++
	}
	return n
}

func safeName(i int) (s string) {
	defer func() {
		if recover() != nil {
			s = ""
		}
	}()
	return bytecode.OpCode(i).String()
}

// LoadTable parses the hand table, orders it by the implementation's opcode numbering (by NAME,
// so renumbering opcodes is harmless) and steps the real disassembler for every opcode.
func LoadTable() ([]*OpInfo, []string) {
	var problems []string
	byName := map[string]*OpInfo{}
	for _, l := range strings.Split(handTable, "\n") {
		f := strings.Fields(l)
		if len(f) < 3 {
			continue
		}
		oi := &OpInfo{Name: f[0], Kind: f[2]}
		if f[1] != "-" {
			for _, t := range strings.Split(f[1], ",") {
				var w int
				fmt.Sscanf(t[2:], "%d", &w)
				oi.Operands = append(oi.Operands, Operand{Role: t[0], Width: w})
			}
		}
		for _, fl := range f[3:] {
			switch {
			case fl == "check":
				oi.Check = true
			case fl == "block":
				oi.Block = true
			case fl[0] == 'i':
				oi.ImpRole = fl[1]
				fmt.Sscanf(fl[2:], "%d", &oi.ImpVal)
			}
		}
		byName[oi.Name] = oi
	}
	n := OpCount()
	var tab []*OpInfo
	for i := 0; i < n; i++ {
		name := safeName(i)
		oi := byName[name]
		if oi == nil {
			problems = append(problems, fmt.Sprintf("opcode %d %s is not in the hand table", i, name))
			oi = &OpInfo{Name: name, Kind: "unknown"}
		}
		oi.Code = i
		oi.DisSize, oi.DisNote = stepDisassembler(byte(i), 0x00)
		if oi.Kind == "closure" {
			// descriptors: local short #5, upvalue long #7, terminator => 1+2+3+1 = 7 bytes
			oi.DisSize, oi.DisNote = stepDisassemblerBuf([]byte{byte(i), 0x02, 0x05, 0x01, 0x00, 0x07, 0xff, 0, 0, 0})
		}
		oi.DisSizeF, _ = stepDisassembler(byte(i), 0xff)
		tab = append(tab, oi)
		delete(byName, name)
	}
	for name := range byName {
		problems = append(problems, "hand table names an opcode the implementation does not define: "+name)
	}
	return tab, problems
}

var nilValues = func() []value.Value {
	v := make([]value.Value, 65536)
	for i := range v {
		v[i] = value.Nil
	}
	return v
}()

// stepDisassembler runs the REAL DisassembleInstruction on [op, fill x 15] and returns the
// offset it reports for the next instruction (= the size it believes the instruction has).
func stepDisassembler(op byte, fill byte) (size int, note string) {
	buf := make([]byte, 16)
	for i := range buf {
		buf[i] = fill
	}
	buf[0] = op
	return stepDisassemblerBuf(buf)
}

func stepDisassemblerBuf(buf []byte) (size int, note string) {
	f := vm.NewBytecodeFunctionNoParams(value.ToSymbol("probe"), buf, nil, bytecode.LineInfoList{bytecode.NewLineInfo(1, len(buf))}, nilValues)
	defer func() {
		if r := recover(); r != nil {
			size = -1
			note = "panic: " + strings.SplitN(fmt.Sprint(r), "\n", 2)[0]
		}
	}()
	n, err := f.DisassembleInstruction(io.Discard, 0)
	if err != nil {
		note = "error: " + err.Error()
	}
	return n, note
}

var roleCoq = map[byte]string{'V': "RVal", 'S': "RSym", 'C': "RCall", 'B': "RCallBC", 'T': "RCallNT",
	'L': "RLocal", 'U': "RUpv", 'P': "RPrep", 'N': "RNum", 'R': "RRaw", 'J': "RJumpF", 'K': "RJumpB"}
var kindCoq = map[string]string{"fall": "OFall", "jump": "OJump", "branch": "OBranch", "loop": "OLoop", "ret": "OReturn",
	"throw": "OThrow", "retfin": "ORetFinally", "dyn": "ODyn", "skip1": "OSkip1", "spawn": "OSpawn", "yield": "OYield", "stop": "OStop",
	"closure": "OClosure", "unknown": "OUnknown"}

// CoqTable renders coq/Gen/C29_Opcodes.v.
func CoqTable(tab []*OpInfo) string {
	var b strings.Builder
	b.WriteString("(* GENERATED on every run by harness/cmd/c29 -extra gen. Do not edit.\n")
	b.WriteString("   roles/kinds: hand table harness/cfgx/optable.go (trusted, from vm/thread.go);\n")
	b.WriteString("   dis_size: obtained by stepping the real vm.DisassembleInstruction over [op,0,0,...]\n")
	b.WriteString("   (dis_size_ff: same with 0xff fill; 0 = the disassembler panicked). *)\n")
	b.WriteString("From Coq Require Import NArith List.\nFrom Elk Require Import Base.Cfg.\nImport ListNotations.\nOpen Scope N_scope.\n\n")
	b.WriteString("Definition optable : list opinfo := [\n")
	for i, o := range tab {
		var ops []string
		for _, p := range o.Operands {
			ops = append(ops, fmt.Sprintf("(%s, %d)", roleCoq[p.Role], p.Width))
		}
		imp := "None"
		if o.ImpRole != 0 {
			imp = fmt.Sprintf("(Some (%s, %d))", roleCoq[o.ImpRole], o.ImpVal)
		}
		ds, df := o.DisSize, o.DisSizeF
		if ds < 0 {
			ds = 0
		}
		if df < 0 {
			df = 0
		}
		sep := ";"
		if i == len(tab)-1 {
			sep = ""
		}
		fmt.Fprintf(&b, "  mkop %d [%s] %s %s %v %d %d%s (* %s *)\n", o.Code, strings.Join(ops, "; "), imp, kindCoq[o.Kind],
			o.Check, ds, df, sep, o.Name)
	}
	b.WriteString("].\n\nDefinition n_opcodes : N := ")
	fmt.Fprintf(&b, "%d.\n", len(tab))
	return b.String()
}
