package cfgx

import (
	"fmt"
	"strings"

	"verifharness/hx"
)

// Shape: a program that does not terminate on its own.  Gate=false marks shapes whose only
// blocking point is a native without context support (reported, not gated).
type Shape struct {
	ID   string
	Tags string
	Gate bool
	Src  string
}

// loop skeletons: %s is the body; `n` is the loop's own counter (never touched by fillers)
var loopKinds = []struct{ tag, head, tail string }{
	{"loop", "loop\n  n += 1\n", "end\n"},
	{"while-true", "while true\n  n += 1\n", "end\n"},
	{"while-cond", "while n >= 0\n  n += 1\n", "end\n"},
	{"until-false", "until false\n  n += 1\n", "end\n"},
	{"until-cond", "until n < 0\n  n += 1\n", "end\n"},
	{"fornum-endless", "fornum ;;\n  n += 1\n", "end\n"},
	{"fornum-cond", "fornum q := 0; q >= 0; q += 1\n  n += 1\n", "end\n"},
	{"for-in-endless-range", "for q in 1...\n  n += 1\n", "end\n"},
	{"for-in-generator", "for q in nat()\n  n += 1\n", "end\n"},
	{"labelled-loop", "$outer: loop\n  n += 1\n", "end\n"},
	{"labelled-while", "$outer: while n >= 0\n  n += 1\n", "end\n"},
}

const natGen = "def *nat: Int\n  var i = 0\n  loop\n    yield i\n    i += 1\n  end\n  0\nend\n"

// bodies placed inside the loop (two-space indented); they never leave the loop
var bodies = []struct{ tag, src string }{
	{"plain", "  a = a + 1\n"},
	{"continue", "  continue\n"},
	{"continue-if", "  continue if n >= 0\n  a += 1\n"},
	{"continue-in-finally-scope", "  do\n    a += 1\n    continue if n >= 0\n  finally\n    b += 1\n  end\n"},
	{"do-catch", "  do\n    a += 1\n    throw \"x\" if a % 7 == 0\n  catch String() as e\n    b += 1\n  end\n"},
	{"do-catch-finally", "  do\n    a += 1\n    throw \"x\" if a % 7 == 0\n  catch String() as e\n    b += 1\n  finally\n    c += 1\n  end\n"},
	{"inner-finite-loop", "  for k in 1...3\n    a += k\n  end\n"},
	{"inner-infinite-loop", "  loop\n    a += 1\n  end\n"},
	{"inner-continue", "  while a >= 0\n    a += 1\n    continue if a % 2 == 0\n    b += 1\n  end\n"},
	{"switch", "  switch a + b\n  case 1 then c = 1\n  case 2...5 then c = 2\n  case > 100 then c = 3\n  else c = 4\n  end\n  a += 1\n"},
	{"closure-call", "  f := |x: Int|: Int -> x + a\n  a = f.(1)\n"},
	{"modifier-while-inside", "  a += 1 while a < n\n"},
}

var labelledBodies = []struct{ tag, src string }{
	{"continue-outer", "  loop\n    a += 1\n    continue[outer] if a % 3 == 0\n  end\n"},
	{"continue-outer-finally", "  do\n    loop\n      a += 1\n      continue[outer] if a % 3 == 0\n    end\n  finally\n    b += 1\n  end\n"},
}

// contexts: %s = the loop statement(s), indented by the wrapper
var contexts = []struct{ tag, pre, post string }{
	{"top-level", "", ""},
	{"closure", "spin := ->\n", "  n\nend\nspin.()\n"},
	{"method", "def spin(p: Int): Int\n  var n = p\n  var a = 0\n  var b = 0\n  var c = 0\n", "  n\nend\nspin(0)\n"},
	{"generator-body", "def *spin: Int\n  var n = 0\n  var a = 0\n  var b = 0\n  var c = 0\n", "  n\nend\nfor z in spin()\n  a += z\nend\n"},
	{"nested-closure", "outerf := ->\n  innerf := ->\n", "    n\n  end\n  innerf.()\nend\nouterf.()\n"},
	{"class-method", "class Spinner\n  def spin(p: Int): Int\n    var n = p\n    var a = 0\n    var b = 0\n    var c = 0\n", "    n\n  end\nend\nSpinner().spin(0)\n"},
}

func indent(s string, n int) string {
	pad := strings.Repeat("  ", n)
	var b strings.Builder
	for _, l := range strings.Split(strings.TrimRight(s, "\n"), "\n") {
		b.WriteString(pad + l + "\n")
	}
	return b.String()
}

func assemble(ctxI, loopI int, body string) string {
	c := contexts[ctxI]
	lk := loopKinds[loopI]
	var b strings.Builder
	if lk.tag == "for-in-generator" {
		b.WriteString(natGen)
	}
	b.WriteString("var n = 0\nvar a = 0\nvar b = 0\nvar c = 0\n")
	loop := lk.head + body + lk.tail
	depth := map[string]int{"top-level": 0, "closure": 1, "method": 1, "generator-body": 1, "nested-closure": 2, "class-method": 2}[c.tag]
	b.WriteString(c.pre)
	b.WriteString(indent(loop, depth))
	b.WriteString(c.post)
	return b.String()
}

// fixed shapes that are not loops of one function
var special = []Shape{
	{"tail-recursion", "recursion,tco", true, "def rec(k: Int): Int\n  rec(k + 1)\nend\nrec(0)\n"},
	{"mutual-tail-recursion", "mutual-recursion,tco", true, "def ping(k: Int): Int\n  pong(k + 1)\nend\ndef pong(k: Int): Int\n  ping(k + 1)\nend\nping(0)\n"},
	{"recursion-in-loop", "recursion,loop", true, "def fib(k: Int): Int\n  return k if k < 2\n  fib(k - 1) + fib(k - 2)\nend\nvar t = 0\nloop\n  t += fib(12)\nend\n"},
	{"closure-recursion-in-loop", "recursion,closure,loop", true, "var t = 0\nstep := |x: Int|: Int -> x + 1\nloop\n  t = step.(t)\nend\n"},
	{"for-in-channel", "channel,for-in", true, "ch := Channel::[Int]()\nvar t = 0\nfor x in ch\n  t += x\nend\n"},
	{"channel-receive", "channel,receive", true, "ch := Channel::[Int]()\nv := <<ch\nprintln(v.inspect)\n"},
	{"channel-send-unbuffered", "channel,send", true, "ch := Channel::[Int]()\nch << 1\nch << 2\n"},
	{"channel-receive-in-loop", "channel,receive,loop", true, "ch := Channel::[Int](1)\nvar t = 0\nloop\n  ch << 1\n  <<ch\n  t += 1\nend\n"},
	{"generator-next-in-loop", "generator,loop", true, natGen + "g := nat()\nvar t = 0\nloop\n  t += try g.next\nend\n"},
	{"await-sync-never", "await-sync,native-no-context", false, "async def forever: Int\n  ch := Channel::[Int]()\n  <<ch\n  1\nend\nawait forever()\n"},
	{"sleep-long", "sleep,native-no-context", false, "sleep(60.second)\n"},
	{"await-timeout-long", "await-sync,timer,native-no-context", false, "await timeout(60.second)\n"},
}

// Shapes returns the deterministic product (context x loop kind x body, thinned by the seed when
// the budget is smaller than the product) followed by the special shapes.
func Shapes(r *hx.Rng, budget int) []Shape {
	var all []Shape
	for ci := range contexts {
		for li, lk := range loopKinds {
			bs := bodies
			for bi, bd := range bs {
				id := fmt.Sprintf("%s/%s/%s", contexts[ci].tag, lk.tag, bd.tag)
				all = append(all, Shape{id, contexts[ci].tag + "," + lk.tag + "," + bd.tag, true, assemble(ci, li, bd.src)})
				_ = bi
			}
			if strings.HasPrefix(lk.tag, "labelled") {
				for _, bd := range labelledBodies {
					id := fmt.Sprintf("%s/%s/%s", contexts[ci].tag, lk.tag, bd.tag)
					all = append(all, Shape{id, contexts[ci].tag + "," + lk.tag + "," + bd.tag, true, assemble(ci, li, bd.src)})
				}
			}
		}
	}
	// deterministic thinning: keep every shape whose body is "plain"/"continue" in the top-level
	// and method contexts (one of each loop kind), sample the rest
	var out []Shape
	for _, s := range all {
		core := (strings.HasPrefix(s.ID, "top-level/") || strings.HasPrefix(s.ID, "method/") || strings.HasPrefix(s.ID, "closure/")) &&
			(strings.HasSuffix(s.ID, "/plain") || strings.HasSuffix(s.ID, "/continue"))
		if core {
			out = append(out, s)
		}
	}
	rest := budget - len(out) - len(special)
	if rest > 0 {
		var others []Shape
		for _, s := range all {
			core := (strings.HasPrefix(s.ID, "top-level/") || strings.HasPrefix(s.ID, "method/") || strings.HasPrefix(s.ID, "closure/")) &&
				(strings.HasSuffix(s.ID, "/plain") || strings.HasSuffix(s.ID, "/continue"))
			if !core {
				others = append(others, s)
			}
		}
		for i := len(others) - 1; i > 0; i-- {
			j := r.Below(i + 1)
			others[i], others[j] = others[j], others[i]
		}
		if rest > len(others) {
			rest = len(others)
		}
		out = append(out, others[:rest]...)
	}
	out = append(out, special...)
	return out
}
