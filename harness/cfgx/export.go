package cfgx

import (
	"encoding/hex"
	"fmt"
	"io"
	"os"
	"path/filepath"
	"strings"

	// the side-effect imports of the root package github.com/elk-language/elk (which has no
	// initialiser of its own); importing them directly keeps the harness independent of files
	// dropped into the checkout's root directory
	"github.com/elk-language/elk/bitfield"
	_ "github.com/elk-language/elk/ext/std"
	_ "github.com/elk-language/elk/lexer/runtime"
	_ "github.com/elk-language/elk/parser/ast/runtime"
	_ "github.com/elk-language/elk/parser/runtime"
	_ "github.com/elk-language/elk/position/diagnostic/runtime"
	_ "github.com/elk-language/elk/repl/breakpoint"
	"github.com/elk-language/elk/types/checker"
	_ "github.com/elk-language/elk/types/runtime"
	"github.com/elk-language/elk/vm"
)

// Compile type-checks and compiles Elk source through the public API (the path `elk run` and
// the REPL take).  abort=true sets checker.AdditionalAbortChecks like repl.evaluate does.
func Compile(name, src string, abort bool) (fn *vm.BytecodeFunction, diag string, panicked string) {
	defer func() {
		if r := recover(); r != nil {
			panicked = strings.SplitN(fmt.Sprint(r), "\n", 2)[0]
		}
	}()
	var flags bitfield.BitField16
	if abort {
		flags = bitfield.BitField16FromBitFlag(checker.AdditionalAbortChecks)
	}
	f, dl := checker.CheckSource(name, src, nil, flags, nil)
	if dl != nil && dl.IsFailure() {
		s := dl.Error()
		return nil, s, ""
	}
	return f, "", ""
}

// CompileFile: same for a file on disk (imports are resolved relative to it).
func CompileFile(path string, abort bool) (fn *vm.BytecodeFunction, diag string, panicked string) {
	defer func() {
		if r := recover(); r != nil {
			panicked = strings.SplitN(fmt.Sprint(r), "\n", 2)[0]
		}
	}()
	var flags bitfield.BitField16
	if abort {
		flags = bitfield.BitField16FromBitFlag(checker.AdditionalAbortChecks)
	}
	f, dl := checker.CheckFile(path, nil, flags, nil)
	if dl != nil && dl.IsFailure() {
		s := dl.Error()
		return nil, s, ""
	}
	return f, "", ""
}

// Walk visits fn and every BytecodeFunction reachable through value pools (directly, or as
// the Method of a *BytecodeCallSiteInfo), each once.
func Walk(fn *vm.BytecodeFunction, seen map[*vm.BytecodeFunction]bool, visit func(*vm.BytecodeFunction)) {
	if fn == nil || seen[fn] {
		return
	}
	seen[fn] = true
	visit(fn)
	for _, v := range fn.Values {
		switch r := v.SafeAsReference().(type) {
		case *vm.BytecodeFunction:
			Walk(r, seen, visit)
		case *vm.BytecodeCallSiteInfo:
			Walk(r.Method, seen, visit)
		}
	}
}

// Dump renders a function in the textual form read by the OCaml drivers:
//
//	code=<hex>;vals=<k,k,...>;catch=<from:to:jump:fin,...>;params=<n>;upv=<n>;name=<text>
//
// value kinds: f<upvalues> BytecodeFunction, c CallSiteInfo, b BytecodeCallSiteInfo,
// n NativeCallSiteInfo, s inline Symbol, i<int> SmallInt, o anything else.
func Dump(fn *vm.BytecodeFunction) string {
	var b strings.Builder
	b.WriteString("code=")
	b.WriteString(hex.EncodeToString(fn.Instructions))
	b.WriteString(";vals=")
	for i, v := range fn.Values {
		if i > 0 {
			b.WriteByte(',')
		}
		switch r := v.SafeAsReference().(type) {
		case *vm.BytecodeFunction:
			fmt.Fprintf(&b, "f%d", r.UpvalueCount)
		case *vm.CallSiteInfo:
			b.WriteByte('c')
		case *vm.BytecodeCallSiteInfo:
			b.WriteByte('b')
		case *vm.NativeCallSiteInfo:
			b.WriteByte('n')
		default:
			switch {
			case v.IsInlineSymbol():
				b.WriteByte('s')
			case v.IsSmallInt():
				fmt.Fprintf(&b, "i%d", int64(v.AsSmallInt()))
			default:
				b.WriteByte('o')
			}
		}
	}
	b.WriteString(";catch=")
	for i, c := range fn.CatchEntries {
		if i > 0 {
			b.WriteByte(',')
		}
		fin := 0
		if c.Finally {
			fin = 1
		}
		fmt.Fprintf(&b, "%d:%d:%d:%d", c.From, c.To, c.JumpAddress, fin)
	}
	fmt.Fprintf(&b, ";params=%d;upv=%d;name=%s", fn.ParameterCount(), fn.UpvalueCount, sanitize(fn.Name().String()))
	return b.String()
}

func sanitize(s string) string {
	r := strings.NewReplacer("\t", " ", "\n", " ", ";", ",", "\r", " ")
	s = r.Replace(s)
	if len(s) > 60 {
		s = s[:60]
	}
	return s
}

// GoOracle evaluates the property's first clause directly on the implementation: the real
// Disassemble must succeed, and stepping DisassembleInstruction must visit instruction starts
// only.  Returns "ok nb=<instructions> bsum=<sum of start offsets mod 2^31>" or "err ...".
func GoOracle(fn *vm.BytecodeFunction, tab []*OpInfo) (res string) {
	defer func() {
		if r := recover(); r != nil {
			res = "err disassemble-panic " + strings.SplitN(fmt.Sprint(r), "\n", 2)[0]
		}
		{
			// name the opcodes of this function on which the disassembler and the VM-derived
			// table disagree (canonical failure class)
			used := map[string]int{}
			OpcodesUsed(fn, tab, used)
			var sus []string
			for _, o := range tab {
				if used[o.Name] > 0 && o.Kind != "closure" && (o.DisSize != o.HandSize() || o.DisSizeF != o.HandSize()) {
					sus = append(sus, o.Name)
				}
			}
			if len(sus) > 0 || strings.HasPrefix(res, "err") {
				res += " uses=" + strings.Join(sus, "+")
			}
		}
	}()
	if len(fn.Instructions) == 0 {
		return "err empty"
	}
	nb, bsum, off := 0, 0, 0
	for off < len(fn.Instructions) {
		nb++
		bsum = (bsum + off) % (1 << 31)
		op := int(fn.Instructions[off])
		n, err := fn.DisassembleInstruction(io.Discard, off)
		if err != nil {
			name := "?"
			if op < len(tab) {
				name = tab[op].Name
			}
			return fmt.Sprintf("err disassemble-error at=%s: %s", name, err.Error())
		}
		if n <= off {
			return "err disassemble-stuck"
		}
		off = n
	}
	if off != len(fn.Instructions) {
		return "err disassemble-overrun"
	}
	return fmt.Sprintf("ok nb=%d bsum=%d", nb, bsum)
}

// OpcodesUsed lists the distinct opcode names occurring at the instruction starts found by
// walking with the hand table (used for the evidence distribution and failure keys).
func OpcodesUsed(fn *vm.BytecodeFunction, tab []*OpInfo, into map[string]int) {
	off := 0
	code := fn.Instructions
	for off < len(code) {
		op := int(code[off])
		if op >= len(tab) {
			return
		}
		o := tab[op]
		into[o.Name]++
		if o.Kind == "closure" {
			off++
			for off < len(code) && code[off] != 0xff {
				if code[off]&1 != 0 {
					off += 3
				} else {
					off += 2
				}
			}
			off++
			continue
		}
		off += o.HandSize()
	}
}

// RepoSources returns the Elk sources shipped in the repository: *.elk and *.elk.test
// (main.elk.test imports every test file and, through std, the kernel).
func RepoSources(root string) []string {
	var out []string
	filepath.Walk(root, func(p string, info os.FileInfo, err error) error {
		if err != nil {
			return nil
		}
		if info.IsDir() && (info.Name() == ".git" || info.Name() == "node_modules") {
			return filepath.SkipDir
		}
		if strings.HasSuffix(p, ".elk") || strings.HasSuffix(p, ".elk.test") {
			out = append(out, p)
		}
		return nil
	})
	return out
}
