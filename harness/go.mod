module verifharness

go 1.25.0

require github.com/elk-language/elk v0.0.0

require (
	github.com/ALTree/bigfloat v0.2.0 // indirect
	github.com/bmatcuk/doublestar/v4 v4.8.0 // indirect
	github.com/cespare/xxhash/v2 v2.2.0 // indirect
	github.com/fatih/color v1.15.0 // indirect
	github.com/google/go-cmp v0.6.0 // indirect
	github.com/mattn/go-colorable v0.1.14 // indirect
	github.com/mattn/go-isatty v0.0.20 // indirect
	github.com/rivo/uniseg v0.4.7 // indirect
	golang.org/x/sys v0.42.0 // indirect
)

replace github.com/elk-language/elk => /repo
