// Package hx: helpers shared by the correspondence harnesses.
package hx

import (
	"bufio"
	"flag"
	"fmt"
	"math/big"
	"os"
	"runtime/debug"
	"strings"
)

// SplitMix64: every random choice of a stream derives from this one state.
type Rng struct{ s uint64 }

func NewRng(seed uint64) *Rng { return &Rng{s: seed} }
func (r *Rng) Next() uint64 {
	r.s += 0x9E3779B97F4A7C15
	z := r.s
	z = (z ^ (z >> 30)) * 0xBF58476D1CE4E5B9
	z = (z ^ (z >> 27)) * 0x94D049BB133111EB
	return z ^ (z >> 31)
}
func (r *Rng) Below(n int) int {
	if n <= 0 {
		return 0
	}
	return int(r.Next() % uint64(n))
}
func (r *Rng) Range(lo, hi int) int { return lo + r.Below(hi-lo+1) }
func (r *Rng) Chance(num, den int) bool { return r.Below(den) < num }
func Pick[T any](r *Rng, xs []T) T     { return xs[r.Below(len(xs))] }

// BigBits returns a uniformly random integer of at most `bits` bits, random sign.
func (r *Rng) BigBits(bits int) *big.Int {
	z := new(big.Int)
	for i := 0; i < (bits+63)/64; i++ {
		z.Lsh(z, 64)
		z.Or(z, new(big.Int).SetUint64(r.Next()))
	}
	z.Rsh(z, uint(((bits+63)/64)*64-bits))
	if r.Chance(1, 2) {
		z.Neg(z)
	}
	return z
}

// Boundary integers around powers of two, shared by several streams.
func (r *Rng) BoundaryInt() *big.Int {
	exps := []uint{0, 1, 7, 8, 15, 16, 24, 31, 32, 52, 53, 62, 63, 64, 65, 100, 127, 128}
	z := new(big.Int).Lsh(big.NewInt(1), Pick(r, exps))
	z.Add(z, big.NewInt(int64(r.Range(-3, 3))))
	if r.Chance(1, 2) {
		z.Neg(z)
	}
	if r.Chance(1, 12) {
		return big.NewInt(int64(r.Range(-3, 3)))
	}
	return z
}

// Flags common to all harness commands.
type Opts struct {
	Seed  uint64
	N     int
	Tier  string
	Input string // optional file with explicit cases (corpus / replay)
	Extra string
}

func ParseFlags() *Opts {
	o := &Opts{}
	flag.Uint64Var(&o.Seed, "seed", 1, "stream seed")
	flag.IntVar(&o.N, "n", 1000, "number of generated cases")
	flag.StringVar(&o.Tier, "tier", "quick", "quick|thorough")
	flag.StringVar(&o.Input, "input", "", "file with explicit case inputs, one per line")
	flag.StringVar(&o.Extra, "extra", "", "stream specific")
	flag.Parse()
	return o
}

// ReadInputs reads the explicit case inputs (lines; a leading "<id>\t" is stripped).
func ReadInputs(path string) []string {
	if path == "" {
		return nil
	}
	f, err := os.Open(path)
	if err != nil {
		return nil
	}
	defer f.Close()
	var out []string
	sc := bufio.NewScanner(f)
	sc.Buffer(make([]byte, 1<<20), 1<<26)
	for sc.Scan() {
		l := strings.TrimRight(sc.Text(), "\r\n")
		if l == "" || strings.HasPrefix(l, "#") {
			continue
		}
		parts := strings.Split(l, "\t")
		if len(parts) >= 2 {
			l = parts[1]
		}
		out = append(out, l)
	}
	return out
}

var out = bufio.NewWriterSize(os.Stdout, 1<<20)

// Emit writes one case line: id \t input \t observed
func Emit(id string, input string, observed string) {
	fmt.Fprintf(out, "%s\t%s\t%s\n", id, input, strings.ReplaceAll(observed, "\n", "\\n"))
}
func Flush() { out.Flush() }

// Guard runs f and converts a Go panic into the observable "panic <first line>".
func Guard(f func() string) (res string) {
	defer func() {
		if r := recover(); r != nil {
			msg := fmt.Sprint(r)
			if i := strings.IndexByte(msg, '\n'); i >= 0 {
				msg = msg[:i]
			}
			_ = debug.Stack
			res = "panic " + msg
		}
	}()
	return f()
}
