"""C31 — macro expansion is hygienic except where explicitly unhygienic.

Stream c31.prog: seeded macro bodies over a pool of three names (bind / read / assign locals, blocks,
`if`, nested macro calls, unhygienic splices of reads, assignments, declarations and prints), each called
from a scope that pre-defines EVERY subset of the pool (so every collision pattern between the body's
names and the call site occurs), with and without unhygienic splices.  For every program three things are
compared: (1) the macro program on the real `elk`, (2) the expansion written by hand - produced by the
extracted, proved `rename`/`expand_all` of Model/C31_Hygiene.v and printed as plain `do ... end` blocks
with renamed locals - on the real `elk`, (3) the extracted model (checker verdict = run Static, output =
run Dynamic).

Program representation = the s-expression fed to the model, nested Python lists of strings:
  expr  ['n', k] | ['v', x] | ['+', a, b] | ['u', e] | ['let', x, e] | ['set', x, e]   (binders/assignments as operands)
  stmt  'skip' | ['seq', s...] | ['let', x, e] | ['set', x, e] | ['ex', e] | ['pr', e] | ['blk', s] | ['if', c, t, e]
      | ['mac', s] | ['us', s]
Names are decimal strings; names < K (= 100) are source names, x + K*2^j are the renamings made by expand_all.
"""
import os
import re
import vlib

STREAM = "c31.prog"
K = 100
POOL = ["0", "1", "2"]
LETTERS = "abcdefghij"


# ------------------------------------------------------------------ s-expressions

def sx_parse(s):
    toks = re.findall(r"\(|\)|[^\s()]+", s)
    pos = [0]

    def item():
        t = toks[pos[0]]
        pos[0] += 1
        if t == "(":
            acc = []
            while toks[pos[0]] != ")":
                acc.append(item())
            pos[0] += 1
            return acc
        return t
    return item()


def sx_str(x):
    if isinstance(x, str):
        return x
    return "(" + " ".join(sx_str(y) for y in x) + ")"


def size(x):
    return 1 if isinstance(x, str) else sum(size(y) for y in x)


# ------------------------------------------------------------------ printing to Elk

def ident(x):
    n = int(x)
    base, k = n % K, n // K
    return LETTERS[base] + ("_%d" % k if k else "")


NILABLE = [False]   # printing mode of the c31.cond family: nil is encoded as 0, conditions test truthiness


def lit(x):
    return "nil" if NILABLE[0] and x == "0" else x


def plain_cond(c):
    """condition inside an unhygienic quote: markers dropped"""
    k = c[0]
    if k == "e":
        return plain_expr(c[1])
    if k == "not":
        return "!" + plain_cond(c[1])
    if k == "and":
        return "(%s && %s)" % (plain_cond(c[1]), plain_cond(c[2]))
    if k == "or":
        return "(%s || %s)" % (plain_cond(c[1]), plain_cond(c[2]))
    if k == "cu":
        return plain_cond(c[1])
    raise ValueError(c)


def plain_expr(e):
    """expression outside any quote (or inside an unhygienic quote): markers dropped"""
    k = e[0]
    if k == "n":
        return lit(e[1])
    if k == "v":
        return ident(e[1])
    if k == "+":
        return "(%s + %s)" % (plain_expr(e[1]), plain_expr(e[2]))
    if k == "u":
        return plain_expr(e[1])
    if k == "let":
        return "(%s := %s)" % (ident(e[1]), plain_expr(e[2]))
    if k == "set":
        return "(%s = %s)" % (ident(e[1]), plain_expr(e[2]))
    raise ValueError(e)


def stmts_of(s):
    if s == "skip":
        return []
    if s[0] == "seq":
        out = []
        for x in s[1:]:
            out += stmts_of(x)
        return out
    return [s]


class Printer:
    """prints a program; every ['mac', body] becomes a macro definition (deduplicated by body) + a call"""

    def __init__(self):
        self.macros = {}     # body sexpr -> name
        self.defs = []       # text of macro definitions in definition order (inner first)

    def macro_name(self, body):
        key = sx_str(body)
        if key in self.macros:
            return self.macros[key]
        splices = []
        lines = self.block(body, 2, splices)
        name = "m%d" % len(self.macros)
        self.macros[key] = name
        text = ["macro %s()" % name]
        for i, sp in enumerate(splices):
            text.append("  u%d := Macro.unhygienic(quote %s)" % (i, sp))
        text.append("  quote")
        text += lines
        text.append("  end")
        text.append("end")
        self.defs.append("\n".join(text))
        return name

    def expr(self, e, splices):
        """splices is None outside macro bodies (markers are dropped there)"""
        k = e[0]
        if k == "n":
            return lit(e[1])
        if k == "v":
            return ident(e[1])
        if k == "+":
            return "(%s + %s)" % (self.expr(e[1], splices), self.expr(e[2], splices))
        if k == "u":
            if splices is None:
                return self.expr(e[1], None)
            splices.append(plain_expr(e[1]))
            return "!{u%d}" % (len(splices) - 1)
        if k == "let":
            return "(%s := %s)" % (ident(e[1]), self.expr(e[2], splices))
        if k == "set":
            return "(%s = %s)" % (ident(e[1]), self.expr(e[2], splices))
        raise ValueError(e)

    def cond(self, c, splices):
        """a truthiness condition (c31.cond family); ['cu', c] is ONE unhygienic splice of the whole condition c"""
        k = c[0]
        if k == "e":
            return self.expr(c[1], splices)
        if k == "not":
            return "!" + self.cond(c[1], splices)
        if k == "and":
            return "(%s && %s)" % (self.cond(c[1], splices), self.cond(c[2], splices))
        if k == "or":
            return "(%s || %s)" % (self.cond(c[1], splices), self.cond(c[2], splices))
        if k == "cu":
            if splices is None:
                return self.cond(c[1], None)
            splices.append(plain_cond(c[1]))
            return "!{u%d}" % (len(splices) - 1)
        raise ValueError(c)

    def one_line(self, s):
        """statement printed on one line with all markers dropped (content of an unhygienic quote)"""
        k = s[0]
        if k == "let":
            return ("var %s: Int? = %s" if NILABLE[0] else "%s := %s") % (ident(s[1]), plain_expr(s[2]))
        if k == "set":
            return "%s = %s" % (ident(s[1]), plain_expr(s[2]))
        if k == "pr":
            return ('println("#{%s}")' if NILABLE[0] else "println(%s.inspect)") % plain_expr(s[1])
        if k == "ex":
            return plain_expr(s[1])
        if k == "mac":
            return "%s!()" % self.macro_name(s[1])
        if k == "us":
            return self.one_line(s[1])
        raise ValueError(s)

    def block(self, s, ind, splices):
        lines = []
        for x in stmts_of(s):
            lines += self.stmt(x, ind, splices)
        if not lines:
            lines = ["  " * ind + "nil"]
        return lines

    def stmt(self, s, ind, splices):
        p = "  " * ind
        k = s[0]
        if k == "let":
            return [p + ("var %s: Int? = %s" if NILABLE[0] else "%s := %s") % (ident(s[1]), self.expr(s[2], splices))]
        if k == "set":
            return [p + "%s = %s" % (ident(s[1]), self.expr(s[2], splices))]
        if k == "pr":
            return [p + ('println("#{%s}")' if NILABLE[0] else "println(%s.inspect)") % self.expr(s[1], splices)]
        if k.startswith("ifc."):
            form = k[4:]
            c = self.cond(s[1], splices)
            if form in ("if", "unless"):
                out = [p + "%s %s" % (form, c)] + self.block(s[2], ind + 1, splices)
                if stmts_of(s[3]):
                    out += [p + "else"] + self.block(s[3], ind + 1, splices)
                return out + [p + "end"]
            if form == "while":
                return [p + "while " + c] + self.block(s[2], ind + 1, splices) + [p + "end"]
            (one,) = stmts_of(s[2])
            text = self.stmt(one, 0, splices)[0]
            if form in ("modif", "modunless"):
                return [p + "%s %s %s" % (text, form[3:], c)]
            if one[0] == "set":
                text = "(" + text + ")"
            return [p + "%s %s %s" % (c, {"and": "&&", "or": "||", "nc": "??"}[form], text)]
        if k == "ex":
            return [p + self.expr(s[1], splices)]
        if k == "blk":
            return [p + "do"] + self.block(s[1], ind + 1, splices) + [p + "end"]
        if k == "if":
            out = [p + ("if %s" if NILABLE[0] else "if %s > 0") % self.expr(s[1], splices)] + self.block(s[2], ind + 1, splices)
            if stmts_of(s[3]):
                out += [p + "else"] + self.block(s[3], ind + 1, splices)
            return out + [p + "end"]
        if k == "mac":
            return [p + "%s!()" % self.macro_name(s[1])]
        if k == "us":
            if splices is None:
                return self.stmt(s[1], ind, None)
            splices.append(self.one_line(s[1]))
            return [p + "!{u%d}" % (len(splices) - 1)]
        raise ValueError(s)


def elk_program(prog, in_method, nilable=False):
    NILABLE[0] = nilable
    try:
        return elk_program1(prog, in_method)
    finally:
        NILABLE[0] = False


def elk_program1(prog, in_method):
    pr = Printer()
    body = pr.block(prog, 1 if in_method else 0, None)
    head = ["using Std::Elk::AST::*", ""] + pr.defs + [""]
    if in_method:
        return "\n".join(head + ["def main"] + body + ["end", "main()"]) + "\n"
    return "\n".join(head + body) + "\n"


# ------------------------------------------------------------------ generator

class Gen:
    def __init__(self, rng, unhyg, outer, binders=0):
        self.r = rng
        self.unhyg = unhyg          # allow unhygienic splices
        self.outer = list(outer)    # names the generator assumes the caller defines
        self.binders = binders      # chance (in tenths) that an expression binds / assigns in a nested position
        self.dist = {}

    def count(self, k):
        self.dist[k] = self.dist.get(k, 0) + 1

    def visible(self, scopes):
        out = []
        for f in scopes:
            for x in f:
                if x not in out:
                    out.append(x)
        return out

    def atom(self, scopes, outer, forced_unhyg):
        """forced_unhyg: we are inside an unhygienic quote: every read resolves through all frames"""
        inner = self.visible(scopes)
        c = self.r.below(10)
        if forced_unhyg:
            cands = inner + [x for x in outer if x not in inner]
            if cands and c < 7:
                return ["v", self.r.choice(cands)]
            if c == 9:
                return ["v", self.r.choice(POOL)]
            return ["n", str(self.r.below(9))]
        if self.unhyg and c < 3:
            cands = inner + [x for x in outer if x not in inner]
            if cands:
                self.count("unhyg_read")
                return ["u", ["v", self.r.choice(cands)]]
        if inner and c < 7:
            self.count("hyg_read")
            return ["v", self.r.choice(inner)]
        if c == 9 and self.r.chance(1, 3):
            self.count("wild_read")
            return ["v", self.r.choice(POOL)]      # may be unresolvable: the checker must reject
        return ["n", str(self.r.below(9))]

    def declare(self, scopes, x):
        if x not in scopes[-1]:
            scopes[-1].append(x)

    def binder(self, scopes, outer, forced_unhyg, depth):
        """an expression with `(x := e)` / `(x = e)` in a nested position; operands are generated left to right
        and a binder declares x in the CURRENT frame (scopes[-1] is mutated) for everything evaluated later"""
        c = self.r.below(12)
        init = lambda: (self.binder(scopes, outer, forced_unhyg, depth - 1) if depth > 0 and self.r.chance(1, 4)
                        else self.operand(scopes, outer, forced_unhyg))
        if c < 4:                                    # (x := e) + e'   -- e' usually reads x
            x = self.r.choice(POOL)
            self.count("expr_let_left")
            b = ["let", x, init()]
            self.declare(scopes, x)
            rest = ["v", x] if self.r.chance(2, 3) else self.atom(scopes, outer, forced_unhyg)
            return ["+", b, rest]
        if c < 6:                                    # e' + (x := e)
            x = self.r.choice(POOL)
            self.count("expr_let_right")
            left = self.atom(scopes, outer, forced_unhyg)
            b = ["let", x, init()]
            self.declare(scopes, x)
            return ["+", left, b]
        if c < 7:                                    # (x := (y := e))  as an operand / argument / condition
            x, y = self.r.choice(POOL), self.r.choice(POOL)
            self.count("expr_let_let")
            b = ["let", y, init()]
            self.declare(scopes, y)
            self.declare(scopes, x)
            return ["let", x, b]
        inner = self.visible(scopes)
        if c < 9 and inner:                          # (y = e) + e'  /  e' + (y = e)   on a local of the expansion
            y = self.r.choice(inner)
            self.count("expr_set")
            if self.r.chance(1, 2):
                b = ["set", y, init()]
                return ["+", b, self.atom(scopes, outer, forced_unhyg)]
            left = self.atom(scopes, outer, forced_unhyg)
            return ["+", left, ["set", y, init()]]
        if c < 10 and inner:                         # (x := (y = e))
            x, y = self.r.choice(POOL), self.r.choice(inner)
            self.count("expr_let_set")
            b = ["set", y, init()]
            self.declare(scopes, x)
            return ["let", x, b]
        if self.unhyg and not forced_unhyg:          # an unhygienic splice that assigns / binds: !{u} + e'
            cands = inner + [x for x in outer if x not in inner]
            if cands and self.r.chance(1, 2):
                self.count("expr_unhyg_set")
                return ["+", ["u", ["set", self.r.choice(cands), self.operand(scopes, outer, True)]],
                        self.atom(scopes, outer, forced_unhyg)]
            x = self.r.choice(POOL)
            self.count("expr_unhyg_let")
            b = ["u", ["let", x, self.operand(scopes, outer, True)]]
            self.declare(scopes, x)
            return ["+", b, ["v", x] if self.r.chance(1, 2) else self.atom(scopes, outer, forced_unhyg)]
        x = self.r.choice(POOL)
        self.count("expr_let_only")
        b = ["let", x, init()]
        self.declare(scopes, x)
        return ["+", b, ["n", str(self.r.below(9))]]

    def operand(self, scopes, outer, forced_unhyg):
        if self.r.chance(1, 3):
            return ["+", self.atom(scopes, outer, forced_unhyg), self.atom(scopes, outer, forced_unhyg)]
        return self.atom(scopes, outer, forced_unhyg)

    def expr(self, scopes, outer, forced_unhyg=False):
        if self.binders and self.r.below(10) < self.binders:
            return self.binder(scopes, outer, forced_unhyg, 1)
        return self.operand(scopes, outer, forced_unhyg)

    def single(self, scopes, outer):
        """an expansion that is ONE statement which is not itself a declaration: a println / an expression statement
        / a hygienic or unhygienic assignment whose operand binds"""
        c = self.r.below(10)
        e = self.binder(scopes, outer, False, 1)
        self.count("single_expression_body")
        if c < 5:
            return [["pr", e]]
        if c < 8:
            return [["ex", e]]
        if self.unhyg:
            cands = [x for x in outer]
            if cands:
                return [["us", ["set", self.r.choice(cands), self.binder(scopes, outer, True, 0)]]]
        return [["if", e, ["seq", ["pr", self.atom(scopes, outer, False)]], "skip"]]

    def body(self, scopes, outer, n, depth):
        """scopes: list of lists of names declared in the frames since the boundary (mutated)"""
        out = []
        for _ in range(n):
            c = self.r.below(100)
            inner = self.visible(scopes)
            if c < 30:
                x = self.r.choice(POOL)
                if self.unhyg and self.r.chance(1, 5):
                    self.count("unhyg_let")
                    out.append(["us", ["let", x, self.expr(scopes, outer, True)]])
                else:
                    self.count("let")
                    out.append(["let", x, self.expr(scopes, outer)])
                if x not in scopes[-1]:
                    scopes[-1].append(x)
            elif c < 50:
                if self.unhyg and self.r.chance(1, 2):
                    cands = inner + [x for x in outer if x not in inner]
                    if cands:
                        self.count("unhyg_set")
                        out.append(["us", ["set", self.r.choice(cands), self.expr(scopes, outer, True)]])
                        continue
                if inner:
                    self.count("set")
                    out.append(["set", self.r.choice(inner), self.expr(scopes, outer)])
                else:
                    self.count("pr")
                    out.append(["pr", self.expr(scopes, outer)])
            elif c < 72:
                if self.binders and self.r.chance(1, 4):
                    self.count("ex")
                    out.append(["ex", self.expr(scopes, outer)])
                elif self.unhyg and self.r.chance(1, 6):
                    self.count("unhyg_pr")
                    out.append(["us", ["pr", self.expr(scopes, outer, True)]])
                else:
                    self.count("pr")
                    out.append(["pr", self.expr(scopes, outer)])
            elif c < 81 and depth > 0:
                self.count("blk")
                scopes.append([])
                out.append(["blk", ["seq"] + self.body(scopes, outer, self.r.range(1, 3), depth - 1)])
                scopes.pop()
            elif c < 90 and depth > 0:
                self.count("if")
                scopes.append([])          # the frame of the condition: its binders are visible in both branches
                cond = self.expr(scopes, outer)
                scopes.append([])
                t = ["seq"] + self.body(scopes, outer, self.r.range(1, 2), depth - 1)
                scopes.pop()
                scopes.append([])
                e = ["seq"] + self.body(scopes, outer, self.r.range(0, 2), depth - 1) if self.r.chance(2, 3) else "skip"
                scopes.pop()
                scopes.pop()
                out.append(["if", cond, t, e])
            elif c < 97 and depth > 0:
                # nested macro call: its hygienic names start afresh; unhygienically it sees this expansion and the caller
                self.count("nested_mac")
                vis = inner + [x for x in outer if x not in inner]
                inner_body = ["seq"] + self.body([[]], vis, self.r.range(1, 3), depth - 1)
                if self.unhyg and self.r.chance(1, 4):
                    self.count("unhyg_nested_mac")
                    out.append(["us", ["mac", inner_body]])
                else:
                    out.append(["mac", inner_body])
            else:
                self.count("wild_pr")
                out.append(["pr", ["v", self.r.choice(POOL)]])
        return out


def names_of(x, acc):
    if isinstance(x, str):
        return
    if x[0] in ("v",):
        acc.add(x[1])
    elif x[0] in ("let", "set"):
        acc.add(x[1])
        names_of(x[2], acc)
    else:
        for y in x[1:]:
            names_of(y, acc)


def gen_family(rng, idx):
    """one macro body and its call sites: every subset of the pool pre-defined by the caller.
    -> list of (suffix, program, in_method), dist"""
    unhyg = idx % 2 == 1
    outer = [x for x in POOL if rng.chance(1, 2)]
    # family kinds (idx mod 3): 0 = the expansion is ONE non-declaration statement whose expression binds;
    # 1 = 1..5 statements, binders/assignments in nested expression positions; 2 = first-generation bodies
    kind = idx % 3
    g = Gen(rng, unhyg, outer, binders=(0, 5, 0)[kind] if kind else 10)
    if kind == 0:
        body = ["seq"] + g.single([[]], outer)
    elif kind == 1:
        body = ["seq"] + g.body([[]], outer, rng.range(1, 5), 2)
    else:
        body = ["seq"] + g.body([[]], outer, rng.range(2, 5), 2)
    twice = rng.chance(1, 3)
    site = rng.below(4)            # 0 plain, 1 inside do-block, 2 inside if-branch, 3 caller declares in a block around
    if kind == 0:
        site = (0, 3, 0, 1, 3, 2)[(idx // 3) % 6]
    in_method = rng.chance(1, 3)
    probe = rng.chance(1, 6)       # read a body-only name after the call: must be rejected unless the caller defines it
    progs = []
    for mask in range(8):
        pre = [POOL[i] for i in range(3) if mask >> i & 1]
        head = [["let", x, ["n", str(10 * (int(x) + 1))]] for x in pre]
        call = [["mac", body]] + ([["mac", body]] if twice else [])
        tail = [["pr", ["v", x]] for x in pre]
        if probe:
            tail.append(["pr", ["v", POOL[(mask + idx) % 3]]])
        if site == 1:
            mid = [["blk", ["seq"] + call]]
        elif site == 2:
            c = ["v", pre[0]] if pre else ["n", "1"]
            mid = [["if", ["+", c, ["n", "1"]], ["seq"] + call, "skip"]]
        elif site == 3:
            mid = [["blk", ["seq", ["let", POOL[idx % 3], ["n", "77"]]] + call + [["pr", ["v", POOL[idx % 3]]]]]]
        else:
            mid = call
        progs.append(("s%d" % mask, ["seq"] + head + mid + tail, in_method))
    g.dist["family_unhyg" if unhyg else "family_hyg"] = 1
    g.dist["family_kind_%s" % ("single_expression", "nested_binders", "statements_only")[kind]] = 1
    g.dist["site_%d" % site] = 1
    return progs, g.dist


# ------------------------------------------------------------------ c31.cond family: unhygienic splices as CONDITIONS
# stmt  [ifc.<form>, cond, t, e]   form: if | unless | while | modif | modunless | and | or | nc
# cond  ['e', expr] | ['not', c] | ['and', c, c] | ['or', c, c] | ['cu', c]      (cu = one unhygienic splice of c)
# All locals are `Int?` (caller: `var a: Int? = 41` / `= nil`; expansion: `var x: Int? = 5`); nil is the model's 0, literals are
# positive, so truthiness = the model's `> 0`.  No `+` (not defined on Int?), prints are `println("#{x}")`.

COND_FORMS = ("if", "ifelse", "unless", "unlesselse", "while", "modif", "modunless", "and", "or", "nc")
NEGATED_FORMS = ("unless", "modunless", "or", "nc")


def uses_ifc(x):
    if isinstance(x, str):
        return x.startswith("ifc")
    return any(uses_ifc(y) for y in x)


def has_unhyg_cond(x):
    if isinstance(x, str):
        return False
    if x[0].startswith("ifc") if isinstance(x[0], str) else False:
        return has_unhyg_operand(x[1]) or "cu" in sx_str(x[1]).replace("(", " ").split() or any(has_unhyg_cond(y) for y in x[2:])
    return any(has_unhyg_cond(y) for y in x[1:])


def to_model(x):
    """the program in the syntax of the model driver: every conditional form becomes (ifc c t e)"""
    if isinstance(x, str):
        return x
    if isinstance(x[0], str) and x[0].startswith("ifc."):
        form = x[0][4:]
        c = x[1]
        if form in NEGATED_FORMS:
            c = ["not", c]
        return ["ifc", c, to_model(x[2]), to_model(x[3])]
    return [to_model(y) for y in x]


def cond_names(c, acc):
    if c[0] == "e":
        names_of(c[1], acc)
    else:
        for y in c[1:]:
            cond_names(y, acc)
    return acc


def gen_cond_family(rng, idx):
    """one macro body whose conditional has a condition that is / contains unhygienic splices of caller identifiers, with
    hygienic and unhygienic reads / assignments of the pool's names in the guarded region and after it; called from
    scopes pre-defining every subset of the pool as nilable locals.  -> list of (suffix, program, in_method), dist"""
    dist = {}
    form = COND_FORMS[idx % len(COND_FORMS)]
    a, b = pick2(rng)
    leaf = lambda x: ["e", ["v", x]]
    shapes = [
        ("splice", ["cu", leaf(a)]),
        ("not-splice", ["not", ["cu", leaf(a)]]),
        ("splice-of-not", ["cu", ["not", leaf(a)]]),
        ("splice-of-and", ["cu", ["and", leaf(a), leaf(b)]]),
        ("and-of-splices", ["and", ["cu", leaf(a)], ["cu", leaf(b)]]),
        ("splice-of-or", ["cu", ["or", leaf(a), leaf(b)]]),
        ("or-of-splices", ["or", ["cu", leaf(a)], ["cu", leaf(b)]]),
        ("splice-and-hygienic", ["and", ["cu", leaf(a)], leaf(b)]),
        ("not-splice-of-and", ["not", ["cu", ["and", leaf(a), leaf(b)]]]),
        ("expr-splice", ["e", ["u", ["v", a]]]),
    ]
    if form == "while":
        shapes = [sh for sh in shapes if sh[0] in ("splice", "splice-of-and", "and-of-splices", "expr-splice")]
    if form == "nc":
        shapes = [sh for sh in shapes if sh[0] in ("splice", "expr-splice", "splice-of-or", "or-of-splices")]
    sname, cond = shapes[(idx // len(COND_FORMS) + rng.below(len(shapes))) % len(shapes)]
    cn = sorted(cond_names(cond, set()))
    dist["form_" + form] = 1
    dist["cond_" + sname] = 1

    # 2 of 5 families are "leaky": hygienic uses of names the expansion does not declare (must be rejected); the others
    # use hygienically only the locals the expansion declares (accepted when the caller defines what the splices read)
    leaky = (idx + idx // len(COND_FORMS)) % 5 in (1, 3)
    dist["family_hygienic_use_of_undeclared_name" if leaky else "family_hygienic_uses_declared_only"] = 1
    if leaky:
        bound = [rng.choice(POOL)] if rng.chance(1, 3) else []
    else:
        bound = [rng.choice(cn)] if rng.chance(1, 2) else [rng.choice(POOL)]
        if rng.chance(1, 3):
            bound.append(rng.choice([x for x in POOL if x not in bound]))

    def name():
        if not leaky:
            return rng.choice(bound)
        return rng.choice(cn) if rng.chance(3, 4) else rng.choice(POOL)

    def use(hyg_only=False, expr_only=False):
        c = rng.below(10)
        if c < 4:
            dist["hyg_read_in_region"] = dist.get("hyg_read_in_region", 0) + 1
            return ["pr", ["v", name()]]
        if c < 7:
            dist["hyg_assign_in_region"] = dist.get("hyg_assign_in_region", 0) + 1
            return ["set", name(), ["n", str(rng.range(1, 9))]]
        if hyg_only:
            return ["pr", ["v", name()]]
        dist["unhyg_read_in_region"] = dist.get("unhyg_read_in_region", 0) + 1
        return ["us", ["pr", ["v", rng.choice(cn) if rng.chance(3, 4) else rng.choice(POOL)]]]

    body = []
    for y in bound:
        dist["expansion_binds_a_name"] = dist.get("expansion_binds_a_name", 0) + 1
        body.append(["let", y, ["n", str(rng.range(1, 9))]])
    single = form in ("modif", "modunless", "and", "or", "nc")
    t = [use(hyg_only=True)] + ([] if single or rng.chance(1, 2) else [use()])
    if form == "while":
        t.append(["us", ["set", a, ["n", "0"]]])
    e = "skip"
    if form in ("ifelse", "unlesselse"):
        e = ["seq", use()] + ([use()] if rng.chance(1, 3) else [])
    head = {"ifelse": "if", "unlesselse": "unless"}.get(form, form)
    body.append(["ifc." + head, cond, ["seq"] + t, e])
    for _ in range(rng.below(3)):
        dist["use_after_conditional"] = dist.get("use_after_conditional", 0) + 1
        body.append(use())
    body = ["seq"] + body
    in_method = rng.chance(1, 3)
    nil_name = rng.choice(POOL) if rng.chance(1, 2) else None
    progs = []
    for mask in range(8):
        pre = [POOL[i] for i in range(3) if mask >> i & 1]
        headl = [["let", x, ["n", "0" if x == nil_name else str(41 + int(x))]] for x in pre]
        tail = [["pr", ["v", x]] for x in pre]
        progs.append(("s%d" % mask, ["seq"] + headl + [["mac", body]] + tail, in_method))
    return progs, dist


def pick2(rng):
    a = rng.choice(POOL)
    b = rng.choice([x for x in POOL if x != a])
    return a, b


# ------------------------------------------------------------------ features (canonical classes of known defect shapes)

def has_unhyg_operand(x, parent=None):
    """an unhygienic splice used where the compiler asks IsStatic of it (operand of +, receiver of .inspect, condition)"""
    if isinstance(x, str):
        return False
    if x[0] == "u":
        return True
    return any(has_unhyg_operand(y) for y in x[1:])


def has_unhyg_stmt(x):
    if isinstance(x, str):
        return False
    if x[0] == "us":
        return True
    return any(has_unhyg_stmt(y) for y in x[1:])


def has_expr_binder(x, stmt_pos=True):
    """a `x := e` / `x = e` that is not itself a statement (operand, println argument, condition, initialiser)"""
    if isinstance(x, str):
        return False
    k = x[0]
    if k in ("let", "set"):
        return (not stmt_pos) or has_expr_binder(x[2], False)
    if k in ("seq", "blk", "mac", "us"):
        return any(has_expr_binder(y, True) for y in x[1:])
    if k == "if":
        return has_expr_binder(x[1], False) or has_expr_binder(x[2], True) or has_expr_binder(x[3], True)
    if k in ("pr", "ex", "+", "u"):
        return any(has_expr_binder(y, False) for y in x[1:])
    return False


def single_expression_expansion(x):
    """some macro body is ONE statement that is not a declaration / assignment statement"""
    if isinstance(x, str):
        return False
    if x[0] == "mac":
        ss = stmts_of(x[1])
        if len(ss) == 1 and ss[0][0] in ("pr", "ex", "us") and has_expr_binder(ss[0]):
            return True
    return any(single_expression_expansion(y) for y in x[1:])


def shadowing_decl(x, frames=None):
    """a declaration `x := e` whose initialiser reads x while x is not a local of the current frame"""
    frames = [[]] if frames is None else frames
    if isinstance(x, str):
        return False
    k = x[0]
    if k == "seq":
        return any(shadowing_decl(y, frames) for y in x[1:])
    if k == "let":
        acc = set()
        names_of(x[2], acc)
        hit = x[1] in acc and x[1] not in frames[-1]
        if x[1] not in frames[-1]:
            frames[-1].append(x[1])
        return hit
    if k in ("blk", "mac"):
        return shadowing_decl(x[1], frames + [[]])
    if k == "if":
        return shadowing_decl(x[2], frames + [[], []]) or shadowing_decl(x[3], frames + [[], []])
    if k == "us":
        return shadowing_decl(x[1], frames)
    return False


# ------------------------------------------------------------------ running and comparing

def observe(res, nil_ok=False):
    """(rc, out, cls) of an elk run -> ('A', [ints]) | ('R', reasons) | ('X', description)"""
    rc, out, cls = res
    if cls in ("go_panic", "go_fatal", "signal", "timeout"):
        if "stack overflow" in out and "UnhygienicNode).IsStatic" in out:
            return "X", "go_fatal:UnhygienicNode.IsStatic-infinite-recursion"
        m = re.search(r"panic: ([^\n]*)", out)
        return "X", cls + ":" + re.sub(r"0x[0-9a-f]+|\d+", "N", (m.group(1) if m else "?"))[:70]
    if "[FAIL]" in out:
        reasons = sorted(set(re.sub(r"`[^`]*`", "`..`", r) for r in re.findall(r"\[FAIL\] ([^\n]*)", out)))
        return "R", reasons
    if rc != 0:
        return "X", "elk_error:" + (out.strip().splitlines()[-1][:70] if out.strip() else "empty")
    vals = []
    for l in out.splitlines():
        l = l.strip()
        if re.fullmatch(r"-?\d+", l):
            vals.append(int(l))
        elif nil_ok and l == "nil":
            vals.append(0)
        elif l:
            return "X", "output:unparsable:" + l[:40]
    return "A", vals


EXPECTED_REASONS = ("undefined local `..`", "no overload of `..` matches the given arguments")


def run_cases(ctx, elk, m, cases, tag, STREAM=STREAM):
    """cases: list of (cid, program, in_method). Returns stats."""
    ids = [c[0] for c in cases]
    inputs = {c[0]: "%d %s" % (K, sx_str(to_model(c[1]))) for c in cases}
    rc, exp, mout = vlib.run_model(m, ids, inputs)
    if rc != 0:
        ctx.broke("correspondence %s: model driver exited %d" % (STREAM, rc), mout[-2000:])
    st = dict(programs=0, accepted=0, rejected=0, crashes=0, mismatches=0, printed=0, distinct=set(),
              reject_reasons={}, elk_runs=0)
    progs = []
    model = {}
    for cid, prog, in_method in cases:
        e = exp.get(cid)
        if e is None or e.startswith("bad-input"):
            ctx.broke("correspondence %s: model gave no answer for %s (%s)" % (STREAM, inputs[cid], e))
            continue
        v, o, expanded, v2, o2 = e.split(";")
        if (v, o) != (v2, o2) or o == "!":
            ctx.broke("model self-check: expand_all changed the model's own observables or Static accepted a program "
                      "Dynamic cannot run", "%s -> %s" % (inputs[cid], e))
            continue
        model[cid] = (v, [int(x) for x in o.split()] if v == "A" else None, sx_parse(expanded))
        progs.append((cid + "_m", elk_program(prog, in_method, uses_ifc(prog))))
        progs.append((cid + "_h", elk_program(model[cid][2], in_method, uses_ifc(prog))))
    res = vlib.run_programs(elk, progs, os.path.join(ctx.workdir, tag), timeout=90, env={"GOMAXPROCS": "4"})
    slow = [(pid, src) for pid, src in progs if res[pid][2] == "timeout"]
    if slow:
        res.update(vlib.run_programs(elk, slow, os.path.join(ctx.workdir, tag + "_slow"), workers=2, timeout=300,
                                     env={"GOMAXPROCS": "4"}))
    st["elk_runs"] = len(progs)
    srcs = dict(progs)
    fails = []
    for cid, prog, in_method in cases:
        if cid not in model:
            continue
        st["programs"] += 1
        st["distinct"].add(inputs[cid] + ("#m" if in_method else ""))
        mv, mo, expanded = model[cid]
        om = observe(res[cid + "_m"], uses_ifc(prog))
        oh = observe(res[cid + "_h"], uses_ifc(prog))
        if mv == "A":
            st["accepted"] += 1
            st["printed"] += len(mo)
        else:
            st["rejected"] += 1
        for o in (om, oh):
            if o[0] == "R":
                for r in o[1]:
                    st["reject_reasons"][r] = st["reject_reasons"].get(r, 0) + 1
        want = ("A", mo) if mv == "A" else ("R", None)

        def agrees(o):
            return o[0] == want[0] and (o[0] == "R" or o[1] == want[1])
        bad = []
        if not agrees(om):
            bad.append(("macro program vs model", om))
        if not agrees(oh):
            bad.append(("hand expansion vs model", oh))
        if (om[0], om[1] if om[0] != "R" else None) != (oh[0], oh[1] if oh[0] != "R" else None):
            bad.append(("macro program vs hand expansion (both on elk)", om))
        for o in (om, oh):
            # a rejection must be about an unresolvable name; follow-up diagnostics of the same program (an untyped
            # local assigned later...) are not compared: only the verdict is the property's observable
            if o[0] == "R" and not any(r in EXPECTED_REASONS for r in o[1]):
                bad.append(("unexpected diagnostic " + o[1][0], o))
        if not bad:
            continue
        st["mismatches"] += 1
        if "X" in (om[0], oh[0]):
            st["crashes"] += 1
        # canonical class
        crash = [o[1] for o in (om, oh) if o[0] == "X"]
        if any("IsStatic" in c for c in crash):
            key = "unhygienic-operand:UnhygienicNode.IsStatic-infinite-recursion"
        elif has_unhyg_cond(prog) and mv == "R" and om[0] == "A" and oh[0] == "R":
            key = "unhygienic-condition:hygienic-name-in-guarded-region-resolves-caller-local:accepted"
        elif shadowing_decl(prog):
            key = "declaration-initialiser-reads-shadowed-outer-local:compiler-defines-local-first"
        elif has_unhyg_stmt(prog) and om != oh:
            key = "unhygienic-statement:value-stack-imbalance"
        elif bad[0][0].startswith("unexpected diagnostic"):
            key = "diagnostic:" + re.sub(r"[^A-Za-z]+", "-", bad[0][0])[:60]
        elif crash:
            key = "crash:" + crash[0]
        else:
            key = "mismatch:" + ("verdict" if (om[0] != want[0] or oh[0] != want[0]) else "output") + \
                (":unhygienic" if has_unhyg_operand(prog) or has_unhyg_stmt(prog) else ":hygienic") + \
                (":single-expression-expansion-binds" if single_expression_expansion(prog)
                 else ":binder-in-expression" if has_expr_binder(prog) else "")
        what = "%s: model %s %s; macro program on elk %s; hand expansion on elk %s" % (
            bad[0][0], mv, mo, om, oh)
        fails.append((size(prog), key, what, cid, prog, om, oh, mv, mo, in_method))
    fails.sort(key=lambda f: f[0])
    for sz, key, what, cid, prog, om, oh, mv, mo, in_method in fails:
        ctx.fail(key, what + "\n--- macro program ---\n" + srcs[cid + "_m"] + "--- hand expansion ---\n" + srcs[cid + "_h"],
                 stream=STREAM, case="%d %s%s" % (K, sx_str(prog), " #method" if in_method else ""),
                 impl={"macro": om, "hand": oh}, model={"verdict": mv, "output": mo},
                 oracle="verdict and output of the macro program, of its hand-written renamed expansion and of the proved "
                        "scope model must coincide")
    return st


# ------------------------------------------------------------------ c31.uninit: declared-but-uninitialised caller locals
# (`var x: Int`) are NOT in the Coq model (its locals always carry a value).  Implementation-level property oracle only:
# an expansion that never declares x and contains no unhygienic splice must not be able to assign the caller's x, and a
# `x := e` of the expansion is a local of the expansion whatever the caller declares.

UNINIT_STREAM = "c31.uninit"
# name -> (macro prelude lines, quoted body lines, expected verdict, expected output, key of the class)
UNINIT_TEMPLATES = {
    "if-assign": ([], ["if true", "  {x} = 5", "end"], "R", None,
                  "uninitialised-caller-local:hygienic-assignment-in-conditional-accepted"),
    "if-else-assign": ([], ["if true", "  {x} = 5", "else", "  {x} = 6", "end"], "R", None,
                       "uninitialised-caller-local:hygienic-assignment-in-conditional-accepted"),
    "cond-local-if-else-assign": ([], ["{k} := 1", "if {k} > 0", "  {x} = 5", "else", "  {x} = 6", "end", "nil"], "R", None,
                                  "uninitialised-caller-local:hygienic-assignment-in-conditional-accepted"),
    "if-else-declare": ([], ["if true", "  {x} := 5", "else", "  {x} := 6", "end"], "R!", None,
                        "uninitialised-caller-local:hygienic-declaration-in-conditional-treated-as-assignment"),
    "unhygienic-if-else-assign": (["u0 := Macro.unhygienic(quote {x} = 5)"],
                                  ["if true", "  !{{u0}}", "else", "  !{{u0}}", "end"], "A", [5],
                                  "uninitialised-caller-local:unhygienic-assignment-rejected"),
    "own-local-if-assign": ([], ["{x} := 5", "if true", "  {x} = 6", "end", "println({x}.inspect)"], "A", [6, 1],
                            "uninitialised-caller-local:own-local-of-the-expansion"),
}


def uninit_programs(tmpl, x, site):
    """-> (macro program, hand expansion with the expansion's names renamed)"""
    prelude, body, want, out, key = UNINIT_TEMPLATES[tmpl]
    k = [n for n in "abc" if n != x][0]
    ind = "  " if site == "method" else ""
    # tail of the caller: R templates are followed by a legal initialisation + read (so the only possible diagnostic is
    # the expansion's); "R!" reads the still uninitialised caller local (the expansion declared its OWN x)
    if want == "R!":
        tail = ["println(%s.inspect)" % x]
    elif tmpl == "unhygienic-if-else-assign":
        tail = ["println(%s.inspect)" % x]
    else:
        tail = ["%s = 1" % x, "println(%s.inspect)" % x]
    head = ["var %s: Int" % x]

    def wrap(lines):
        if site == "method":
            return ["def main"] + ["  " + l for l in lines] + ["end", "main()"]
        return lines
    mac = ["using Std::Elk::AST::*", "", "macro m()"] + ["  " + l.format(x=x, k=k) for l in prelude] + ["  quote"] + \
        ["    " + l.format(x=x, k=k) for l in body] + ["  end", "end", ""] + wrap(head + ["m!()"] + tail)
    if tmpl == "unhygienic-if-else-assign":
        hbody = ["if true", "  %s = 5" % x, "else", "  %s = 5" % x, "end"]
    else:
        hbody = [l.format(x=x + "_1", k=k + "_1") for l in body]
    hand = wrap(head + ["do"] + ["  " + l for l in hbody] + ["end"] + tail)
    return "\n".join(mac) + "\n", "\n".join(hand) + "\n"


def run_uninit(ctx, elk):
    rng = ctx.rng(UNINIT_STREAM)
    cases = []
    path = os.path.join(vlib.ROOT, "corpus", "C31.uninit.txt")
    if os.path.exists(path):
        for line in open(path):
            line = line.strip()
            if line and not line.startswith("#"):
                t, x, site = line.split()
                cases.append((t, x, site))
    ncorpus = len(cases)
    for t in sorted(UNINIT_TEMPLATES):
        for site in ("top", "method"):
            names = "abc" if ctx.n(0, 1) else rng.choice("abc")
            for x in names:
                if (t, x, site) not in cases:
                    cases.append((t, x, site))
    progs = []
    for i, (t, x, site) in enumerate(cases):
        m, h = uninit_programs(t, x, site)
        progs += [("u%d_m" % i, m), ("u%d_h" % i, h)]
    res = vlib.run_programs(elk, progs, os.path.join(ctx.workdir, "uninit"), timeout=90, env={"GOMAXPROCS": "4"})
    srcs = dict(progs)
    bad = 0
    dist = {}
    for i, (t, x, site) in enumerate(cases):
        prelude, body, want, out, key = UNINIT_TEMPLATES[t]
        om, oh = observe(res["u%d_m" % i]), observe(res["u%d_h" % i])
        dist[t] = dist.get(t, 0) + 1
        why = None
        if want in ("R", "R!"):
            for who, o in (("macro program", om), ("hand expansion", oh)):
                if o[0] != "R":
                    why = "%s must be rejected, elk gave %s" % (who, o)
                elif want == "R" and "undefined local `..`" not in o[1]:
                    why = "%s rejected without `undefined local`: %s" % (who, o)
                if why:
                    break
        else:
            for who, o in (("macro program", om), ("hand expansion", oh)):
                if o != ("A", out):
                    why = "%s must print %s, elk gave %s" % (who, out, o)
                    break
        if why:
            bad += 1
            ctx.fail(key, "template %s, caller local `%s` declared with `var %s: Int` and not initialised, %s: %s\n"
                     "--- macro program ---\n%s--- hand expansion ---\n%s" % (t, x, x, site, why, srcs["u%d_m" % i], srcs["u%d_h" % i]),
                     stream=UNINIT_STREAM, case="%s %s %s" % (t, x, site), impl={"macro": om, "hand": oh},
                     model={"expected_verdict": want, "expected_output": out},
                     oracle="property evaluated on the implementation only (uninitialised locals are not in the Coq model): "
                            "without an unhygienic splice an expansion cannot assign a caller local, `x := e` in an expansion "
                            "is a local of the expansion; the hand expansion with renamed locals must agree")
    ctx.stream(UNINIT_STREAM, len(cases), len(set(cases)),
               "caller declares `var x: Int` without initialising it (top level / method body, x over 3 names) and calls a "
               "macro from %d templates: hygienic `x = e` under if / if-else / if with a macro-local condition (must be "
               "rejected: undefined local), hygienic `x := e` in both branches followed by a caller read (must be rejected: "
               "the caller's x is still uninitialised), and two accepted controls (unhygienic assignment reaches the caller; "
               "an expansion with its own x); the macro program and its hand expansion (expansion's names renamed) are run "
               "on elk; implementation-level oracle, no model" % len(UNINIT_TEMPLATES),
               [{"template": t, "name": x, "site": site} for t, x, site in cases[:3]],
               dict(templates=dist, programs=len(cases), elk_runs=len(progs), failing_programs=bad, corpus_programs=ncorpus))


COND_STREAM = "c31.cond"


def run_cond(ctx, elk, m):
    rng = ctx.rng(COND_STREAM)
    corpus = load_corpus(os.path.join(vlib.ROOT, "corpus", "C31.cond.txt"))
    nfam = ctx.n(20, 200)
    cases, dist = [], {}
    for i in range(nfam):
        progs, d = gen_cond_family(rng, i)
        for k, v in d.items():
            dist[k] = dist.get(k, 0) + v
        for suffix, prog, in_method in progs:
            cases.append(("c%d%s" % (i, suffix), prog, in_method))
    st_c = run_cases(ctx, elk, m, corpus, "cond_corpus", COND_STREAM) if corpus else None
    st = run_cases(ctx, elk, m, cases, "cond_gen", COND_STREAM)
    tot = lambda k: st[k] + (st_c[k] if st_c else 0)
    ctx.stream(COND_STREAM, tot("programs"), len(st["distinct"] | (st_c["distinct"] if st_c else set())),
               "seeded macro bodies over 3 nilable names (`var a: Int? = 41` / `= nil`; nil is the model's 0, truthiness is "
               "the model's > 0) made of an optional local of the expansion, ONE conditional and 0-2 uses after it; the "
               "conditional cycles through if / if-else / unless / unless-else / while (body ends with an unhygienic `a = nil`, "
               "so it runs at most once) / `s if c` / `s unless c` / `c && s` / `c || s` / `c ?? s`, its condition through 10 "
               "shapes that are or contain unhygienic splices of caller identifiers (!{u a}, !!{u a}, !{u !a}, !{u a && b}, "
               "!{u a} && !{u b}, !{u a || b}, !{u a} || !{u b}, !{u a} && b, !!{u a && b}); the guarded region and the code "
               "after it read (println) and assign the condition's names (3/4) or any pool name HYGIENICALLY, plus unhygienic "
               "reads; each body is called from a scope (top level or method) pre-defining every subset of the 3 names. "
               "Expected verdict and output come from the extracted model (Model/C31_Cond.v ifc compiled to the scope "
               "model's SIf; C31_unhyg_condition_no_leak); evaluation = one program for which the macro version on elk, the "
               "hand expansion (extracted expand_all, nested plain ifs with renamed locals) on elk and the model are "
               "compared on verdict and printed values; non-trivial = distinct program text",
               [{"program": sx_str(p), "in_method": im} for _, p, im in cases[:3]],
               dict(constructs=dist, programs=tot("programs"), model_accepted=tot("accepted"),
                    model_rejected=tot("rejected"), values_compared=tot("printed"), elk_runs=tot("elk_runs"),
                    mismatching_programs=tot("mismatches"), crashing_programs=tot("crashes"),
                    reject_reasons=st["reject_reasons"], corpus_programs=(st_c["programs"] if st_c else 0)))
    if st["programs"] and st["accepted"] * 10 < st["programs"]:
        ctx.broke("correspondence %s: fewer than 10%% of the generated programs are accepted by the model (%d of %d)"
                  % (COND_STREAM, st["accepted"], st["programs"]))


def load_corpus(path):
    out = []
    if os.path.exists(path):
        for n, line in enumerate(open(path)):
            line = line.strip()
            if not line or line.startswith("#"):
                continue
            in_method = line.endswith("#method")
            if in_method:
                line = line[:-len("#method")].strip()
            k, prog = line.split(" ", 1)
            out.append(("k%d" % n, sx_parse(prog), in_method))
    return out


def run(ctx):
    ctx.explanation = (
        "Proved in Coq for ALL environments, flags and programs of the scope model (Model/C31_Hygiene.v: the local-"
        "environment chain of types/checker/local.go with default / macro-boundary / conditional frames, add, get, "
        "resolve(name, unhygienic), and a language whose EXPRESSIONS bind and assign - (x := e), (x = e) as operands of "
        "+, println arguments, if conditions and initialisers, evaluated left to right with the environment threaded "
        "through - with expression statements, println, do-blocks, if, macro boundaries, unhygienic expression and "
        "statement splices, in a checker mode that visits every branch and an execution mode; an expansion may be ONE "
        "expression): locals of an expansion are unresolvable after it; hygienic resolution below a boundary never reaches "
        "past it and a body without unhygienic splices returns the caller's environment unchanged, and evaluating "
        "a single splice-free expression below a boundary (binders at any depth) changes nothing beyond the boundary frame; "
        "a binder touches the current frame only; caller locals are "
        "reached exactly by unhygienic resolution; a boundary is equal (verdict, output, final caller environment) to "
        "a plain block around the body with the expansion's locals renamed by any fresh injective renaming, and so is the "
        "whole program with every boundary expanded that way (expand_all); a program "
        "accepted by the checker mode never meets an unresolved name in the execution mode; a conditional whose condition "
        "is or contains unhygienic splices (Model/C31_Cond.v: truthiness, !, &&, ||, unhygienic splice of a condition, "
        "compiled to nested SIf) does not make a name the expansion does not declare resolvable in its branches or "
        "after it: a hygienic read / assignment of such a name in the guarded region is rejected whatever the caller "
        "defines (C31_unhyg_condition_no_leak; stream c31.cond runs if / unless / while / modifier / && / || / ?? forms "
        "with nilable locals - the surface forms are mapped to the model's conditional by the generator, nil is the "
        "model's 0, narrowing of types is not modelled). NOT proved: "
        "that types/checker and the bytecode compiler implement this model - that is compared on every run by executing "
        "seeded macro programs with systematically colliding names, and their hand-written expansions produced by the "
        "extracted `expand_all` (proved equal to the macro program on the model, C31_expand_all_equiv; the driver also "
        "re-checks that on the model for every case), with the real elk binary (three-way comparison with the "
        "extracted model). Not modelled: macro parameters/unquoted arguments (an argument spliced with "
        "unquote is part of the expansion and resolves hygienically, by design), type and pattern macros, closures and "
        "methods inside expansions, loops, declared-but-uninitialised locals (`var x: Int`): for those the stream "
        "c31.uninit is an implementation-level property oracle only (no model): template macros that hygienically assign "
        "or declare a name the caller declared without initialising must be rejected / must not touch the caller's local, "
        "macro program and renamed hand expansion both run on elk.")
    ctx.trusted_base += [
        "Python generator and the two printers (macro program / plain program) in checks/C31.py",
        "the correspondence between checker frames and compiler scopes is tested, not proved",
    ]
    ctx.run_proof_gate()
    elk = vlib.build_elk()
    m = vlib.build_model_exact("C31")
    rng = ctx.rng(STREAM)
    corpus = load_corpus(os.path.join(vlib.ROOT, "corpus", "C31.prog.txt"))
    nfam = ctx.n(10, 150)
    cases = []
    dist = {}
    for i in range(nfam):
        progs, d = gen_family(rng, i)
        for k, v in d.items():
            dist[k] = dist.get(k, 0) + v
        for suffix, prog, in_method in progs:
            cases.append(("g%d%s" % (i, suffix), prog, in_method))
    st_c = run_cases(ctx, elk, m, corpus, "corpus") if corpus else None
    st = run_cases(ctx, elk, m, cases, "gen")
    samples = [{"program": sx_str(p), "in_method": im} for _, p, im in cases[:3]]
    tot = lambda k: st[k] + (st_c[k] if st_c else 0)
    ctx.stream(STREAM, tot("programs"), len(st["distinct"] | (st_c["distinct"] if st_c else set())),
               "seeded macro bodies over 3 names in three family kinds: (a) the expansion is ONE statement that is not a "
               "declaration - println / expression statement / unhygienic assignment / if whose expression binds in a nested "
               "position: (x := e) + x, e + (x := e), (x := (y := e)), (y = e) + e, !{unhygienic (x = e)} + e; (b) 1-5 "
               "statements with such binder expressions as operands, println arguments, if conditions and initialisers; "
               "(c) 2-5 statements, binders as statements only; all with nesting <= 2 of x := e, x = e, println, do, if, "
               "nested macro call; odd families add unhygienic reads / assignments / declarations / prints / nested calls; "
               "each called (once or twice; plain, inside do, inside if, next to a caller block local; top level or in a "
               "method) from a scope pre-defining every subset of the 3 names, followed by prints of the caller's "
               "locals and sometimes of a body-only name; evaluation = one program for which the macro version on elk, "
               "the hand expansion (extracted expand_all) on elk and the extracted model are compared on verdict and "
               "printed values; non-trivial = distinct program text",
               samples,
               dict(constructs=dist, programs=tot("programs"), model_accepted=tot("accepted"),
                    model_rejected=tot("rejected"), values_compared=tot("printed"), elk_runs=tot("elk_runs"),
                    mismatching_programs=tot("mismatches"), crashing_programs=tot("crashes"),
                    reject_reasons=st["reject_reasons"], corpus_programs=(st_c["programs"] if st_c else 0)))
    run_cond(ctx, elk, m)
    run_uninit(ctx, elk)
    if st["programs"] and st["accepted"] * 5 < st["programs"]:
        ctx.broke("correspondence %s: fewer than 20%% of the generated programs are accepted by the model (%d of %d)"
                  % (STREAM, st["accepted"], st["programs"]))
